import NurbsVerif.Lemmas.DecompUnclampedSurfV

/-! `decompose_surface(…, decompose_dir='v')` end to end, v knot vector clamped or not. -/
set_option linter.unusedSectionVars false
namespace Geomdl
open Blossom Finset
variable {K : Type} [Field K] [LinearOrder K] [IsStrictOrderedRing K]

/-- **`decompose_surface` in v, end to end, v knot vector clamped or not**: the mirror image of
    `decompose_surface_u_allU` (rows instead of columns). -/
theorem decompose_surface_v_allU (rat : Bool) (pu pv d : ℕ) (tol : K) (fuel : ℕ) (Uu Uv : List K) (su sv : ℕ)
    (P : List (List K)) (hP : NetOk d P) (hlenP : P.length = su * sv)
    (hUm : Monotone (fnOf Uu)) (hsu : pu + 1 ≤ su) (hUn : knotNormalize Uu = Uu)
    (h0 : DecompWFU pv d Uv (rowOf sv P 0) tol)
    (hfuel : (spanStarts pv (fnOf Uv) sv).length ≤ fuel + 1) :
    ∃ pieces : List (List K × ℕ × List (List K)),
      decomposeDirE 1 tol fuel (surfShape rat pu pv Uu Uv su sv P)
        = some (pieces.map (fun q => surfShape rat pu pv Uu q.1 su q.2.1 q.2.2)) ∧
      decomposeDir 1 tol fuel (surfShape rat pu pv Uu Uv su sv P)
        = pieces.map (fun q => surfShape rat pu pv Uu q.1 su q.2.1 q.2.2) ∧
      pieces.length = (spanStarts pv (fnOf Uv) sv).length ∧
      (∀ i, i < pieces.length →
        (pieces.getD i ([], 0, [])).2.1 = pv + 1 ∧
        SplitKvWF pv (pv + 1) (pieces.getD i ([], 0, [])).1 ∧
        (pieces.getD i ([], 0, [])).2.2.length = su * (pv + 1) ∧ NetOk d (pieces.getD i ([], 0, [])).2.2 ∧
        ∀ u, fnOf Uu pu ≤ u → ∀ t, 0 ≤ t → t ≤ 1 → ∀ j,
          (surfacePoint pu pv (fnOf Uu) (fnOf (pieces.getD i ([], 0, [])).1) su (pv + 1)
              (pieces.getD i ([], 0, [])).2.2 u
              (fnOf (pieces.getD i ([], 0, [])).1 pv
                + t * (fnOf (pieces.getD i ([], 0, [])).1 (pv + 1) - fnOf (pieces.getD i ([], 0, [])).1 pv))).getD j 0
            = (surfacePoint pu pv (fnOf Uu) (fnOf Uv) su sv P u
                ((breaks pv (fnOf Uv) sv).getD i 0
                  + t * ((breaks pv (fnOf Uv) sv).getD (i + 1) 0 - (breaks pv (fnOf Uv) sv).getD i 0))).getD j 0) ∧
      (∀ i, i < pieces.length → (1 ≤ i ∨ fnOf Uv 0 = fnOf Uv pv) →
        (i + 1 < pieces.length ∨ fnOf Uv (sv + pv) = fnOf Uv sv) →
        ClampedKv pv (pv + 1) (pieces.getD i ([], 0, [])).1 ∧
        ((pv + 1 < sv ∨ (fnOf Uv 0 = 0 ∧ fnOf Uv (sv + pv) = 1)) → (pieces.getD i ([], 0, [])).1 = bezKv pv)) ∧
      ((pv + 1 < sv ∨ (fnOf Uv 0 = 0 ∧ fnOf Uv (sv + pv) = 1)) → ∀ i, i < pieces.length →
        fnOf (pieces.getD i ([], 0, [])).1 0 = 0 ∧ fnOf (pieces.getD i ([], 0, [])).1 (pv + 1 + pv) = 1) := by
  have hsu0 : 0 < su := by omega
  obtain ⟨pieces, hdec, hok, hrows⟩ :=
    decompose_surface_v_rowsU rat pu pv d tol Uu su hUn hsu0 fuel Uv sv P hP hlenP h0
  have hcurve : ∀ x, x < su → _ := fun x hx =>
    decompose_curve_unclamped_final rat pv d tol fuel Uv (rowOf sv P x) (h0.row hP hlenP x hx)
      (by rw [rowOf_length]; exact hfuel)
  have hmatch : ∀ x, x < su → ∀ (py : List (List K × List (List K))),
      pieces.map (fun q => curveShape rat pv q.1 (rowOf q.2.1 q.2.2 x)) = py.map (fun q => curveShape rat pv q.1 q.2) →
      pieces.length = py.length ∧ ∀ i, i < pieces.length →
        py.getD i ([], []) = ((pieces.getD i ([], 0, [])).1,
          rowOf (pieces.getD i ([], 0, [])).2.1 (pieces.getD i ([], 0, [])).2.2 x) := by
    intro x hx py hm
    have hl : pieces.length = py.length := by
      have := congrArg List.length hm
      simpa using this
    refine ⟨hl, ?_⟩
    intro i hi
    have h1 : (pieces.map (fun q => curveShape rat pv q.1 (rowOf q.2.1 q.2.2 x))).getD i (curveShape rat pv [] [])
        = (py.map (fun q => curveShape rat pv q.1 q.2)).getD i (curveShape rat pv [] []) := by rw [hm]
    rw [getD_map_lt _ pieces i ([], 0, []) _ hi, getD_map_lt _ py i ([], []) _ (by omega)] at h1
    have := curveShape_inj h1
    exact Prod.ext this.1.symm this.2.symm
  obtain ⟨py0, hpy0, _, hlen0, _, hbez0, _, hnorm0⟩ := hcurve 0 hsu0
  rw [hrows 0 hsu0] at hpy0
  obtain ⟨hl0, hel0⟩ := hmatch 0 hsu0 py0 (Option.some.inj hpy0)
  rw [rowOf_length] at hlen0 hbez0 hnorm0
  have hpc : ∀ i, i < pieces.length → ∀ x, x < su →
      SegPiece pv d (curveFn pv Uv (rowOf sv P x)) ((breaks pv (fnOf Uv) sv).getD i 0)
        ((breaks pv (fnOf Uv) sv).getD (i + 1) 0)
        ((pieces.getD i ([], 0, [])).1, rowOf (pieces.getD i ([], 0, [])).2.1 (pieces.getD i ([], 0, [])).2.2 x) := by
    intro i hi x hx
    obtain ⟨py, hpy, _, _, hS, _⟩ := hcurve x hx
    rw [hrows x hx] at hpy
    obtain ⟨hl, hel⟩ := hmatch x hx py (Option.some.inj hpy)
    have := hS i (by omega)
    rw [hel i hi, rowOf_length] at this
    exact this
  refine ⟨pieces, hdec, decomposeDirE_some 1 tol fuel _ _ hdec, by rw [hl0, hlen0], ?_, ?_, ?_⟩
  rotate_left 2
  · intro hc i hi
    have := hnorm0 hc i (by omega)
    rw [hel0 i hi] at this
    exact this
  · intro i hi
    obtain ⟨c0, n0, _⟩ := hpc i hi 0 hsu0
    have hn : (pieces.getD i ([], 0, [])).2.1 = pv + 1 := by
      simp only [rowOf_length] at n0; exact n0
    have hqmem : pieces.getD i ([], 0, []) ∈ pieces := by
      rw [List.getD_eq_getElem _ _ hi]; exact List.getElem_mem _
    obtain ⟨hqlen, hqnet⟩ := hok _ hqmem
    have kq := c0.toSplitKvWF h0.hp
    simp only [rowOf_length] at kq
    rw [hn] at kq hqlen
    refine ⟨hn, kq, hqlen, hqnet, ?_⟩
    intro u hu t ht0 ht1 j
    have hpn : pv + 1 ≤ sv := by have := h0.wf.pn; rw [rowOf_length] at this; exact this
    have hbr := breaks_getD_range pv sv (fnOf Uv) h0.wf.mono (by omega) 0
    have hcnt : (breaks pv (fnOf Uv) sv).length = pieces.length + 1 := by
      rw [breaks_length, hl0, hlen0]
    have ra := hbr i (by omega)
    have rb := hbr (i + 1) (by omega)
    apply surface_rows_eval' pu pv d Uu _ Uv su (pv + 1) sv _ P u _ _ j hUm hsu hu hqnet hqlen hP hlenP
    · have hq0 : fnOf (pieces.getD i ([], 0, [])).1 pv ≤ fnOf (pieces.getD i ([], 0, [])).1 (pv + 1) := kq.mono (by omega)
      obtain ⟨b1, b2, _, _⟩ := findSpanLinear_spec pv (fnOf (pieces.getD i ([], 0, [])).1) (pv + 1)
        (fnOf (pieces.getD i ([], 0, [])).1 pv
          + t * (fnOf (pieces.getD i ([], 0, [])).1 (pv + 1) - fnOf (pieces.getD i ([], 0, [])).1 pv))
        (le_refl _) kq.mono (by nlinarith)
      exact ⟨b1, b2⟩
    · obtain ⟨b1, b2, _, _⟩ := findSpanLinear_spec pv (fnOf Uv) sv
        ((breaks pv (fnOf Uv) sv).getD i 0
          + t * ((breaks pv (fnOf Uv) sv).getD (i + 1) 0 - (breaks pv (fnOf Uv) sv).getD i 0))
        hpn h0.wf.mono (by nlinarith [ra.1, rb.1])
      exact ⟨b1, b2⟩
    · intro x hx
      obtain ⟨_, _, h3⟩ := hpc i hi x hx
      have := h3 t ht0 ht1 j
      rw [hn] at this
      exact this
  · intro i hi hs he
    have := hbez0 i (by omega) hs (by rw [← hl0]; exact he)
    rw [hel0 i hi] at this
    obtain ⟨hb, hkv⟩ := this
    have kq := hb.1.toKv
    simp only [rowOf_length] at kq
    have hn : (pieces.getD i ([], 0, [])).2.1 = pv + 1 := by
      have := hb.2.1
      simp only [rowOf_length] at this; exact this
    rw [hn] at kq
    exact ⟨kq, hkv⟩

end Geomdl
