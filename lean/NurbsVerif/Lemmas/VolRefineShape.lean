import NurbsVerif.Lemmas.RefineObj
import NurbsVerif.Lemmas.VolRefineLift

/-! Object level: well-formed volumes (`VolWF`), "same domain and same points" (`VolSame`, and
    `SurfSame` of RefineObj), what one direction step of `operations.insert_knot` /
    `refine_knotvector` does to a surface or a volume (`Shape.withDir` with an `IsoOp`), and the
    loop over the parametric directions. -/
namespace Geomdl
open Blossom Finset
set_option linter.unusedSectionVars false
variable {K : Type} [Field K] [LinearOrder K] [IsStrictOrderedRing K]

/-- a well-formed volume object: three directions, each with a well-formed knot vector, net of the
    right size with points of one dimension -/
structure VolWF (d : ℕ) (S : Shape K) : Prop where
  degs : S.degs.length = 3
  kvs : S.kvs.length = 3
  sizes : S.sizes.length = 3
  netlen : S.net.length = S.size 0 * S.size 1 * S.size 2
  net : NetOk d S.net
  dir0 : KvWF (S.deg 0) (S.kv 0) (S.size 0)
  dir1 : KvWF (S.deg 1) (S.kv 1) (S.size 1)
  dir2 : KvWF (S.deg 2) (S.kv 2) (S.size 2)

/-- the volume point of a 3-direction shape (spans by the library's linear search) -/
abbrev volEval (S : Shape K) (u v w : K) : List K :=
  volumePoint (S.deg 0) (S.deg 1) (S.deg 2) (fnOf (S.kv 0)) (fnOf (S.kv 1)) (fnOf (S.kv 2))
    (S.size 0) (S.size 1) (S.size 2) S.net u v w

/-- `T` is a well-formed volume with the same domain and the same points as `S` -/
structure VolSame (d : ℕ) (S T : Shape K) : Prop where
  wf : VolWF d T
  lo0 : fnOf (T.kv 0) (T.deg 0) = fnOf (S.kv 0) (S.deg 0)
  hi0 : fnOf (T.kv 0) (T.size 0) = fnOf (S.kv 0) (S.size 0)
  lo1 : fnOf (T.kv 1) (T.deg 1) = fnOf (S.kv 1) (S.deg 1)
  hi1 : fnOf (T.kv 1) (T.size 1) = fnOf (S.kv 1) (S.size 1)
  lo2 : fnOf (T.kv 2) (T.deg 2) = fnOf (S.kv 2) (S.deg 2)
  hi2 : fnOf (T.kv 2) (T.size 2) = fnOf (S.kv 2) (S.size 2)
  eval : ∀ (u v w : K), fnOf (S.kv 0) (S.deg 0) ≤ u → u ≤ fnOf (S.kv 0) (S.size 0) →
    fnOf (S.kv 1) (S.deg 1) ≤ v → v ≤ fnOf (S.kv 1) (S.size 1) →
    fnOf (S.kv 2) (S.deg 2) ≤ w → w ≤ fnOf (S.kv 2) (S.size 2) → ∀ j,
    (volEval T u v w).getD j 0 = (volEval S u v w).getD j 0

theorem VolSame.refl {d : ℕ} {S : Shape K} (h : VolWF d S) : VolSame d S S :=
  ⟨h, rfl, rfl, rfl, rfl, rfl, rfl, fun _ _ _ _ _ _ _ _ _ _ => rfl⟩

theorem VolSame.trans {d : ℕ} {S T R : Shape K} (h1 : VolSame d S T) (h2 : VolSame d T R) : VolSame d S R := by
  refine ⟨h2.wf, h2.lo0.trans h1.lo0, h2.hi0.trans h1.hi0, h2.lo1.trans h1.lo1, h2.hi1.trans h1.hi1,
    h2.lo2.trans h1.lo2, h2.hi2.trans h1.hi2, ?_⟩
  intro u v w a1 a2 b1 b2 c1 c2 j
  rw [h2.eval u v w (by rw [h1.lo0]; exact a1) (by rw [h1.hi0]; exact a2) (by rw [h1.lo1]; exact b1)
    (by rw [h1.hi1]; exact b2) (by rw [h1.lo2]; exact c1) (by rw [h1.hi2]; exact c2) j]
  exact h1.eval u v w a1 a2 b1 b2 c1 c2 j

theorem SurfSame.trans {d : ℕ} {S T R : Shape K} (h1 : SurfSame d S T) (h2 : SurfSame d T R) : SurfSame d S R := by
  refine ⟨h2.wf, h2.lo0.trans h1.lo0, h2.hi0.trans h1.hi0, h2.lo1.trans h1.lo1, h2.hi1.trans h1.hi1, ?_⟩
  intro u v a1 a2 b1 b2 j
  rw [h2.eval u v (by rw [h1.lo0]; exact a1) (by rw [h1.hi0]; exact a2) (by rw [h1.lo1]; exact b1)
    (by rw [h1.hi1]; exact b2) j]
  exact h1.eval u v a1 a2 b1 b2 j

/-- the object after one direction step: new knot vector and size in direction `dir`, the net
    gathered / transformed by `f` / scattered along `dir` -/
abbrev Shape.withDir (S : Shape K) (dir : ℕ) (U' : List K) (f : List (List K) → List (List K)) : Shape K :=
  { S with kvs := S.kvs.set dir U', sizes := S.sizes.set dir (S.mapDir dir f).2, net := (S.mapDir dir f).1 }

/-- a direction step changes only that direction's knot vector and size (and the net) -/
theorem withDir_other (S : Shape K) (dir : ℕ) (U' : List K) (f : List (List K) → List (List K)) :
    (S.withDir dir U' f).degs = S.degs ∧ (S.withDir dir U' f).rat = S.rat ∧
    ∀ d', d' ≠ dir → (S.withDir dir U' f).kv d' = S.kv d' ∧ (S.withDir dir U' f).size d' = S.size d' :=
  ⟨rfl, rfl, fun d' hd => ⟨getD_set_ne _ dir d' _ _ (fun e => hd e.symm), getD_set_ne _ dir d' _ _ (fun e => hd e.symm)⟩⟩

/-! ### surfaces -/

theorem surface_dirOp0 (d : ℕ) (S : Shape K) (hS : SurfWF d S) (U' : List K) (L : ℕ)
    (f : List (List K) → List (List K)) (hop : IsoOp (S.deg 0) d (S.kv 0) U' (S.size 0) L f) :
    SurfSame d S (S.withDir 0 U' f) ∧ (S.withDir 0 U' f).kv 0 = U' ∧ (S.withDir 0 U' f).size 0 = L := by
  have hsv : 0 < S.size 1 := by have := hS.dir1.pn; omega
  have hmap : S.mapDir 0 f = mapSurfU (S.size 0) (S.size 1) S.net f := by
    unfold Shape.mapDir Shape.pdim
    rw [hS.degs]; simp
  obtain ⟨q1, q2, q3, q4⟩ := surfU_isoOp (S.deg 0) (S.deg 1) (S.kv 0) U' (fnOf (S.kv 1)) (S.size 0) (S.size 1) L d S.net f
    hS.net hS.netlen hS.dir0 hop hsv
  obtain ⟨_, _, o3⟩ := withDir_other S 0 U' f
  have e_deg : ∀ i, (S.withDir 0 U' f).deg i = S.deg i := fun i => rfl
  have e_kv1 : (S.withDir 0 U' f).kv 1 = S.kv 1 := (o3 1 (by omega)).1
  have e_s1 : (S.withDir 0 U' f).size 1 = S.size 1 := (o3 1 (by omega)).2
  have e_kv0 : (S.withDir 0 U' f).kv 0 = U' := getD_set_self _ 0 _ _ (by rw [hS.kvs]; omega)
  have e_s0 : (S.withDir 0 U' f).size 0 = L := by
    show (S.sizes.set 0 _).getD 0 0 = _
    rw [getD_set_self _ 0 _ _ (by rw [hS.sizes]; omega), hmap]; exact q1
  have e_net : (S.withDir 0 U' f).net = (mapSurfU (S.size 0) (S.size 1) S.net f).1 := by
    show (S.mapDir 0 f).1 = _
    rw [hmap]
  refine ⟨⟨⟨hS.degs, by simp [hS.kvs], by simp [hS.sizes], ?_, ?_, ?_, ?_⟩, ?_, ?_, ?_, ?_, ?_⟩, e_kv0, e_s0⟩
  · rw [e_net, e_s0, e_s1]; exact q2
  · rw [e_net]; exact q3
  · rw [e_deg, e_kv0, e_s0]; exact hop.kv
  · rw [e_deg, e_kv1, e_s1]; exact hS.dir1
  · rw [e_deg, e_kv0]; exact hop.lo
  · rw [e_kv0, e_s0]; exact hop.hi
  · rw [e_deg, e_kv1]
  · rw [e_kv1, e_s1]
  · intro u v hlo hhi hv _ j
    obtain ⟨a1, a2, _, _⟩ := findSpanLinear_spec (S.deg 1) (fnOf (S.kv 1)) (S.size 1) v hS.dir1.pn hS.dir1.mono hv
    have := q4 (findSpanLinear (S.deg 1) (fnOf (S.kv 1)) (S.size 1) v) a1 a2 u v hlo hhi j
    unfold surfEval surfacePoint
    rw [e_deg, e_deg, e_kv0, e_kv1, e_s0, e_s1, e_net]
    exact this

theorem surface_dirOp1 (d : ℕ) (S : Shape K) (hS : SurfWF d S) (U' : List K) (L : ℕ)
    (f : List (List K) → List (List K)) (hop : IsoOp (S.deg 1) d (S.kv 1) U' (S.size 1) L f) :
    SurfSame d S (S.withDir 1 U' f) ∧ (S.withDir 1 U' f).kv 1 = U' ∧ (S.withDir 1 U' f).size 1 = L := by
  have hsu : 0 < S.size 0 := by have := hS.dir0.pn; omega
  have hmap : S.mapDir 1 f = mapSurfV (S.size 0) (S.size 1) S.net f := by
    unfold Shape.mapDir Shape.pdim
    rw [hS.degs]; simp
  obtain ⟨q1, q2, q3, q4⟩ := surfV_isoOp (S.deg 0) (S.deg 1) (fnOf (S.kv 0)) (S.kv 1) U' (S.size 0) (S.size 1) L d S.net f
    hS.net hS.netlen hS.dir1 hop hsu
  obtain ⟨_, _, o3⟩ := withDir_other S 1 U' f
  have e_deg : ∀ i, (S.withDir 1 U' f).deg i = S.deg i := fun i => rfl
  have e_kv0 : (S.withDir 1 U' f).kv 0 = S.kv 0 := (o3 0 (by omega)).1
  have e_s0 : (S.withDir 1 U' f).size 0 = S.size 0 := (o3 0 (by omega)).2
  have e_kv1 : (S.withDir 1 U' f).kv 1 = U' := getD_set_self _ 1 _ _ (by rw [hS.kvs]; omega)
  have e_s1 : (S.withDir 1 U' f).size 1 = L := by
    show (S.sizes.set 1 _).getD 1 0 = _
    rw [getD_set_self _ 1 _ _ (by rw [hS.sizes]; omega), hmap]; exact q1
  have e_net : (S.withDir 1 U' f).net = (mapSurfV (S.size 0) (S.size 1) S.net f).1 := by
    show (S.mapDir 1 f).1 = _
    rw [hmap]
  refine ⟨⟨⟨hS.degs, by simp [hS.kvs], by simp [hS.sizes], ?_, ?_, ?_, ?_⟩, ?_, ?_, ?_, ?_, ?_⟩, e_kv1, e_s1⟩
  · rw [e_net, e_s0, e_s1]; exact q2
  · rw [e_net]; exact q3
  · rw [e_deg, e_kv0, e_s0]; exact hS.dir0
  · rw [e_deg, e_kv1, e_s1]; exact hop.kv
  · rw [e_deg, e_kv0]
  · rw [e_kv0, e_s0]
  · rw [e_deg, e_kv1]; exact hop.lo
  · rw [e_kv1, e_s1]; exact hop.hi
  · intro u v hu _ hlo hhi j
    obtain ⟨a1, a2, _, _⟩ := findSpanLinear_spec (S.deg 0) (fnOf (S.kv 0)) (S.size 0) u hS.dir0.pn hS.dir0.mono hu
    have := q4 (findSpanLinear (S.deg 0) (fnOf (S.kv 0)) (S.size 0) u) a1 a2 u v hlo hhi j
    unfold surfEval surfacePoint
    rw [e_deg, e_deg, e_kv0, e_kv1, e_s0, e_s1, e_net]
    exact this

/-- what one direction step of an object-level operation may do: nothing, or an `IsoOp` along `dir` -/
def DirStepOk (d : ℕ) (T T' : Shape K) (dir : ℕ) : Prop :=
  T' = T ∨ ∃ (U' : List K) (L : ℕ) (f : List (List K) → List (List K)),
    IsoOp (T.deg dir) d (T.kv dir) U' (T.size dir) L f ∧ T' = T.withDir dir U' f

theorem surf_step (d : ℕ) (T T' : Shape K) (dir : ℕ) (hdir : dir < 2) (hT : SurfWF d T) (h : DirStepOk d T T' dir) :
    SurfSame d T T' ∧ T'.degs = T.degs ∧ T'.rat = T.rat ∧
    ∀ d', d' ≠ dir → T'.kv d' = T.kv d' ∧ T'.size d' = T.size d' := by
  rcases h with rfl | ⟨U', L, f, hop, rfl⟩
  · exact ⟨SurfSame.refl hT, rfl, rfl, fun _ _ => ⟨rfl, rfl⟩⟩
  · obtain ⟨o1, o2, o3⟩ := withDir_other T dir U' f
    refine ⟨?_, o1, o2, o3⟩
    rcases (by omega : dir = 0 ∨ dir = 1) with rfl | rfl
    · exact (surface_dirOp0 d T hT U' L f hop).1
    · exact (surface_dirOp1 d T hT U' L f hop).1

/-- the loop over the two directions of a surface -/
theorem dirFold_surface (d : ℕ) (S : Shape K) (hS : SurfWF d S) (flagOk : Prop)
    (step : Shape K × Bool → ℕ → Shape K × Bool)
    (hstep : ∀ (T : Shape K) (b : Bool) (dir : ℕ), dir < 2 → SurfWF d T → T.degs = S.degs → T.rat = S.rat →
      T.kv dir = S.kv dir → T.size dir = S.size dir →
      DirStepOk d T (step (T, b) dir).1 dir ∧ (flagOk → b = true → (step (T, b) dir).2 = true)) :
    SurfSame d S ((List.range S.pdim).foldl step (S, true)).1 ∧
    ((List.range S.pdim).foldl step (S, true)).1.degs = S.degs ∧
    ((List.range S.pdim).foldl step (S, true)).1.rat = S.rat ∧
    (flagOk → ((List.range S.pdim).foldl step (S, true)).2 = true) := by
  have hpd : S.pdim = 2 := hS.degs
  rw [hpd, show List.range 2 = [0, 1] from rfl]
  simp only [List.foldl_cons, List.foldl_nil]
  obtain ⟨a1, a2⟩ := hstep S true 0 (by omega) hS rfl rfl rfl rfl
  obtain ⟨s1, s2, s2', s3⟩ := surf_step d S _ 0 (by omega) hS a1
  obtain ⟨b1, b2⟩ := hstep (step (S, true) 0).1 (step (S, true) 0).2 1 (by omega) s1.wf s2 s2' (s3 1 (by omega)).1 (s3 1 (by omega)).2
  obtain ⟨t1, t2, t2', _⟩ := surf_step d _ _ 1 (by omega) s1.wf b1
  exact ⟨s1.trans t1, t2.trans s2, t2'.trans s2', fun hf => b2 hf (a2 hf rfl)⟩

/-! ### volumes -/

theorem mapDir_vol (S : Shape K) (dir : ℕ) (f : List (List K) → List (List K)) (h : S.degs.length = 3) :
    S.mapDir dir f = mapVol dir (S.size 0) (S.size 1) (S.size 2) S.net f := by
  unfold Shape.mapDir Shape.pdim
  rw [h, if_neg (by omega), if_neg (by omega)]

theorem volume_dirOp0 (d : ℕ) (S : Shape K) (hS : VolWF d S) (U' : List K) (L : ℕ)
    (f : List (List K) → List (List K)) (hop : IsoOp (S.deg 0) d (S.kv 0) U' (S.size 0) L f) :
    VolSame d S (S.withDir 0 U' f) ∧ (S.withDir 0 U' f).kv 0 = U' ∧ (S.withDir 0 U' f).size 0 = L := by
  have hsv : 0 < S.size 1 := by have := hS.dir1.pn; omega
  have hsw : 0 < S.size 2 := by have := hS.dir2.pn; omega
  have hmap := mapDir_vol S 0 f hS.degs
  obtain ⟨q1, q2, q3, q4⟩ := volU_isoOp (S.deg 0) (S.deg 1) (S.deg 2) (S.kv 0) U' (fnOf (S.kv 1)) (fnOf (S.kv 2))
    (S.size 0) (S.size 1) (S.size 2) L d S.net f hS.net hS.netlen hS.dir0 hop hsv hsw
  obtain ⟨_, _, o3⟩ := withDir_other S 0 U' f
  have e_deg : ∀ i, (S.withDir 0 U' f).deg i = S.deg i := fun i => rfl
  have e_kv1 : (S.withDir 0 U' f).kv 1 = S.kv 1 := (o3 1 (by omega)).1
  have e_s1 : (S.withDir 0 U' f).size 1 = S.size 1 := (o3 1 (by omega)).2
  have e_kv2 : (S.withDir 0 U' f).kv 2 = S.kv 2 := (o3 2 (by omega)).1
  have e_s2 : (S.withDir 0 U' f).size 2 = S.size 2 := (o3 2 (by omega)).2
  have e_kv0 : (S.withDir 0 U' f).kv 0 = U' := getD_set_self _ 0 _ _ (by rw [hS.kvs]; omega)
  have e_s0 : (S.withDir 0 U' f).size 0 = L := by
    show (S.sizes.set 0 _).getD 0 0 = _
    rw [getD_set_self _ 0 _ _ (by rw [hS.sizes]; omega), hmap]; exact q1
  have e_net : (S.withDir 0 U' f).net = (mapVol 0 (S.size 0) (S.size 1) (S.size 2) S.net f).1 := by
    show (S.mapDir 0 f).1 = _
    rw [hmap]
  refine ⟨⟨⟨hS.degs, by simp [hS.kvs], by simp [hS.sizes], ?_, ?_, ?_, ?_, ?_⟩, ?_, ?_, ?_, ?_, ?_, ?_, ?_⟩, e_kv0, e_s0⟩
  · rw [e_net, e_s0, e_s1, e_s2]; exact q2
  · rw [e_net]; exact q3
  · rw [e_deg, e_kv0, e_s0]; exact hop.kv
  · rw [e_deg, e_kv1, e_s1]; exact hS.dir1
  · rw [e_deg, e_kv2, e_s2]; exact hS.dir2
  · rw [e_deg, e_kv0]; exact hop.lo
  · rw [e_kv0, e_s0]; exact hop.hi
  · rw [e_deg, e_kv1]
  · rw [e_kv1, e_s1]
  · rw [e_deg, e_kv2]
  · rw [e_kv2, e_s2]
  · intro u v w hlo hhi hv _ hw _ j
    obtain ⟨a1, a2, _, _⟩ := findSpanLinear_spec (S.deg 1) (fnOf (S.kv 1)) (S.size 1) v hS.dir1.pn hS.dir1.mono hv
    obtain ⟨b1, b2, _, _⟩ := findSpanLinear_spec (S.deg 2) (fnOf (S.kv 2)) (S.size 2) w hS.dir2.pn hS.dir2.mono hw
    have := q4 _ _ a1 a2 b1 b2 u v w hlo hhi j
    unfold volEval volumePoint
    rw [e_deg, e_deg, e_deg, e_kv0, e_kv1, e_kv2, e_s0, e_s1, e_s2, e_net]
    exact this

theorem volume_dirOp1 (d : ℕ) (S : Shape K) (hS : VolWF d S) (U' : List K) (L : ℕ)
    (f : List (List K) → List (List K)) (hop : IsoOp (S.deg 1) d (S.kv 1) U' (S.size 1) L f) :
    VolSame d S (S.withDir 1 U' f) ∧ (S.withDir 1 U' f).kv 1 = U' ∧ (S.withDir 1 U' f).size 1 = L := by
  have hsu : 0 < S.size 0 := by have := hS.dir0.pn; omega
  have hsw : 0 < S.size 2 := by have := hS.dir2.pn; omega
  have hmap := mapDir_vol S 1 f hS.degs
  obtain ⟨q1, q2, q3, q4⟩ := volV_isoOp (S.deg 0) (S.deg 1) (S.deg 2) (fnOf (S.kv 0)) (S.kv 1) U' (fnOf (S.kv 2))
    (S.size 0) (S.size 1) (S.size 2) L d S.net f hS.net hS.netlen hS.dir1 hop hsu hsw
  obtain ⟨_, _, o3⟩ := withDir_other S 1 U' f
  have e_deg : ∀ i, (S.withDir 1 U' f).deg i = S.deg i := fun i => rfl
  have e_kv0 : (S.withDir 1 U' f).kv 0 = S.kv 0 := (o3 0 (by omega)).1
  have e_s0 : (S.withDir 1 U' f).size 0 = S.size 0 := (o3 0 (by omega)).2
  have e_kv2 : (S.withDir 1 U' f).kv 2 = S.kv 2 := (o3 2 (by omega)).1
  have e_s2 : (S.withDir 1 U' f).size 2 = S.size 2 := (o3 2 (by omega)).2
  have e_kv1 : (S.withDir 1 U' f).kv 1 = U' := getD_set_self _ 1 _ _ (by rw [hS.kvs]; omega)
  have e_s1 : (S.withDir 1 U' f).size 1 = L := by
    show (S.sizes.set 1 _).getD 1 0 = _
    rw [getD_set_self _ 1 _ _ (by rw [hS.sizes]; omega), hmap]; exact q1
  have e_net : (S.withDir 1 U' f).net = (mapVol 1 (S.size 0) (S.size 1) (S.size 2) S.net f).1 := by
    show (S.mapDir 1 f).1 = _
    rw [hmap]
  refine ⟨⟨⟨hS.degs, by simp [hS.kvs], by simp [hS.sizes], ?_, ?_, ?_, ?_, ?_⟩, ?_, ?_, ?_, ?_, ?_, ?_, ?_⟩, e_kv1, e_s1⟩
  · rw [e_net, e_s0, e_s1, e_s2]; exact q2
  · rw [e_net]; exact q3
  · rw [e_deg, e_kv0, e_s0]; exact hS.dir0
  · rw [e_deg, e_kv1, e_s1]; exact hop.kv
  · rw [e_deg, e_kv2, e_s2]; exact hS.dir2
  · rw [e_deg, e_kv0]
  · rw [e_kv0, e_s0]
  · rw [e_deg, e_kv1]; exact hop.lo
  · rw [e_kv1, e_s1]; exact hop.hi
  · rw [e_deg, e_kv2]
  · rw [e_kv2, e_s2]
  · intro u v w hu _ hlo hhi hw _ j
    obtain ⟨a1, a2, _, _⟩ := findSpanLinear_spec (S.deg 0) (fnOf (S.kv 0)) (S.size 0) u hS.dir0.pn hS.dir0.mono hu
    obtain ⟨b1, b2, _, _⟩ := findSpanLinear_spec (S.deg 2) (fnOf (S.kv 2)) (S.size 2) w hS.dir2.pn hS.dir2.mono hw
    have := q4 _ _ a1 a2 b1 b2 u v w hlo hhi j
    unfold volEval volumePoint
    rw [e_deg, e_deg, e_deg, e_kv0, e_kv1, e_kv2, e_s0, e_s1, e_s2, e_net]
    exact this

theorem volume_dirOp2 (d : ℕ) (S : Shape K) (hS : VolWF d S) (U' : List K) (L : ℕ)
    (f : List (List K) → List (List K)) (hop : IsoOp (S.deg 2) d (S.kv 2) U' (S.size 2) L f) :
    VolSame d S (S.withDir 2 U' f) ∧ (S.withDir 2 U' f).kv 2 = U' ∧ (S.withDir 2 U' f).size 2 = L := by
  have hsu : 0 < S.size 0 := by have := hS.dir0.pn; omega
  have hsv : 0 < S.size 1 := by have := hS.dir1.pn; omega
  have hmap := mapDir_vol S 2 f hS.degs
  obtain ⟨q1, q2, q3, q4⟩ := volW_isoOp (S.deg 0) (S.deg 1) (S.deg 2) (fnOf (S.kv 0)) (fnOf (S.kv 1)) (S.kv 2) U'
    (S.size 0) (S.size 1) (S.size 2) L d S.net f hS.net hS.netlen hS.dir2 hop hsu hsv
  obtain ⟨_, _, o3⟩ := withDir_other S 2 U' f
  have e_deg : ∀ i, (S.withDir 2 U' f).deg i = S.deg i := fun i => rfl
  have e_kv0 : (S.withDir 2 U' f).kv 0 = S.kv 0 := (o3 0 (by omega)).1
  have e_s0 : (S.withDir 2 U' f).size 0 = S.size 0 := (o3 0 (by omega)).2
  have e_kv1 : (S.withDir 2 U' f).kv 1 = S.kv 1 := (o3 1 (by omega)).1
  have e_s1 : (S.withDir 2 U' f).size 1 = S.size 1 := (o3 1 (by omega)).2
  have e_kv2 : (S.withDir 2 U' f).kv 2 = U' := getD_set_self _ 2 _ _ (by rw [hS.kvs]; omega)
  have e_s2 : (S.withDir 2 U' f).size 2 = L := by
    show (S.sizes.set 2 _).getD 2 0 = _
    rw [getD_set_self _ 2 _ _ (by rw [hS.sizes]; omega), hmap]; exact q1
  have e_net : (S.withDir 2 U' f).net = (mapVol 2 (S.size 0) (S.size 1) (S.size 2) S.net f).1 := by
    show (S.mapDir 2 f).1 = _
    rw [hmap]
  refine ⟨⟨⟨hS.degs, by simp [hS.kvs], by simp [hS.sizes], ?_, ?_, ?_, ?_, ?_⟩, ?_, ?_, ?_, ?_, ?_, ?_, ?_⟩, e_kv2, e_s2⟩
  · rw [e_net, e_s0, e_s1, e_s2]; exact q2
  · rw [e_net]; exact q3
  · rw [e_deg, e_kv0, e_s0]; exact hS.dir0
  · rw [e_deg, e_kv1, e_s1]; exact hS.dir1
  · rw [e_deg, e_kv2, e_s2]; exact hop.kv
  · rw [e_deg, e_kv0]
  · rw [e_kv0, e_s0]
  · rw [e_deg, e_kv1]
  · rw [e_kv1, e_s1]
  · rw [e_deg, e_kv2]; exact hop.lo
  · rw [e_kv2, e_s2]; exact hop.hi
  · intro u v w hu _ hv _ hlo hhi j
    obtain ⟨a1, a2, _, _⟩ := findSpanLinear_spec (S.deg 0) (fnOf (S.kv 0)) (S.size 0) u hS.dir0.pn hS.dir0.mono hu
    obtain ⟨b1, b2, _, _⟩ := findSpanLinear_spec (S.deg 1) (fnOf (S.kv 1)) (S.size 1) v hS.dir1.pn hS.dir1.mono hv
    have := q4 _ _ a1 a2 b1 b2 u v w hlo hhi j
    unfold volEval volumePoint
    rw [e_deg, e_deg, e_deg, e_kv0, e_kv1, e_kv2, e_s0, e_s1, e_s2, e_net]
    exact this

theorem vol_step (d : ℕ) (T T' : Shape K) (dir : ℕ) (hdir : dir < 3) (hT : VolWF d T) (h : DirStepOk d T T' dir) :
    VolSame d T T' ∧ T'.degs = T.degs ∧ T'.rat = T.rat ∧
    ∀ d', d' ≠ dir → T'.kv d' = T.kv d' ∧ T'.size d' = T.size d' := by
  rcases h with rfl | ⟨U', L, f, hop, rfl⟩
  · exact ⟨VolSame.refl hT, rfl, rfl, fun _ _ => ⟨rfl, rfl⟩⟩
  · obtain ⟨o1, o2, o3⟩ := withDir_other T dir U' f
    refine ⟨?_, o1, o2, o3⟩
    rcases (by omega : dir = 0 ∨ dir = 1 ∨ dir = 2) with rfl | rfl | rfl
    · exact (volume_dirOp0 d T hT U' L f hop).1
    · exact (volume_dirOp1 d T hT U' L f hop).1
    · exact (volume_dirOp2 d T hT U' L f hop).1

/-- the loop over the three directions of a volume -/
theorem dirFold_volume (d : ℕ) (S : Shape K) (hS : VolWF d S) (flagOk : Prop)
    (step : Shape K × Bool → ℕ → Shape K × Bool)
    (hstep : ∀ (T : Shape K) (b : Bool) (dir : ℕ), dir < 3 → VolWF d T → T.degs = S.degs → T.rat = S.rat →
      T.kv dir = S.kv dir → T.size dir = S.size dir →
      DirStepOk d T (step (T, b) dir).1 dir ∧ (flagOk → b = true → (step (T, b) dir).2 = true)) :
    VolSame d S ((List.range S.pdim).foldl step (S, true)).1 ∧
    ((List.range S.pdim).foldl step (S, true)).1.degs = S.degs ∧
    ((List.range S.pdim).foldl step (S, true)).1.rat = S.rat ∧
    (flagOk → ((List.range S.pdim).foldl step (S, true)).2 = true) := by
  have hpd : S.pdim = 3 := hS.degs
  rw [hpd, show List.range 3 = [0, 1, 2] from rfl]
  simp only [List.foldl_cons, List.foldl_nil]
  obtain ⟨a1, a2⟩ := hstep S true 0 (by omega) hS rfl rfl rfl rfl
  obtain ⟨s1, s2, s2', s3⟩ := vol_step d S _ 0 (by omega) hS a1
  obtain ⟨b1, b2⟩ := hstep (step (S, true) 0).1 (step (S, true) 0).2 1 (by omega) s1.wf s2 s2'
    (s3 1 (by omega)).1 (s3 1 (by omega)).2
  obtain ⟨t1, t2, t2', t3⟩ := vol_step d _ _ 1 (by omega) s1.wf b1
  have hw := (s1.trans t1).wf
  obtain ⟨c1, c2⟩ := hstep (step (step (S, true) 0) 1).1 (step (step (S, true) 0) 1).2 2 (by omega) hw (t2.trans s2)
    (t2'.trans s2') ((t3 2 (by omega)).1.trans (s3 2 (by omega)).1) ((t3 2 (by omega)).2.trans (s3 2 (by omega)).2)
  obtain ⟨r1, r2, r2', _⟩ := vol_step d _ _ 2 (by omega) hw c1
  exact ⟨(s1.trans t1).trans r1, (r2.trans t2).trans s2, (r2'.trans t2').trans s2',
    fun hf => c2 hf (b2 hf (a2 hf rfl))⟩

end Geomdl
