import NurbsVerif.Lemmas.DecompUnclampedSurfUMain
import NurbsVerif.Lemmas.DecompUnclampedSurfVMain
import NurbsVerif.Lemmas.DecompUnclampedSurfUV
import NurbsVerif.Lemmas.SplitUnclampedExamples

/-! A concrete UNCLAMPED input satisfying the hypotheses of the unclamped decomposition theorems (used by
    the non-vacuity examples of Props/C07): the quadratic of `SplitUEx` with its knot vector normalised,
    `[0, 1/10, 3/10, 2/5, 3/5, 7/10, 9/10, 1]` (five control points, domain `[3/10, 7/10]`, inner knots
    `2/5`, `3/5`: three pieces), and the raising pattern `[0,1,1,2,3,4]` of degree 1. -/
namespace Geomdl.DecompUEx
open Geomdl Blossom

def U : List ℚ := [0, 1/10, 3/10, 2/5, 3/5, 7/10, 9/10, 1]
def P : List (List ℚ) := SplitUEx.P
def tol : ℚ := SplitUEx.tol

theorem mono_U : Monotone (fnOf U) := by
  apply monotone_nat_of_le_succ
  intro n
  rcases n with _|_|_|_|_|_|_|_|n <;> (simp [U, fnOf, List.getD]; try norm_num)

theorem wf : CurveWF 2 2 U P where
  mono := mono_U
  len := by simp [U, P, SplitUEx.P]
  pn := by simp [P, SplitUEx.P]
  last := by simp [U, P, SplitUEx.P, fnOf, List.getD]; norm_num
  net := SplitUEx.wf.net

theorem sep_pair : ∀ x ∈ U, ∀ y ∈ U, |x - y| ≤ tol → y = x := by
  intro x hx y hy h
  simp [U] at hx hy
  rcases hx with rfl | rfl | rfl | rfl | rfl | rfl | rfl | rfl <;>
    rcases hy with rfl | rfl | rfl | rfl | rfl | rfl | rfl | rfl <;>
    first | rfl | (exfalso; norm_num [abs_le, tol, SplitUEx.tol] at h)

/-- the normalised unclamped quadratic is admissible for the unclamped decomposition theorems -/
theorem decompWFU : DecompWFU 2 2 U P tol where
  wf := wf
  hp := by omega
  first := by simp [U, fnOf, List.getD]; norm_num
  mul := by
    intro i h1 h2
    have h2' : i < 5 := by simpa [P, SplitUEx.P] using h2
    rcases i with _|_|_|_|_|i
    all_goals first | omega | (simp [U, fnOf, List.getD]; try norm_num)
  unit := by simp [U, P, SplitUEx.P, fnOf, List.getD]
  tol0 := by norm_num [tol, SplitUEx.tol]
  sep := sep_pair

/-- its three non-empty intervals start at the knots `U_2`, `U_3`, `U_4` -/
theorem starts : spanStarts 2 (fnOf U) P.length = [2, 3, 4] := by
  simp [spanStarts, P, SplitUEx.P, U, fnOf, List.getD, List.range', List.filter]
  norm_num

/-! a 5 × 3 surface of degrees (2, 1) over `U` and the unclamped, normalised v knot vector
    `VN = [0, 1/4, 1/2, 3/4, 1]` (three control points in v, domain `[1/4, 3/4]`, inner knot `1/2`) -/
def VN : List ℚ := [0, 1/4, 1/2, 3/4, 1]
def PSN : List (List ℚ) :=
  [[0,0,0],[0,1,1],[0,2,3],[1,0,2],[1,1,0],[1,2,1],[2,0,1],[2,1,3],[2,2,2],[3,0,0],[3,1,1],[3,2,4],[4,0,2],[4,1,5],[4,2,1]]

theorem mono_VN : Monotone (fnOf VN) := by
  apply monotone_nat_of_le_succ
  intro n
  rcases n with _|_|_|_|_|n <;> (simp [VN, fnOf, List.getD]; try norm_num)

theorem netSN : NetOk 3 PSN := by
  intro pt hpt
  simp [PSN] at hpt
  rcases hpt with h | h | h | h | h | h | h | h | h | h | h | h | h | h | h <;> simp [h]

theorem norm_U : knotNormalize U = U := by simp [knotNormalize, U]
theorem norm_VN : knotNormalize VN = VN := by simp [knotNormalize, VN]

theorem sep_pair_VN : ∀ x ∈ VN, ∀ y ∈ VN, |x - y| ≤ tol → y = x := by
  intro x hx y hy h
  simp [VN] at hx hy
  rcases hx with rfl | rfl | rfl | rfl | rfl <;> rcases hy with rfl | rfl | rfl | rfl | rfl <;>
    first | rfl | (exfalso; norm_num [abs_le, tol, SplitUEx.tol] at h)

/-- column 0 of the 5 × 3 surface is an admissible (unclamped) quadratic -/
theorem decompWFU_col : DecompWFU 2 3 U (colOf 5 3 PSN 0) tol :=
  decompWFU.swap (by rw [colOf_length]; simp [P, SplitUEx.P])
    (colOf_netOk 5 3 3 PSN netSN (by simp [PSN]) 0 (by omega))

/-- row 0 of the 5 × 3 surface is an admissible (unclamped) polygon of degree 1 -/
theorem decompWFU_row : DecompWFU 1 3 VN (rowOf 3 PSN 0) tol where
  wf := {
    mono := mono_VN
    len := by rw [rowOf_length]; simp [VN]
    pn := by rw [rowOf_length]; omega
    last := by rw [rowOf_length]; simp [VN, fnOf, List.getD]; norm_num
    net := rowOf_netOk 5 3 3 PSN netSN (by simp [PSN]) 0 (by omega) }
  hp := by omega
  first := by simp [VN, fnOf, List.getD]; norm_num
  mul := by
    intro i h1 h2
    rw [rowOf_length] at h2
    have : i = 2 := by omega
    subst this
    simp [VN, fnOf, List.getD]; norm_num
  unit := by rw [rowOf_length]; simp [VN, fnOf, List.getD]
  tol0 := by norm_num [tol, SplitUEx.tol]
  sep := sep_pair_VN

/-- the pattern on which the implementation raises: degree 1, `U_{p+1} = U_p` -/
def UR : List ℚ := [0, 1, 1, 2, 3, 4]
def PR : List (List ℚ) := [[0,0],[1,2],[3,1],[4,4]]

end Geomdl.DecompUEx
