import NurbsVerif.Model.SurfDersLoops
import NurbsVerif.Lemmas.Degree
import NurbsVerif.Lemmas.EvalSpec

/-! Generic facts about loops that fill the arrays `Arr1`, `Arr2`, `Arr4` of
    `Model/SurfDersLoops.lean` entry by entry, and about the accumulation `axpy`. -/
namespace Geomdl
open Finset

theorem upd1_get {α : Type} (f : Arr1 α) (i a : ℕ) (v : α) :
    (upd1 f i v).get a = if a = i then v else f.get a := rfl

theorem upd2_get' {α : Type} (f : Arr2 α) (i j a b : ℕ) (v : α) :
    (upd2 f i j v).get a b = if a = i ∧ b = j then v else f.get a b := rfl

theorem upd4_get {α : Type} (f : Arr4 α) (k l i j a b c e : ℕ) (v : α) :
    (upd4 f k l i j v).get a b c e = if a = k ∧ b = l ∧ c = i ∧ e = j then v else f.get a b c e := rfl

/-- a loop that assigns `arr[s]` only, each time from its current value -/
theorem foldl_upd1 {α ι : Type} (s : ℕ) (g : α → ι → α) : ∀ (L : List ι) (f : Arr1 α) (a : ℕ),
    (L.foldl (fun t r => upd1 t s (g (t.get s) r)) f).get a
      = if a = s then L.foldl g (f.get s) else f.get a := by
  intro L
  induction L with
  | nil => intro f a; by_cases h : a = s <;> simp [h]
  | cons x xs ih =>
    intro f a
    simp only [List.foldl_cons]
    rw [ih]
    by_cases h : a = s
    · simp [h, upd1_get]
    · simp [h, upd1_get]

/-- an outer loop `for s in range(n)` whose body rewrites entry `s` only -/
theorem foldl_rows1 {α : Type} (F : Arr1 α → ℕ → Arr1 α) (h : ℕ → α → α)
    (hF : ∀ t s a, (F t s).get a = if a = s then h s (t.get s) else t.get a) :
    ∀ (n : ℕ) (f : Arr1 α) (a : ℕ),
      ((List.range n).foldl F f).get a = if a < n then h a (f.get a) else f.get a := by
  intro n
  induction n with
  | zero => intro f a; simp
  | succ n ih =>
    intro f a
    rw [List.range_succ, List.foldl_append]
    simp only [List.foldl_cons, List.foldl_nil]
    rw [hF]
    by_cases h1 : a = n
    · subst h1
      rw [if_pos rfl, if_pos (by omega), ih, if_neg (by omega)]
    · rw [if_neg h1, ih]
      by_cases h2 : a < n
      · rw [if_pos h2, if_pos (by omega)]
      · rw [if_neg h2, if_neg (by omega)]

/-- a loop that assigns `arr[k][l]` only, each time from its current value -/
theorem foldl_upd2 {α ι : Type} (k l : ℕ) (g : α → ι → α) : ∀ (L : List ι) (T : Arr2 α) (a b : ℕ),
    (L.foldl (fun T s => upd2 T k l (g (T.get k l) s)) T).get a b
      = if a = k ∧ b = l then L.foldl g (T.get k l) else T.get a b := by
  intro L
  induction L with
  | nil => intro T a b; by_cases h : a = k ∧ b = l <;> simp [h]
  | cons x xs ih =>
    intro T a b
    simp only [List.foldl_cons]
    rw [ih]
    by_cases h : a = k ∧ b = l
    · simp [h, upd2_get']
    · simp [h, upd2_get']

/-- a loop `for l in range(n)` whose body rewrites entry `[k][l]` only -/
theorem foldl_cols2 {α : Type} (k : ℕ) (F : Arr2 α → ℕ → Arr2 α) (h : ℕ → α → α)
    (hF : ∀ T l a b, (F T l).get a b = if a = k ∧ b = l then h l (T.get k l) else T.get a b) :
    ∀ (n : ℕ) (T : Arr2 α) (a b : ℕ),
      ((List.range n).foldl F T).get a b = if a = k ∧ b < n then h b (T.get k b) else T.get a b := by
  intro n
  induction n with
  | zero => intro T a b; simp
  | succ n ih =>
    intro T a b
    rw [List.range_succ, List.foldl_append]
    simp only [List.foldl_cons, List.foldl_nil]
    rw [hF]
    by_cases h1 : a = k ∧ b = n
    · obtain ⟨rfl, rfl⟩ := h1
      rw [if_pos ⟨rfl, rfl⟩, if_pos ⟨rfl, by omega⟩, ih, if_neg (by omega)]
    · rw [if_neg h1, ih]
      by_cases h2 : a = k ∧ b < n
      · rw [if_pos h2, if_pos ⟨h2.1, by omega⟩]
      · rw [if_neg h2, if_neg (by omega)]

/-- a loop `for k in range(n)` whose body rewrites the entries `[k][b]`, `b < m k`, only -/
theorem foldl_rows2 {α : Type} (F : Arr2 α → ℕ → Arr2 α) (m : ℕ → ℕ) (h : ℕ → ℕ → α → α)
    (hF : ∀ T k a b, (F T k).get a b = if a = k ∧ b < m k then h k b (T.get k b) else T.get a b) :
    ∀ (n : ℕ) (T : Arr2 α) (a b : ℕ),
      ((List.range n).foldl F T).get a b = if a < n ∧ b < m a then h a b (T.get a b) else T.get a b := by
  intro n
  induction n with
  | zero => intro T a b; simp
  | succ n ih =>
    intro T a b
    rw [List.range_succ, List.foldl_append]
    simp only [List.foldl_cons, List.foldl_nil]
    rw [hF]
    by_cases h1 : a = n
    · subst h1
      by_cases h2 : b < m a
      · rw [if_pos ⟨rfl, h2⟩, if_pos ⟨by omega, h2⟩, ih, if_neg (by omega)]
      · rw [if_neg (by tauto), if_neg (by tauto), ih, if_neg (by omega)]
    · rw [if_neg (by tauto), ih]
      by_cases h2 : a < n ∧ b < m a
      · rw [if_pos h2, if_pos ⟨by omega, h2.2⟩]
      · rw [if_neg h2, if_neg (by omega)]

section field
variable {K : Type} [Field K]

/-- `for j in range(n): acc = [a + c_j * x for a, x in zip(acc, pt_j)]` from the zero vector -/
theorem foldl_axpy_range (c : ℕ → K) (pt : ℕ → List K) (d n : ℕ) (hpt : ∀ j, j < n → (pt j).length = d) :
    ((List.range n).foldl (fun acc j => axpy (c j) acc (pt j)) (vzero d)).length = d ∧
    ∀ i, ((List.range n).foldl (fun acc j => axpy (c j) acc (pt j)) (vzero d)).getD i 0
      = ∑ j ∈ range n, c j * (pt j).getD i 0 := by
  obtain ⟨h1, h2⟩ := foldl_axpy c pt d (List.range n) (vzero d) (by simp [vzero])
    (fun j hj => hpt j (List.mem_range.mp hj))
  refine ⟨h1, fun i => ?_⟩
  rw [h2 i, list_sum_range]
  have : (vzero d : List K).getD i 0 = 0 := by
    simp only [vzero, List.getD_eq_getElem?_getD, List.getElem?_replicate]
    split <;> simp
  rw [this, zero_add]

/-- two coordinate lists of the same length with the same coordinates are equal -/
theorem coordList_ext (x y : List K) (d : ℕ) (hx : x.length = d) (hy : y.length = d)
    (h : ∀ i, i < d → x.getD i 0 = y.getD i 0) : x = y := by
  apply List.ext_getElem (by omega)
  intro i h1 h2
  have := h i (by omega)
  simpa [List.getD_eq_getElem?_getD, h1, h2] using this

end field
end Geomdl
