import NurbsVerif.Lemmas.DersSum

/-! The spec-level derivative table `basisDers` entry by entry: row `k`, column `r` is the `k`-th
    derivative of the `r`-th basis polynomial of the span (`basisSpanPoly`), and that polynomial
    evaluates to the A2.2 value `basisFuns[r]` at every parameter. -/
namespace Geomdl
open Blossom Polynomial Finset
variable {K : Type} [Field K] [LinearOrder K] [IsStrictOrderedRing K]

/-- the `r`-th non-vanishing basis function of the span `κ` as a polynomial: the span polynomial
    (de Boor scheme with the indeterminate as parameter) of the unit control sequence `e_{κ-p+r}` -/
noncomputable def basisSpanPoly (p : ℕ) (U : ℕ → K) (κ r : ℕ) : K[X] :=
  polP U p p (fun m => C (if m = κ - p + r then (1:K) else 0)) κ

theorem spanPoly_unitNet (p : ℕ) (U : ℕ → K) (κ r : ℕ) (hr : r ≤ p) (hp : p ≤ κ) :
    spanPoly p U (unitNet κ p r) κ 0 = basisSpanPoly p U κ r := by
  unfold spanPoly basisSpanPoly
  congr 1
  funext m
  rw [unitNet_coord κ p r m hr hp]

/-- the basis polynomial evaluates to the value A2.2 returns, at every parameter `u` -/
theorem eval_basisSpanPoly (p : ℕ) (U : ℕ → K) (κ : ℕ) (u : K) (r : ℕ) (hp : p ≤ κ) (hr : r ≤ p) :
    eval u (basisSpanPoly p U κ r) = (basisFuns p U κ u).getD r 0 := by
  rw [← basisDers_zero_row p U κ u 0 r hp hr, basisDers_entry p U κ u 0 0 r (le_refl _) hr,
    curveDersAt_zero p U (unitNet κ p r) κ u 1 0 0 hp (by simp [unitNet]) (unitNet_netOk κ p r),
    spanPoly_unitNet p U κ r hr hp]

/-- **`basisDers[k][r]` is the `k`-th derivative of the `r`-th basis polynomial of the span** (zero
    above the degree), for every `k ≤ d` and `r ≤ p` -/
theorem basisDers_eq_derivative (p : ℕ) (U : ℕ → K) (κ : ℕ) (u : K) (d k r : ℕ)
    (hp : p ≤ κ) (hm : Monotone U) (hspan : U κ < U (κ+1)) (hk : k ≤ d) (hr : r ≤ p) :
    ((basisDers p U κ u d).getD k []).getD r 0 = eval u (derivative^[k] (basisSpanPoly p U κ r)) := by
  rw [basisDers_entry p U κ u d k r hk hr,
    curveDersAt_all p U (unitNet κ p r) κ u 1 0 d k hp (by simp [unitNet]) (unitNet_netOk κ p r) hm hspan hk,
    spanPoly_unitNet p U κ r hr hp]

/-- above the degree the derivatives of the basis polynomials vanish identically -/
theorem basisSpanPoly_derivative_above (p : ℕ) (U : ℕ → K) (κ r : ℕ)
    (hp : p ≤ κ) (hm : Monotone U) (hspan : U κ < U (κ+1)) (k : ℕ) (hk : p < k) :
    derivative^[k] (basisSpanPoly p U κ r) = 0 :=
  iterate_derivative_spanPoly_above U κ p (sep_of_mono U κ hm hspan) hp _ k hk

/-- the basis polynomials of a span sum to the constant polynomial 1 -/
theorem basisSpanPoly_sum (p : ℕ) (U : ℕ → K) (κ : ℕ) (hp : p ≤ κ) (hm : Monotone U) (hspan : U κ < U (κ+1)) :
    ∑ r ∈ range (p+1), basisSpanPoly p U κ r = 1 :=
  spanPoly_units_sum p U κ (sep_of_mono U κ hm hspan) hp

/-- shape of the table: `d+1` rows … -/
theorem basisDers_length (p : ℕ) (U : ℕ → K) (κ : ℕ) (u : K) (d : ℕ) :
    (basisDers p U κ u d).length = d + 1 := by
  simp [basisDers]

/-- … of `p+1` entries each -/
theorem basisDers_row_length (p : ℕ) (U : ℕ → K) (κ : ℕ) (u : K) (d k : ℕ) (hk : k ≤ d) :
    ((basisDers p U κ u d).getD k []).length = p + 1 := by
  unfold basisDers
  simp only [List.getD_eq_getElem?_getD, List.getElem?_map]
  rw [List.getElem?_range (by omega)]
  simp

/-- the span polynomial of a curve is the combination of the basis polynomials with the control
    points of the span as coefficients -/
theorem spanPoly_eq_sum_basis (p : ℕ) (U : ℕ → K) (P : List (List K)) (κ j : ℕ) (hp : p ≤ κ) :
    spanPoly p U P κ j = ∑ r ∈ range (p+1), C ((ptsGet P (κ - p + r)).getD j 0) * basisSpanPoly p U κ r := by
  unfold basisSpanPoly spanPoly
  have : ∀ r, C ((ptsGet P (κ - p + r)).getD j 0) * polP U p p (fun m => C (if m = κ - p + r then (1:K) else 0)) κ
      = polP U p p (fun m => C ((ptsGet P (κ - p + r)).getD j 0) * C (if m = κ - p + r then (1:K) else 0)) κ := by
    intro r; rw [polP_smul]
  simp only [this]
  rw [← polP_finset_sum]
  apply polP_congr
  intro m hm1 hm2
  rw [Finset.sum_eq_single (m - (κ - p))]
  · rw [if_pos (by omega), C_1, mul_one]
    congr 3
    omega
  · intro b _ hb
    rw [if_neg (by omega), C_0, mul_zero]
  · intro h; exfalso; apply h; rw [Finset.mem_range]; omega

end Geomdl
