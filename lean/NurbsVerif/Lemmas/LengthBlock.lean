import NurbsVerif.Lemmas.Length
import NurbsVerif.Lemmas.InsertAll
import NurbsVerif.Lemmas.AssembleEnds
import NurbsVerif.Lemmas.AssemblePoint
import NurbsVerif.Lemmas.AssembleWF

/-!
  C18, length bounds, part 3: a parameter whose knot has multiplicity at least `p` ("a block of `p`
  equal consecutive knots") is interpolated by a control point; blocks survive every further knot
  insertion; inserting a knot up to multiplicity `p` creates a block.
-/
namespace Geomdl
open Blossom
variable {K : Type} [Field K] [LinearOrder K] [IsStrictOrderedRing K]

/-- the knot function has `p` consecutive entries equal to `u` -/
def HasBlock (p : ℕ) (V : ℕ → K) (u : K) : Prop := ∃ i, ∀ a, a < p → V (i + a) = u

/-- a block survives the insertion of any knot (`Uh k r ub V`: `r` copies of `ub` behind position `k`,
    `V k ≤ ub < V (k+1)`) -/
theorem HasBlock.insert {p : ℕ} {V : ℕ → K} {u : K} (h : HasBlock p V u) (ub : K) (k r : ℕ)
    (h1 : V k ≤ ub) (h2 : ub < V (k + 1)) : HasBlock p (Uh k r ub V) u := by
  obtain ⟨i, hi⟩ := h
  by_cases hin : i + p ≤ k + 1
  · refine ⟨i, fun a ha => ?_⟩
    unfold Uh
    rw [if_pos (by omega)]
    exact hi a ha
  · have hki : k < i := by
      by_contra hc
      have e1 : V k = u := by
        have := hi (k - i) (by omega)
        rwa [show i + (k - i) = k by omega] at this
      have e2 : V (k + 1) = u := by
        have := hi (k + 1 - i) (by omega)
        rwa [show i + (k + 1 - i) = k + 1 by omega] at this
      rw [e1] at h1; rw [e2] at h2
      exact absurd (lt_of_le_of_lt h1 h2) (lt_irrefl _)
    refine ⟨i + r, fun a ha => ?_⟩
    unfold Uh
    rw [if_neg (by omega), if_neg (by omega), show i + r + a - r = i + a by omega]
    exact hi a ha

/-- inserting `u` up to multiplicity `p` (`s` copies present at the end of its span) creates a block -/
theorem HasBlock.create (p : ℕ) (V : ℕ → K) (u : K) (k s : ℕ) (hsp : s ≤ p) (hsk : s ≤ k)
    (hmult : ∀ x, k - s < x → x ≤ k → V x = u) : HasBlock p (Uh k (p - s) u V) u := by
  refine ⟨k - s + 1, fun a ha => ?_⟩
  unfold Uh
  by_cases c : k - s + 1 + a ≤ k
  · rw [if_pos c]; exact hmult _ (by omega) c
  · rw [if_neg c, if_pos (by omega)]

/-- `s ≥ p` copies at the end of the span are a block -/
theorem HasBlock.of_mult (p : ℕ) (V : ℕ → K) (u : K) (k s : ℕ) (hps : p ≤ s) (hpk : p ≤ k)
    (hmult : ∀ x, k - s < x → x ≤ k → V x = u) : HasBlock p V u :=
  ⟨k - p + 1, fun a ha => hmult _ (by omega) (by omega)⟩

/-- the block of `u` sits at the end of the span of `u` -/
theorem HasBlock.at_span {p : ℕ} {V : ℕ → K} {u : K} (h : HasBlock p V u) (hm : Monotone V) (κ : ℕ)
    (h1 : V κ ≤ u) (h2 : u < V (κ + 1)) : ∀ x, κ + 1 ≤ x + p → x ≤ κ → V x = u := by
  obtain ⟨i, hi⟩ := h
  intro x hx1 hx2
  have hp : 1 ≤ p := by omega
  have hlast : i + (p - 1) ≤ κ := by
    by_contra hc
    have : V (κ + 1) ≤ V (i + (p - 1)) := hm (by omega)
    rw [hi (p - 1) (by omega)] at this
    exact absurd (lt_of_lt_of_le h2 this) (lt_irrefl _)
  apply le_antisymm (le_trans (hm hx2) h1)
  have := hm (show i + 0 ≤ x by omega)
  rwa [hi 0 (by omega)] at this

/-- a block of the domain end `V n` sits at `n … n+p-1` -/
theorem HasBlock.at_end {p : ℕ} {V : ℕ → K} {n : ℕ} (h : HasBlock p V (V n)) (hm : Monotone V)
    (hn : 1 ≤ n) (hlast : V (n - 1) < V n) : ∀ i, n ≤ i → i < n + p → V i = V n := by
  obtain ⟨i0, h0⟩ := h
  intro i hi1 hi2
  have hp : 1 ≤ p := by omega
  have hge : n ≤ i0 := by
    by_contra hc
    have : V (i0 + 0) ≤ V (n - 1) := hm (by omega)
    rw [h0 0 (by omega)] at this
    exact absurd (lt_of_le_of_lt this hlast) (lt_irrefl _)
  apply le_antisymm _ (hm hi1)
  have := hm (show i ≤ i0 + (p - 1) by omega)
  rwa [h0 (p - 1) (by omega)] at this

/-! ### the control point that interpolates a parameter with a block -/

/-- index of the control point that interpolates `u` -/
def sampleIdx (p : ℕ) (V : ℕ → K) (n : ℕ) (u : K) : ℕ :=
  if u < V n then findSpanLinear p V n u - p else n - 1

/-- **a parameter whose knot has multiplicity `≥ p` is interpolated by a control point**: interior of
    the domain and left end (the point is `P (span - p)`), right end (the last control point) -/
theorem curvePoint_of_block (p d : ℕ) (Vl : List K) (P : List (List K)) (hC : CurveWF p d Vl P) (u : K)
    (hlo : fnOf Vl p ≤ u) (hhi : u ≤ fnOf Vl P.length) (hb : HasBlock p (fnOf Vl) u) :
    curvePoint p (fnOf Vl) P u = ptsGet P (sampleIdx p (fnOf Vl) P.length u) ∧
      sampleIdx p (fnOf Vl) P.length u < P.length := by
  have hpn := hC.pn
  unfold sampleIdx
  by_cases hu : u < fnOf Vl P.length
  · rw [if_pos hu]
    obtain ⟨a1, a2, a3, a4⟩ := findSpanLinear_halfopen hC.mono hC.pn u hlo hu
    refine ⟨?_, by omega⟩
    apply vec_ext_getD
    · rw [curvePoint_length p _ P u d hC.pn hC.net, ptsGet_length hC.net _ (by omega)]
    · intro j _
      unfold curvePoint
      exact curvePointAt_clamped_start p (fnOf Vl) P _ u d j hC.mono (lt_of_le_of_lt a1 a2) a3 a4 hC.net
        (hb.at_span hC.mono _ a1 a2)
  · rw [if_neg hu]
    have e : u = fnOf Vl P.length := le_antisymm hhi (not_lt.mp hu)
    subst e
    refine ⟨?_, by omega⟩
    apply vec_ext_getD
    · rw [curvePoint_length p _ P _ d hC.pn hC.net, ptsGet_length hC.net _ (by omega)]
    · intro j _
      exact curvePoint_end p (fnOf Vl) P d j hC.knotsOk hC.net (hb.at_end hC.mono (by omega) hC.last)

/-- the interpolating control points of increasing parameters have increasing indices -/
theorem sampleIdx_lt (p : ℕ) (hp : 1 ≤ p) (V : ℕ → K) (n : ℕ) (hm : Monotone V) (hpn : p + 1 ≤ n) (u u' : K)
    (hlo : V p ≤ u) (huu : u < u') (hhi : u' ≤ V n) (hb : HasBlock p V u') :
    sampleIdx p V n u < sampleIdx p V n u' := by
  unfold sampleIdx
  have hu : u < V n := lt_of_lt_of_le huu hhi
  obtain ⟨a1, a2, a3, a4⟩ := findSpanLinear_halfopen hm hpn u hlo hu
  rw [if_pos hu]
  by_cases hu' : u' < V n
  · rw [if_pos hu']
    obtain ⟨b1, b2, b3, b4⟩ := findSpanLinear_halfopen hm hpn u' (le_trans hlo (le_of_lt huu)) hu'
    have hx := hb.at_span hm _ b1 b2 (findSpanLinear p V n u' - p + 1) (by omega) (by omega)
    have : findSpanLinear p V n u < findSpanLinear p V n u' - p + 1 := by
      by_contra hc
      have : V (findSpanLinear p V n u' - p + 1) ≤ V (findSpanLinear p V n u) := hm (by omega)
      rw [hx] at this
      exact absurd (lt_of_lt_of_le huu (le_trans this a1)) (lt_irrefl _)
    omega
  · rw [if_neg hu']
    omega

end Geomdl
