import NurbsVerif.Lemmas.SplitUnclampedSurfV

/-! Concrete UNCLAMPED inputs satisfying the hypotheses of the unclamped split theorems (used by the
    non-vacuity examples of Props/C07): a quadratic over `[0,1,3,4,6,7,9,10]` (five control points,
    domain `[3,7]`), and a 5 × 2 surface of degrees (2, 1) whose v knot vector `[-1,0,1,2]` is unclamped
    as well (domain `[0,1]`). -/
namespace Geomdl.SplitUEx
open Geomdl Blossom

def U : List ℚ := [0, 1, 3, 4, 6, 7, 9, 10]
def P : List (List ℚ) := [[0,0],[1,2],[3,1],[4,4],[6,0]]
def tol : ℚ := 1/10000000
def V : List ℚ := [-1, 0, 1, 2]
def PS : List (List ℚ) :=
  [[0,0,0],[0,1,1],[1,0,2],[1,1,0],[2,0,1],[2,1,3],[3,0,0],[3,1,1],[4,0,2],[4,1,5]]

theorem mono_U : Monotone (fnOf U) := by
  apply monotone_nat_of_le_succ
  intro n
  rcases n with _|_|_|_|_|_|_|_|n <;> (simp [U, fnOf, List.getD]; try norm_num)

theorem mono_V : Monotone (fnOf V) := by
  apply monotone_nat_of_le_succ
  intro n
  rcases n with _|_|_|_|n <;> (simp [V, fnOf, List.getD]; try norm_num)

theorem wf : CurveWF 2 2 U P where
  mono := mono_U
  len := by simp [U, P]
  pn := by simp [P]
  last := by simp [U, P, fnOf, List.getD]; norm_num
  net := by intro pt hpt; simp [P] at hpt; rcases hpt with h | h | h | h | h <;> simp [h]

theorem kvU : SplitKvWF 2 5 U where
  mono := mono_U
  len := by simp [U]
  pn := by omega
  last := by simp [U, fnOf, List.getD]; norm_num
  hp := by omega

theorem kvV : SplitKvWF 1 2 V where
  mono := mono_V
  len := by simp [V]
  pn := by omega
  last := by simp [V, fnOf, List.getD]
  hp := by omega

theorem mul_U : ∀ i, 1 ≤ i → i < 5 → fnOf U i < fnOf U (i + 2) := by
  intro i h1 h2
  rcases i with _|_|_|_|_|i
  · omega
  all_goals first | omega | (simp [U, fnOf, List.getD]; try norm_num)

theorem mul_V : ∀ i, 1 ≤ i → i < 2 → fnOf V i < fnOf V (i + 1) := by
  intro i h1 h2
  rcases i with _|_|i
  · omega
  all_goals first | omega | (simp [V, fnOf, List.getD])

/-- the split parameter 5 is further than `tol` from every knot -/
theorem sep_five : ∀ x ∈ U, |(5 : ℚ) - x| ≤ tol → x = 5 := by
  intro x hx h
  simp [U] at hx
  rcases hx with rfl | rfl | rfl | rfl | rfl | rfl | rfl | rfl <;> (exfalso; norm_num [abs_le, tol] at h)

/-- the split parameter 4 is a knot; the others are further than `tol` away -/
theorem sep_four : ∀ x ∈ U, |(4 : ℚ) - x| ≤ tol → x = 4 := by
  intro x hx h
  simp [U] at hx
  rcases hx with rfl | rfl | rfl | rfl | rfl | rfl | rfl | rfl <;>
    first | rfl | (exfalso; norm_num [abs_le, tol] at h)

theorem sep_V : ∀ x ∈ V, |(1/3 : ℚ) - x| ≤ tol → x = 1/3 := by
  intro x hx h
  simp [V] at hx
  rcases hx with rfl | rfl | rfl | rfl <;> (exfalso; norm_num [abs_le, tol] at h)

theorem netS : NetOk 3 PS := by
  intro pt hpt
  simp [PS] at hpt
  rcases hpt with h | h | h | h | h | h | h | h | h | h <;> simp [h]

end Geomdl.SplitUEx
