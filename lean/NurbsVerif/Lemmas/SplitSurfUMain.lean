import NurbsVerif.Lemmas.SplitSurfU
import NurbsVerif.Lemmas.SplitSurfVMain

/-! `operations.split_surface_u` end to end through the model `splitDir … 0`. -/
set_option linter.unusedSectionVars false
namespace Geomdl
open Blossom
variable {K : Type} [Field K] [LinearOrder K] [IsStrictOrderedRing K]

/-- **`split_surface_u` end to end** (multiplicity hypotheses in the `MultExact` form).  Both pieces
    coincide with the original surface: affine map of `[0,1]` onto the sub-interval in `u`; in `v` the
    pieces' knot vector is the normalised one, i.e. the affine map of the whole `v` domain – the
    identity when the input's `v` knot vector is already normalised. -/
theorem split_surface_u_main (rat : Bool) (pu pv d : ℕ) (Uu Uv : List K) (su sv : ℕ) (P : List (List K)) (ub tol : K)
    (hP : NetOk d P) (hlenP : P.length = su * sv)
    (hVm : Monotone (fnOf Uv)) (hVne : Uv ≠ []) (hVr : Uv.headD 0 < Uv.getLastD 0) (hsv : pv + 1 ≤ sv)
    (hU : ClampedKv pu su Uu) (hlo : fnOf Uu pu < ub) (hhi : ub < fnOf Uu su)
    (hmx : MultExact pu (fnOf Uu) (findSpanLinear pu (fnOf Uu) su ub) (findMultiplicity ub Uu tol) ub) :
    ∃ UA nA PA UB nB PB,
      splitDir (surfShape rat pu pv Uu Uv su sv P) 0 ub tol
        = some (surfShape rat pu pv UA (knotNormalize Uv) nA sv PA, surfShape rat pu pv UB (knotNormalize Uv) nB sv PB) ∧
      ClampedKv pu nA UA ∧ ClampedKv pu nB UB ∧
      (∀ i, i ≤ pu → fnOf UA i = 0) ∧ (∀ i, nA ≤ i → fnOf UA i = 1) ∧
      (∀ i, i ≤ pu → fnOf UB i = 0) ∧ (∀ i, nB ≤ i → fnOf UB i = 1) ∧
      PA.length = nA * sv ∧ PB.length = nB * sv ∧ NetOk d PA ∧ NetOk d PB ∧
      nA + nB = su + (pu - findMultiplicity ub Uu tol) + 1 ∧
      (∀ v, fnOf Uv pv ≤ v → ∀ t, 0 ≤ t → t ≤ 1 → ∀ j,
        (surfacePoint pu pv (fnOf UA) (fnOf (knotNormalize Uv)) nA sv PA t
            ((v - Uv.headD 0) / (Uv.getLastD 0 - Uv.headD 0))).getD j 0
          = (surfacePoint pu pv (fnOf Uu) (fnOf Uv) su sv P (fnOf Uu pu + t * (ub - fnOf Uu pu)) v).getD j 0) ∧
      (∀ v, fnOf Uv pv ≤ v → ∀ t, 0 ≤ t → t ≤ 1 → ∀ j,
        (surfacePoint pu pv (fnOf UB) (fnOf (knotNormalize Uv)) nB sv PB t
            ((v - Uv.headD 0) / (Uv.getLastD 0 - Uv.headD 0))).getD j 0
          = (surfacePoint pu pv (fnOf Uu) (fnOf Uv) su sv P (ub + t * (fnOf Uu su - ub)) v).getD j 0) := by
  have hsv0 : 0 < sv := by omega
  have hcolWF : ∀ y, y < sv → ClampedWF pu d Uu (colOf su sv P y) := fun y hy =>
    hU.toWF (colOf su sv P y) (colOf_length su sv P y) (colOf_netOk su sv d P hP hlenP y hy)
  obtain ⟨k1, k2, _, _⟩ := findSpanLinear_spec pu (fnOf Uu) su ub hU.pn hU.mono (le_of_lt hlo)
  obtain ⟨hsz, hlenR, hnetR, hcolsR⟩ := refinedU_cols su sv pu d Uu P ub tol hsv0 hP hlenP k1 k2 hmx.le
  have hcol : ∀ y, y < sv →
      CutOk pu d (refinedU su sv pu Uu P ub tol).1
        (colOf (su + (pu - findMultiplicity ub Uu tol)) sv (refinedU su sv pu Uu P ub tol).2.1 y) ub
        (findSpanLinear pu (fnOf Uu) su ub + (pu - findMultiplicity ub Uu tol)) := by
    intro y hy
    have h := hcolWF y hy
    have := splitRefined_cut pu d Uu (colOf su sv P y) ub tol h.wf h.hp h.c0 h.c1
      (by exact hlo) (by rw [colOf_length]; exact hhi) (by rw [colOf_length]; exact hmx)
    rw [colOf_length, (hcolsR y hy).1, ← (hcolsR y hy).2] at this
    exact this
  have hexp : ∀ y, y < sv → _ := fun y hy =>
    split_pieces_explicit pu d Uu (colOf su sv P y) ub tol (hcolWF y hy)
      (by exact hlo) (by rw [colOf_length]; exact hhi) (by rw [colOf_length]; exact hmx)
  have hnot : ¬ (ub = Uu.getD pu 0 ∨ ub = Uu.getD su 0) := by
    have hl := hU.len
    rw [fnOf_getD Uu pu (by omega), fnOf_getD Uu su (by omega)]
    intro h
    rcases h with h | h
    · rw [h] at hlo; exact lt_irrefl _ hlo
    · rw [h] at hhi; exact lt_irrefl _ hhi
  have hcut0 := hcol 0 hsv0
  have hspan : findSpanLinear pu (fnOf (refinedU su sv pu Uu P ub tol).1) (refinedU su sv pu Uu P ub tol).2.2 ub
      = findSpanLinear pu (fnOf Uu) su ub + (pu - findMultiplicity ub Uu tol) := by
    have := hcut0.span
    rw [colOf_length] at this
    rw [hsz]; exact this
  have heq := splitDir_surfShape_u rat pu pv Uu Uv su sv P ub tol hnot
  rw [hspan, hsz] at heq
  set k := findSpanLinear pu (fnOf Uu) su ub with hk
  set s := findMultiplicity ub Uu tol with hs
  set W := (refinedU su sv pu Uu P ub tol).1 with hW
  set Q := (refinedU su sv pu Uu P ub tol).2.1 with hQ
  have hm := hcut0.hm
  have hpm := hcut0.hpm
  rw [colOf_length] at hm
  have e1 : k - pu + 1 + (pu - s) = k + (pu - s) - pu + 1 := by omega
  have e2 : k + (pu - s) - pu + 1 - 1 = k + (pu - s) - pu := by omega
  rw [e1, e2] at heq
  set fA : List (List K) → List (List K) := fun c => (c.take (k + (pu - s) - pu + 1)).drop 0 with hfA
  set fB : List (List K) → List (List K) := fun c => (c.take (su + (pu - s))).drop (k + (pu - s) - pu) with hfB
  have hfAlen : ∀ y, y < sv → (fA (colOf (su + (pu - s)) sv Q y)).length = k + (pu - s) - pu + 1 := by
    intro y _; simp only [hfA, List.drop_zero, List.length_take, colOf_length]; omega
  have hfBlen : ∀ y, y < sv → (fB (colOf (su + (pu - s)) sv Q y)).length = su + (pu - s) - (k + (pu - s) - pu) := by
    intro y _; simp only [hfB, List.length_drop, List.length_take, colOf_length]; omega
  have hcolQ : ∀ y, y < sv → NetOk d (colOf (su + (pu - s)) sv Q y) := fun y hy => (hcol y hy).wf.net
  have hfAnet : ∀ y, y < sv → NetOk d (fA (colOf (su + (pu - s)) sv Q y)) := by
    intro y hy pt hpt
    exact hcolQ y hy pt (List.mem_of_mem_take (List.mem_of_mem_drop hpt))
  have hfBnet : ∀ y, y < sv → NetOk d (fB (colOf (su + (pu - s)) sv Q y)) := by
    intro y hy pt hpt
    exact hcolQ y hy pt (List.mem_of_mem_take (List.mem_of_mem_drop hpt))
  obtain ⟨hszA, hlenA, hnetA, hcolsA⟩ := mapSurfU_general (su + (pu - s)) sv _ d Q fA hsv0 hfAlen hfAnet
  obtain ⟨hszB, hlenB, hnetB, hcolsB⟩ := mapSurfU_general (su + (pu - s)) sv _ d Q fB hsv0 hfBlen hfBnet
  rw [hszA, hszB] at heq
  obtain ⟨lA, zA, oA⟩ := hcut0.leftClamped
  obtain ⟨lB, zB, oB⟩ := hcut0.rightClamped
  have kA := lA.toKv
  have kB := lB.toKv
  rw [List.length_take, colOf_length, show min (k + (pu - s) - pu + 1) (su + (pu - s)) = k + (pu - s) - pu + 1 by omega] at kA
  rw [List.length_drop, colOf_length] at kB
  rw [colOf_length] at oB
  refine ⟨_, _, _, _, _, _, heq, kA, kB, zA, oA, zB, oB, hlenA, hlenB, hnetA, hnetB, by omega, ?_, ?_⟩
  · intro v hv t ht0 ht1 j
    apply surface_cols_eval pu pv d _ Uu Uv _ su sv _ P t _ v j hVm hVne hVr hsv hv hnetA hlenA hP hlenP
    · obtain ⟨b1, b2, _, _⟩ := findSpanLinear_spec pu _ (k + (pu - s) - pu + 1) t kA.pn kA.mono
        (by rw [zA pu (le_refl _)]; exact ht0)
      exact ⟨b1, b2⟩
    · have hpos : 0 < ub - fnOf Uu pu := sub_pos.mpr hlo
      obtain ⟨b1, b2, _, _⟩ := findSpanLinear_spec pu (fnOf Uu) su (fnOf Uu pu + t * (ub - fnOf Uu pu)) hU.pn hU.mono
        (by nlinarith)
      exact ⟨b1, b2⟩
    · intro y hy
      rw [hcolsA y hy]
      have := (hexp y hy).1 t ht0 ht1 j
      rw [colOf_length, (hcolsR y hy).1, ← (hcolsR y hy).2] at this
      simp only [hfA, List.drop_zero]
      exact this
  · intro v hv t ht0 ht1 j
    apply surface_cols_eval pu pv d _ Uu Uv _ su sv _ P t _ v j hVm hVne hVr hsv hv hnetB hlenB hP hlenP
    · obtain ⟨b1, b2, _, _⟩ := findSpanLinear_spec pu _ (su + (pu - s) - (k + (pu - s) - pu)) t kB.pn kB.mono
        (by rw [zB pu (le_refl _)]; exact ht0)
      exact ⟨b1, b2⟩
    · have hpos : 0 < fnOf Uu su - ub := sub_pos.mpr hhi
      have : fnOf Uu pu ≤ ub := le_of_lt hlo
      obtain ⟨b1, b2, _, _⟩ := findSpanLinear_spec pu (fnOf Uu) su (ub + t * (fnOf Uu su - ub)) hU.pn hU.mono
        (by nlinarith)
      exact ⟨b1, b2⟩
    · intro y hy
      rw [hcolsB y hy]
      have := (hexp y hy).2 t ht0 ht1 j
      rw [colOf_length, (hcolsR y hy).1, ← (hcolsR y hy).2] at this
      have e : fB (colOf (su + (pu - s)) sv Q y) = (colOf (su + (pu - s)) sv Q y).drop (k + (pu - s) - pu) := by
        simp only [hfB]
        rw [List.take_of_length_le (by rw [colOf_length])]
      rw [e]
      exact this

end Geomdl
