import Mathlib.Algebra.Order.Field.Basic
import Mathlib.Tactic.FieldSimp
import Mathlib.Tactic.Ring
import Mathlib.Tactic.Linarith
import Mathlib.Data.List.Perm.Basic

namespace Blossom
variable {K : Type} [Field K]

/-- one de Boor level: `q` = number of knots spanned by the denominator, `x` the parameter -/
def dbStep (t : ℕ → K) (q : ℕ) (x : K) (c : ℕ → K) (i : ℕ) : K :=
  ((t (i+q) - x) * c (i-1) + (x - t i) * c i) / (t (i+q) - t i)

/-- apply levels with denominators spans `q, q-1, …` for the listed parameters -/
def polar (t : ℕ → K) : ℕ → List K → (ℕ → K) → (ℕ → K)
  | _, [], c => c
  | q, x :: xs, c => polar t (q-1) xs (dbStep t q x c)

/-- window separation: every knot with index ≤ p differs from every knot with index > p -/
def Sep (t : ℕ → K) (p : ℕ) : Prop := ∀ i j, i ≤ p → p < j → t j - t i ≠ 0

theorem dbStep_comm (t : ℕ → K) (q : ℕ) (x y : K) (c : ℕ → K) (i : ℕ) (hi : 1 ≤ i)
    (h1 : t (i+q) - t i ≠ 0) (h2 : t (i+q) - t (i-1) ≠ 0) (h3 : t (i+q+1) - t i ≠ 0) :
    dbStep t q y (dbStep t (q+1) x c) i = dbStep t q x (dbStep t (q+1) y c) i := by
  unfold dbStep
  have e1 : i - 1 + (q + 1) = i + q := by omega
  have e2 : i + (q + 1) = i + q + 1 := by omega
  rw [e1, e2]
  field_simp
  ring

/-- `polar` only looks at input entries `i - len .. i` -/
theorem polar_congr (t : ℕ → K) (q : ℕ) (xs : List K) (c d : ℕ → K) (i : ℕ)
    (h : ∀ j, i - xs.length ≤ j → j ≤ i → c j = d j) :
    polar t q xs c i = polar t q xs d i := by
  induction xs generalizing q c d with
  | nil => exact h i (by simp) (le_refl _)
  | cons x xs ih =>
    simp only [polar]
    apply ih
    intro j hj1 hj2
    unfold dbStep
    have a1 : c (j-1) = d (j-1) := h (j-1) (by simp at hj1 ⊢; omega) (by omega)
    have a2 : c j = d j := h j (by simp at hj1 ⊢; omega) hj2
    rw [a1, a2]

/-- permutation invariance at a valid index: after `m = xs.length` levels starting with span `q`,
    index `i` is valid when `m ≤ i ≤ p` and `q = p` … we state it with explicit nonvanishing. -/
theorem polar_perm (t : ℕ → K) (p : ℕ) (hsep : Sep t p) :
    ∀ (xs ys : List K), xs.Perm ys → ∀ (q : ℕ) (c : ℕ → K) (i : ℕ),
      xs.length ≤ i → i ≤ p → p + xs.length ≤ i + q → xs.length ≤ q →
      polar t q xs c i = polar t q ys c i := by
  intro xs ys h
  induction h with
  | nil => intros; rfl
  | cons x _ ih =>
    intro q c i h1 h2 h3 h4
    simp only [polar]
    simp only [List.length_cons] at h1 h3 h4
    exact ih (q-1) _ i (by omega) h2 (by omega) (by omega)
  | swap x y l =>
    intro q c i h1 h2 h3 h4
    simp only [List.length_cons] at h1 h3 h4
    simp only [polar]
    apply polar_congr
    intro j hj1 hj2
    obtain ⟨q', rfl⟩ : ∃ q', q = q' + 2 := ⟨q - 2, by omega⟩
    have : q' + 2 - 1 = q' + 1 := by omega
    rw [this]
    have hj : 2 ≤ j := by omega
    exact dbStep_comm t (q'+1) y x c j (by omega)
      (hsep _ _ (by omega) (by omega)) (hsep _ _ (by omega) (by omega)) (hsep _ _ (by omega) (by omega))
  | trans h₁ h₂ ih₁ ih₂ =>
    intro q c i h1 h2 h3 h4
    rw [ih₁ q c i h1 h2 h3 h4]
    have := h₁.length_eq
    exact ih₂ q c i (by omega) h2 (by omega) (by omega)
end Blossom

namespace Blossom
variable {K : Type} [Field K]

theorem dbStep_lin (t : ℕ → K) (q : ℕ) (x a b : K) (c d : ℕ → K) (i : ℕ) :
    dbStep t q x (fun j => a * c j + b * d j) i = a * dbStep t q x c i + b * dbStep t q x d i := by
  unfold dbStep; ring

theorem polar_lin (t : ℕ → K) (xs : List K) : ∀ (q : ℕ) (a b : K) (c d : ℕ → K) (i : ℕ),
    polar t q xs (fun j => a * c j + b * d j) i = a * polar t q xs c i + b * polar t q xs d i := by
  induction xs with
  | nil => intros; rfl
  | cons x xs ih =>
    intro q a b c d i
    simp only [polar]
    have : dbStep t q x (fun j => a * c j + b * d j)
        = fun j => a * dbStep t q x c j + b * dbStep t q x d j := funext (dbStep_lin t q x a b c d)
    rw [this]; exact ih (q-1) a b _ _ i

theorem dbStep_affine (t : ℕ → K) (q : ℕ) (x a b : K) (hab : b - a ≠ 0) (c : ℕ → K) (i : ℕ) :
    dbStep t q x c i
      = ((b - x)/(b - a)) * dbStep t q a c i + ((x - a)/(b - a)) * dbStep t q b c i := by
  unfold dbStep
  have key : (t (i+q) - x) * c (i-1) + (x - t i) * c i
      = ((b - x)/(b - a)) * ((t (i+q) - a) * c (i-1) + (a - t i) * c i)
        + ((x - a)/(b - a)) * ((t (i+q) - b) * c (i-1) + (b - t i) * c i) := by
    field_simp; ring
  rw [key]; ring

theorem polar_head_affine (t : ℕ → K) (q : ℕ) (x a b : K) (hab : b - a ≠ 0) (xs : List K)
    (c : ℕ → K) (i : ℕ) :
    polar t q (x :: xs) c i
      = ((b - x)/(b - a)) * polar t q (a :: xs) c i + ((x - a)/(b - a)) * polar t q (b :: xs) c i := by
  simp only [polar]
  have : dbStep t q x c
      = fun j => ((b - x)/(b - a)) * dbStep t q a c j + ((x - a)/(b - a)) * dbStep t q b c j :=
    funext (dbStep_affine t q x a b hab c)
  rw [this, polar_lin]

theorem dbStep_stay (t : ℕ → K) (q : ℕ) (c : ℕ → K) (i : ℕ) (h : t (i+q) - t i ≠ 0) :
    dbStep t q (t (i+q)) c i = c i := by
  unfold dbStep; rw [div_eq_iff h]; ring

theorem dbStep_left (t : ℕ → K) (q : ℕ) (c : ℕ → K) (i : ℕ) (h : t (i+q) - t i ≠ 0) :
    dbStep t q (t i) c i = c (i-1) := by
  unfold dbStep; rw [div_eq_iff h]; ring

theorem polar_append (t : ℕ → K) (xs ys : List K) : ∀ (q : ℕ) (c : ℕ → K),
    polar t q (xs ++ ys) c = polar t (q - xs.length) ys (polar t q xs c) := by
  induction xs with
  | nil => intros; simp [polar]
  | cons x xs ih =>
    intro q c
    simp only [List.cons_append, polar, List.length_cons]
    rw [ih]
    congr 1
    omega

/-- `[t (i+1), …, t (i+n)]` -/
def win (t : ℕ → K) (i n : ℕ) : List K := (List.range n).map (fun j => t (i + 1 + j))

theorem win_length (t : ℕ → K) (i n : ℕ) : (win t i n).length = n := by simp [win]

theorem win_succ_head (t : ℕ → K) (i n : ℕ) : win t i (n+1) = t (i+1) :: win t (i+1) n := by
  simp only [win, List.range_succ_eq_map, List.map_cons, List.map_map]
  congr 1
  apply List.map_congr_left
  intro j _
  simp only [Function.comp]
  congr 1; omega

theorem win_succ_last (t : ℕ → K) (i n : ℕ) : win t i (n+1) = win t i n ++ [t (i+1+n)] := by
  simp only [win, List.range_succ, List.map_append, List.map_cons, List.map_nil]

end Blossom

namespace Blossom
variable {K : Type} [Field K]

theorem win_perm_last_front (t : ℕ → K) (i n : ℕ) :
    (win t i (n+1)).Perm (t (i+1+n) :: win t i n) := by
  rw [win_succ_last]
  exact List.perm_append_singleton _ _

/-- (K): the polar form at `p` consecutive knots returns the control point -/
theorem polar_win (t : ℕ → K) (k : ℕ) (hsep : Sep t k) :
    ∀ (p : ℕ) (c : ℕ → K) (i : ℕ), p ≤ k → k ≤ i + p → i ≤ k →
      polar t p (win t i p) c k = c i := by
  intro p
  induction p with
  | zero =>
    intro c i _ h1 h2
    have : i = k := by omega
    subst this; simp [win, polar]
  | succ p ih =>
    intro c i hp h1 h2
    rcases Nat.lt_or_ge i k with hlt | hge
    · rw [win_succ_head]
      simp only [polar, Nat.add_sub_cancel]
      rw [ih _ (i+1) (by omega) (by omega) (by omega)]
      have := dbStep_left t (p+1) c (i+1) (hsep _ _ (by omega) (by omega))
      simpa using this
    · have hik : i = k := by omega
      subst hik
      have hperm := win_perm_last_front t i p
      rw [polar_perm t i hsep _ _ hperm (p+1) c i (by rw [win_length]; omega) (le_refl _)
            (by rw [win_length]) (by rw [win_length])]
      simp only [polar, Nat.add_sub_cancel]
      rw [ih _ i (by omega) (by omega) (le_refl _)]
      have := dbStep_stay t (p+1) c i (by
        have := hsep i (i+(p+1)) (le_refl _) (by omega); exact this)
      have e : i + 1 + p = i + (p+1) := by omega
      rw [e]; exact this

/-- (R): refinement theorem. `P` over knots `U`, window `k`; `Q` over knots `V`, window `k'`;
    if every `Q i` in the new window is the old polar form at the new consecutive knots,
    the two de Boor evaluations at any parameter `u` coincide. -/
theorem refine_levels (U V : ℕ → K) (p k k' : ℕ) (P Q : ℕ → K) (u : K)
    (hU : Sep U k) (hV : Sep V k') (hpk : p ≤ k) (hpk' : p ≤ k')
    (hQ : ∀ i, k' ≤ i + p → i ≤ k' → Q i = polar U p (win V i p) P k) :
    ∀ r, r ≤ p → ∀ i, k' + r ≤ i + p → i ≤ k' →
      polar V p (List.replicate r u) Q i
        = polar U p (win V i (p - r) ++ List.replicate r u) P k := by
  intro r
  induction r with
  | zero =>
    intro _ i h1 h2
    simp only [List.replicate_zero, polar, List.append_nil, Nat.sub_zero]
    exact hQ i (by omega) h2
  | succ r ih =>
    intro hr i h1 h2
    have hr' : r ≤ p := by omega
    -- peel the last level
    have hsplit : List.replicate (r+1) u = List.replicate r u ++ [u] := by
      rw [List.replicate_succ']
    rw [hsplit, polar_append]
    simp only [List.length_replicate, polar]
    -- the two inputs of the last level
    have hi1 : 1 ≤ i := by omega
    have e1 := ih hr' (i-1) (by omega) (by omega)
    have e2 := ih hr' i (by omega) h2
    unfold dbStep
    rw [e1, e2]
    -- shapes of the two windows
    obtain ⟨m, hm⟩ : ∃ m, p - r = m + 1 := ⟨p - r - 1, by omega⟩
    have hm' : p - (r+1) = m := by omega
    rw [hm, hm']
    have w1 : win V (i-1) (m+1) = V i :: win V i m := by
      rw [win_succ_head]; congr 2 <;> omega
    rw [w1]
    set M := win V i m ++ List.replicate r u with hM
    have hlenM : M.length = p - 1 := by
      simp [hM, win_length]; omega
    -- permutation facts for the blossom of window k
    have permU : ∀ xs ys : List K, xs.Perm ys → xs.length = p →
        polar U p xs P k = polar U p ys P k := by
      intro xs ys h hl
      exact polar_perm U k hU xs ys h p P k (by omega) (le_refl _) (by omega) (by omega)
    have b1 : polar U p (win V i (m+1) ++ List.replicate r u) P k
        = polar U p (V (i+1+m) :: M) P k := by
      apply permU
      · rw [win_succ_last, hM]
        simp only [List.append_assoc, List.singleton_append]
        exact List.perm_middle
      · simp [win_length]; omega
    have b0 : polar U p ((V i :: win V i m) ++ List.replicate r u) P k
        = polar U p (V i :: M) P k := by simp [hM]
    have b2 : polar U p (win V i m ++ (List.replicate r u ++ [u])) P k
        = polar U p (u :: M) P k := by
      apply permU
      · rw [hM, ← List.append_assoc]
        exact List.perm_append_singleton _ _
      · simp [win_length]; omega
    have hden : V (i+1+m) - V i ≠ 0 := hV i (i+1+m) h2 (by omega)
    have key := polar_head_affine U p u (V i) (V (i+1+m)) hden M P k
    have eidx : i + (m + 1) = i + 1 + m := by omega
    rw [b0, b1, eidx]
    rw [b2, key]
    field_simp

theorem refine_thm (U V : ℕ → K) (p k k' : ℕ) (P Q : ℕ → K) (u : K)
    (hU : Sep U k) (hV : Sep V k') (hpk : p ≤ k) (hpk' : p ≤ k')
    (hQ : ∀ i, k' ≤ i + p → i ≤ k' → Q i = polar U p (win V i p) P k) :
    polar V p (List.replicate p u) Q k' = polar U p (List.replicate p u) P k := by
  have := refine_levels U V p k k' P Q u hU hV hpk hpk' hQ p (le_refl _) k' (by omega) (le_refl _)
  simpa [win] using this
end Blossom

