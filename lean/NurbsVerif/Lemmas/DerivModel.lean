import NurbsVerif.Model.Eval
import NurbsVerif.Lemmas.Deriv
import NurbsVerif.Lemmas.InsertModel
import NurbsVerif.Lemmas.InsertEval

/-! The derivative model `curveDersAt` (A3.3 + A3.4) for orders 0 and 1 is the value / the
    derivative of the span polynomial. -/
namespace Geomdl
open Blossom Polynomial
variable {K : Type} [Field K] [LinearOrder K] [IsStrictOrderedRing K]

/-- the span polynomial of coordinate `j`: the de Boor scheme with the indeterminate as parameter -/
noncomputable def spanPoly (p : ℕ) (U : ℕ → K) (P : List (List K)) (κ j : ℕ) : K[X] :=
  polP U p p (fun m => C ((ptsGet P m).getD j 0)) κ

/-- order 0: the model returns the value of the span polynomial -/
theorem curveDersAt_zero (p : ℕ) (U : ℕ → K) (P : List (List K)) (κ : ℕ) (u : K) (d j order : ℕ)
    (hp : p ≤ κ) (hκ : κ < P.length) (hP : NetOk d P) :
    ((curveDersAt p U P κ u order).getD 0 []).getD j 0 = eval u (spanPoly p U P κ j) := by
  have h0 : (curveDersAt p U P κ u order).getD 0 [] = curvePointAt p U P κ u := by
    unfold curveDersAt curvePointAt
    simp only [List.getD_eq_getElem?_getD, List.getElem?_map]
    rw [List.getElem?_range (by omega)]
    simp only [Option.map_some, Option.getD_some, Nat.zero_le, if_true, Nat.sub_zero]
    congr 1
    unfold curveDerivCpts
    simp only []
    have : ∀ (l : List ℕ) (a : List (List (List K))) (b : List (List K)),
        ((l.foldl (fun (acc : List (List (List K)) × List (List K)) k =>
          (acc.1 ++ [dcStep p U (κ - p) k 0 acc.2], dcStep p U (κ - p) k 0 acc.2)) (a, b)).1)[0]? = (a)[0]? ∨ a = [] := by
      intro l
      induction l with
      | nil => intro a b; left; rfl
      | cons x xs ih =>
        intro a b
        simp only [List.foldl_cons]
        rcases ih (a ++ [dcStep p U (κ - p) x 0 b]) (dcStep p U (κ - p) x 0 b) with h | h
        · by_cases ha : a = []
          · right; exact ha
          · left
            rw [h, List.getElem?_append_left (by
              cases a with
              | nil => exact absurd rfl ha
              | cons _ _ => simp)]
        · exact absurd h (by simp)
    rcases this (List.range' 1 (min p order)) [(List.range (κ - (κ - p) + 1)).map (fun i => ptsGet P (κ - p + i))]
        ((List.range (κ - (κ - p) + 1)).map (fun i => ptsGet P (κ - p + i))) with h | h
    · rw [h]
      simp only [List.getElem?_cons_zero, Option.getD_some]
      have : κ - (κ - p) + 1 = p + 1 := by omega
      rw [this]
    · exact absurd h (by simp)
  rw [h0, curvePointAt_wsum p U P κ u d j hp hκ hP, diag U κ u p hp]
  unfold spanPoly
  rw [eval_polP]
  simp only [eval_C]

end Geomdl

namespace Geomdl
open Blossom Polynomial Finset
variable {K : Type} [Field K] [LinearOrder K] [IsStrictOrderedRing K]

theorem zipWith_getD_gen (F : K → K → K) (hF : F 0 0 = 0) (x y : List K) (j : ℕ) (h : x.length = y.length) :
    (List.zipWith F x y).getD j 0 = F (x.getD j 0) (y.getD j 0) := by
  simp only [List.getD_eq_getElem?_getD, List.getElem?_zipWith]
  by_cases hj : j < x.length
  · have hy : j < y.length := by omega
    simp [List.getElem?_eq_getElem hj, List.getElem?_eq_getElem hy]
  · have hy : ¬ j < y.length := by omega
    simp [List.getElem?_eq_none (not_lt.mp hj), List.getElem?_eq_none (not_lt.mp hy), hF]

/-- closed form of one level of `helpers.curve_deriv_cpts` on a tabulated list -/
theorem dcStep_map (p : ℕ) (U : ℕ → K) (r1 k : ℕ) (f : ℕ → List K) : ∀ (n i0 : ℕ),
    dcStep p U r1 k i0 ((List.range' i0 (n+1)).map f)
      = (List.range' i0 n).map (fun i =>
          List.zipWith (fun e1 e2 => ((p - k + 1 : ℕ) : K) * (e1 - e2) / (U (r1 + i + p + 1) - U (r1 + i + k))) (f (i+1)) (f i)) := by
  intro n
  induction n with
  | zero => intro i0; simp [dcStep, List.range'_succ]
  | succ n ih =>
    intro i0
    have e1 : List.range' i0 (n + 1 + 1) = i0 :: (i0 + 1) :: List.range' (i0 + 1 + 1) n := by
      rw [List.range'_succ, List.range'_succ]
    have e2 : List.range' i0 (n + 1) = i0 :: List.range' (i0 + 1) n := by rw [List.range'_succ]
    rw [e1, e2]
    simp only [List.map_cons, dcStep]
    congr 1
    have := ih (i0 + 1)
    rw [List.range'_succ, List.map_cons] at this
    exact this

/-- **order 1**: the first derivative returned by the A3.3/A3.4 model (`Curve.derivatives(u, 1)[1]`,
    both evaluator families are tied to it) is the derivative of the span polynomial at `u` -/
theorem curveDersAt_one (p : ℕ) (U : ℕ → K) (P : List (List K)) (κ : ℕ) (u : K) (d j : ℕ)
    (hp1 : 1 ≤ p) (hp : p ≤ κ) (hκ : κ < P.length) (hP : NetOk d P)
    (hm : Monotone U) (hspan : U κ < U (κ+1)) :
    ((curveDersAt p U P κ u 1).getD 1 []).getD j 0 = eval u (derivative (spanPoly p U P κ j)) := by
  have hsep : Sep U κ := sep_of_mono U κ hm hspan
  -- the right-hand side
  unfold spanPoly
  rw [curve_derivative U κ p hsep hp (fun m => (ptsGet P m).getD j 0) u]
  rw [← diag U κ u (p-1) (by omega), wsum_eq_sum, Blossom.basisFuns_length]
  -- the left-hand side
  have hmin : min p 1 = 1 := by omega
  have hPK : (curveDersAt p U P κ u 1).getD 1 []
      = linComb d (basisFuns (p - 1) U κ u)
          (dcStep p U (κ - p) 1 0 ((List.range (κ - (κ - p) + 1)).map (fun i => ptsGet P (κ - p + i)))) := by
    unfold curveDersAt
    simp only [hmin, List.getD_eq_getElem?_getD, List.getElem?_map]
    rw [List.getElem?_range (by omega)]
    simp only [Option.map_some, Option.getD_some, le_refl, if_true]
    rw [dimOf_eq hP (by omega)]
    simp [curveDerivCpts, List.range'_succ]
  rw [hPK]
  have hrange : κ - (κ - p) + 1 = (p - 1 + 1) + 1 := by omega
  rw [hrange, List.range_eq_range', dcStep_map p U (κ - p) 1 (fun i => ptsGet P (κ - p + i)) (p - 1 + 1) 0]
  have hlenN : (basisFuns (p - 1) U κ u).length = p - 1 + 1 := Blossom.basisFuns_length _ _ _ _
  rw [linComb_getD d j _ _ (by
    intro pt hpt
    simp only [List.mem_map, List.mem_range'_1] at hpt
    obtain ⟨i, ⟨_, hi⟩, rfl⟩ := hpt
    simp only [List.length_zipWith]
    rw [ptsGet_length hP _ (by omega), ptsGet_length hP _ (by omega)]; simp)]
  have hz := zip_sum_eq_wsum j (fun i =>
      List.zipWith (fun e1 e2 => ((p - 1 + 1 : ℕ) : K) * (e1 - e2) / (U (κ - p + i + p + 1) - U (κ - p + i + 1)))
        (ptsGet P (κ - p + (i + 1))) (ptsGet P (κ - p + i))) (basisFuns (p - 1) U κ u) 0
  rw [hlenN] at hz
  rw [hz, wsum_eq_sum, hlenN, Finset.mul_sum]
  apply Finset.sum_congr rfl
  intro r hr
  rw [Finset.mem_range] at hr
  rw [zipWith_getD_gen _ (by simp) _ _ j (by rw [ptsGet_length hP _ (by omega), ptsGet_length hP _ (by omega)])]
  have e1 : κ - p + (0 + r) + p + 1 = κ - (p - 1) + r + p := by omega
  have e2 : κ - p + (0 + r) + 1 = κ - (p - 1) + r := by omega
  have e3 : κ - p + (0 + r + 1) = κ - (p - 1) + r := by omega
  have e4 : κ - p + (0 + r) = κ - (p - 1) + r - 1 := by omega
  have e5 : ((p - 1 + 1 : ℕ) : K) = (p : K) := by congr 1; omega
  rw [e1, e2, e3, e4, e5]
  ring

end Geomdl
