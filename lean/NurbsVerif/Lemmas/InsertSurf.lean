import NurbsVerif.Lemmas.InsertAll
import NurbsVerif.Model.Shape
import NurbsVerif.Lemmas.Affine

/-! Knot insertion on surfaces: the per-direction gather / scatter of `operations.insert_knot`
    preserves every surface point (v direction: rows; u direction: columns). -/
namespace Geomdl
open Blossom Finset
variable {K : Type} [Field K] [LinearOrder K] [IsStrictOrderedRing K]

/-- indexing into the concatenation of rows of equal length -/
theorem flatten_uniform_getD {α : Type} (dflt : α) (L : ℕ) : ∀ (rows : List (List α)), (∀ r ∈ rows, r.length = L) →
    ∀ a b, a < rows.length → b < L → (rows.flatten).getD (b + L * a) dflt = (rows.getD a []).getD b dflt := by
  intro rows
  induction rows with
  | nil => intro _ a b ha _; simp at ha
  | cons r rs ih =>
    intro h a b ha hb
    have hr : r.length = L := h r (by simp)
    cases a with
    | zero =>
      simp only [List.flatten_cons, Nat.mul_zero, Nat.add_zero, List.getD_cons_zero]
      rw [List.getD_eq_getElem?_getD, List.getD_eq_getElem?_getD, List.getElem?_append_left (by omega)]
    | succ a =>
      simp only [List.flatten_cons, List.getD_cons_succ]
      rw [List.getD_eq_getElem?_getD, List.getElem?_append_right (by rw [hr]; nlinarith)]
      have e : b + L * (a + 1) - r.length = b + L * a := by rw [hr]; ring_nf; omega
      rw [e, ← List.getD_eq_getElem?_getD]
      exact ih (fun x hx => h x (by simp [hx])) a b (by simpa using ha) hb

theorem flatten_uniform_length {α : Type} (L : ℕ) : ∀ (rows : List (List α)), (∀ r ∈ rows, r.length = L) →
    rows.flatten.length = L * rows.length := by
  intro rows
  induction rows with
  | nil => intro _; simp
  | cons r rs ih =>
    intro h
    simp only [List.flatten_cons, List.length_append, List.length_cons]
    rw [ih (fun x hx => h x (by simp [hx])), h r (by simp)]
    ring

/-- row `x` of a surface net (the control polygon of the iso-curve `u = x`) -/
def rowOf (sv : ℕ) (P : List (List K)) (x : ℕ) : List (List K) :=
  (List.range sv).map (fun v => ptsGet P (v + sv * x))

theorem rowOf_get (sv : ℕ) (P : List (List K)) (x i : ℕ) (hi : i < sv) :
    ptsGet (rowOf sv P x) i = ptsGet P (i + sv * x) := by
  simp [rowOf, ptsGet, List.getD_eq_getElem?_getD, hi]

theorem rowOf_netOk (su sv d : ℕ) (P : List (List K)) (hP : NetOk d P) (hlen : P.length = su * sv) (x : ℕ) (hx : x < su) :
    NetOk d (rowOf sv P x) := by
  intro pt hpt
  simp only [rowOf, List.mem_map, List.mem_range] at hpt
  obtain ⟨v, hv, rfl⟩ := hpt
  apply ptsGet_length hP
  rw [hlen]
  calc v + sv * x < sv + sv * x := by omega
    _ = sv * (x + 1) := by ring
    _ ≤ sv * su := Nat.mul_le_mul_left _ (by omega)
    _ = su * sv := by ring

/-- coordinates of the surface point as a double sum over the active control points -/
theorem surfacePointAt_sum (pu pv : ℕ) (Uu Uv : ℕ → K) (su sv : ℕ) (P : List (List K)) (ku kv : ℕ) (u v : K)
    (d j : ℕ) (hpu : pu ≤ ku) (hpv : pv ≤ kv) (hku : ku < su) (hkv : kv < sv) (hlen : P.length = su * sv) (hP : NetOk d P) :
    (surfacePointAt pu pv Uu Uv sv P ku kv u v).getD j 0
      = ∑ a ∈ range (pu+1), (basisFuns pu Uu ku u).getD a 0 *
          ∑ b ∈ range (pv+1), (basisFuns pv Uv kv v).getD b 0 * (ptsGet P (kv - pv + b + sv * (ku - pu + a))).getD j 0 := by
  have hpos : 0 < P.length := by rw [hlen]; exact Nat.mul_pos (by omega) (by omega)
  have hidx : ∀ a b, a < su → b < sv → b + sv * a < P.length := by
    intro a b ha hb
    rw [hlen]
    calc b + sv * a < sv + sv * a := by omega
      _ = sv * (a + 1) := by ring
      _ ≤ sv * su := Nat.mul_le_mul_left _ (by omega)
      _ = su * sv := by ring
  unfold surfacePointAt
  simp only []
  rw [dimOf_eq hP hpos]
  rw [linComb_range d j pu _ (Blossom.basisFuns_length pu Uu ku u) _ (fun r hr => by
    apply linComb_length
    intro pt hpt
    simp only [List.mem_map, List.mem_range] at hpt
    obtain ⟨l, hl, rfl⟩ := hpt
    exact ptsGet_length hP _ (hidx (ku - pu + r) (kv - pv + l) (by omega) (by omega)))]
  apply Finset.sum_congr rfl
  intro a ha
  rw [Finset.mem_range] at ha
  congr 1
  rw [linComb_range d j pv _ (Blossom.basisFuns_length pv Uv kv v) _ (fun l hl =>
    ptsGet_length hP _ (hidx (ku - pu + a) (kv - pv + l) (by omega) (by omega)))]

/-- the surface point is the `Nu`-combination of the points of its iso-curves (rows) -/
theorem surfacePointAt_rows (pu pv : ℕ) (Uu Uv : ℕ → K) (su sv : ℕ) (P : List (List K)) (ku kv : ℕ) (u v : K)
    (d j : ℕ) (hpu : pu ≤ ku) (hpv : pv ≤ kv) (hku : ku < su) (hkv : kv < sv) (hlen : P.length = su * sv) (hP : NetOk d P) :
    (surfacePointAt pu pv Uu Uv sv P ku kv u v).getD j 0
      = ∑ a ∈ range (pu+1), (basisFuns pu Uu ku u).getD a 0 *
          (curvePointAt pv Uv (rowOf sv P (ku - pu + a)) kv v).getD j 0 := by
  rw [surfacePointAt_sum pu pv Uu Uv su sv P ku kv u v d j hpu hpv hku hkv hlen hP]
  apply Finset.sum_congr rfl
  intro a ha
  rw [Finset.mem_range] at ha
  congr 1
  rw [curvePointAt_sum pv Uv (rowOf sv P (ku - pu + a)) kv v d j hpv (by simp [rowOf]; exact hkv)
        (rowOf_netOk su sv d P hP hlen _ (by omega))]
  apply Finset.sum_congr rfl
  intro b hb
  rw [Finset.mem_range] at hb
  rw [rowOf_get sv P _ _ (by omega)]

/-- rows of the net produced by `mapSurfV` are the transformed rows -/
theorem mapSurfV_rows (su sv L : ℕ) (P : List (List K)) (f : List (List K) → List (List K))
    (hf : ∀ x, x < su → (f (rowOf sv P x)).length = L) (x : ℕ) (hx : x < su) :
    rowOf L (mapSurfV su sv P f).1 x = f (rowOf sv P x) := by
  have hrows : ∀ r ∈ (List.range su).map (fun u => f (rowOf sv P u)), r.length = L := by
    intro r hr
    simp only [List.mem_map, List.mem_range] at hr
    obtain ⟨a, ha, rfl⟩ := hr
    exact hf a ha
  apply List.ext_getElem
  · simp only [rowOf, List.length_map, List.length_range]
    exact (hf x hx).symm
  · intro i h1 h2
    have hi : i < L := by simpa [rowOf] using h1
    simp only [rowOf, List.getElem_map, List.getElem_range]
    show (List.flatten ((List.range su).map (fun u => f (rowOf sv P u)))).getD (i + L * x) [] = _
    rw [flatten_uniform_getD [] L _ hrows x i (by simp; exact hx) hi]
    have : ((List.range su).map (fun u => f (rowOf sv P u))).getD x [] = f (rowOf sv P x) := by
      simp [List.getD_eq_getElem?_getD, hx]
    rw [this, List.getD_eq_getElem?_getD, List.getElem?_eq_getElem h2]
    rfl

end Geomdl

namespace Geomdl
open Blossom Finset
variable {K : Type} [Field K] [LinearOrder K] [IsStrictOrderedRing K]

theorem mapSurfV_spec (su sv d r pv : ℕ) (U : ℕ → K) (P : List (List K)) (ub : K) (s k : ℕ)
    (hP : NetOk d P) (hlen : P.length = su * sv) (hpk : pv ≤ k) (hk : k < sv) (hrs : r + s ≤ pv) :
    let Q := (mapSurfV su sv P (fun c => knotInsertion pv U c ub r s k)).1
    Q.length = su * (sv + r) ∧ NetOk d Q ∧
      ∀ x, x < su → rowOf (sv + r) Q x = knotInsertion pv U (rowOf sv P x) ub r s k := by
  intro Q
  have hrowlen : ∀ x, x < su → (knotInsertion pv U (rowOf sv P x) ub r s k).length = sv + r := by
    intro x _; rw [knotInsertion_length]; simp [rowOf]
  have hrows : ∀ rw_ ∈ (List.range su).map (fun u => knotInsertion pv U (rowOf sv P u) ub r s k), rw_.length = sv + r := by
    intro rw_ h
    simp only [List.mem_map, List.mem_range] at h
    obtain ⟨a, ha, rfl⟩ := h
    exact hrowlen a ha
  refine ⟨?_, ?_, ?_⟩
  · show (List.flatten ((List.range su).map (fun u => knotInsertion pv U (rowOf sv P u) ub r s k))).length = _
    rw [flatten_uniform_length (sv + r) _ hrows]; simp; ring
  · intro pt hpt
    have hpt' : pt ∈ List.flatten ((List.range su).map (fun u => knotInsertion pv U (rowOf sv P u) ub r s k)) := hpt
    rw [List.mem_flatten] at hpt'
    obtain ⟨l, hl, hptl⟩ := hpt'
    simp only [List.mem_map, List.mem_range] at hl
    obtain ⟨a, ha, rfl⟩ := hl
    exact knotInsertion_netOk pv U (rowOf sv P a) ub r s k d (rowOf_netOk su sv d P hP hlen a ha) hpk
      (by simp [rowOf]; exact hk) hrs (by omega) pt hptl
  · intro x hx
    exact mapSurfV_rows su sv (sv + r) P _ hrowlen x hx

/-- **Knot insertion in the v direction never changes a surface point** (any degrees, sizes, prior
    multiplicity, count; spans of the evaluation parameters given) -/
theorem insertV_preserves_surface_point (pu pv : ℕ) (Uu : ℕ → K) (Uvl : List K) (su sv : ℕ) (P : List (List K))
    (ub u v : K) (r s k ku κ κ' d j : ℕ) (hP : NetOk d P) (hlenP : P.length = su * sv)
    (hm : Monotone (fnOf Uvl)) (hlen : k + 1 < Uvl.length)
    (hk1 : fnOf Uvl k ≤ ub) (hk2 : ub < fnOf Uvl (k+1))
    (hmult : ∀ x, k - s < x → x ≤ k → fnOf Uvl x = ub)
    (hκ : fnOf Uvl κ < fnOf Uvl (κ+1))
    (hκ' : fnOf (knotInsertionKv Uvl ub k r) κ' < fnOf (knotInsertionKv Uvl ub k r) (κ'+1))
    (hr1 : 1 ≤ r) (hrs : r + s ≤ pv) (hpk : pv ≤ k) (hksv : k < sv) (hpκ : pv ≤ κ) (hκsv : κ < sv)
    (hpu : pu ≤ ku) (hku : ku < su)
    (hcase : (κ' = κ ∧ κ ≤ k) ∨ (κ' = κ + r ∧ k ≤ κ)) :
    (surfacePointAt pu pv Uu (fnOf (knotInsertionKv Uvl ub k r)) (sv + r)
        (mapSurfV su sv P (fun c => knotInsertion pv (fnOf Uvl) c ub r s k)).1 ku κ' u v).getD j 0
      = (surfacePointAt pu pv Uu (fnOf Uvl) sv P ku κ u v).getD j 0 := by
  obtain ⟨hQlen, hQ, hQrows⟩ := mapSurfV_spec su sv d r pv (fnOf Uvl) P ub s k hP hlenP hpk hksv hrs
  have hκ'lt : κ' < sv + r := by rcases hcase with ⟨h, _⟩ | ⟨h, _⟩ <;> omega
  have hpκ' : pv ≤ κ' := by rcases hcase with ⟨h, _⟩ | ⟨h, _⟩ <;> omega
  rw [surfacePointAt_rows pu pv Uu _ su (sv + r) _ ku κ' u v d j hpu hpκ' hku hκ'lt hQlen hQ]
  rw [surfacePointAt_rows pu pv Uu _ su sv P ku κ u v d j hpu hpκ hku hκsv hlenP hP]
  apply Finset.sum_congr rfl
  intro a ha
  rw [Finset.mem_range] at ha
  congr 1
  rw [hQrows (ku - pu + a) (by omega)]
  have hrow := rowOf_netOk su sv d P hP hlenP (ku - pu + a) (by omega)
  have hrl : (rowOf sv P (ku - pu + a)).length = sv := by simp [rowOf]
  exact knotInsertion_preserves_point pv Uvl (rowOf sv P (ku - pu + a)) ub v r s k κ κ' d j hrow hm hlen hk1 hk2 hmult
    hκ hκ' hr1 hrs hpk (by rw [hrl]; exact hksv) hpκ (by rw [hrl]; exact hκsv) hcase

end Geomdl

namespace Geomdl
open Blossom Finset
variable {K : Type} [Field K] [LinearOrder K] [IsStrictOrderedRing K]

/-- column `y` of a surface net (the control polygon of the iso-curve `v = y`) -/
def colOf (su sv : ℕ) (P : List (List K)) (y : ℕ) : List (List K) :=
  (List.range su).map (fun u => ptsGet P (y + sv * u))

theorem colOf_get (su sv : ℕ) (P : List (List K)) (y i : ℕ) (hi : i < su) :
    ptsGet (colOf su sv P y) i = ptsGet P (y + sv * i) := by
  simp [colOf, ptsGet, List.getD_eq_getElem?_getD, hi]

theorem colOf_netOk (su sv d : ℕ) (P : List (List K)) (hP : NetOk d P) (hlen : P.length = su * sv) (y : ℕ) (hy : y < sv) :
    NetOk d (colOf su sv P y) := by
  intro pt hpt
  simp only [colOf, List.mem_map, List.mem_range] at hpt
  obtain ⟨u, hu, rfl⟩ := hpt
  apply ptsGet_length hP
  rw [hlen]
  calc y + sv * u < sv + sv * u := by omega
    _ = sv * (u + 1) := by ring
    _ ≤ sv * su := Nat.mul_le_mul_left _ (by omega)
    _ = su * sv := by ring

/-- the surface point is the `Nv`-combination of the points of its iso-curves in the other direction -/
theorem surfacePointAt_cols (pu pv : ℕ) (Uu Uv : ℕ → K) (su sv : ℕ) (P : List (List K)) (ku kv : ℕ) (u v : K)
    (d j : ℕ) (hpu : pu ≤ ku) (hpv : pv ≤ kv) (hku : ku < su) (hkv : kv < sv) (hlen : P.length = su * sv) (hP : NetOk d P) :
    (surfacePointAt pu pv Uu Uv sv P ku kv u v).getD j 0
      = ∑ b ∈ range (pv+1), (basisFuns pv Uv kv v).getD b 0 *
          (curvePointAt pu Uu (colOf su sv P (kv - pv + b)) ku u).getD j 0 := by
  rw [surfacePointAt_sum pu pv Uu Uv su sv P ku kv u v d j hpu hpv hku hkv hlen hP]
  have h1 : ∀ a ∈ range (pu+1), (basisFuns pu Uu ku u).getD a 0 *
        ∑ b ∈ range (pv+1), (basisFuns pv Uv kv v).getD b 0 * (ptsGet P (kv - pv + b + sv * (ku - pu + a))).getD j 0
      = ∑ b ∈ range (pv+1), (basisFuns pv Uv kv v).getD b 0 *
          ((basisFuns pu Uu ku u).getD a 0 * (ptsGet P (kv - pv + b + sv * (ku - pu + a))).getD j 0) := by
    intro a _
    rw [Finset.mul_sum]
    apply Finset.sum_congr rfl
    intro b _; ring
  rw [Finset.sum_congr rfl h1, Finset.sum_comm]
  apply Finset.sum_congr rfl
  intro b hb
  rw [Finset.mem_range] at hb
  rw [← Finset.mul_sum]
  congr 1
  rw [curvePointAt_sum pu Uu (colOf su sv P (kv - pv + b)) ku u d j hpu (by simp [colOf]; exact hku)
        (colOf_netOk su sv d P hP hlen _ (by omega))]
  apply Finset.sum_congr rfl
  intro a ha
  rw [Finset.mem_range] at ha
  rw [colOf_get su sv P _ _ (by omega)]

theorem mapSurfU_spec (su sv d r pu : ℕ) (U : ℕ → K) (P : List (List K)) (ub : K) (s k : ℕ)
    (hP : NetOk d P) (hlen : P.length = su * sv) (hsv : 0 < sv) (hpk : pu ≤ k) (hk : k < su) (hrs : r + s ≤ pu) :
    let res := mapSurfU su sv P (fun c => knotInsertion pu U c ub r s k)
    res.2 = su + r ∧ res.1.length = (su + r) * sv ∧ NetOk d res.1 ∧
      ∀ y, y < sv → colOf (su + r) sv res.1 y = knotInsertion pu U (colOf su sv P y) ub r s k := by
  intro res
  have hcollen : ∀ y, (knotInsertion pu U (colOf su sv P y) ub r s k).length = su + r := by
    intro y; rw [knotInsertion_length]; simp [colOf]
  have hsize : res.2 = su + r := by
    show (((List.range sv).map (fun v => knotInsertion pu U (colOf su sv P v) ub r s k)).headD []).length = su + r
    cases sv with
    | zero => omega
    | succ n =>
      rw [List.range_succ_eq_map]
      simp only [List.map_cons, List.headD_cons]
      exact hcollen 0
  have hrows : ∀ rw_ ∈ (List.range (su + r)).map (fun u => (List.range sv).map (fun v =>
      ptsGet (((List.range sv).map (fun v => knotInsertion pu U (colOf su sv P v) ub r s k)).getD v []) u)), rw_.length = sv := by
    intro rw_ h
    simp only [List.mem_map, List.mem_range] at h
    obtain ⟨a, _, rfl⟩ := h
    simp
  have hnet : res.1 = List.flatten ((List.range (su + r)).map (fun u => (List.range sv).map (fun v =>
      ptsGet (((List.range sv).map (fun v => knotInsertion pu U (colOf su sv P v) ub r s k)).getD v []) u))) := by
    show (List.range res.2).flatMap _ = _
    rw [hsize, List.flatMap_def]
    rfl
  have hentry : ∀ y a, y < sv → a < su + r →
      ptsGet res.1 (y + sv * a) = ptsGet (knotInsertion pu U (colOf su sv P y) ub r s k) a := by
    intro y a hy ha
    unfold ptsGet
    rw [hnet, flatten_uniform_getD [] sv _ hrows a y (by simp; exact ha) hy]
    simp [List.getD_eq_getElem?_getD, ha, hy, ptsGet]
  refine ⟨hsize, ?_, ?_, ?_⟩
  · rw [hnet, flatten_uniform_length sv _ hrows]; simp; ring
  · intro pt hpt
    rw [hnet, List.mem_flatten] at hpt
    obtain ⟨l, hl, hptl⟩ := hpt
    simp only [List.mem_map, List.mem_range] at hl
    obtain ⟨a, ha, rfl⟩ := hl
    simp only [List.mem_map, List.mem_range] at hptl
    obtain ⟨y, hy, rfl⟩ := hptl
    have : ((List.range sv).map (fun v => knotInsertion pu U (colOf su sv P v) ub r s k)).getD y [] = knotInsertion pu U (colOf su sv P y) ub r s k := by
      simp [List.getD_eq_getElem?_getD, hy]
    rw [this]
    exact ptsGet_length (knotInsertion_netOk pu U (colOf su sv P y) ub r s k d (colOf_netOk su sv d P hP hlen y hy) hpk
      (by simp [colOf]; exact hk) hrs (by omega)) a (by rw [hcollen]; exact ha)
  · intro y hy
    apply List.ext_getElem
    · rw [hcollen]; simp [colOf]
    · intro i h1 h2
      have hi : i < su + r := by simpa [colOf] using h1
      simp only [colOf, List.getElem_map, List.getElem_range]
      rw [hentry y i hy hi]
      unfold ptsGet
      rw [List.getD_eq_getElem?_getD, List.getElem?_eq_getElem h2]
      rfl

/-- **Knot insertion in the u direction never changes a surface point** -/
theorem insertU_preserves_surface_point (pu pv : ℕ) (Uul : List K) (Uv : ℕ → K) (su sv : ℕ) (P : List (List K))
    (ub u v : K) (r s k kv κ κ' d j : ℕ) (hP : NetOk d P) (hlenP : P.length = su * sv)
    (hm : Monotone (fnOf Uul)) (hlen : k + 1 < Uul.length)
    (hk1 : fnOf Uul k ≤ ub) (hk2 : ub < fnOf Uul (k+1))
    (hmult : ∀ x, k - s < x → x ≤ k → fnOf Uul x = ub)
    (hκ : fnOf Uul κ < fnOf Uul (κ+1))
    (hκ' : fnOf (knotInsertionKv Uul ub k r) κ' < fnOf (knotInsertionKv Uul ub k r) (κ'+1))
    (hr1 : 1 ≤ r) (hrs : r + s ≤ pu) (hpk : pu ≤ k) (hksu : k < su) (hpκ : pu ≤ κ) (hκsu : κ < su)
    (hpv : pv ≤ kv) (hkv : kv < sv)
    (hcase : (κ' = κ ∧ κ ≤ k) ∨ (κ' = κ + r ∧ k ≤ κ)) :
    (surfacePointAt pu pv (fnOf (knotInsertionKv Uul ub k r)) Uv sv
        (mapSurfU su sv P (fun c => knotInsertion pu (fnOf Uul) c ub r s k)).1 κ' kv u v).getD j 0
      = (surfacePointAt pu pv (fnOf Uul) Uv sv P κ kv u v).getD j 0 := by
  obtain ⟨_, hQlen, hQ, hQcols⟩ := mapSurfU_spec su sv d r pu (fnOf Uul) P ub s k hP hlenP (by omega) hpk hksu hrs
  have hκ'lt : κ' < su + r := by rcases hcase with ⟨h, _⟩ | ⟨h, _⟩ <;> omega
  have hpκ' : pu ≤ κ' := by rcases hcase with ⟨h, _⟩ | ⟨h, _⟩ <;> omega
  rw [surfacePointAt_cols pu pv _ Uv (su + r) sv _ κ' kv u v d j hpκ' hpv hκ'lt hkv hQlen hQ]
  rw [surfacePointAt_cols pu pv _ Uv su sv P κ kv u v d j hpκ hpv hκsu hkv hlenP hP]
  apply Finset.sum_congr rfl
  intro b hb
  rw [Finset.mem_range] at hb
  congr 1
  rw [hQcols (kv - pv + b) (by omega)]
  have hcol := colOf_netOk su sv d P hP hlenP (kv - pv + b) (by omega)
  have hcl : (colOf su sv P (kv - pv + b)).length = su := by simp [colOf]
  exact knotInsertion_preserves_point pu Uul (colOf su sv P (kv - pv + b)) ub u r s k κ κ' d j hcol hm hlen hk1 hk2 hmult
    hκ hκ' hr1 hrs hpk (by rw [hcl]; exact hksu) hpκ (by rw [hcl]; exact hκsu) hcase

end Geomdl
