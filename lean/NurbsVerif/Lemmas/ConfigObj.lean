import NurbsVerif.Lemmas.ConfigRefine

/-!
  C17, object level: `insert_knot`, `remove_knot`, `refine_knotvector` (one direction) and
  `split_curve / split_surface_u / split_surface_v` under an affine change of the knot range of that direction.

  `Shape.affineKv S dir a b` is the shape `S` with the knot vector of direction `dir` mapped by `x ↦ a·x + b`
  (everything else untouched) – an auxiliary description of "the same geometry on another knot range".
-/
set_option linter.unusedSectionVars false

namespace Geomdl
open Blossom
variable {K : Type} [Field K] [LinearOrder K] [IsStrictOrderedRing K]

/-- the same shape with the knot vector of direction `dir` mapped by `x ↦ a·x + b` -/
def Shape.affineKv (S : Shape K) (dir : ℕ) (a b : K) : Shape K :=
  { S with kvs := S.kvs.set dir ((S.kv dir).map (fun y => a * y + b)) }

theorem cfg_set_getD (l : List (List K)) (dir : ℕ) (X : List K) (f : List K → List K) :
    (l.set dir X).set dir (f ((l.set dir X).getD dir [])) = l.set dir (f X) := by
  by_cases h : dir < l.length
  · rw [List.set_set, List.getD_eq_getElem?_getD, List.getElem?_set_self (by simpa using h)]
    rfl
  · have h' : l.length ≤ dir := by omega
    have e : ∀ Y, l.set dir Y = l := fun Y => List.set_eq_of_length_le h'
    rw [e X, e (f X), e]

theorem affineKv_kv (S : Shape K) (dir : ℕ) (a b : K) :
    (S.affineKv dir a b).kv dir = (S.kv dir).map (fun y => a * y + b) := by
  unfold Shape.affineKv Shape.kv
  simp only []
  by_cases h : dir < S.kvs.length
  · rw [List.getD_eq_getElem?_getD, List.getElem?_set_self h]; rfl
  · have h' : S.kvs.length ≤ dir := by omega
    rw [List.set_eq_of_length_le h', List.getD_eq_getElem?_getD, List.getElem?_eq_none_iff.mpr h']
    rfl

theorem affineKv_kvs_set (S : Shape K) (dir : ℕ) (a b : K) (Y : List K) :
    (S.affineKv dir a b).kvs.set dir Y = S.kvs.set dir Y := by
  unfold Shape.affineKv
  simp only [List.set_set]

/-- building a result shape from `S` with a new knot vector `Y` in direction `dir`, then mapping that
    direction, is building it from the mapped `Y` -/
theorem cfg_result_affine (S : Shape K) (dir : ℕ) (a b : K) (Y : List K) (sz : List ℕ) (net : List (List K)) :
    ({ S with kvs := S.kvs.set dir Y, sizes := sz, net := net } : Shape K).affineKv dir a b
      = { S with kvs := S.kvs.set dir (Y.map (fun y => a * y + b)), sizes := sz, net := net } := by
  unfold Shape.affineKv Shape.kv
  simp only []
  rw [cfg_set_getD S.kvs dir Y (List.map (fun y => a * y + b))]

/-! ### one direction of `insert_knot` / `remove_knot` / `refine_knotvector` -/

/-- **`operations.insert_knot`, one direction**: on the shape with the knots of that direction mapped to
    `a•U + b`, inserting `a·ū + b` (tolerance `a·tol`) is accepted / rejected in the same cases and gives the
    mapped knot vector with the same control net and sizes -/
theorem insertKnotDir_affine_gen (S : Shape K) (dir : ℕ) (u : K) (r : ℕ) (tol tol' a b : K) (check : Bool) (ha : 0 < a)
    (hne : S.kv dir ≠ [])
    (hmult : findMultiplicity (a * u + b) ((S.kv dir).map (fun x => a * x + b)) tol' = findMultiplicity u (S.kv dir) tol) :
    insertKnotDir (S.affineKv dir a b) dir (a * u + b) r tol' check
      = (insertKnotDir S dir u r tol check).map (fun T => T.affineKv dir a b) := by
  unfold insertKnotDir
  simp only []
  rw [affineKv_kv, hmult]
  have hdeg : (S.affineKv dir a b).deg dir = S.deg dir := rfl
  have hsize : (S.affineKv dir a b).size dir = S.size dir := rfl
  have hmap : ∀ g, (S.affineKv dir a b).mapDir dir g = S.mapDir dir g := fun _ => rfl
  rw [hdeg, hsize]
  split
  · rfl
  · simp only [Option.map_some, hmap]
    rw [fnOf_map_affine (S.kv dir) a b hne, findSpanLinear_affine _ _ _ _ a b ha,
      knotInsertionKv_map (fun y => a * y + b), affineKv_kvs_set, cfg_result_affine]
    simp only [knotInsertion_affine _ (fnOf (S.kv dir)) _ u _ _ _ a b (ne_of_gt ha)]
    rfl

theorem insertKnotDir_affine (S : Shape K) (dir : ℕ) (u : K) (r : ℕ) (tol a b : K) (check : Bool) (ha : 0 < a)
    (hne : S.kv dir ≠ []) :
    insertKnotDir (S.affineKv dir a b) dir (a * u + b) r (a * tol) check
      = (insertKnotDir S dir u r tol check).map (fun T => T.affineKv dir a b) :=
  insertKnotDir_affine_gen S dir u r tol (a * tol) a b check ha hne (findMultiplicity_affine u (S.kv dir) tol a b ha)

/-- **`operations.remove_knot`, one direction** (same tolerance on control-point distances) -/
theorem removeKnotDir_affine_gen (S : Shape K) (dir : ℕ) (u : K) (num : ℕ) (tol tol' tol2 a b : K) (check : Bool)
    (ha : 0 < a) (hne : S.kv dir ≠ [])
    (hmult : findMultiplicity (a * u + b) ((S.kv dir).map (fun x => a * x + b)) tol' = findMultiplicity u (S.kv dir) tol) :
    removeKnotDir (S.affineKv dir a b) dir (a * u + b) num tol' tol2 check
      = (removeKnotDir S dir u num tol tol2 check).map (fun T => T.affineKv dir a b) := by
  unfold removeKnotDir
  simp only []
  rw [affineKv_kv, hmult]
  have hdeg : (S.affineKv dir a b).deg dir = S.deg dir := rfl
  have hsize : (S.affineKv dir a b).size dir = S.size dir := rfl
  have hmap : ∀ g, (S.affineKv dir a b).mapDir dir g = S.mapDir dir g := fun _ => rfl
  rw [hdeg, hsize]
  split
  · rfl
  · simp only [Option.map_some, hmap]
    rw [fnOf_map_affine (S.kv dir) a b hne, findSpanLinear_affine _ _ _ _ a b ha,
      knotRemovalKv_map (fun y => a * y + b), affineKv_kvs_set, cfg_result_affine]
    simp only [knotRemoval_affine _ (fnOf (S.kv dir)) _ u _ _ _ _ a b (ne_of_gt ha)]
    rfl

theorem removeKnotDir_affine (S : Shape K) (dir : ℕ) (u : K) (num : ℕ) (tol tol2 a b : K) (check : Bool) (ha : 0 < a)
    (hne : S.kv dir ≠ []) :
    removeKnotDir (S.affineKv dir a b) dir (a * u + b) num (a * tol) tol2 check
      = (removeKnotDir S dir u num tol tol2 check).map (fun T => T.affineKv dir a b) :=
  removeKnotDir_affine_gen S dir u num tol (a * tol) tol2 a b check ha hne
    (findMultiplicity_affine u (S.kv dir) tol a b ha)

/-- **`operations.refine_knotvector`, one direction** -/
theorem refineDir_affine (S : Shape K) (dir density : ℕ) (tol a b : K) (ha : 0 < a) (hne : S.kv dir ≠ []) :
    refineDir (S.affineKv dir a b) dir density (a * tol)
      = (refineDir S dir density tol).map (fun T => T.affineKv dir a b) := by
  unfold refineDir
  simp only []
  rw [affineKv_kv]
  have hdeg : (S.affineKv dir a b).deg dir = S.deg dir := rfl
  have hsize : (S.affineKv dir a b).size dir = S.size dir := rfl
  have hmap : ∀ g, (S.affineKv dir a b).mapDir dir g = S.mapDir dir g := fun _ => rfl
  rw [hdeg, hsize, refineX_affine _ _ _ _ a b ha, List.isEmpty_map]
  split
  · rfl
  · simp only [Option.map_some, hmap]
    rw [affineKv_kvs_set, cfg_result_affine]
    simp only [insertFold_affine (S.deg dir) tol a b ha _ (S.kv dir) _ hne]
    rfl

end Geomdl
