import NurbsVerif.Lemmas.RemoveObjDir

/-! `removeKnotDir` after `insertKnotDir` on surfaces and volumes (any direction, `t ≤ r` removals),
    and the full calls `removeKnot (insertKnot S …).1 … = (S, true)` for one requested direction. -/
namespace Geomdl
open Blossom Finset
set_option linter.unusedSectionVars false
variable {K : Type} [Field K] [LinearOrder K] [IsStrictOrderedRing K]

/-- knot vector of direction `dir` after inserting `ub` `r` times (span by the library's search) -/
abbrev insKvOf (S : Shape K) (dir : ℕ) (ub : K) (r : ℕ) : List K :=
  knotInsertionKv (S.kv dir) ub (findSpanLinear (S.deg dir) (fnOf (S.kv dir)) (S.size dir) ub) r

/-- A5.1 on one iso-curve of direction `dir`, as `insertKnotDir` calls it -/
abbrev insFnOf (S : Shape K) (dir : ℕ) (ub : K) (r : ℕ) (tol : K) : List (List K) → List (List K) :=
  fun c => knotInsertion (S.deg dir) (fnOf (S.kv dir)) c ub r (findMultiplicity ub (S.kv dir) tol)
    (findSpanLinear (S.deg dir) (fnOf (S.kv dir)) (S.size dir) ub)

/-- the object `insertKnotDir` returns -/
abbrev insDirOf (S : Shape K) (dir : ℕ) (ub : K) (r : ℕ) (tol : K) : Shape K :=
  S.withDir dir (insKvOf S dir ub r) (insFnOf S dir ub r tol)

/-- A5.8 on one iso-curve of the refined object, with the span `k + r` and multiplicity `s + r` the
    library finds there -/
abbrev remFnOf (S : Shape K) (dir : ℕ) (ub : K) (r t : ℕ) (tol tol2 : K) : List (List K) → List (List K) :=
  fun c => knotRemoval (S.deg dir) (fnOf (insKvOf S dir ub r)) c ub t (findMultiplicity ub (S.kv dir) tol + r)
    (findSpanLinear (S.deg dir) (fnOf (S.kv dir)) (S.size dir) ub + r) tol2

theorem insertKnotDir_insDirOf (S : Shape K) (dir : ℕ) (ub : K) (r : ℕ) (tol : K) (check : Bool)
    (hrs : r + findMultiplicity ub (S.kv dir) tol ≤ S.deg dir) :
    insertKnotDir S dir ub r tol check = some (insDirOf S dir ub r tol) :=
  insertKnotDir_withDir S dir ub r tol check hrs

/-- `removeKnotDir` on the refined object, the library's searches evaluated -/
theorem removeKnotDir_insDirOf_eq (S : Shape K) (dir : ℕ) (ub : K) (r t : ℕ) (tol tol2 : K) (check : Bool)
    (hkv : KvWF (S.deg dir) (S.kv dir) (S.size dir)) (h : RoundOk S dir ub r tol) (htr : t ≤ r)
    (e_kv : (insDirOf S dir ub r tol).kv dir = insKvOf S dir ub r)
    (e_sz : (insDirOf S dir ub r tol).size dir = S.size dir + r) :
    removeKnotDir (insDirOf S dir ub r tol) dir ub t tol tol2 check
      = some ((insDirOf S dir ub r tol).withDir dir (insKvOf S dir ub (r - t)) (remFnOf S dir ub r t tol tol2)) := by
  obtain ⟨f1, f2, f3, f4, f5, f6⟩ := roundOk_facts S dir ub r tol hkv h
  rw [removeKnotDir_eq (insDirOf S dir ub r tol) dir ub t tol tol2 check (S.deg dir) (insKvOf S dir ub r)
    (S.size dir + r) _ _ rfl e_kv e_sz f5 f6 (by omega)]
  rw [RemInv.removeKv_t_of_r (S.kv dir) ub _ r t (by omega) htr]

/-! ### surfaces -/

theorem surf_round_maps (d : ℕ) (S : Shape K) (hS : SurfWF d S) (dir : ℕ) (hdir : dir < 2) (ub : K) (r t : ℕ)
    (tol tol2 : K) (h : RoundOk S dir ub r tol) (h2 : 0 ≤ tol2) (ht1 : 1 ≤ t) (htr : t ≤ r) :
    (insDirOf S dir ub r tol).kv dir = insKvOf S dir ub r ∧ (insDirOf S dir ub r tol).size dir = S.size dir + r ∧
    (insDirOf S dir ub r tol).mapDir dir (remFnOf S dir ub r t tol tol2) = S.mapDir dir (insFnOf S dir ub (r - t) tol) ∧
    (t = r → (insDirOf S dir ub r tol).mapDir dir (remFnOf S dir ub r t tol tol2) = (S.net, S.size dir)) := by
  have hkv := hS.dir dir hdir
  obtain ⟨f1, f2, f3, f4, _, _⟩ := roundOk_facts S dir ub r tol hkv h
  have hop := isoOp_of_dirReqOk d S dir ub r tol hkv h.r1 h.req
  have hsu : 0 < S.size 0 := by have := hS.dir0.pn; omega
  have hsv : 0 < S.size 1 := by have := hS.dir1.pn; omega
  rcases (by omega : dir = 0 ∨ dir = 1) with rfl | rfl
  · obtain ⟨_, e1, e2⟩ := surface_dirOp0 d S hS _ _ _ hop
    have q1 := (surfU_isoOp (S.deg 0) 0 (S.kv 0) _ (fun _ => 0) (S.size 0) (S.size 1) _ d S.net _ hS.net hS.netlen hkv hop hsv).1
    have hmapS : ∀ f, S.mapDir 0 f = mapSurfU (S.size 0) (S.size 1) S.net f := by
      intro f; unfold Shape.mapDir Shape.pdim; rw [hS.degs]; simp
    refine ⟨e1, e2, ?_, ?_⟩
    · rw [mapDir_withDir_surf0 S hS.degs hS.sizes, q1, hmapS]
      exact RemInv.surfU_remove_t_of_r (S.kv 0) S.net ub (S.deg 0) r t _ _ d (S.size 0) (S.size 1) tol2 hS.net hS.netlen
        hkv.mono f3 f4 h.below ht1 htr h.req.rs f1 h2 hsv f2
    · rintro rfl
      rw [mapDir_withDir_surf0 S hS.degs hS.sizes, q1]
      exact RemInv.surfU_remove_inverts_insert (S.kv 0) S.net ub (S.deg 0) t _ _ d (S.size 0) (S.size 1) tol2 hS.net hS.netlen
        hkv.mono f3 f4 h.below ht1 h.req.rs f1 h2 hsv f2
  · obtain ⟨_, e1, e2⟩ := surface_dirOp1 d S hS _ _ _ hop
    have q1 := (surfV_isoOp 0 (S.deg 1) (fun _ => 0) (S.kv 1) _ (S.size 0) (S.size 1) _ d S.net _ hS.net hS.netlen hkv hop hsu).1
    have hmapS : ∀ f, S.mapDir 1 f = mapSurfV (S.size 0) (S.size 1) S.net f := by
      intro f; unfold Shape.mapDir Shape.pdim; rw [hS.degs]; simp
    refine ⟨e1, e2, ?_, ?_⟩
    · rw [mapDir_withDir_surf1 S hS.degs hS.sizes, q1, hmapS]
      exact RemInv.surfV_remove_t_of_r (S.kv 1) S.net ub (S.deg 1) r t _ _ d (S.size 0) (S.size 1) tol2 hS.net hS.netlen
        hkv.mono f3 f4 h.below ht1 htr h.req.rs f1 h2 hsu f2
    · rintro rfl
      rw [mapDir_withDir_surf1 S hS.degs hS.sizes, q1]
      exact RemInv.surfV_remove_inverts_insert (S.kv 1) S.net ub (S.deg 1) t _ _ d (S.size 0) (S.size 1) tol2 hS.net hS.netlen
        hkv.mono f3 f4 h.below ht1 h.req.rs f1 h2 hsu f2

/-- **surfaces, one direction: insert `r` times, remove `t ≤ r` times = insert `r - t` times**, as
    objects (knot vectors, sizes, net), with the library's own span / multiplicity searches -/
theorem surface_insertDir_removeDir_t (d : ℕ) (S : Shape K) (hS : SurfWF d S) (dir : ℕ) (hdir : dir < 2) (ub : K)
    (r t : ℕ) (tol tol2 : K) (check : Bool) (h : RoundOk S dir ub r tol) (h2 : 0 ≤ tol2) (ht1 : 1 ≤ t) (htr : t ≤ r) :
    removeKnotDir (insDirOf S dir ub r tol) dir ub t tol tol2 check = some (insDirOf S dir ub (r - t) tol) := by
  obtain ⟨e1, e2, e3, _⟩ := surf_round_maps d S hS dir hdir ub r t tol tol2 h h2 ht1 htr
  rw [removeKnotDir_insDirOf_eq S dir ub r t tol tol2 check (hS.dir dir hdir) h htr e1 e2]
  exact congrArg some (withDir_withDir S dir _ _ _ _ _ e3)

/-- **surfaces, one direction, full round trip**: the original object comes back -/
theorem surface_insertDir_removeDir (d : ℕ) (S : Shape K) (hS : SurfWF d S) (dir : ℕ) (hdir : dir < 2) (ub : K)
    (r : ℕ) (tol tol2 : K) (check : Bool) (h : RoundOk S dir ub r tol) (h2 : 0 ≤ tol2) :
    removeKnotDir (insDirOf S dir ub r tol) dir ub r tol tol2 check = some S := by
  obtain ⟨e1, e2, _, e4⟩ := surf_round_maps d S hS dir hdir ub r r tol tol2 h h2 h.r1 (le_refl _)
  rw [removeKnotDir_insDirOf_eq S dir ub r r tol tol2 check (hS.dir dir hdir) h (le_refl _) e1 e2]
  have : insKvOf S dir ub (r - r) = S.kv dir := by
    show knotInsertionKv (S.kv dir) ub _ (r - r) = _
    rw [Nat.sub_self, RemInv.knotInsertionKv_zero]
  rw [this]
  exact congrArg some (withDir_back S dir _ _ _ (by rw [hS.kvs]; exact hdir) (by rw [hS.sizes]; exact hdir) (e4 rfl))

/-! ### volumes -/

theorem vol_round_maps (d : ℕ) (S : Shape K) (hS : VolWF d S) (dir : ℕ) (hdir : dir < 3) (ub : K) (r t : ℕ)
    (tol tol2 : K) (h : RoundOk S dir ub r tol) (h2 : 0 ≤ tol2) (ht1 : 1 ≤ t) (htr : t ≤ r) :
    (insDirOf S dir ub r tol).kv dir = insKvOf S dir ub r ∧ (insDirOf S dir ub r tol).size dir = S.size dir + r ∧
    (insDirOf S dir ub r tol).mapDir dir (remFnOf S dir ub r t tol tol2) = S.mapDir dir (insFnOf S dir ub (r - t) tol) ∧
    (t = r → (insDirOf S dir ub r tol).mapDir dir (remFnOf S dir ub r t tol tol2) = (S.net, S.size dir)) := by
  have hkv := hS.dir dir hdir
  obtain ⟨f1, f2, f3, f4, _, _⟩ := roundOk_facts S dir ub r tol hkv h
  have hop := isoOp_of_dirReqOk d S dir ub r tol hkv h.r1 h.req
  have hsu : 0 < S.size 0 := by have := hS.dir0.pn; omega
  have hsv : 0 < S.size 1 := by have := hS.dir1.pn; omega
  have hsw : 0 < S.size 2 := by have := hS.dir2.pn; omega
  rcases (by omega : dir = 0 ∨ dir = 1 ∨ dir = 2) with rfl | rfl | rfl
  · obtain ⟨_, e1, e2⟩ := volume_dirOp0 d S hS _ _ _ hop
    have q1 := (volU_isoOp (S.deg 0) 0 0 (S.kv 0) _ (fun _ => 0) (fun _ => 0) (S.size 0) (S.size 1) (S.size 2) _ d S.net _
      hS.net hS.netlen hkv hop hsv hsw).1
    refine ⟨e1, e2, ?_, ?_⟩
    · rw [mapDir_withDir_vol0 S hS.degs hS.sizes, q1, mapDir_vol S 0 _ hS.degs]
      exact RemInv.volU_remove_t_of_r (S.kv 0) S.net ub (S.deg 0) r t _ _ d (S.size 0) (S.size 1) (S.size 2) tol2 hS.net hS.netlen
        hsu hsv hsw hkv.mono f3 f4 h.below ht1 htr h.req.rs f1 h2 f2
    · rintro rfl
      rw [mapDir_withDir_vol0 S hS.degs hS.sizes, q1]
      exact RemInv.volU_remove_inverts_insert (S.kv 0) S.net ub (S.deg 0) t _ _ d (S.size 0) (S.size 1) (S.size 2) tol2 hS.net hS.netlen
        hsu hsv hsw hkv.mono f3 f4 h.below ht1 h.req.rs f1 h2 f2
  · obtain ⟨_, e1, e2⟩ := volume_dirOp1 d S hS _ _ _ hop
    have q1 := (volV_isoOp 0 (S.deg 1) 0 (fun _ => 0) (S.kv 1) _ (fun _ => 0) (S.size 0) (S.size 1) (S.size 2) _ d S.net _
      hS.net hS.netlen hkv hop hsu hsw).1
    refine ⟨e1, e2, ?_, ?_⟩
    · rw [mapDir_withDir_vol1 S hS.degs hS.sizes, q1, mapDir_vol S 1 _ hS.degs]
      exact RemInv.volV_remove_t_of_r (S.kv 1) S.net ub (S.deg 1) r t _ _ d (S.size 0) (S.size 1) (S.size 2) tol2 hS.net hS.netlen
        hsu hsv hsw hkv.mono f3 f4 h.below ht1 htr h.req.rs f1 h2 f2
    · rintro rfl
      rw [mapDir_withDir_vol1 S hS.degs hS.sizes, q1]
      exact RemInv.volV_remove_inverts_insert (S.kv 1) S.net ub (S.deg 1) t _ _ d (S.size 0) (S.size 1) (S.size 2) tol2 hS.net hS.netlen
        hsu hsv hsw hkv.mono f3 f4 h.below ht1 h.req.rs f1 h2 f2
  · obtain ⟨_, e1, e2⟩ := volume_dirOp2 d S hS _ _ _ hop
    have q1 := (volW_isoOp 0 0 (S.deg 2) (fun _ => 0) (fun _ => 0) (S.kv 2) _ (S.size 0) (S.size 1) (S.size 2) _ d S.net _
      hS.net hS.netlen hkv hop hsu hsv).1
    refine ⟨e1, e2, ?_, ?_⟩
    · rw [mapDir_withDir_vol2 S hS.degs hS.sizes, q1, mapDir_vol S 2 _ hS.degs]
      exact RemInv.volW_remove_t_of_r (S.kv 2) S.net ub (S.deg 2) r t _ _ d (S.size 0) (S.size 1) (S.size 2) tol2 hS.net hS.netlen
        hsu hsv hsw hkv.mono f3 f4 h.below ht1 htr h.req.rs f1 h2 2 (le_refl _) f2
    · rintro rfl
      rw [mapDir_withDir_vol2 S hS.degs hS.sizes, q1]
      exact RemInv.volW_remove_inverts_insert (S.kv 2) S.net ub (S.deg 2) t _ _ d (S.size 0) (S.size 1) (S.size 2) tol2 hS.net hS.netlen
        hsu hsv hsw hkv.mono f3 f4 h.below ht1 h.req.rs f1 h2 2 (le_refl _) f2

/-- **volumes, one direction: insert `r` times, remove `t ≤ r` times = insert `r - t` times** -/
theorem volume_insertDir_removeDir_t (d : ℕ) (S : Shape K) (hS : VolWF d S) (dir : ℕ) (hdir : dir < 3) (ub : K)
    (r t : ℕ) (tol tol2 : K) (check : Bool) (h : RoundOk S dir ub r tol) (h2 : 0 ≤ tol2) (ht1 : 1 ≤ t) (htr : t ≤ r) :
    removeKnotDir (insDirOf S dir ub r tol) dir ub t tol tol2 check = some (insDirOf S dir ub (r - t) tol) := by
  obtain ⟨e1, e2, e3, _⟩ := vol_round_maps d S hS dir hdir ub r t tol tol2 h h2 ht1 htr
  rw [removeKnotDir_insDirOf_eq S dir ub r t tol tol2 check (hS.dir dir hdir) h htr e1 e2]
  exact congrArg some (withDir_withDir S dir _ _ _ _ _ e3)

/-- **volumes, one direction, full round trip** -/
theorem volume_insertDir_removeDir (d : ℕ) (S : Shape K) (hS : VolWF d S) (dir : ℕ) (hdir : dir < 3) (ub : K)
    (r : ℕ) (tol tol2 : K) (check : Bool) (h : RoundOk S dir ub r tol) (h2 : 0 ≤ tol2) :
    removeKnotDir (insDirOf S dir ub r tol) dir ub r tol tol2 check = some S := by
  obtain ⟨e1, e2, _, e4⟩ := vol_round_maps d S hS dir hdir ub r r tol tol2 h h2 h.r1 (le_refl _)
  rw [removeKnotDir_insDirOf_eq S dir ub r r tol tol2 check (hS.dir dir hdir) h (le_refl _) e1 e2]
  have : insKvOf S dir ub (r - r) = S.kv dir := by
    show knotInsertionKv (S.kv dir) ub _ (r - r) = _
    rw [Nat.sub_self, RemInv.knotInsertionKv_zero]
  rw [this]
  exact congrArg some (withDir_back S dir _ _ _ (by rw [hS.kvs]; exact hdir) (by rw [hS.sizes]; exact hdir) (e4 rfl))

end Geomdl
