import NurbsVerif.Lemmas.PivotMax
import NurbsVerif.Lemmas.LUMinors

/-! When exactly `matrix_determinant` (column-maximum row exchanges on the unreduced matrix, then Doolittle without
    pivoting, F-16b not repaired) returns the determinant: iff the matrix is singular or no proper leading principal
    minor of the row-permuted matrix `P·m` vanishes.  Complete for sizes ≤ 2; for size 3 the only condition is the
    leading 2 × 2 minor of `P·m`. -/
namespace Lin
open Finset
variable {K : Type} [Field K] [LinearOrder K]

/-- after a zero Doolittle pivot the routine still multiplies the diagonal: it returns `0` -/
theorem matrixDeterminant_zero_of_zero_pivot (m : List (List K)) (j : ℕ) (hj : j < m.length)
    (h0 : (doolittle (ent (matrixPivot m).mp) m.length).U j j = 0) : matrixDeterminant m = 0 := by
  unfold matrixDeterminant
  simp only
  rw [(matrixPivot_lengths m).1, foldl_mul_eq_prod, one_mul,
    prod_eq_zero (mem_range.mpr hj) (by rw [h0, mul_zero]), zero_mul]

/-- **`matrix_determinant` returns the determinant iff Doolittle on the row-permuted matrix meets no zero pivot or
    the matrix is singular** (after a zero pivot the routine returns `0`) -/
theorem matrixDeterminant_eq_det_iff (m : List (List K)) :
    matrixDeterminant m = (toMat m.length m.length m).det ↔
      (∀ j, j < m.length → (doolittle (ent (matrixPivot m).mp) m.length).U j j ≠ 0) ∨
      (toMat m.length m.length m).det = 0 := by
  constructor
  · intro h
    by_cases hp : ∀ j, j < m.length → (doolittle (ent (matrixPivot m).mp) m.length).U j j ≠ 0
    · exact Or.inl hp
    · right
      push Not at hp
      obtain ⟨j, hj, h0⟩ := hp
      rw [← h, matrixDeterminant_zero_of_zero_pivot m j hj h0]
  · rintro (hp | h0)
    · exact matrixDeterminant_eq_det m hp
    · by_cases hp : ∀ j, j < m.length → (doolittle (ent (matrixPivot m).mp) m.length).U j j ≠ 0
      · exact matrixDeterminant_eq_det m hp
      · push Not at hp
        obtain ⟨j, hj, hz⟩ := hp
        rw [h0, matrixDeterminant_zero_of_zero_pivot m j hj hz]

/-- **all leading principal minors of `P·m` non-zero ⇒ no zero pivot ⇒ `matrix_determinant` is the determinant** -/
theorem matrixDeterminant_eq_det_of_minors (m : List (List K))
    (h : ∀ k, 1 ≤ k → k ≤ m.length → (toMat k k (matrixPivot m).mp).det ≠ 0) :
    matrixDeterminant m = (toMat m.length m.length m).det :=
  matrixDeterminant_eq_det m (pivots_ne_zero_of_minors _ _ h)

variable [IsStrictOrderedRing K]

/-- for a non-singular input the minors of size `1` and `n` of `P·m` never vanish: Doolittle meets no zero pivot iff
    the minors of the sizes `2 … n-1` are non-zero -/
theorem matrixPivot_pivots_iff_inner_minors (m : List (List K)) (hdet : (toMat m.length m.length m).det ≠ 0) :
    (∀ j, j < m.length → (doolittle (ent (matrixPivot m).mp) m.length).U j j ≠ 0) ↔
      ∀ k, 2 ≤ k → k < m.length → (toMat k k (matrixPivot m).mp).det ≠ 0 := by
  rw [pivots_ne_zero_iff_minors]
  constructor
  · intro h k h2 hk
    exact h k (by omega) (by omega)
  · intro h k h1 hk
    rcases Nat.lt_or_ge k 2 with c | c
    · have e : k = 1 := by omega
      subst e
      rw [leadBlock_ent, Matrix.det_fin_one]
      exact matrixPivot_first_ne_zero m (by omega) hdet
    · rcases Nat.lt_or_ge k m.length with d | d
      · exact h k c d
      · have e : k = m.length := by omega
        subst e
        rw [leadBlock_ent, matrixPivot_det]
        exact mul_ne_zero (pow_ne_zero _ (by norm_num)) hdet

/-- **complete characterisation**: `matrix_determinant m = det m` iff `m` is singular or no leading principal minor of
    `P·m` of a size `2 … n-1` vanishes -/
theorem matrixDeterminant_eq_det_iff_minors (m : List (List K)) :
    matrixDeterminant m = (toMat m.length m.length m).det ↔
      (toMat m.length m.length m).det = 0 ∨
      ∀ k, 2 ≤ k → k < m.length → (toMat k k (matrixPivot m).mp).det ≠ 0 := by
  rw [matrixDeterminant_eq_det_iff]
  by_cases hdet : (toMat m.length m.length m).det = 0
  · simp [hdet]
  · rw [matrixPivot_pivots_iff_inner_minors m hdet]
    tauto

/-- **sizes 0, 1, 2: `matrix_determinant` is the determinant, without any hypothesis** -/
theorem matrixDeterminant_eq_det_le_two (m : List (List K)) (hn : m.length ≤ 2) :
    matrixDeterminant m = (toMat m.length m.length m).det :=
  (matrixDeterminant_eq_det_iff_minors m).mpr (Or.inr (fun k h2 hk => by omega))

/-- **size 3: `matrix_determinant` is the determinant iff the matrix is singular or the leading 2 × 2 minor of the
    row-permuted matrix is non-zero** -/
theorem matrixDeterminant_eq_det_three (m : List (List K)) (hn : m.length = 3) :
    matrixDeterminant m = (toMat m.length m.length m).det ↔
      (toMat m.length m.length m).det = 0 ∨
      ent (matrixPivot m).mp 0 0 * ent (matrixPivot m).mp 1 1
        - ent (matrixPivot m).mp 0 1 * ent (matrixPivot m).mp 1 0 ≠ 0 := by
  rw [matrixDeterminant_eq_det_iff_minors]
  have e : (toMat 2 2 (matrixPivot m).mp).det = ent (matrixPivot m).mp 0 0 * ent (matrixPivot m).mp 1 1
        - ent (matrixPivot m).mp 0 1 * ent (matrixPivot m).mp 1 0 := by
    rw [Matrix.det_fin_two]; rfl
  constructor
  · rintro (h | h)
    · exact Or.inl h
    · right; rw [← e]; exact h 2 (le_refl _) (by omega)
  · rintro (h | h)
    · exact Or.inl h
    · right
      intro k h2 hk
      have : k = 2 := by omega
      subst this
      rw [e]; exact h

end Lin
