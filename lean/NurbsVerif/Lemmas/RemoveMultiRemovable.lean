import NurbsVerif.Lemmas.RemoveMultiChain
import NurbsVerif.Lemmas.RemoveMultiVolObj

/-!
  C06, several directions in one call, part 7: "removable at all" when ONE `remove_knot` call requests several
  directions.  `SurfRemChain d tol L S T` / `VolRemChain d tol L S T`: from the surface / volume `S` the knots of the
  list `L` (entries `(dir, ub, r)`, distinct directions, any order) are removable one after the other AS A SURFACE /
  VOLUME (`SurfRemovableObj` / `VolRemovableObj`, each link with its own witness), the last witness being `T`.
-/
namespace Geomdl
namespace Multi
open Blossom Finset
set_option linter.unusedSectionVars false
variable {K : Type} [Field K] [LinearOrder K] [IsStrictOrderedRing K]

/-- chain of "removable from the surface" links, outermost first -/
abbrev SurfRemChain (d : ℕ) (tol : K) : List (ℕ × K × ℕ) → Shape K → Shape K → Prop :=
  RemChain (fun S T dir ub r => SurfRemovableObj d S T dir ub r tol)

/-- chain of "removable from the volume" links, outermost first -/
abbrev VolRemChain (d : ℕ) (tol : K) : List (ℕ × K × ℕ) → Shape K → Shape K → Prop :=
  RemChain (fun S T dir ub r => VolRemovableObj d S T dir ub r tol)

/-- **Surfaces, whenever removable at all, several directions in one `remove_knot` call** -/
theorem surface_remove_removable_chain (d : ℕ) (tol : K) (L : List (ℕ × K × ℕ)) (S T : Shape K) (hT : SurfWF d T)
    (hch : SurfRemChain d tol L S T) (hnd : (L.map Prod.fst).Nodup) (params : List (Option K)) (nums nums' : List ℕ)
    (hpar : ∀ q ∈ L, params.getD q.1 none = some q.2.1 ∧ nums.getD q.1 0 = q.2.2)
    (hoth : ∀ e, e < 2 → e ∉ L.map Prod.fst → params.getD e none = none ∨ nums.getD e 0 = 0)
    (tol2 : K) (h2 : 0 ≤ tol2) (c c' : Bool) (hle : ∀ e, e < 2 → nums'.getD e 0 ≤ nums.getD e 0) :
    RoundCallOk 2 T params nums tol ∧ insertKnot T params nums tol c' = (S, true) ∧
    removeKnot S params nums' tol tol2 c = insertKnot T params (subNums nums nums') tol c' ∧
    ((∀ e, e < 2 → nums'.getD e 0 = nums.getD e 0) → removeKnot S params nums' tol tol2 c = (T, true)) :=
  chain_removeKnot (surfFacts d tol tol2 h2) params nums nums' L S T hT
    (RemChain.insChain (fun _ _ _ _ _ h => ⟨h.is_inserted, h.wfT, h.round⟩) L S T hch) hnd
    (RemChain.dirs (P := fun dir => dir < 2) (fun _ _ _ _ _ h => h.dir2) L S T hch) hpar hoth c c' hle

/-- **Volumes, whenever removable at all, several directions in one `remove_knot` call** (the per-iso-curve model
    `removeKnot`) -/
theorem volume_remove_removable_chain (d : ℕ) (tol : K) (L : List (ℕ × K × ℕ)) (S T : Shape K) (hT : VolWF d T)
    (hch : VolRemChain d tol L S T) (hnd : (L.map Prod.fst).Nodup) (params : List (Option K)) (nums nums' : List ℕ)
    (hpar : ∀ q ∈ L, params.getD q.1 none = some q.2.1 ∧ nums.getD q.1 0 = q.2.2)
    (hoth : ∀ e, e < 3 → e ∉ L.map Prod.fst → params.getD e none = none ∨ nums.getD e 0 = 0)
    (tol2 : K) (h2 : 0 ≤ tol2) (c c' : Bool) (hle : ∀ e, e < 3 → nums'.getD e 0 ≤ nums.getD e 0) :
    RoundCallOk 3 T params nums tol ∧ insertKnot T params nums tol c' = (S, true) ∧
    removeKnot S params nums' tol tol2 c = insertKnot T params (subNums nums nums') tol c' ∧
    ((∀ e, e < 3 → nums'.getD e 0 = nums.getD e 0) → removeKnot S params nums' tol tol2 c = (T, true)) :=
  chain_removeKnot (volFacts d tol tol2 h2) params nums nums' L S T hT
    (RemChain.insChain (fun _ _ _ _ _ h => ⟨h.is_inserted, h.wfT, h.round⟩) L S T hch) hnd
    (RemChain.dirs (P := fun dir => dir < 3) (fun _ _ _ _ _ h => h.dir3) L S T hch) hpar hoth c c' hle

/-- **… the removal computed the way the code does it on volumes** (rows-branch direction step) -/
theorem volume_remove_removable_chain_rows (d : ℕ) (tol : K) (L : List (ℕ × K × ℕ)) (S T : Shape K) (hT : VolWF d T)
    (hch : VolRemChain d tol L S T) (hnd : (L.map Prod.fst).Nodup) (params : List (Option K)) (nums nums' : List ℕ)
    (hpar : ∀ q ∈ L, params.getD q.1 none = some q.2.1 ∧ nums.getD q.1 0 = q.2.2)
    (hoth : ∀ e, e < 3 → e ∉ L.map Prod.fst → params.getD e none = none ∨ nums.getD e 0 = 0)
    (tol2 : K) (h2 : 0 ≤ tol2) (c c' : Bool) (hle : ∀ e, e < 3 → nums'.getD e 0 ≤ nums.getD e 0) :
    (List.range 3).foldl (remStepWith removeKnotVolRows params nums' tol tol2 c) (S, true)
      = insertKnot T params (subNums nums nums') tol c' ∧
    ((∀ e, e < 3 → nums'.getD e 0 = nums.getD e 0) →
      (List.range 3).foldl (remStepWith removeKnotVolRows params nums' tol tol2 c) (S, true) = (T, true)) :=
  let h := chain_remFold (volFactsRows d tol tol2 h2) params nums nums' L S T hT
    (RemChain.insChain (fun _ _ _ _ _ h => ⟨h.is_inserted, h.wfT, h.round⟩) L S T hch) hnd
    (RemChain.dirs (P := fun dir => dir < 3) (fun _ _ _ _ _ h => h.dir3) L S T hch) hpar hoth c c' hle
  ⟨h.2.2.2.1, h.2.2.2.2⟩

/-- … the evaluated points after such a removal are those of the witness `T` (closed domain), surfaces -/
theorem surface_remove_removable_chain_points (d : ℕ) (tol : K) (L : List (ℕ × K × ℕ)) (S T : Shape K) (hT : SurfWF d T)
    (hch : SurfRemChain d tol L S T) (hnd : (L.map Prod.fst).Nodup) (params : List (Option K)) (nums nums' : List ℕ)
    (hpar : ∀ q ∈ L, params.getD q.1 none = some q.2.1 ∧ nums.getD q.1 0 = q.2.2)
    (hoth : ∀ e, e < 2 → e ∉ L.map Prod.fst → params.getD e none = none ∨ nums.getD e 0 = 0)
    (tol2 : K) (h2 : 0 ≤ tol2) (c : Bool) (hle : ∀ e, e < 2 → nums'.getD e 0 ≤ nums.getD e 0)
    (u v : K) (hu1 : fnOf (T.kv 0) (T.deg 0) ≤ u) (hu2 : u ≤ fnOf (T.kv 0) (T.size 0))
    (hv1 : fnOf (T.kv 1) (T.deg 1) ≤ v) (hv2 : v ≤ fnOf (T.kv 1) (T.size 1)) (j : ℕ) :
    (surfEval (removeKnot S params nums' tol tol2 c).1 u v).getD j 0 = (surfEval T u v).getD j 0 ∧
    (surfEval S u v).getD j 0 = (surfEval T u v).getD j 0 := by
  obtain ⟨hcall, hins, hrem, _⟩ := surface_remove_removable_chain d tol L S T hT hch hnd params nums nums' hpar hoth tol2 h2 c true hle
  rw [hrem]
  have a := (insertKnot_surface' d T hT params nums tol true hcall.callOk).1.eval u v hu1 hu2 hv1 hv2 j
  rw [hins] at a
  exact ⟨(insertKnot_surface' d T hT params _ tol true (hcall.sub nums').callOk).1.eval u v hu1 hu2 hv1 hv2 j, a⟩

/-- … volumes -/
theorem volume_remove_removable_chain_points (d : ℕ) (tol : K) (L : List (ℕ × K × ℕ)) (S T : Shape K) (hT : VolWF d T)
    (hch : VolRemChain d tol L S T) (hnd : (L.map Prod.fst).Nodup) (params : List (Option K)) (nums nums' : List ℕ)
    (hpar : ∀ q ∈ L, params.getD q.1 none = some q.2.1 ∧ nums.getD q.1 0 = q.2.2)
    (hoth : ∀ e, e < 3 → e ∉ L.map Prod.fst → params.getD e none = none ∨ nums.getD e 0 = 0)
    (tol2 : K) (h2 : 0 ≤ tol2) (c : Bool) (hle : ∀ e, e < 3 → nums'.getD e 0 ≤ nums.getD e 0)
    (u v w : K) (hu1 : fnOf (T.kv 0) (T.deg 0) ≤ u) (hu2 : u ≤ fnOf (T.kv 0) (T.size 0))
    (hv1 : fnOf (T.kv 1) (T.deg 1) ≤ v) (hv2 : v ≤ fnOf (T.kv 1) (T.size 1))
    (hw1 : fnOf (T.kv 2) (T.deg 2) ≤ w) (hw2 : w ≤ fnOf (T.kv 2) (T.size 2)) (j : ℕ) :
    (volEval (removeKnot S params nums' tol tol2 c).1 u v w).getD j 0 = (volEval T u v w).getD j 0 ∧
    (volEval S u v w).getD j 0 = (volEval T u v w).getD j 0 := by
  obtain ⟨hcall, hins, hrem, _⟩ := volume_remove_removable_chain d tol L S T hT hch hnd params nums nums' hpar hoth tol2 h2 c true hle
  rw [hrem]
  have a := (insertKnot_volume' d T hT params nums tol true hcall.callOk).1.eval u v w hu1 hu2 hv1 hv2 hw1 hw2 j
  rw [hins] at a
  exact ⟨(insertKnot_volume' d T hT params _ tol true (hcall.sub nums').callOk).1.eval u v w hu1 hu2 hv1 hv2 hw1 hw2 j, a⟩

end Multi
end Geomdl
