import NurbsVerif.Lemmas.SplitDecompStep

/-! `operations.decompose_curve` end to end through the model `decomposeDir`. -/
set_option linter.unusedSectionVars false
namespace Geomdl
open Blossom
variable {K : Type} [Field K] [LinearOrder K] [IsStrictOrderedRing K]

/-- `q = (knot vector, control points)` is a clamped segment with `p+1` control points (a Bézier
    segment) that coincides with `F` on `[a, b]` under the affine map of its own domain onto `[a, b]` -/
def BezPiece (p d : ℕ) (F : K → ℕ → K) (a b : K) (q : List K × List (List K)) : Prop :=
  ClampedWF p d q.1 q.2 ∧ q.2.length = p + 1 ∧
  ∀ t, 0 ≤ t → t ≤ 1 → ∀ j,
    (curvePoint p (fnOf q.1) q.2 (fnOf q.1 p + t * (fnOf q.1 (p + 1) - fnOf q.1 p))).getD j 0
      = F (a + t * (b - a)) j

theorem ClampedWF.fin {p d : ℕ} {U : List K} {P : List (List K)} (h : ClampedWF p d U P) (i : ℕ)
    (h1 : P.length ≤ i) : fnOf U i = fnOf U P.length := by
  apply le_antisymm _ (h.wf.mono h1)
  have hlen := h.wf.len
  by_cases h2 : i ≤ P.length + p
  · rw [← h.c1]; exact h.wf.mono h2
  · rw [← h.c1]
    unfold fnOf
    have e : U.getLastD 0 = U.getD (U.length - 1) (U.getLastD 0) := by
      rw [List.getLastD_eq_getLast?, List.getLast?_eq_getElem?, List.getD_eq_getElem?_getD]
      rw [List.getElem?_eq_getElem (by omega)]; simp
    have e1 : U.getD i (U.getLastD 0) = U.getLastD 0 := by
      rw [List.getD_eq_getElem?_getD, List.getElem?_eq_none (by omega)]; rfl
    have e2 : U.length - 1 = P.length + p := by omega
    rw [e1, ← e2, ← e]

/-- a normalised clamped Bézier segment has the knot vector `0^{p+1} 1^{p+1}` -/
theorem bezier_kv {p d : ℕ} {U : List K} {P : List (List K)} (h : ClampedWF p d U P) (hn : P.length = p + 1)
    (h0 : fnOf U p = 0) (h1 : fnOf U P.length = 1) : U = bezKv p := by
  apply kv_eq_bez p U (by have := h.wf.len; omega)
  · intro i hi
    rw [← h0]
    exact le_antisymm (h.wf.mono hi) (by rw [← h.c0]; exact h.wf.mono (by omega))
  · intro i hi
    rw [h.fin i (by omega), h1]

theorem breaks_getD_range (p n : ℕ) (U : ℕ → K) (hm : Monotone U) (hpn : p ≤ n) (z : K) (i : ℕ)
    (hi : i < (breaks p U n).length) :
    U p ≤ (breaks p U n).getD i z ∧ (breaks p U n).getD i z ≤ U n := by
  have hmem : (breaks p U n).getD i z ∈ breaks p U n := by
    rw [List.getD_eq_getElem _ _ hi]; exact List.getElem_mem _
  generalize (breaks p U n).getD i z = v at hmem ⊢
  simp only [breaks, List.mem_append, List.mem_map, List.mem_singleton] at hmem
  rcases hmem with ⟨x, hx, hxe⟩ | hxe
  · rw [mem_spanStarts] at hx
    rw [← hxe]; exact ⟨hm hx.1, hm (by omega)⟩
  · rw [hxe]; exact ⟨hm hpn, le_refl _⟩

theorem getD_map_lt {α β : Type} (g : α → β) (l : List α) (i : ℕ) (a : α) (b : β) (hi : i < l.length) :
    (l.map g).getD i b = g (l.getD i a) := by
  rw [List.getD_eq_getElem _ _ (by simpa using hi), List.getD_eq_getElem _ _ hi, List.getElem_map]

/-! ### unfolding `decomposeDir` on a curve -/

theorem decomposeDir_bezier (rat : Bool) (p : ℕ) (U : List K) (P : List (List K)) (tol : K) (fuel : ℕ)
    (hlen : U.length = P.length + p + 1) (hn : P.length = p + 1) :
    decomposeDir 0 tol fuel (curveShape rat p U P) = [curveShape rat p U P] := by
  cases fuel with
  | zero => rfl
  | succ fuel =>
    have : ((U.drop (p + 1)).take (U.length - 2 * (p + 1))) = [] := by
      have : U.length - 2 * (p + 1) = 0 := by omega
      rw [this]; rfl
    simp only [decomposeDir, curveShape, Shape.deg, Shape.kv, List.getD_cons_zero, this]

theorem decomposeDir_step (rat : Bool) (p : ℕ) (U : List K) (P : List (List K)) (tol : K) (fuel : ℕ)
    (hlen : U.length = P.length + p + 1) (hn : p + 1 < P.length) (A B : Shape K)
    (hs : splitDir (curveShape rat p U P) 0 (fnOf U (p + 1)) tol = some (A, B)) :
    decomposeDir 0 tol (fuel + 1) (curveShape rat p U P) = A :: decomposeDir 0 tol fuel B := by
  have : ∃ rest, ((U.drop (p + 1)).take (U.length - 2 * (p + 1))) = fnOf U (p + 1) :: rest := by
    have e1 : U.drop (p + 1) = U[p + 1]'(by omega) :: U.drop (p + 2) := List.drop_eq_getElem_cons (by omega)
    have e2 : U.length - 2 * (p + 1) = (U.length - 2 * (p + 1) - 1) + 1 := by omega
    rw [e1, e2, List.take_succ_cons, fnOf_getElem U (p + 1) (by omega)]
    exact ⟨_, rfl⟩
  obtain ⟨rest, hrest⟩ := this
  have hs' : splitDir { rat := rat, degs := [p], kvs := [U], sizes := [P.length], net := P } 0 (fnOf U (p + 1)) tol
      = some (A, B) := hs
  simp only [decomposeDir, curveShape, Shape.deg, Shape.kv, List.getD_cons_zero, hrest, hs']

/-- the curve as a function of the parameter, coordinate `j` -/
def curveFn (p : ℕ) (U : List K) (P : List (List K)) : K → ℕ → K :=
  fun u j => (curvePoint p (fnOf U) P u).getD j 0

/-- a piece of the remainder is a piece of the whole: the affine maps compose -/
theorem bezPiece_lift (p d : ℕ) (F FB : K → ℕ → K) (ub e : K)
    (hcB : ∀ τ, 0 ≤ τ → τ ≤ 1 → ∀ j, FB τ j = F (ub + τ * (e - ub)) j)
    (a b : K) (ha : 0 ≤ a ∧ a ≤ 1) (hb : 0 ≤ b ∧ b ≤ 1) (q : List K × List (List K))
    (hq : BezPiece p d FB a b q) : BezPiece p d F (ub + a * (e - ub)) (ub + b * (e - ub)) q := by
  obtain ⟨h1, h2, h3⟩ := hq
  refine ⟨h1, h2, ?_⟩
  intro t ht0 ht1 j
  rw [h3 t ht0 ht1 j]
  have e1 : a + t * (b - a) = (1 - t) * a + t * b := by ring
  have h0 : 0 ≤ a + t * (b - a) := by
    rw [e1]; exact add_nonneg (mul_nonneg (by linarith) ha.1) (mul_nonneg ht0 hb.1)
  have h1' : a + t * (b - a) ≤ 1 := by
    rw [e1]
    have := mul_le_mul_of_nonneg_left ha.2 (show 0 ≤ 1 - t by linarith)
    have := mul_le_mul_of_nonneg_left hb.2 ht0
    linarith
  rw [hcB _ h0 h1' j]
  congr 1
  ring

theorem breaks_head (p n : ℕ) (U : ℕ → K) (z : K) (hn : p < n) (h : U p < U (p + 1)) :
    (breaks p U n).getD 0 z = U p := by
  unfold breaks
  rw [spanStarts_split p (p + 1) n U (by omega) (by omega), spanStarts_bezier p U h]
  rfl

/-- the decomposition of a curve that already is a Bézier segment -/
theorem decompose_bezier_case (rat : Bool) (p d : ℕ) (tol : K) (fuel : ℕ) (U : List K) (P : List (List K))
    (h : DecompWF p d U P tol) (hn : P.length = p + 1) :
    ∃ pieces : List (List K × List (List K)),
      decomposeDir 0 tol fuel (curveShape rat p U P) = pieces.map (fun q => curveShape rat p q.1 q.2) ∧
      pieces.length = (spanStarts p (fnOf U) P.length).length ∧
      ((p + 1 < P.length ∨ (fnOf U p = 0 ∧ fnOf U P.length = 1)) → ∀ q ∈ pieces, q.1 = bezKv p) ∧
      ∀ i, i < pieces.length →
        BezPiece p d (curveFn p U P) ((breaks p (fnOf U) P.length).getD i 0)
          ((breaks p (fnOf U) P.length).getD (i + 1) 0) (pieces.getD i ([], [])) := by
  refine ⟨[(U, P)], ?_, ?_, ?_, ?_⟩
  · rw [decomposeDir_bezier rat p U P tol fuel h.cl.wf.len hn]; rfl
  · rw [hn, spanStarts_bezier p (fnOf U) h.first]; rfl
  · intro hc q hq
    rcases hc with hc | ⟨h0, h1⟩
    · omega
    · simp only [List.mem_singleton] at hq
      rw [hq]
      exact bezier_kv h.cl hn h0 h1
  · intro i hi
    simp only [List.length_singleton] at hi
    have hi0 : i = 0 := by omega
    subst hi0
    have hb : breaks p (fnOf U) P.length = [fnOf U p, fnOf U (p + 1)] := by
      unfold breaks
      rw [hn, spanStarts_bezier p (fnOf U) h.first]; rfl
    rw [hb]
    refine ⟨h.cl, hn, ?_⟩
    intro t _ _ j
    rfl

end Geomdl
