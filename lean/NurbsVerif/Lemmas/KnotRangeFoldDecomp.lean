import NurbsVerif.Lemmas.KnotRangeFold

/-!
  C17, knot range: splitting and Bézier decomposition of a shape whose knot vectors are ALL mapped affinely
  (`Shape.affineKvs`).  The pieces of a split are built with normalised knot vectors in every direction, so they do
  not see the knot range of any direction; `decomposeDir` splits at the first interior knot and goes on with the
  (identical) second piece, so the list of pieces is identical as soon as one split happens – when none happens
  (no interior knot, no fuel, split rejected) the object itself is returned un-normalised on both sides.
-/
set_option linter.unusedSectionVars false

namespace Geomdl
open Blossom
variable {K : Type} [Field K] [LinearOrder K] [IsStrictOrderedRing K]

/-- normalising every knot vector forgets a direction-wise affine map with non-zero factors -/
theorem map_normKv_mapIdx_affine (l : List (List K)) (a b : ℕ → K) (ha : ∀ d, a d ≠ 0) :
    List.map normKv (l.mapIdx (fun d U => U.map (fun y => a d * y + b d))) = List.map normKv l := by
  apply List.ext_getElem?
  intro i
  simp only [List.getElem?_map, List.getElem?_mapIdx, Option.map_map]
  cases l[i]? with
  | none => rfl
  | some U =>
    simp only [Option.map_some, Function.comp]
    unfold normKv
    rw [knotNormalize_affine U (a i) (b i) (ha i)]

/-- **splitting a shape mapped in all directions** (general form, `hmult`: the multiplicity search answers the same
    on both ranges of the split direction): rejected in the same cases, otherwise the very same two pieces -/
theorem splitDir_affineKvs_gen (S : Shape K) (a b : ℕ → K) (dir : ℕ) (u tol tol' : K) (ha : ∀ d, 0 < a d)
    (hp : S.deg dir < (S.kv dir).length) (hn : S.size dir < (S.kv dir).length)
    (hmult : findMultiplicity (a dir * u + b dir) ((S.kv dir).map (fun x => a dir * x + b dir)) tol'
      = findMultiplicity u (S.kv dir) tol) :
    splitDir (S.affineKvs a b) dir (a dir * u + b dir) tol' = splitDir S dir u tol := by
  have hne : S.kv dir ≠ [] := by
    intro h; rw [h] at hp; simp at hp
  have had := ha dir
  have ha' : ∀ d, a d ≠ 0 := fun d => ne_of_gt (ha d)
  unfold splitDir
  simp only []
  have hdeg : (S.affineKvs a b).deg dir = S.deg dir := rfl
  have hsize : (S.affineKvs a b).size dir = S.size dir := rfl
  rw [affineKvs_kv, hdeg, hsize, cfg_getD_map_affine _ (a dir) (b dir) _ hp, cfg_getD_map_affine _ (a dir) (b dir) _ hn,
    hmult, fnOf_map_affine (S.kv dir) (a dir) (b dir) hne,
    findSpanLinear_affine _ _ _ _ (a dir) (b dir) had]
  simp only [cfg_affine_inj (a dir) (b dir) _ _ had]
  split
  · rfl
  · generalize hX' : (ite (S.deg dir - findMultiplicity u (S.kv dir) tol = 0) (S.affineKvs a b) _) = X'
    generalize hX : (ite (S.deg dir - findMultiplicity u (S.kv dir) tol = 0) S _) = X
    have hXX : X' = X.affineKvs a b := by
      rw [← hX', ← hX]
      split
      · rfl
      · rw [insertKnotDir_affineKvs_gen S a b dir u _ tol tol' false had hne hmult]
        cases insertKnotDir S dir u (S.deg dir - findMultiplicity u (S.kv dir) tol) tol false <;> rfl
    have hXne : X.kv dir ≠ [] := by
      rw [← hX]
      split
      · exact hne
      · cases hins : insertKnotDir S dir u (S.deg dir - findMultiplicity u (S.kv dir) tol) tol false with
        | none => exact hne
        | some T => exact cfg_insertKnotDir_kv_ne S T dir u _ tol false hins hne
    clear hX hX'
    subst hXX
    have hkvs : ∀ Y : List K, List.map normKv ((X.affineKvs a b).kvs.set dir (Y.map (fun y => a dir * y + b dir)))
        = List.map normKv (X.kvs.set dir Y) := by
      intro Y
      show List.map normKv ((X.kvs.mapIdx (fun d U => U.map (fun y => a d * y + b d))).set dir
        (Y.map (fun y => a dir * y + b dir))) = _
      rw [← List.mapIdx_set (f := fun d U => List.map (fun y => a d * y + b d) U), map_normKv_mapIdx_affine _ a b ha']
    have hsz : (X.affineKvs a b).size dir = X.size dir := rfl
    have hszs : (X.affineKvs a b).sizes = X.sizes := rfl
    have hrat : (X.affineKvs a b).rat = X.rat := rfl
    have hdegs : (X.affineKvs a b).degs = X.degs := rfl
    have hmap : ∀ g, (X.affineKvs a b).mapDir dir g = X.mapDir dir g := fun _ => rfl
    rw [affineKvs_kv, hsz, hszs, hrat, hdegs, fnOf_map_affine _ (a dir) (b dir) hXne,
      findSpanLinear_affine _ _ _ _ (a dir) (b dir) had]
    simp only [hmap]
    have e1 : ∀ n, List.take n ((X.kv dir).map (fun y => a dir * y + b dir)) ++ [a dir * u + b dir]
        = (List.take n (X.kv dir) ++ [u]).map (fun y => a dir * y + b dir) := by
      intro n; simp [List.map_take]
    have e2 : ∀ n m, List.replicate m (a dir * u + b dir) ++ List.drop n ((X.kv dir).map (fun y => a dir * y + b dir))
        = (List.replicate m u ++ List.drop n (X.kv dir)).map (fun y => a dir * y + b dir) := by
      intro n m; simp [List.map_drop]
    rw [e1, e2, hkvs, hkvs]

/-- tolerance scaled with the range of the split direction -/
theorem splitDir_affineKvs (S : Shape K) (a b : ℕ → K) (dir : ℕ) (u tol : K) (ha : ∀ d, 0 < a d)
    (hp : S.deg dir < (S.kv dir).length) (hn : S.size dir < (S.kv dir).length) :
    splitDir (S.affineKvs a b) dir (a dir * u + b dir) (a dir * tol) = splitDir S dir u tol :=
  splitDir_affineKvs_gen S a b dir u tol (a dir * tol) ha hp hn
    (findMultiplicity_affine u (S.kv dir) tol (a dir) (b dir) (ha dir))

/-- the same tolerance on both ranges, knots separated from the split parameter -/
theorem splitDir_affineKvs_fixed_tol (S : Shape K) (a b : ℕ → K) (dir : ℕ) (u tol : K) (ha : ∀ d, 0 < a d)
    (htol : 0 ≤ tol) (hp : S.deg dir < (S.kv dir).length) (hn : S.size dir < (S.kv dir).length)
    (hsep : ∀ y ∈ S.kv dir, u = y ∨ (tol < |u - y| ∧ tol < a dir * |u - y|)) :
    splitDir (S.affineKvs a b) dir (a dir * u + b dir) tol = splitDir S dir u tol :=
  splitDir_affineKvs_gen S a b dir u tol tol ha hp hn
    (findMultiplicity_affine_sep u (S.kv dir) tol (a dir) (b dir) (ha dir) htol hsep)

/-! ### `decompose_curve` / one direction of `decompose_surface` -/

/-- the interior knots `U[p+1 : -(p+1)]` that `decomposeDir` looks at -/
def decompInterior (S : Shape K) (dir : ℕ) : List K :=
  ((S.kv dir).drop (S.deg dir + 1)).take ((S.kv dir).length - 2 * (S.deg dir + 1))

theorem decompInterior_affineKvs (S : Shape K) (a b : ℕ → K) (dir : ℕ) :
    decompInterior (S.affineKvs a b) dir = (decompInterior S dir).map (fun y => a dir * y + b dir) := by
  unfold decompInterior
  have hdeg : (S.affineKvs a b).deg dir = S.deg dir := rfl
  rw [affineKvs_kv, hdeg, List.length_map, List.map_take, List.map_drop]

theorem decomposeDir_succ (dir : ℕ) (tol : K) (fuel : ℕ) (S : Shape K) :
    decomposeDir dir tol (fuel + 1) S =
      match decompInterior S dir with
      | [] => [S]
      | knot :: _ =>
        match splitDir S dir knot tol with
        | some (A, B) => A :: decomposeDir dir tol fuel B
        | none => [S] := rfl

/-- **decomposition, general form** (`hmult`: at the first interior knot the multiplicity search answers the same on
    both ranges, with the SAME tolerance – after the first split both sides go on with the identical, normalised
    second piece and the same tolerance): either the list of pieces is identical, or no split happens on either
    side and each returns its object unchanged -/
theorem decomposeDir_affineKvs_gen (a b : ℕ → K) (ha : ∀ d, 0 < a d) (dir : ℕ) (tol : K) (fuel : ℕ) (S : Shape K)
    (hp : S.deg dir < (S.kv dir).length) (hn : S.size dir < (S.kv dir).length)
    (hmult : ∀ knot, (decompInterior S dir).head? = some knot →
      findMultiplicity (a dir * knot + b dir) ((S.kv dir).map (fun x => a dir * x + b dir)) tol
        = findMultiplicity knot (S.kv dir) tol) :
    decomposeDir dir tol fuel (S.affineKvs a b) = decomposeDir dir tol fuel S
      ∨ (decomposeDir dir tol fuel (S.affineKvs a b) = [S.affineKvs a b] ∧ decomposeDir dir tol fuel S = [S]) := by
  cases fuel with
  | zero => exact Or.inr ⟨rfl, rfl⟩
  | succ fuel =>
    rw [decomposeDir_succ, decomposeDir_succ, decompInterior_affineKvs]
    cases hI : decompInterior S dir with
    | nil => exact Or.inr ⟨rfl, rfl⟩
    | cons knot rest =>
      simp only [List.map_cons]
      rw [splitDir_affineKvs_gen S a b dir knot tol tol ha hp hn (hmult knot (by rw [hI]; rfl))]
      cases splitDir S dir knot tol with
      | none => exact Or.inr ⟨rfl, rfl⟩
      | some AB => exact Or.inl rfl

/-- … when a split does happen (fuel, an interior knot, split accepted) the pieces are identical -/
theorem decomposeDir_affineKvs_of_split (a b : ℕ → K) (ha : ∀ d, 0 < a d) (dir : ℕ) (tol : K) (fuel : ℕ) (S : Shape K)
    (hp : S.deg dir < (S.kv dir).length) (hn : S.size dir < (S.kv dir).length)
    (knot : K) (rest : List K) (hI : decompInterior S dir = knot :: rest)
    (hsplit : (splitDir S dir knot tol).isSome = true)
    (hmult : findMultiplicity (a dir * knot + b dir) ((S.kv dir).map (fun x => a dir * x + b dir)) tol
        = findMultiplicity knot (S.kv dir) tol) :
    decomposeDir dir tol (fuel + 1) (S.affineKvs a b) = decomposeDir dir tol (fuel + 1) S := by
  rw [decomposeDir_succ, decomposeDir_succ, decompInterior_affineKvs, hI]
  simp only [List.map_cons]
  rw [splitDir_affineKvs_gen S a b dir knot tol tol ha hp hn hmult]
  cases h : splitDir S dir knot tol with
  | none => rw [h] at hsplit; cases hsplit
  | some AB => rfl

/-- same tolerance, first interior knot separated from the other knots (or equal to them) in both ranges -/
theorem decomposeDir_affineKvs_fixed_tol (a b : ℕ → K) (ha : ∀ d, 0 < a d) (dir : ℕ) (tol : K) (htol : 0 ≤ tol)
    (fuel : ℕ) (S : Shape K)
    (hp : S.deg dir < (S.kv dir).length) (hn : S.size dir < (S.kv dir).length)
    (hsep : ∀ knot, (decompInterior S dir).head? = some knot →
      ∀ y ∈ S.kv dir, knot = y ∨ (tol < |knot - y| ∧ tol < a dir * |knot - y|)) :
    decomposeDir dir tol fuel (S.affineKvs a b) = decomposeDir dir tol fuel S
      ∨ (decomposeDir dir tol fuel (S.affineKvs a b) = [S.affineKvs a b] ∧ decomposeDir dir tol fuel S = [S]) :=
  decomposeDir_affineKvs_gen a b ha dir tol fuel S hp hn (fun knot hk =>
    findMultiplicity_affine_sep knot (S.kv dir) tol (a dir) (b dir) (ha dir) htol (hsep knot hk))

/-! ### `decompose_surface(…, decompose_dir='uv')` -/

/-- **`decomposeUV`** on a shape mapped in all directions, same tolerance: identical patches, or no split at all on
    either side -/
theorem decomposeUV_affineKvs_gen (a b : ℕ → K) (ha : ∀ d, 0 < a d) (tol : K) (S : Shape K)
    (hp0 : S.deg 0 < (S.kv 0).length) (hn0 : S.size 0 < (S.kv 0).length)
    (hp1 : S.deg 1 < (S.kv 1).length) (hn1 : S.size 1 < (S.kv 1).length)
    (hmult0 : ∀ knot, (decompInterior S 0).head? = some knot →
      findMultiplicity (a 0 * knot + b 0) ((S.kv 0).map (fun x => a 0 * x + b 0)) tol
        = findMultiplicity knot (S.kv 0) tol)
    (hmult1 : ∀ knot, (decompInterior S 1).head? = some knot →
      findMultiplicity (a 1 * knot + b 1) ((S.kv 1).map (fun x => a 1 * x + b 1)) tol
        = findMultiplicity knot (S.kv 1) tol) :
    decomposeUV tol (S.affineKvs a b) = decomposeUV tol S
      ∨ (decomposeUV tol (S.affineKvs a b) = [S.affineKvs a b] ∧ decomposeUV tol S = [S]) := by
  unfold decomposeUV
  have hl0 : ((S.affineKvs a b).kv 0).length = (S.kv 0).length := by rw [affineKvs_kv, List.length_map]
  have hl1 : ((S.affineKvs a b).kv 1).length = (S.kv 1).length := by rw [affineKvs_kv, List.length_map]
  rw [hl0]
  rcases decomposeDir_affineKvs_gen a b ha 0 tol (S.kv 0).length S hp0 hn0 hmult0 with h | ⟨h1, h2⟩
  · left; rw [h]
  · rw [h1, h2]
    simp only [List.flatMap_cons, List.flatMap_nil, List.append_nil]
    rw [hl1]
    exact decomposeDir_affineKvs_gen a b ha 1 tol (S.kv 1).length S hp1 hn1 hmult1

theorem decomposeUV_affineKvs_fixed_tol (a b : ℕ → K) (ha : ∀ d, 0 < a d) (tol : K) (htol : 0 ≤ tol) (S : Shape K)
    (hp0 : S.deg 0 < (S.kv 0).length) (hn0 : S.size 0 < (S.kv 0).length)
    (hp1 : S.deg 1 < (S.kv 1).length) (hn1 : S.size 1 < (S.kv 1).length)
    (hsep0 : ∀ knot, (decompInterior S 0).head? = some knot →
      ∀ y ∈ S.kv 0, knot = y ∨ (tol < |knot - y| ∧ tol < a 0 * |knot - y|))
    (hsep1 : ∀ knot, (decompInterior S 1).head? = some knot →
      ∀ y ∈ S.kv 1, knot = y ∨ (tol < |knot - y| ∧ tol < a 1 * |knot - y|)) :
    decomposeUV tol (S.affineKvs a b) = decomposeUV tol S
      ∨ (decomposeUV tol (S.affineKvs a b) = [S.affineKvs a b] ∧ decomposeUV tol S = [S]) :=
  decomposeUV_affineKvs_gen a b ha tol S hp0 hn0 hp1 hn1
    (fun knot hk => findMultiplicity_affine_sep knot (S.kv 0) tol (a 0) (b 0) (ha 0) htol (hsep0 knot hk))
    (fun knot hk => findMultiplicity_affine_sep knot (S.kv 1) tol (a 1) (b 1) (ha 1) htol (hsep1 knot hk))

/-- … and when the u direction does split, the v range plays no role at all -/
theorem decomposeUV_affineKvs_of_split (a b : ℕ → K) (ha : ∀ d, 0 < a d) (tol : K) (S : Shape K)
    (hp0 : S.deg 0 < (S.kv 0).length) (hn0 : S.size 0 < (S.kv 0).length)
    (knot : K) (rest : List K) (hI : decompInterior S 0 = knot :: rest)
    (hsplit : (splitDir S 0 knot tol).isSome = true)
    (hmult : findMultiplicity (a 0 * knot + b 0) ((S.kv 0).map (fun x => a 0 * x + b 0)) tol
        = findMultiplicity knot (S.kv 0) tol) :
    decomposeUV tol (S.affineKvs a b) = decomposeUV tol S := by
  unfold decomposeUV
  have hl0 : ((S.affineKvs a b).kv 0).length = (S.kv 0).length := by rw [affineKvs_kv, List.length_map]
  rw [hl0]
  have hpos : (S.kv 0).length = ((S.kv 0).length - 1) + 1 := by omega
  rw [hpos, decomposeDir_affineKvs_of_split a b ha 0 tol _ S hp0 hn0 knot rest hI hsplit hmult]

end Geomdl
