import NurbsVerif.Lemmas.FitKnots2
import NurbsVerif.Lemmas.KnotVec2

/-! The knot vectors built by `fitting.compute_knot_vector` (averaging, Eq. 9.8) and `fitting.compute_knot_vector2`
    (Eqs. 9.68–9.69) are valid clamped knot vectors: `n + p + 1` knots, `p + 1` zeros, `p + 1` ones, non-decreasing,
    and – for parameters that run strictly increasing from 0 to 1 – every interior knot lies strictly inside `(0, 1)`
    and the interior knots are pairwise different; `knotvector.check` accepts them. -/
namespace Geomdl
open Finset
variable {K : Type} [Field K] [LinearOrder K] [IsStrictOrderedRing K]

/-- `kv` is a valid clamped knot vector of degree `p` for `n` control points on `[0, 1]` whose interior knots are
    simple: `n + p + 1` knots; the first `p + 1` are `0`; the last `p + 1` are `1` (`fnOf` continues a list with its
    last entry); non-decreasing; every interior knot strictly between `0` and `1`; consecutive knots from index `p`
    to index `n` strictly increasing. -/
structure ClampedKnots (p n : ℕ) (kv : List K) : Prop where
  length : kv.length = n + p + 1
  zeros : ∀ i, i ≤ p → fnOf kv i = 0
  ones : ∀ i, n ≤ i → fnOf kv i = 1
  mono : Monotone (fnOf kv)
  interior : ∀ i, p < i → i < n → 0 < fnOf kv i ∧ fnOf kv i < 1
  strict : ∀ i, p ≤ i → i < n → fnOf kv i < fnOf kv (i + 1)

theorem fnOf_of_lt (l : List K) (i : ℕ) (hi : i < l.length) : fnOf l i = l.getD i 0 := by
  unfold fnOf
  rw [List.getD_eq_getElem?_getD, List.getD_eq_getElem?_getD, List.getElem?_eq_getElem hi]
  rfl

/-- a list whose knot function is non-decreasing and that has the right length passes `knotvector.check` -/
theorem knotCheck_of_monotone (p n : ℕ) (kv : List K) (hl : kv.length = n + p + 1) (hm : Monotone (fnOf kv)) :
    knotCheck p kv n = true := by
  rw [knotCheck_iff]
  refine ⟨by omega, fun i hi => ?_⟩
  rw [← fnOf_of_lt kv i (by omega), ← fnOf_of_lt kv (i + 1) hi]
  exact hm (Nat.le_succ i)

theorem ClampedKnots.check {p n : ℕ} {kv : List K} (h : ClampedKnots p n kv) : knotCheck p kv n = true :=
  knotCheck_of_monotone p n kv h.length h.mono

/-- the first and the last span are not empty -/
theorem ClampedKnots.ends {p n : ℕ} {kv : List K} (h : ClampedKnots p n kv) (hpn : p + 1 ≤ n) :
    0 < fnOf kv (p + 1) ∧ fnOf kv (n - 1) < 1 := by
  constructor
  · have := h.strict p le_rfl (by omega)
    rwa [h.zeros p le_rfl] at this
  · have := h.strict (n - 1) (by omega) (by omega)
    rwa [show n - 1 + 1 = n by omega, h.ones n le_rfl] at this

/-! ### the averaged knot vector (Eq. 9.8) -/

section averaged
variable (p n : ℕ) (uk : List K) (invp : K)

/-- parameters that run strictly increasing from 0: non-negative everywhere (the list is continued by 0) -/
theorem params_nonneg_of_strict (hn : uk.length = n) (hfirst : uk.getD 0 0 = 0)
    (hstrict : ∀ i j, i < j → j < n → uk.getD i 0 < uk.getD j 0) (i : ℕ) : 0 ≤ uk.getD i 0 := by
  by_cases hi : i < n
  · rcases Nat.eq_zero_or_pos i with e | e
    · rw [e, hfirst]
    · have := hstrict 0 i e hi
      rw [hfirst] at this
      exact le_of_lt this
  · rw [List.getD_eq_default _ _ (by omega)]

/-- **non-decreasing when `invp · p ≤ 1`** (the double `1.0/p` rounded down, or exact), for non-decreasing parameters
    in `[0, 1]` -/
theorem computeKnotVector_mono_le (hpn : p + 1 ≤ n) (hinv : 0 ≤ invp) (hinv1 : invp * (p : K) ≤ 1)
    (h0 : ∀ i, 0 ≤ uk.getD i 0) (h1 : ∀ i, uk.getD i 0 ≤ 1)
    (hmono : ∀ i j, i ≤ j → j < n → uk.getD i 0 ≤ uk.getD j 0) :
    Monotone (fnOf (computeKnotVector p n uk invp)) := by
  apply computeKnotVector_mono p n uk invp hpn hinv h0 hmono
  calc invp * (p : K) * uk.getD (n - 2) 0 ≤ 1 * uk.getD (n - 2) 0 := mul_le_mul_of_nonneg_right hinv1 (h0 _)
    _ = uk.getD (n - 2) 0 := one_mul _
    _ ≤ 1 := h1 _

/-- **non-decreasing when `invp · p ≤ 1 + e`** and the last parameter gap `1 − ū_{n−2}` is at least `e ≥ 0` (the double
    nearest to `1/p` satisfies `|invp · p − 1| ≤ 2⁻⁵³`) -/
theorem computeKnotVector_mono_near (e : K) (hpn : p + 1 ≤ n) (hinv : 0 ≤ invp) (he : 0 ≤ e)
    (hinv1 : invp * (p : K) ≤ 1 + e) (hgap : e ≤ 1 - uk.getD (n - 2) 0)
    (h0 : ∀ i, 0 ≤ uk.getD i 0)
    (hmono : ∀ i j, i ≤ j → j < n → uk.getD i 0 ≤ uk.getD j 0) :
    Monotone (fnOf (computeKnotVector p n uk invp)) := by
  apply computeKnotVector_mono p n uk invp hpn hinv h0 hmono
  have hu0 := h0 (n - 2)
  have hu1 : uk.getD (n - 2) 0 ≤ 1 := by linarith
  calc invp * (p : K) * uk.getD (n - 2) 0 ≤ (1 + e) * uk.getD (n - 2) 0 := mul_le_mul_of_nonneg_right hinv1 hu0
    _ = uk.getD (n - 2) 0 + e * uk.getD (n - 2) 0 := by ring
    _ ≤ uk.getD (n - 2) 0 + e * 1 := by
        have := mul_le_mul_of_nonneg_left hu1 he
        linarith
    _ ≤ 1 := by linarith

/-- an interior knot of the averaged vector lies between `invp · p` times the first and the last parameter it
    averages -/
theorem avg_bounds (hp : 1 ≤ p) (hinv : 0 < invp)
    (hstrict : ∀ i j, i < j → j < n → uk.getD i 0 < uk.getD j 0) (a : ℕ) (ha : a + p ≤ n) :
    invp * (p : K) * uk.getD a 0 ≤ invp * ∑ r ∈ range p, uk.getD (a + r) 0 ∧
    invp * ∑ r ∈ range p, uk.getD (a + r) 0 ≤ invp * (p : K) * uk.getD (a + p - 1) 0 := by
  have hm : ∀ i j, i ≤ j → j < n → uk.getD i 0 ≤ uk.getD j 0 := by
    intro i j hij hj
    rcases Nat.eq_or_lt_of_le hij with e | e
    · rw [e]
    · exact le_of_lt (hstrict i j e hj)
  constructor
  · rw [mul_assoc]
    apply mul_le_mul_of_nonneg_left _ (le_of_lt hinv)
    have : ∑ _r ∈ range p, uk.getD a 0 ≤ ∑ r ∈ range p, uk.getD (a + r) 0 :=
      sum_le_sum (fun r hr => hm _ _ (by omega) (by have := mem_range.mp hr; omega))
    simpa using this
  · rw [mul_assoc]
    apply mul_le_mul_of_nonneg_left _ (le_of_lt hinv)
    have : ∑ r ∈ range p, uk.getD (a + r) 0 ≤ ∑ _r ∈ range p, uk.getD (a + p - 1) 0 :=
      sum_le_sum (fun r hr => hm _ _ (by have := mem_range.mp hr; omega) (by omega))
    simpa using this

/-- **the averaged knot vector is a valid clamped knot vector with simple interior knots** for parameters that run
    strictly increasing from 0 to 1, `0 < invp` and `invp · p · ū_{n−2} < 1` (the last average stays below one) -/
theorem computeKnotVector_clampedKnots_of_last (hp : 1 ≤ p) (hpn : p + 1 ≤ n) (hinv : 0 < invp)
    (hend : invp * (p : K) * uk.getD (n - 2) 0 < 1)
    (hlen : uk.length = n) (hfirst : uk.getD 0 0 = 0)
    (hstrict : ∀ i j, i < j → j < n → uk.getD i 0 < uk.getD j 0) :
    ClampedKnots p n (computeKnotVector p n uk invp) := by
  have hm : ∀ i j, i ≤ j → j < n → uk.getD i 0 ≤ uk.getD j 0 := by
    intro i j hij hj
    rcases Nat.eq_or_lt_of_le hij with e | e
    · rw [e]
    · exact le_of_lt (hstrict i j e hj)
  have h0 := params_nonneg_of_strict n uk hlen hfirst hstrict
  have hmono := computeKnotVector_mono p n uk invp hpn (le_of_lt hinv) h0 hm (le_of_lt hend)
  obtain ⟨hz, ho⟩ := computeKnotVector_clamped p n uk invp hpn
  have hip : (0 : K) ≤ invp * (p : K) := mul_nonneg (le_of_lt hinv) (Nat.cast_nonneg _)
  have hpp : (0 : K) < invp * (p : K) := mul_pos hinv (by exact_mod_cast hp)
  -- value and bounds of an interior knot
  have hint : ∀ i, p < i → i < n → 0 < fnOf (computeKnotVector p n uk invp) i ∧
      fnOf (computeKnotVector p n uk invp) i < 1 := by
    intro i h1i h2i
    rw [computeKnotVector_fn p n uk invp hpn, if_neg (by omega), if_pos h2i]
    obtain ⟨b1, b2⟩ := avg_bounds p n uk invp hp hinv hstrict (i - p) (by omega)
    constructor
    · have hpos : 0 < uk.getD (i - p) 0 := by
        have := hstrict 0 (i - p) (by omega) (by omega)
        rwa [hfirst] at this
      exact lt_of_lt_of_le (mul_pos hpp hpos) b1
    · have hle : uk.getD (i - p + p - 1) 0 ≤ uk.getD (n - 2) 0 := hm _ _ (by omega) (by omega)
      have : invp * (p : K) * uk.getD (i - p + p - 1) 0 ≤ invp * (p : K) * uk.getD (n - 2) 0 :=
        mul_le_mul_of_nonneg_left hle hip
      linarith
  refine ⟨computeKnotVector_length p n uk invp hpn, hz, ho, hmono, hint, ?_⟩
  intro i h1i h2i
  rcases Nat.eq_or_lt_of_le h1i with e | e
  · subst e
    rw [hz p le_rfl]
    by_cases c : p + 1 < n
    · exact (hint (p + 1) (by omega) c).1
    · rw [ho (p + 1) (by omega)]; exact zero_lt_one
  · by_cases c : i + 1 < n
    · rw [computeKnotVector_fn p n uk invp hpn, computeKnotVector_fn p n uk invp hpn, if_neg (by omega), if_pos h2i,
        if_neg (by omega), if_pos c]
      apply mul_lt_mul_of_pos_left _ hinv
      apply sum_lt_sum_of_nonempty (by simpa using (by omega : p ≠ 0))
      intro r hr
      have := mem_range.mp hr
      exact hstrict _ _ (by omega) (by omega)
    · rw [ho (i + 1) (by omega)]
      exact (hint i e h2i).2

/-- … in particular when `invp · p ≤ 1` (the double `1.0/p` rounded down, or `1/p` exactly) -/
theorem computeKnotVector_clampedKnots (hp : 1 ≤ p) (hpn : p + 1 ≤ n) (hinv : 0 < invp) (hinv1 : invp * (p : K) ≤ 1)
    (hlen : uk.length = n) (hfirst : uk.getD 0 0 = 0) (hlast : uk.getD (n - 1) 0 = 1)
    (hstrict : ∀ i j, i < j → j < n → uk.getD i 0 < uk.getD j 0) :
    ClampedKnots p n (computeKnotVector p n uk invp) := by
  apply computeKnotVector_clampedKnots_of_last p n uk invp hp hpn hinv _ hlen hfirst hstrict
  have h0 := params_nonneg_of_strict n uk hlen hfirst hstrict (n - 2)
  have hlt : uk.getD (n - 2) 0 < 1 := by
    have := hstrict (n - 2) (n - 1) (by omega) (by omega)
    rwa [hlast] at this
  have : invp * (p : K) * uk.getD (n - 2) 0 ≤ 1 * uk.getD (n - 2) 0 := mul_le_mul_of_nonneg_right hinv1 h0
  linarith

/-- … and when `invp · p ≤ 1 + e` with `0 ≤ e ≤ 1 − ū_{n−2}` (the double `1.0/p` rounded up: `e = 2⁻⁵³` will do) -/
theorem computeKnotVector_clampedKnots_near (e : K) (hp : 1 ≤ p) (hpn : p + 1 ≤ n) (hinv : 0 < invp) (he : 0 ≤ e)
    (hinv1 : invp * (p : K) ≤ 1 + e) (hgap : e ≤ 1 - uk.getD (n - 2) 0)
    (hlen : uk.length = n) (hfirst : uk.getD 0 0 = 0) (hlast : uk.getD (n - 1) 0 = 1)
    (hstrict : ∀ i j, i < j → j < n → uk.getD i 0 < uk.getD j 0) :
    ClampedKnots p n (computeKnotVector p n uk invp) := by
  apply computeKnotVector_clampedKnots_of_last p n uk invp hp hpn hinv _ hlen hfirst hstrict
  have h0 := params_nonneg_of_strict n uk hlen hfirst hstrict (n - 2)
  have hlt : uk.getD (n - 2) 0 < 1 := by
    have := hstrict (n - 2) (n - 1) (by omega) (by omega)
    rwa [hlast] at this
  have h1 : invp * (p : K) * uk.getD (n - 2) 0 ≤ (1 + e) * uk.getD (n - 2) 0 := mul_le_mul_of_nonneg_right hinv1 h0
  rcases eq_or_lt_of_le he with e0 | epos
  · rw [← e0] at h1; linarith
  · have : e * uk.getD (n - 2) 0 < e * 1 := mul_lt_mul_of_pos_left hlt epos
    have : (1 + e) * uk.getD (n - 2) 0 = uk.getD (n - 2) 0 + e * uk.getD (n - 2) 0 := by ring
    linarith

end averaged

/-! ### the knot vector of the approximation (Eqs. 9.68–9.69) -/

section kv2
variable {fl : K → ℕ} (hfl : IsFloor fl) (uk : List K) (nd : ℕ)
  (hstrict : ∀ i j, i < j → j < nd → uk.getD i 0 < uk.getD j 0)
include hfl hstrict

/-- the piecewise linear interpolant of strictly increasing parameters is strictly increasing on `[1, nd)` -/
theorem kv2g_strictMono {t t' : K} (h1 : 1 ≤ t) (h : t < t') (hlt : fl t' < nd) : kv2g uk fl t < kv2g uk fl t' := by
  have hmono : ∀ i j, i ≤ j → j < nd → uk.getD i 0 ≤ uk.getD j 0 := by
    intro i j hij hj
    rcases Nat.eq_or_lt_of_le hij with e | e
    · rw [e]
    · exact le_of_lt (hstrict i j e hj)
  have h0 : (0 : K) ≤ t := le_trans zero_le_one h1
  have hle := fl_mono hfl h0 (le_of_lt h)
  have hpos := fl_pos hfl h1
  obtain ⟨a1, a2⟩ := hfl t h0
  have hs := hstrict (fl t - 1) (fl t) (by omega) (by omega)
  rcases Nat.eq_or_lt_of_le hle with heq | hlt'
  · have : kv2g uk fl t' - kv2g uk fl t = (t' - t) * (uk.getD (fl t) 0 - uk.getD (fl t - 1) 0) := by
      unfold kv2g; rw [← heq]; ring
    have h2 : 0 < (t' - t) * (uk.getD (fl t) 0 - uk.getD (fl t - 1) 0) := mul_pos (by linarith) (by linarith)
    linarith
  · have e : uk.getD (fl t) 0 - kv2g uk fl t = (1 - (t - (fl t : K))) * (uk.getD (fl t) 0 - uk.getD (fl t - 1) 0) := by
      unfold kv2g; ring
    have h2 : 0 < (1 - (t - (fl t : K))) * (uk.getD (fl t) 0 - uk.getD (fl t - 1) 0) :=
      mul_pos (by linarith) (by linarith)
    calc kv2g uk fl t < uk.getD (fl t) 0 := by linarith
      _ ≤ uk.getD (fl t' - 1) 0 := hmono _ _ (by omega) (by omega)
      _ ≤ kv2g uk fl t' := kv2g_lower hfl uk nd hmono (le_trans h0 (le_of_lt h)) hlt

/-- **`compute_knot_vector2` builds a valid clamped knot vector with simple interior knots** for parameters that run
    strictly increasing from 0 to 1 (`fl` = `int(·)`; at most as many control points as data points) -/
theorem computeKnotVector2_clampedKnots (p nc : ℕ) (hp : 1 ≤ p) (hpn : p + 1 ≤ nc) (hnd : nc ≤ nd)
    (hlen : uk.length = nd) (hfirst : uk.getD 0 0 = 0) (hlast : uk.getD (nd - 1) 0 = 1) :
    ClampedKnots p nc (computeKnotVector2 p nd nc uk fl) := by
  have hm : ∀ i j, i ≤ j → j < nd → uk.getD i 0 ≤ uk.getD j 0 := by
    intro i j hij hj
    rcases Nat.eq_or_lt_of_le hij with e | e
    · rw [e]
    · exact le_of_lt (hstrict i j e hj)
  have h0 := params_nonneg_of_strict nd uk hlen hfirst hstrict
  have h1 : ∀ i, uk.getD i 0 ≤ 1 := by
    intro i
    by_cases hi : i < nd
    · have := hm i (nd - 1) (by omega) (by omega); rwa [hlast] at this
    · rw [List.getD_eq_default _ _ (by omega)]; exact zero_le_one
  have hmono := computeKnotVector2_mono p nd nc uk fl hfl hpn (by omega) h0 h1 hm
  obtain ⟨e1, e2⟩ := computeKnotVector2_ends p nd nc uk fl hfl hp hpn hnd hfirst hlast hstrict
  obtain ⟨hz, ho⟩ := computeKnotVector2_clamped p nd nc uk fl hpn
  refine ⟨computeKnotVector2_length p nd nc uk fl hpn, hz, ho, hmono, fun i h1 h2 => ⟨?_, ?_⟩, ?_⟩
  · exact lt_of_lt_of_le e1 (hmono (by omega))
  · exact lt_of_le_of_lt (hmono (by omega)) e2
  · intro i h1 h2
    rcases Nat.eq_or_lt_of_le h1 with e | e
    · subst e
      rw [hz p le_rfl]; exact e1
    · by_cases c : i + 1 < nc
      · rw [computeKnotVector2_fn p nd nc uk fl hpn, computeKnotVector2_fn p nd nc uk fl hpn, if_neg (by omega),
          if_pos h2, if_neg (by omega), if_pos c]
        obtain ⟨s1, _⟩ := kv2_pos_range (K := K) p nd nc (i - p) hpn (by omega) (by omega) (by omega)
        obtain ⟨r1, r2⟩ := kv2_pos_range (K := K) p nd nc (i + 1 - p) hpn (by omega) (by omega) (by omega)
        apply kv2g_strictMono hfl uk nd hstrict s1 _ (fl_lt hfl (le_trans zero_le_one r1) nd r2)
        have hD : (0 : K) < (nd : K) / ((nc - p : ℕ) : K) :=
          div_pos (Nat.cast_pos.mpr (by omega)) (Nat.cast_pos.mpr (by omega))
        apply mul_lt_mul_of_pos_right _ hD
        exact_mod_cast (by omega : i - p < i + 1 - p)
      · have hi : i = nc - 1 := by omega
        rw [ho (i + 1) (by omega), hi]; exact e2

end kv2

end Geomdl
