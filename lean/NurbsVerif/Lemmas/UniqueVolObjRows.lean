import NurbsVerif.Lemmas.UniqueVolObj
import NurbsVerif.Lemmas.KnotRowsRemIns

/-! # "Removable at all" for volume OBJECTS, as the code computes the removal (list-of-rows branch)

`removeKnotVolRows` (one direction of `operations.remove_knot` on a volume through the rows branch of
`helpers.knot_removal`: ONE removability flag per step, from the first iso-curve) agrees with the per-iso-curve
model `removeKnotDir` on every volume from which the knot is removable (`VolRemovableObj`): such a volume is an
`r`-fold insertion, and inserted knots pass the removability test of every step on every iso-curve. -/
namespace Geomdl
open Blossom RemInv
set_option linter.unusedSectionVars false
variable {K : Type} [Field K] [LinearOrder K] [IsStrictOrderedRing K]

section net
variable (Ul : List K) (P : List (List K)) (ub : K) (p r t s k d su sv sw : ℕ) (tol2 : K)
  (hP : NetOk d P) (hlenP : P.length = su * sv * sw) (hsu : 0 < su) (hsv : 0 < sv) (hsw : 0 < sw)
  (hm : Monotone (fnOf Ul)) (hlen : k + 1 < Ul.length)
  (hk2 : ub < fnOf Ul (k + 1)) (hs : fnOf Ul (k - s) < ub)
  (htr : t ≤ r) (hrs : r + s ≤ p) (hpk : p ≤ k) (htol : 0 ≤ tol2)
include hP hlenP hsu hsv hsw hm hlen hk2 hs htr hrs hpk htol

/-- after the u-direction insertion every gathered iso-curve passes every removability test -/
theorem allRemovable_after_insertU (hk : k < su) (c : ℕ)
    (hc : c < ((volRows 0 (su + r) sv sw (mapVol 0 su sv sw P (fun c => knotInsertion p (fnOf Ul) c ub r s k)).1).headD []).length) :
    Rows.AllRemovable p (fnOf (knotInsertionKv Ul ub k r))
      (isoCol c (volRows 0 (su + r) sv sw (mapVol 0 su sv sw P (fun c => knotInsertion p (fnOf Ul) c ub r s k)).1))
      ub t (s + r) (k + r) tol2 := by
  rw [Rows.volRows_headD_length 0 _ _ _ (by omega) (by omega) hsv hsw] at hc
  have hc' : c < sw * sv := by simpa [Nat.mul_comm] using hc
  obtain ⟨h1, h2, h3⟩ := flatIdx2_divmod hc'
  unfold flatIdx2 at h3
  rw [← h3, Rows.isoCol_volRows0 _ _ _ _ _ _ h2 h1,
    lineU_mapVol0 su sv sw (su + r) P _ hsv hsw (by intro v w _ _; rw [knotInsertion_length]; simp [RemInv.lineU]) _ _ h2 h1]
  exact Rows.allRemovable_inserted p Ul _ ub r t s k d tol2 (lineU_netOk su sv sw d P hP hlenP _ _ h2 h1) hm hlen hk2 hs
    htr hrs hpk (by simp [RemInv.lineU]; exact hk) htol

theorem allRemovable_after_insertV (hk : k < sv) (c : ℕ)
    (hc : c < ((volRows 1 su (sv + r) sw (mapVol 1 su sv sw P (fun c => knotInsertion p (fnOf Ul) c ub r s k)).1).headD []).length) :
    Rows.AllRemovable p (fnOf (knotInsertionKv Ul ub k r))
      (isoCol c (volRows 1 su (sv + r) sw (mapVol 1 su sv sw P (fun c => knotInsertion p (fnOf Ul) c ub r s k)).1))
      ub t (s + r) (k + r) tol2 := by
  rw [Rows.volRows_headD_length 1 _ _ _ (by omega) hsu (by omega) hsw] at hc
  have hc' : c < sw * su := by simpa [Nat.mul_comm] using hc
  obtain ⟨h1, h2, h3⟩ := flatIdx2_divmod hc'
  unfold flatIdx2 at h3
  rw [← h3, Rows.isoCol_volRows1 _ _ _ _ _ _ h2 h1,
    lineV_mapVol1 su sv sw (sv + r) P _ hsu hsw (by intro a w _ _; rw [knotInsertion_length]; simp [RemInv.lineV]) _ _ h2 h1]
  exact Rows.allRemovable_inserted p Ul _ ub r t s k d tol2 (lineV_netOk su sv sw d P hP hlenP _ _ h2 h1) hm hlen hk2 hs
    htr hrs hpk (by simp [RemInv.lineV]; exact hk) htol

theorem allRemovable_after_insertW (hk : k < sw) (c : ℕ)
    (hc : c < ((volRows 2 su sv (sw + r) (mapVol 2 su sv sw P (fun c => knotInsertion p (fnOf Ul) c ub r s k)).1).headD []).length) :
    Rows.AllRemovable p (fnOf (knotInsertionKv Ul ub k r))
      (isoCol c (volRows 2 su sv (sw + r) (mapVol 2 su sv sw P (fun c => knotInsertion p (fnOf Ul) c ub r s k)).1))
      ub t (s + r) (k + r) tol2 := by
  rw [Rows.volRows_headD_length 2 _ _ _ (by omega) hsu hsv (by omega)] at hc
  have hc' : c < su * sv := by simpa using hc
  obtain ⟨h1, h2, h3⟩ := flatIdx2_divmod hc'
  unfold flatIdx2 at h3
  rw [← h3, Rows.isoCol_volRows2 _ _ _ _ (le_refl _) _ _ _ h1 h2,
    lineW_mapVol2 2 su sv sw (sw + r) (le_refl _) P _ hsu hsv
      (by intro a v _ _; rw [knotInsertion_length]; simp [RemInv.lineW]) _ _ h1 h2]
  exact Rows.allRemovable_inserted p Ul _ ub r t s k d tol2 (lineW_netOk su sv sw d P hP hlenP _ _ h1 h2) hm hlen hk2 hs
    htr hrs hpk (by simp [RemInv.lineW]; exact hk) htol

end net

/-- **the rows branch on the object `insert_knot` returns**: `removeKnotVolRows` = `removeKnotDir` for every count
    `t ≤ r` (hence, `volume_insertDir_removeDir_t`, the object of `r - t` insertions) -/
theorem removeKnotVolRows_insDirOf (d : ℕ) (T : Shape K) (hT : VolWF d T) (dir : ℕ) (hdir : dir < 3) (ub : K) (r t : ℕ)
    (tol tol2 : K) (check : Bool) (h : RoundOk T dir ub r tol) (h2 : 0 ≤ tol2) (htr : t ≤ r) :
    removeKnotVolRows (insDirOf T dir ub r tol) dir ub t tol tol2 check
      = removeKnotDir (insDirOf T dir ub r tol) dir ub t tol tol2 check := by
  have hkv := hT.dir dir hdir
  obtain ⟨f1, f2, f3, f4, f5, f6⟩ := roundOk_facts T dir ub r tol hkv h
  have hop := isoOp_of_dirReqOk d T dir ub r tol hkv h.r1 h.req
  have hsu : 0 < T.size 0 := by have := hT.dir0.pn; omega
  have hsv : 0 < T.size 1 := by have := hT.dir1.pn; omega
  have hsw : 0 < T.size 2 := by have := hT.dir2.pn; omega
  obtain ⟨_, _, o3⟩ := withDir_other T dir (insKvOf T dir ub r) (insFnOf T dir ub r tol)
  have e_net : (insDirOf T dir ub r tol).net
      = (mapVol dir (T.size 0) (T.size 1) (T.size 2) T.net (insFnOf T dir ub r tol)).1 := by
    show (T.mapDir dir _).1 = _
    rw [mapDir_vol T dir _ hT.degs]
  have e_deg : (insDirOf T dir ub r tol).deg dir = T.deg dir := rfl
  rcases (by omega : dir = 0 ∨ dir = 1 ∨ dir = 2) with rfl | rfl | rfl
  · obtain ⟨hs', e1, e2⟩ := volume_dirOp0 d T hT _ _ _ hop
    have e_s1 := (o3 1 (by omega)).2
    have e_s2 := (o3 2 (by omega)).2
    apply Rows.removeKnotVolRows_eq (insDirOf T 0 ub r tol) 0 ub t tol tol2 check (show (insDirOf T 0 ub r tol).pdim = 3 from hT.degs) (by omega)
      (by rw [e2]; omega) (by rw [e_s1]; exact hsv) (by rw [e_s2]; exact hsw) hs'.wf.dir0.pn
      (by rw [e1, f5, e_deg]; have := h.req.rs; omega) (fun _ => by rw [e1, f5]; omega)
      (by rw [e1, e2, e_deg, f6]; omega)
    rw [e1, e2, e_s1, e_s2, e_net, e_deg, f5, f6]
    exact allRemovable_after_insertU (T.kv 0) T.net ub (T.deg 0) r t _ _ d (T.size 0) (T.size 1) (T.size 2) tol2
      hT.net hT.netlen hsu hsv hsw hkv.mono f3 f4 h.below htr h.req.rs f1 h2 f2
  · obtain ⟨hs', e1, e2⟩ := volume_dirOp1 d T hT _ _ _ hop
    have e_s0 := (o3 0 (by omega)).2
    have e_s2 := (o3 2 (by omega)).2
    apply Rows.removeKnotVolRows_eq (insDirOf T 1 ub r tol) 1 ub t tol tol2 check (show (insDirOf T 1 ub r tol).pdim = 3 from hT.degs) (by omega)
      (by rw [e_s0]; exact hsu) (by rw [e2]; omega) (by rw [e_s2]; exact hsw) hs'.wf.dir1.pn
      (by rw [e1, f5, e_deg]; have := h.req.rs; omega) (fun _ => by rw [e1, f5]; omega)
      (by rw [e1, e2, e_deg, f6]; omega)
    rw [e1, e2, e_s0, e_s2, e_net, e_deg, f5, f6]
    exact allRemovable_after_insertV (T.kv 1) T.net ub (T.deg 1) r t _ _ d (T.size 0) (T.size 1) (T.size 2) tol2
      hT.net hT.netlen hsu hsv hsw hkv.mono f3 f4 h.below htr h.req.rs f1 h2 f2
  · obtain ⟨hs', e1, e2⟩ := volume_dirOp2 d T hT _ _ _ hop
    have e_s0 := (o3 0 (by omega)).2
    have e_s1 := (o3 1 (by omega)).2
    apply Rows.removeKnotVolRows_eq (insDirOf T 2 ub r tol) 2 ub t tol tol2 check (show (insDirOf T 2 ub r tol).pdim = 3 from hT.degs) (by omega)
      (by rw [e_s0]; exact hsu) (by rw [e_s1]; exact hsv) (by rw [e2]; omega) hs'.wf.dir2.pn
      (by rw [e1, f5, e_deg]; have := h.req.rs; omega) (fun _ => by rw [e1, f5]; omega)
      (by rw [e1, e2, e_deg, f6]; omega)
    rw [e1, e2, e_s0, e_s1, e_net, e_deg, f5, f6]
    exact allRemovable_after_insertW (T.kv 2) T.net ub (T.deg 2) r t _ _ d (T.size 0) (T.size 1) (T.size 2) tol2
      hT.net hT.netlen hsu hsv hsw hkv.mono f3 f4 h.below htr h.req.rs f1 h2 f2

/-- **Volumes, removable at all, one direction as the code computes it**: on a volume `S` from which `ub` is
    removable `r` times (witness `T`), the rows branch of `operations.remove_knot` with count `1 ≤ t ≤ r` returns the
    object of `r - t` insertions into `T`; `T` itself for `t = r`. -/
theorem VolRemovableObj.removeKnotVolRows {d : ℕ} {S T : Shape K} {dir : ℕ} {ub : K} {r : ℕ} {tol : K}
    (h : VolRemovableObj d S T dir ub r tol) (t : ℕ) (tol2 : K) (check : Bool) (h2 : 0 ≤ tol2) (ht1 : 1 ≤ t) (htr : t ≤ r) :
    Geomdl.removeKnotVolRows S dir ub t tol tol2 check = some (insDirOf T dir ub (r - t) tol) ∧
    (t = r → Geomdl.removeKnotVolRows S dir ub t tol tol2 check = some T) := by
  rw [h.is_inserted, removeKnotVolRows_insDirOf d T h.wfT dir h.dir3 ub r t tol tol2 check h.round h2 htr]
  refine ⟨volume_insertDir_removeDir_t d T h.wfT dir h.dir3 ub r t tol tol2 check h.round h2 ht1 htr, ?_⟩
  rintro rfl
  exact volume_insertDir_removeDir d T h.wfT dir h.dir3 ub t tol tol2 check h.round h2

end Geomdl
