import NurbsVerif.Lemmas.AssembleSpan
import NurbsVerif.Lemmas.HullRat
import NurbsVerif.Lemmas.SurfLift

/-!
  Assembly, part 2 (C18): hull and bounding-box statements about the functions the library calls
  (`curvePoint`, `surfacePoint`, `volumePoint`: span search + span evaluation) for EVERY parameter of
  the closed domain, non-rational and rational (`project`).
-/
namespace Geomdl
open Blossom Finset
variable {K : Type} [Field K] [LinearOrder K] [IsStrictOrderedRing K]

/-! ### curves -/

theorem curvePoint_in_hull (p : ℕ) (U : ℕ → K) (P : List (List K)) (u : K) (d : ℕ)
    (hU : KnotsOk p U P.length) (hP : NetOk d P) (h1 : U p ≤ u) (h2 : u ≤ U P.length) (A : ℕ → K) (lo hi : K)
    (hlo : ∀ r, r ≤ p → lo ≤ ∑ l ∈ range d, A l * (ptsGet P (findSpanLinear p U P.length u - p + r)).getD l 0)
    (hhi : ∀ r, r ≤ p → ∑ l ∈ range d, A l * (ptsGet P (findSpanLinear p U P.length u - p + r)).getD l 0 ≤ hi) :
    lo ≤ ∑ l ∈ range d, A l * (curvePoint p U P u).getD l 0 ∧
      ∑ l ∈ range d, A l * (curvePoint p U P u).getD l 0 ≤ hi := by
  obtain ⟨hs, hp, hk⟩ := findSpanLinear_dom hU u h1 h2
  exact curvePointAt_in_hull p U P _ u d hs hp hk hP A lo hi hlo hhi

theorem curvePoint_in_boundingBox (p : ℕ) (U : ℕ → K) (P : List (List K)) (u : K) (d j : ℕ)
    (hU : KnotsOk p U P.length) (hP : NetOk d P) (h1 : U p ≤ u) (h2 : u ≤ U P.length) (hj : j < d) :
    (boundingBox P).1.getD j 0 ≤ (curvePoint p U P u).getD j 0 ∧
      (curvePoint p U P u).getD j 0 ≤ (boundingBox P).2.getD j 0 := by
  obtain ⟨hs, hp, hk⟩ := findSpanLinear_dom hU u h1 h2
  exact curvePointAt_in_boundingBox p U P _ u d j hs hp hk hP hj

theorem curvePoint_rational_in_hull (p : ℕ) (U : ℕ → K) (Pw : List (List K)) (u : K) (d : ℕ)
    (hU : KnotsOk p U Pw.length) (hP : NetOk (d+1) Pw) (h1 : U p ≤ u) (h2 : u ≤ U Pw.length)
    (hwt : ∀ r, r ≤ p → 0 < (ptsGet Pw (findSpanLinear p U Pw.length u - p + r)).getD d 0) (A : ℕ → K) (lo hi : K)
    (hlo : ∀ r, r ≤ p → lo ≤ ∑ l ∈ range d, A l * (project (ptsGet Pw (findSpanLinear p U Pw.length u - p + r))).getD l 0)
    (hhi : ∀ r, r ≤ p → ∑ l ∈ range d, A l * (project (ptsGet Pw (findSpanLinear p U Pw.length u - p + r))).getD l 0 ≤ hi) :
    0 < (curvePoint p U Pw u).getD d 0 ∧
    lo ≤ ∑ l ∈ range d, A l * (project (curvePoint p U Pw u)).getD l 0 ∧
      ∑ l ∈ range d, A l * (project (curvePoint p U Pw u)).getD l 0 ≤ hi := by
  obtain ⟨hs, hp, hk⟩ := findSpanLinear_dom hU u h1 h2
  exact curvePointAt_rational_in_hull p U Pw _ u d hs hp hk hP hwt A lo hi hlo hhi

theorem curvePoint_rational_in_boundingBox (p : ℕ) (U : ℕ → K) (Pw : List (List K)) (u : K) (d j : ℕ)
    (hU : KnotsOk p U Pw.length) (hP : NetOk (d+1) Pw) (h1 : U p ≤ u) (h2 : u ≤ U Pw.length)
    (hwt : ∀ i, i < Pw.length → 0 < (ptsGet Pw i).getD d 0) (hj : j < d) :
    (boundingBox (Pw.map project)).1.getD j 0 ≤ (project (curvePoint p U Pw u)).getD j 0 ∧
      (project (curvePoint p U Pw u)).getD j 0 ≤ (boundingBox (Pw.map project)).2.getD j 0 := by
  obtain ⟨hs, hp, hk⟩ := findSpanLinear_dom hU u h1 h2
  exact curvePointAt_rational_in_boundingBox p U Pw _ u d j hs hp hk hP hwt hj

/-! ### surfaces -/

theorem surfacePoint_in_hull (pu pv : ℕ) (Uu Uv : ℕ → K) (su sv : ℕ) (P : List (List K)) (u v : K) (d : ℕ)
    (hUu : KnotsOk pu Uu su) (hUv : KnotsOk pv Uv sv) (hlen : P.length = su * sv) (hP : NetOk d P)
    (hu1 : Uu pu ≤ u) (hu2 : u ≤ Uu su) (hv1 : Uv pv ≤ v) (hv2 : v ≤ Uv sv) (A : ℕ → K) (lo hi : K)
    (hlo : ∀ a b, a ≤ pu → b ≤ pv → lo ≤ ∑ l ∈ range d, A l *
      (ptsGet P (findSpanLinear pv Uv sv v - pv + b + sv * (findSpanLinear pu Uu su u - pu + a))).getD l 0)
    (hhi : ∀ a b, a ≤ pu → b ≤ pv → ∑ l ∈ range d, A l *
      (ptsGet P (findSpanLinear pv Uv sv v - pv + b + sv * (findSpanLinear pu Uu su u - pu + a))).getD l 0 ≤ hi) :
    lo ≤ ∑ l ∈ range d, A l * (surfacePoint pu pv Uu Uv su sv P u v).getD l 0 ∧
      ∑ l ∈ range d, A l * (surfacePoint pu pv Uu Uv su sv P u v).getD l 0 ≤ hi := by
  obtain ⟨hsu, hpu, hku⟩ := findSpanLinear_dom hUu u hu1 hu2
  obtain ⟨hsv, hpv, hkv⟩ := findSpanLinear_dom hUv v hv1 hv2
  exact surfacePointAt_in_hull pu pv Uu Uv su sv P _ _ u v d hsu hsv hpu hpv hku hkv hlen hP A lo hi hlo hhi

theorem surfacePoint_in_boundingBox (pu pv : ℕ) (Uu Uv : ℕ → K) (su sv : ℕ) (P : List (List K)) (u v : K) (d j : ℕ)
    (hUu : KnotsOk pu Uu su) (hUv : KnotsOk pv Uv sv) (hlen : P.length = su * sv) (hP : NetOk d P)
    (hu1 : Uu pu ≤ u) (hu2 : u ≤ Uu su) (hv1 : Uv pv ≤ v) (hv2 : v ≤ Uv sv) (hj : j < d) :
    (boundingBox P).1.getD j 0 ≤ (surfacePoint pu pv Uu Uv su sv P u v).getD j 0 ∧
      (surfacePoint pu pv Uu Uv su sv P u v).getD j 0 ≤ (boundingBox P).2.getD j 0 := by
  obtain ⟨hsu, hpu, hku⟩ := findSpanLinear_dom hUu u hu1 hu2
  obtain ⟨hsv, hpv, hkv⟩ := findSpanLinear_dom hUv v hv1 hv2
  exact surfacePointAt_in_boundingBox pu pv Uu Uv su sv P _ _ u v d j hsu hsv hpu hpv hku hkv hlen hP hj

theorem surfacePoint_rational_in_hull (pu pv : ℕ) (Uu Uv : ℕ → K) (su sv : ℕ) (Pw : List (List K)) (u v : K) (d : ℕ)
    (hUu : KnotsOk pu Uu su) (hUv : KnotsOk pv Uv sv) (hlen : Pw.length = su * sv) (hP : NetOk (d+1) Pw)
    (hu1 : Uu pu ≤ u) (hu2 : u ≤ Uu su) (hv1 : Uv pv ≤ v) (hv2 : v ≤ Uv sv)
    (hwt : ∀ a b, a ≤ pu → b ≤ pv → 0 <
      (ptsGet Pw (findSpanLinear pv Uv sv v - pv + b + sv * (findSpanLinear pu Uu su u - pu + a))).getD d 0)
    (A : ℕ → K) (lo hi : K)
    (hlo : ∀ a b, a ≤ pu → b ≤ pv → lo ≤ ∑ l ∈ range d, A l *
      (project (ptsGet Pw (findSpanLinear pv Uv sv v - pv + b + sv * (findSpanLinear pu Uu su u - pu + a)))).getD l 0)
    (hhi : ∀ a b, a ≤ pu → b ≤ pv → ∑ l ∈ range d, A l *
      (project (ptsGet Pw (findSpanLinear pv Uv sv v - pv + b + sv * (findSpanLinear pu Uu su u - pu + a)))).getD l 0 ≤ hi) :
    0 < (surfacePoint pu pv Uu Uv su sv Pw u v).getD d 0 ∧
    lo ≤ ∑ l ∈ range d, A l * (project (surfacePoint pu pv Uu Uv su sv Pw u v)).getD l 0 ∧
      ∑ l ∈ range d, A l * (project (surfacePoint pu pv Uu Uv su sv Pw u v)).getD l 0 ≤ hi := by
  obtain ⟨hsu, hpu, hku⟩ := findSpanLinear_dom hUu u hu1 hu2
  obtain ⟨hsv, hpv, hkv⟩ := findSpanLinear_dom hUv v hv1 hv2
  exact surfacePointAt_rational_in_hull pu pv Uu Uv su sv Pw _ _ u v d hsu hsv hpu hpv hku hkv hlen hP hwt A lo hi hlo hhi

theorem surfacePoint_rational_in_boundingBox (pu pv : ℕ) (Uu Uv : ℕ → K) (su sv : ℕ) (Pw : List (List K)) (u v : K) (d j : ℕ)
    (hUu : KnotsOk pu Uu su) (hUv : KnotsOk pv Uv sv) (hlen : Pw.length = su * sv) (hP : NetOk (d+1) Pw)
    (hu1 : Uu pu ≤ u) (hu2 : u ≤ Uu su) (hv1 : Uv pv ≤ v) (hv2 : v ≤ Uv sv)
    (hwt : ∀ i, i < Pw.length → 0 < (ptsGet Pw i).getD d 0) (hj : j < d) :
    (boundingBox (Pw.map project)).1.getD j 0 ≤ (project (surfacePoint pu pv Uu Uv su sv Pw u v)).getD j 0 ∧
      (project (surfacePoint pu pv Uu Uv su sv Pw u v)).getD j 0 ≤ (boundingBox (Pw.map project)).2.getD j 0 := by
  obtain ⟨hsu, hpu, hku⟩ := findSpanLinear_dom hUu u hu1 hu2
  obtain ⟨hsv, hpv, hkv⟩ := findSpanLinear_dom hUv v hv1 hv2
  exact surfacePointAt_rational_in_boundingBox pu pv Uu Uv su sv Pw _ _ u v d j hsu hsv hpu hpv hku hkv hlen hP hwt hj

/-! ### volumes -/

theorem volumePoint_in_hull (pu pv pw : ℕ) (Uu Uv Uw : ℕ → K) (su sv sw : ℕ) (P : List (List K)) (u v w : K) (d : ℕ)
    (hUu : KnotsOk pu Uu su) (hUv : KnotsOk pv Uv sv) (hUw : KnotsOk pw Uw sw)
    (hlen : P.length = su * sv * sw) (hP : NetOk d P)
    (hu1 : Uu pu ≤ u) (hu2 : u ≤ Uu su) (hv1 : Uv pv ≤ v) (hv2 : v ≤ Uv sv) (hw1 : Uw pw ≤ w) (hw2 : w ≤ Uw sw)
    (A : ℕ → K) (lo hi : K)
    (hlo : ∀ a b c, a ≤ pu → b ≤ pv → c ≤ pw → lo ≤ ∑ l ∈ range d, A l *
      (ptsGet P (findSpanLinear pv Uv sv v - pv + b + sv * (findSpanLinear pu Uu su u - pu + a
        + su * (findSpanLinear pw Uw sw w - pw + c)))).getD l 0)
    (hhi : ∀ a b c, a ≤ pu → b ≤ pv → c ≤ pw → ∑ l ∈ range d, A l *
      (ptsGet P (findSpanLinear pv Uv sv v - pv + b + sv * (findSpanLinear pu Uu su u - pu + a
        + su * (findSpanLinear pw Uw sw w - pw + c)))).getD l 0 ≤ hi) :
    lo ≤ ∑ l ∈ range d, A l * (volumePoint pu pv pw Uu Uv Uw su sv sw P u v w).getD l 0 ∧
      ∑ l ∈ range d, A l * (volumePoint pu pv pw Uu Uv Uw su sv sw P u v w).getD l 0 ≤ hi := by
  obtain ⟨hsu, hpu, hku⟩ := findSpanLinear_dom hUu u hu1 hu2
  obtain ⟨hsv, hpv, hkv⟩ := findSpanLinear_dom hUv v hv1 hv2
  obtain ⟨hsw, hpw, hkw⟩ := findSpanLinear_dom hUw w hw1 hw2
  exact volumePointAt_in_hull pu pv pw Uu Uv Uw su sv sw P _ _ _ u v w d hsu hsv hsw hpu hpv hpw hku hkv hkw hlen hP
    A lo hi hlo hhi

theorem volumePoint_in_boundingBox (pu pv pw : ℕ) (Uu Uv Uw : ℕ → K) (su sv sw : ℕ) (P : List (List K)) (u v w : K) (d j : ℕ)
    (hUu : KnotsOk pu Uu su) (hUv : KnotsOk pv Uv sv) (hUw : KnotsOk pw Uw sw)
    (hlen : P.length = su * sv * sw) (hP : NetOk d P)
    (hu1 : Uu pu ≤ u) (hu2 : u ≤ Uu su) (hv1 : Uv pv ≤ v) (hv2 : v ≤ Uv sv) (hw1 : Uw pw ≤ w) (hw2 : w ≤ Uw sw)
    (hj : j < d) :
    (boundingBox P).1.getD j 0 ≤ (volumePoint pu pv pw Uu Uv Uw su sv sw P u v w).getD j 0 ∧
      (volumePoint pu pv pw Uu Uv Uw su sv sw P u v w).getD j 0 ≤ (boundingBox P).2.getD j 0 := by
  obtain ⟨hsu, hpu, hku⟩ := findSpanLinear_dom hUu u hu1 hu2
  obtain ⟨hsv, hpv, hkv⟩ := findSpanLinear_dom hUv v hv1 hv2
  obtain ⟨hsw, hpw, hkw⟩ := findSpanLinear_dom hUw w hw1 hw2
  exact volumePointAt_in_boundingBox pu pv pw Uu Uv Uw su sv sw P _ _ _ u v w d j hsu hsv hsw hpu hpv hpw hku hkv hkw
    hlen hP hj

theorem volumePoint_rational_in_hull (pu pv pw : ℕ) (Uu Uv Uw : ℕ → K) (su sv sw : ℕ) (Pw : List (List K)) (u v w : K) (d : ℕ)
    (hUu : KnotsOk pu Uu su) (hUv : KnotsOk pv Uv sv) (hUw : KnotsOk pw Uw sw)
    (hlen : Pw.length = su * sv * sw) (hP : NetOk (d+1) Pw)
    (hu1 : Uu pu ≤ u) (hu2 : u ≤ Uu su) (hv1 : Uv pv ≤ v) (hv2 : v ≤ Uv sv) (hw1 : Uw pw ≤ w) (hw2 : w ≤ Uw sw)
    (hwt : ∀ a b c, a ≤ pu → b ≤ pv → c ≤ pw → 0 <
      (ptsGet Pw (findSpanLinear pv Uv sv v - pv + b + sv * (findSpanLinear pu Uu su u - pu + a
        + su * (findSpanLinear pw Uw sw w - pw + c)))).getD d 0)
    (A : ℕ → K) (lo hi : K)
    (hlo : ∀ a b c, a ≤ pu → b ≤ pv → c ≤ pw → lo ≤ ∑ l ∈ range d, A l *
      (project (ptsGet Pw (findSpanLinear pv Uv sv v - pv + b + sv * (findSpanLinear pu Uu su u - pu + a
        + su * (findSpanLinear pw Uw sw w - pw + c))))).getD l 0)
    (hhi : ∀ a b c, a ≤ pu → b ≤ pv → c ≤ pw → ∑ l ∈ range d, A l *
      (project (ptsGet Pw (findSpanLinear pv Uv sv v - pv + b + sv * (findSpanLinear pu Uu su u - pu + a
        + su * (findSpanLinear pw Uw sw w - pw + c))))).getD l 0 ≤ hi) :
    0 < (volumePoint pu pv pw Uu Uv Uw su sv sw Pw u v w).getD d 0 ∧
    lo ≤ ∑ l ∈ range d, A l * (project (volumePoint pu pv pw Uu Uv Uw su sv sw Pw u v w)).getD l 0 ∧
      ∑ l ∈ range d, A l * (project (volumePoint pu pv pw Uu Uv Uw su sv sw Pw u v w)).getD l 0 ≤ hi := by
  obtain ⟨hsu, hpu, hku⟩ := findSpanLinear_dom hUu u hu1 hu2
  obtain ⟨hsv, hpv, hkv⟩ := findSpanLinear_dom hUv v hv1 hv2
  obtain ⟨hsw, hpw, hkw⟩ := findSpanLinear_dom hUw w hw1 hw2
  exact volumePointAt_rational_in_hull pu pv pw Uu Uv Uw su sv sw Pw _ _ _ u v w d hsu hsv hsw hpu hpv hpw hku hkv hkw
    hlen hP hwt A lo hi hlo hhi

theorem volumePoint_rational_in_boundingBox (pu pv pw : ℕ) (Uu Uv Uw : ℕ → K) (su sv sw : ℕ) (Pw : List (List K))
    (u v w : K) (d j : ℕ)
    (hUu : KnotsOk pu Uu su) (hUv : KnotsOk pv Uv sv) (hUw : KnotsOk pw Uw sw)
    (hlen : Pw.length = su * sv * sw) (hP : NetOk (d+1) Pw)
    (hu1 : Uu pu ≤ u) (hu2 : u ≤ Uu su) (hv1 : Uv pv ≤ v) (hv2 : v ≤ Uv sv) (hw1 : Uw pw ≤ w) (hw2 : w ≤ Uw sw)
    (hwt : ∀ i, i < Pw.length → 0 < (ptsGet Pw i).getD d 0) (hj : j < d) :
    (boundingBox (Pw.map project)).1.getD j 0 ≤ (project (volumePoint pu pv pw Uu Uv Uw su sv sw Pw u v w)).getD j 0 ∧
      (project (volumePoint pu pv pw Uu Uv Uw su sv sw Pw u v w)).getD j 0 ≤ (boundingBox (Pw.map project)).2.getD j 0 := by
  obtain ⟨hsu, hpu, hku⟩ := findSpanLinear_dom hUu u hu1 hu2
  obtain ⟨hsv, hpv, hkv⟩ := findSpanLinear_dom hUv v hv1 hv2
  obtain ⟨hsw, hpw, hkw⟩ := findSpanLinear_dom hUw w hw1 hw2
  exact volumePointAt_rational_in_boundingBox pu pv pw Uu Uv Uw su sv sw Pw _ _ _ u v w d j hsu hsv hsw hpu hpv hpw
    hku hkv hkw hlen hP hwt hj

end Geomdl
