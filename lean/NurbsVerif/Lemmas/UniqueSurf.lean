import NurbsVerif.Lemmas.UniqueRemove
import NurbsVerif.Lemmas.RemoveInvSurf

/-! "Removable at all" for surfaces, per direction: when every iso-curve of the direction is a removable
    curve (`RemovableKnot`, witness = the corresponding iso-curve of a net `Q`), the gather / scatter of
    `operations.remove_knot` returns exactly `Q` and the reduced size. -/
namespace Geomdl
open Blossom
variable {K : Type} [Field K] [LinearOrder K] [IsStrictOrderedRing K]

theorem removable_exact (p d : ℕ) (V : List K) (Ph Q : List (List K)) (ub : K) (r s k : ℕ) (tol2 : K)
    (h : RemovableKnot p d V Ph Q ub r s k) (htol : 0 ≤ tol2) :
    knotRemoval p (fnOf V) Ph ub r (s + r) (k + r) tol2 = Q := by
  have := (removable_knot p d V Ph Q ub r r s k tol2 h.wf h.active h.reduced h.run h.below h.above h.r1 (le_refl _) h.rs
    h.pk h.kn htol h.same).2
  rw [this, Nat.sub_self, RemInv.knotInsertion_zero p _ Q ub s k h.pk]

/-- v direction (rows = iso-curves `u = const`) -/
theorem surfV_removable (p d : ℕ) (V : List K) (P Q : List (List K)) (ub : K) (r s k su sv : ℕ) (tol2 : K)
    (hsu : 0 < su) (hlenQ : Q.length = su * (sv - r))
    (h : ∀ x, x < su → RemovableKnot p d V (rowOf sv P x) (rowOf (sv - r) Q x) ub r s k) (htol : 0 ≤ tol2) :
    mapSurfV su sv P (fun c => knotRemoval p (fnOf V) c ub r (s + r) (k + r) tol2) = (Q, sv - r) := by
  have hf : ∀ x, x < su → knotRemoval p (fnOf V) (rowOf sv P x) ub r (s + r) (k + r) tol2 = rowOf (sv - r) Q x :=
    fun x hx => removable_exact p d V _ _ ub r s k tol2 (h x hx) htol
  have hlf : ∀ x, x < su → (knotRemoval p (fnOf V) (rowOf sv P x) ub r (s + r) (k + r) tol2).length = sv - r :=
    fun x hx => by rw [hf x hx, RemInv.rowOf_length]
  obtain ⟨h1, h2⟩ := RemInv.mapSurfV_size su sv (sv - r) P (fun c => knotRemoval p (fnOf V) c ub r (s + r) (k + r) tol2) hsu hlf
  apply Prod.ext
  · apply RemInv.net_eq_of_rows su (sv - r) _ _ h1 hlenQ
    intro x hx
    rw [mapSurfV_rows su sv (sv - r) P (fun c => knotRemoval p (fnOf V) c ub r (s + r) (k + r) tol2) hlf x hx, hf x hx]
  · exact h2

/-- u direction (columns = iso-curves `v = const`) -/
theorem surfU_removable (p d : ℕ) (V : List K) (P Q : List (List K)) (ub : K) (r s k su sv : ℕ) (tol2 : K)
    (hsv : 0 < sv) (hlenQ : Q.length = (su - r) * sv)
    (h : ∀ y, y < sv → RemovableKnot p d V (colOf su sv P y) (colOf (su - r) sv Q y) ub r s k) (htol : 0 ≤ tol2) :
    mapSurfU su sv P (fun c => knotRemoval p (fnOf V) c ub r (s + r) (k + r) tol2) = (Q, su - r) := by
  have hf : ∀ y, y < sv → knotRemoval p (fnOf V) (colOf su sv P y) ub r (s + r) (k + r) tol2 = colOf (su - r) sv Q y :=
    fun y hy => removable_exact p d V _ _ ub r s k tol2 (h y hy) htol
  have hlf : ∀ y, y < sv → (knotRemoval p (fnOf V) (colOf su sv P y) ub r (s + r) (k + r) tol2).length = su - r :=
    fun y hy => by rw [hf y hy, RemInv.colOf_length]
  obtain ⟨h2, h1, hc⟩ := RemInv.mapSurfU_cols su sv (su - r) P (fun c => knotRemoval p (fnOf V) c ub r (s + r) (k + r) tol2) hsv hlf
  apply Prod.ext
  · apply RemInv.net_eq_of_cols (su - r) sv _ _ h1 hlenQ
    intro y hy
    rw [hc y hy, hf y hy]
  · exact h2

end Geomdl
