import NurbsVerif.Lemmas.Hull2DHalf

/-!
C20, convex hull: assembling `linalg.convex_hull` from its lower and upper chain.
-/
namespace Geomdl
variable {K : Type} [Field K] [LinearOrder K] [IsStrictOrderedRing K]

/-- the cone of the reversed lexicographic order (`reversed(sorted(points))`) -/
def negLex (x y : K) : Prop := lexPos (-x) (-y)

theorem negLex_isCone : IsCone (negLex (K := K)) := lexPos_isCone.neg

theorem clt_negLex_iff (a b : K × K) : clt negLex a b ↔ clt lexPos b a := clt_neg_iff lexPos a b
theorem cle_negLex_iff (a b : K × K) : cle negLex a b ↔ cle lexPos b a := cle_neg_iff lexPos a b

theorem sortLex_ne_nil (pts : List (K × K)) (h : pts ≠ []) : sortLex pts ≠ [] := by
  intro h'
  have := (sortLex_perm pts).length_eq
  rw [h'] at this
  exact h (List.eq_nil_of_length_eq_zero this.symm)

/-- the two scans of `convex_hull` return the lower and the upper half hull of the input -/
theorem convexHull_halves (pts : List (K × K)) (hne : pts ≠ []) :
    HalfHull lexPos pts (halfHull (sortLex pts)) ∧ HalfHull negLex pts (halfHull (sortLex pts).reverse) := by
  have hs := sortLex_ne_nil pts hne
  constructor
  · match hm : sortLex pts with
    | [] => exact absurd hm hs
    | m :: tl =>
      have h := halfHull_spec lexPos_isCone m tl (by rw [← hm]; exact sortLex_sorted pts)
      refine HalfHull.congr ?_ h
      intro q; rw [← hm]; exact (sortLex_perm pts).mem_iff
  · match hm : (sortLex pts).reverse with
    | [] => exact absurd (List.reverse_eq_nil_iff.mp hm) hs
    | m :: tl =>
      have h := halfHull_spec negLex_isCone m tl (by rw [← hm]; exact sortLex_reverse_sorted pts)
      refine HalfHull.congr ?_ h
      intro q; rw [← hm, List.mem_reverse]; exact (sortLex_perm pts).mem_iff

theorem dropLast_append_last {α : Type} (l : List α) (m : α) (hne : l ≠ []) (h : l.getLast? = some m) :
    l.dropLast ++ [m] = l := by
  have h' := List.getLast?_eq_some_getLast hne
  rw [h] at h'
  have e : m = l.getLast hne := Option.some.inj h'
  rw [e]; exact List.dropLast_concat_getLast hne

/-- **Shape of the result.**  Either there is no point, or all points coincide, or the result is the
    lower chain `m … M` followed by the inner vertices of the upper chain `M … m`. -/
theorem convexHull_cases (pts : List (K × K)) :
    (pts = [] ∧ convexHull pts = []) ∨
    (∃ m, (∀ q ∈ pts, q = m) ∧ convexHull pts = [m]) ∨
    (∃ l u m M lT uT, HalfHull lexPos pts l ∧ HalfHull negLex pts u ∧ l = m :: lT ∧ lT ≠ [] ∧
      u = M :: uT ∧ uT ≠ [] ∧ l.getLast? = some M ∧ u.getLast? = some m ∧
      convexHull pts = l ++ uT.dropLast) := by
  by_cases hne : pts = []
  · left; subst hne; exact ⟨rfl, rfl⟩
  right
  obtain ⟨hl, hu⟩ := convexHull_halves pts hne
  have hH : convexHull pts = halfHull (sortLex pts) ++ ((halfHull (sortLex pts).reverse).drop 1).dropLast := rfl
  generalize halfHull (sortLex pts) = l at hl hH
  generalize halfHull (sortLex pts).reverse = u at hu hH
  obtain ⟨m, lT, el, hm⟩ := hl.first
  obtain ⟨M, eM, hM⟩ := hl.last
  obtain ⟨M', uT, eu, hM'⟩ := hu.first
  obtain ⟨m', em', hm'⟩ := hu.last
  have hmS : m ∈ pts := hl.sub m (by rw [el]; simp)
  have hMS : M ∈ pts := hl.sub M (List.mem_of_getLast? eM)
  have hM'S : M' ∈ pts := hu.sub M' (by rw [eu]; simp)
  have hm'S : m' ∈ pts := hu.sub m' (List.mem_of_getLast? em')
  have e1 : M' = M := cle_antisymm lexPos_isCone (hM M' hM'S) ((cle_negLex_iff _ _).mp (hM' M hMS))
  have e2 : m' = m := cle_antisymm lexPos_isCone ((cle_negLex_iff _ _).mp (hm' m hmS)) (hm m' hm'S)
  subst e1 e2
  by_cases hmM : m' = M'
  · -- all points coincide
    left
    subst hmM
    have hall : ∀ q ∈ pts, q = m' := fun q hq => cle_antisymm lexPos_isCone (hM q hq) (hm q hq)
    refine ⟨m', hall, ?_⟩
    have hlT : lT = [] := by
      cases lT with
      | nil => rfl
      | cons z t =>
        exfalso
        have hz : z = m' := hall z (hl.sub z (by rw [el]; simp))
        have := hl.sorted; rw [el] at this
        have := (List.pairwise_cons.mp this).1 z (by simp)
        rw [hz] at this
        exact clt_irrefl lexPos_isCone _ this
    have huT : uT = [] := by
      cases uT with
      | nil => rfl
      | cons z t =>
        exfalso
        have hz : z = m' := hall z (hu.sub z (by rw [eu]; simp))
        have := hu.sorted; rw [eu] at this
        have := (List.pairwise_cons.mp this).1 z (by simp)
        rw [hz] at this
        exact clt_irrefl negLex_isCone _ this
    rw [hH, el, eu, hlT, huT]; rfl
  · right
    have hlT : lT ≠ [] := by
      intro h; rw [el, h] at eM
      simp only [List.getLast?_singleton, Option.some.injEq] at eM
      exact hmM eM
    have huT : uT ≠ [] := by
      intro h; rw [eu, h] at em'
      simp only [List.getLast?_singleton, Option.some.injEq] at em'
      exact hmM em'.symm
    refine ⟨l, u, m', M', lT, uT, hl, hu, el, hlT, eu, huT, eM, em', ?_⟩
    rw [hH, eu]; rfl

/-- in the non-degenerate case the closed polygon `H ++ [H[0]]` is the lower chain followed by the
    upper chain -/
theorem hull_closed_eq {l u lT uT : List (K × K)} {m M : K × K} (el : l = m :: lT) (eu : u = M :: uT)
    (huT : uT ≠ []) (em : u.getLast? = some m) :
    (l ++ uT.dropLast) ++ (l ++ uT.dropLast).take 1 = l ++ uT := by
  have h1 : (l ++ uT.dropLast).take 1 = [m] := by rw [el]; simp
  have h2 : uT.getLast? = some m := by
    cases uT with
    | nil => exact absurd rfl huT
    | cons z t => rw [eu, List.getLast?_cons_cons] at em; exact em
  rw [h1, List.append_assoc, dropLast_append_last uT m huT h2]

/-! ### containment -/

/-- **Containment (all cases).**  Every input point is left of or on every edge of the closed
    polygon `H ++ [H[0]]` formed by the result `H`. -/
theorem convexHull_contains (pts : List (K × K)) :
    ∀ q ∈ pts, ∀ e ∈ pairs (convexHull pts ++ (convexHull pts).take 1), 0 ≤ isLeft e.1 e.2 q := by
  intro q hq e he
  rcases convexHull_cases pts with ⟨h, _⟩ | ⟨m, _, hH⟩ | ⟨l, u, m, M, lT, uT, hl, hu, el, hlT, eu, huT, eM, em, hH⟩
  · subst h; simp at hq
  · rw [hH] at he
    simp only [List.take_succ_cons, List.take_zero, List.cons_append, List.nil_append, pairs,
      List.mem_singleton] at he
    subst he
    apply le_of_eq; unfold isLeft; ring
  · rw [hH, hull_closed_eq el eu huT em] at he
    obtain ⟨lI, elI⟩ := List.getLast?_eq_some_iff.mp eM
    rw [elI, List.append_assoc, List.singleton_append, mem_pairs_append_cons, ← elI, ← eu] at he
    rcases he with he | he
    · exact hl.contain q hq e he
    · exact hu.contain q hq e he

/-! ### strict convexity -/

theorem convexHull_strict (pts : List (K × K)) (h3 : 3 ≤ (convexHull pts).length) :
    LeftChainFwd (convexHull pts ++ (convexHull pts).take 2) := by
  rcases convexHull_cases pts with ⟨_, hH⟩ | ⟨m, _, hH⟩ | ⟨l, u, m, M, lT, uT, hl, hu, el, hlT, eu, huT, eM, em, hH⟩
  · rw [hH] at h3; simp at h3
  · rw [hH] at h3; simp at h3
  · have huT' : uT.getLast? = some m := by
      cases uT with
      | nil => exact absurd rfl huT
      | cons z t => rw [eu, List.getLast?_cons_cons] at em; exact em
    have hdl := dropLast_append_last uT m huT huT'
    have hlen : 3 ≤ l.length ∨ 3 ≤ u.length := by
      rw [hH] at h3
      have h4 : uT.dropLast.length + 1 = uT.length := by
        have := congrArg List.length hdl; simpa using this
      rw [List.length_append] at h3
      have : u.length = uT.length + 1 := by rw [eu]; simp
      omega
    have hl2 : 2 ≤ l.length := by
      rw [el]; cases lT with
      | nil => exact absurd rfl hlT
      | cons _ _ => simp
    have hu2 : 2 ≤ u.length := by
      rw [eu]; cases uT with
      | nil => exact absurd rfl huT
      | cons _ _ => simp
    obtain ⟨lA, x, M₁, el'⟩ := exists_snoc2 l hl2
    obtain ⟨uA, z, m₁, eu'⟩ := exists_snoc2 u hu2
    have eM1 : M₁ = M := by
      rw [el'] at eM
      have : (lA ++ [x, M₁]).getLast? = some M₁ := by simp
      rw [this] at eM; exact Option.some.inj eM
    have em1 : m₁ = m := by
      rw [eu'] at em
      have : (uA ++ [z, m₁]).getLast? = some m₁ := by simp
      rw [this] at em; exact Option.some.inj em
    subst eM1 em1
    obtain ⟨l1, lB, elT⟩ := List.exists_cons_of_ne_nil hlT
    obtain ⟨y, uB, euT⟩ := List.exists_cons_of_ne_nil huT
    have el2 : l = m₁ :: l1 :: lB := by rw [el, elT]
    have eu2 : u = M₁ :: y :: uB := by rw [eu, euT]
    -- the two junction turns
    have J1 : 0 < isLeft x M₁ y :=
      junction_strict lexPos_isCone (fun a b h => (clt_negLex_iff a b).mp h) hl hu el' eu2 hlen
    have J2 : 0 < isLeft z m₁ l1 :=
      junction_strict negLex_isCone (fun a b h => (clt_negLex_iff b a).mpr h) hu hl eu' el2 hlen.symm
    -- glue the chains
    have c1 : LeftChainFwd (lA ++ [x, M₁, y]) :=
      LeftChainFwd_snoc x M₁ y lA (by rw [← el']; exact hl.chain) ((turn_eq_one_iff _ _ _).mpr J1)
    have c2 : LeftChainFwd ((lA ++ [x]) ++ M₁ :: y :: uB) :=
      LeftChainFwd_glue M₁ y uB (lA ++ [x]) (by simpa using c1) (by rw [← eu2]; exact hu.chain)
    have e3 : (lA ++ [x]) ++ M₁ :: y :: uB = (lA ++ [x] ++ uA) ++ [z, m₁] := by
      rw [← eu2, eu']; simp
    rw [e3] at c2
    have c3 := LeftChainFwd_snoc z m₁ l1 (lA ++ [x] ++ uA) c2 ((turn_eq_one_iff _ _ _).mpr J2)
    have e4 : convexHull pts ++ (convexHull pts).take 2 = (lA ++ [x] ++ uA) ++ [z, m₁, l1] := by
      have t2 : (l ++ uT.dropLast).take 2 = [m₁, l1] := by rw [el2]; simp
      rw [hH, t2]
      have : l ++ uT.dropLast ++ [m₁, l1] = (l ++ (uT.dropLast ++ [m₁])) ++ [l1] := by simp
      rw [this, hdl]
      have : l ++ uT = (lA ++ [x]) ++ u := by rw [el', eu]; simp
      rw [this, eu']; simp
    rw [e4]; exact c3

/-! ### the vertices are pairwise distinct -/

theorem convexHull_nodup (pts : List (K × K)) : (convexHull pts).Nodup := by
  rcases convexHull_cases pts with ⟨_, hH⟩ | ⟨m, _, hH⟩ | ⟨l, u, m, M, lT, uT, hl, hu, el, hlT, eu, huT, eM, em, hH⟩
  · rw [hH]; exact List.nodup_nil
  · rw [hH]; exact List.nodup_singleton m
  · have hnl : l.Nodup := hl.sorted.imp (fun h => clt_ne lexPos_isCone h)
    have hnu : u.Nodup := hu.sorted.imp (fun h => clt_ne negLex_isCone h)
    have huT' : uT.getLast? = some m := by
      cases uT with
      | nil => exact absurd rfl huT
      | cons z t => rw [eu, List.getLast?_cons_cons] at em; exact em
    have hdl := dropLast_append_last uT m huT huT'
    have hlT' : lT.getLast? = some M := by
      cases lT with
      | nil => exact absurd rfl hlT
      | cons z t => rw [el, List.getLast?_cons_cons] at eM; exact eM
    obtain ⟨lmid, elmid⟩ := List.getLast?_eq_some_iff.mp hlT'
    rw [hH]
    refine List.nodup_append.mpr ⟨hnl, ?_, ?_⟩
    · have : List.Sublist uT.dropLast u := by
        rw [eu]; exact (List.dropLast_sublist uT).trans (List.sublist_cons_self M uT)
      exact hnu.sublist this
    · intro a ha b hb hab
      subst hab
      -- `a` is an inner vertex of `u`
      have eu3 : u = M :: (uT.dropLast ++ [m]) := by rw [hdl]; exact eu
      rw [eu3] at hnu
      have haM : a ≠ M := by
        intro h; subst h
        exact (List.nodup_cons.mp hnu).1 (List.mem_append_left _ hb)
      have ham : a ≠ m := by
        intro h; subst h
        have := (List.nodup_cons.mp hnu).2
        rw [List.nodup_append] at this
        exact this.2.2 a hb a (by simp) rfl
      obtain ⟨s, t, est⟩ := List.mem_iff_append.mp hb
      rcases List.eq_nil_or_concat (M :: s) with h | ⟨A', p', h⟩
      · simp at h
      · rw [List.concat_eq_append] at h
        have eu4 : u = A' ++ p' :: a :: (t ++ [m]) := by
          rw [eu3, est]
          have : M :: (s ++ a :: t ++ [m]) = (M :: s) ++ a :: (t ++ [m]) := by simp
          rw [this, h]; simp
        -- `a` is an inner vertex of `l`
        have haT : a ∈ lT := by
          rw [el] at ha
          rcases List.mem_cons.mp ha with h | h
          · exact absurd h ham
          · exact h
        rw [elmid] at haT
        have hamid : a ∈ lmid := by
          rcases List.mem_append.mp haT with h | h
          · exact h
          · rw [List.mem_singleton] at h; exact absurd h haM
        obtain ⟨s2, t2, est2⟩ := List.mem_iff_append.mp hamid
        rcases List.eq_nil_or_concat (m :: s2) with h2 | ⟨A, p, h2⟩
        · simp at h2
        · rw [List.concat_eq_append] at h2
          obtain ⟨n, B, enB⟩ : ∃ n B, t2 ++ [M] = n :: B := by
            cases t2 with
            | nil => exact ⟨M, [], rfl⟩
            | cons n t2' => exact ⟨n, t2' ++ [M], rfl⟩
          have el4 : l = A ++ p :: a :: n :: B := by
            rw [el, elmid, est2]
            have : m :: (s2 ++ a :: t2 ++ [M]) = (m :: s2) ++ a :: (t2 ++ [M]) := by simp
            rw [this, h2, enB]; simp
          exact no_double_vertex lexPos_isCone (fun a b h => (clt_negLex_iff a b).mp h) hl hu el4 eu4

end Geomdl
