/-
  C13, boundary sections of RATIONAL shapes as projected points.  The coordinatewise statements of
  `Lemmas/LayoutBoundary(Vol).lean` are lifted to equalities of the evaluated homogeneous points (both sides
  have the same number of coordinates), hence of their projections `project · ` (what the rational evaluators
  return); with positive weights and parameters in the domain the weight divided by is positive on both sides.
  For sweeps the point map `pointTranslateW vec` is `onCartesian true (translatePt vec)`, so the far boundary
  section is the Cartesian translate (`Lemmas/AffineShapes.lean`).
-/
import NurbsVerif.Lemmas.LayoutBoundaryVol
import NurbsVerif.Lemmas.LayoutSweep
import NurbsVerif.Lemmas.AffineMaps

namespace Geomdl
open Blossom Finset
set_option linter.unusedSectionVars false
variable {K : Type} [Field K] [LinearOrder K] [IsStrictOrderedRing K]

/-- from "every coordinate" to "the list", for statements of the form "the `i`-th member `C` of a family satisfies …" -/
theorem exists_list_of_coord {β : Type} (L : List β) (i : ℕ) (lhs : List K) (rhs : β → List K) (d : ℕ)
    (hl : lhs.length = d) (hr : ∀ C ∈ L, (rhs C).length = d)
    (h : ∀ j, ∃ C, L[i]? = some C ∧ lhs.getD j 0 = (rhs C).getD j 0) :
    ∃ C, L[i]? = some C ∧ lhs = rhs C := by
  obtain ⟨C, hC, _⟩ := h 0
  refine ⟨C, hC, list_eq_of_getD_lt d hl (hr C (List.mem_of_getElem? hC)) (fun j _ => ?_)⟩
  obtain ⟨C', hC', e⟩ := h j
  rw [hC] at hC'
  cases hC'
  exact e

/-! ### weight of the evaluated homogeneous point (positive weights, closed domain) -/

theorem curvePoint_weight_pos (p : ℕ) (U : ℕ → K) (Pw : List (List K)) (u : K) (d : ℕ)
    (hU : KnotsOk p U Pw.length) (hP : NetOk (d+1) Pw) (h1 : U p ≤ u) (h2 : u ≤ U Pw.length)
    (hwt : ∀ i, i < Pw.length → 0 < (ptsGet Pw i).getD d 0) : 0 < (curvePoint p U Pw u).getD d 0 := by
  obtain ⟨hs, hp, hk⟩ := findSpanLinear_dom hU u h1 h2
  exact curvePointAt_weight_pos p U Pw _ u d hs hp hk hP hwt

theorem surfacePoint_weight_pos (pu pv : ℕ) (Uu Uv : ℕ → K) (su sv : ℕ) (Pw : List (List K)) (u v : K) (d : ℕ)
    (hUu : KnotsOk pu Uu su) (hUv : KnotsOk pv Uv sv) (hlen : Pw.length = su * sv) (hP : NetOk (d+1) Pw)
    (hu1 : Uu pu ≤ u) (hu2 : u ≤ Uu su) (hv1 : Uv pv ≤ v) (hv2 : v ≤ Uv sv)
    (hwt : ∀ i, i < Pw.length → 0 < (ptsGet Pw i).getD d 0) :
    0 < (surfacePoint pu pv Uu Uv su sv Pw u v).getD d 0 := by
  obtain ⟨hsu, hpu, hku⟩ := findSpanLinear_dom hUu u hu1 hu2
  obtain ⟨hsv, hpv, hkv⟩ := findSpanLinear_dom hUv v hv1 hv2
  have hidx : ∀ a b, a < su → b < sv → b + sv * a < Pw.length := by
    intro a b ha hb
    rw [hlen]; exact flatIdx2_lt ha hb
  exact (surfacePointAt_rational_in_hull pu pv Uu Uv su sv Pw _ _ u v d hsu hsv hpu hpv hku hkv hlen hP
    (fun a b ha hb => hwt _ (hidx _ _ (by omega) (by omega))) (fun _ => 0) 0 0
    (fun a b _ _ => by simp) (fun a b _ _ => by simp)).1

theorem volumePoint_weight_pos (pu pv pw : ℕ) (Uu Uv Uw : ℕ → K) (su sv sw : ℕ) (Pw : List (List K))
    (u v w : K) (d : ℕ) (hUu : KnotsOk pu Uu su) (hUv : KnotsOk pv Uv sv) (hUw : KnotsOk pw Uw sw)
    (hlen : Pw.length = su * sv * sw) (hP : NetOk (d+1) Pw)
    (hu1 : Uu pu ≤ u) (hu2 : u ≤ Uu su) (hv1 : Uv pv ≤ v) (hv2 : v ≤ Uv sv) (hw1 : Uw pw ≤ w) (hw2 : w ≤ Uw sw)
    (hwt : ∀ i, i < Pw.length → 0 < (ptsGet Pw i).getD d 0) :
    0 < (volumePoint pu pv pw Uu Uv Uw su sv sw Pw u v w).getD d 0 := by
  obtain ⟨hsu, hpu, hku⟩ := findSpanLinear_dom hUu u hu1 hu2
  obtain ⟨hsv, hpv, hkv⟩ := findSpanLinear_dom hUv v hv1 hv2
  obtain ⟨hsw, hpw, hkw⟩ := findSpanLinear_dom hUw w hw1 hw2
  have hidx : ∀ a b c, a < su → b < sv → c < sw → b + sv * (a + su * c) < Pw.length := by
    intro a b c ha hb hc
    rw [hlen]; exact flatIdx3_lt ha hb hc
  exact (volumePointAt_rational_in_hull pu pv pw Uu Uv Uw su sv sw Pw _ _ _ u v w d hsu hsv hsw hpu hpv hpw hku hkv hkw
    hlen hP (fun a b c ha hb hc => hwt _ (hidx _ _ _ (by omega) (by omega) (by omega))) (fun _ => 0) 0 0
    (fun a b c _ _ _ => by simp) (fun a b c _ _ _ => by simp)).1

/-- the two ends of a clamped-or-not domain are in the closed domain -/
theorem knotsOk_end_mem {p n : ℕ} {U : ℕ → K} (h : KnotsOk p U n) (e : Bool) :
    U p ≤ (if e then U n else U p) ∧ (if e then U n else U p) ≤ U n := by
  have hle : U p ≤ U n := h.mono (by have := h.pn; omega)
  cases e <;> simp [hle]

/-! ### members of the extracted families -/

section surface
variable (S : Srf (List K) (ℕ → K)) (d : ℕ)

theorem extractCurvesV_mem (h : S.WF) (hd : NetOk d S.pts) :
    ∀ C ∈ extractCurvesV S, C.deg = S.dv ∧ C.kv = S.kv ∧ C.pts.length = S.sv ∧ NetOk d C.pts := by
  intro C hC
  rw [extractCurvesV_eq] at hC
  simp only [List.mem_map, List.mem_range] at hC
  obtain ⟨i, hi, rfl⟩ := hC
  exact ⟨rfl, rfl, by simp [rowOf], rowOf_netOk S.su S.sv d S.pts hd h.1 i hi⟩

theorem extractCurvesU_mem (h : S.WF) (hd : NetOk d S.pts) :
    ∀ C ∈ extractCurvesU S, C.deg = S.du ∧ C.kv = S.ku ∧ C.pts.length = S.su ∧ NetOk d C.pts := by
  intro C hC
  rw [extractCurvesU_eq] at hC
  simp only [List.mem_map, List.mem_range] at hC
  obtain ⟨i, hi, rfl⟩ := hC
  exact ⟨rfl, rfl, by simp [colOf], colOf_netOk S.su S.sv d S.pts hd h.1 i hi⟩

/-- boundary iso-curve in `u`, as an equality of evaluated (homogeneous) points -/
theorem surfacePoint_boundary_u_list (h : S.WF) (hd : NetOk d S.pts) (hUu : KnotsOk S.du S.ku S.su)
    (hcu : ClampedOk S.du S.ku S.su) (hdv : S.dv + 1 ≤ S.sv) (e : Bool) (v : K) :
    ∃ C, (extractCurvesV S)[if e then S.su - 1 else 0]? = some C ∧
      surfacePoint S.du S.dv S.ku S.kv S.su S.sv S.pts (if e then S.ku S.su else S.ku S.du) v
        = curvePoint C.deg C.kv C.pts v := by
  apply exists_list_of_coord _ _ _ (fun C : Crv (List K) (ℕ → K) => curvePoint C.deg C.kv C.pts v) d
    (surfacePoint_length _ _ _ _ _ _ _ _ _ d hUu.pn hdv h.1 hd)
  · intro C hC
    obtain ⟨h1, _, h3, h4⟩ := extractCurvesV_mem S d h hd C hC
    exact curvePoint_length _ _ _ v d (by rw [h1, h3]; exact hdv) h4
  · intro j
    exact surfacePoint_boundary_u S d h hd hUu hcu hdv e v j

/-- boundary iso-curve in `v`, as an equality of evaluated (homogeneous) points -/
theorem surfacePoint_boundary_v_list (h : S.WF) (hd : NetOk d S.pts) (hUv : KnotsOk S.dv S.kv S.sv)
    (hcv : ClampedOk S.dv S.kv S.sv) (hdu : S.du + 1 ≤ S.su) (e : Bool) (u : K) :
    ∃ C, (extractCurvesU S)[if e then S.sv - 1 else 0]? = some C ∧
      surfacePoint S.du S.dv S.ku S.kv S.su S.sv S.pts u (if e then S.kv S.sv else S.kv S.dv)
        = curvePoint C.deg C.kv C.pts u := by
  apply exists_list_of_coord _ _ _ (fun C : Crv (List K) (ℕ → K) => curvePoint C.deg C.kv C.pts u) d
    (surfacePoint_length _ _ _ _ _ _ _ _ _ d hdu hUv.pn h.1 hd)
  · intro C hC
    obtain ⟨h1, _, h3, h4⟩ := extractCurvesU_mem S d h hd C hC
    exact curvePoint_length _ _ _ u d (by rw [h1, h3]; exact hdu) h4
  · intro j
    exact surfacePoint_boundary_v S d h hd hUv hcv hdu e u j

/-- **rational surface, boundary in `u`** (homogeneous net of `d+1` coordinates, positive weights, `v` in the
    closed `v` domain): the weight divided by is positive and the projected surface point is the projected point
    of the first / last extracted `'v'` curve -/
theorem surfacePoint_boundary_u_rat (h : S.WF) (hd : NetOk (d+1) S.pts) (hUu : KnotsOk S.du S.ku S.su)
    (hcu : ClampedOk S.du S.ku S.su) (hUv : KnotsOk S.dv S.kv S.sv)
    (hwt : ∀ i, i < S.pts.length → 0 < (ptsGet S.pts i).getD d 0) (e : Bool) (v : K)
    (hv1 : S.kv S.dv ≤ v) (hv2 : v ≤ S.kv S.sv) :
    ∃ C, (extractCurvesV S)[if e then S.su - 1 else 0]? = some C ∧
      0 < (curvePoint C.deg C.kv C.pts v).getD d 0 ∧
      project (surfacePoint S.du S.dv S.ku S.kv S.su S.sv S.pts (if e then S.ku S.su else S.ku S.du) v)
        = project (curvePoint C.deg C.kv C.pts v) := by
  obtain ⟨C, hC, heq⟩ := surfacePoint_boundary_u_list S (d+1) h hd hUu hcu hUv.pn e v
  have hpos := surfacePoint_weight_pos S.du S.dv S.ku S.kv S.su S.sv S.pts (if e then S.ku S.su else S.ku S.du) v d
    hUu hUv h.1 hd (knotsOk_end_mem hUu e).1 (knotsOk_end_mem hUu e).2 hv1 hv2 hwt
  exact ⟨C, hC, by rw [← heq]; exact hpos, by rw [heq]⟩

/-- **rational surface, boundary in `v`** -/
theorem surfacePoint_boundary_v_rat (h : S.WF) (hd : NetOk (d+1) S.pts) (hUv : KnotsOk S.dv S.kv S.sv)
    (hcv : ClampedOk S.dv S.kv S.sv) (hUu : KnotsOk S.du S.ku S.su)
    (hwt : ∀ i, i < S.pts.length → 0 < (ptsGet S.pts i).getD d 0) (e : Bool) (u : K)
    (hu1 : S.ku S.du ≤ u) (hu2 : u ≤ S.ku S.su) :
    ∃ C, (extractCurvesU S)[if e then S.sv - 1 else 0]? = some C ∧
      0 < (curvePoint C.deg C.kv C.pts u).getD d 0 ∧
      project (surfacePoint S.du S.dv S.ku S.kv S.su S.sv S.pts u (if e then S.kv S.sv else S.kv S.dv))
        = project (curvePoint C.deg C.kv C.pts u) := by
  obtain ⟨C, hC, heq⟩ := surfacePoint_boundary_v_list S (d+1) h hd hUv hcv hUu.pn e u
  have hpos := surfacePoint_weight_pos S.du S.dv S.ku S.kv S.su S.sv S.pts u (if e then S.kv S.sv else S.kv S.dv) d
    hUu hUv h.1 hd hu1 hu2 (knotsOk_end_mem hUv e).1 (knotsOk_end_mem hUv e).2 hwt
  exact ⟨C, hC, by rw [← heq]; exact hpos, by rw [heq]⟩

end surface

section volume
variable (V : Vol (List K) (ℕ → K)) (d : ℕ)

theorem extractSurfacesUV_mem (h : V.WF) (hd : NetOk d V.pts) :
    ∀ S ∈ extractSurfacesUV V, S.du = V.du ∧ S.dv = V.dv ∧ S.su = V.su ∧ S.sv = V.sv ∧
      S.pts.length = S.su * S.sv ∧ NetOk d S.pts := by
  intro S hS
  rw [extractSurfacesUV_eq V (by have := h.2.1; omega)] at hS
  simp only [List.mem_map, List.mem_range] at hS
  obtain ⟨i, hi, rfl⟩ := hS
  exact ⟨rfl, rfl, rfl, rfl, length_tab2 _ _ _,
    tab2_netOk d _ _ _ (fun a b ha hb => vol_pt_length V d h hd a b i ha hb hi)⟩

theorem extractSurfacesUW_mem (h : V.WF) (hd : NetOk d V.pts) :
    ∀ S ∈ extractSurfacesUW V, S.du = V.du ∧ S.dv = V.dw ∧ S.su = V.su ∧ S.sv = V.sw ∧
      S.pts.length = S.su * S.sv ∧ NetOk d S.pts := by
  intro S hS
  rw [extractSurfacesUW_eq V (by have := h.2.1; omega)] at hS
  simp only [List.mem_map, List.mem_range] at hS
  obtain ⟨i, hi, rfl⟩ := hS
  exact ⟨rfl, rfl, rfl, rfl, length_tab2 _ _ _,
    tab2_netOk d _ _ _ (fun a c ha hc => vol_pt_length V d h hd a i c ha hi hc)⟩

theorem extractSurfacesVW_mem (h : V.WF) (hd : NetOk d V.pts) :
    ∀ S ∈ extractSurfacesVW V, S.du = V.dv ∧ S.dv = V.dw ∧ S.su = V.sv ∧ S.sv = V.sw ∧
      S.pts.length = S.su * S.sv ∧ NetOk d S.pts := by
  intro S hS
  rw [extractSurfacesVW_eq V (by have := h.2.2.1; omega)] at hS
  simp only [List.mem_map, List.mem_range] at hS
  obtain ⟨i, hi, rfl⟩ := hS
  exact ⟨rfl, rfl, rfl, rfl, length_tab2 _ _ _,
    tab2_netOk d _ _ _ (fun b c hb hc => vol_pt_length V d h hd i b c hi hb hc)⟩

theorem member_surfacePoint_length (S : Srf (List K) (ℕ → K)) (a b : K) (du dv su sv : ℕ)
    (hm : S.du = du ∧ S.dv = dv ∧ S.su = su ∧ S.sv = sv ∧ S.pts.length = S.su * S.sv ∧ NetOk d S.pts)
    (hdu : du + 1 ≤ su) (hdv : dv + 1 ≤ sv) :
    (surfacePoint S.du S.dv S.ku S.kv S.su S.sv S.pts a b).length = d := by
  obtain ⟨h1, h2, h3, h4, h5, h6⟩ := hm
  exact surfacePoint_length _ _ _ _ _ _ _ a b d (by rw [h1, h3]; exact hdu) (by rw [h2, h4]; exact hdv) h5 h6

/-- boundary iso-surface in `w`, as an equality of evaluated points -/
theorem volumePoint_boundary_w_list (h : V.WF) (hd : NetOk d V.pts) (hdu : V.du + 1 ≤ V.su) (hdv : V.dv + 1 ≤ V.sv)
    (hUw : KnotsOk V.dw V.kw V.sw) (hcw : ClampedOk V.dw V.kw V.sw) (e : Bool) (u v : K) :
    ∃ S, (extractSurfacesUV V)[if e then V.sw - 1 else 0]? = some S ∧
      volumePoint V.du V.dv V.dw V.ku V.kv V.kw V.su V.sv V.sw V.pts u v (if e then V.kw V.sw else V.kw V.dw)
        = surfacePoint S.du S.dv S.ku S.kv S.su S.sv S.pts u v := by
  apply exists_list_of_coord _ _ _
    (fun S : Srf (List K) (ℕ → K) => surfacePoint S.du S.dv S.ku S.kv S.su S.sv S.pts u v) d
    (volumePoint_length _ _ _ _ _ _ _ _ _ _ _ _ _ d hdu hdv hUw.pn h.1 hd)
  · intro S hS
    exact member_surfacePoint_length d S u v _ _ _ _ (extractSurfacesUV_mem V d h hd S hS) hdu hdv
  · intro j
    exact volumePoint_boundary_w V d h hd hdu hdv hUw hcw e u v j

/-- boundary iso-surface in `v`, as an equality of evaluated points -/
theorem volumePoint_boundary_v_list (h : V.WF) (hd : NetOk d V.pts) (hdu : V.du + 1 ≤ V.su) (hdw : V.dw + 1 ≤ V.sw)
    (hUv : KnotsOk V.dv V.kv V.sv) (hcv : ClampedOk V.dv V.kv V.sv) (e : Bool) (u w : K) :
    ∃ S, (extractSurfacesUW V)[if e then V.sv - 1 else 0]? = some S ∧
      volumePoint V.du V.dv V.dw V.ku V.kv V.kw V.su V.sv V.sw V.pts u (if e then V.kv V.sv else V.kv V.dv) w
        = surfacePoint S.du S.dv S.ku S.kv S.su S.sv S.pts u w := by
  apply exists_list_of_coord _ _ _
    (fun S : Srf (List K) (ℕ → K) => surfacePoint S.du S.dv S.ku S.kv S.su S.sv S.pts u w) d
    (volumePoint_length _ _ _ _ _ _ _ _ _ _ _ _ _ d hdu hUv.pn hdw h.1 hd)
  · intro S hS
    exact member_surfacePoint_length d S u w _ _ _ _ (extractSurfacesUW_mem V d h hd S hS) hdu hdw
  · intro j
    exact volumePoint_boundary_v V d h hd hdu hdw hUv hcv e u w j

/-- boundary iso-surface in `u`, as an equality of evaluated points -/
theorem volumePoint_boundary_u_list (h : V.WF) (hd : NetOk d V.pts) (hdv : V.dv + 1 ≤ V.sv) (hdw : V.dw + 1 ≤ V.sw)
    (hUu : KnotsOk V.du V.ku V.su) (hcu : ClampedOk V.du V.ku V.su) (e : Bool) (v w : K) :
    ∃ S, (extractSurfacesVW V)[if e then V.su - 1 else 0]? = some S ∧
      volumePoint V.du V.dv V.dw V.ku V.kv V.kw V.su V.sv V.sw V.pts (if e then V.ku V.su else V.ku V.du) v w
        = surfacePoint S.du S.dv S.ku S.kv S.su S.sv S.pts v w := by
  apply exists_list_of_coord _ _ _
    (fun S : Srf (List K) (ℕ → K) => surfacePoint S.du S.dv S.ku S.kv S.su S.sv S.pts v w) d
    (volumePoint_length _ _ _ _ _ _ _ _ _ _ _ _ _ d hUu.pn hdv hdw h.1 hd)
  · intro S hS
    exact member_surfacePoint_length d S v w _ _ _ _ (extractSurfacesVW_mem V d h hd S hS) hdv hdw
  · intro j
    exact volumePoint_boundary_u V d h hd hdv hdw hUu hcu e v w j

/-- **rational volume, all three boundary directions** (homogeneous net of `d+1` coordinates, positive weights,
    the two free parameters in their closed domains): positive weight, equal projected points -/
theorem volumePoint_boundary_rat (h : V.WF) (hd : NetOk (d+1) V.pts)
    (hUu : KnotsOk V.du V.ku V.su) (hUv : KnotsOk V.dv V.kv V.sv) (hUw : KnotsOk V.dw V.kw V.sw)
    (hwt : ∀ i, i < V.pts.length → 0 < (ptsGet V.pts i).getD d 0) (e : Bool) (a b : K) :
    (ClampedOk V.dw V.kw V.sw → V.ku V.du ≤ a → a ≤ V.ku V.su → V.kv V.dv ≤ b → b ≤ V.kv V.sv →
      ∃ S, (extractSurfacesUV V)[if e then V.sw - 1 else 0]? = some S ∧
        0 < (surfacePoint S.du S.dv S.ku S.kv S.su S.sv S.pts a b).getD d 0 ∧
        project (volumePoint V.du V.dv V.dw V.ku V.kv V.kw V.su V.sv V.sw V.pts a b (if e then V.kw V.sw else V.kw V.dw))
          = project (surfacePoint S.du S.dv S.ku S.kv S.su S.sv S.pts a b)) ∧
    (ClampedOk V.dv V.kv V.sv → V.ku V.du ≤ a → a ≤ V.ku V.su → V.kw V.dw ≤ b → b ≤ V.kw V.sw →
      ∃ S, (extractSurfacesUW V)[if e then V.sv - 1 else 0]? = some S ∧
        0 < (surfacePoint S.du S.dv S.ku S.kv S.su S.sv S.pts a b).getD d 0 ∧
        project (volumePoint V.du V.dv V.dw V.ku V.kv V.kw V.su V.sv V.sw V.pts a (if e then V.kv V.sv else V.kv V.dv) b)
          = project (surfacePoint S.du S.dv S.ku S.kv S.su S.sv S.pts a b)) ∧
    (ClampedOk V.du V.ku V.su → V.kv V.dv ≤ a → a ≤ V.kv V.sv → V.kw V.dw ≤ b → b ≤ V.kw V.sw →
      ∃ S, (extractSurfacesVW V)[if e then V.su - 1 else 0]? = some S ∧
        0 < (surfacePoint S.du S.dv S.ku S.kv S.su S.sv S.pts a b).getD d 0 ∧
        project (volumePoint V.du V.dv V.dw V.ku V.kv V.kw V.su V.sv V.sw V.pts (if e then V.ku V.su else V.ku V.du) a b)
          = project (surfacePoint S.du S.dv S.ku S.kv S.su S.sv S.pts a b)) := by
  refine ⟨?_, ?_, ?_⟩
  · intro hc ha1 ha2 hb1 hb2
    obtain ⟨S, hS, heq⟩ := volumePoint_boundary_w_list V (d+1) h hd hUu.pn hUv.pn hUw hc e a b
    have hpos := volumePoint_weight_pos V.du V.dv V.dw V.ku V.kv V.kw V.su V.sv V.sw V.pts a b
      (if e then V.kw V.sw else V.kw V.dw) d hUu hUv hUw h.1 hd ha1 ha2 hb1 hb2
      (knotsOk_end_mem hUw e).1 (knotsOk_end_mem hUw e).2 hwt
    exact ⟨S, hS, by rw [← heq]; exact hpos, by rw [heq]⟩
  · intro hc ha1 ha2 hb1 hb2
    obtain ⟨S, hS, heq⟩ := volumePoint_boundary_v_list V (d+1) h hd hUu.pn hUw.pn hUv hc e a b
    have hpos := volumePoint_weight_pos V.du V.dv V.dw V.ku V.kv V.kw V.su V.sv V.sw V.pts a
      (if e then V.kv V.sv else V.kv V.dv) b d hUu hUv hUw h.1 hd ha1 ha2
      (knotsOk_end_mem hUv e).1 (knotsOk_end_mem hUv e).2 hb1 hb2 hwt
    exact ⟨S, hS, by rw [← heq]; exact hpos, by rw [heq]⟩
  · intro hc ha1 ha2 hb1 hb2
    obtain ⟨S, hS, heq⟩ := volumePoint_boundary_u_list V (d+1) h hd hUv.pn hUw.pn hUu hc e a b
    have hpos := volumePoint_weight_pos V.du V.dv V.dw V.ku V.kv V.kw V.su V.sv V.sw V.pts
      (if e then V.ku V.su else V.ku V.du) a b d hUu hUv hUw h.1 hd
      (knotsOk_end_mem hUu e).1 (knotsOk_end_mem hUu e).2 ha1 ha2 hb1 hb2 hwt
    exact ⟨S, hS, by rw [← heq]; exact hpos, by rw [heq]⟩

end volume

end Geomdl
