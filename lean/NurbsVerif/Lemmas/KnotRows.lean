import NurbsVerif.Model.KnotRows
import NurbsVerif.Lemmas.RemoveInvVol

/-! List-of-rows branches of the knot helpers, part 1: the iso-curve (column) of a list of rows, and
    `knotInsertionRows`: every iso-curve of the result is `knotInsertion` of that iso-curve. -/
namespace Geomdl
namespace Rows
variable {K : Type} [Field K] [LinearOrder K] [IsStrictOrderedRing K]

/-! ### columns -/

theorem ptsGet_nil (c : ℕ) : ptsGet ([] : List (List K)) c = [] := rfl

theorem ptsGet_isoCol (c : ℕ) (R : List (List (List K))) (i : ℕ) :
    ptsGet (isoCol c R) i = ptsGet (rowGet R i) c := by
  simp only [ptsGet, isoCol, rowGet, List.getD_eq_getElem?_getD, List.getElem?_map]
  cases R[i]? <;> simp

theorem isoCol_length (c : ℕ) (R : List (List (List K))) : (isoCol c R).length = R.length := by
  simp [isoCol]

theorem isoCol_map_range (c n : ℕ) (g : ℕ → List (List K)) :
    isoCol c ((List.range n).map g) = (List.range n).map (fun i => ptsGet (g i) c) := by
  simp [isoCol, List.map_map, Function.comp_def]

theorem isoCol_set (c : ℕ) (R : List (List (List K))) (i : ℕ) (row : List (List K)) :
    isoCol c (R.set i row) = (isoCol c R).set i (ptsGet row c) := by
  simp [isoCol, List.map_set]

theorem isoCol_take (c n : ℕ) (R : List (List (List K))) : isoCol c (R.take n) = (isoCol c R).take n := by
  simp [isoCol, List.map_take]

theorem isoCol_drop (c n : ℕ) (R : List (List (List K))) : isoCol c (R.drop n) = (isoCol c R).drop n := by
  simp [isoCol, List.map_drop]

theorem isoCol_append (c : ℕ) (A B : List (List (List K))) : isoCol c (A ++ B) = isoCol c A ++ isoCol c B := by
  simp [isoCol]

theorem isoCol_replicate (c n : ℕ) (row : List (List K)) :
    isoCol c (List.replicate n row) = List.replicate n (ptsGet row c) := by
  simp [isoCol]

/-- column `c` of a row built by `for idx in range(m): row[idx] = g idx` -/
theorem ptsGet_map_range_lt (m c : ℕ) (g : ℕ → List K) (h : c < m) :
    ptsGet ((List.range m).map g) c = g c := RemInv.ptsGet_map_range g m c h

theorem ptsGet_rowZip (f : K → K → K) (a b : List (List K)) (c : ℕ) :
    ptsGet (rowZip f a b) c = List.zipWith f (ptsGet a c) (ptsGet b c) := by
  unfold rowZip
  by_cases h : c < a.length
  · rw [ptsGet_map_range_lt _ _ _ h]
  · have h1 : ptsGet ((List.range a.length).map
        (fun idx => List.zipWith f (ptsGet a idx) (ptsGet b idx))) c = [] := by
      unfold ptsGet
      rw [List.getD_eq_getElem?_getD, List.getElem?_eq_none (by simp; omega)]; rfl
    have h2 : ptsGet a c = [] := by
      unfold ptsGet
      rw [List.getD_eq_getElem?_getD, List.getElem?_eq_none (by omega)]; rfl
    rw [h1, h2]; rfl

theorem ptsGet_replicate_nil (w c : ℕ) : ptsGet (List.replicate w ([] : List K)) c = [] := by
  unfold ptsGet
  rw [List.getD_eq_getElem?_getD]
  by_cases h : c < w
  · rw [List.getElem?_replicate, if_pos h]; rfl
  · rw [List.getElem?_eq_none (by simp; omega)]; rfl

/-! ### insertion -/

theorem isoCol_insTempInitRows (c : ℕ) (R : List (List (List K))) (k p s : ℕ) :
    isoCol c (insTempInitRows R k p s) = insTempInit (isoCol c R) k p s := by
  unfold insTempInitRows insTempInit
  rw [isoCol_map_range]
  apply List.map_congr_left
  intro i _
  rw [ptsGet_isoCol]

theorem isoCol_insTempStepRows (c : ℕ) (U : ℕ → K) (u : K) (k p s j : ℕ) (temp : List (List (List K))) :
    isoCol c (insTempStepRows U u k p s j temp) = insTempStep U u k p s j (isoCol c temp) := by
  unfold insTempStepRows insTempStep
  rw [isoCol_append, isoCol_map_range, isoCol_drop]
  congr 1
  apply List.map_congr_left
  intro i _
  simp only []
  rw [ptsGet_rowZip, ptsGet_isoCol, ptsGet_isoCol]

theorem isoCol_insTempAtRows (c : ℕ) (U : ℕ → K) (u : K) (R : List (List (List K))) (k p s : ℕ) :
    ∀ j, isoCol c (insTempAtRows U u R k p s j) = insTempAt U u (isoCol c R) k p s j
  | 0 => isoCol_insTempInitRows c R k p s
  | j+1 => by
    show isoCol c (insTempStepRows U u k p s (j+1) (insTempAtRows U u R k p s j)) = _
    rw [isoCol_insTempStepRows, isoCol_insTempAtRows c U u R k p s j]
    rfl

/-- **every iso-curve of the rows branch of A5.1 is A5.1 of that iso-curve** (no hypothesis) -/
theorem isoCol_knotInsertionRows (c p : ℕ) (U : ℕ → K) (R : List (List (List K))) (u : K) (r s k : ℕ) :
    isoCol c (knotInsertionRows p U R u r s k) = knotInsertion p U (isoCol c R) u r s k := by
  unfold knotInsertionRows knotInsertion
  rw [isoCol_map_range, isoCol_length]
  apply List.map_congr_left
  intro i _
  simp only [apply_ite (fun row => ptsGet row c), ← ptsGet_isoCol, isoCol_insTempAtRows]

theorem knotInsertionRows_length (p : ℕ) (U : ℕ → K) (R : List (List (List K))) (u : K) (r s k : ℕ) :
    (knotInsertionRows p U R u r s k).length = R.length + r := by
  simp [knotInsertionRows]

end Rows
end Geomdl
