import NurbsVerif.Lemmas.SplitDecompAll

/-! `operations.decompose_curve`: the induction over the pieces. -/
set_option linter.unusedSectionVars false
namespace Geomdl
open Blossom
variable {K : Type} [Field K] [LinearOrder K] [IsStrictOrderedRing K]

/-- what is proved of the list of pieces `decomposeDir` returns for the curve `(U, P)` -/
def DecompResult (rat : Bool) (p d : ℕ) (tol : K) (fuel : ℕ) (U : List K) (P : List (List K)) : Prop :=
  ∃ pieces : List (List K × List (List K)),
    decomposeDir 0 tol fuel (curveShape rat p U P) = pieces.map (fun q => curveShape rat p q.1 q.2) ∧
    pieces.length = (spanStarts p (fnOf U) P.length).length ∧
    ((p + 1 < P.length ∨ (fnOf U p = 0 ∧ fnOf U P.length = 1)) → ∀ q ∈ pieces, q.1 = bezKv p) ∧
    ∀ i, i < pieces.length →
      BezPiece p d (curveFn p U P) ((breaks p (fnOf U) P.length).getD i 0)
        ((breaks p (fnOf U) P.length).getD (i + 1) 0) (pieces.getD i ([], []))

/-- one decomposition step: the result for the remainder gives the result for the curve -/
theorem decompose_step_case (rat : Bool) (p d : ℕ) (tol : K) (fuel : ℕ) (U : List K) (P : List (List K))
    (h : DecompWF p d U P tol) (hn : p + 1 < P.length)
    (ih : DecompResult rat p d tol fuel
      (knotNormalize (rightKv p (splitRefined p U P (fnOf U (p + 1)) tol).1 (fnOf U (p + 1))
        (findSpanLinear p (fnOf U) P.length (fnOf U (p + 1)) + (p - findMultiplicity (fnOf U (p + 1)) U tol))))
      ((splitRefined p U P (fnOf U (p + 1)) tol).2.drop
        (findSpanLinear p (fnOf U) P.length (fnOf U (p + 1)) + (p - findMultiplicity (fnOf U (p + 1)) U tol) - p))) :
    DecompResult rat p d tol (fuel + 1) U P := by
  obtain ⟨hlo, hhi, hmx, hks, hs1⟩ := decomp_facts p d U P tol h hn
  have hcut := splitRefined_cut p d U P (fnOf U (p + 1)) tol h.cl.wf h.cl.hp h.cl.c0 h.cl.c1 hlo hhi hmx
  have heq := splitDir_curve_eq rat p d U P (fnOf U (p + 1)) tol h.cl.wf h.cl.hp h.cl.c0 h.cl.c1 hlo hhi hmx
  obtain ⟨cA, cB⟩ := split_pieces_explicit p d U P (fnOf U (p + 1)) tol h.cl hlo hhi hmx
  obtain ⟨hszA, hszB⟩ := step_sizes p d U P tol h hn
  obtain ⟨hstarts, hbreaks⟩ := step_starts p d U P tol h hn
  have hwfB := remainder_wf p d U P tol h hn
  obtain ⟨lA, zA, oA⟩ := hcut.leftClamped
  obtain ⟨lB, zB, oB⟩ := hcut.rightClamped
  have hsp := hmx.le
  obtain ⟨piecesB, hdec, hlenB, hbezB, hpB⟩ := ih
  set ub := fnOf U (p + 1) with hub
  set k := findSpanLinear p (fnOf U) P.length ub with hk
  set s := findMultiplicity ub U tol with hs
  set st := splitRefined p U P ub tol with hst
  set UA := knotNormalize (leftKv st.1 ub (k + (p - s))) with hUA
  set PA := st.2.take (k + (p - s) - p + 1) with hPA
  set UB := knotNormalize (rightKv p st.1 ub (k + (p - s))) with hUB
  set PB := st.2.drop (k + (p - s) - p) with hPB
  have hkvA : UA = bezKv p := by
    apply kv_eq_bez p UA (by have := lA.wf.len; omega) zA
    intro i hi
    exact oA i (by omega)
  have hnB : PB.length = st.2.length - (k + (p - s) - p) := by simp [hPB]
  have hB0 : fnOf UB p = 0 := zB p (le_refl _)
  have hB1 : fnOf UB PB.length = 1 := oB _ (by rw [hnB])
  refine ⟨(UA, PA) :: piecesB, ?_, ?_, ?_, ?_⟩
  · rw [decomposeDir_step rat p U P tol fuel h.cl.wf.len hn _ _ heq, hdec]; rfl
  · rw [hstarts]; simp [hlenB]
  · intro _ q hq
    rcases List.mem_cons.mp hq with e | hq'
    · rw [e]; exact hkvA
    · exact hbezB (Or.inr ⟨hB0, hB1⟩) q hq'
  · intro i hi
    rw [hbreaks]
    have hfirstB : (breaks p (fnOf UB) PB.length).getD 0 0 = 0 := by
      rw [breaks_head p PB.length (fnOf UB) 0 (by have := hwfB.cl.wf.pn; omega) hwfB.first, hB0]
    cases i with
    | zero =>
      simp only [List.getD_cons_zero, List.getD_cons_succ]
      rw [getD_map_lt _ _ 0 0 0 (by rw [breaks_length]; omega), hfirstB]
      refine ⟨lA, hszA, ?_⟩
      intro t ht0 ht1 j
      show (curvePoint p (fnOf UA) PA (fnOf UA p + t * (fnOf UA (p + 1) - fnOf UA p))).getD j 0 = _
      rw [zA p (le_refl _), oA (p + 1) (by omega)]
      have e1 : (0 : K) + t * (1 - 0) = t := by ring
      rw [e1, cA t ht0 ht1 j]
      unfold curveFn
      congr 2
      ring
    | succ i' =>
      simp only [List.length_cons] at hi
      have hi' : i' < piecesB.length := by omega
      simp only [List.getD_cons_succ]
      have hbl : (breaks p (fnOf UB) PB.length).length = piecesB.length + 1 := by
        rw [breaks_length, hlenB]
      rw [getD_map_lt _ _ i' 0 0 (by omega), getD_map_lt _ _ (i' + 1) 0 0 (by omega)]
      have ra := breaks_getD_range p PB.length (fnOf UB) hwfB.cl.wf.mono (by have := hwfB.cl.wf.pn; omega) 0 i' (by omega)
      have rb := breaks_getD_range p PB.length (fnOf UB) hwfB.cl.wf.mono (by have := hwfB.cl.wf.pn; omega) 0 (i' + 1) (by omega)
      rw [hB0, hB1] at ra rb
      exact bezPiece_lift p d (curveFn p U P) (curveFn p UB PB) ub (fnOf U P.length)
        (fun τ h0 h1 j => cB τ h0 h1 j) _ _ ra rb _ (hpB i' hi')

/-- **`decompose_curve` end to end**: with enough fuel (one less than the number of non-empty knot
    intervals suffices) the model returns exactly one piece per non-empty interval, in order, each a
    Bézier segment coinciding with the original on its interval -/
theorem decompose_curve_all (rat : Bool) (p d : ℕ) (tol : K) : ∀ (fuel : ℕ) (U : List K) (P : List (List K)),
    DecompWF p d U P tol → (spanStarts p (fnOf U) P.length).length ≤ fuel + 1 →
    DecompResult rat p d tol fuel U P := by
  intro fuel
  induction fuel with
  | zero =>
    intro U P h hf
    by_cases hn : p + 1 < P.length
    · exfalso
      obtain ⟨hstarts, _⟩ := step_starts p d U P tol h hn
      have hwfB := remainder_wf p d U P tol h hn
      have := spanStarts_pos p _ _ hwfB.cl.wf.pn hwfB.cl.wf.last
      rw [hstarts] at hf
      simp only [List.length_cons, List.length_map] at hf
      omega
    · exact decompose_bezier_case rat p d tol 0 U P h (by have := h.cl.wf.pn; omega)
  | succ fuel ih =>
    intro U P h hf
    by_cases hn : p + 1 < P.length
    · apply decompose_step_case rat p d tol fuel U P h hn
      apply ih _ _ (remainder_wf p d U P tol h hn)
      obtain ⟨hstarts, _⟩ := step_starts p d U P tol h hn
      rw [hstarts] at hf
      simp only [List.length_cons, List.length_map] at hf
      omega
    · exact decompose_bezier_case rat p d tol (fuel + 1) U P h (by have := h.cl.wf.pn; omega)

end Geomdl
