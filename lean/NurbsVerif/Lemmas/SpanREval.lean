import NurbsVerif.Lemmas.SpanR
import NurbsVerif.Lemmas.AssemblePoint

/-!
  Evaluation through the REPAIRED linear span search (`curvePointR`, `surfacePointR`, `volumePointR` = what
  `evaluate_single` runs after the F-01b repair): on the whole closed domain `[U p, U n]` of EVERY sorted knot function
  with a non-degenerate domain `U p < U n` (`DomOk`; the last span of the domain may be empty) the point is the
  Cox–de Boor (tensor) sum with the recursion of the span found (`cdbSpan`), that span is NOT EMPTY and contains the
  parameter; below the domain end it is the sum with `cdb` itself; rational: positive weight function and quotient
  of the sums.  Under `KnotsOk` (non-empty last span) the R evaluation IS the evaluation of `Model/Eval.lean`.
-/
set_option linter.unusedSectionVars false

namespace Geomdl
open Blossom Finset
variable {K : Type} [Field K] [LinearOrder K] [IsStrictOrderedRing K]

/-- a valid knot function for degree `p` and `n` control points, WITHOUT the non-empty-last-span condition of `KnotsOk`:
    non-decreasing, at least `p+1` control points, and the domain `[U p, U n]` is not a single point -/
structure DomOk (p : ℕ) (U : ℕ → K) (n : ℕ) : Prop where
  mono : Monotone U
  pn : p + 1 ≤ n
  dom : U p < U n

theorem KnotsOk.domOk {p : ℕ} {U : ℕ → K} {n : ℕ} (h : KnotsOk p U n) : DomOk p U n :=
  ⟨h.mono, h.pn, lt_of_le_of_lt (h.mono (by have := h.pn; omega)) h.last⟩

/-- the span found by the repaired search on the closed domain: `SpanOk` and legal index -/
theorem findSpanLinearR_ok {p : ℕ} {U : ℕ → K} {n : ℕ} (h : DomOk p U n) (u : K) (hlo : U p ≤ u) (hhi : u ≤ U n) :
    SpanOk U (findSpanLinearR p U n u) u ∧ p ≤ findSpanLinearR p U n u ∧ findSpanLinearR p U n u < n :=
  ⟨findSpanLinearR_spanOk p U n u h.pn h.mono h.dom hlo hhi, findSpanLinearR_bounds p U n u h.pn⟩

/-! ### every parameter: recursion of the span found -/

theorem curvePointR_eq_cdbSpan (p : ℕ) (U : ℕ → K) (P : List (List K)) (u : K) (d j : ℕ)
    (hpn : p + 1 ≤ P.length) (hP : NetOk d P) :
    (curvePointR p U P u).getD j 0
      = ∑ i ∈ range P.length, cdbSpan U (findSpanLinearR p U P.length u) p i u * (ptsGet P i).getD j 0 :=
  curvePointAt_eq_cdbSpan p U P _ u d j (findSpanLinearR_bounds p U _ u hpn).1 (findSpanLinearR_bounds p U _ u hpn).2 hP

theorem surfacePointR_eq_cdbSpan (pu pv : ℕ) (Uu Uv : ℕ → K) (su sv : ℕ) (P : List (List K)) (u v : K) (d j : ℕ)
    (hu : pu + 1 ≤ su) (hv : pv + 1 ≤ sv) (hlen : P.length = su * sv) (hP : NetOk d P) :
    (surfacePointR pu pv Uu Uv su sv P u v).getD j 0
      = ∑ a ∈ range su, ∑ b ∈ range sv,
          cdbSpan Uu (findSpanLinearR pu Uu su u) pu a u * cdbSpan Uv (findSpanLinearR pv Uv sv v) pv b v *
            (ptsGet P (b + sv * a)).getD j 0 :=
  surfacePointAt_eq_cdbSpan pu pv Uu Uv su sv P _ _ u v d j
    (findSpanLinearR_bounds pu Uu _ u hu).1 (findSpanLinearR_bounds pv Uv _ v hv).1
    (findSpanLinearR_bounds pu Uu _ u hu).2 (findSpanLinearR_bounds pv Uv _ v hv).2 hlen hP

theorem volumePointR_eq_cdbSpan (pu pv pw : ℕ) (Uu Uv Uw : ℕ → K) (su sv sw : ℕ) (P : List (List K)) (u v w : K) (d j : ℕ)
    (hu : pu + 1 ≤ su) (hv : pv + 1 ≤ sv) (hw : pw + 1 ≤ sw) (hlen : P.length = su * sv * sw) (hP : NetOk d P) :
    (volumePointR pu pv pw Uu Uv Uw su sv sw P u v w).getD j 0
      = ∑ a ∈ range su, ∑ b ∈ range sv, ∑ c ∈ range sw,
          cdbSpan Uu (findSpanLinearR pu Uu su u) pu a u * cdbSpan Uv (findSpanLinearR pv Uv sv v) pv b v *
            cdbSpan Uw (findSpanLinearR pw Uw sw w) pw c w * (ptsGet P (b + sv * (a + su * c))).getD j 0 :=
  volumePointAt_eq_cdbSpan pu pv pw Uu Uv Uw su sv sw P _ _ _ u v w d j
    (findSpanLinearR_bounds pu Uu _ u hu).1 (findSpanLinearR_bounds pv Uv _ v hv).1 (findSpanLinearR_bounds pw Uw _ w hw).1
    (findSpanLinearR_bounds pu Uu _ u hu).2 (findSpanLinearR_bounds pv Uv _ v hv).2 (findSpanLinearR_bounds pw Uw _ w hw).2
    hlen hP

/-! ### R evaluation = evaluation with the unrepaired search where that one finds a non-empty span -/

theorem curvePointR_eq_curvePoint_of_nonempty (p : ℕ) (U : ℕ → K) (P : List (List K)) (u : K) (hpn : p + 1 ≤ P.length)
    (hne : U (findSpanLinear p U P.length u) ≠ U (findSpanLinear p U P.length u + 1)) :
    curvePointR p U P u = curvePoint p U P u := by
  unfold curvePointR curvePoint
  rw [findSpanLinearR_eq_of_nonempty p U _ u hpn hne]

theorem curvePointR_eq_curvePoint (p : ℕ) (U : ℕ → K) (P : List (List K)) (u : K) (hU : KnotsOk p U P.length)
    (hlo : U p ≤ u) (hhi : u ≤ U P.length) : curvePointR p U P u = curvePoint p U P u := by
  unfold curvePointR curvePoint
  rw [findSpanLinearR_eq_of_knotsOk hU u hlo hhi]

theorem surfacePointR_eq_surfacePoint (pu pv : ℕ) (Uu Uv : ℕ → K) (su sv : ℕ) (P : List (List K)) (u v : K)
    (hUu : KnotsOk pu Uu su) (hUv : KnotsOk pv Uv sv)
    (hu1 : Uu pu ≤ u) (hu2 : u ≤ Uu su) (hv1 : Uv pv ≤ v) (hv2 : v ≤ Uv sv) :
    surfacePointR pu pv Uu Uv su sv P u v = surfacePoint pu pv Uu Uv su sv P u v := by
  unfold surfacePointR surfacePoint
  rw [findSpanLinearR_eq_of_knotsOk hUu u hu1 hu2, findSpanLinearR_eq_of_knotsOk hUv v hv1 hv2]

theorem volumePointR_eq_volumePoint (pu pv pw : ℕ) (Uu Uv Uw : ℕ → K) (su sv sw : ℕ) (P : List (List K)) (u v w : K)
    (hUu : KnotsOk pu Uu su) (hUv : KnotsOk pv Uv sv) (hUw : KnotsOk pw Uw sw)
    (hu1 : Uu pu ≤ u) (hu2 : u ≤ Uu su) (hv1 : Uv pv ≤ v) (hv2 : v ≤ Uv sv) (hw1 : Uw pw ≤ w) (hw2 : w ≤ Uw sw) :
    volumePointR pu pv pw Uu Uv Uw su sv sw P u v w = volumePoint pu pv pw Uu Uv Uw su sv sw P u v w := by
  unfold volumePointR volumePoint
  rw [findSpanLinearR_eq_of_knotsOk hUu u hu1 hu2, findSpanLinearR_eq_of_knotsOk hUv v hv1 hv2,
    findSpanLinearR_eq_of_knotsOk hUw w hw1 hw2]

/-! ### half-open domain: the Cox–de Boor functions themselves (any sorted knot function) -/

theorem curvePointR_eq_cdb (p : ℕ) (U : ℕ → K) (P : List (List K)) (u : K) (d j : ℕ)
    (hm : Monotone U) (hpn : p + 1 ≤ P.length) (hP : NetOk d P) (h1 : U p ≤ u) (h2 : u < U P.length) :
    (curvePointR p U P u).getD j 0 = ∑ i ∈ range P.length, cdb U p i u * (ptsGet P i).getD j 0 := by
  have e : curvePointR p U P u = curvePoint p U P u := by
    unfold curvePointR curvePoint
    rw [findSpanLinearR_eq_of_lt p U _ u hpn hm h1 h2]
  rw [e]
  exact curvePoint_eq_cdb p U P u d j hm hpn hP h1 h2

theorem surfacePointR_eq_cdb (pu pv : ℕ) (Uu Uv : ℕ → K) (su sv : ℕ) (P : List (List K)) (u v : K) (d j : ℕ)
    (hmu : Monotone Uu) (hmv : Monotone Uv) (hu : pu + 1 ≤ su) (hv : pv + 1 ≤ sv)
    (hlen : P.length = su * sv) (hP : NetOk d P)
    (hu1 : Uu pu ≤ u) (hu2 : u < Uu su) (hv1 : Uv pv ≤ v) (hv2 : v < Uv sv) :
    (surfacePointR pu pv Uu Uv su sv P u v).getD j 0
      = ∑ a ∈ range su, ∑ b ∈ range sv, cdb Uu pu a u * cdb Uv pv b v * (ptsGet P (b + sv * a)).getD j 0 := by
  have e : surfacePointR pu pv Uu Uv su sv P u v = surfacePoint pu pv Uu Uv su sv P u v := by
    unfold surfacePointR surfacePoint
    rw [findSpanLinearR_eq_of_lt pu Uu _ u hu hmu hu1 hu2, findSpanLinearR_eq_of_lt pv Uv _ v hv hmv hv1 hv2]
  rw [e]
  exact surfacePoint_eq_cdb pu pv Uu Uv su sv P u v d j hmu hmv hu hv hlen hP hu1 hu2 hv1 hv2

theorem volumePointR_eq_cdb (pu pv pw : ℕ) (Uu Uv Uw : ℕ → K) (su sv sw : ℕ) (P : List (List K)) (u v w : K) (d j : ℕ)
    (hmu : Monotone Uu) (hmv : Monotone Uv) (hmw : Monotone Uw)
    (hu : pu + 1 ≤ su) (hv : pv + 1 ≤ sv) (hw : pw + 1 ≤ sw) (hlen : P.length = su * sv * sw) (hP : NetOk d P)
    (hu1 : Uu pu ≤ u) (hu2 : u < Uu su) (hv1 : Uv pv ≤ v) (hv2 : v < Uv sv) (hw1 : Uw pw ≤ w) (hw2 : w < Uw sw) :
    (volumePointR pu pv pw Uu Uv Uw su sv sw P u v w).getD j 0
      = ∑ a ∈ range su, ∑ b ∈ range sv, ∑ c ∈ range sw,
          cdb Uu pu a u * cdb Uv pv b v * cdb Uw pw c w * (ptsGet P (b + sv * (a + su * c))).getD j 0 := by
  have e : volumePointR pu pv pw Uu Uv Uw su sv sw P u v w = volumePoint pu pv pw Uu Uv Uw su sv sw P u v w := by
    unfold volumePointR volumePoint
    rw [findSpanLinearR_eq_of_lt pu Uu _ u hu hmu hu1 hu2, findSpanLinearR_eq_of_lt pv Uv _ v hv hmv hv1 hv2,
      findSpanLinearR_eq_of_lt pw Uw _ w hw hmw hw1 hw2]
  rw [e]
  exact volumePoint_eq_cdb pu pv pw Uu Uv Uw su sv sw P u v w d j hmu hmv hmw hu hv hw hlen hP hu1 hu2 hv1 hv2 hw1 hw2

/-! ### rational, closed domain, any `DomOk` knot function: positive weight, quotient of the sums -/

theorem curvePointR_length (p : ℕ) (U : ℕ → K) (P : List (List K)) (u : K) (d : ℕ)
    (hpn : p + 1 ≤ P.length) (hP : NetOk d P) : (curvePointR p U P u).length = d :=
  curvePointAt_length p U P _ u d (findSpanLinearR_bounds p U _ u hpn).1 (findSpanLinearR_bounds p U _ u hpn).2 hP

theorem curvePointR_rational_eq_cdbSpan (p : ℕ) (U : ℕ → K) (Pw : List (List K)) (u : K) (d j : ℕ)
    (hU : DomOk p U Pw.length) (hP : NetOk (d+1) Pw) (h1 : U p ≤ u) (h2 : u ≤ U Pw.length)
    (hwt : ∀ i, i < Pw.length → 0 < (ptsGet Pw i).getD d 0) (hj : j < d) :
    0 < (curvePointR p U Pw u).getD d 0 ∧
    (project (curvePointR p U Pw u)).getD j 0
      = (∑ i ∈ range Pw.length, cdbSpan U (findSpanLinearR p U Pw.length u) p i u * (ptsGet Pw i).getD j 0)
        / (∑ i ∈ range Pw.length, cdbSpan U (findSpanLinearR p U Pw.length u) p i u * (ptsGet Pw i).getD d 0) := by
  obtain ⟨hs, hp, hk⟩ := findSpanLinearR_ok hU u h1 h2
  exact ⟨curvePointAt_weight_pos p U Pw _ u d hs hp hk hP hwt,
    project_quot _ d j (curvePointR_length p U Pw u (d+1) hU.pn hP) hj _ _
      (curvePointR_eq_cdbSpan p U Pw u (d+1) j hU.pn hP) (curvePointR_eq_cdbSpan p U Pw u (d+1) d hU.pn hP)⟩

theorem surfacePointR_rational_eq_cdbSpan (pu pv : ℕ) (Uu Uv : ℕ → K) (su sv : ℕ) (Pw : List (List K)) (u v : K) (d j : ℕ)
    (hUu : DomOk pu Uu su) (hUv : DomOk pv Uv sv) (hlen : Pw.length = su * sv) (hP : NetOk (d+1) Pw)
    (hu1 : Uu pu ≤ u) (hu2 : u ≤ Uu su) (hv1 : Uv pv ≤ v) (hv2 : v ≤ Uv sv)
    (hwt : ∀ i, i < Pw.length → 0 < (ptsGet Pw i).getD d 0) (hj : j < d) :
    0 < (surfacePointR pu pv Uu Uv su sv Pw u v).getD d 0 ∧
    (project (surfacePointR pu pv Uu Uv su sv Pw u v)).getD j 0
      = (∑ a ∈ range su, ∑ b ∈ range sv,
          cdbSpan Uu (findSpanLinearR pu Uu su u) pu a u * cdbSpan Uv (findSpanLinearR pv Uv sv v) pv b v *
            (ptsGet Pw (b + sv * a)).getD j 0)
        / (∑ a ∈ range su, ∑ b ∈ range sv,
          cdbSpan Uu (findSpanLinearR pu Uu su u) pu a u * cdbSpan Uv (findSpanLinearR pv Uv sv v) pv b v *
            (ptsGet Pw (b + sv * a)).getD d 0) := by
  obtain ⟨hsu, hpu, hku⟩ := findSpanLinearR_ok hUu u hu1 hu2
  obtain ⟨hsv, hpv, hkv⟩ := findSpanLinearR_ok hUv v hv1 hv2
  have hidx : ∀ a b, a < su → b < sv → b + sv * a < Pw.length := by
    intro a b ha hb
    rw [hlen]
    calc b + sv * a < sv + sv * a := by omega
      _ = sv * (a + 1) := by ring
      _ ≤ sv * su := Nat.mul_le_mul_left _ (by omega)
      _ = su * sv := by ring
  have hlenpt : (surfacePointR pu pv Uu Uv su sv Pw u v).length = d + 1 :=
    surfacePointAt_length pu pv Uu Uv su sv Pw _ _ u v (d+1) hpu hpv hku hkv hlen hP
  refine ⟨?_, project_quot _ d j hlenpt hj _ _
      (surfacePointR_eq_cdbSpan pu pv Uu Uv su sv Pw u v (d+1) j hUu.pn hUv.pn hlen hP)
      (surfacePointR_eq_cdbSpan pu pv Uu Uv su sv Pw u v (d+1) d hUu.pn hUv.pn hlen hP)⟩
  exact (surfacePointAt_rational_in_hull pu pv Uu Uv su sv Pw _ _ u v d hsu hsv hpu hpv hku hkv hlen hP
    (fun a b ha hb => hwt _ (hidx _ _ (by omega) (by omega))) (fun _ => 0) 0 0
    (fun a b _ _ => by simp) (fun a b _ _ => by simp)).1

theorem volumePointR_rational_eq_cdbSpan (pu pv pw : ℕ) (Uu Uv Uw : ℕ → K) (su sv sw : ℕ) (Pw : List (List K))
    (u v w : K) (d j : ℕ)
    (hUu : DomOk pu Uu su) (hUv : DomOk pv Uv sv) (hUw : DomOk pw Uw sw)
    (hlen : Pw.length = su * sv * sw) (hP : NetOk (d+1) Pw)
    (hu1 : Uu pu ≤ u) (hu2 : u ≤ Uu su) (hv1 : Uv pv ≤ v) (hv2 : v ≤ Uv sv) (hw1 : Uw pw ≤ w) (hw2 : w ≤ Uw sw)
    (hwt : ∀ i, i < Pw.length → 0 < (ptsGet Pw i).getD d 0) (hj : j < d) :
    0 < (volumePointR pu pv pw Uu Uv Uw su sv sw Pw u v w).getD d 0 ∧
    (project (volumePointR pu pv pw Uu Uv Uw su sv sw Pw u v w)).getD j 0
      = (∑ a ∈ range su, ∑ b ∈ range sv, ∑ c ∈ range sw,
          cdbSpan Uu (findSpanLinearR pu Uu su u) pu a u * cdbSpan Uv (findSpanLinearR pv Uv sv v) pv b v *
            cdbSpan Uw (findSpanLinearR pw Uw sw w) pw c w * (ptsGet Pw (b + sv * (a + su * c))).getD j 0)
        / (∑ a ∈ range su, ∑ b ∈ range sv, ∑ c ∈ range sw,
          cdbSpan Uu (findSpanLinearR pu Uu su u) pu a u * cdbSpan Uv (findSpanLinearR pv Uv sv v) pv b v *
            cdbSpan Uw (findSpanLinearR pw Uw sw w) pw c w * (ptsGet Pw (b + sv * (a + su * c))).getD d 0) := by
  obtain ⟨hsu, hpu, hku⟩ := findSpanLinearR_ok hUu u hu1 hu2
  obtain ⟨hsv, hpv, hkv⟩ := findSpanLinearR_ok hUv v hv1 hv2
  obtain ⟨hsw, hpw, hkw⟩ := findSpanLinearR_ok hUw w hw1 hw2
  have hlenpt : (volumePointR pu pv pw Uu Uv Uw su sv sw Pw u v w).length = d + 1 :=
    volumePointAt_length pu pv pw Uu Uv Uw su sv sw Pw _ _ _ u v w (d+1) hpu hpv hpw hku hkv hkw hlen hP
  refine ⟨?_, project_quot _ d j hlenpt hj _ _
      (volumePointR_eq_cdbSpan pu pv pw Uu Uv Uw su sv sw Pw u v w (d+1) j hUu.pn hUv.pn hUw.pn hlen hP)
      (volumePointR_eq_cdbSpan pu pv pw Uu Uv Uw su sv sw Pw u v w (d+1) d hUu.pn hUv.pn hUw.pn hlen hP)⟩
  have hidx : ∀ a b c, a < su → b < sv → c < sw → b + sv * (a + su * c) < Pw.length := by
    intro a b c ha hb hc
    rw [hlen]
    calc b + sv * (a + su * c) < sv + sv * (a + su * c) := by omega
      _ = sv * (a + 1 + su * c) := by ring
      _ ≤ sv * (su + su * c) := Nat.mul_le_mul_left _ (by omega)
      _ = sv * su * (c + 1) := by ring
      _ ≤ sv * su * sw := Nat.mul_le_mul_left _ (by omega)
      _ = su * sv * sw := by ring
  exact (volumePointAt_rational_in_hull pu pv pw Uu Uv Uw su sv sw Pw _ _ _ u v w d hsu hsv hsw hpu hpv hpw hku hkv hkw
    hlen hP (fun a b c ha hb hc => hwt _ (hidx _ _ _ (by omega) (by omega) (by omega))) (fun _ => 0) 0 0
    (fun a b c _ _ _ => by simp) (fun a b c _ _ _ => by simp)).1

end Geomdl
