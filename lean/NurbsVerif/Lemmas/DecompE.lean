import NurbsVerif.Model.DecomposeE
import NurbsVerif.Lemmas.SplitDecompAll

/-! `decomposeDirE` / `decomposeUVE` / `splitDirE` (the decomposition / split with the exceptions of the
    code made explicit) against `decomposeDir` / `decomposeUV` / `splitDir`: whenever the `E` version
    answers `some`, the answer is that of the plain version; the rejection patterns; unfolding on a curve. -/
set_option linter.unusedSectionVars false
namespace Geomdl
open Blossom
variable {K : Type} [Field K] [LinearOrder K] [IsStrictOrderedRing K]

theorem splitDirE_of_le (S : Shape K) (dir : ℕ) (u tol : K)
    (h : findMultiplicity u (S.kv dir) tol ≤ S.deg dir) : splitDirE S dir u tol = splitDir S dir u tol := by
  unfold splitDirE
  rw [if_neg (by omega)]

theorem splitDirE_some (S : Shape K) (dir : ℕ) (u tol : K) (r : Shape K × Shape K)
    (h : splitDirE S dir u tol = some r) : splitDir S dir u tol = some r := by
  unfold splitDirE at h
  by_cases c : S.deg dir < findMultiplicity u (S.kv dir) tol
  · rw [if_pos c] at h; exact absurd h (by simp)
  · rw [if_neg c] at h; exact h

theorem splitDirE_none_of_gt (S : Shape K) (dir : ℕ) (u tol : K)
    (h : S.deg dir < findMultiplicity u (S.kv dir) tol) : splitDirE S dir u tol = none := by
  unfold splitDirE
  rw [if_pos h]

/-- outside the closed domain the split raises -/
theorem splitDirD_none_of_outside (S : Shape K) (dir : ℕ) (u tol : K)
    (h : u < (S.kv dir).getD (S.deg dir) 0 ∨ (S.kv dir).getD (S.size dir) 0 < u) : splitDirD S dir u tol = none := by
  unfold splitDirD
  rw [if_pos h]

/-- inside it `splitDirD` is `splitDirE` -/
theorem splitDirD_of_inside (S : Shape K) (dir : ℕ) (u tol : K)
    (hlo : (S.kv dir).getD (S.deg dir) 0 ≤ u) (hhi : u ≤ (S.kv dir).getD (S.size dir) 0) :
    splitDirD S dir u tol = splitDirE S dir u tol := by
  unfold splitDirD
  rw [if_neg]
  intro h
  rcases h with h | h
  · exact absurd hlo (not_le.mpr h)
  · exact absurd hhi (not_le.mpr h)

/-- whenever the split with all exceptions answers, the parameter is strictly inside the domain, counted at most `p`
    times, and the answer is that of `splitDirE` and of the plain `splitDir` -/
theorem splitDirD_some (S : Shape K) (dir : ℕ) (u tol : K) (r : Shape K × Shape K)
    (h : splitDirD S dir u tol = some r) :
    splitDirE S dir u tol = some r ∧ splitDir S dir u tol = some r ∧
    (S.kv dir).getD (S.deg dir) 0 < u ∧ u < (S.kv dir).getD (S.size dir) 0 ∧
    findMultiplicity u (S.kv dir) tol ≤ S.deg dir := by
  unfold splitDirD at h
  by_cases c : u < (S.kv dir).getD (S.deg dir) 0 ∨ (S.kv dir).getD (S.size dir) 0 < u
  · rw [if_pos c] at h; exact absurd h (by simp)
  · rw [if_neg c] at h
    have hs := splitDirE_some S dir u tol r h
    have hm : findMultiplicity u (S.kv dir) tol ≤ S.deg dir := by
      by_contra hc
      rw [splitDirE_none_of_gt S dir u tol (by omega)] at h
      exact absurd h (by simp)
    have hne : ¬ (u = (S.kv dir).getD (S.deg dir) 0 ∨ u = (S.kv dir).getD (S.size dir) 0) := by
      intro he
      unfold splitDir at hs
      simp only [] at hs
      rw [if_pos he] at hs
      exact absurd hs (by simp)
    have c' := not_or.mp c
    have hne' := not_or.mp hne
    refine ⟨h, hs, lt_of_le_of_ne (not_lt.mp c'.1) (fun e => hne'.1 e.symm), lt_of_le_of_ne (not_lt.mp c'.2) hne'.2, hm⟩

/-- whenever the version with exceptions answers, it answers what `decomposeDir` answers -/
theorem decomposeDirE_some (dir : ℕ) (tol : K) : ∀ (fuel : ℕ) (S : Shape K) (l : List (Shape K)),
    decomposeDirE dir tol fuel S = some l → decomposeDir dir tol fuel S = l := by
  intro fuel
  induction fuel with
  | zero =>
    intro S l h
    simp only [decomposeDirE, Option.some.injEq] at h
    simp only [decomposeDir, h]
  | succ fuel ih =>
    intro S l h
    unfold decomposeDirE at h
    unfold decomposeDir
    simp only [] at h ⊢
    cases hint : ((S.kv dir).drop (S.deg dir + 1)).take ((S.kv dir).length - 2 * (S.deg dir + 1)) with
    | nil =>
      rw [hint] at h
      simp only [Option.some.injEq] at h
      exact h
    | cons knot rest =>
      rw [hint] at h
      simp only [] at h ⊢
      cases hs : splitDirE S dir knot tol with
      | none => rw [hs] at h; exact absurd h (by simp)
      | some ab =>
        obtain ⟨a, b⟩ := ab
        rw [hs] at h
        simp only [] at h
        rw [splitDirE_some S dir knot tol (a, b) hs]
        simp only []
        cases hr : decomposeDirE dir tol fuel b with
        | none => rw [hr] at h; exact absurd h (by simp)
        | some l' =>
          rw [hr] at h
          simp only [Option.map_some, Option.some.injEq] at h
          rw [ih b l' hr, h]

/-- the first knot of the list `U[p+1 : -(p+1)]` the decomposition loop splits at -/
theorem interior_head (U : List K) (p n : ℕ) (hlen : U.length = n + p + 1) (hn : p + 1 < n) :
    ∃ rest, ((U.drop (p + 1)).take (U.length - 2 * (p + 1))) = fnOf U (p + 1) :: rest := by
  have e1 : U.drop (p + 1) = U[p + 1]'(by omega) :: U.drop (p + 2) := List.drop_eq_getElem_cons (by omega)
  have e2 : U.length - 2 * (p + 1) = (U.length - 2 * (p + 1) - 1) + 1 := by omega
  rw [e1, e2, List.take_succ_cons, fnOf_getElem U (p + 1) (by omega)]
  exact ⟨_, rfl⟩

/-- **the rejection the plain model did not have**: when the first knot of `U[p+1 : -(p+1)]` lies on the
    domain start (`U_{p+1} = U_p`: an unclamped knot vector whose domain starts with an empty span, or a
    clamped one with `p+2` equal first knots) or on the domain end (`U_{p+1} = U_n`), `decompose_*`
    raises ("Cannot split from the domain edge"); model: `none` -/
theorem decomposeDirE_rejects (dir : ℕ) (tol : K) (fuel : ℕ) (S : Shape K)
    (hlen : (S.kv dir).length = S.size dir + S.deg dir + 1) (hn : S.deg dir + 1 < S.size dir)
    (h : fnOf (S.kv dir) (S.deg dir + 1) = fnOf (S.kv dir) (S.deg dir)
       ∨ fnOf (S.kv dir) (S.deg dir + 1) = fnOf (S.kv dir) (S.size dir)) :
    decomposeDirE dir tol (fuel + 1) S = none := by
  obtain ⟨rest, hrest⟩ := interior_head (S.kv dir) (S.deg dir) (S.size dir) hlen hn
  have hs : splitDir S dir (fnOf (S.kv dir) (S.deg dir + 1)) tol = none := by
    unfold splitDir
    simp only []
    rw [if_pos]
    rw [fnOf_getD _ _ (by omega), fnOf_getD _ _ (by omega)]
    exact h
  have hsE : splitDirE S dir (fnOf (S.kv dir) (S.deg dir + 1)) tol = none := by
    unfold splitDirE
    by_cases c : S.deg dir < findMultiplicity (fnOf (S.kv dir) (S.deg dir + 1)) (S.kv dir) tol
    · rw [if_pos c]
    · rw [if_neg c]; exact hs
  unfold decomposeDirE
  simp only [hrest, hsE]

/-- the other rejection: the knot is repeated more than `p` times (`ValueError` in the code) -/
theorem decomposeDirE_rejects_mult (dir : ℕ) (tol : K) (fuel : ℕ) (S : Shape K)
    (hlen : (S.kv dir).length = S.size dir + S.deg dir + 1) (hn : S.deg dir + 1 < S.size dir)
    (h : S.deg dir < findMultiplicity (fnOf (S.kv dir) (S.deg dir + 1)) (S.kv dir) tol) :
    decomposeDirE dir tol (fuel + 1) S = none := by
  obtain ⟨rest, hrest⟩ := interior_head (S.kv dir) (S.deg dir) (S.size dir) hlen hn
  unfold decomposeDirE
  simp only [hrest, splitDirE_none_of_gt S dir _ tol h]

/-! ### unfolding on a curve -/

theorem decomposeDirE_bezier (rat : Bool) (p : ℕ) (U : List K) (P : List (List K)) (tol : K) (fuel : ℕ)
    (hlen : U.length = P.length + p + 1) (hn : P.length = p + 1) :
    decomposeDirE 0 tol fuel (curveShape rat p U P) = some [curveShape rat p U P] := by
  cases fuel with
  | zero => rfl
  | succ fuel =>
    have : ((U.drop (p + 1)).take (U.length - 2 * (p + 1))) = [] := by
      have : U.length - 2 * (p + 1) = 0 := by omega
      rw [this]; rfl
    simp only [decomposeDirE, curveShape, Shape.deg, Shape.kv, List.getD_cons_zero, this]

theorem decomposeDirE_step (rat : Bool) (p : ℕ) (U : List K) (P : List (List K)) (tol : K) (fuel : ℕ)
    (hlen : U.length = P.length + p + 1) (hn : p + 1 < P.length) (A B : Shape K)
    (hm : findMultiplicity (fnOf U (p + 1)) U tol ≤ p)
    (hs : splitDir (curveShape rat p U P) 0 (fnOf U (p + 1)) tol = some (A, B)) :
    decomposeDirE 0 tol (fuel + 1) (curveShape rat p U P) = (decomposeDirE 0 tol fuel B).map (fun l => A :: l) := by
  obtain ⟨rest, hrest⟩ := interior_head U p P.length hlen hn
  have hsE : splitDirE { rat := rat, degs := [p], kvs := [U], sizes := [P.length], net := P } 0 (fnOf U (p + 1)) tol
      = some (A, B) := by
    have := splitDirE_of_le (curveShape rat p U P) 0 (fnOf U (p + 1)) tol
      (by simpa [curveShape, Shape.deg, Shape.kv] using hm)
    rw [← hs, ← this]; rfl
  simp only [decomposeDirE, curveShape, Shape.deg, Shape.kv, List.getD_cons_zero, hrest, hsE]

/-! ### `uv` -/

theorem allSome_map_flatten {α β : Type} (f : α → Option (List β)) (g : α → List β)
    (hfg : ∀ a l, f a = some l → g a = l) :
    ∀ (xs : List α) (ls : List (List β)), allSome (xs.map f) = some ls → xs.flatMap g = ls.flatten := by
  intro xs
  induction xs with
  | nil =>
    intro ls h
    simp only [List.map_nil, allSome, Option.some.injEq] at h
    rw [← h]; rfl
  | cons x xs ih =>
    intro ls h
    rw [List.map_cons] at h
    cases hx : f x with
    | none => rw [hx] at h; simp [allSome] at h
    | some l =>
      rw [hx] at h
      simp only [allSome] at h
      cases hr : allSome (xs.map f) with
      | none => rw [hr] at h; simp at h
      | some ls' =>
        rw [hr] at h
        simp only [Option.map_some, Option.some.injEq] at h
        rw [← h, List.flatMap_cons, List.flatten_cons, hfg x l hx, ih ls' hr]

/-- whenever `decomposeUVE` answers, it answers what `decomposeUV` answers -/
theorem decomposeUVE_some (tol : K) (S : Shape K) (l : List (Shape K))
    (h : decomposeUVE tol S = some l) : decomposeUV tol S = l := by
  unfold decomposeUVE at h
  unfold decomposeUV
  cases hu : decomposeDirE 0 tol (S.kv 0).length S with
  | none => rw [hu] at h; simp at h
  | some strips =>
    rw [hu] at h
    simp only [] at h
    rw [decomposeDirE_some 0 tol _ S strips hu]
    cases ha : allSome (strips.map (fun T => decomposeDirE 1 tol (T.kv 1).length T)) with
    | none => rw [ha] at h; simp at h
    | some ls =>
      rw [ha] at h
      simp only [Option.map_some, Option.some.injEq] at h
      rw [← h]
      exact allSome_map_flatten (fun T => decomposeDirE 1 tol (T.kv 1).length T)
        (fun T => decomposeDir 1 tol (T.kv 1).length T)
        (fun T l' hl => decomposeDirE_some 1 tol _ T l' hl) strips ls ha

end Geomdl
