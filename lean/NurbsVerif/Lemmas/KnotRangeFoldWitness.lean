import NurbsVerif.Lemmas.KnotRangeFold

/-! a concrete biquadratic-by-linear surface over ℚ and two different affine knot maps (one per direction) for the
    non-vacuity examples of the all-direction knot-range theorems of `Props/C17.lean` -/
namespace Geomdl

/-- degree 2 × 1, 4 × 3 control points (u-major), knots `[0,0,0,1,2,2,2]` and `[0,0,1,3,3]` -/
def krSurf : Shape ℚ :=
  { rat := false, degs := [2, 1], kvs := [[0,0,0,1,2,2,2], [0,0,1,3,3]], sizes := [4, 3],
    net := [[0,0,0],[0,1,1],[0,2,0], [1,0,1],[1,1,2],[1,2,1], [2,0,0],[2,1,3],[2,2,1], [3,0,1],[3,1,1],[3,2,0]] }

/-- `u ↦ 2·u + 3`, `v ↦ 3·v − 1` -/
def krA : ℕ → ℚ := fun d => if d = 0 then 2 else 3
def krB : ℕ → ℚ := fun d => if d = 0 then 3 else -1

end Geomdl
