import NurbsVerif.Lemmas.Length
import NurbsVerif.Lemmas.EvalSpec
import NurbsVerif.Lemmas.LinalgHelpers
import Mathlib.Analysis.Real.Sqrt
import Mathlib.Tactic.Linarith
/-!
# The Euclidean norm over ℝ is an instance of `IsSeminorm` (C18)

The length theorems of C18 are stated for an abstract seminorm `N` on coordinate lists.  `operations.length_curve`
measures with `linalg.point_distance`, the Euclidean distance `√(Σ (bᵢ - aᵢ)²)`.  Here the missing instance:
`euclidNorm d v = √(Σ_{i<d} vᵢ²)` over `ℝ` (the exact value of `linalg.vector_magnitude` on a vector of `d`
coordinates; `Real.sqrt`, so noncomputable - it is used in Lemmas / Props only, never in the Model) satisfies
`IsSeminorm d` (triangle inequality = Minkowski for exponent 2, from Mathlib's Cauchy–Schwarz inequality), and it is the square root of the
radicand `Lin.normSq` that the C16 model of `vector_magnitude` computes.
-/
namespace Geomdl
open Finset

/-- exact `linalg.vector_magnitude` on a coordinate list of length `d`, over ℝ -/
noncomputable def euclidNorm (d : ℕ) (v : List ℝ) : ℝ := Real.sqrt (∑ i : Fin d, (v.getD i 0) ^ 2)

theorem euclidNorm_nonneg (d : ℕ) (v : List ℝ) : 0 ≤ euclidNorm d v := Real.sqrt_nonneg _

private theorem sumSq_nonneg (d : ℕ) (v : List ℝ) : 0 ≤ ∑ i : Fin d, (v.getD i 0) ^ 2 :=
  Finset.sum_nonneg (fun _ _ => sq_nonneg _)

/-- Minkowski's inequality for the exponent 2, from the Cauchy–Schwarz inequality
    (`Real.sum_mul_le_sqrt_mul_sqrt`) -/
theorem euclidNorm_add_le (d : ℕ) (a b : List ℝ) (ha : a.length = d) (hb : b.length = d) :
    euclidNorm d (vadd a b) ≤ euclidNorm d a + euclidNorm d b := by
  unfold euclidNorm
  have hA := sumSq_nonneg d a
  have hB := sumSq_nonneg d b
  have hcs := Real.sum_mul_le_sqrt_mul_sqrt (Finset.univ : Finset (Fin d)) (fun i => a.getD i 0) (fun i => b.getD i 0)
  rw [Real.sqrt_le_left (add_nonneg (Real.sqrt_nonneg _) (Real.sqrt_nonneg _))]
  have e : ∑ i : Fin d, ((vadd a b).getD i 0) ^ 2
      = ∑ i : Fin d, (a.getD i 0) ^ 2 + 2 * ∑ i : Fin d, a.getD i 0 * b.getD i 0 + ∑ i : Fin d, (b.getD i 0) ^ 2 := by
    rw [Finset.mul_sum, ← Finset.sum_add_distrib, ← Finset.sum_add_distrib]
    apply Finset.sum_congr rfl
    intro i _
    rw [vadd_getD a b i (by omega)]
    ring
  rw [e, add_sq, Real.sq_sqrt hA, Real.sq_sqrt hB]
  nlinarith [hcs]

theorem euclidNorm_smul (d : ℕ) (c : ℝ) (v : List ℝ) (hc : 0 ≤ c) :
    euclidNorm d (vsmul c v) = c * euclidNorm d v := by
  unfold euclidNorm
  have e : ∑ i : Fin d, ((vsmul c v).getD i 0) ^ 2 = c ^ 2 * ∑ i : Fin d, (v.getD i 0) ^ 2 := by
    rw [Finset.mul_sum]
    apply Finset.sum_congr rfl
    intro i _
    rw [vsmul_getD c v i]
    ring
  rw [e, Real.sqrt_mul (sq_nonneg c), Real.sqrt_sq hc]

/-- **the Euclidean norm is a seminorm in the sense of `IsSeminorm`**, in every dimension -/
theorem euclid_isSeminorm (d : ℕ) : IsSeminorm d (euclidNorm d) where
  nonneg v _ := euclidNorm_nonneg d v
  add_le a b ha hb := euclidNorm_add_le d a b ha hb
  smul c v hc _ := euclidNorm_smul d c v hc

/-- `euclidNorm` is the square root of the radicand the model of `linalg.vector_magnitude` computes
    (`Lin.normSq`, C16) -/
theorem euclidNorm_eq_sqrt_normSq (d : ℕ) (v : List ℝ) (hv : v.length = d) :
    euclidNorm d v = Real.sqrt (Lin.normSq v) := by
  rw [Lin.normSq_eq_dot, Lin.vectorDot_eq, Nat.min_self, hv, Finset.sum_range, euclidNorm]
  congr 1
  exact Finset.sum_congr rfl (fun i _ => by ring)

/-- the distance measured with it is `linalg.point_distance`: `√(Σ (bᵢ - aᵢ)²)` -/
theorem distN_euclid (d : ℕ) (a b : List ℝ) (ha : a.length = d) (hb : b.length = d) :
    distN (euclidNorm d) a b = Real.sqrt (∑ i : Fin d, (b.getD i 0 - a.getD i 0) ^ 2) := by
  unfold distN euclidNorm
  congr 1
  exact Finset.sum_congr rfl (fun i _ => by rw [vsub_getD b a i (by omega)])

end Geomdl
