import NurbsVerif.Lemmas.Hodograph
import NurbsVerif.Lemmas.FitParams

/-! Concrete shapes with knot vectors given as lists, on which the hypotheses of the hodograph theorems
    of Props/C02.lean hold: a plane quadratic curve with one interior knot, and a `3 × 4` biquadratic
    surface in dimension 3. -/
namespace C02
open Geomdl

def hwU : List ℚ := [0, 0, 0, 1/2, 1, 1, 1]
def hwP : List (List ℚ) := [[0, 0], [1, 2], [3, 1], [4, 4]]

theorem hwU_mono : Monotone (fnOf hwU) := fnOf_monotone_of_isSortedB hwU (by decide +kernel)
theorem hwP_ok : NetOk 2 hwP := by
  intro pt hpt; simp [hwP] at hpt; rcases hpt with h | h | h | h <;> simp [h]

def hwUu : List ℚ := [0, 0, 0, 1, 1, 1]
def hwUv : List ℚ := [0, 0, 0, 1/2, 1, 1, 1]
def hwS : List (List ℚ) :=
  [[0,0,0],[0,1,1],[0,2,0],[0,3,2], [1,0,1],[1,1,3],[1,2,1],[1,3,0], [2,0,0],[2,1,1],[2,2,4],[2,3,1]]

theorem hwUu_mono : Monotone (fnOf hwUu) := fnOf_monotone_of_isSortedB hwUu (by decide +kernel)
theorem hwUv_mono : Monotone (fnOf hwUv) := fnOf_monotone_of_isSortedB hwUv (by decide +kernel)
theorem hwS_ok : NetOk 3 hwS := by
  intro pt hpt; simp [hwS] at hpt
  rcases hpt with h | h | h | h | h | h | h | h | h | h | h | h <;> simp [h]

end C02
