/-
  Lemmas for C13 (control-net layout), part 2: every accessor addresses `flatIdx`, the flips are
  mutually inverse, transposition, extraction / construction round trips, sweeps.
-/
import NurbsVerif.Lemmas.Layout

namespace Geomdl
variable {α κ : Type} [Inhabited α]

/-! ### managers, 2-D view -/

theorem surfFindIndex_eq (su sv u v : ℕ) : surfFindIndex su sv u v = flatIdx2 sv u v := by
  unfold surfFindIndex flatIdx2; ring

theorem volFindIndex_eq (su sv sw u v w : ℕ) : volFindIndex su sv sw u v w = flatIdx3 su sv u v w := by
  unfold volFindIndex flatIdx3; ring

theorem ctrlpts2dOf_get2 {su sv : ℕ} (P : List α) {u v : ℕ} (hu : u < su) (hv : v < sv) :
    get2 (ctrlpts2dOf su sv P) u v = P.getD (flatIdx2 sv u v) default := by
  unfold ctrlpts2dOf
  rw [get2_grid2 _ hu hv]; unfold flatIdx2; rw [Nat.mul_comm]

theorem setCtrlpts2d_grid2 {A B : ℕ} (f : ℕ → ℕ → α) (hA : 0 < A) :
    setCtrlpts2d (grid2 A B f) = (A, B, tab2 A B f) := by
  unfold setCtrlpts2d
  simp only [length_grid2, headD_grid2 f hA]
  congr 2
  exact tab2_congr (fun a ha b hb => get2_grid2 f ha hb)

theorem setCtrlpts2d_ctrlpts2dOf {su sv : ℕ} {P : List α} (h : P.length = su * sv) (hsu : 0 < su) :
    setCtrlpts2d (ctrlpts2dOf su sv P) = (su, sv, P) := by
  unfold ctrlpts2dOf
  rw [setCtrlpts2d_grid2 _ hsu]
  congr 2
  have e : (fun i j => P.getD (j + i * sv) default) = fun a b => P.getD (b + sv * a) default := by
    funext a b; rw [Nat.mul_comm]
  rw [e]; exact tab2_getD_self h

/-- the `ctrlpts2d` setter stores `value[u][v]` at `flatIdx2` -/
theorem setCtrlpts2d_getD (G : List (List α)) {u v : ℕ} (hu : u < G.length) (hv : v < (G.headD []).length) :
    (setCtrlpts2d G).2.2.getD (flatIdx2 (setCtrlpts2d G).2.1 u v) default = get2 G u v := by
  unfold setCtrlpts2d flatIdx2
  exact getD_tab2 _ hu hv default

theorem srfOf2d_grid2 {A B : ℕ} (du dv : ℕ) (ku kv : κ) (f : ℕ → ℕ → α) (hA : 0 < A) :
    srfOf2d du dv ku kv (grid2 A B f) =
      { du := du, dv := dv, ku := ku, kv := kv, su := A, sv := B, pts := tab2 A B f } := by
  unfold srfOf2d
  rw [setCtrlpts2d_grid2 f hA]

/-! ### `mgrGet` / `mgrSet` -/

theorem mgrSet_eq_some {P : List α} {idx : ℕ} (pt : α) (h : idx < P.length) :
    mgrSet P idx pt = some (P.set idx pt) := by
  unfold mgrSet; rw [if_pos h]

theorem mgrGet_set_same {P : List α} {idx : ℕ} (pt : α) (h : idx < P.length) :
    mgrGet (P.set idx pt) idx = some pt := by
  unfold mgrGet; rw [List.getElem?_set]; simp [h]

theorem mgrGet_set_other {P : List α} {idx idx' : ℕ} (pt : α) (h : idx ≠ idx') :
    mgrGet (P.set idx pt) idx' = mgrGet P idx' := by
  unfold mgrGet; rw [List.getElem?_set]; simp [h]

/-! ### `flip_ctrlpts`, `flip_ctrlpts_u`, `flip_ctrlpts2d` -/

theorem length_flipCtrlptsU (P : List α) (su sv : ℕ) : (flipCtrlptsU P su sv).length = su * sv :=
  length_tab2 _ _ _

theorem length_flipCtrlpts (P : List α) (su sv : ℕ) : (flipCtrlpts P su sv).length = sv * su :=
  length_tab2 _ _ _

/-- output entry `(i, j)` (row `i < size_u`, `j` fastest) of `flip_ctrlpts_u` is input entry `i + size_u*j` -/
theorem flipCtrlptsU_getD (P : List α) {su sv i j : ℕ} (hi : i < su) (hj : j < sv) :
    (flipCtrlptsU P su sv).getD (flatIdx2 sv i j) default = P.getD (flatIdx2 su j i) default := by
  unfold flipCtrlptsU flatIdx2
  rw [getD_tab2 _ hi hj, Nat.mul_comm]

theorem flipCtrlpts_getD (P : List α) {su sv i j : ℕ} (hi : i < sv) (hj : j < su) :
    (flipCtrlpts P su sv).getD (flatIdx2 su i j) default = P.getD (flatIdx2 sv j i) default := by
  unfold flipCtrlpts flatIdx2
  rw [getD_tab2 _ hi hj, Nat.mul_comm]

theorem flipCtrlpts_flipCtrlptsU {P : List α} {su sv : ℕ} (h : P.length = su * sv) :
    flipCtrlpts (flipCtrlptsU P su sv) su sv = P := by
  have e : flipCtrlpts (flipCtrlptsU P su sv) su sv = tab2 sv su (fun a b => P.getD (b + su * a) default) := by
    unfold flipCtrlpts
    apply tab2_congr
    intro i hi j hj
    have := flipCtrlptsU_getD P hj hi
    unfold flatIdx2 at this
    rw [Nat.mul_comm j sv, this]
  rw [e]; exact tab2_getD_self (by rw [h, Nat.mul_comm])

theorem flipCtrlptsU_flipCtrlpts {P : List α} {su sv : ℕ} (h : P.length = su * sv) :
    flipCtrlptsU (flipCtrlpts P su sv) su sv = P := by
  have e : flipCtrlptsU (flipCtrlpts P su sv) su sv = tab2 su sv (fun a b => P.getD (b + sv * a) default) := by
    unfold flipCtrlptsU
    apply tab2_congr
    intro i hi j hj
    have := flipCtrlpts_getD P hj hi
    unfold flatIdx2 at this
    rw [Nat.mul_comm j su, this]
  rw [e]; exact tab2_getD_self h

theorem flipCtrlpts2d_get2 (G : List (List α)) {su sv i j : ℕ} (hi : i < sv) (hj : j < su) :
    get2 (flipCtrlpts2d G su sv) i j = get2 G j i := by
  unfold flipCtrlpts2d; exact get2_grid2 _ hi hj

/-- `flip_ctrlpts2d` of the 2-D view, flattened, is `flip_ctrlpts` of the flat net -/
theorem flipCtrlpts2d_flat (P : List α) {su sv : ℕ} (hsv : 0 < sv) :
    (setCtrlpts2d (flipCtrlpts2d (ctrlpts2dOf su sv P) su sv)).2.2 = flipCtrlpts P su sv := by
  unfold flipCtrlpts2d
  rw [setCtrlpts2d_grid2 _ hsv]
  unfold flipCtrlpts
  apply tab2_congr
  intro i hi j hj
  rw [ctrlpts2dOf_get2 P hj hi]; unfold flatIdx2; rw [Nat.mul_comm]

/-! ### `operations.transpose` -/

theorem transposeSrf_eq (S : Srf α κ) (hsv : 0 < S.sv) :
    transposeSrf S = { du := S.dv, dv := S.du, ku := S.kv, kv := S.ku, su := S.sv, sv := S.su,
                       pts := tab2 S.sv S.su (fun v u => S.at u v) } := by
  unfold transposeSrf
  simp only [setCtrlpts2d_grid2 _ hsv]
  congr 1
  exact tab2_congr (fun v hv u hu => ctrlpts2dOf_get2 S.pts hu hv)

theorem transposeSrf_at (S : Srf α κ) {u v : ℕ} (hu : u < S.su) (hv : v < S.sv) :
    (transposeSrf S).at v u = S.at u v := by
  rw [transposeSrf_eq S (by omega)]
  unfold Srf.at flatIdx2
  exact getD_tab2 _ hv hu default

theorem transposeSrf_wf (S : Srf α κ) (h : S.WF) : (transposeSrf S).WF := by
  rw [transposeSrf_eq S (by have := h.2.2; omega)]
  exact ⟨length_tab2 _ _ _, h.2.2, h.2.1⟩

theorem transposeSrf_invol (S : Srf α κ) (h : S.WF) : transposeSrf (transposeSrf S) = S := by
  obtain ⟨hl, hsu, hsv⟩ := h
  have hT := transposeSrf_eq S (by omega)
  rw [transposeSrf_eq (transposeSrf S) (by rw [hT]; show 0 < S.su; omega)]
  have e : tab2 (transposeSrf S).sv (transposeSrf S).su (fun v u => (transposeSrf S).at u v)
      = tab2 S.su S.sv (fun a b => S.pts.getD (b + S.sv * a) default) := by
    have e1 : (transposeSrf S).sv = S.su := by rw [hT]
    have e2 : (transposeSrf S).su = S.sv := by rw [hT]
    rw [e1, e2]
    exact tab2_congr (fun a ha b hb => transposeSrf_at S ha hb)
  rw [e, tab2_getD_self hl, hT]

/-! ### `operations.flip` -/

theorem flipStep_aux (P : List α) : ∀ (X Y : List α), X.length = P.length →
    (P.foldl (fun (acc : List α × ℕ) pt => (acc.1.set acc.2 pt, acc.2 - 1)) (X ++ Y, P.length - 1)).1
      = P.reverse ++ Y := by
  induction P with
  | nil => intro X Y h; simp at h; simp [h]
  | cons p P ih =>
    intro X Y h
    have hne : X ≠ [] := by intro e; rw [e] at h; simp at h
    obtain ⟨X', x, rfl⟩ : ∃ X' x, X = X' ++ [x] := ⟨X.dropLast, X.getLast hne, (List.dropLast_concat_getLast hne).symm⟩
    have hX' : X'.length = P.length := by simp at h; exact h
    simp only [List.foldl_cons, List.length_cons, Nat.add_sub_cancel]
    have e : (X' ++ [x] ++ Y).set P.length p = X' ++ (p :: Y) := by
      rw [List.append_assoc, ← hX']; simp
    rw [e, ih X' (p :: Y) hX']; simp

/-- the in-place loop of `operations.flip` reverses the flat list -/
theorem flipLoop_eq_reverse (P : List α) : flipLoop P = P.reverse := by
  unfold flipLoop
  have := flipStep_aux P (List.replicate P.length default) [] (by simp)
  simpa using this

theorem getD_reverse_flat {P : List α} {su sv u v : ℕ} (h : P.length = su * sv) (hu : u < su) (hv : v < sv) :
    P.reverse.getD (flatIdx2 sv u v) default = P.getD (flatIdx2 sv (su - 1 - u) (sv - 1 - v)) default := by
  obtain ⟨u', rfl⟩ : ∃ u', su = u + u' + 1 := ⟨su - 1 - u, by omega⟩
  obtain ⟨v', rfl⟩ : ∃ v', sv = v + v' + 1 := ⟨sv - 1 - v, by omega⟩
  have hlt := flatIdx2_lt hu hv
  rw [List.getD_eq_getElem?_getD, List.getD_eq_getElem?_getD, List.getElem?_reverse (by rw [h]; exact hlt)]
  congr 2
  have e1 : u + u' + 1 - 1 - u = u' := by omega
  have e2 : v + v' + 1 - 1 - v = v' := by omega
  rw [e1, e2, h]
  unfold flatIdx2 at *
  have : (u + u' + 1) * (v + v' + 1) = (v + (v + v' + 1) * u) + (v' + (v + v' + 1) * u') + 1 := by ring
  omega

theorem flipSrf_at (S : Srf α κ) (h : S.pts.length = S.su * S.sv) {u v : ℕ} (hu : u < S.su) (hv : v < S.sv) :
    (flipSrf S).at u v = S.at (S.su - 1 - u) (S.sv - 1 - v) := by
  unfold flipSrf Srf.at
  exact getD_reverse_flat h hu hv

theorem flipSrf_invol (S : Srf α κ) : flipSrf (flipSrf S) = S := by
  unfold flipSrf; simp

/-! ### `construct_surface` after `extract_curves` -/

theorem constructSurface_of_head {args : List (Crv α κ)} {c0 : Crv α κ} (dir : Dir) (degO : ℕ) (kvO : κ)
    (h0 : args.head? = some c0) (h2 : 2 ≤ args.length)
    (hall : ∀ c ∈ args, c.deg = c0.deg ∧ c.pts.length = c0.pts.length) :
    constructSurface dir degO kvO args =
      match dir with
      | Dir.u => some { du := degO, dv := c0.deg, ku := kvO, kv := c0.kv,
                        su := args.length, sv := c0.pts.length, pts := args.flatMap fun c => c.pts }
      | Dir.v => some { du := c0.deg, dv := degO, ku := c0.kv, kv := kvO,
                        su := c0.pts.length, sv := args.length,
                        pts := flipCtrlptsU (args.flatMap fun c => c.pts) c0.pts.length args.length }
      | Dir.w => none := by
  cases args with
  | nil => simp at h0
  | cons c rest =>
    simp only [List.head?_cons, Option.some.injEq] at h0
    subst h0
    have hall' : (List.all (c :: rest) fun x => x.deg == c.deg && x.pts.length == c.pts.length) = true := by
      rw [List.all_eq_true]
      intro x hx
      obtain ⟨h1, h2⟩ := hall x hx
      simp [h1, h2]
    unfold constructSurface
    simp only [hall', if_neg (by omega : ¬ (c :: rest).length < 2)]
    cases dir <;> simp

theorem construct_extract_u (S : Srf α κ) (h : S.WF) :
    constructSurface Dir.u S.du S.ku (extractCurvesV S) = some S := by
  obtain ⟨hl, hsu, hsv⟩ := h
  have h0 : (extractCurvesV S).head? = some
      { deg := S.dv, kv := S.kv, pts := (List.range S.sv).map fun v => S.pts.getD (v + S.sv * 0) default } := by
    unfold extractCurvesV
    obtain ⟨n, hn⟩ : ∃ n, S.su = n + 1 := ⟨S.su - 1, by omega⟩
    rw [hn]; simp [List.range_succ_eq_map]
  rw [constructSurface_of_head Dir.u S.du S.ku h0 (by simp [extractCurvesV]; omega)
    (by intro c hc; simp [extractCurvesV] at hc; obtain ⟨a, _, rfl⟩ := hc; simp)]
  have e : ((extractCurvesV S).flatMap fun c => c.pts)
      = tab2 S.su S.sv (fun a b => S.pts.getD (b + S.sv * a) default) := by
    unfold extractCurvesV tab2; rw [List.flatMap_map]
  simp only [e, tab2_getD_self hl]
  simp [extractCurvesV]

theorem construct_extract_v (S : Srf α κ) (h : S.WF) :
    constructSurface Dir.v S.dv S.kv (extractCurvesU S) = some S := by
  obtain ⟨hl, hsu, hsv⟩ := h
  have h0 : (extractCurvesU S).head? = some
      { deg := S.du, kv := S.ku, pts := (List.range S.su).map fun u => S.pts.getD (0 + S.sv * u) default } := by
    unfold extractCurvesU
    obtain ⟨n, hn⟩ : ∃ n, S.sv = n + 1 := ⟨S.sv - 1, by omega⟩
    rw [hn]; simp [List.range_succ_eq_map]
  rw [constructSurface_of_head Dir.v S.dv S.kv h0 (by simp [extractCurvesU]; omega)
    (by intro c hc; simp [extractCurvesU] at hc; obtain ⟨a, _, rfl⟩ := hc; simp)]
  have e : ((extractCurvesU S).flatMap fun c => c.pts)
      = tab2 S.sv S.su (fun v u => S.pts.getD (v + S.sv * u) default) := by
    unfold extractCurvesU tab2; rw [List.flatMap_map]
  have e2 : flipCtrlptsU (tab2 S.sv S.su (fun v u => S.pts.getD (v + S.sv * u) default)) S.su S.sv
      = tab2 S.su S.sv (fun a b => S.pts.getD (b + S.sv * a) default) := by
    unfold flipCtrlptsU
    apply tab2_congr
    intro i hi j hj
    rw [Nat.mul_comm j S.su, getD_tab2 _ hj hi]
  simp only [e, List.length_map, List.length_range]
  have e3 : (extractCurvesU S).length = S.sv := by simp [extractCurvesU]
  rw [e3, e2, tab2_getD_self hl]

/-! ### `construct_volume` after `extract_surfaces` -/

theorem constructVolumeWith_of_head {args : List (Srf α κ)} {s0 : Srf α κ}
    (perm : Dir → ℕ → ℕ → ℕ → List α → List α) (dir : Dir) (degO : ℕ) (kvO : κ)
    (h0 : args.head? = some s0) (h2 : 2 ≤ args.length)
    (hall : ∀ s ∈ args, s.du = s0.du ∧ s.dv = s0.dv ∧ s.su = s0.su ∧ s.sv = s0.sv) :
    constructVolumeWith perm dir degO kvO args =
      match dir with
      | Dir.u => some { du := degO, dv := s0.du, dw := s0.dv, ku := kvO, kv := s0.ku, kw := s0.kv,
                        su := args.length, sv := s0.su, sw := s0.sv,
                        pts := perm Dir.u args.length s0.su s0.sv (args.flatMap fun s => s.pts) }
      | Dir.v => some { du := s0.du, dv := degO, dw := s0.dv, ku := s0.ku, kv := kvO, kw := s0.kv,
                        su := s0.su, sv := args.length, sw := s0.sv,
                        pts := perm Dir.v args.length s0.su s0.sv (args.flatMap fun s => s.pts) }
      | Dir.w => some { du := s0.du, dv := s0.dv, dw := degO, ku := s0.ku, kv := s0.kv, kw := kvO,
                        su := s0.su, sv := s0.sv, sw := args.length,
                        pts := perm Dir.w args.length s0.su s0.sv (args.flatMap fun s => s.pts) } := by
  cases args with
  | nil => simp at h0
  | cons c rest =>
    simp only [List.head?_cons, Option.some.injEq] at h0
    subst h0
    have hall' : (List.all (c :: rest) fun s => s.du == c.du && s.dv == c.dv && s.su == c.su && s.sv == c.sv) = true := by
      rw [List.all_eq_true]
      intro x hx
      obtain ⟨h1, h2, h3, h4⟩ := hall x hx
      simp [h1, h2, h3, h4]
    unfold constructVolumeWith
    simp only [hall', if_neg (by omega : ¬ (c :: rest).length < 2)]
    cases dir <;> simp

end Geomdl
