import NurbsVerif.Lemmas.ConfigObj

/-!
  C17, splitting under an affine change of the knot range: `split_curve / split_surface_u / split_surface_v`
  return pieces with normalised knot vectors, so the pieces obtained from the shape on the range
  `a•U + b` at the parameter `a·ū + b` are IDENTICAL to the pieces obtained from `U` at `ū`.
-/
set_option linter.unusedSectionVars false

namespace Geomdl
open Blossom
variable {K : Type} [Field K] [LinearOrder K] [IsStrictOrderedRing K]

/-- `knotvector.normalize` does not see an affine map of the knots -/
theorem knotNormalize_affine (l : List K) (a b : K) (ha : a ≠ 0) :
    knotNormalize (l.map (fun y => a * y + b)) = knotNormalize l := by
  cases l with
  | nil => rfl
  | cons x xs =>
    unfold knotNormalize
    have hlast : ((x :: xs).map (fun y => a * y + b)).getLastD 0 = a * (x :: xs).getLastD 0 + b := by
      rw [List.getLastD_eq_getLast?, List.getLast?_map, List.getLastD_eq_getLast?]
      cases h : (x :: xs).getLast? with
      | none => rw [List.getLast?_eq_none_iff] at h; cases h
      | some z => simp
    simp only []
    rw [hlast, List.map_map]
    apply List.map_congr_left
    intro y _
    simp only [Function.comp, List.map_cons, List.headD_cons]
    exact cfg_affine_quot a b _ _ _ _ ha

theorem cfg_getD_map_affine (U : List K) (a b : K) (i : ℕ) (hi : i < U.length) :
    (U.map (fun y => a * y + b)).getD i 0 = a * U.getD i 0 + b := by
  simp only [List.getD_eq_getElem?_getD, List.getElem?_map, List.getElem?_eq_getElem hi]
  rfl

theorem cfg_insertKnotDir_kv_ne (S T : Shape K) (dir : ℕ) (u : K) (r : ℕ) (tol : K) (check : Bool)
    (h : insertKnotDir S dir u r tol check = some T) (hne : S.kv dir ≠ []) : T.kv dir ≠ [] := by
  unfold insertKnotDir at h
  simp only [] at h
  split at h
  · cases h
  · have hd : dir < S.kvs.length := by
      by_contra hc
      apply hne
      unfold Shape.kv
      rw [List.getD_eq_getElem?_getD, List.getElem?_eq_none_iff.mpr (by omega)]
      rfl
    injection h with h
    subst h
    unfold Shape.kv
    simp only []
    rw [List.getD_eq_getElem?_getD, List.getElem?_set_self hd]
    simp only [Option.getD_some]
    unfold knotInsertionKv
    intro hc
    simp only [List.append_eq_nil_iff] at hc
    obtain ⟨⟨h1, _⟩, _⟩ := hc
    rw [List.take_eq_nil_iff] at h1
    rcases h1 with h1 | h1
    · omega
    · exact hne h1

/-- **splitting** (`operations.split_curve`, `split_surface_u`, `split_surface_v`): from the shape with the
    knots of the split direction on the range `a•U + b`, splitting at `a·ū + b` (tolerance `a·tol`) is rejected in
    the same cases and otherwise returns the very same two pieces (nets, sizes, normalised knot vectors) -/
theorem splitDir_affine_gen (S : Shape K) (dir : ℕ) (u tol tol' a b : K) (ha : 0 < a)
    (hp : S.deg dir < (S.kv dir).length) (hn : S.size dir < (S.kv dir).length)
    (hmult : findMultiplicity (a * u + b) ((S.kv dir).map (fun x => a * x + b)) tol' = findMultiplicity u (S.kv dir) tol) :
    splitDir (S.affineKv dir a b) dir (a * u + b) tol' = splitDir S dir u tol := by
  have hne : S.kv dir ≠ [] := by
    intro h; rw [h] at hp; simp at hp
  have ha' : a ≠ 0 := ne_of_gt ha
  unfold splitDir
  simp only []
  have hdeg : (S.affineKv dir a b).deg dir = S.deg dir := rfl
  have hsize : (S.affineKv dir a b).size dir = S.size dir := rfl
  rw [affineKv_kv, hdeg, hsize, cfg_getD_map_affine _ a b _ hp, cfg_getD_map_affine _ a b _ hn,
    hmult, fnOf_map_affine (S.kv dir) a b hne,
    findSpanLinear_affine _ _ _ _ a b ha]
  simp only [cfg_affine_inj a b _ _ ha]
  split
  · rfl
  · generalize hX' : (ite (S.deg dir - findMultiplicity u (S.kv dir) tol = 0) (S.affineKv dir a b) _) = X'
    generalize hX : (ite (S.deg dir - findMultiplicity u (S.kv dir) tol = 0) S _) = X
    have hXX : X' = X.affineKv dir a b := by
      rw [← hX', ← hX]
      split
      · rfl
      · rw [insertKnotDir_affine_gen S dir u _ tol tol' a b false ha hne hmult]
        cases insertKnotDir S dir u (S.deg dir - findMultiplicity u (S.kv dir) tol) tol false <;> rfl
    have hXne : X.kv dir ≠ [] := by
      rw [← hX]
      split
      · exact hne
      · cases hins : insertKnotDir S dir u (S.deg dir - findMultiplicity u (S.kv dir) tol) tol false with
        | none => exact hne
        | some T => exact cfg_insertKnotDir_kv_ne S T dir u _ tol false hins hne
    clear hX hX'
    subst hXX
    have hkvs : ∀ Y : List K, List.map normKv ((X.affineKv dir a b).kvs.set dir (Y.map (fun y => a * y + b)))
        = List.map normKv (X.kvs.set dir Y) := by
      intro Y
      rw [affineKv_kvs_set, List.map_set, List.map_set]
      unfold normKv
      rw [knotNormalize_affine Y a b ha']
    have hsz : (X.affineKv dir a b).size dir = X.size dir := rfl
    have hszs : (X.affineKv dir a b).sizes = X.sizes := rfl
    have hrat : (X.affineKv dir a b).rat = X.rat := rfl
    have hdegs : (X.affineKv dir a b).degs = X.degs := rfl
    have hmap : ∀ g, (X.affineKv dir a b).mapDir dir g = X.mapDir dir g := fun _ => rfl
    rw [affineKv_kv, hsz, hszs, hrat, hdegs, fnOf_map_affine _ a b hXne, findSpanLinear_affine _ _ _ _ a b ha]
    simp only [hmap]
    have e1 : ∀ n, List.take n ((X.kv dir).map (fun y => a * y + b)) ++ [a * u + b]
        = (List.take n (X.kv dir) ++ [u]).map (fun y => a * y + b) := by
      intro n; simp [List.map_take]
    have e2 : ∀ n m, List.replicate m (a * u + b) ++ List.drop n ((X.kv dir).map (fun y => a * y + b))
        = (List.replicate m u ++ List.drop n (X.kv dir)).map (fun y => a * y + b) := by
      intro n m; simp [List.map_drop]
    rw [e1, e2, hkvs, hkvs]

theorem splitDir_affine (S : Shape K) (dir : ℕ) (u tol a b : K) (ha : 0 < a)
    (hp : S.deg dir < (S.kv dir).length) (hn : S.size dir < (S.kv dir).length) :
    splitDir (S.affineKv dir a b) dir (a * u + b) (a * tol) = splitDir S dir u tol :=
  splitDir_affine_gen S dir u tol (a * tol) a b ha hp hn (findMultiplicity_affine u (S.kv dir) tol a b ha)

/-- … with the SAME tolerance in both knot ranges (the code's fixed `1e-7`), when in both ranges every knot is
    either equal to the split parameter or further than the tolerance away from it -/
theorem splitDir_affine_fixed_tol (S : Shape K) (dir : ℕ) (u tol a b : K) (ha : 0 < a) (htol : 0 ≤ tol)
    (hp : S.deg dir < (S.kv dir).length) (hn : S.size dir < (S.kv dir).length)
    (hsep : ∀ y ∈ S.kv dir, u = y ∨ (tol < |u - y| ∧ tol < a * |u - y|)) :
    splitDir (S.affineKv dir a b) dir (a * u + b) tol = splitDir S dir u tol :=
  splitDir_affine_gen S dir u tol tol a b ha hp hn (findMultiplicity_affine_sep u (S.kv dir) tol a b ha htol hsep)

theorem insertKnotDir_affine_fixed_tol (S : Shape K) (dir : ℕ) (u : K) (r : ℕ) (tol a b : K) (check : Bool) (ha : 0 < a)
    (htol : 0 ≤ tol) (hne : S.kv dir ≠ [])
    (hsep : ∀ y ∈ S.kv dir, u = y ∨ (tol < |u - y| ∧ tol < a * |u - y|)) :
    insertKnotDir (S.affineKv dir a b) dir (a * u + b) r tol check
      = (insertKnotDir S dir u r tol check).map (fun T => T.affineKv dir a b) :=
  insertKnotDir_affine_gen S dir u r tol tol a b check ha hne
    (findMultiplicity_affine_sep u (S.kv dir) tol a b ha htol hsep)

theorem removeKnotDir_affine_fixed_tol (S : Shape K) (dir : ℕ) (u : K) (num : ℕ) (tol tol2 a b : K) (check : Bool)
    (ha : 0 < a) (htol : 0 ≤ tol) (hne : S.kv dir ≠ [])
    (hsep : ∀ y ∈ S.kv dir, u = y ∨ (tol < |u - y| ∧ tol < a * |u - y|)) :
    removeKnotDir (S.affineKv dir a b) dir (a * u + b) num tol tol2 check
      = (removeKnotDir S dir u num tol tol2 check).map (fun T => T.affineKv dir a b) :=
  removeKnotDir_affine_gen S dir u num tol tol tol2 a b check ha hne
    (findMultiplicity_affine_sep u (S.kv dir) tol a b ha htol hsep)

end Geomdl
