import NurbsVerif.Lemmas.BasisProps

/-!
  Strict positivity of A2.2 (`basisFuns`) – the exact zero pattern on a non-empty closed span.

  For `U k ≤ u ≤ U (k+1)`, `U k < U (k+1)`, `p ≤ k`, entry `j` of `basisFuns p U k u` (the value of
  `N_{k-p+j,p}` on span `k`) is positive iff
    `(j = 0 ∨ U (k-p+j) < u) ∧ (j = p ∨ u < U (k+j+1))`
  and zero otherwise.  Strictly inside the span both conditions hold for every `j`; at the left end
  `u = U k` the entries with `U (k-p+j) = U k`, `j ≥ 1`, vanish; at the right end `u = U (k+1)` the
  entries with `U (k+j+1) = U (k+1)`, `j < p`, vanish.
-/
namespace Geomdl
open Blossom
variable {K : Type} [Field K] [LinearOrder K] [IsStrictOrderedRing K]

theorem basisFuns_getD_nonneg_all (p : ℕ) {U : ℕ → K} {k : ℕ} {u : K} (h : SpanOk U k u) (b : ℕ) :
    0 ≤ (basisFuns p U k u).getD b 0 := by
  rw [List.getD_eq_getElem?_getD]
  cases hb : (basisFuns p U k u)[b]? with
  | none => simp
  | some x => exact basisFuns_nonneg p h x (List.mem_of_getElem? hb)

theorem term_pos_iff {c x d : K} (hc : 0 ≤ c) (hx : 0 ≤ x) (hd : 0 < d) :
    0 < c * (x / d) ↔ 0 < c ∧ 0 < x := by
  constructor
  · intro hpos
    rcases hc.lt_or_eq with hc' | hc'
    · rcases hx.lt_or_eq with hx' | hx'
      · exact ⟨hc', hx'⟩
      · rw [← hx'] at hpos; simp at hpos
    · rw [← hc'] at hpos; simp at hpos
  · rintro ⟨h1, h2⟩; exact mul_pos h1 (div_pos h2 hd)

theorem add_pos_iff_nonneg {a b : K} (ha : 0 ≤ a) (hb : 0 ≤ b) : 0 < a + b ↔ 0 < a ∨ 0 < b := by
  constructor
  · intro hpos
    by_contra hcon
    rw [not_or, not_lt, not_lt] at hcon
    linarith [hcon.1, hcon.2]
  · rintro (h1 | h1) <;> linarith

/-- **Zero pattern of A2.2 on a closed non-empty span.** -/
theorem basisFuns_pos_iff {U : ℕ → K} {k : ℕ} {u : K} (h : SpanOk U k u) :
    ∀ (p : ℕ), p ≤ k → ∀ j, j ≤ p →
      (0 < (basisFuns p U k u).getD j 0 ↔ (j = 0 ∨ U (k + j - p) < u) ∧ (j = p ∨ u < U (k + j + 1))) := by
  intro p
  induction p with
  | zero =>
    intro _ j hj
    obtain rfl : j = 0 := by omega
    simp [basisFuns]
  | succ p ih =>
    intro hp j hj
    have ihp := ih (by omega)
    have hN : ∀ b, 0 ≤ (basisFuns p U k u).getD b 0 := basisFuns_getD_nonneg_all p h
    have hm := h.mono
    have hne := h.nonempty
    rw [basisFuns_succ]
    unfold bfStep
    rw [bfInner_getD, basisFuns_length]
    simp only [Nat.zero_add]
    -- the two terms
    have hT1 : 1 ≤ j → (0 < left U k u (p + 1 - (j - 1)) * ((basisFuns p U k u).getD (j - 1) 0
          / (right U k u j + left U k u (p + 1 - (j - 1))))
        ↔ U (k + j - (p + 1)) < u ∧ (j = p + 1 ∨ u < U (k + j))) := by
      intro hj1
      rw [term_pos_iff (left_nonneg h _ (by omega)) (hN _) (den_pos h _ _ (by omega) (by omega)),
        ihp (j - 1) (by omega)]
      have e1 : k + 1 - (p + 1 - (j - 1)) = k + j - (p + 1) := by omega
      have e2 : k + (j - 1) - p = k + j - (p + 1) := by omega
      have e3 : k + (j - 1) + 1 = k + j := by omega
      unfold left
      rw [e1, e2, e3, sub_pos]
      constructor
      · rintro ⟨a, _, c⟩
        exact ⟨a, c.imp (by omega) id⟩
      · rintro ⟨a, c⟩
        exact ⟨a, Or.inr a, c.imp (by omega) id⟩
    have hT2 : j ≤ p → (0 < right U k u (j + 1) * ((basisFuns p U k u).getD j 0
          / (right U k u (j + 1) + left U k u (p + 1 - j)))
        ↔ u < U (k + j + 1) ∧ (j = 0 ∨ U (k + j - p) < u)) := by
      intro hjp
      rw [term_pos_iff (right_nonneg h _ (by omega)) (hN _) (den_pos h _ _ (by omega) (by omega)),
        ihp j hjp]
      unfold right
      rw [sub_pos, ← Nat.add_assoc]
      constructor
      · rintro ⟨a, b, _⟩; exact ⟨a, b⟩
      · rintro ⟨a, b⟩; exact ⟨a, b, Or.inr a⟩
    rcases Nat.eq_zero_or_pos j with hj0 | hj0
    · subst hj0
      rw [if_pos rfl, if_pos (by omega), zero_add, hT2 (by omega)]
      constructor
      · rintro ⟨a, _⟩; exact ⟨Or.inl rfl, Or.inr a⟩
      · rintro ⟨_, a⟩
        rcases a with a | a
        · omega
        · exact ⟨a, Or.inl rfl⟩
    · rw [if_neg (by omega), if_pos hj]
      by_cases hjp : j < p + 1
      · rw [if_pos hjp]
        have n1 : 0 ≤ left U k u (p + 1 - (j - 1)) * ((basisFuns p U k u).getD (j - 1) 0
            / (right U k u j + left U k u (p + 1 - (j - 1)))) :=
          mul_nonneg (left_nonneg h _ (by omega))
            (div_nonneg (hN _) (le_of_lt (den_pos h _ _ (by omega) (by omega))))
        have n2 : 0 ≤ right U k u (j + 1) * ((basisFuns p U k u).getD j 0
            / (right U k u (j + 1) + left U k u (p + 1 - j))) :=
          mul_nonneg (right_nonneg h _ (by omega))
            (div_nonneg (hN _) (le_of_lt (den_pos h _ _ (by omega) (by omega))))
        rw [add_pos_iff_nonneg n1 n2, hT1 hj0, hT2 (by omega)]
        have m1 : U (k + j - (p + 1)) ≤ U (k + j - p) := hm (by omega)
        have m2 : U (k + j) ≤ U (k + j + 1) := hm (by omega)
        have m3 : U (k + j - p) ≤ U k := hm (by omega)
        have m4 : U (k + 1) ≤ U (k + j) := hm (by omega)
        constructor
        · rintro (⟨a, b⟩ | ⟨a, b⟩)
          · refine ⟨Or.inr a, ?_⟩
            rcases b with b | b
            · exact Or.inl b
            · exact Or.inr (lt_of_lt_of_le b m2)
          · refine ⟨?_, Or.inr a⟩
            rcases b with b | b
            · omega
            · exact Or.inr (lt_of_le_of_lt m1 b)
        · rintro ⟨a, b⟩
          have a' : U (k + j - (p + 1)) < u := by
            rcases a with a | a
            · omega
            · exact a
          have b' : u < U (k + j + 1) := by
            rcases b with b | b
            · omega
            · exact b
          by_cases hc : u < U (k + j)
          · exact Or.inl ⟨a', Or.inr hc⟩
          · right
            refine ⟨b', Or.inr ?_⟩
            have hc' := not_lt.mp hc
            by_contra hcon
            have hcon' := not_lt.mp hcon
            linarith
      · have hjeq : j = p + 1 := by omega
        rw [if_neg hjp, add_zero, hT1 hj0]
        constructor
        · rintro ⟨a, _⟩; exact ⟨Or.inr a, Or.inl hjeq⟩
        · rintro ⟨a, _⟩
          rcases a with a | a
          · omega
          · exact ⟨a, Or.inl hjeq⟩

/-- entries are non-negative, so "not positive" is "zero" -/
theorem basisFuns_eq_zero_iff {U : ℕ → K} {k : ℕ} {u : K} (h : SpanOk U k u) (p : ℕ) (hp : p ≤ k) (j : ℕ) (hj : j ≤ p) :
    (basisFuns p U k u).getD j 0 = 0 ↔ ¬ ((j = 0 ∨ U (k + j - p) < u) ∧ (j = p ∨ u < U (k + j + 1))) := by
  rw [← basisFuns_pos_iff h p hp j hj]
  have := basisFuns_getD_nonneg_all p h j
  constructor
  · intro e; rw [e]; exact lt_irrefl _
  · intro hn; exact le_antisymm (not_lt.mp hn) this

theorem basisFuns_ne_zero_iff {U : ℕ → K} {k : ℕ} {u : K} (h : SpanOk U k u) (p : ℕ) (hp : p ≤ k) (j : ℕ) (hj : j ≤ p) :
    (basisFuns p U k u).getD j 0 ≠ 0 ↔ (j = 0 ∨ U (k + j - p) < u) ∧ (j = p ∨ u < U (k + j + 1)) := by
  rw [Ne, basisFuns_eq_zero_iff h p hp j hj, not_not]

/-! ### strictly inside the span: every entry is positive (no condition `p ≤ k`) -/

theorem bfInner_pos (L R : ℕ → K) (j : ℕ) (N : List K) : ∀ (r : ℕ) (s : K),
    0 ≤ s → (N ≠ [] ∨ 0 < s) → (∀ x ∈ N, 0 < x) → r + N.length ≤ j →
    (∀ a, 1 ≤ a → a ≤ j → 0 < L a) → (∀ a, 1 ≤ a → a ≤ j → 0 < R a) →
    ∀ x ∈ bfInner L R j r N s, 0 < x := by
  induction N with
  | nil =>
    intro r s _ hs _ _ _ _ x hx
    simp only [bfInner, List.mem_singleton] at hx
    rcases hs with hs | hs
    · exact absurd rfl hs
    · rw [hx]; exact hs
  | cons n ns ih =>
    intro r s hs _ hN hlen hL hR x hx
    simp only [List.length_cons] at hlen
    simp only [bfInner, List.mem_cons] at hx
    have hn : 0 < n := hN n (by simp)
    have hRr : 0 < R (r+1) := hR _ (by omega) (by omega)
    have hLr : 0 < L (j - r) := hL _ (by omega) (by omega)
    have ht : 0 < n / (R (r+1) + L (j - r)) := div_pos hn (add_pos hRr hLr)
    rcases hx with hx | hx
    · rw [hx]; exact add_pos_of_nonneg_of_pos hs (mul_pos hRr ht)
    · exact ih (r+1) _ (le_of_lt (mul_pos hLr ht)) (Or.inr (mul_pos hLr ht))
        (fun y hy => hN y (by simp [hy])) (by omega) hL hR x hx

/-- **Strict positivity of A2.2 inside a span**: for a non-decreasing knot function and
    `U k < u < U (k+1)` every one of the `p+1` values returned by `basis_function` is positive. -/
theorem basisFuns_pos_inside (p : ℕ) {U : ℕ → K} {k : ℕ} {u : K} (hm : Monotone U)
    (h1 : U k < u) (h2 : u < U (k+1)) : ∀ x ∈ basisFuns p U k u, 0 < x := by
  induction p with
  | zero => intro x hx; simp [basisFuns] at hx; simp [hx]
  | succ p ih =>
    rw [basisFuns_succ]
    unfold bfStep
    apply bfInner_pos _ _ _ _ 0 0 (le_refl _) _ ih
    · rw [Blossom.basisFuns_length]; omega
    · intro a ha _
      unfold left
      have : U (k + 1 - a) ≤ U k := hm (by omega)
      linarith
    · intro a ha _
      unfold right
      have : U (k + 1) ≤ U (k + a) := hm (by omega)
      linarith
    · left
      intro e
      have := Blossom.basisFuns_length p U k u
      rw [e] at this
      simp at this

theorem basisFuns_getD_pos_inside (p : ℕ) {U : ℕ → K} {k : ℕ} {u : K} (hm : Monotone U)
    (h1 : U k < u) (h2 : u < U (k+1)) (j : ℕ) (hj : j ≤ p) : 0 < (basisFuns p U k u).getD j 0 := by
  have hmem : (basisFuns p U k u).getD j 0 ∈ basisFuns p U k u := by
    rw [List.getD_eq_getElem?_getD, List.getElem?_eq_getElem (by rw [Blossom.basisFuns_length]; omega)]
    exact List.getElem_mem _
  exact basisFuns_pos_inside p hm h1 h2 _ hmem

/-! ### the left end of a span (`u = U k`) and the half-open span -/

/-- half-open span `U k ≤ u < U (k+1)`: entry `j` is positive iff `j = 0` or `U (k-p+j) < u` -/
theorem basisFuns_pos_iff_halfopen {U : ℕ → K} {k : ℕ} {u : K} (hm : Monotone U) (h1 : U k ≤ u) (h2 : u < U (k+1))
    (p : ℕ) (hp : p ≤ k) (j : ℕ) (hj : j ≤ p) :
    0 < (basisFuns p U k u).getD j 0 ↔ (j = 0 ∨ U (k + j - p) < u) := by
  rw [basisFuns_pos_iff ⟨hm, h1, le_of_lt h2, lt_of_le_of_lt h1 h2⟩ p hp j hj]
  have : U (k + 1) ≤ U (k + j + 1) := hm (by omega)
  exact ⟨fun a => a.1, fun a => ⟨a, Or.inr (lt_of_lt_of_le h2 this)⟩⟩

/-- at the left end `u = U k` of a non-empty span: entry `j` is positive iff `j = 0` or
    `U (k-p+j) < U k` – with `U k` of multiplicity `m` (counted among `U (k-p+1) … U k`) the last
    `min m p` entries vanish, the others are positive -/
theorem basisFuns_pos_iff_left {U : ℕ → K} {k : ℕ} (hm : Monotone U) (hne : U k < U (k+1))
    (p : ℕ) (hp : p ≤ k) (j : ℕ) (hj : j ≤ p) :
    0 < (basisFuns p U k (U k)).getD j 0 ↔ (j = 0 ∨ U (k + j - p) < U k) :=
  basisFuns_pos_iff_halfopen hm (le_refl _) hne p hp j hj

/-- `N_{k,p}(U k) = 0` for `p ≥ 1`: the last entry vanishes at the left end of the span -/
theorem basisFuns_last_zero_left {U : ℕ → K} {k : ℕ} (hm : Monotone U) (hne : U k < U (k+1))
    (p : ℕ) (hp : p ≤ k) (hp1 : 1 ≤ p) : (basisFuns p U k (U k)).getD p 0 = 0 := by
  rw [basisFuns_eq_zero_iff ⟨hm, le_refl _, le_of_lt hne, hne⟩ p hp p (le_refl _)]
  rintro ⟨a, _⟩
  rcases a with a | a
  · omega
  · rw [Nat.add_sub_cancel] at a; exact lt_irrefl _ a

/-- at the right end `u = U (k+1)` of a non-empty span: entry `j` is positive iff `j = p` or
    `U (k+1) < U (k+j+1)` -/
theorem basisFuns_pos_iff_right {U : ℕ → K} {k : ℕ} (hm : Monotone U) (hne : U k < U (k+1))
    (p : ℕ) (hp : p ≤ k) (j : ℕ) (hj : j ≤ p) :
    0 < (basisFuns p U k (U (k+1))).getD j 0 ↔ (j = p ∨ U (k + 1) < U (k + j + 1)) := by
  rw [basisFuns_pos_iff ⟨hm, le_of_lt hne, le_refl _, hne⟩ p hp j hj]
  have : U (k + j - p) ≤ U k := hm (by omega)
  exact ⟨fun a => a.2, fun a => ⟨Or.inr (lt_of_le_of_lt this hne), a⟩⟩

end Geomdl
