import NurbsVerif.Model.Eval
import NurbsVerif.Lemmas.Small
import NurbsVerif.Lemmas.DerivModel
import Mathlib.Data.Nat.Choose.Basic

/-! The list model of A4.2 (`CurveEvaluatorRational.derivatives`) solves the Leibniz system. -/
namespace Geomdl
open Finset
variable {K : Type} [Field K] [LinearOrder K] [IsStrictOrderedRing K]

theorem binom_eq_choose : ∀ n k, binom n k = Nat.choose n k
  | _, 0 => by simp [binom]
  | 0, k+1 => by simp [binom]
  | n+1, k+1 => by rw [binom, binom_eq_choose n k, binom_eq_choose n (k+1), Nat.choose_succ_succ]

/-- coordinates of the inner `for i in range(1, k+1)` loop of A4.2 -/
theorem ratInner_coord (d j : ℕ) (c : ℕ → K) (D : ℕ → List K) : ∀ (I : List ℕ) (v : List K),
    v.length = d → (∀ i ∈ I, (D i).length = d) →
    ((I.foldl (fun v i => List.zipWith (fun tmp drv => tmp - c i * drv) v (D i)) v).getD j 0
        = v.getD j 0 - (I.map (fun i => c i * (D i).getD j 0)).sum) ∧
    (I.foldl (fun v i => List.zipWith (fun tmp drv => tmp - c i * drv) v (D i)) v).length = d := by
  intro I
  induction I with
  | nil => intro v hv _; simp [hv]
  | cons i is ih =>
    intro v hv hD
    simp only [List.foldl_cons, List.map_cons, List.sum_cons]
    have hDi : (D i).length = d := hD i (by simp)
    have hlen : (List.zipWith (fun tmp drv => tmp - c i * drv) v (D i)).length = d := by simp [hv, hDi]
    obtain ⟨h1, h2⟩ := ih _ hlen (fun x hx => hD x (by simp [hx]))
    refine ⟨?_, h2⟩
    rw [h1, zipWith_getD_gen (fun tmp drv => tmp - c i * drv) (by simp) v (D i) j (by rw [hv, hDi])]
    ring

/-- one outer step of A4.2 -/
def ratRow (CKw : List (List K)) (CK : List (List K)) (k : ℕ) : List K :=
  let w0 := (CKw.headD []).getLastD 1
  let v0 := (CKw.getD k []).dropLast
  let v := (List.range' 1 k).foldl (fun v i =>
      List.zipWith (fun tmp drv => tmp - (Nat.cast (binom k i) : K) * (CKw.getD i []).getLastD 0 * drv) v (CK.getD (k - i) [])) v0
  v.map (· / w0)

theorem ratCurveDers_eq_fold (CKw : List (List K)) :
    ratCurveDers CKw = (List.range CKw.length).foldl (fun CK k => CK ++ [ratRow CKw CK k]) [] := rfl

theorem ratFold_prefix (CKw : List (List K)) : ∀ n,
    ((List.range n).foldl (fun CK k => CK ++ [ratRow CKw CK k]) []).length = n ∧
    ∀ k, k < n → ((List.range n).foldl (fun CK k => CK ++ [ratRow CKw CK k]) []).getD k []
        = ratRow CKw ((List.range k).foldl (fun CK k => CK ++ [ratRow CKw CK k]) []) k := by
  intro n
  induction n with
  | zero => simp
  | succ n ih =>
    obtain ⟨hl, hp⟩ := ih
    rw [List.range_succ, List.foldl_append]
    simp only [List.foldl_cons, List.foldl_nil]
    refine ⟨by simp [hl], ?_⟩
    intro k hk
    by_cases hkn : k < n
    · rw [List.getD_eq_getElem?_getD, List.getElem?_append_left (by omega), ← List.getD_eq_getElem?_getD]
      exact hp k hkn
    · have : k = n := by omega
      subst this
      rw [List.getD_eq_getElem?_getD, List.getElem?_append_right (by omega)]
      simp [hl]

end Geomdl

namespace Geomdl
open Finset
variable {K : Type} [Field K] [LinearOrder K] [IsStrictOrderedRing K]

theorem list_sum_range'_one (f : ℕ → K) : ∀ k, ((List.range' 1 k).map f).sum = ∑ i ∈ range k, f (i+1) := by
  intro k
  induction k with
  | zero => simp
  | succ k ih =>
    rw [List.range'_1_concat, List.map_append, List.sum_append, ih, Finset.sum_range_succ]
    simp [Nat.add_comm]

theorem getLastD_eq_getD (l : List K) (d : ℕ) (a : K) (h : l.length = d + 1) : l.getLastD a = l.getD d 0 := by
  rw [List.getLastD_eq_getLast?, List.getLast?_eq_getElem?, h]
  simp only [Nat.add_sub_cancel, List.getD_eq_getElem?_getD]
  rw [List.getElem?_eq_getElem (by omega)]
  simp

theorem dropLast_getD (l : List K) (d j : ℕ) (h : l.length = d + 1) (hj : j < d) : l.dropLast.getD j 0 = l.getD j 0 := by
  simp only [List.getD_eq_getElem?_getD, List.getElem?_dropLast]
  have : j < l.length - 1 := by omega
  simp [this]

/-- **A4.2 (list model) = the recursive solution of the Leibniz system**, coordinate by coordinate -/
theorem ratCurveDers_coord (CKw : List (List K)) (d : ℕ) (hrows : ∀ r ∈ CKw, r.length = d + 1) :
    ∀ k, k < CKw.length →
      ((ratCurveDers CKw).getD k []).length = d ∧
      ∀ j, j < d → ((ratCurveDers CKw).getD k []).getD j 0
        = ratDers (fun i => (CKw.getD i []).getD j 0) (fun i => (CKw.getD i []).getD d 0) k := by
  have hrow : ∀ i, i < CKw.length → (CKw.getD i []).length = d + 1 := by
    intro i hi
    rw [List.getD_eq_getElem?_getD, List.getElem?_eq_getElem hi]
    exact hrows _ (List.getElem_mem hi)
  intro k
  induction k using Nat.strong_induction_on with
  | _ k ih =>
    intro hk
    rw [ratCurveDers_eq_fold]
    obtain ⟨_, hpre⟩ := ratFold_prefix CKw CKw.length
    rw [hpre k hk]
    set CK := (List.range k).foldl (fun CK k => CK ++ [ratRow CKw CK k]) [] with hCK
    -- entries of the prefix are the entries of the full result
    have hentry : ∀ m, m < k → CK.getD m [] = (ratCurveDers CKw).getD m [] := by
      intro m hm
      rw [ratCurveDers_eq_fold, hpre m (by omega)]
      exact (ratFold_prefix CKw k).2 m hm
    have hw0 : (CKw.headD []).getLastD 1 = (CKw.getD 0 []).getD d 0 := by
      have : CKw.headD [] = CKw.getD 0 [] := by cases CKw <;> simp
      rw [this]; exact getLastD_eq_getD _ d 1 (hrow 0 (by omega))
    have hv0len : ((CKw.getD k []).dropLast).length = d := by
      rw [List.length_dropLast, hrow k hk]; omega
    have hD : ∀ i ∈ List.range' 1 k, (CK.getD (k - i) []).length = d := by
      intro i hi
      rw [List.mem_range'_1] at hi
      rw [hentry (k - i) (by omega)]
      exact (ih (k - i) (by omega) (by omega)).1
    obtain ⟨hcoord, hlen⟩ := ratInner_coord d 0
      (fun i => (Nat.cast (binom k i) : K) * (CKw.getD i []).getLastD 0) (fun i => CK.getD (k - i) [])
      (List.range' 1 k) ((CKw.getD k []).dropLast) hv0len hD
    refine ⟨?_, ?_⟩
    · simp only [ratRow, List.length_map]; exact hlen
    · intro j hj
      obtain ⟨hcj, _⟩ := ratInner_coord d j
        (fun i => (Nat.cast (binom k i) : K) * (CKw.getD i []).getLastD 0) (fun i => CK.getD (k - i) [])
        (List.range' 1 k) ((CKw.getD k []).dropLast) hv0len hD
      simp only [ratRow]
      have hmapd : ∀ (l : List K) (a : K), (l.map (fun x => x / a)).getD j 0 = l.getD j 0 / a := by
        intro l a
        simp only [List.getD_eq_getElem?_getD, List.getElem?_map]
        cases l[j]? <;> simp
      rw [hmapd, hcj, hw0, dropLast_getD _ d j (hrow k hk) hj, list_sum_range'_one]
      conv_rhs => rw [ratDers]
      rw [Fin.sum_univ_eq_sum_range (fun i => (Nat.choose k (i+1) : K) * (CKw.getD (i+1) []).getD d 0
            * ratDers (fun i => (CKw.getD i []).getD j 0) (fun i => (CKw.getD i []).getD d 0) (k - (i+1))) k]
      congr 2
      apply Finset.sum_congr rfl
      intro i hi
      rw [Finset.mem_range] at hi
      rw [binom_eq_choose, getLastD_eq_getD _ d 0 (hrow (i+1) (by omega)), hentry (k - (i+1)) (by omega)]
      rw [(ih (k - (i+1)) (by omega) (by omega)).2 j hj]

/-- hence the rational derivatives returned by the model satisfy the Leibniz system of every order:
    `Σ_i C(k,i) · w⁽ⁱ⁾ · C⁽ᵏ⁻ⁱ⁾ = A⁽ᵏ⁾` -/
theorem ratCurveDers_leibniz (CKw : List (List K)) (d : ℕ) (hrows : ∀ r ∈ CKw, r.length = d + 1)
    (hw : (CKw.getD 0 []).getD d 0 ≠ 0) (k j : ℕ) (hk : k < CKw.length) (hj : j < d) :
    ∑ i ∈ range (k+1), (Nat.choose k i : K) * (CKw.getD i []).getD d 0 * ((ratCurveDers CKw).getD (k - i) []).getD j 0
      = (CKw.getD k []).getD j 0 := by
  have := ratDers_leibniz (fun i => (CKw.getD i []).getD j 0) (fun i => (CKw.getD i []).getD d 0) hw k
  rw [← this]
  apply Finset.sum_congr rfl
  intro i hi
  rw [Finset.mem_range] at hi
  rw [(ratCurveDers_coord CKw d hrows (k - i) (by omega)).2 j hj]

end Geomdl
