import NurbsVerif.Lemmas.RemoveInvTemp
import NurbsVerif.Lemmas.Insert

/-! C06 helper lemmas, part 3: the `while j - i > t` sweep of one removal step of A5.8 recovers the
    previous row of the A5.1 triangle (from the left by solving for the right neighbour, from the
    right by solving for the left neighbour). -/
namespace Geomdl
namespace RemInv
open Blossom
variable {K : Type} [Field K] [LinearOrder K] [IsStrictOrderedRing K]

/-! ### the removal alphas on the refined knots are the insertion alphas on the old knots -/

theorem alphaI_eq (U : ℕ → K) (u : K) (k p r m' t i e : ℕ) (hi : i + p = k + (m' + 1) + e)
    (hr : r = m' + 1 + t) (hik : i ≤ k) (hpk : p ≤ k) :
    alphaI (Uh k r u U) u p t i = Geomdl.insAlpha U u k e (k - p + (m' + 1)) := by
  unfold alphaI Geomdl.insAlpha Uh
  rw [if_pos hik, if_neg (by omega), if_neg (by omega)]
  have e1 : i + p + 1 + t - r = e + k + 1 := by omega
  have e2 : k - p + (m' + 1) + e = i := by omega
  rw [e1, e2]

theorem alphaJ_eq (U : ℕ → K) (u : K) (k p r m' t j x : ℕ) (hj : j + p = k + (m' + 1) + x + t)
    (hjt : t ≤ j) (hr : r = m' + 1 + t) (hjk : j ≤ k + t) (hpk : p ≤ k) :
    alphaJ (Uh k r u U) u p t j = Geomdl.insAlpha U u k x (k - p + (m' + 1)) := by
  unfold alphaJ Geomdl.insAlpha Uh
  rw [if_pos (by omega), if_neg (by omega), if_neg (by omega)]
  have e1 : j + p + 1 - r = x + k + 1 := by omega
  have e2 : k - p + (m' + 1) + x = j - t := by omega
  rw [e1, e2]

theorem insAlpha_ne_zero (U : ℕ → K) (u : K) (k x Lv : ℕ) (h1 : U (Lv + x) < u) (h2 : u < U (x + k + 1)) :
    Geomdl.insAlpha U u k x Lv ≠ 0 := by
  unfold Geomdl.insAlpha
  apply div_ne_zero
  · exact sub_ne_zero.mpr (ne_of_gt h1)
  · exact sub_ne_zero.mpr (ne_of_gt (lt_trans h1 h2))

theorem one_sub_insAlpha_ne_zero (U : ℕ → K) (u : K) (k x Lv : ℕ) (h1 : U (Lv + x) < u) (h2 : u < U (x + k + 1)) :
    1 - Geomdl.insAlpha U u k x Lv ≠ 0 := by
  unfold Geomdl.insAlpha
  have hd : U (x + k + 1) - U (Lv + x) ≠ 0 := sub_ne_zero.mpr (ne_of_gt (lt_trans h1 h2))
  have : 1 - (u - U (Lv + x)) / (U (x + k + 1) - U (Lv + x)) = (U (x + k + 1) - u) / (U (x + k + 1) - U (Lv + x)) := by
    field_simp; ring
  rw [this]
  exact div_ne_zero (sub_ne_zero.mpr (ne_of_gt h2)) hd

/-! ### one iteration of the sweep -/

/-- the body of the sweep loop: the new `temp` array -/
def stepTemp (Un : ℕ → K) (u : K) (p t : ℕ) (cp temp : List (List K)) (i j ii jj : ℕ) : List (List K) :=
  let ai := alphaI Un u p t i
  let aj := alphaJ Un u p t j
  let ti := List.zipWith (fun cpt x => (cpt - (1 - ai) * x) / ai) (ptsGet cp i) (ptsGet temp (ii - 1))
  let temp1 := temp.set ii ti
  let tj := List.zipWith (fun cpt x => (cpt - aj * x) / (1 - aj)) (ptsGet cp j) (ptsGet temp1 (jj + 1))
  temp1.set jj tj

theorem remSweep_succ (Un : ℕ → K) (u : K) (p t : ℕ) (cp : List (List K)) (fuel : ℕ) (st : RemSt K) :
    remSweep Un u p t cp (fuel + 1) st
      = if st.i + t < st.j then
          remSweep Un u p t cp fuel { temp := stepTemp Un u p t cp st.temp st.i st.j st.ii st.jj,
                                      i := st.i + 1, j := st.j - 1, ii := st.ii + 1, jj := st.jj - 1 }
        else st := rfl

/-- what the `temp` array holds after `e` iterations of the sweep of the step that undoes insertion
    level `m' + 1`: the first `e + 1` entries of row `m'` from the left, the last `e + 1` from the
    right (stored with an offset of `t + 1`) -/
def TInv (U : ℕ → K) (u : K) (P : List (List K)) (k p s m' t W e : ℕ) (temp : List (List K)) : Prop :=
  temp.length = 2 * p + 1 ∧ (∀ x, x ≤ e → ptsGet temp x = T U u P k p s m' x) ∧
    (∀ y, W + 1 < y + e → y ≤ W + 2 → ptsGet temp y = T U u P k p s m' (y - t - 1))

/-- the working control points before removal step `t` (`m = r - t` copies still present): the left
    part holds the net with `m` copies, the right part holds it shifted by `t` slots -/
def CInv (U : ℕ → K) (u : K) (P : List (List K)) (k p s r m t : ℕ) (cp : List (List K)) : Prop :=
  cp.length = P.length + r ∧
  (∀ i, 2 * i + t + p + s ≤ 2 * k + r → ptsGet cp i = Q U u P k p s m i) ∧
  (∀ j, 2 * k + r + t ≤ 2 * j + p + s → j < P.length + r → ptsGet cp j = Q U u P k p s m (j - t))

section step
variable (U : ℕ → K) (u : K) (P : List (List K)) (k p s d r m' t F L W D : ℕ) (cp : List (List K))
  (hP : NetOk d P) (hpk : p ≤ k) (hk : k < P.length)
  (hA : ∀ i, i + s ≤ k → U i < u) (hB : ∀ i, k + 1 ≤ i → u < U i)
  (hr : r = m' + 1 + t) (hrs : r + s ≤ p)
  (hF : F + p = k + (m' + 1)) (hL : L + s = k + t) (hD : D + (m' + 1) + s = p) (hW : W = D + t)
  (hC : CInv U u P k p s r (m' + 1) t cp)
include hP hpk hk hA hB hr hrs hF hL hD hW hC

/-- control point read by the left sweep -/
theorem cp_left (e : ℕ) (he : 2 * e ≤ D) (he1 : e + 1 ≤ D + 1) :
    ptsGet cp (F + e) = List.zipWith (fun e1 e2 => Geomdl.insAlpha U u k e (k - p + (m' + 1)) * e2
            + (1 - Geomdl.insAlpha U u k e (k - p + (m' + 1))) * e1)
          (T U u P k p s m' e) (T U u P k p s m' (e + 1)) := by
  obtain ⟨_, h2, _⟩ := hC
  rw [h2 (F + e) (by omega)]
  have e1 : F + e = k - p + (m' + 1) + e := by omega
  rw [e1, Q_mid U u P k p s hpk hk (m' + 1) e (by omega), T_succ U u P k p s m' e (by omega)]

/-- control point read by the right sweep -/
theorem cp_right (e : ℕ) (he : 2 * e ≤ D) :
    ptsGet cp (L - e) = List.zipWith (fun e1 e2 => Geomdl.insAlpha U u k (D - e) (k - p + (m' + 1)) * e2
            + (1 - Geomdl.insAlpha U u k (D - e) (k - p + (m' + 1))) * e1)
          (T U u P k p s m' (D - e)) (T U u P k p s m' (D - e + 1)) := by
  obtain ⟨_, _, h3⟩ := hC
  rw [h3 (L - e) (by omega) (by omega)]
  have e1 : L - e - t = k - p + (m' + 1) + (D - e) := by omega
  rw [e1, Q_mid U u P k p s hpk hk (m' + 1) (D - e) (by omega), T_succ U u P k p s m' (D - e) (by omega)]

theorem stepTemp_inv (temp : List (List K)) (e : ℕ) (h2e : 2 * e < D)
    (hT : TInv U u P k p s m' t W e temp) :
    TInv U u P k p s m' t W (e + 1)
      (stepTemp (Uh k r u U) u p t cp temp (F + e) (L - e) (1 + e) (W + 1 - e)) := by
  obtain ⟨hlen, hTl, hTr⟩ := hT
  have hlenT : ∀ x, x ≤ D + 1 → (T U u P k p s m' x).length = d := fun x hx =>
    T_len U u P k p s d hP hpk hk m' x (by omega) (by omega)
  -- left
  have hai := alphaI_eq U u k p r m' t (F + e) e (by omega) hr (by omega) hpk
  have hane := insAlpha_ne_zero U u k e (k - p + (m' + 1)) (hA _ (by omega)) (hB _ (by omega))
  have hti : List.zipWith (fun cpt x => (cpt - (1 - alphaI (Uh k r u U) u p t (F + e)) * x) / alphaI (Uh k r u U) u p t (F + e))
      (ptsGet cp (F + e)) (ptsGet temp (1 + e - 1)) = T U u P k p s m' (e + 1) := by
    rw [hai, cp_left U u P k p s d r m' t F L W D cp hP hpk hk hA hB hr hrs hF hL hD hW hC e (by omega) (by omega)]
    rw [show 1 + e - 1 = e by omega, hTl e (le_refl _)]
    exact invL_comb _ hane _ _ (by rw [hlenT e (by omega), hlenT (e + 1) (by omega)])
  -- right
  have haj := alphaJ_eq U u k p r m' t (L - e) (D - e) (by omega) (by omega) hr (by omega) hpk
  have hbne := one_sub_insAlpha_ne_zero U u k (D - e) (k - p + (m' + 1)) (hA _ (by omega)) (hB _ (by omega))
  unfold stepTemp
  simp only []
  rw [hti]
  have hget : ptsGet (temp.set (1 + e) (T U u P k p s m' (e + 1))) (W + 1 - e + 1) = T U u P k p s m' (D - e + 1) := by
    rw [ptsGet_set, if_neg (by omega), hTr _ (by omega) (by omega)]
    congr 1; omega
  have htj : List.zipWith (fun cpt x => (cpt - alphaJ (Uh k r u U) u p t (L - e) * x) / (1 - alphaJ (Uh k r u U) u p t (L - e)))
      (ptsGet cp (L - e)) (ptsGet (temp.set (1 + e) (T U u P k p s m' (e + 1))) (W + 1 - e + 1))
        = T U u P k p s m' (D - e) := by
    rw [haj, hget, cp_right U u P k p s d r m' t F L W D cp hP hpk hk hA hB hr hrs hF hL hD hW hC e (by omega)]
    exact invR_comb _ hbne _ _ (by rw [hlenT (D - e) (by omega), hlenT (D - e + 1) (by omega)])
  rw [htj]
  refine ⟨by simp [hlen], ?_, ?_⟩
  · intro x hx
    rw [ptsGet_set, if_neg (by omega), ptsGet_set]
    by_cases hxe : 1 + e = x
    · rw [if_pos ⟨hxe, by omega⟩]; congr 1; omega
    · rw [if_neg (by omega)]; exact hTl x (by omega)
  · intro y hy1 hy2
    rw [ptsGet_set, List.length_set]
    by_cases hye : W + 1 - e = y
    · rw [if_pos ⟨hye, by omega⟩]; congr 1; omega
    · rw [if_neg (by omega), ptsGet_set, if_neg (by omega)]
      exact hTr y (by omega) hy2

/-- the whole sweep: it stops after `E = ⌈D/2⌉` iterations with the invariant for `E` -/
theorem sweep_inv : ∀ (fuel e : ℕ) (temp : List (List K)), D ≤ 2 * (e + fuel) → 2 * e ≤ D + 1 →
    TInv U u P k p s m' t W e temp →
    ∃ E temp', D ≤ 2 * E ∧ 2 * E ≤ D + 1 ∧ TInv U u P k p s m' t W E temp' ∧
      remSweep (Uh k r u U) u p t cp fuel { temp := temp, i := F + e, j := L - e, ii := 1 + e, jj := W + 1 - e }
        = { temp := temp', i := F + E, j := L - E, ii := 1 + E, jj := W + 1 - E } := by
  intro fuel
  induction fuel with
  | zero =>
    intro e temp h1 h2 hT
    exact ⟨e, temp, by omega, h2, hT, rfl⟩
  | succ fuel ih =>
    intro e temp h1 h2 hT
    rw [remSweep_succ]
    by_cases hc : F + e + t < L - e
    · have h2e : 2 * e < D := by omega
      have hT' := stepTemp_inv U u P k p s d r m' t F L W D cp hP hpk hk hA hB hr hrs hF hL hD hW hC temp e h2e hT
      obtain ⟨E, temp', g1, g2, g3, g4⟩ := ih (e + 1) _ (by omega) (by omega) hT'
      refine ⟨E, temp', g1, g2, g3, ?_⟩
      simp only []
      rw [if_pos hc]
      exact g4
    · simp only []
      rw [if_neg hc]
      exact ⟨e, temp, by omega, h2, hT, rfl⟩

end step
end RemInv
end Geomdl
