import NurbsVerif.Lemmas.DerivModel
import Mathlib.Algebra.Polynomial.Roots
import Mathlib.Order.Interval.Set.Infinite

/-! # Local linear independence of the B-spline basis (uniqueness of the coefficients on one span)

On a non-empty span `κ` the `p + 1` control values that are active there are determined by the span
polynomial: if the de Boor scheme run with the indeterminate (`polP`, `spanPoly`) returns the same
polynomial for two control sequences, the sequences agree on `κ - p .. κ`.

Proof (no basis-function formula, no determinant): by linearity it suffices that a vanishing span
polynomial has vanishing active coefficients; induction on the degree with `deriv_polP` (the derivative of
the degree-`p` span polynomial is `p` times the degree-`(p-1)` span polynomial of the scaled differences
on the SAME span): all active scaled differences vanish, so the active coefficients are one constant `a`,
the polynomial is the constant `a` (partition of unity, `polP_const`), hence `a = 0`.  The knot
differences that occur contain the span, so they are non-zero (`Sep`).  Characteristic 0 is used once
(the factor `p` of the derivative). -/
namespace Blossom
open Polynomial
variable {K : Type} [Field K]

/-- one de Boor level applied to a constant sequence returns the constant (the two coefficients add up to 1) -/
theorem dbP_const (t : ℕ → K) (q : ℕ) (a : K[X]) (i : ℕ) (h : t (i+q) - t i ≠ 0) :
    dbP t q (fun _ => a) i = a := by
  unfold dbP
  have h1 : C ((t (i+q) - t i)⁻¹) * (C (t (i+q)) - C (t i)) = (1 : K[X]) := by
    rw [← C_sub, ← C_mul, inv_mul_cancel₀ h, C_1]
  linear_combination a * h1

/-- **partition of unity at the level of polynomials**: the span polynomial of a constant control
    sequence is that constant -/
theorem polP_const (t : ℕ → K) (κ : ℕ) (hsep : Sep t κ) (a : K[X]) : ∀ (n q i : ℕ),
    n ≤ i → i ≤ κ → κ + n ≤ i + q → polP t q n (fun _ => a) i = a := by
  intro n
  induction n with
  | zero => intros; rfl
  | succ n ih =>
    intro q i h1 h2 h3
    simp only [polP]
    rw [polP_congr t n (q-1) (dbP t q (fun _ => a)) (fun _ => a) i
      (fun j hj1 hj2 => dbP_const t q a j (hsep j (j+q) (by omega) (by omega)))]
    exact ih (q-1) i (by omega) h2 (by omega)

theorem polP_sub (t : ℕ → K) (n q : ℕ) (a b : ℕ → K) (i : ℕ) :
    polP t q n (fun m => C (a m - b m)) i = polP t q n (fun m => C (a m)) i - polP t q n (fun m => C (b m)) i := by
  have e : (fun m => (C (a m - b m) : K[X])) = fun m => C (a m) + C (-1) * C (b m) := by
    funext m; rw [C_sub, C_neg, C_1]; ring
  rw [e, polP_add, polP_smul, C_neg, C_1]; ring

/-- **a vanishing span polynomial has vanishing active coefficients** (degree `p`, window `κ`, knots
    separated across the window) -/
theorem polP_eq_zero [CharZero K] (t : ℕ → K) (κ : ℕ) (hsep : Sep t κ) : ∀ (p : ℕ), p ≤ κ → ∀ (c : ℕ → K),
    polP t p p (fun m => C (c m)) κ = 0 → ∀ m, κ ≤ m + p → m ≤ κ → c m = 0 := by
  intro p
  induction p with
  | zero =>
    intro _ c h m h1 h2
    simp only [polP] at h
    obtain rfl : m = κ := by omega
    exact C_eq_zero.mp h
  | succ p ih =>
    intro hp c h m hm1 hm2
    -- the derivative vanishes: all active scaled differences vanish
    have hd := congrArg derivative h
    rw [deriv_polP t κ hsep (p+1) (p+1) _ κ hp (le_refl _) (by omega)] at hd
    simp only [derivative_C, derivative_zero, Nat.add_sub_cancel] at hd
    have hz : polP t (p+1) (p+1) (fun _ => (0 : K[X])) κ = 0 := by
      have := polP_smul t 0 (p+1) (p+1) (fun _ => (1 : K[X])) κ
      simpa using this
    rw [hz, zero_add] at hd
    have hdl : dl t (p+1) (fun m => C (c m)) = fun m => C ((t (m+(p+1)) - t m)⁻¹ * (c m - c (m-1))) := by
      funext m; unfold dl; rw [← C_sub, ← C_mul]
    rw [hdl] at hd
    have hd' : polP t p p (fun m => C ((t (m+(p+1)) - t m)⁻¹ * (c m - c (m-1)))) κ = 0 := by
      rcases mul_eq_zero.mp hd with h1 | h1
      · exfalso
        rw [← C_eq_natCast, C_eq_zero] at h1
        exact_mod_cast h1
      · exact h1
    have hdiff : ∀ m, κ ≤ m + p → m ≤ κ → c m = c (m-1) := by
      intro m h1 h2
      have := ih (by omega) _ hd' m h1 h2
      rcases mul_eq_zero.mp this with h3 | h3
      · exact absurd (inv_eq_zero.mp h3) (hsep m (m+(p+1)) h2 (by omega))
      · exact sub_eq_zero.mp h3
    -- hence all active coefficients are equal
    have hconst : ∀ i, i ≤ p + 1 → c (κ - i) = c κ := by
      intro i
      induction i with
      | zero => intro _; rfl
      | succ i ihi =>
        intro hi
        rw [← ihi (by omega), hdiff (κ - i) (by omega) (by omega)]
        congr 1
    -- so the polynomial is that constant
    have hP : polP t (p+1) (p+1) (fun m => C (c m)) κ = C (c κ) := by
      rw [polP_congr t (p+1) (p+1) (fun m => C (c m)) (fun _ => C (c κ)) κ
        (fun j hj1 hj2 => by
          have := hconst (κ - j) (by omega)
          rw [show κ - (κ - j) = j by omega] at this
          rw [this])]
      exact polP_const t κ hsep _ (p+1) (p+1) κ hp (le_refl _) (by omega)
    rw [hP] at h
    have h0 : c κ = 0 := C_eq_zero.mp h
    have := hconst (κ - m) (by omega)
    rw [show κ - (κ - m) = m by omega] at this
    rw [this, h0]

/-- **Local uniqueness of B-spline coefficients** (scalar control values): equal span polynomials on the
    window `κ` force equal control values at the `p + 1` active indices `κ - p .. κ`. -/
theorem polP_inj [CharZero K] (t : ℕ → K) (κ p : ℕ) (hsep : Sep t κ) (hp : p ≤ κ) (a b : ℕ → K)
    (h : polP t p p (fun m => C (a m)) κ = polP t p p (fun m => C (b m)) κ) :
    ∀ m, κ ≤ m + p → m ≤ κ → a m = b m := by
  intro m h1 h2
  have h0 : polP t p p (fun m => C (a m - b m)) κ = 0 := by rw [polP_sub, h, sub_self]
  exact sub_eq_zero.mp (polP_eq_zero t κ hsep p hp _ h0 m h1 h2)

end Blossom

namespace Geomdl
open Blossom Polynomial
variable {K : Type} [Field K] [LinearOrder K] [IsStrictOrderedRing K]

/-- the point evaluated on a given span is the value of the span polynomial -/
theorem curvePointAt_eq_eval_spanPoly (p : ℕ) (U : ℕ → K) (P : List (List K)) (κ : ℕ) (u : K) (d j : ℕ)
    (hp : p ≤ κ) (hκ : κ < P.length) (hP : NetOk d P) :
    (curvePointAt p U P κ u).getD j 0 = eval u (spanPoly p U P κ j) := by
  rw [curvePointAt_wsum p U P κ u d j hp hκ hP, diag U κ u p hp]
  unfold spanPoly
  rw [eval_polP]
  simp only [eval_C]

/-- **Local linear independence, coordinate `j`**: on a non-empty span `κ` of a sorted knot function, two
    control nets with the same span polynomial have the same `j`-th coordinate at every active control
    point `κ - p .. κ`. -/
theorem spanPoly_inj (p : ℕ) (U : ℕ → K) (P P' : List (List K)) (κ j : ℕ) (hm : Monotone U)
    (hspan : U κ < U (κ+1)) (hp : p ≤ κ) (h : spanPoly p U P κ j = spanPoly p U P' κ j) :
    ∀ m, κ ≤ m + p → m ≤ κ → (ptsGet P m).getD j 0 = (ptsGet P' m).getD j 0 :=
  polP_inj U κ p (sep_of_mono U κ hm hspan) hp _ _ h

/-- two polynomials that agree on a non-empty half-open interval of an ordered field are equal -/
theorem poly_eq_of_eq_on_Ico (f g : K[X]) (a b : K) (hab : a < b)
    (h : ∀ u, a ≤ u → u < b → eval u f = eval u g) : f = g := by
  apply Polynomial.eq_of_infinite_eval_eq
  apply Set.Infinite.mono _ (Set.Ico_infinite hab)
  intro u hu
  exact h u hu.1 hu.2

/-- equal evaluated points on a non-empty span give equal span polynomials -/
theorem spanPoly_eq_of_points (p : ℕ) (U : ℕ → K) (P P' : List (List K)) (κ d j : ℕ)
    (hspan : U κ < U (κ+1)) (hp : p ≤ κ) (hκ : κ < P.length) (hκ' : κ < P'.length)
    (hP : NetOk d P) (hP' : NetOk d P')
    (h : ∀ u, U κ ≤ u → u < U (κ+1) → (curvePointAt p U P κ u).getD j 0 = (curvePointAt p U P' κ u).getD j 0) :
    spanPoly p U P κ j = spanPoly p U P' κ j := by
  apply poly_eq_of_eq_on_Ico _ _ (U κ) (U (κ+1)) hspan
  intro u h1 h2
  rw [← curvePointAt_eq_eval_spanPoly p U P κ u d j hp hκ hP,
    ← curvePointAt_eq_eval_spanPoly p U P' κ u d j hp hκ' hP']
  exact h u h1 h2

omit [LinearOrder K] [IsStrictOrderedRing K] in
theorem pt_ext_getD (a b : List K) (hl : a.length = b.length) (h : ∀ j, a.getD j 0 = b.getD j 0) : a = b := by
  apply List.ext_getElem hl
  intro i h1 h2
  have := h i
  simpa [List.getD_eq_getElem?_getD, List.getElem?_eq_getElem h1, List.getElem?_eq_getElem h2] using this

/-- **Local linear independence, points**: on a non-empty span `κ` (`p ≤ κ`, inside both nets), two nets
    of `d`-dimensional points whose evaluated points agree for all `u` of the span have the same `p + 1`
    active control points `P (κ - p + r)`, `r ≤ p`. -/
theorem active_points_eq_of_points (p : ℕ) (U : ℕ → K) (P P' : List (List K)) (κ d : ℕ) (hm : Monotone U)
    (hspan : U κ < U (κ+1)) (hp : p ≤ κ) (hκ : κ < P.length) (hκ' : κ < P'.length)
    (hP : NetOk d P) (hP' : NetOk d P')
    (h : ∀ u, U κ ≤ u → u < U (κ+1) → ∀ j, (curvePointAt p U P κ u).getD j 0 = (curvePointAt p U P' κ u).getD j 0)
    (r : ℕ) (hr : r ≤ p) : ptsGet P (κ - p + r) = ptsGet P' (κ - p + r) := by
  apply pt_ext_getD
  · rw [ptsGet_length hP _ (by omega), ptsGet_length hP' _ (by omega)]
  · intro j
    exact spanPoly_inj p U P P' κ j hm hspan hp
      (spanPoly_eq_of_points p U P P' κ d j hspan hp hκ hκ' hP hP' (fun u h1 h2 => h u h1 h2 j))
      (κ - p + r) (by omega) (by omega)

/-- **The `p + 1` non-vanishing basis functions of a non-empty span are linearly independent** (as
    functions on the span): a combination of the A2.2 values that vanishes at every parameter of the span
    has zero coefficients. -/
theorem basisFuns_lin_indep (p : ℕ) (U : ℕ → K) (κ : ℕ) (hm : Monotone U) (hspan : U κ < U (κ+1)) (hp : p ≤ κ)
    (c : ℕ → K)
    (h : ∀ u, U κ ≤ u → u < U (κ+1) → ∑ r ∈ Finset.range (p+1), (basisFuns p U κ u).getD r 0 * c r = 0) :
    ∀ r, r ≤ p → c r = 0 := by
  have hsep := sep_of_mono U κ hm hspan
  have h0 : polP U p p (fun m => C (c (m - (κ - p)))) κ = 0 := by
    apply poly_eq_of_eq_on_Ico _ _ (U κ) (U (κ+1)) hspan
    intro u h1 h2
    rw [eval_polP, eval_zero]
    simp only [eval_C]
    rw [← diag U κ u p hp, wsum_eq_sum, Blossom.basisFuns_length]
    refine (Finset.sum_congr rfl ?_).trans (h u h1 h2)
    intro r _
    rw [show κ - p + r - (κ - p) = r by omega]
  intro r hr
  have := polP_eq_zero U κ hsep p hp _ h0 (κ - p + r) (by omega) (by omega)
  rw [show κ - p + r - (κ - p) = r by omega] at this
  exact this

end Geomdl
