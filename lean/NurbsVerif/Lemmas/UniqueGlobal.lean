import NurbsVerif.Lemmas.UniqueLocal
import NurbsVerif.Lemmas.InsertAll
import NurbsVerif.Lemmas.RemoveInvVec

/-! # Global uniqueness of B-spline control points

Two control nets over the same sorted knot function whose curves have the same points on the half-open
domain are EQUAL, provided every control point index is active on some non-empty span of the domain
(`AllActive`: no basis function vanishes identically on the domain; true for every clamped knot vector
whose interior multiplicities are at most `p + 1`).  The hypothesis is necessary: a basis function that
vanishes on the whole domain leaves its control point undetermined. -/
namespace Geomdl
open Blossom Polynomial
variable {K : Type} [Field K] [LinearOrder K] [IsStrictOrderedRing K]

/-- every basis function `N_{i,p}`, `i < n`, has a non-empty part of its support `[U i, U (i+p+1))` inside
    the domain `[U p, U n)` -/
def AllActive (p n : ℕ) (U : ℕ → K) : Prop := ∀ i, i < n → U (max i p) < U (min (i + p + 1) n)

instance (p n : ℕ) (U : ℕ → K) : Decidable (AllActive p n U) := by unfold AllActive; infer_instance

omit [Field K] [IsStrictOrderedRing K] in
/-- between two knots with different values there is a non-empty span -/
theorem exists_nonempty_span (U : ℕ → K) (a : ℕ) : ∀ b, a < b → U a < U b →
    ∃ κ, a ≤ κ ∧ κ < b ∧ U κ < U (κ+1) := by
  intro b
  induction b with
  | zero => intro h _; omega
  | succ b ih =>
    intro hab h
    by_cases hc : U b < U (b+1)
    · exact ⟨b, by omega, by omega, hc⟩
    · have h' : U a < U b := lt_of_lt_of_le h (not_lt.mp hc)
      have hlt : a < b := by
        rcases Nat.lt_or_ge a b with h1 | h1
        · exact h1
        · have : a = b := by omega
          subst this; exact absurd h' (lt_irrefl _)
      obtain ⟨κ, k1, k2, k3⟩ := ih hlt h'
      exact ⟨κ, k1, by omega, k3⟩

omit [Field K] [IsStrictOrderedRing K] in
/-- `AllActive` in the form used by the proof: every index is active on a non-empty span of the domain -/
theorem AllActive.span {p n : ℕ} {U : ℕ → K} (h : AllActive p n U) (hpn : p + 1 ≤ n) (i : ℕ) (hi : i < n) :
    ∃ κ, p ≤ κ ∧ κ < n ∧ i ≤ κ ∧ κ ≤ i + p ∧ U κ < U (κ+1) := by
  obtain ⟨κ, k1, k2, k3⟩ := exists_nonempty_span U (max i p) (min (i + p + 1) n) (by omega) (h i hi)
  exact ⟨κ, by omega, by omega, by omega, by omega, k3⟩

omit [Field K] [IsStrictOrderedRing K] in
/-- … and conversely (for a sorted knot function) -/
theorem allActive_of_spans {p n : ℕ} {U : ℕ → K} (hm : Monotone U)
    (h : ∀ i, i < n → ∃ κ, p ≤ κ ∧ κ < n ∧ i ≤ κ ∧ κ ≤ i + p ∧ U κ < U (κ+1)) : AllActive p n U := by
  intro i hi
  obtain ⟨κ, k1, k2, k3, k4, k5⟩ := h i hi
  calc U (max i p) ≤ U κ := hm (by omega)
    _ < U (κ+1) := k5
    _ ≤ U (min (i + p + 1) n) := hm (by omega)

/-- **Global uniqueness of B-spline control points (knot function form).**  Sorted knots, `n ≥ p + 1`
    control points of dimension `d` in both nets, every index active on the domain: if the two curves have
    the same point at every parameter of the half-open domain `[U p, U n)`, the nets are equal. -/
theorem net_unique (p d : ℕ) (U : ℕ → K) (P P' : List (List K)) (hm : Monotone U) (hpn : p + 1 ≤ P.length)
    (hlen : P'.length = P.length) (hP : NetOk d P) (hP' : NetOk d P') (hact : AllActive p P.length U)
    (h : ∀ u, U p ≤ u → u < U P.length → ∀ j, (curvePoint p U P u).getD j 0 = (curvePoint p U P' u).getD j 0) :
    P = P' := by
  apply RemInv.net_ext _ _ hlen.symm
  intro i hi
  obtain ⟨κ, k1, k2, k3, k4, k5⟩ := hact.span hpn i hi
  have key := active_points_eq_of_points p U P P' κ d hm k5 k1 k2 (by omega) hP hP' (by
    intro u h1 h2 j
    have hlo : U p ≤ u := le_trans (hm k1) h1
    have hhi : u < U P.length := lt_of_lt_of_le h2 (hm (by omega))
    have e := h u hlo hhi j
    unfold curvePoint at e
    rw [hlen, findSpanLinear_unique p U P.length u hpn hm hlo hhi κ h1 h2] at e
    exact e) (i - (κ - p)) (by omega)
  rw [show κ - p + (i - (κ - p)) = i by omega] at key
  exact key

/-- **Global uniqueness, well-formed curves**: two well-formed curve definitions over the same knot vector
    with the same points on the half-open domain have the same control points. -/
theorem curve_net_unique (p d : ℕ) (Ul : List K) (P P' : List (List K)) (hwf : CurveWF p d Ul P)
    (hlen : P'.length = P.length) (hP' : NetOk d P') (hact : AllActive p P.length (fnOf Ul))
    (h : ∀ u, fnOf Ul p ≤ u → u < fnOf Ul P.length → ∀ j,
      (curvePoint p (fnOf Ul) P u).getD j 0 = (curvePoint p (fnOf Ul) P' u).getD j 0) :
    P = P' :=
  net_unique p d (fnOf Ul) P P' hwf.mono hwf.pn hlen hwf.net hP' hact h

end Geomdl
