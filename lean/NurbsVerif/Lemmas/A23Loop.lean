import NurbsVerif.Lemmas.A23Ndu
import NurbsVerif.Lemmas.A23Diff
import Mathlib.Algebra.BigOperators.Intervals

/-! A2.3, part 3: one pass `k` of the derivative loop for the basis function `r`: the row `a[s2]` receives
    the `k`-fold differences of the unit sequence inside the window `j1 … j2` (plus the two special
    cases), and `d` their combination with the basis functions of degree `p-k`. -/
namespace Geomdl
open Blossom Finset
variable {K : Type} [Field K] [LinearOrder K] [IsStrictOrderedRing K]

/-- the middle loop `for j in range(j1, j1 + n)`, structurally -/
theorem a23Mid_fold (p : ℕ) (ndu : Arr2 K) (r k s1 s2 : ℕ) (hs : s1 ≠ s2) (j1 : ℕ) : ∀ (n : ℕ) (ad : Arr2 K × K),
    (∀ x, ((List.range' j1 n).foldl (a23Mid p ndu r k s1 s2) ad).1.get s1 x = ad.1.get s1 x) ∧
    (∀ j, j1 ≤ j → j < j1 + n → ((List.range' j1 n).foldl (a23Mid p ndu r k s1 s2) ad).1.get s2 j
        = (ad.1.get s1 j - ad.1.get s1 (j-1)) / ndu.get (p - k + 1) (r + j - k)) ∧
    (∀ x, ¬(j1 ≤ x ∧ x < j1 + n) → ((List.range' j1 n).foldl (a23Mid p ndu r k s1 s2) ad).1.get s2 x = ad.1.get s2 x) ∧
    ((List.range' j1 n).foldl (a23Mid p ndu r k s1 s2) ad).2
      = ad.2 + ∑ j ∈ Ico j1 (j1 + n), (ad.1.get s1 j - ad.1.get s1 (j-1)) / ndu.get (p - k + 1) (r + j - k)
          * ndu.get (r + j - k) (p - k) := by
  intro n
  induction n with
  | zero =>
    intro ad
    refine ⟨fun x => rfl, fun j h1 h2 => by omega, fun x _ => rfl, by simp⟩
  | succ n ih =>
    intro ad
    obtain ⟨h1, h2, h3, h4⟩ := ih ad
    rw [List.range'_concat, List.foldl_append]
    simp only [List.foldl_cons, List.foldl_nil, Nat.one_mul]
    set ad' := (List.range' j1 n).foldl (a23Mid p ndu r k s1 s2) ad with had'
    refine ⟨?_, ?_, ?_, ?_⟩
    · intro x
      simp only [a23Mid]
      rw [upd2_get, if_neg (by intro h; exact hs h.1), h1]
    · intro j hj1 hj2
      simp only [a23Mid]
      rw [upd2_get]
      by_cases hj : j = j1 + n
      · subst hj
        rw [if_pos ⟨rfl, rfl⟩, h1, h1]
      · rw [if_neg (by omega)]
        exact h2 j hj1 (by omega)
    · intro x hx
      simp only [a23Mid]
      rw [upd2_get, if_neg (by omega)]
      exact h3 x (by omega)
    · simp only [a23Mid]
      rw [h4, h1, h1, show j1 + (n + 1) = (j1 + n) + 1 by omega, Finset.sum_Ico_succ_top (by omega), add_assoc]

/-- `a[k][j]` of the book for the basis function `r` of the span: the `k`-fold plain difference of the unit
    sequence `e_{κ-p+r}` at index `κ-p+r+j` -/
def aCoef (p κ r : ℕ) (U : ℕ → K) (k j : ℕ) : K := dPlain U p k (eU (κ - p + r)) (κ - p + r + j)

theorem aCoef_mid (p κ r : ℕ) (U : ℕ → K) (u : K) (hp : p ≤ κ) (k' j : ℕ) (hj1 : 1 ≤ j) (hkj : k' + 1 ≤ r + j)
    (hjp : r + j ≤ p) (hk : k' + 1 ≤ p) :
    (aCoef p κ r U k' j - aCoef p κ r U k' (j-1))
        / (right U κ u (r + j - (k'+1) + 1) + left U κ u (p - (k'+1) + 1 - (r + j - (k'+1))))
      = aCoef p κ r U (k'+1) j := by
  unfold aCoef
  simp only [dPlain]
  unfold left right
  have e1 : κ + (r + j - (k'+1) + 1) = κ - p + r + j + (p - k') := by omega
  have e2 : κ + 1 - (p - (k'+1) + 1 - (r + j - (k'+1))) = κ - p + r + j := by omega
  have e3 : κ - p + r + (j - 1) = κ - p + r + j - 1 := by omega
  rw [e1, e2, e3]
  congr 1
  ring

theorem aCoef_zero (p κ r : ℕ) (U : ℕ → K) (u : K) (hp : p ≤ κ) (k' : ℕ) (hkr : k' + 1 ≤ r) (hr : r ≤ p) :
    aCoef p κ r U k' 0 / (right U κ u (r - (k'+1) + 1) + left U κ u (p - (k'+1) + 1 - (r - (k'+1))))
      = aCoef p κ r U (k'+1) 0 := by
  unfold aCoef
  simp only [dPlain, Nat.add_zero]
  rw [dPlain_unit_below U p (κ - p + r) k' (κ - p + r - 1) (by omega), sub_zero]
  unfold left right
  have e1 : κ + (r - (k'+1) + 1) = κ - p + r + (p - k') := by omega
  have e2 : κ + 1 - (p - (k'+1) + 1 - (r - (k'+1))) = κ - p + r := by omega
  rw [e1, e2]
  congr 1
  ring

theorem aCoef_top (p κ r : ℕ) (U : ℕ → K) (u : K) (hp : p ≤ κ) (k' : ℕ) (hrk : r + (k'+1) ≤ p) :
    -(aCoef p κ r U k' k') / (right U κ u (r + 1) + left U κ u (p - (k'+1) + 1 - r))
      = aCoef p κ r U (k'+1) (k'+1) := by
  unfold aCoef
  simp only [dPlain]
  rw [dPlain_unit_above U p (κ - p + r) k' (κ - p + r + (k'+1)) (by omega), zero_sub]
  unfold left right
  have e1 : κ + (r + 1) = κ - p + r + (k'+1) + (p - k') := by omega
  have e2 : κ + 1 - (p - (k'+1) + 1 - r) = κ - p + r + (k'+1) := by omega
  have e3 : κ - p + r + (k'+1) - 1 = κ - p + r + k' := by omega
  rw [e1, e2, e3]
  congr 1
  ring

/-- the three parts of `d` together are the sum over the window -/
theorem a23_window_sum (g : ℕ → K) (p r k' j1 j2 : ℕ) (hr : r ≤ p) (hk : k' + 1 ≤ p)
    (hj1 : j1 = if k' + 1 ≤ r + 1 then 1 else k' + 1 - r)
    (hj2 : j2 = if r + (k'+1) ≤ p + 1 then k' + 1 - 1 else p - r) :
    (if k' + 1 ≤ r then g 0 else 0) + ∑ j ∈ Ico j1 (j1 + (j2 + 1 - j1)), g j
        + (if r ≤ p - (k'+1) then g (k'+1) else 0)
      = ∑ j ∈ range (k'+2), if (k' + 1 ≤ r + j ∧ r + j ≤ p) then g j else 0 := by
  have hR : ∀ f : ℕ → K, ∑ j ∈ range (k'+2), f j = f 0 + ∑ j ∈ Ico (0+1) (k'+1), f j + f (k'+1) := by
    intro f
    rw [Finset.range_eq_Ico, Finset.sum_Ico_succ_top (by omega), Finset.sum_eq_sum_Ico_succ_bot (by omega)]
  rw [hR]
  have hmid : ∑ j ∈ Ico (0+1) (k'+1), (if (k' + 1 ≤ r + j ∧ r + j ≤ p) then g j else 0)
      = ∑ j ∈ Ico j1 (j1 + (j2 + 1 - j1)), g j := by
    rw [← Finset.sum_filter]
    apply Finset.sum_congr _ (fun _ _ => rfl)
    ext j
    simp only [Finset.mem_filter, Finset.mem_Ico]
    rw [hj1, hj2]
    split_ifs <;> omega
  rw [hmid]
  have h0 : (if (k' + 1 ≤ r + 0 ∧ r + 0 ≤ p) then g 0 else 0) = if k' + 1 ≤ r then g 0 else 0 := by
    by_cases h : k' + 1 ≤ r
    · rw [if_pos h, if_pos ⟨by omega, by omega⟩]
    · rw [if_neg h, if_neg (by omega)]
  have hk' : (if (k' + 1 ≤ r + (k'+1) ∧ r + (k'+1) ≤ p) then g (k'+1) else 0)
      = if r ≤ p - (k'+1) then g (k'+1) else 0 := by
    by_cases h : r ≤ p - (k'+1)
    · rw [if_pos h, if_pos ⟨by omega, by omega⟩]
    · rw [if_neg h, if_neg (by omega)]
  rw [h0, hk']

end Geomdl
