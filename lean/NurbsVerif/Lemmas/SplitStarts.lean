import NurbsVerif.Lemmas.SplitMain

/-! The non-empty knot intervals of a curve's domain (their start indices, in order) and the break
    points between them – what a Bézier decomposition must produce one piece for. -/
set_option linter.unusedSectionVars false
namespace Geomdl
open Blossom
variable {K : Type} [Field K] [LinearOrder K] [IsStrictOrderedRing K]

/-- start indices `i ∈ [p, n)` of the non-empty knot intervals `[U i, U (i+1))` of the domain, in order -/
def spanStarts (p : ℕ) (U : ℕ → K) (n : ℕ) : List ℕ :=
  (List.range' p (n - p)).filter (fun i => decide (U i < U (i + 1)))

/-- the distinct knot values of the domain `[U p, U n]`, in order: the starts of the non-empty
    intervals and the domain end -/
def breaks (p : ℕ) (U : ℕ → K) (n : ℕ) : List K := (spanStarts p U n).map U ++ [U n]

theorem breaks_length (p : ℕ) (U : ℕ → K) (n : ℕ) : (breaks p U n).length = (spanStarts p U n).length + 1 := by
  simp [breaks]

theorem mem_spanStarts (p : ℕ) (U : ℕ → K) (n i : ℕ) :
    i ∈ spanStarts p U n ↔ p ≤ i ∧ i < n ∧ U i < U (i + 1) := by
  unfold spanStarts
  rw [List.mem_filter, List.mem_range'_1]
  simp only [decide_eq_true_eq]
  constructor
  · rintro ⟨⟨h1, h2⟩, h3⟩; exact ⟨h1, by omega, h3⟩
  · rintro ⟨h1, h2, h3⟩; exact ⟨⟨h1, by omega⟩, h3⟩

theorem spanStarts_split (p k n : ℕ) (U : ℕ → K) (hpk : p ≤ k) (hkn : k ≤ n) :
    spanStarts p U n = spanStarts p U k ++ spanStarts k U n := by
  unfold spanStarts
  rw [← List.filter_append]
  congr 1
  have e1 : n - p = (k - p) + (n - k) := by omega
  have e2 : List.range' k (n - k) = List.range' (p + (k - p)) (n - k) := by
    congr 1; omega
  rw [e1, e2, List.range'_append_1]

theorem spanStarts_run (p k : ℕ) (U : ℕ → K) (hpk : p < k) (hlt : U p < U (p + 1))
    (heq : ∀ i, p + 1 ≤ i → i < k → ¬ (U i < U (i + 1))) : spanStarts p U k = [p] := by
  unfold spanStarts
  have e : k - p = (k - p - 1) + 1 := by omega
  rw [e, List.range'_succ, List.filter_cons]
  simp only [hlt, decide_true, if_true]
  congr 1
  rw [List.filter_eq_nil_iff]
  intro i hi
  rw [List.mem_range'_1] at hi
  simp only [decide_eq_true_eq]
  exact heq i (by omega) (by omega)

theorem spanStarts_shift (p c n : ℕ) (V U : ℕ → K)
    (h : ∀ i, p ≤ i → (V i < V (i + 1) ↔ U (i + c) < U (i + c + 1))) :
    spanStarts (p + c) U (n + c) = (spanStarts p V n).map (· + c) := by
  unfold spanStarts
  have e1 : n + c - (p + c) = n - p := by omega
  have e2 : List.range' (p + c) (n - p) = (List.range' p (n - p)).map (· + c) := by
    have := List.map_add_range' (a := c) p (n - p) 1
    rw [show c + p = p + c by omega] at this
    rw [← this]
    apply List.map_congr_left
    intro x _; omega
  rw [e1, e2, List.filter_map]
  congr 1
  apply List.filter_congr
  intro i hi
  rw [List.mem_range'_1] at hi
  simp only [Function.comp]
  rw [decide_eq_decide]
  exact (h i hi.1).symm

/-- the last interval of a well-formed curve is non-empty: there is at least one piece -/
theorem spanStarts_pos (p : ℕ) (U : ℕ → K) (n : ℕ) (hpn : p + 1 ≤ n) (hlast : U (n - 1) < U n) :
    0 < (spanStarts p U n).length := by
  apply List.length_pos_of_mem (a := n - 1)
  rw [mem_spanStarts]
  refine ⟨by omega, by omega, ?_⟩
  have : n - 1 + 1 = n := by omega
  rw [this]; exact hlast

/-- a Bézier segment has exactly one interval -/
theorem spanStarts_bezier (p : ℕ) (U : ℕ → K) (h : U p < U (p + 1)) : spanStarts p U (p + 1) = [p] := by
  unfold spanStarts
  have : p + 1 - p = 1 := by omega
  rw [this]
  simp [List.range', h]

end Geomdl
