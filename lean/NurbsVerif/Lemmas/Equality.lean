import Mathlib.Algebra.Order.Field.Basic
import Mathlib.Data.List.Forall2
import Mathlib.Tactic.Linarith
import NurbsVerif.Model.Equality

/-! Lemmas about the model of `SplineGeometry.__eq__` (C19). -/
namespace Geomdl
variable {K : Type} [Field K] [LinearOrder K] [IsStrictOrderedRing K]

theorem absK_abs (x : K) : absK x = |x| := by
  unfold absK
  split
  · rename_i h; rw [abs_of_neg h]
  · rename_i h; rw [abs_of_nonneg (not_lt.mp h)]

theorem closeB_iff (tol s o : K) : closeB tol s o = true ↔ |s - o| < tol := by
  simp [closeB, absK_abs]

theorem closeB_comm (tol s o : K) : closeB tol s o = closeB tol o s := by
  simp only [closeB, absK_abs, abs_sub_comm]

/-- two coordinate lists are componentwise closer than `tol` (and equally long) -/
abbrev VecWithin (tol : K) : List K → List K → Prop := List.Forall₂ (fun x y => |x - y| < tol)
/-- two lists of coordinate lists (knot vectors, control net) are entrywise closer than `tol` -/
abbrev NetWithin (tol : K) : List (List K) → List (List K) → Prop := List.Forall₂ (VecWithin tol)

theorem zipClose_iff (tol : K) : ∀ (s o : List K), s.length = o.length →
    ((List.zipWith (closeB tol) s o).all id = true ↔ VecWithin tol s o)
  | [], [], _ => by simp
  | [], _ :: _, h => by simp at h
  | _ :: _, [], h => by simp at h
  | x :: s, y :: o, h => by
      have ih := zipClose_iff tol s o (by simpa using h)
      simp only [List.zipWith_cons_cons, List.all_cons, id, Bool.and_eq_true, closeB_iff, ih,
        List.forall₂_cons]

theorem eqVec_iff (tol : K) (s o : List K) : eqVec tol s o = true ↔ VecWithin tol s o := by
  unfold eqVec
  constructor
  · intro h
    simp only [Bool.and_eq_true, decide_eq_true_eq] at h
    exact (zipClose_iff tol s o h.1).1 h.2
  · intro h
    have hl := h.length_eq
    simp only [Bool.and_eq_true, decide_eq_true_eq]
    exact ⟨hl, (zipClose_iff tol s o hl).2 h⟩

theorem eqVecs_iff (tol : K) : ∀ (A B : List (List K)), A.length = B.length →
    (eqVecs tol A B = true ↔ NetWithin tol A B)
  | [], [], _ => by simp [eqVecs]
  | [], _ :: _, h => by simp at h
  | _ :: _, [], h => by simp at h
  | s :: A, o :: B, h => by
      have ih := eqVecs_iff tol A B (by simpa using h)
      simp only [eqVecs, Bool.and_eq_true, eqVec_iff, ih, List.forall₂_cons]

theorem eqVec_comm (tol : K) (s o : List K) : eqVec tol s o = eqVec tol o s := by
  unfold eqVec
  congr 1
  · simp only [eq_comm]
  · congr 1
    induction s generalizing o with
    | nil => cases o <;> simp
    | cons x s ih => cases o with
      | nil => simp
      | cons y o => simp [closeB_comm tol x y, ih o]

theorem eqVecs_comm (tol : K) : ∀ (A B : List (List K)), eqVecs tol A B = eqVecs tol B A
  | [], [] => rfl
  | [], _ :: _ => rfl
  | _ :: _, [] => rfl
  | s :: A, o :: B => by simp only [eqVecs, eqVec_comm tol s o, eqVecs_comm tol A B]

theorem eqNats_comm : ∀ (A B : List Nat), eqNats A B = eqNats B A
  | [], [] => rfl
  | [], _ :: _ => rfl
  | _ :: _, [] => rfl
  | s :: A, o :: B => by simp only [eqNats, eqNats_comm A B, eq_comm]

theorem eqNats_iff : ∀ (A B : List Nat), A.length = B.length → (eqNats A B = true ↔ A = B)
  | [], [], _ => by simp [eqNats]
  | [], _ :: _, h => by simp at h
  | _ :: _, [], h => by simp at h
  | s :: A, o :: B, h => by
      have ih := eqNats_iff A B (by simpa using h)
      simp only [eqNats, Bool.and_eq_true, decide_eq_true_eq, ih, List.cons.injEq]

theorem vecWithin_refl {tol : K} (h : 0 < tol) (s : List K) : VecWithin tol s s :=
  List.forall₂_same.2 (fun x _ => by simpa using h)

theorem netWithin_refl {tol : K} (h : 0 < tol) (A : List (List K)) : NetWithin tol A A :=
  List.forall₂_same.2 (fun s _ => vecWithin_refl h s)

/-- index access into `NetWithin` -/
theorem netWithin_getD {tol : K} {A B : List (List K)} (h : NetWithin tol A B) (i j : ℕ)
    (hi : i < A.length) (hj : j < (A.getD i []).length) :
    |(A.getD i []).getD j 0 - (B.getD i []).getD j 0| < tol := by
  have hl := h.length_eq
  have hiB : i < B.length := hl ▸ hi
  have h1 := List.Forall₂.get h hi hiB
  simp only [List.get_eq_getElem] at h1
  have eA : A.getD i [] = A[i] := by simp [List.getD_eq_getElem?_getD, hi]
  have eB : B.getD i [] = B[i] := by simp [List.getD_eq_getElem?_getD, hiB]
  rw [eA] at hj ⊢; rw [eB]
  have hl2 := h1.length_eq
  have hjB : j < (B[i]).length := hl2 ▸ hj
  have h2 := List.Forall₂.get h1 hj hjB
  simp only [List.get_eq_getElem] at h2
  simpa [List.getD_eq_getElem?_getD, hj, hjB] using h2

/-- full characterisation of the repaired `==` on well-formed shapes -/
theorem eqShape_iff (a b : CmpShape K) (ha : a.wf) (hb : b.wf) :
    eqShape a b = true ↔
      a.pdim = b.pdim ∧ a.rational = b.rational ∧ a.size = b.size ∧ a.degree = b.degree ∧
      NetWithin a.tol a.knots b.knots ∧ NetWithin a.tol a.net b.net := by
  obtain ⟨ad, as, ak, an⟩ := ha
  obtain ⟨bd, bs, bk, bn⟩ := hb
  unfold eqShape
  simp only [Bool.and_eq_true, decide_eq_true_eq, beq_iff_eq]
  constructor
  · rintro ⟨⟨⟨⟨⟨hp, hr⟩, hs⟩, hd⟩, hk⟩, hn⟩
    have hs' : a.size = b.size := (eqNats_iff _ _ (by omega)).1 hs
    have hd' : a.degree = b.degree := (eqNats_iff _ _ (by omega)).1 hd
    refine ⟨hp, hr, hs', hd', (eqVecs_iff _ _ _ (by omega)).1 hk, (eqVecs_iff _ _ _ ?_).1 hn⟩
    rw [an, bn, hs']
  · rintro ⟨hp, hr, hs, hd, hk, hn⟩
    refine ⟨⟨⟨⟨⟨hp, hr⟩, ?_⟩, ?_⟩, ?_⟩, ?_⟩
    · exact (eqNats_iff _ _ (by omega)).2 hs
    · exact (eqNats_iff _ _ (by omega)).2 hd
    · exact (eqVecs_iff _ _ _ hk.length_eq).2 hk
    · exact (eqVecs_iff _ _ _ hn.length_eq).2 hn

theorem eqNats_refl : ∀ (A : List Nat), eqNats A A = true
  | [] => rfl
  | s :: A => by simp [eqNats, eqNats_refl A]

theorem eqShape_refl' (a : CmpShape K) (h : 0 < a.tol) : eqShape a a = true := by
  unfold eqShape
  simp only [Bool.and_eq_true, decide_eq_true_eq, beq_iff_eq, eqNats_refl, true_and, and_true]
  exact ⟨(eqVecs_iff _ _ _ rfl).2 (netWithin_refl h _), (eqVecs_iff _ _ _ rfl).2 (netWithin_refl h _)⟩

theorem eqShape_symm' (a b : CmpShape K) (h : a.tol = b.tol) : eqShape a b = eqShape b a := by
  unfold eqShape
  rw [← h, eqVecs_comm a.tol a.knots, eqVecs_comm a.tol a.net, eqNats_comm a.size, eqNats_comm a.degree]
  congr 5
  · simp only [eq_comm]
  · cases a.rational <;> cases b.rational <;> rfl

/-- `setAt2` keeps the outer length -/
theorem setAt2_length (L : List (List K)) (i j : ℕ) (x : K) : (setAt2 L i j x).length = L.length := by
  simp [setAt2]

theorem setAt2_getD (L : List (List K)) (i j : ℕ) (x : K) (hi : i < L.length)
    (hj : j < (L.getD i []).length) : ((setAt2 L i j x).getD i []).getD j 0 = x := by
  simp [setAt2, List.getD_eq_getElem?_getD, hi] at hj ⊢
  simp [hj]

end Geomdl

/-! concrete shapes used by the refutations and non-vacuity examples of `Props/C19.lean` -/
namespace Geomdl.EqWitness
def cA : CmpShape Int := ⟨1, true, [1], [[0, 0, 2, 4, 4]], [3], [[0, 0, 1], [1, 1, 1], [2, 0, 1]], 18, 1⟩
def cB : CmpShape Int := ⟨1, true, [1], [[0, 0, 2, 4, 4]], [3], [[0, 0, 1], [5, 7, 1], [2, 0, 1]], 18, 1⟩
def cC : CmpShape Int := ⟨1, true, [1], [[0, 0, 3, 4, 4]], [3], [[0, 0, 1], [1, 1, 1], [2, 0, 1]], 18, 1⟩
def qA : CmpShape Rat := ⟨1, false, [2], [[0, 0, 0, 1/2, 1, 1, 1]], [4], [[0, 0], [1, 1], [2, 0], [3, 1]], 18, 1/1000000000000000000⟩
def qB : CmpShape Rat := { qA with net := [[0, 0], [1, 3/2], [2, 0], [3, 1]] }
def qC : CmpShape Rat := { qA with knots := [[0, 0, 0, 1/2 + 1/500000000000000000, 1, 1, 1]] }
/-- a well-formed biquadratic-by-linear rational surface (sizes 3 × 2) with positive tolerance;
    changing its last weight by twice the tolerance is a legal instance of `perturb_net_ne` -/
def sQ : CmpShape ℚ :=
  ⟨2, true, [2, 1], [[0, 0, 0, 1, 1, 1], [0, 0, 1, 1]], [3, 2],
   [[0, 0, 0, 1], [0, 1, 0, 1], [1, 0, 2, 2], [1, 1, 2, 2], [2, 0, 0, 1], [2, 1, 0, 1]], 3, 1/1000⟩
end Geomdl.EqWitness
