import NurbsVerif.Lemmas.SurfLoopsA37Val

/-! A3.8 as coded (`SurfaceEvaluator2.derivatives`, model `surfaceDersA38`, on top of A3.7 as coded):
    the entries it fills are the true mixed partial derivatives; the table equals `surfaceDersAt … true`. -/
namespace Geomdl
open Blossom Polynomial Finset
open scoped Polynomial.Bivariate
variable {K : Type} [Field K] [LinearOrder K] [IsStrictOrderedRing K]

omit [LinearOrder K] [IsStrictOrderedRing K] in
/-- a rectangular table of vectors is the tabulation of its entries -/
theorem table_eq_map (T : List (List (List K))) (n m : ℕ) (hT : T.length = n)
    (hrow : ∀ k, k < n → (T.getD k []).length = m) :
    T = (List.range n).map (fun k => (List.range m).map (fun l => (T.getD k []).getD l [])) := by
  apply List.ext_getElem (by simp [hT])
  intro k h1 h2
  simp only [List.getElem_map, List.getElem_range]
  have e1 : T.getD k [] = T[k] := by simp [List.getD_eq_getElem?_getD, h1]
  have hr := hrow k (by omega)
  rw [e1] at hr ⊢
  apply List.ext_getElem (by simp [hr])
  intro l g1 g2
  simp only [List.getElem_map, List.getElem_range]
  simp [List.getD_eq_getElem?_getD, g1]

/-- `basis[j][q]` of `helpers.basis_function_all` is the `j`-th basis function of degree `q` -/
theorem bfAllGet_basisFunAll (p : ℕ) (U : ℕ → K) (κ : ℕ) (u : K) (j q : ℕ) (hj : j ≤ q) (hq : q ≤ p) :
    bfAllGet (basisFunAll p U κ u) j q = (basisFuns q U κ u).getD j 0 := by
  unfold bfAllGet basisFunAll
  simp only [List.getD_eq_getElem?_getD, List.getElem?_map]
  rw [List.getElem?_range (by omega)]
  simp only [Option.map_some, Option.getD_some, List.getElem?_map]
  rw [List.getElem?_range (by omega)]
  simp [hj]

/-- the accumulated vector of the two inner loops of A3.8 for the entry `[k][l]` -/
def a38Entry (pu pv : ℕ) (Nu Nv : List (List (Option K))) (PKL : Arr4 (Option (List K))) (d k l : ℕ) : List K :=
  (List.range (pv - l + 1)).foldl (fun acc i =>
    axpy (bfAllGet Nv i (pv - l)) acc
      ((List.range (pu - k + 1)).foldl (a38TempStep pu Nu PKL k l i) (vzero d))) (vzero d)

theorem a38L_get (pu pv : ℕ) (Nu Nv : List (List (Option K))) (PKL : Arr4 (Option (List K))) (d k : ℕ)
    (SKL : Arr2 (List K)) (l a b : ℕ) :
    (a38L pu pv Nu Nv PKL d k SKL l).get a b
      = if a = k ∧ b = l then a38Entry pu pv Nu Nv PKL d k l else SKL.get a b := by
  unfold a38L
  have := foldl_upd2 k l (fun acc i => axpy (bfAllGet Nv i (pv - l)) acc
      ((List.range (pu - k + 1)).foldl (a38TempStep pu Nu PKL k l i) (vzero d)))
    (List.range (pv - l + 1)) (upd2 SKL k l (vzero d)) a b
  refine Eq.trans this ?_
  by_cases h : a = k ∧ b = l
  · rw [if_pos h, if_pos h, upd2_get', if_pos ⟨rfl, rfl⟩]
    rfl
  · rw [if_neg h, if_neg h, upd2_get', if_neg h]

/-- entry `[k][l]` of the table A3.8 builds: assigned for `k ≤ du`, `l ≤ min(order - k, dv)`, zero elsewhere -/
theorem a38Table_get (pu pv : ℕ) (Uu Uv : ℕ → K) (su sv : ℕ) (P : List (List K)) (κu κv : ℕ) (u v : K)
    (order k l : ℕ) :
    (a38Table pu pv Uu Uv su sv P κu κv u v order).get k l
      = if k < min pu order + 1 ∧ l < min (order - k) (min pv order) + 1 then
          a38Entry pu pv (basisFunAll pu Uu κu u) (basisFunAll pv Uv κv v)
            (surfaceDerivCptsA37 pu pv Uu Uv su sv P (κu - pu) κu (κv - pv) κv order) (dimOf P) k l
        else vzero (dimOf P) := by
  unfold a38Table
  simp only []
  rw [foldl_rows2 _ (fun k => min (order - k) (min pv order) + 1)
    (fun k b _ => a38Entry pu pv (basisFunAll pu Uu κu u) (basisFunAll pv Uv κv v)
            (surfaceDerivCptsA37 pu pv Uu Uv su sv P (κu - pu) κu (κv - pv) κv order) (dimOf P) k b)]
  intro T k a b
  rw [foldl_cols2 k _ (fun b _ => a38Entry pu pv (basisFunAll pu Uu κu u) (basisFunAll pv Uv κv v)
            (surfaceDerivCptsA37 pu pv Uu Uv su sv P (κu - pu) κu (κv - pv) κv order) (dimOf P) k b)]
  intro T' l a' b'
  exact a38L_get pu pv _ _ _ (dimOf P) k T' l a' b'

/-- **the entries A3.8 fills are the true mixed partial derivatives** (and have the dimension of the
    control points): `k ≤ min(pu, order)`, `l ≤ min(order - k, min(pv, order))` -/
theorem a38Entry_true (pu pv : ℕ) (Uu Uv : ℕ → K) (su sv : ℕ) (P : List (List K)) (κu κv : ℕ) (u v : K)
    (d order k l : ℕ)
    (hpu : pu ≤ κu) (hpv : pv ≤ κv) (hκu : κu < su) (hκv : κv < sv) (hlen : P.length = su * sv) (hP : NetOk d P)
    (hmu : Monotone Uu) (hmv : Monotone Uv) (hspu : Uu κu < Uu (κu+1)) (hspv : Uv κv < Uv (κv+1))
    (hk : k ≤ min pu order) (hl : l ≤ min (order - k) (min pv order)) :
    (a38Entry pu pv (basisFunAll pu Uu κu u) (basisFunAll pv Uv κv v)
        (surfaceDerivCptsA37 pu pv Uu Uv su sv P (κu - pu) κu (κv - pv) κv order) d k l).length = d ∧
    ∀ c, (a38Entry pu pv (basisFunAll pu Uu κu u) (basisFunAll pv Uv κv v)
        (surfaceDerivCptsA37 pu pv Uu Uv su sv P (κu - pu) κu (κv - pv) κv order) d k l).getD c 0
      = (pderivU^[k] (pderivV^[l] (surfSpanPoly pu pv Uu Uv sv P κu κv c))).evalEval u v := by
  have hent := fun j i (hj : j ≤ pu - k) (hi : i ≤ pv - l) =>
    a37_entry pu pv Uu Uv su sv P (κu - pu) pu (κv - pv) pv order d (by omega) (by omega) hlen hP
      (by omega) (by omega) k l j i hk hl hj hi
  rw [show κu - pu + pu = κu by omega, show κv - pv + pv = κv by omega] at hent
  set PKL := surfaceDerivCptsA37 pu pv Uu Uv su sv P (κu - pu) κu (κv - pv) κv order with hPKL
  -- the array `temp` of pass `i`
  have htemp : ∀ i, i < pv - l + 1 →
      ((List.range (pu - k + 1)).foldl (a38TempStep pu (basisFunAll pu Uu κu u) PKL k l i) (vzero d)).length = d ∧
      ∀ c, ((List.range (pu - k + 1)).foldl (a38TempStep pu (basisFunAll pu Uu κu u) PKL k l i) (vzero d)).getD c 0
        = ∑ j ∈ range (pu - k + 1), (basisFuns (pu - k) Uu κu u).getD j 0 *
            dIter Uv pv l (fun y => dIter Uu pu k (fun x => netCoord sv P c x y) (κu - pu + k + j)) (κv - pv + l + i) := by
    intro i hi
    obtain ⟨h1, h2⟩ := foldl_axpy_range (fun j => bfAllGet (basisFunAll pu Uu κu u) j (pu - k))
      (fun j => (PKL.get k l j i).getD []) d (pu - k + 1) (by
        intro j hj
        obtain ⟨X, hX, hXl, _⟩ := hent j i (by omega) (by omega)
        rw [hX]; exact hXl)
    refine ⟨h1, fun c => ?_⟩
    refine Eq.trans (h2 c) ?_
    apply Finset.sum_congr rfl
    intro j hj
    rw [Finset.mem_range] at hj
    obtain ⟨X, hX, _, hXc⟩ := hent j i (by omega) (by omega)
    rw [hX, Option.getD_some, hXc c, bfAllGet_basisFunAll pu Uu κu u j (pu - k) (by omega) (by omega)]
    congr 2
    · funext y; congr 1; omega
    · omega
  obtain ⟨h1, h2⟩ := foldl_axpy_range (fun i => bfAllGet (basisFunAll pv Uv κv v) i (pv - l))
    (fun i => (List.range (pu - k + 1)).foldl (a38TempStep pu (basisFunAll pu Uu κu u) PKL k l i) (vzero d))
    d (pv - l + 1) (fun i hi => (htemp i hi).1)
  refine ⟨h1, fun c => ?_⟩
  refine Eq.trans (h2 c) ?_
  rw [evalEval_surfSpanPoly_pderiv]
  refine Eq.trans ?_ (dIter2_basis_sum pu pv Uu Uv κu κv u v (fun x y => netCoord sv P c x y) k l hpu hpv
    (sep_of_mono Uu κu hmu hspu) (sep_of_mono Uv κv hmv hspv) (by omega) (by omega))
  apply Finset.sum_congr rfl
  intro i hi
  rw [Finset.mem_range] at hi
  rw [(htemp i hi).2 c, bfAllGet_basisFunAll pv Uv κv v i (pv - l) (by omega) (by omega)]

/-- **A3.7 + A3.8 as coded = the tensor formula, triangular.**  The literal transcription of
    `SurfaceEvaluator2.derivatives` (with `helpers.surface_deriv_cpts` as coded) returns exactly the table
    `surfaceDersAt … true`: the entries with `k + l ≤ order` below the degrees are filled, the rest is zero. -/
theorem surfaceDersA38_eq (pu pv : ℕ) (Uu Uv : ℕ → K) (su sv : ℕ) (P : List (List K)) (κu κv : ℕ) (u v : K)
    (d order : ℕ)
    (hpu : pu ≤ κu) (hpv : pv ≤ κv) (hκu : κu < su) (hκv : κv < sv) (hlen : P.length = su * sv) (hP : NetOk d P)
    (hmu : Monotone Uu) (hmv : Monotone Uv) (hspu : Uu κu < Uu (κu+1)) (hspv : Uv κv < Uv (κv+1)) :
    surfaceDersA38 pu pv Uu Uv su sv P κu κv u v order = surfaceDersAt pu pv Uu Uv sv P κu κv u v order true := by
  have hpos : 0 < P.length := by
    have := flat_index_lt κu κv su sv hκu hκv
    omega
  have hd : dimOf P = d := dimOf_eq hP hpos
  have hL : surfaceDersA38 pu pv Uu Uv su sv P κu κv u v order
      = (List.range (order + 1)).map (fun k => (List.range (order + 1)).map (fun l =>
          (a38Table pu pv Uu Uv su sv P κu κv u v order).get k l)) := rfl
  have hR := table_eq_map (surfaceDersAt pu pv Uu Uv sv P κu κv u v order true) (order + 1) (order + 1)
    (surfaceDersAt_length pu pv Uu Uv sv P κu κv u v order true)
    (fun k hk => surfaceDersAt_row_length pu pv Uu Uv sv P κu κv u v order true k (by omega))
  rw [hL, hR]
  apply List.map_congr_left
  intro k hk
  apply List.map_congr_left
  intro l hl
  rw [List.mem_range] at hk hl
  rw [a38Table_get, hd]
  by_cases hc : k ≤ min pu order ∧ l ≤ min (order - k) (min pv order)
  · rw [if_pos ⟨by omega, by omega⟩]
    obtain ⟨h1, h2⟩ := a38Entry_true pu pv Uu Uv su sv P κu κv u v d order k l hpu hpv hκu hκv hlen hP
      hmu hmv hspu hspv hc.1 hc.2
    apply coordList_ext _ _ d h1
      (surfaceDersAt_entry_length pu pv Uu Uv su sv P κu κv u v d order true k l hpu hpv hκu hκv hlen hP
        (by omega) (by omega))
    intro c _
    rw [h2 c, surfaceDersAt_all pu pv Uu Uv su sv P κu κv u v d c order k l true hpu hpv hκu hκv hlen hP
      hmu hmv hspu hspv (by omega) (by omega) (Or.inr (by omega))]
  · rw [if_neg (by omega), surfaceDersAt_entry pu pv Uu Uv sv P κu κv u v order true k l (by omega) (by omega),
      if_neg, hd]
    rintro ⟨h1, h2, h3⟩
    rcases h3 with h3 | h3
    · exact absurd h3 (by decide)
    · omega

end Geomdl
