import NurbsVerif.Lemmas.CoxDeBoor

/-!
# A2.4 (`helpers.basis_function_one`) is the Cox–de Boor recursion

`Geomdl.basisFunOne` builds the triangular table `N[j] = N_{span+j, k}(u)` level by level, with
"zero detection" branches.  With the convention `x / 0 = 0` those branches compute the same value as
the plain two-term recurrence, so the table *is* the Cox–de Boor table (no hypothesis on the knots);
for non-decreasing knots a non-zero entry has a non-empty support, hence every division the routine
actually performs has a non-zero denominator (`cdb_ne_zero_den`).
-/
namespace Blossom
open Geomdl
variable {K : Type} [Field K] [LinearOrder K] [IsStrictOrderedRing K]

/-- the row `N_{a,q}(u), …, N_{a+len-1,q}(u)` of the Cox–de Boor table -/
def cdbList (U : ℕ → K) (q : ℕ) (u : K) : ℕ → ℕ → List K
  | _, 0 => []
  | a, len+1 => cdb U q a u :: cdbList U q u (a+1) len

theorem cdbList_length (U : ℕ → K) (q : ℕ) (u : K) : ∀ (len a : ℕ), (cdbList U q u a len).length = len
  | 0, _ => rfl
  | len+1, a => by simp [cdbList, cdbList_length U q u len]

theorem cdbList_eq_map (U : ℕ → K) (q : ℕ) (u : K) : ∀ (len a : ℕ),
    cdbList U q u a len = (List.range len).map (fun j => cdb U q (a + j) u)
  | 0, _ => rfl
  | len+1, a => by
    rw [cdbList, cdbList_eq_map U q u len (a+1), List.range_succ_eq_map]
    simp only [List.map_cons, List.map_map, Nat.add_zero]
    congr 1
    apply List.map_congr_left
    intro j _
    simp only [Function.comp]
    congr 1; omega

theorem cdbList_getD (U : ℕ → K) (q : ℕ) (u : K) (len a j : ℕ) (hj : j < len) :
    (cdbList U q u a len).getD j 0 = cdb U q (a + j) u := by
  rw [cdbList_eq_map]
  simp [List.getD_eq_getElem?_getD, hj]

/-- inner loop of one level of A2.4 on a Cox–de Boor row: it produces the next row -/
theorem bfOneInner_cdb (U : ℕ → K) (span q : ℕ) (u : K) : ∀ (len j : ℕ) (saved : K),
    saved = (u - U (span + j)) / (U (span + j + q + 1) - U (span + j)) * cdb U q (span + j) u →
    bfOneInner U span (q+1) u j (cdbList U q u (span + j + 1) len) saved = cdbList U (q+1) u (span + j) len := by
  intro len
  induction len with
  | zero => intro j saved _; simp [cdbList, bfOneInner]
  | succ len ih =>
    intro j saved hs
    simp only [cdbList, bfOneInner]
    have e1 : span + j + (q + 1) + 1 = span + j + q + 2 := by omega
    have e2 : span + (j + 1) + 1 = span + j + 1 + 1 := by omega
    have e3 : span + (j + 1) = span + j + 1 := by omega
    by_cases h0 : cdb U q (span + j + 1) u = 0
    · rw [if_pos h0]
      have ih' := ih (j+1) 0 (by rw [e3, h0, mul_zero])
      rw [e2, e3] at ih'
      rw [ih', hs]
      congr 1
      simp only [cdb, h0, mul_zero, add_zero]
    · rw [if_neg h0]
      have ih' := ih (j+1) ((u - U (span + j + 1)) * (cdb U q (span + j + 1) u / (U (span + j + (q + 1) + 1) - U (span + j + 1))))
        (by rw [e3, e1]; have : span + j + 1 + q + 1 = span + j + q + 2 := by omega
            rw [this]; ring)
      rw [e2, e3] at ih'
      rw [ih', hs]
      congr 1
      simp only [cdb, e1]
      ring

/-- one level of A2.4 maps the degree-`q` row to the degree-`q+1` row -/
theorem bfOneLevel_cdb (U : ℕ → K) (span q : ℕ) (u : K) (len : ℕ) :
    bfOneLevel U span u (cdbList U q u span (len+1)) (q+1) = cdbList U (q+1) u span len := by
  show bfOneInner U span (q+1) u 0 (cdbList U q u (span+1) len)
    (if cdb U q span u = 0 then 0 else ((u - U span) * cdb U q span u) / (U (span + (q+1)) - U span)) = _
  have h := bfOneInner_cdb U span q u len 0
  simp only [Nat.add_zero] at h
  apply h
  split
  · next h0 => rw [h0, mul_zero]
  · have : span + (q + 1) = span + q + 1 := by omega
    rw [this]; ring

/-- the table after `r` further levels -/
theorem bfOneFold_cdb (U : ℕ → K) (span : ℕ) (u : K) : ∀ (r q len : ℕ),
    (List.range' (q+1) r).foldl (bfOneLevel U span u) (cdbList U q u span (len + r)) = cdbList U (q + r) u span len := by
  intro r
  induction r with
  | zero => intro q len; simp
  | succ r ih =>
    intro q len
    have : len + (r + 1) = (len + r) + 1 := by omega
    rw [List.range'_succ, List.foldl_cons, this, bfOneLevel_cdb, ih (q+1) len]
    congr 1; omega

/-- the initial row of A2.4 (indicators of the `p+1` knot intervals of the support) -/
theorem bfOne_init (U : ℕ → K) (span p : ℕ) (u : K) :
    ((List.range (p+1)).map (fun j => if U (span + j) ≤ u ∧ u < U (span + j + 1) then (1:K) else 0))
      = cdbList U 0 u span (p+1) := by
  rw [cdbList_eq_map]
  rfl

/-- **the whole table of A2.4**: after the levels `1..k` the working array holds
    `N_{span,k}(u), …, N_{span+p-k,k}(u)` -/
theorem bfOne_table (U : ℕ → K) (span p k : ℕ) (u : K) (hk : k ≤ p) :
    (List.range' 1 k).foldl (bfOneLevel U span u)
        ((List.range (p+1)).map (fun j => if U (span + j) ≤ u ∧ u < U (span + j + 1) then (1:K) else 0))
      = (List.range (p + 1 - k)).map (fun j => cdb U k (span + j) u) := by
  rw [bfOne_init]
  have h := bfOneFold_cdb U span u k 0 (p + 1 - k)
  have e : p + 1 - k + k = p + 1 := by omega
  rw [e] at h
  simp only [Nat.zero_add] at h
  rw [h, cdbList_eq_map]

/-- the value computed by the general branch of A2.4 -/
theorem bfOne_general (U : ℕ → K) (span p : ℕ) (u : K) :
    ((List.range' 1 p).foldl (bfOneLevel U span u)
        ((List.range (p+1)).map (fun j => if U (span + j) ≤ u ∧ u < U (span + j + 1) then (1:K) else 0))).headD 0
      = cdb U p span u := by
  rw [bfOne_table U span p p u (le_refl _)]
  have : p + 1 - p = 1 := by omega
  rw [this]
  simp

/-- **local support** of the Cox–de Boor functions of a non-decreasing knot function -/
theorem cdb_support (U : ℕ → K) (hm : Monotone U) (u : K) : ∀ (p i : ℕ),
    cdb U p i u ≠ 0 → U i ≤ u ∧ u < U (i + p + 1) := by
  intro p
  induction p with
  | zero =>
    intro i h
    simp only [cdb] at h
    by_cases hc : U i ≤ u ∧ u < U (i+1)
    · exact hc
    · rw [if_neg hc] at h; exact absurd rfl h
  | succ p ih =>
    intro i h
    simp only [cdb] at h
    by_cases h1 : cdb U p i u = 0
    · by_cases h2 : cdb U p (i+1) u = 0
      · rw [h1, h2] at h; simp at h
      · obtain ⟨a, b⟩ := ih (i+1) h2
        have : U i ≤ U (i+1) := hm (by omega)
        have e : i + 1 + p + 1 = i + (p + 1) + 1 := by omega
        rw [e] at b
        exact ⟨le_trans this a, b⟩
    · obtain ⟨a, b⟩ := ih i h1
      have : U (i + p + 1) ≤ U (i + (p + 1) + 1) := hm (by omega)
      exact ⟨a, lt_of_lt_of_le b this⟩

theorem cdb_eq_zero_of_outside (U : ℕ → K) (hm : Monotone U) (u : K) (p i : ℕ)
    (h : u < U i ∨ U (i + p + 1) ≤ u) : cdb U p i u = 0 := by
  by_contra hne
  obtain ⟨a, b⟩ := cdb_support U hm u p i hne
  rcases h with h | h
  · exact absurd a (not_le.mpr h)
  · exact absurd b (not_lt.mpr h)

/-- a non-zero table entry has a non-degenerate support: the denominators A2.4 divides by are non-zero -/
theorem cdb_ne_zero_den (U : ℕ → K) (hm : Monotone U) (u : K) (q a : ℕ) (h : cdb U q a u ≠ 0) :
    U (a + q + 1) - U a ≠ 0 := by
  obtain ⟨h1, h2⟩ := cdb_support U hm u q a h
  exact ne_of_gt (by linarith)

/-- **no division by zero in A2.4**: entry `j` of the table after `k` levels is divided, at level `k+1`,
    by `U (span+j+k+1) - U (span+j)` – and only when the entry is non-zero (zero detection); for
    non-decreasing knots that denominator is then non-zero -/
theorem bfOne_division_safe (U : ℕ → K) (hm : Monotone U) (span p k j : ℕ) (u : K) (hjk : j + k ≤ p)
    (h : ((List.range' 1 k).foldl (bfOneLevel U span u)
        ((List.range (p+1)).map (fun j => if U (span + j) ≤ u ∧ u < U (span + j + 1) then (1:K) else 0))).getD j 0 ≠ 0) :
    U (span + j + k + 1) - U (span + j) ≠ 0 := by
  rw [bfOne_table U span p k u (by omega)] at h
  have hj : j < p + 1 - k := by omega
  simp only [List.getD_eq_getElem?_getD, List.getElem?_map, List.getElem?_range hj, Option.map_some,
    Option.getD_some] at h
  exact cdb_ne_zero_den U hm u k (span + j) h

/-- A2.4 in closed form: the two boundary special cases, otherwise the Cox–de Boor function -/
theorem basisFunOne_eq (p : ℕ) (U : ℕ → K) (hm : Monotone U) (m i : ℕ) (u : K) :
    basisFunOne p U m i u
      = if (i = 0 ∧ u = U 0) ∨ (i + p + 2 = m ∧ u = U (m - 1)) then 1 else cdb U p i u := by
  unfold basisFunOne
  by_cases hs : (i = 0 ∧ u = U 0) ∨ (i + p + 2 = m ∧ u = U (m - 1))
  · rw [if_pos hs, if_pos hs]
  · rw [if_neg hs, if_neg hs]
    by_cases ho : u < U i ∨ U (i + p + 1) ≤ u
    · rw [if_pos ho, cdb_eq_zero_of_outside U hm u p i ho]
    · rw [if_neg ho]
      exact bfOne_general U i p u

end Blossom
