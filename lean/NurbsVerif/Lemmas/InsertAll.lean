import NurbsVerif.Lemmas.InsertModel
import NurbsVerif.Lemmas.Span
import NurbsVerif.Model.Knots2

/-! Knot insertion preserves the curve as a FUNCTION of the parameter: the evaluation spans before
    and after are the ones the library's linear search finds. -/
namespace Geomdl
open Blossom
variable {K : Type} [Field K] [LinearOrder K] [IsStrictOrderedRing K]

/-- relation between the span of `u` in the old knots and in the refined knots -/
theorem span_after_insertion (p : ℕ) (U : ℕ → K) (n k r : ℕ) (ub u : K)
    (hm : Monotone U) (hpn : p + 1 ≤ n) (hpk : p ≤ k) (hkn : k < n) (hr : 1 ≤ r)
    (hk1 : U k ≤ ub) (hk2 : ub < U (k+1)) (hlo : U p ≤ u) (hhi : u ≤ U n) (hlast : U (n-1) < U n) :
    let κ := findSpanLinear p U n u
    let κ' := findSpanLinear p (Uh k r ub U) (n + r) u
    U κ < U (κ+1) ∧ Uh k r ub U κ' < Uh k r ub U (κ'+1) ∧ p ≤ κ ∧ κ < n ∧
      ((κ' = κ ∧ κ ≤ k) ∨ (κ' = κ + r ∧ k ≤ κ)) := by
  intro κ κ'
  have hm' : Monotone (Uh k r ub U) := Uh_mono U k r ub hm hk1 (le_of_lt hk2)
  have hUp : Uh k r ub U p = U p := by unfold Uh; rw [if_pos (by omega)]
  have hUn : Uh k r ub U (n + r) = U n := by
    unfold Uh; rw [if_neg (by omega), if_neg (by omega)]; congr 1; omega
  obtain ⟨a1, a2, a3, a4⟩ := findSpanLinear_spec p U n u hpn hm hlo
  obtain ⟨b1, b2, b3, b4⟩ := findSpanLinear_spec p (Uh k r ub U) (n + r) u (by omega) hm' (by rw [hUp]; exact hlo)
  change p ≤ κ at a1; change κ < n at a2; change U κ ≤ u at a3
  change (u < U (κ + 1) ∨ κ + 1 = n) at a4
  change p ≤ κ' at b1; change κ' < n + r at b2; change Uh k r ub U κ' ≤ u at b3
  change (u < Uh k r ub U (κ' + 1) ∨ κ' + 1 = n + r) at b4
  by_cases hend : u < U n
  · -- interior parameter: both spans are half-open and unique
    have hu1 : u < U (κ + 1) := by
      rcases a4 with h | h
      · exact h
      · rw [h]; exact hend
    have hu2 : u < Uh k r ub U (κ' + 1) := by
      rcases b4 with h | h
      · exact h
      · rw [h, hUn]; exact hend
    refine ⟨lt_of_le_of_lt a3 hu1, lt_of_le_of_lt b3 hu2, a1, a2, ?_⟩
    by_cases hub : u < ub
    · left
      have hκk : κ ≤ k := by
        by_contra hc
        have : U (k+1) ≤ U κ := hm (by omega)
        linarith
      refine ⟨?_, hκk⟩
      apply findSpanLinear_unique p (Uh k r ub U) (n + r) u (by omega) hm' (by rw [hUp]; exact hlo) (by rw [hUn]; exact hend) κ
      · unfold Uh; rw [if_pos hκk]; exact a3
      · unfold Uh
        by_cases hk' : κ + 1 ≤ k
        · rw [if_pos hk']; exact hu1
        · rw [if_neg hk', if_pos (by omega)]; exact hub
    · right
      have hub' : ub ≤ u := not_lt.mp hub
      have hκk : k ≤ κ := by
        by_contra hc
        have : U (κ+1) ≤ U k := hm (by omega)
        linarith
      refine ⟨?_, hκk⟩
      apply findSpanLinear_unique p (Uh k r ub U) (n + r) u (by omega) hm' (by rw [hUp]; exact hlo) (by rw [hUn]; exact hend) (κ + r)
      · unfold Uh
        rw [if_neg (by omega)]
        by_cases hk' : κ = k
        · rw [if_pos (by omega)]; exact hub'
        · rw [if_neg (by omega)]
          have : κ + r - r = κ := by omega
          rw [this]; exact a3
      · unfold Uh
        rw [if_neg (by omega), if_neg (by omega)]
        have : κ + r + 1 - r = κ + 1 := by omega
        rw [this]; exact hu1
  · -- the domain end: last span before and after
    have hun : u = U n := le_antisymm hhi (not_lt.mp hend)
    have hκ : κ + 1 = n := by
      rcases a4 with h | h
      · exfalso
        have : U (κ + 1) ≤ U n := hm (by omega)
        linarith
      · exact h
    have hκ' : κ' + 1 = n + r := by
      rcases b4 with h | h
      · exfalso
        have : Uh k r ub U (κ' + 1) ≤ Uh k r ub U (n + r) := hm' (by omega)
        rw [hUn] at this
        linarith
      · exact h
    have e1 : κ = n - 1 := by omega
    refine ⟨by rw [e1]; have : n - 1 + 1 = n := by omega
               rw [this]; exact hlast, ?_, a1, a2, Or.inr ⟨by omega, by omega⟩⟩
    rw [hκ', hUn]
    have e2 : κ' = n + r - 1 := by omega
    rw [e2]
    unfold Uh
    rw [if_neg (by omega)]
    by_cases hk' : n - 1 = k
    · rw [if_pos (by omega)]
      have : U (k + 1) = U n := by congr 1; omega
      rw [← this]; exact hk2
    · rw [if_neg (by omega)]
      have : n + r - 1 - r = n - 1 := by omega
      rw [this]; exact hlast

/-- **Knot insertion never changes the curve, as a function** – every degree, every sorted knot
    vector whose last span is non-empty, every insertion parameter `ub` (span `k` found by the
    library's search, prior multiplicity `s`), every count `r` with `r + s ≤ p`, EVERY parameter of
    the domain including both ends, every coordinate; spans found by `find_span_linear` on both sides. -/
theorem knotInsertion_preserves_curve (p : ℕ) (Ul : List K) (P : List (List K)) (ub u : K)
    (r s d j : ℕ) (hP : NetOk d P)
    (hm : Monotone (fnOf Ul)) (hlen : Ul.length = P.length + p + 1) (hpn : p + 1 ≤ P.length)
    (hub1 : fnOf Ul p ≤ ub) (hub2 : ub < fnOf Ul P.length)
    (hmult : ∀ x, findSpanLinear p (fnOf Ul) P.length ub - s < x → x ≤ findSpanLinear p (fnOf Ul) P.length ub → fnOf Ul x = ub)
    (hr1 : 1 ≤ r) (hrs : r + s ≤ p)
    (hlo : fnOf Ul p ≤ u) (hhi : u ≤ fnOf Ul P.length) (hlast : fnOf Ul (P.length - 1) < fnOf Ul P.length) :
    (curvePoint p (fnOf (knotInsertionKv Ul ub (findSpanLinear p (fnOf Ul) P.length ub) r))
        (knotInsertion p (fnOf Ul) P ub r s (findSpanLinear p (fnOf Ul) P.length ub)) u).getD j 0
      = (curvePoint p (fnOf Ul) P u).getD j 0 := by
  set k := findSpanLinear p (fnOf Ul) P.length ub with hk
  obtain ⟨k1, k2, k3, k4⟩ := findSpanLinear_spec p (fnOf Ul) P.length ub hpn hm hub1
  change p ≤ k at k1; change k < P.length at k2; change fnOf Ul k ≤ ub at k3
  have hk2 : ub < fnOf Ul (k+1) := by
    rcases k4 with h | h
    · exact h
    · change k + 1 = P.length at h; rw [h]; exact hub2
  have hkv := fnOf_knotInsertionKv Ul ub k r (by omega)
  obtain ⟨c1, c2, c3, c4, c5⟩ := span_after_insertion p (fnOf Ul) P.length k r ub u hm hpn k1 k2 hr1 k3 hk2 hlo hhi hlast
  unfold curvePoint
  rw [knotInsertion_length, hkv]
  have := knotInsertion_preserves_point p Ul P ub u r s k
    (findSpanLinear p (fnOf Ul) P.length u) (findSpanLinear p (Uh k r ub (fnOf Ul)) (P.length + r) u)
    d j hP hm (by omega) k3 hk2 hmult c1 (by rw [hkv]; exact c2) hr1 hrs k1 k2 c3 c4 c5
  rw [hkv] at this
  exact this

end Geomdl

namespace Geomdl
open Blossom
variable {K : Type} [Field K] [LinearOrder K] [IsStrictOrderedRing K]

/-- a well-formed curve definition: sorted knots of the right number, enough control points of one
    dimension, non-empty last span -/
structure CurveWF (p d : ℕ) (Ul : List K) (P : List (List K)) : Prop where
  mono : Monotone (fnOf Ul)
  len : Ul.length = P.length + p + 1
  pn : p + 1 ≤ P.length
  last : fnOf Ul (P.length - 1) < fnOf Ul P.length
  net : NetOk d P

/-- one insertion request `(ub, r, s)` applied with the span the library's search finds -/
def insStep (p : ℕ) (st : List K × List (List K)) (req : K × ℕ × ℕ) : List K × List (List K) :=
  let k := findSpanLinear p (fnOf st.1) st.2.length req.1
  (knotInsertionKv st.1 req.1 k req.2.1, knotInsertion p (fnOf st.1) st.2 req.1 req.2.1 req.2.2 k)

/-- the request is admissible in the current state: parameter inside the domain, `s` copies of it
    already present at the end of its span, `1 ≤ r`, `r + s ≤ p` -/
def ReqOk (p : ℕ) (st : List K × List (List K)) (req : K × ℕ × ℕ) : Prop :=
  fnOf st.1 p ≤ req.1 ∧ req.1 < fnOf st.1 st.2.length ∧
  (∀ x, findSpanLinear p (fnOf st.1) st.2.length req.1 - req.2.2 < x →
        x ≤ findSpanLinear p (fnOf st.1) st.2.length req.1 → fnOf st.1 x = req.1) ∧
  1 ≤ req.2.1 ∧ req.2.1 + req.2.2 ≤ p

/-- every request of the list is admissible in the state it is applied to -/
def ReqsOk (p : ℕ) : List K × List (List K) → List (K × ℕ × ℕ) → Prop
  | _, [] => True
  | st, q :: qs => ReqOk p st q ∧ ReqsOk p (insStep p st q) qs

theorem insStep_wf (p d : ℕ) (st : List K × List (List K)) (req : K × ℕ × ℕ)
    (h : CurveWF p d st.1 st.2) (hr : ReqOk p st req) :
    CurveWF p d (insStep p st req).1 (insStep p st req).2 ∧
    fnOf (insStep p st req).1 p = fnOf st.1 p ∧
    fnOf (insStep p st req).1 (insStep p st req).2.length = fnOf st.1 st.2.length := by
  obtain ⟨hub1, hub2, hmult, hr1, hrs⟩ := hr
  set k := findSpanLinear p (fnOf st.1) st.2.length req.1 with hk
  obtain ⟨k1, k2, k3, k4⟩ := findSpanLinear_spec p (fnOf st.1) st.2.length req.1 h.pn h.mono hub1
  change p ≤ k at k1; change k < st.2.length at k2; change fnOf st.1 k ≤ req.1 at k3
  have hk2 : req.1 < fnOf st.1 (k+1) := by
    rcases k4 with h' | h'
    · exact h'
    · change k + 1 = st.2.length at h'; rw [h']; exact hub2
  have hkv := fnOf_knotInsertionKv st.1 req.1 k req.2.1 (by have := h.len; omega)
  have hnet : (insStep p st req).2.length = st.2.length + req.2.1 := by
    simp only [insStep]; exact knotInsertion_length _ _ _ _ _ _ _
  have hends := span_after_insertion p (fnOf st.1) st.2.length k req.2.1 req.1 (fnOf st.1 st.2.length)
    h.mono h.pn k1 k2 hr1 k3 hk2 (h.mono (by have := h.pn; omega)) (le_refl _) h.last
  have e1 : (insStep p st req).1 = knotInsertionKv st.1 req.1 k req.2.1 := rfl
  have hp' : fnOf (insStep p st req).1 p = fnOf st.1 p := by
    rw [e1, hkv]; unfold Uh; rw [if_pos k1]
  have hn' : fnOf (insStep p st req).1 (insStep p st req).2.length = fnOf st.1 st.2.length := by
    rw [hnet, e1, hkv]; unfold Uh
    rw [if_neg (by omega), if_neg (by omega)]; congr 1; omega
  refine ⟨⟨?_, ?_, ?_, ?_, ?_⟩, hp', hn'⟩
  · rw [e1, hkv]; exact Uh_mono _ _ _ _ h.mono k3 (le_of_lt hk2)
  · rw [hnet, e1]
    simp only [knotInsertionKv, List.length_append, List.length_take, List.length_replicate, List.length_drop]
    have := h.len; omega
  · rw [hnet]; have := h.pn; omega
  · -- the last span of the refined knots is non-empty
    rw [hnet, e1, hkv]
    have hU : Uh k req.2.1 req.1 (fnOf st.1) (st.2.length + req.2.1) = fnOf st.1 st.2.length := by
      unfold Uh; rw [if_neg (by omega), if_neg (by omega)]; congr 1; omega
    rw [hU]
    unfold Uh
    rw [if_neg (by omega)]
    by_cases hk' : st.2.length - 1 = k
    · rw [if_pos (by omega)]
      have : fnOf st.1 (k + 1) = fnOf st.1 st.2.length := by congr 1; omega
      rw [← this]; exact hk2
    · rw [if_neg (by omega)]
      have : st.2.length + req.2.1 - 1 - req.2.1 = st.2.length - 1 := by omega
      rw [this]; exact h.last
  · exact knotInsertion_netOk p (fnOf st.1) st.2 req.1 req.2.1 req.2.2 k d h.net k1 k2 hrs (by omega)

/-- **Any sequence of admissible knot insertions leaves every point of the curve unchanged.** -/
theorem insert_sequence_preserves_curve (p d : ℕ) (reqs : List (K × ℕ × ℕ)) :
    ∀ (st : List K × List (List K)), CurveWF p d st.1 st.2 → ReqsOk p st reqs →
    ∀ (u : K), fnOf st.1 p ≤ u → u ≤ fnOf st.1 st.2.length → ∀ j,
      (curvePoint p (fnOf (reqs.foldl (insStep p) st).1) (reqs.foldl (insStep p) st).2 u).getD j 0
        = (curvePoint p (fnOf st.1) st.2 u).getD j 0 := by
  induction reqs with
  | nil => intro st _ _ u _ _ j; rfl
  | cons q qs ih =>
    intro st hwf hok u hlo hhi j
    obtain ⟨hq, hqs⟩ := hok
    obtain ⟨hwf', hp', hn'⟩ := insStep_wf p d st q hwf hq
    simp only [List.foldl_cons]
    rw [ih (insStep p st q) hwf' hqs u (by rw [hp']; exact hlo) (by rw [hn']; exact hhi) j]
    obtain ⟨hub1, hub2, hmult, hr1, hrs⟩ := hq
    exact knotInsertion_preserves_curve p st.1 st.2 q.1 u q.2.1 q.2.2 d j hwf.net hwf.mono hwf.len hwf.pn
      hub1 hub2 hmult hr1 hrs hlo hhi hwf.last

/-- … the final state is again a well-formed curve, and both ends of the domain are where they were. -/
theorem insert_sequence_wf (p d : ℕ) (reqs : List (K × ℕ × ℕ)) :
    ∀ (st : List K × List (List K)), CurveWF p d st.1 st.2 → ReqsOk p st reqs →
      CurveWF p d (reqs.foldl (insStep p) st).1 (reqs.foldl (insStep p) st).2 ∧
      fnOf (reqs.foldl (insStep p) st).1 p = fnOf st.1 p ∧
      fnOf (reqs.foldl (insStep p) st).1 (reqs.foldl (insStep p) st).2.length = fnOf st.1 st.2.length := by
  induction reqs with
  | nil => intro st h _; exact ⟨h, rfl, rfl⟩
  | cons r rs ih =>
    intro st h hok
    obtain ⟨h1, h2⟩ := hok
    obtain ⟨a, b, c⟩ := insStep_wf p d st r h h1
    obtain ⟨a', b', c'⟩ := ih (insStep p st r) a h2
    exact ⟨a', b'.trans b, c'.trans c⟩

end Geomdl

namespace Geomdl
open Blossom
variable {K : Type} [Field K] [LinearOrder K] [IsStrictOrderedRing K]

theorem insertOne_eq_insStep (p : ℕ) (tol : K) (st : List K × List (List K)) (x : K) :
    insertOne p tol st x = insStep p st (x, 1, findMultiplicity x st.1 tol) := rfl

/-- every knot of the refinement list is admissible when it is inserted (multiplicity as the
    library computes it, with its tolerance) -/
def RefineOk (p : ℕ) (tol : K) : List K × List (List K) → List K → Prop
  | _, [] => True
  | st, x :: xs => ReqOk p st (x, 1, findMultiplicity x st.1 tol) ∧ RefineOk p tol (insertOne p tol st x) xs

/-- **Knot refinement (the fold of single insertions the model of `helpers.knot_refinement` is)
    leaves every point of the curve unchanged.** -/
theorem refine_fold_preserves_curve (p d : ℕ) (tol : K) (X : List K) :
    ∀ (st : List K × List (List K)), CurveWF p d st.1 st.2 → RefineOk p tol st X →
    ∀ (u : K), fnOf st.1 p ≤ u → u ≤ fnOf st.1 st.2.length → ∀ j,
      (curvePoint p (fnOf (X.foldl (insertOne p tol) st).1) (X.foldl (insertOne p tol) st).2 u).getD j 0
        = (curvePoint p (fnOf st.1) st.2 u).getD j 0 := by
  induction X with
  | nil => intro st _ _ u _ _ j; rfl
  | cons x xs ih =>
    intro st hwf hok u hlo hhi j
    obtain ⟨hq, hqs⟩ := hok
    obtain ⟨hwf', hp', hn'⟩ := insStep_wf p d st _ hwf hq
    simp only [List.foldl_cons]
    rw [ih (insertOne p tol st x) (by rw [insertOne_eq_insStep]; exact hwf') hqs u
          (by rw [insertOne_eq_insStep, hp']; exact hlo) (by rw [insertOne_eq_insStep, hn']; exact hhi) j]
    obtain ⟨hub1, hub2, hmult, hr1, hrs⟩ := hq
    rw [insertOne_eq_insStep]
    exact knotInsertion_preserves_curve p st.1 st.2 x u 1 _ d j hwf.net hwf.mono hwf.len hwf.pn
      hub1 hub2 hmult hr1 hrs hlo hhi hwf.last

end Geomdl
