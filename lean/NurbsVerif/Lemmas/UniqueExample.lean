import NurbsVerif.Lemmas.UniqueSurf

/-! Concrete instances of `RemovableKnot` (non-vacuity of C06 section (U)): the quadratic of C05 (knots
    `0,0,0,½,1,1,1`, four points) refined with density 1 (`X = ¼,¼,½,¾,¾`; the second copy of `½` is inserted
    BEFORE the two copies of `¾`); the witness `Q` is the fold of the insertions of `¼,¼,¾,¾`. -/
namespace Geomdl
namespace UniqueEx

def V : List ℚ := [0,0,0,1/4,1/4,1/2,1/2,3/4,3/4,1,1,1]
def Ph : List (List ℚ) := [[0,0],[1/2,1],[7/8,5/4],[5/4,3/2],[3/2,1],[7/4,1/2],[17/8,1/2],[5/2,1/2],[3,1]]
def Q : List (List ℚ) := [[0,0],[1/2,1],[7/8,5/4],[5/4,3/2],[7/4,1/2],[17/8,1/2],[5/2,1/2],[3,1]]

/-- `k = 5`, `s = 1`, `r = 1`: `½` sits at positions 5, 6 of the refined knots -/
theorem refined_removable : RemovableKnot 2 2 ([0,0,0,1/4,1/4,1/2,1/2,3/4,3/4,1,1,1] : List ℚ)
    [[0,0],[1/2,1],[7/8,5/4],[5/4,3/2],[3/2,1],[7/4,1/2],[17/8,1/2],[5/2,1/2],[3,1]]
    [[0,0],[1/2,1],[7/8,5/4],[5/4,3/2],[7/4,1/2],[17/8,1/2],[5/2,1/2],[3,1]] (1/2) 1 1 5 := by
  have hwf0 : CurveWF 2 2 ([0,0,0,1/2,1,1,1] : List ℚ) [[0,0],[1,2],[2,0],[3,1]] :=
    ⟨mono_of_pairwise _ (by decide +kernel), by simp, by simp, by decide +kernel,
      by intro pt hpt; simp at hpt; rcases hpt with h | h | h | h <;> simp [h]⟩
  have hok : ∀ X : List ℚ, (∀ a ∈ X, a ∈ ([0,0,0,1/2,1,1,1,1/4,3/4] : List ℚ)) →
      (∀ x ∈ X, fnOf ([0,0,0,1/2,1,1,1] : List ℚ) 2 ≤ x ∧ x < fnOf ([0,0,0,1/2,1,1,1] : List ℚ) 4) →
      (∀ x ∈ X, ([0,0,0,1/2,1,1,1] : List ℚ).count x + X.count x ≤ 2) →
      RefineOk 2 (1/10000000) (([0,0,0,1/2,1,1,1] : List ℚ), [[0,0],[1,2],[2,0],[3,1]]) X := fun X a b c =>
    refineOk_of_counts 2 2 (1/10000000) (by norm_num) _ (by unfold SepBy; decide +kernel) X _ hwf0
      (by intro a ha; simp at ha ⊢; tauto) a b c
  have hA := refine_fold_preserves_curve 2 2 (1/10000000 : ℚ) [1/4,1/4,1/2,3/4,3/4] _ hwf0
    (hok _ (by decide +kernel) (by decide +kernel) (by decide +kernel))
  have hB := refine_fold_preserves_curve 2 2 (1/10000000 : ℚ) [1/4,1/4,3/4,3/4] _ hwf0
    (hok _ (by decide +kernel) (by decide +kernel) (by decide +kernel))
  rw [show ([1/4,1/4,1/2,3/4,3/4] : List ℚ).foldl (insertOne 2 (1/10000000)) (([0,0,0,1/2,1,1,1] : List ℚ), [[0,0],[1,2],[2,0],[3,1]])
    = ([0,0,0,1/4,1/4,1/2,1/2,3/4,3/4,1,1,1],
       [[0,0],[1/2,1],[7/8,5/4],[5/4,3/2],[3/2,1],[7/4,1/2],[17/8,1/2],[5/2,1/2],[3,1]]) from by decide +kernel] at hA
  rw [show ([1/4,1/4,3/4,3/4] : List ℚ).foldl (insertOne 2 (1/10000000)) (([0,0,0,1/2,1,1,1] : List ℚ), [[0,0],[1,2],[2,0],[3,1]])
    = ([0,0,0,1/4,1/4,1/2,3/4,3/4,1,1,1],
       [[0,0],[1/2,1],[7/8,5/4],[5/4,3/2],[7/4,1/2],[17/8,1/2],[5/2,1/2],[3,1]]) from by decide +kernel] at hB
  have hkv : knotRemovalKv ([0,0,0,1/4,1/4,1/2,1/2,3/4,3/4,1,1,1] : List ℚ) (5 + 1) 1
      = [0,0,0,1/4,1/4,1/2,3/4,3/4,1,1,1] := by decide +kernel
  refine ⟨⟨mono_of_pairwise _ (by decide +kernel), by simp, by simp, by decide +kernel, ?_⟩, by decide +kernel, ?_,
    by decide +kernel, by decide +kernel, le_refl _, by omega, by omega, by simp, ?_, ?_⟩
  · intro pt hpt; simp at hpt; rcases hpt with h | h | h | h | h | h | h | h | h <;> simp [h]
  · intro x h1 h2
    have : x = 5 ∨ x = 6 := by omega
    rcases this with rfl | rfl <;> decide +kernel
  · rw [hkv]
    refine ⟨mono_of_pairwise _ (by decide +kernel), by simp, by simp, by decide +kernel, ?_⟩
    intro pt hpt; simp at hpt; rcases hpt with h | h | h | h | h | h | h | h <;> simp [h]
  · intro u h1 h2 j
    rw [hkv]
    have e1 : fnOf ([0,0,0,1/4,1/4,1/2,1/2,3/4,3/4,1,1,1] : List ℚ) 2 = fnOf ([0,0,0,1/2,1,1,1] : List ℚ) 2 := by decide +kernel
    have e2 : fnOf ([0,0,0,1/4,1/4,1/2,1/2,3/4,3/4,1,1,1] : List ℚ)
        ([[0,0],[1/2,1],[7/8,5/4],[5/4,3/2],[3/2,1],[7/4,1/2],[17/8,1/2],[5/2,1/2],[3,1]] : List (List ℚ)).length
        = fnOf ([0,0,0,1/2,1,1,1] : List ℚ) ([[0,0],[1,2],[2,0],[3,1]] : List (List ℚ)).length := by decide +kernel
    rw [e1] at h1; rw [e2] at h2
    exact (hB u h1 (le_of_lt h2) j).trans (hA u h1 (le_of_lt h2) j).symm

/-- a `2 × 9` net whose two rows (iso-curves `u = const`) are that curve, and the `2 × 8` witness net -/
theorem rows_removable (x : ℕ) (hx : x < 2) :
    RemovableKnot 2 2 V (rowOf 9 (Ph ++ Ph) x) (rowOf (9 - 1) (Q ++ Q) x) (1/2) 1 1 5 := by
  have e1 : rowOf 9 (Ph ++ Ph) x = Ph := by
    have : x = 0 ∨ x = 1 := by omega
    rcases this with rfl | rfl <;> decide +kernel
  have e2 : rowOf (9 - 1) (Q ++ Q) x = Q := by
    have : x = 0 ∨ x = 1 := by omega
    rcases this with rfl | rfl <;> decide +kernel
  rw [e1, e2]
  exact refined_removable

end UniqueEx
end Geomdl
