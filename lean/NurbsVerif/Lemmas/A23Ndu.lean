import NurbsVerif.Model.BasisDers
import NurbsVerif.Lemmas.CoxDeBoor

/-! A2.3, part 1: the table `ndu` of `helpers.basis_function_ders` holds the basis function values of
    all degrees (upper triangle, column = degree) and the knot differences (lower triangle). -/
namespace Geomdl
open Blossom
variable {K : Type} [Field K] [LinearOrder K] [IsStrictOrderedRing K]

theorem upd2_get (f : Arr2 K) (i j a b : ℕ) (v : K) :
    (upd2 f i j v).get a b = if a = i ∧ b = j then v else f.get a b := rfl

/-- the value of `saved` before step `a` of pass `j` -/
def nduSaved (L R : ℕ → K) (T : Arr2 K) (j a : ℕ) : K :=
  if a = 0 then 0 else L (j - (a-1)) * (T.get (a-1) (j-1) / (R a + L (j - (a-1))))

/-- the inner loop of pass `j` after `n` steps -/
theorem nduFold_spec (L R : ℕ → K) (T : Arr2 K) (j : ℕ) (hj : 1 ≤ j) : ∀ n, n ≤ j →
    ((List.range n).foldl (nduStep L R j) (T, 0)).2 = nduSaved L R T j n ∧
    (∀ a, a < n → ((List.range n).foldl (nduStep L R j) (T, 0)).1.get a j
        = nduSaved L R T j a + R (a+1) * (T.get a (j-1) / (R (a+1) + L (j - a)))) ∧
    (∀ a, a < n → ((List.range n).foldl (nduStep L R j) (T, 0)).1.get j a = R (a+1) + L (j - a)) ∧
    (∀ x y, ¬(x = j ∧ y < n) → ¬(y = j ∧ x < n) →
        ((List.range n).foldl (nduStep L R j) (T, 0)).1.get x y = T.get x y) := by
  intro n
  induction n with
  | zero =>
    intro _
    refine ⟨by simp [nduSaved], fun a ha => by omega, fun a ha => by omega, fun x y _ _ => rfl⟩
  | succ n ih =>
    intro hn
    obtain ⟨h1, h2, h3, h4⟩ := ih (by omega)
    rw [List.range_succ, List.foldl_append]
    simp only [List.foldl_cons, List.foldl_nil]
    set st := (List.range n).foldl (nduStep L R j) (T, 0) with hst
    have hread1 : (upd2 st.1 j n (R (n+1) + L (j - n))).get n (j-1) = T.get n (j-1) := by
      rw [upd2_get, if_neg (by omega)]
      exact h4 n (j-1) (by omega) (by omega)
    have hread2 : (upd2 st.1 j n (R (n+1) + L (j - n))).get j n = R (n+1) + L (j - n) := by
      rw [upd2_get, if_pos ⟨rfl, rfl⟩]
    refine ⟨?_, ?_, ?_, ?_⟩
    · simp only [nduStep]
      rw [hread1, hread2]
      simp [nduSaved]
    · intro a ha
      simp only [nduStep]
      rw [upd2_get]
      by_cases han : a = n
      · subst han
        rw [if_pos ⟨rfl, rfl⟩, hread1, hread2, h1]
      · rw [if_neg (by omega), upd2_get, if_neg (by omega)]
        exact h2 a (by omega)
    · intro a ha
      simp only [nduStep]
      rw [upd2_get, if_neg (by omega), upd2_get]
      by_cases han : a = n
      · subst han
        rw [if_pos ⟨rfl, rfl⟩]
      · rw [if_neg (by omega)]
        exact h3 a (by omega)
    · intro x y hx hy
      simp only [nduStep]
      rw [upd2_get, if_neg (by omega), upd2_get, if_neg (by omega)]
      exact h4 x y (by omega) (by omega)

/-- one pass `j` of the `ndu` loop -/
theorem nduRow_spec (L R : ℕ → K) (T : Arr2 K) (j : ℕ) (hj : 1 ≤ j) :
    (∀ a, a < j → (nduRow L R T j).get a j
        = nduSaved L R T j a + R (a+1) * (T.get a (j-1) / (R (a+1) + L (j - a)))) ∧
    (nduRow L R T j).get j j = nduSaved L R T j j ∧
    (∀ a, a < j → (nduRow L R T j).get j a = R (a+1) + L (j - a)) ∧
    (∀ x y, ¬(x = j ∧ y ≤ j) → ¬(y = j ∧ x ≤ j) → (nduRow L R T j).get x y = T.get x y) := by
  obtain ⟨h1, h2, h3, h4⟩ := nduFold_spec L R T j hj j (le_refl _)
  unfold nduRow
  simp only []
  refine ⟨?_, ?_, ?_, ?_⟩
  · intro a ha
    rw [upd2_get, if_neg (by omega)]
    exact h2 a ha
  · rw [upd2_get, if_pos ⟨rfl, rfl⟩, h1]
  · intro a ha
    rw [upd2_get, if_neg (by omega)]
    exact h3 a ha
  · intro x y hx hy
    rw [upd2_get, if_neg (by omega)]
    exact h4 x y (by omega) (by omega)

theorem nduTable_succ (p : ℕ) (U : ℕ → K) (κ : ℕ) (u : K) :
    nduTable (p+1) U κ u = nduRow (left U κ u) (right U κ u) (nduTable p U κ u) (p+1) := by
  unfold nduTable
  rw [List.range'_1_concat, List.foldl_append]
  simp [Nat.add_comm]

/-- **the table `ndu`**: column `c ≤ p` holds the `c+1` basis function values of degree `c` (rows
    `0..c`), row `c` holds the knot differences `U(κ+a+1) - U(κ+1-c+a)` (columns `a < c`) -/
theorem nduTable_spec (U : ℕ → K) (κ : ℕ) (u : K) : ∀ p,
    (∀ c a, c ≤ p → a ≤ c → (nduTable p U κ u).get a c = (basisFuns c U κ u).getD a 0) ∧
    (∀ c a, c ≤ p → a < c → (nduTable p U κ u).get c a = right U κ u (a+1) + left U κ u (c - a)) := by
  intro p
  induction p with
  | zero =>
    refine ⟨?_, fun c a hc ha => by omega⟩
    intro c a hc ha
    have hc0 : c = 0 := by omega
    have ha0 : a = 0 := by omega
    subst hc0 ha0
    simp [nduTable, basisFuns]
  | succ p ih =>
    obtain ⟨ih1, ih2⟩ := ih
    obtain ⟨h1, h2, h3, h4⟩ := nduRow_spec (left U κ u) (right U κ u) (nduTable p U κ u) (p+1) (by omega)
    rw [nduTable_succ]
    refine ⟨?_, ?_⟩
    · intro c a hc ha
      by_cases hcp : c = p + 1
      · subst hcp
        rw [basisFuns_succ]
        unfold bfStep
        rw [bfInner_getD, Blossom.basisFuns_length]
        simp only [Nat.zero_add]
        by_cases hap : a = p + 1
        · subst hap
          rw [h2]
          unfold nduSaved
          simp only [Nat.add_sub_cancel, Nat.add_one_ne_zero, if_false, le_refl, if_true,
            lt_irrefl, add_zero]
          rw [ih1 p p (le_refl _) (le_refl _)]
        · rw [h1 a (by omega)]
          unfold nduSaved
          simp only [Nat.add_sub_cancel]
          rw [if_pos (show a < p + 1 by omega), ih1 p a (le_refl _) (by omega)]
          congr 1
          by_cases ha0 : a = 0
          · simp [ha0]
          · rw [if_neg ha0, if_neg ha0, if_pos (show a ≤ p + 1 by omega), ih1 p (a-1) (le_refl _) (by omega)]
      · rw [h4 a c (by omega) (by omega)]
        exact ih1 c a (by omega) ha
    · intro c a hc ha
      by_cases hcp : c = p + 1
      · subst hcp
        exact h3 a ha
      · rw [h4 c a (by omega) (by omega)]
        exact ih2 c a (by omega) ha

/-- **no division by zero under the span guard**: every divisor of A2.3 is an entry `ndu[c][a]`, `a < c ≤ p`,
    of the lower triangle (`ndu[j][r]` in the first loop, `ndu[pk+1][rk]`, `ndu[pk+1][rk+j]`, `ndu[pk+1][r]`
    in the derivative loop), and these are positive knot differences when the knot vector is sorted and
    the span `[U κ, U (κ+1))` is not empty -/
theorem nduTable_lower_pos (p : ℕ) (U : ℕ → K) (κ : ℕ) (u : K) (hm : Monotone U) (hspan : U κ < U (κ+1))
    (c a : ℕ) (hc : c ≤ p) (ha : a < c) : 0 < (nduTable p U κ u).get c a := by
  rw [(nduTable_spec U κ u p).2 c a hc ha]
  unfold left right
  have h1 : U (κ + 1 - (c - a)) ≤ U κ := hm (by omega)
  have h2 : U (κ + 1) ≤ U (κ + (a + 1)) := hm (by omega)
  linarith

end Geomdl
