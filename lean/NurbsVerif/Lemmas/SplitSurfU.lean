import NurbsVerif.Lemmas.SplitSurfEval

/-! `operations.split_surface_u` through the model `splitDir … 0`: gather / scatter of columns for a
    general column map, unfolding to explicit pieces. -/
set_option linter.unusedSectionVars false
namespace Geomdl
open Blossom Finset
variable {K : Type} [Field K] [LinearOrder K] [IsStrictOrderedRing K]

theorem colOf_length (su sv : ℕ) (P : List (List K)) (y : ℕ) : (colOf su sv P y).length = su := by simp [colOf]

/-- **columns of the net produced by `mapSurfU` are the transformed columns** (any column map with a
    uniform output length `L`) -/
theorem mapSurfU_general (su sv L d : ℕ) (P : List (List K)) (f : List (List K) → List (List K)) (hsv : 0 < sv)
    (hf : ∀ y, y < sv → (f (colOf su sv P y)).length = L)
    (hnet : ∀ y, y < sv → NetOk d (f (colOf su sv P y))) :
    (mapSurfU su sv P f).2 = L ∧ (mapSurfU su sv P f).1.length = L * sv ∧ NetOk d (mapSurfU su sv P f).1 ∧
      ∀ y, y < sv → colOf L sv (mapSurfU su sv P f).1 y = f (colOf su sv P y) := by
  have hsize : (mapSurfU su sv P f).2 = L := by
    show (((List.range sv).map (fun v => f (colOf su sv P v))).headD []).length = L
    cases sv with
    | zero => omega
    | succ n =>
      rw [List.range_succ_eq_map]
      simp only [List.map_cons, List.headD_cons]
      exact hf 0 (by omega)
  have hrows : ∀ rw_ ∈ (List.range L).map (fun u => (List.range sv).map (fun v =>
      ptsGet (((List.range sv).map (fun v => f (colOf su sv P v))).getD v []) u)), rw_.length = sv := by
    intro rw_ h
    simp only [List.mem_map, List.mem_range] at h
    obtain ⟨a, _, rfl⟩ := h
    simp
  have hnet' : (mapSurfU su sv P f).1 = List.flatten ((List.range L).map (fun u => (List.range sv).map (fun v =>
      ptsGet (((List.range sv).map (fun v => f (colOf su sv P v))).getD v []) u))) := by
    show (List.range (mapSurfU su sv P f).2).flatMap _ = _
    rw [hsize, List.flatMap_def]
    rfl
  have hcol : ∀ y, y < sv → ((List.range sv).map (fun v => f (colOf su sv P v))).getD y [] = f (colOf su sv P y) := by
    intro y hy
    simp [List.getD_eq_getElem?_getD, hy]
  have hentry : ∀ y a, y < sv → a < L →
      ptsGet (mapSurfU su sv P f).1 (y + sv * a) = ptsGet (f (colOf su sv P y)) a := by
    intro y a hy ha
    unfold ptsGet
    rw [hnet', flatten_uniform_getD [] sv _ hrows a y (by simp; exact ha) hy]
    simp [List.getD_eq_getElem?_getD, ha, hy, ptsGet]
  refine ⟨hsize, ?_, ?_, ?_⟩
  · rw [hnet', flatten_uniform_length sv _ hrows]; simp; ring
  · intro pt hpt
    rw [hnet', List.mem_flatten] at hpt
    obtain ⟨l, hl, hptl⟩ := hpt
    simp only [List.mem_map, List.mem_range] at hl
    obtain ⟨a, ha, rfl⟩ := hl
    simp only [List.mem_map, List.mem_range] at hptl
    obtain ⟨y, hy, rfl⟩ := hptl
    rw [hcol y hy]
    exact ptsGet_length (hnet y hy) a (by rw [hf y hy]; exact ha)
  · intro y hy
    apply List.ext_getElem
    · rw [hf y hy]; simp [colOf]
    · intro i h1 h2
      have hi : i < L := by simpa [colOf] using h1
      simp only [colOf, List.getElem_map, List.getElem_range]
      rw [hentry y i hy hi]
      unfold ptsGet
      rw [List.getD_eq_getElem?_getD, List.getElem?_eq_getElem h2]
      rfl

/-- **columns**: if every column of `PA` (u size `nA`, u knots `UA`) at `t` is the corresponding column
    of `P` at `u`, the surface `PA` with normalised v knots at `(t, normalised v)` is `P` at `(u, v)` -/
theorem surface_cols_eval (pu pv d : ℕ) (UA Uu Uv : List K) (nA su sv : ℕ) (PA P : List (List K)) (t u v : K) (j : ℕ)
    (hVm : Monotone (fnOf Uv)) (hVne : Uv ≠ []) (hVr : Uv.headD 0 < Uv.getLastD 0) (hsv : pv + 1 ≤ sv)
    (hv : fnOf Uv pv ≤ v)
    (hPA : NetOk d PA) (hlenA : PA.length = nA * sv) (hP : NetOk d P) (hlenP : P.length = su * sv)
    (hA : pu ≤ findSpanLinear pu (fnOf UA) nA t ∧ findSpanLinear pu (fnOf UA) nA t < nA)
    (hU : pu ≤ findSpanLinear pu (fnOf Uu) su u ∧ findSpanLinear pu (fnOf Uu) su u < su)
    (hcols : ∀ y, y < sv → (curvePoint pu (fnOf UA) (colOf nA sv PA y) t).getD j 0
        = (curvePoint pu (fnOf Uu) (colOf su sv P y) u).getD j 0) :
    (surfacePoint pu pv (fnOf UA) (fnOf (knotNormalize Uv)) nA sv PA t
        ((v - Uv.headD 0) / (Uv.getLastD 0 - Uv.headD 0))).getD j 0
      = (surfacePoint pu pv (fnOf Uu) (fnOf Uv) su sv P u v).getD j 0 := by
  obtain ⟨a1, a2, _, _⟩ := findSpanLinear_spec pv (fnOf Uv) sv v hsv hVm hv
  unfold surfacePoint
  rw [findSpanLinear_normalize pv Uv sv v hVne hVr]
  rw [surfacePointAt_cols pu pv _ _ nA sv PA _ _ t _ d j hA.1 a1 hA.2 a2 hlenA hPA]
  rw [surfacePointAt_cols pu pv _ _ su sv P _ _ u v d j hU.1 a1 hU.2 a2 hlenP hP]
  rw [basisFuns_normalize pv Uv _ v hVne (ne_of_gt (sub_pos.mpr hVr))]
  apply Finset.sum_congr rfl
  intro b hb
  rw [Finset.mem_range] at hb
  congr 1
  have := hcols (findSpanLinear pv (fnOf Uv) sv v - pv + b) (by omega)
  unfold curvePoint at this
  rw [colOf_length, colOf_length] at this
  exact this

/-- the refined surface `split_surface_u` cuts: (u knot vector, (net, u size)) -/
def refinedU (su sv pu : ℕ) (Uu : List K) (P : List (List K)) (ub tol : K) : List K × (List (List K) × ℕ) :=
  if pu - findMultiplicity ub Uu tol = 0 then (Uu, (P, su))
  else (knotInsertionKv Uu ub (findSpanLinear pu (fnOf Uu) su ub) (pu - findMultiplicity ub Uu tol),
        mapSurfU su sv P (fun c => knotInsertion pu (fnOf Uu) c ub (pu - findMultiplicity ub Uu tol)
          (findMultiplicity ub Uu tol) (findSpanLinear pu (fnOf Uu) su ub)))

/-- **`splitDir` on a surface in the u direction, unfolded** -/
theorem splitDir_surfShape_u (rat : Bool) (pu pv : ℕ) (Uu Uv : List K) (su sv : ℕ) (P : List (List K)) (ub tol : K)
    (h : ¬ (ub = Uu.getD pu 0 ∨ ub = Uu.getD su 0)) :
    splitDir (surfShape rat pu pv Uu Uv su sv P) 0 ub tol =
      some (
        surfShape rat pu pv
          (knotNormalize ((refinedU su sv pu Uu P ub tol).1.take
            (findSpanLinear pu (fnOf (refinedU su sv pu Uu P ub tol).1) (refinedU su sv pu Uu P ub tol).2.2 ub + 1) ++ [ub]))
          (knotNormalize Uv)
          (mapSurfU (refinedU su sv pu Uu P ub tol).2.2 sv (refinedU su sv pu Uu P ub tol).2.1
            (fun c => (c.take (findSpanLinear pu (fnOf Uu) su ub - pu + 1 + (pu - findMultiplicity ub Uu tol))).drop 0)).2
          sv
          (mapSurfU (refinedU su sv pu Uu P ub tol).2.2 sv (refinedU su sv pu Uu P ub tol).2.1
            (fun c => (c.take (findSpanLinear pu (fnOf Uu) su ub - pu + 1 + (pu - findMultiplicity ub Uu tol))).drop 0)).1,
        surfShape rat pu pv
          (knotNormalize (List.replicate (pu + 1) ub ++ (refinedU su sv pu Uu P ub tol).1.drop
            (findSpanLinear pu (fnOf (refinedU su sv pu Uu P ub tol).1) (refinedU su sv pu Uu P ub tol).2.2 ub + 1)))
          (knotNormalize Uv)
          (mapSurfU (refinedU su sv pu Uu P ub tol).2.2 sv (refinedU su sv pu Uu P ub tol).2.1
            (fun c => (c.take (refinedU su sv pu Uu P ub tol).2.2).drop
              (findSpanLinear pu (fnOf Uu) su ub - pu + 1 + (pu - findMultiplicity ub Uu tol) - 1))).2
          sv
          (mapSurfU (refinedU su sv pu Uu P ub tol).2.2 sv (refinedU su sv pu Uu P ub tol).2.1
            (fun c => (c.take (refinedU su sv pu Uu P ub tol).2.2).drop
              (findSpanLinear pu (fnOf Uu) su ub - pu + 1 + (pu - findMultiplicity ub Uu tol) - 1))).1) := by
  unfold splitDir refinedU
  simp only [surfShape, Shape.deg, Shape.kv, Shape.size, List.getD_cons_zero] at h ⊢
  rw [if_neg h]
  by_cases hr : pu - findMultiplicity ub Uu tol = 0
  · simp [hr, Shape.mapDir, Shape.pdim, Shape.size, normKv]
  · simp [hr, insertKnotDir, Shape.mapDir, Shape.pdim, Shape.kv, Shape.size, Shape.deg, normKv]

/-- **columns of the refined surface are the refined columns** -/
theorem refinedU_cols (su sv pu d : ℕ) (Uu : List K) (P : List (List K)) (ub tol : K)
    (hsv : 0 < sv) (hP : NetOk d P) (hlen : P.length = su * sv)
    (hpk : pu ≤ findSpanLinear pu (fnOf Uu) su ub) (hk : findSpanLinear pu (fnOf Uu) su ub < su)
    (hs : findMultiplicity ub Uu tol ≤ pu) :
    (refinedU su sv pu Uu P ub tol).2.2 = su + (pu - findMultiplicity ub Uu tol) ∧
    (refinedU su sv pu Uu P ub tol).2.1.length = (su + (pu - findMultiplicity ub Uu tol)) * sv ∧
    NetOk d (refinedU su sv pu Uu P ub tol).2.1 ∧
    ∀ y, y < sv →
      (splitRefined pu Uu (colOf su sv P y) ub tol).1 = (refinedU su sv pu Uu P ub tol).1 ∧
      colOf (su + (pu - findMultiplicity ub Uu tol)) sv (refinedU su sv pu Uu P ub tol).2.1 y
        = (splitRefined pu Uu (colOf su sv P y) ub tol).2 := by
  unfold refinedU splitRefined
  by_cases hr : pu - findMultiplicity ub Uu tol = 0
  · simp only [hr, if_true, Nat.add_zero]
    exact ⟨trivial, hlen, hP, fun y hy => ⟨trivial, trivial⟩⟩
  · simp only [hr, if_false, insStep, colOf_length]
    obtain ⟨h0, h1, h2, h3⟩ := mapSurfU_spec su sv d (pu - findMultiplicity ub Uu tol) pu (fnOf Uu) P ub
      (findMultiplicity ub Uu tol) (findSpanLinear pu (fnOf Uu) su ub) hP hlen hsv hpk hk (by omega)
    exact ⟨h0, h1, h2, fun y hy => ⟨trivial, h3 y hy⟩⟩

end Geomdl
