import NurbsVerif.Lemmas.KnotRowsIns

/-! List-of-rows branches, part 4: A5.4 as coded on rows (`refineA54Rows`): the knot vector is the one of
    the point branch, every iso-curve of the result is `refineA54` of that iso-curve; the rows stay
    rectangular up to padding rows. -/
namespace Geomdl
namespace Rows
open RemInv
variable {K : Type} [Field K] [LinearOrder K] [IsStrictOrderedRing K]

/-- iso-curve `c` of a state of the rows loop -/
def stCol (c : ℕ) (st : A54RowsSt K) : A54St K := { kv := st.kv, cp := isoCol c st.cp, i := st.i, k := st.k }

theorem isoCol_a54ShiftRows (c p : ℕ) (U : ℕ → K) (R : List (List (List K))) (x : K) (a : ℕ) :
    ∀ (fuel : ℕ) (st : A54RowsSt K),
      stCol c (a54ShiftRows p U R x a fuel st) = a54Shift p U (isoCol c R) x a fuel (stCol c st) := by
  intro fuel
  induction fuel with
  | zero => intro st; rfl
  | succ fuel ih =>
    intro st
    unfold a54ShiftRows a54Shift
    by_cases h : x ≤ U st.i ∧ a < st.i
    · rw [if_pos h, if_pos (show x ≤ U (stCol c st).i ∧ a < (stCol c st).i from h), ih]
      congr 1
      simp only [stCol, isoCol_set, ptsGet_isoCol]
    · rw [if_neg h, if_neg (show ¬ (x ≤ U (stCol c st).i ∧ a < (stCol c st).i) from h)]

theorem isoCol_a54BlendRows (c p m : ℕ) (hc : c < m) (U : ℕ → K) (x tol : K) (kv : List K) (i k : ℕ)
    (cp : List (List (List K))) (l0 : ℕ) :
    isoCol c (a54BlendRows p m U x tol kv i k cp l0) = a54Blend p U x tol kv i k (isoCol c cp) l0 := by
  unfold a54BlendRows a54Blend
  simp only []
  split
  · rw [isoCol_set, ptsGet_isoCol]
  · rw [isoCol_set, ptsGet_map_range_lt _ _ _ hc, ptsGet_isoCol, ptsGet_isoCol]

theorem isoCol_foldl_blend (c p m : ℕ) (hc : c < m) (U : ℕ → K) (x tol : K) (kv : List K) (i k : ℕ) :
    ∀ (l : List ℕ) (cp : List (List (List K))),
      isoCol c (l.foldl (a54BlendRows p m U x tol kv i k) cp) = l.foldl (a54Blend p U x tol kv i k) (isoCol c cp) := by
  intro l
  induction l with
  | nil => intro cp; rfl
  | cons a l ih => intro cp; rw [List.foldl_cons, List.foldl_cons, ih, isoCol_a54BlendRows c p m hc]

theorem isoCol_a54OuterRows (c p m : ℕ) (hc : c < m) (U : ℕ → K) (R : List (List (List K))) (a : ℕ) (tol : K)
    (fuel : ℕ) (st : A54RowsSt K) (x : K) :
    stCol c (a54OuterRows p m U R a tol fuel st x) = a54Outer p U (isoCol c R) a tol fuel (stCol c st) x := by
  unfold a54OuterRows a54Outer
  simp only []
  rw [← isoCol_a54ShiftRows c p U R x a fuel st]
  simp only [stCol]
  rw [isoCol_foldl_blend c p m hc, isoCol_set, ptsGet_isoCol]

theorem isoCol_a54LoopRows (c p m : ℕ) (hc : c < m) (U : ℕ → K) (R : List (List (List K))) (X : List K) (a : ℕ)
    (tol : K) (fuel : ℕ) : ∀ (j : ℕ) (st : A54RowsSt K),
      stCol c (a54LoopRows p m U R X a tol fuel j st) = a54Loop p U (isoCol c R) X a tol fuel j (stCol c st) := by
  intro j
  induction j with
  | zero => intro st; rfl
  | succ j ih =>
    intro st
    unfold a54LoopRows a54Loop
    rw [ih, isoCol_a54OuterRows c p m hc]

theorem isoCol_foldl_set (c : ℕ) (R : List (List (List K))) (g : ℕ → ℕ) : ∀ (l : List ℕ) (cp : List (List (List K))),
    isoCol c (l.foldl (fun q j => q.set (g j) (rowGet R j)) cp)
      = l.foldl (fun q j => q.set (g j) (ptsGet (isoCol c R) j)) (isoCol c cp) := by
  intro l
  induction l with
  | nil => intro cp; rfl
  | cons a l ih => intro cp; rw [List.foldl_cons, List.foldl_cons, ih, isoCol_set, ptsGet_isoCol]

theorem isoCol_a54InitRows (c p : ℕ) (U : List K) (R : List (List (List K))) (X : List K) :
    stCol c (a54InitRows p U R X).1 = (a54Init p U (isoCol c R) X).1 ∧
    (a54InitRows p U R X).2 = (a54Init p U (isoCol c R) X).2 := by
  unfold a54InitRows a54Init
  simp only [stCol, isoCol_length]
  refine ⟨?_, trivial⟩
  congr 1
  rw [isoCol_foldl_set c R (fun j => j + (X.length - 1) + 1), isoCol_foldl_set c R (fun j => j), isoCol_replicate,
    ptsGet_replicate_nil]

/-- **every iso-curve of A5.4 on rows is A5.4 of that iso-curve; the knot vector is the same** -/
theorem isoCol_refineA54Rows (c p : ℕ) (U : List K) (R : List (List (List K))) (X : List K) (tol : K)
    (hc : c < (R.headD []).length) :
    (refineA54Rows p U R X tol).1 = (refineA54 p U (isoCol c R) X tol).1 ∧
    isoCol c (refineA54Rows p U R X tol).2 = (refineA54 p U (isoCol c R) X tol).2 := by
  unfold refineA54Rows refineA54
  simp only []
  obtain ⟨h1, h2⟩ := isoCol_a54InitRows c p U R X
  have := isoCol_a54LoopRows c p _ hc (fnOf U) R X (a54InitRows p U R X).2 tol (U.length + 1) X.length
    (a54InitRows p U R X).1
  rw [← h1, ← h2, ← this]
  exact ⟨rfl, rfl⟩

/-- the whole helper call on rows, iso-curve by iso-curve -/
theorem isoCol_knotRefinementRows (c p : ℕ) (U : List K) (R : List (List (List K))) (kl : Option (List K))
    (add : List K) (density : ℕ) (tol : K) (hc : c < (R.headD []).length) :
    (knotRefinementRows p U R kl add density tol).map (fun x => (x.1, isoCol c x.2))
      = knotRefinementA54 p U (isoCol c R) kl add density tol := by
  unfold knotRefinementRows knotRefinementA54
  simp only []
  split
  · rfl
  · obtain ⟨h1, h2⟩ := isoCol_refineA54Rows c p U R (refineXOf p U kl add density tol) tol hc
    simp only [Option.map_some]
    rw [h1, h2]

/-! ### widths: every row of the work array has `m` points or is a padding row `[]` -/

def RectW' (m : ℕ) (R : List (List (List K))) : Prop := ∀ row ∈ R, row.length = m ∨ row = []

theorem RectW'.rowGet {m : ℕ} {R : List (List (List K))} (h : RectW' m R) (i : ℕ) :
    (rowGet R i).length = m ∨ rowGet R i = [] := by
  unfold Geomdl.rowGet
  rw [List.getD_eq_getElem?_getD]
  by_cases hi : i < R.length
  · rw [List.getElem?_eq_getElem hi]; exact h _ (List.getElem_mem hi)
  · rw [List.getElem?_eq_none (by omega)]; right; rfl

theorem RectW'.set {m : ℕ} {R : List (List (List K))} (h : RectW' m R) (i : ℕ) (row : List (List K))
    (hr : row.length = m ∨ row = []) : RectW' m (R.set i row) := by
  intro x hx
  rcases List.mem_or_eq_of_mem_set hx with h1 | h1
  · exact h x h1
  · rw [h1]; exact hr

theorem RectW.weak {m : ℕ} {R : List (List (List K))} (h : RectW m R) : RectW' m R :=
  fun row hrow => Or.inl (h row hrow)

theorem rectW'_a54ShiftRows (p m : ℕ) (U : ℕ → K) (R : List (List (List K))) (hR : RectW' m R) (x : K) (a : ℕ) :
    ∀ (fuel : ℕ) (st : A54RowsSt K), RectW' m st.cp → RectW' m (a54ShiftRows p U R x a fuel st).cp := by
  intro fuel
  induction fuel with
  | zero => intro st h; exact h
  | succ fuel ih =>
    intro st h
    unfold a54ShiftRows
    split
    · exact ih _ (h.set _ _ (hR.rowGet _))
    · exact h

theorem rectW'_blend (p m : ℕ) (U : ℕ → K) (x tol : K) (kv : List K) (i k : ℕ) (cp : List (List (List K))) (l0 : ℕ)
    (h : RectW' m cp) : RectW' m (a54BlendRows p m U x tol kv i k cp l0) := by
  unfold a54BlendRows
  simp only []
  split
  · exact h.set _ _ (h.rowGet _)
  · exact h.set _ _ (Or.inl (by simp))

theorem rectW'_foldl_blend (p m : ℕ) (U : ℕ → K) (x tol : K) (kv : List K) (i k : ℕ) :
    ∀ (l : List ℕ) (cp : List (List (List K))), RectW' m cp →
      RectW' m (l.foldl (a54BlendRows p m U x tol kv i k) cp) := by
  intro l
  induction l with
  | nil => intro cp h; exact h
  | cons a l ih => intro cp h; exact ih _ (rectW'_blend p m U x tol kv i k cp a h)

theorem rectW'_a54LoopRows (p m : ℕ) (U : ℕ → K) (R : List (List (List K))) (hR : RectW' m R) (X : List K) (a : ℕ)
    (tol : K) (fuel : ℕ) : ∀ (j : ℕ) (st : A54RowsSt K), RectW' m st.cp →
      RectW' m (a54LoopRows p m U R X a tol fuel j st).cp := by
  intro j
  induction j with
  | zero => intro st h; exact h
  | succ j ih =>
    intro st h
    unfold a54LoopRows
    apply ih
    unfold a54OuterRows
    simp only []
    apply rectW'_foldl_blend
    have h1 := rectW'_a54ShiftRows p m U R hR (X.getD j 0) a fuel st h
    exact h1.set _ _ (h1.rowGet _)

theorem rectW'_foldl_set (m : ℕ) (R : List (List (List K))) (hR : RectW' m R) (g : ℕ → ℕ) :
    ∀ (l : List ℕ) (cp : List (List (List K))), RectW' m cp →
      RectW' m (l.foldl (fun q j => q.set (g j) (rowGet R j)) cp) := by
  intro l
  induction l with
  | nil => intro cp h; exact h
  | cons a l ih => intro cp h; exact ih _ (h.set _ _ (hR.rowGet _))

theorem rectW'_refineA54Rows (p : ℕ) (U : List K) (R : List (List (List K))) (X : List K) (tol : K)
    (hR : RectW (R.headD []).length R) : RectW' (R.headD []).length (refineA54Rows p U R X tol).2 := by
  unfold refineA54Rows
  simp only []
  apply rectW'_a54LoopRows _ _ _ _ hR.weak
  unfold a54InitRows
  simp only []
  apply rectW'_foldl_set _ _ hR.weak
  apply rectW'_foldl_set _ _ hR.weak
  intro row hrow
  rw [List.eq_of_mem_replicate hrow]
  left; simp

/-- a padded-rectangular list of rows whose first iso-curve consists of non-empty points is rectangular -/
theorem rectW_of_weak (m d : ℕ) (hm : 0 < m) (hd : 0 < d) (R : List (List (List K))) (h : RectW' m R)
    (h0 : NetOk d (isoCol 0 R)) : RectW m R := by
  apply rectW_of_get
  intro i hi
  rcases h.rowGet i with h1 | h1
  · exact h1
  · exfalso
    have hl : (ptsGet (isoCol 0 R) i).length = d := ptsGet_length h0 i (by rw [isoCol_length]; exact hi)
    rw [ptsGet_isoCol, h1] at hl
    simp [ptsGet] at hl
    omega

end Rows
end Geomdl
