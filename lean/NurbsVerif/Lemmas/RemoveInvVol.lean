import NurbsVerif.Lemmas.RemoveInvLib
import NurbsVerif.Lemmas.Layout

/-! C06 helper lemmas, part 8: volumes.  `mapVol` (the gather / scatter of iso-curves of
    `operations.insert_knot` / `remove_knot` on a volume, layout `v + sv*(u + su*w)`) as a `tab3`
    table, composition of two `mapVol`s along the same direction, and the round trip. -/
namespace Geomdl
namespace RemInv
open Blossom
variable {K : Type} [Field K] [LinearOrder K] [IsStrictOrderedRing K]

/-- iso-curves of a volume net along u, v, w -/
def lineU (su sv : ℕ) (P : List (List K)) (v w : ℕ) : List (List K) :=
  (List.range su).map (fun u => ptsGet P (v + sv * (u + su * w)))
def lineV (su sv : ℕ) (P : List (List K)) (u w : ℕ) : List (List K) :=
  (List.range sv).map (fun v => ptsGet P (v + sv * (u + su * w)))
def lineW (su sv sw : ℕ) (P : List (List K)) (u v : ℕ) : List (List K) :=
  (List.range sw).map (fun w => ptsGet P (v + sv * (u + su * w)))

theorem getD_map_range {β : Type} (g : ℕ → β) (n i : ℕ) (d : β) (h : i < n) :
    ((List.range n).map g).getD i d = g i := by
  rw [List.getD_eq_getElem?_getD, List.getElem?_map, List.getElem?_range h]; rfl

theorem headD_map_range {β : Type} (g : ℕ → β) (n : ℕ) (d : β) (h : 0 < n) :
    ((List.range n).map g).headD d = g 0 := by
  cases n with
  | zero => omega
  | succ n => rw [List.range_succ_eq_map]; rfl

/-! ### `mapVol` as a table -/

theorem mapVol0_eq (su sv sw : ℕ) (P : List (List K)) (f : List (List K) → List (List K)) (hsv : 0 < sv) (hsw : 0 < sw) :
    mapVol 0 su sv sw P f
      = (tab3 sw (f (lineU su sv P 0 0)).length sv (fun w u v => ptsGet (f (lineU su sv P v w)) u),
         (f (lineU su sv P 0 0)).length) := by
  unfold mapVol
  simp only [if_true]
  have hn : (((List.range sw).map (fun w => (List.range sv).map (fun v =>
      f ((List.range su).map (fun u => ptsGet P (v + sv * (u + su * w))))))).headD []).headD []
        = f (lineU su sv P 0 0) := by
    rw [headD_map_range _ _ _ hsw, headD_map_range _ _ _ hsv]; rfl
  rw [hn]
  apply Prod.ext
  · show tab3 sw _ sv _ = _
    apply tab3_congr
    intro w hw u hu v hv
    rw [getD_map_range _ _ _ _ hw, getD_map_range _ _ _ _ hv]; rfl
  · rfl

theorem mapVol1_eq (su sv sw : ℕ) (P : List (List K)) (f : List (List K) → List (List K)) (hsu : 0 < su) (hsw : 0 < sw) :
    mapVol 1 su sv sw P f
      = (tab3 sw su (f (lineV su sv P 0 0)).length (fun w u v => ptsGet (f (lineV su sv P u w)) v),
         (f (lineV su sv P 0 0)).length) := by
  unfold mapVol
  simp only [if_true, Nat.one_ne_zero, if_false]
  have hn : (((List.range sw).map (fun w => (List.range su).map (fun u =>
      f ((List.range sv).map (fun v => ptsGet P (v + sv * (u + su * w))))))).headD []).headD []
        = f (lineV su sv P 0 0) := by
    rw [headD_map_range _ _ _ hsw, headD_map_range _ _ _ hsu]; rfl
  rw [hn]
  apply Prod.ext
  · show tab3 sw su _ _ = _
    apply tab3_congr
    intro w hw u hu v hv
    rw [getD_map_range _ _ _ _ hw, getD_map_range _ _ _ _ hu]; rfl
  · rfl

theorem mapVol2_eq (dir su sv sw : ℕ) (hdir : 2 ≤ dir) (P : List (List K)) (f : List (List K) → List (List K))
    (hsu : 0 < su) (hsv : 0 < sv) :
    mapVol dir su sv sw P f
      = (tab3 (f (lineW su sv sw P 0 0)).length su sv (fun w u v => ptsGet (f (lineW su sv sw P u v)) w),
         (f (lineW su sv sw P 0 0)).length) := by
  unfold mapVol
  simp only [show ¬ dir = 0 by omega, show ¬ dir = 1 by omega, if_false]
  have hn : (((List.range su).map (fun u => (List.range sv).map (fun v =>
      f ((List.range sw).map (fun w => ptsGet P (v + sv * (u + su * w))))))).headD []).headD []
        = f (lineW su sv sw P 0 0) := by
    rw [headD_map_range _ _ _ hsu, headD_map_range _ _ _ hsv]; rfl
  rw [hn]
  apply Prod.ext
  · show tab3 _ su sv _ = _
    apply tab3_congr
    intro w hw u hu v hv
    rw [getD_map_range _ _ _ _ hu, getD_map_range _ _ _ _ hv]; rfl
  · rfl

/-! ### iso-curves of the result -/

theorem list_eq_of_ptsGet (A : List (List K)) (n : ℕ) (g : ℕ → List K) (hA : A.length = n)
    (h : ∀ i, i < n → g i = ptsGet A i) : (List.range n).map g = A := by
  apply net_ext
  · simp [hA]
  · intro i hi
    simp only [List.length_map, List.length_range] at hi
    rw [ptsGet_map_range _ _ _ hi, h i hi]

theorem lineU_mapVol0 (su sv sw L : ℕ) (P : List (List K)) (f : List (List K) → List (List K)) (hsv : 0 < sv) (hsw : 0 < sw)
    (hf : ∀ v w, v < sv → w < sw → (f (lineU su sv P v w)).length = L) (v w : ℕ) (hv : v < sv) (hw : w < sw) :
    lineU L sv (mapVol 0 su sv sw P f).1 v w = f (lineU su sv P v w) := by
  rw [mapVol0_eq su sv sw P f hsv hsw, hf 0 0 hsv hsw]
  unfold lineU
  apply list_eq_of_ptsGet _ _ _ (hf v w hv hw)
  intro u hu
  unfold ptsGet
  rw [getD_tab3 _ hw hu hv]
  rfl

theorem lineV_mapVol1 (su sv sw L : ℕ) (P : List (List K)) (f : List (List K) → List (List K)) (hsu : 0 < su) (hsw : 0 < sw)
    (hf : ∀ u w, u < su → w < sw → (f (lineV su sv P u w)).length = L) (u w : ℕ) (hu : u < su) (hw : w < sw) :
    lineV su L (mapVol 1 su sv sw P f).1 u w = f (lineV su sv P u w) := by
  rw [mapVol1_eq su sv sw P f hsu hsw, hf 0 0 hsu hsw]
  unfold lineV
  apply list_eq_of_ptsGet _ _ _ (hf u w hu hw)
  intro v hv
  unfold ptsGet
  rw [getD_tab3 _ hw hu hv]
  rfl

theorem lineW_mapVol2 (dir su sv sw L : ℕ) (hdir : 2 ≤ dir) (P : List (List K)) (f : List (List K) → List (List K))
    (hsu : 0 < su) (hsv : 0 < sv)
    (hf : ∀ u v, u < su → v < sv → (f (lineW su sv sw P u v)).length = L) (u v : ℕ) (hu : u < su) (hv : v < sv) :
    lineW su sv L (mapVol dir su sv sw P f).1 u v = f (lineW su sv sw P u v) := by
  rw [mapVol2_eq dir su sv sw hdir P f hsu hsv, hf 0 0 hsu hsv]
  unfold lineW
  apply list_eq_of_ptsGet _ _ _ (hf u v hu hv)
  intro w hw
  unfold ptsGet
  rw [getD_tab3 _ hw hu hv]
  rfl

/-! ### composition along one direction -/

theorem mapVol0_comp (su sv sw L : ℕ) (P : List (List K)) (f g h : List (List K) → List (List K))
    (hsv : 0 < sv) (hsw : 0 < sw)
    (hf : ∀ v w, v < sv → w < sw → (f (lineU su sv P v w)).length = L)
    (hgh : ∀ v w, v < sv → w < sw → g (f (lineU su sv P v w)) = h (lineU su sv P v w)) :
    mapVol 0 L sv sw (mapVol 0 su sv sw P f).1 g = mapVol 0 su sv sw P h := by
  have hl := lineU_mapVol0 su sv sw L P f hsv hsw hf
  rw [mapVol0_eq L sv sw _ g hsv hsw, mapVol0_eq su sv sw P h hsv hsw, hl 0 0 hsv hsw, hgh 0 0 hsv hsw]
  congr 1
  apply tab3_congr
  intro w hw u _ v hv
  rw [hl v w hv hw, hgh v w hv hw]

theorem mapVol1_comp (su sv sw L : ℕ) (P : List (List K)) (f g h : List (List K) → List (List K))
    (hsu : 0 < su) (hsw : 0 < sw)
    (hf : ∀ u w, u < su → w < sw → (f (lineV su sv P u w)).length = L)
    (hgh : ∀ u w, u < su → w < sw → g (f (lineV su sv P u w)) = h (lineV su sv P u w)) :
    mapVol 1 su L sw (mapVol 1 su sv sw P f).1 g = mapVol 1 su sv sw P h := by
  have hl := lineV_mapVol1 su sv sw L P f hsu hsw hf
  rw [mapVol1_eq su L sw _ g hsu hsw, mapVol1_eq su sv sw P h hsu hsw, hl 0 0 hsu hsw, hgh 0 0 hsu hsw]
  congr 1
  apply tab3_congr
  intro w hw u hu v _
  rw [hl u w hu hw, hgh u w hu hw]

theorem mapVol2_comp (dir su sv sw L : ℕ) (hdir : 2 ≤ dir) (P : List (List K)) (f g h : List (List K) → List (List K))
    (hsu : 0 < su) (hsv : 0 < sv)
    (hf : ∀ u v, u < su → v < sv → (f (lineW su sv sw P u v)).length = L)
    (hgh : ∀ u v, u < su → v < sv → g (f (lineW su sv sw P u v)) = h (lineW su sv sw P u v)) :
    mapVol dir su sv L (mapVol dir su sv sw P f).1 g = mapVol dir su sv sw P h := by
  have hl := lineW_mapVol2 dir su sv sw L hdir P f hsu hsv hf
  rw [mapVol2_eq dir su sv L hdir _ g hsu hsv, mapVol2_eq dir su sv sw hdir P h hsu hsv, hl 0 0 hsu hsv, hgh 0 0 hsu hsv]
  congr 1
  apply tab3_congr
  intro w _ u hu v hv
  rw [hl u v hu hv, hgh u v hu hv]

/-! ### iso-curves of a well-formed net are well-formed -/

theorem idx3_lt (su sv sw u v w : ℕ) (hu : u < su) (hv : v < sv) (hw : w < sw) :
    v + sv * (u + su * w) < su * sv * sw := flatIdx3_lt hu hv hw

theorem lineU_netOk (su sv sw d : ℕ) (P : List (List K)) (hP : NetOk d P) (hlen : P.length = su * sv * sw)
    (v w : ℕ) (hv : v < sv) (hw : w < sw) : NetOk d (lineU su sv P v w) := by
  intro pt hpt
  simp only [lineU, List.mem_map, List.mem_range] at hpt
  obtain ⟨u, hu, rfl⟩ := hpt
  exact ptsGet_length hP _ (by rw [hlen]; exact idx3_lt su sv sw u v w hu hv hw)

theorem lineV_netOk (su sv sw d : ℕ) (P : List (List K)) (hP : NetOk d P) (hlen : P.length = su * sv * sw)
    (u w : ℕ) (hu : u < su) (hw : w < sw) : NetOk d (lineV su sv P u w) := by
  intro pt hpt
  simp only [lineV, List.mem_map, List.mem_range] at hpt
  obtain ⟨v, hv, rfl⟩ := hpt
  exact ptsGet_length hP _ (by rw [hlen]; exact idx3_lt su sv sw u v w hu hv hw)

theorem lineW_netOk (su sv sw d : ℕ) (P : List (List K)) (hP : NetOk d P) (hlen : P.length = su * sv * sw)
    (u v : ℕ) (hu : u < su) (hv : v < sv) : NetOk d (lineW su sv sw P u v) := by
  intro pt hpt
  simp only [lineW, List.mem_map, List.mem_range] at hpt
  obtain ⟨w, hw, rfl⟩ := hpt
  exact ptsGet_length hP _ (by rw [hlen]; exact idx3_lt su sv sw u v w hu hv hw)

/-! ### removal after insertion, per direction -/

section vol
variable (Ul : List K) (P : List (List K)) (ub : K) (p r t s k d su sv sw : ℕ) (tol2 : K)
  (hP : NetOk d P) (hlenP : P.length = su * sv * sw) (hsu : 0 < su) (hsv : 0 < sv) (hsw : 0 < sw)
  (hm : Monotone (fnOf Ul)) (hlen : k + 1 < Ul.length)
  (hk2 : ub < fnOf Ul (k + 1)) (hs : fnOf Ul (k - s) < ub)
  (ht1 : 1 ≤ t) (htr : t ≤ r) (hrs : r + s ≤ p) (hpk : p ≤ k) (htol : 0 ≤ tol2)
include hP hlenP hsu hsv hsw hm hlen hk2 hs ht1 htr hrs hpk htol

theorem volU_remove_t_of_r (hk : k < su) :
    mapVol 0 (su + r) sv sw (mapVol 0 su sv sw P (fun c => knotInsertion p (fnOf Ul) c ub r s k)).1
        (fun c => knotRemoval p (fnOf (knotInsertionKv Ul ub k r)) c ub t (s + r) (k + r) tol2)
      = mapVol 0 su sv sw P (fun c => knotInsertion p (fnOf Ul) c ub (r - t) s k) := by
  apply mapVol0_comp su sv sw (su + r) P _ _ _ hsv hsw
  · intro v w _ _; rw [knotInsertion_length]; simp [lineU]
  · intro v w hv hw
    exact remove_t_of_r p Ul _ ub r t s k d tol2 (lineU_netOk su sv sw d P hP hlenP v w hv hw) hm hlen hk2 hs
      ht1 htr hrs hpk (by simp [lineU]; exact hk) htol

theorem volV_remove_t_of_r (hk : k < sv) :
    mapVol 1 su (sv + r) sw (mapVol 1 su sv sw P (fun c => knotInsertion p (fnOf Ul) c ub r s k)).1
        (fun c => knotRemoval p (fnOf (knotInsertionKv Ul ub k r)) c ub t (s + r) (k + r) tol2)
      = mapVol 1 su sv sw P (fun c => knotInsertion p (fnOf Ul) c ub (r - t) s k) := by
  apply mapVol1_comp su sv sw (sv + r) P _ _ _ hsu hsw
  · intro u w _ _; rw [knotInsertion_length]; simp [lineV]
  · intro u w hu hw
    exact remove_t_of_r p Ul _ ub r t s k d tol2 (lineV_netOk su sv sw d P hP hlenP u w hu hw) hm hlen hk2 hs
      ht1 htr hrs hpk (by simp [lineV]; exact hk) htol

theorem volW_remove_t_of_r (dir : ℕ) (hdir : 2 ≤ dir) (hk : k < sw) :
    mapVol dir su sv (sw + r) (mapVol dir su sv sw P (fun c => knotInsertion p (fnOf Ul) c ub r s k)).1
        (fun c => knotRemoval p (fnOf (knotInsertionKv Ul ub k r)) c ub t (s + r) (k + r) tol2)
      = mapVol dir su sv sw P (fun c => knotInsertion p (fnOf Ul) c ub (r - t) s k) := by
  apply mapVol2_comp dir su sv sw (sw + r) hdir P _ _ _ hsu hsv
  · intro u v _ _; rw [knotInsertion_length]; simp [lineW]
  · intro u v hu hv
    exact remove_t_of_r p Ul _ ub r t s k d tol2 (lineW_netOk su sv sw d P hP hlenP u v hu hv) hm hlen hk2 hs
      ht1 htr hrs hpk (by simp [lineW]; exact hk) htol

end vol

/-! ### the identity transformation -/

theorem mapVol0_id (su sv sw : ℕ) (P : List (List K)) (hlenP : P.length = su * sv * sw) (hsv : 0 < sv) (hsw : 0 < sw)
    (f : List (List K) → List (List K)) (hf : ∀ v w, v < sv → w < sw → f (lineU su sv P v w) = lineU su sv P v w) :
    mapVol 0 su sv sw P f = (P, su) := by
  rw [mapVol0_eq su sv sw P f hsv hsw, hf 0 0 hsv hsw]
  have hl : (lineU su sv P 0 0).length = su := by simp [lineU]
  rw [hl]
  congr 1
  symm
  apply eq_tab3 (by rw [hlenP]; ring)
  intro w hw u hu v hv
  rw [hf v w hv hw]
  unfold lineU
  rw [ptsGet_map_range _ _ _ hu]
  unfold ptsGet
  rw [List.getD_eq_getElem?_getD, List.getElem?_eq_getElem (by rw [hlenP]; exact idx3_lt su sv sw u v w hu hv hw)]
  rfl

theorem mapVol1_id (su sv sw : ℕ) (P : List (List K)) (hlenP : P.length = su * sv * sw) (hsu : 0 < su) (hsw : 0 < sw)
    (f : List (List K) → List (List K)) (hf : ∀ u w, u < su → w < sw → f (lineV su sv P u w) = lineV su sv P u w) :
    mapVol 1 su sv sw P f = (P, sv) := by
  rw [mapVol1_eq su sv sw P f hsu hsw, hf 0 0 hsu hsw]
  have hl : (lineV su sv P 0 0).length = sv := by simp [lineV]
  rw [hl]
  congr 1
  symm
  apply eq_tab3 (by rw [hlenP]; ring)
  intro w hw u hu v hv
  rw [hf u w hu hw]
  unfold lineV
  rw [ptsGet_map_range _ _ _ hv]
  unfold ptsGet
  rw [List.getD_eq_getElem?_getD, List.getElem?_eq_getElem (by rw [hlenP]; exact idx3_lt su sv sw u v w hu hv hw)]
  rfl

theorem mapVol2_id (dir su sv sw : ℕ) (hdir : 2 ≤ dir) (P : List (List K)) (hlenP : P.length = su * sv * sw)
    (hsu : 0 < su) (hsv : 0 < sv)
    (f : List (List K) → List (List K)) (hf : ∀ u v, u < su → v < sv → f (lineW su sv sw P u v) = lineW su sv sw P u v) :
    mapVol dir su sv sw P f = (P, sw) := by
  rw [mapVol2_eq dir su sv sw hdir P f hsu hsv, hf 0 0 hsu hsv]
  have hl : (lineW su sv sw P 0 0).length = sw := by simp [lineW]
  rw [hl]
  congr 1
  symm
  apply eq_tab3 (by rw [hlenP]; ring)
  intro w hw u hu v hv
  rw [hf u v hu hv]
  unfold lineW
  rw [ptsGet_map_range _ _ _ hw]
  unfold ptsGet
  rw [List.getD_eq_getElem?_getD, List.getElem?_eq_getElem (by rw [hlenP]; exact idx3_lt su sv sw u v w hu hv hw)]
  rfl


/-! ### round trips -/

section vol2
variable (Ul : List K) (P : List (List K)) (ub : K) (p r s k d su sv sw : ℕ) (tol2 : K)
  (hP : NetOk d P) (hlenP : P.length = su * sv * sw) (hsu : 0 < su) (hsv : 0 < sv) (hsw : 0 < sw)
  (hm : Monotone (fnOf Ul)) (hlen : k + 1 < Ul.length)
  (hk2 : ub < fnOf Ul (k + 1)) (hs : fnOf Ul (k - s) < ub)
  (hr1 : 1 ≤ r) (hrs : r + s ≤ p) (hpk : p ≤ k) (htol : 0 ≤ tol2)
include hP hlenP hsu hsv hsw hm hlen hk2 hs hr1 hrs hpk htol

theorem volU_remove_inverts_insert (hk : k < su) :
    mapVol 0 (su + r) sv sw (mapVol 0 su sv sw P (fun c => knotInsertion p (fnOf Ul) c ub r s k)).1
        (fun c => knotRemoval p (fnOf (knotInsertionKv Ul ub k r)) c ub r (s + r) (k + r) tol2) = (P, su) := by
  rw [volU_remove_t_of_r Ul P ub p r r s k d su sv sw tol2 hP hlenP hsu hsv hsw hm hlen hk2 hs hr1 (le_refl _) hrs hpk htol hk]
  rw [show r - r = 0 by omega]
  exact mapVol0_id su sv sw P hlenP hsv hsw _ (fun v w _ _ => knotInsertion_zero p _ _ ub s k hpk)

theorem volV_remove_inverts_insert (hk : k < sv) :
    mapVol 1 su (sv + r) sw (mapVol 1 su sv sw P (fun c => knotInsertion p (fnOf Ul) c ub r s k)).1
        (fun c => knotRemoval p (fnOf (knotInsertionKv Ul ub k r)) c ub r (s + r) (k + r) tol2) = (P, sv) := by
  rw [volV_remove_t_of_r Ul P ub p r r s k d su sv sw tol2 hP hlenP hsu hsv hsw hm hlen hk2 hs hr1 (le_refl _) hrs hpk htol hk]
  rw [show r - r = 0 by omega]
  exact mapVol1_id su sv sw P hlenP hsu hsw _ (fun u w _ _ => knotInsertion_zero p _ _ ub s k hpk)

theorem volW_remove_inverts_insert (dir : ℕ) (hdir : 2 ≤ dir) (hk : k < sw) :
    mapVol dir su sv (sw + r) (mapVol dir su sv sw P (fun c => knotInsertion p (fnOf Ul) c ub r s k)).1
        (fun c => knotRemoval p (fnOf (knotInsertionKv Ul ub k r)) c ub r (s + r) (k + r) tol2) = (P, sw) := by
  rw [volW_remove_t_of_r Ul P ub p r r s k d su sv sw tol2 hP hlenP hsu hsv hsw hm hlen hk2 hs hr1 (le_refl _) hrs hpk htol dir hdir hk]
  rw [show r - r = 0 by omega]
  exact mapVol2_id dir su sv sw hdir P hlenP hsu hsv _ (fun u v _ _ => knotInsertion_zero p _ _ ub s k hpk)

end vol2

end RemInv
end Geomdl
