import NurbsVerif.Lemmas.SplitSurfUMain

/-! Splitting a surface in u commutes with taking columns: the columns of the two pieces are the two
    pieces of the columns (same knot vectors for all columns). -/
set_option linter.unusedSectionVars false
namespace Geomdl
open Blossom
variable {K : Type} [Field K] [LinearOrder K] [IsStrictOrderedRing K]

theorem split_surface_u_cols (rat : Bool) (pu pv d : ℕ) (Uu Uv : List K) (su sv : ℕ) (P : List (List K)) (ub tol : K)
    (hP : NetOk d P) (hlenP : P.length = su * sv) (hsv0 : 0 < sv)
    (hU : ClampedKv pu su Uu) (hlo : fnOf Uu pu < ub) (hhi : ub < fnOf Uu su)
    (hmx : MultExact pu (fnOf Uu) (findSpanLinear pu (fnOf Uu) su ub) (findMultiplicity ub Uu tol) ub) :
    ∃ UA nA PA UB nB PB,
      splitDir (surfShape rat pu pv Uu Uv su sv P) 0 ub tol
        = some (surfShape rat pu pv UA (knotNormalize Uv) nA sv PA, surfShape rat pu pv UB (knotNormalize Uv) nB sv PB) ∧
      PA.length = nA * sv ∧ PB.length = nB * sv ∧ NetOk d PA ∧ NetOk d PB ∧
      ∀ y, y < sv →
        splitDir (curveShape rat pu Uu (colOf su sv P y)) 0 ub tol
          = some (curveShape rat pu UA (colOf nA sv PA y), curveShape rat pu UB (colOf nB sv PB y)) := by
  have hcolWF : ∀ y, y < sv → ClampedWF pu d Uu (colOf su sv P y) := fun y hy =>
    hU.toWF (colOf su sv P y) (colOf_length su sv P y) (colOf_netOk su sv d P hP hlenP y hy)
  obtain ⟨k1, k2, _, _⟩ := findSpanLinear_spec pu (fnOf Uu) su ub hU.pn hU.mono (le_of_lt hlo)
  obtain ⟨hsz, hlenR, hnetR, hcolsR⟩ := refinedU_cols su sv pu d Uu P ub tol hsv0 hP hlenP k1 k2 hmx.le
  have hcol : ∀ y, y < sv →
      CutOk pu d (refinedU su sv pu Uu P ub tol).1
        (colOf (su + (pu - findMultiplicity ub Uu tol)) sv (refinedU su sv pu Uu P ub tol).2.1 y) ub
        (findSpanLinear pu (fnOf Uu) su ub + (pu - findMultiplicity ub Uu tol)) := by
    intro y hy
    have h := hcolWF y hy
    have := splitRefined_cut pu d Uu (colOf su sv P y) ub tol h.wf h.hp h.c0 h.c1
      (by exact hlo) (by rw [colOf_length]; exact hhi) (by rw [colOf_length]; exact hmx)
    rw [colOf_length, (hcolsR y hy).1, ← (hcolsR y hy).2] at this
    exact this
  have hceq : ∀ y, y < sv → _ := fun y hy =>
    splitDir_curve_eq rat pu d Uu (colOf su sv P y) ub tol (hcolWF y hy).wf hU.hp hU.c0
      (by rw [colOf_length]; exact hU.c1) (by exact hlo) (by rw [colOf_length]; exact hhi)
      (by rw [colOf_length]; exact hmx)
  have hnot : ¬ (ub = Uu.getD pu 0 ∨ ub = Uu.getD su 0) := by
    have hl := hU.len
    rw [fnOf_getD Uu pu (by omega), fnOf_getD Uu su (by omega)]
    intro h
    rcases h with h | h
    · rw [h] at hlo; exact lt_irrefl _ hlo
    · rw [h] at hhi; exact lt_irrefl _ hhi
  have hcut0 := hcol 0 hsv0
  have hspan : findSpanLinear pu (fnOf (refinedU su sv pu Uu P ub tol).1) (refinedU su sv pu Uu P ub tol).2.2 ub
      = findSpanLinear pu (fnOf Uu) su ub + (pu - findMultiplicity ub Uu tol) := by
    have := hcut0.span
    rw [colOf_length] at this
    rw [hsz]; exact this
  have heq := splitDir_surfShape_u rat pu pv Uu Uv su sv P ub tol hnot
  rw [hspan, hsz] at heq
  set k := findSpanLinear pu (fnOf Uu) su ub with hk
  set s := findMultiplicity ub Uu tol with hs
  set W := (refinedU su sv pu Uu P ub tol).1 with hW
  set Q := (refinedU su sv pu Uu P ub tol).2.1 with hQ
  have hm := hcut0.hm
  have hpm := hcut0.hpm
  rw [colOf_length] at hm
  have e1 : k - pu + 1 + (pu - s) = k + (pu - s) - pu + 1 := by omega
  have e2 : k + (pu - s) - pu + 1 - 1 = k + (pu - s) - pu := by omega
  rw [e1, e2] at heq
  set fA : List (List K) → List (List K) := fun c => (c.take (k + (pu - s) - pu + 1)).drop 0 with hfA
  set fB : List (List K) → List (List K) := fun c => (c.take (su + (pu - s))).drop (k + (pu - s) - pu) with hfB
  have hfAlen : ∀ y, y < sv → (fA (colOf (su + (pu - s)) sv Q y)).length = k + (pu - s) - pu + 1 := by
    intro y _; simp only [hfA, List.drop_zero, List.length_take, colOf_length]; omega
  have hfBlen : ∀ y, y < sv → (fB (colOf (su + (pu - s)) sv Q y)).length = su + (pu - s) - (k + (pu - s) - pu) := by
    intro y _; simp only [hfB, List.length_drop, List.length_take, colOf_length]; omega
  have hcolQ : ∀ y, y < sv → NetOk d (colOf (su + (pu - s)) sv Q y) := fun y hy => (hcol y hy).wf.net
  have hfAnet : ∀ y, y < sv → NetOk d (fA (colOf (su + (pu - s)) sv Q y)) := by
    intro y hy pt hpt
    exact hcolQ y hy pt (List.mem_of_mem_take (List.mem_of_mem_drop hpt))
  have hfBnet : ∀ y, y < sv → NetOk d (fB (colOf (su + (pu - s)) sv Q y)) := by
    intro y hy pt hpt
    exact hcolQ y hy pt (List.mem_of_mem_take (List.mem_of_mem_drop hpt))
  obtain ⟨hszA, hlenA, hnetA, hcolsA⟩ := mapSurfU_general (su + (pu - s)) sv _ d Q fA hsv0 hfAlen hfAnet
  obtain ⟨hszB, hlenB, hnetB, hcolsB⟩ := mapSurfU_general (su + (pu - s)) sv _ d Q fB hsv0 hfBlen hfBnet
  rw [hszA, hszB] at heq
  refine ⟨_, _, _, _, _, _, heq, hlenA, hlenB, hnetA, hnetB, ?_⟩
  intro y hy
  have := hceq y hy
  rw [colOf_length, (hcolsR y hy).1, ← (hcolsR y hy).2] at this
  rw [this, hcolsA y hy, hcolsB y hy]
  have e : fB (colOf (su + (pu - s)) sv Q y) = (colOf (su + (pu - s)) sv Q y).drop (k + (pu - s) - pu) := by
    simp only [hfB]
    rw [List.take_of_length_le (by rw [colOf_length])]
  rw [e]
  simp only [hfA, List.drop_zero]
  rfl

end Geomdl
