import NurbsVerif.Lemmas.A51Loops2

/-!
  A5.1 as coded against the index-by-index model, part 3: the POINT branch is the instance "element = point
  `List K`, blend = `[alpha * e2 + (1 - alpha) * e1 for e1, e2 in zip(temp[i], temp[i + 1])]`" of the generic
  loops (`A51L.gA51`, by unfolding) and of the generic index form (`A51L.gModel`, by unfolding), hence
  `knotInsertionA51 = knotInsertion` under the guard.  No algebra is used.
-/
namespace Geomdl
namespace A51L
section
variable {K : Type} [Add K] [Sub K] [Mul K] [Div K] [One K]

/-- the blend of the point branch -/
def ptBlend (U : Nat → K) (u : K) (k : Nat) (i L : Nat) (a b : List K) : List K :=
  List.zipWith (fun e1 e2 => insAlpha U u k i L * e2 + (1 - insAlpha U u k i L) * e1) a b

theorem a51Inner_eq (U : Nat → K) (u : K) (k L : Nat) : a51Inner U u k L = gInner (ptBlend U u k) L := rfl

theorem a51Outer_eq (p : Nat) (U : Nat → K) (u : K) (num s k : Nat) :
    a51Outer p U u num s k = gOuter (ptBlend U u k) p num s k := rfl

theorem knotInsertionA51_eq_gA51 (p : Nat) (U : Nat → K) (P : List (List K)) (u : K) (r s k : Nat) :
    knotInsertionA51 p U P u r s k = gA51 (ptBlend U u k) p P r s k := rfl

theorem insTempStep_eq (U : Nat → K) (u : K) (k p s j : Nat) (t : List (List K)) :
    insTempStep U u k p s j t = gStep (ptBlend U u k) k p s j t := rfl

theorem insTempAt_eq (U : Nat → K) (u : K) (P : List (List K)) (k p s : Nat) :
    ∀ j, insTempAt U u P k p s j = gTempAt (ptBlend U u k) P k p s j
  | 0 => rfl
  | j+1 => by
    show insTempStep U u k p s (j+1) (insTempAt U u P k p s j) = gStep (ptBlend U u k) k p s (j+1) (gTempAt _ P k p s j)
    rw [insTempAt_eq U u P k p s j, insTempStep_eq]

theorem knotInsertion_eq_gModel (p : Nat) (U : Nat → K) (P : List (List K)) (u : K) (r s k : Nat) :
    knotInsertion p U P u r s k = gModel (ptBlend U u k) p P r s k := by
  unfold knotInsertion gModel
  apply List.map_congr_left
  intro i _
  unfold insIdx
  simp only [insTempAt_eq]

/-- **A5.1 as coded = the index-by-index model** under the guard `p ≤ k`, `num + s ≤ p` (no negative index) -/
theorem knotInsertionA51_eq (p : Nat) (U : Nat → K) (P : List (List K)) (u : K) (r s k : Nat)
    (hpk : p ≤ k) (hrs : r + s ≤ p) :
    knotInsertionA51 p U P u r s k = knotInsertion p U P u r s k := by
  rw [knotInsertionA51_eq_gA51, knotInsertion_eq_gModel]
  exact gA51_eq _ p P r s k hpk hrs

end
end A51L
end Geomdl
