import NurbsVerif.Lemmas.SplitSurfSep
import NurbsVerif.Lemmas.SplitSurfUVMain

/-! Concrete inputs satisfying the hypotheses of the end-to-end split / decomposition theorems
    (used by the non-vacuity examples of Props/C07). -/
namespace Geomdl.SplitEx
open Geomdl Blossom

def U : List ℚ := [0, 0, 0, 1/2, 1, 1, 1]
def P : List (List ℚ) := [[0,0],[1,2],[2,0],[3,1]]
def tol : ℚ := 1/10000000
/-- v data of a 4 × 2 surface of degrees (2, 1) over the same u data -/
def V : List ℚ := [0, 0, 1, 1]
def PS : List (List ℚ) := [[0,0,0],[0,1,1],[1,0,2],[1,1,0],[2,0,1],[2,1,3],[3,0,0],[3,1,1]]

theorem mono_U : Monotone (fnOf U) := by
  apply monotone_nat_of_le_succ
  intro n
  rcases n with _|_|_|_|_|_|_|n <;> (simp [U, fnOf, List.getD]; try norm_num)

theorem mono_V : Monotone (fnOf V) := by
  apply monotone_nat_of_le_succ
  intro n
  rcases n with _|_|_|_|n <;> simp [V, fnOf, List.getD]

theorem clamped : ClampedWF 2 2 U P where
  wf := {
    mono := mono_U
    len := by simp [U, P]
    pn := by simp [P]
    last := by simp [U, P, fnOf, List.getD]; norm_num
    net := by intro pt hpt; simp [P] at hpt; rcases hpt with h | h | h | h <;> simp [h] }
  hp := by omega
  c0 := by simp [U, fnOf, List.getD]
  c1 := by simp [U, P, fnOf, List.getD]

theorem clampedKv : ClampedKv 2 4 U where
  mono := mono_U
  len := by simp [U]
  pn := by omega
  last := by simp [U, fnOf, List.getD]; norm_num
  hp := by omega
  c0 := by simp [U, fnOf, List.getD]
  c1 := by simp [U, fnOf, List.getD]

theorem clampedKvV : ClampedKv 1 2 V where
  mono := mono_V
  len := by simp [V]
  pn := by omega
  last := by simp [V, fnOf, List.getD]
  hp := by omega
  c0 := by simp [V, fnOf, List.getD]
  c1 := by simp [V, fnOf, List.getD]

theorem mul_U : ∀ i, 1 ≤ i → i < 4 → fnOf U i < fnOf U (i + 2) := by
  intro i h1 h2
  rcases i with _|_|_|_|i
  · omega
  all_goals first | omega | (simp [U, fnOf, List.getD]; try norm_num)

theorem mul_V : ∀ i, 1 ≤ i → i < 2 → fnOf V i < fnOf V (i + 1) := by
  intro i h1 h2
  rcases i with _|_|i
  · omega
  all_goals first | omega | (simp [V, fnOf, List.getD])

/-- the split parameter 1/4 is further than `tol` from every knot -/
theorem sep_quarter : ∀ x ∈ U, |(1/4 : ℚ) - x| ≤ tol → x = 1/4 := by
  intro x hx h
  simp [U] at hx
  rcases hx with rfl | rfl | rfl <;> (exfalso; norm_num [abs_le, tol] at h)

/-- the split parameter 1/2 is a knot; the others are further than `tol` away -/
theorem sep_half : ∀ x ∈ U, |(1/2 : ℚ) - x| ≤ tol → x = 1/2 := by
  intro x hx h
  simp [U] at hx
  rcases hx with rfl | rfl | rfl <;> first | rfl | (norm_num; done) | (exfalso; norm_num [abs_le, tol] at h)

theorem sep_V : ∀ x ∈ V, |(1/3 : ℚ) - x| ≤ tol → x = 1/3 := by
  intro x hx h
  simp [V] at hx
  rcases hx with rfl | rfl <;> (exfalso; norm_num [abs_le, tol] at h)

theorem sep_pair : ∀ x ∈ U, ∀ y ∈ U, |x - y| ≤ tol → y = x := by
  intro x hx y hy h
  simp [U] at hx hy
  rcases hx with rfl | rfl | rfl <;> rcases hy with rfl | rfl | rfl <;>
    first | rfl | (norm_num; done) | (exfalso; norm_num [abs_le, tol] at h)

theorem decompWF : DecompWF 2 2 U P tol where
  cl := clamped
  mul := by
    intro i h1 h2
    exact mul_U i h1 (by simpa [P] using h2)
  unit := by simp [U, P, fnOf, List.getD]
  tol0 := by norm_num [tol]
  sep := sep_pair

theorem netS : NetOk 3 PS := by
  intro pt hpt
  simp [PS] at hpt
  rcases hpt with h | h | h | h | h | h | h | h <;> simp [h]

theorem sep_pair_V : ∀ x ∈ V, ∀ y ∈ V, |x - y| ≤ tol → y = x := by
  intro x hx y hy h
  simp [V] at hx hy
  rcases hx with rfl | rfl <;> rcases hy with rfl | rfl <;>
    first | rfl | (norm_num; done) | (exfalso; norm_num [abs_le, tol] at h)

theorem norm_U : knotNormalize U = U := by simp [knotNormalize, U]
theorem norm_V : knotNormalize V = V := by simp [knotNormalize, V]

/-- column 0 of the 4 × 2 surface is an admissible quadratic -/
theorem decompWF_col : DecompWF 2 3 U (colOf 4 2 PS 0) tol :=
  DecompWF.swap (P := List.replicate 4 [0, 0, 0]) (d := 3)
    { cl := {
        wf := {
          mono := mono_U
          len := by simp [U]
          pn := by simp
          last := by simp [U, fnOf, List.getD]; norm_num
          net := by intro pt hpt; rw [List.mem_replicate] at hpt; rw [hpt.2]; rfl }
        hp := by omega
        c0 := by simp [U, fnOf, List.getD]
        c1 := by simp [U, fnOf, List.getD] }
      mul := by intro i h1 h2; exact mul_U i h1 (by simpa using h2)
      unit := by simp [U, fnOf, List.getD]
      tol0 := by norm_num [tol]
      sep := sep_pair }
    (by simp [colOf]) (colOf_netOk 4 2 3 PS netS (by simp [PS]) 0 (by omega))

/-- row 0 of the 4 × 2 surface is an admissible line segment -/
theorem decompWF_row : DecompWF 1 3 V (rowOf 2 PS 0) tol :=
  DecompWF.swap (P := List.replicate 2 [0, 0, 0]) (d := 3)
    { cl := {
        wf := {
          mono := mono_V
          len := by simp [V]
          pn := by simp
          last := by simp [V, fnOf, List.getD]
          net := by intro pt hpt; rw [List.mem_replicate] at hpt; rw [hpt.2]; rfl }
        hp := by omega
        c0 := by simp [V, fnOf, List.getD]
        c1 := by simp [V, fnOf, List.getD] }
      mul := by intro i h1 h2; exact mul_V i h1 (by simpa using h2)
      unit := by simp [V, fnOf, List.getD]
      tol0 := by norm_num [tol]
      sep := sep_pair_V }
    (by simp [rowOf]) (rowOf_netOk 4 2 3 PS netS (by simp [PS]) 0 (by omega))

end Geomdl.SplitEx
