import NurbsVerif.Lemmas.DegreeReduce

/-!
# Elevation by `t+1` is elevation by `t` followed by elevation by one; repeated reduction inverts it
-/
namespace Geomdl
open Finset
section
variable {K : Type} [Field K] [CharZero K]

/-- the guard `i ≤ j + t` of `elevCoef` is redundant (`C(t, i-j) = 0` beyond it) -/
theorem elevCoef_eq' (p t i j : ℕ) :
    (elevCoef p t i j : K) = if j ≤ i ∧ j ≤ p then
      ((Nat.choose p j : K) * (Nat.choose t (i - j) : K)) / (Nat.choose (p + t) i : K) else 0 := by
  unfold elevCoef
  by_cases h : j ≤ i ∧ j ≤ p
  · rw [if_pos h]
    by_cases h2 : i ≤ j + t
    · rw [if_pos ⟨h2, h.1, h.2⟩]
    · rw [if_neg (fun hh => h2 hh.1), Nat.choose_eq_zero_of_lt (by omega : t < i - j)]
      simp
  · rw [if_neg h, if_neg (fun hh => h ⟨hh.2.1, hh.2.2⟩)]

theorem elevCoef_compose (p t m j : ℕ) (hm : m < p + t) :
    ((m + 1 : ℕ) : K) / ((p + t + 1 : ℕ) : K) * elevCoef p t m j
      + (1 - ((m + 1 : ℕ) : K) / ((p + t + 1 : ℕ) : K)) * elevCoef p t (m + 1) j
    = elevCoef p (t + 1) (m + 1) j := by
  rw [elevCoef_eq', elevCoef_eq', elevCoef_eq', ← Nat.add_assoc p t 1]
  have hc0 : ((p + t).choose m : K) ≠ 0 := by exact_mod_cast (Nat.choose_pos (by omega : m ≤ p + t)).ne'
  have hc1 : ((p + t).choose (m + 1) : K) ≠ 0 := by
    exact_mod_cast (Nat.choose_pos (by omega : m + 1 ≤ p + t)).ne'
  have hc2 : ((p + t + 1).choose (m + 1) : K) ≠ 0 := by
    exact_mod_cast (Nat.choose_pos (by omega : m + 1 ≤ p + t + 1)).ne'
  have hn : ((p + t + 1 : ℕ) : K) ≠ 0 := by exact_mod_cast (Nat.succ_ne_zero (p + t))
  have e1 : ((p + t + 1 : ℕ) : K) * ((p + t).choose m : K)
      = ((p + t + 1).choose (m + 1) : K) * ((m + 1 : ℕ) : K) := by
    exact_mod_cast Nat.add_one_mul_choose_eq (p + t) m
  have e2 : ((p + t + 1).choose (m + 1) : K) = ((p + t).choose m : K) + ((p + t).choose (m + 1) : K) := by
    exact_mod_cast Nat.choose_succ_succ (p + t) m
  have a1 : ((m + 1 : ℕ) : K) / ((p + t + 1 : ℕ) : K)
      = ((p + t).choose m : K) / ((p + t + 1).choose (m + 1) : K) := by
    rw [div_eq_div_iff hn hc2, mul_comm, ← e1, mul_comm]
  have a2 : 1 - ((p + t).choose m : K) / ((p + t + 1).choose (m + 1) : K)
      = ((p + t).choose (m + 1) : K) / ((p + t + 1).choose (m + 1) : K) := by
    rw [sub_eq_iff_eq_add, ← add_div, add_comm, ← e2, div_self hc2]
  rw [a1, a2]
  by_cases hjp : j ≤ p
  · by_cases hjm : j ≤ m
    · rw [if_pos ⟨hjm, hjp⟩, if_pos ⟨by omega, hjp⟩, if_pos ⟨by omega, hjp⟩]
      have e3 : m + 1 - j = (m - j) + 1 := by omega
      have e4 : ((t + 1).choose (m - j + 1) : K) = (t.choose (m - j) : K) + (t.choose (m - j + 1) : K) := by
        exact_mod_cast Nat.choose_succ_succ t (m - j)
      rw [e3, e4]
      field_simp
    · by_cases hjm1 : j = m + 1
      · subst hjm1
        rw [if_neg (fun hh => hjm hh.1), if_pos ⟨le_refl _, hjp⟩, if_pos ⟨le_refl _, hjp⟩, Nat.sub_self,
          Nat.choose_zero_right, Nat.choose_zero_right]
        field_simp
        simp
      · rw [if_neg (fun hh => hjm hh.1), if_neg (fun hh => by omega), if_neg (fun hh => by omega)]
        simp
  · rw [if_neg (fun hh => hjp hh.2), if_neg (fun hh => hjp hh.2), if_neg (fun hh => hjp hh.2)]
    simp

theorem elev_congr (p t : ℕ) (f g : ℕ → K) (i : ℕ) (h : ∀ j, j ≤ p → f j = g j) :
    elev p t f i = elev p t g i := by
  unfold elev
  apply sum_congr rfl
  intro j hj
  rw [h j (by have := mem_range.mp hj; omega)]

/-- Eq. 5.36 composes: elevating by `t` and then by one is elevating by `t + 1` -/
theorem elev_compose (p t : ℕ) (f : ℕ → K) (i : ℕ) (hi : i ≤ p + t + 1) :
    elev (p + t) 1 (elev p t f) i = elev p (t + 1) f i := by
  rcases Nat.eq_zero_or_pos i with h0 | hpos
  · subst h0; rw [elev_first, elev_first, elev_first]
  · obtain ⟨m, rfl⟩ : ∃ m, i = m + 1 := ⟨i - 1, by omega⟩
    by_cases hlast : m = p + t
    · subst hlast
      rw [elev_last, elev_last]
      have := elev_last p (t + 1) f
      rw [← Nat.add_assoc] at this
      exact this.symm
    · rw [elev_one (p + t) _ m (by omega)]
      unfold elev
      rw [mul_sum, mul_sum, ← sum_add_distrib]
      apply sum_congr rfl
      intro j _
      rw [← elevCoef_compose p t m j (by omega)]
      ring

theorem degreeElevation_compose (p t : ℕ) (P : List (List K)) (d : ℕ) (hlen : P.length = p + 1)
    (hr : Rect d P) :
    degreeElevation (p + t) 1 (degreeElevation p t P) = degreeElevation p (t + 1) P := by
  have hQlen : (degreeElevation p t P).length = p + t + 1 := by rw [degreeElevation_length]; omega
  have hQr := degreeElevation_rect p t P d hlen hr
  apply ext_getD_gen ([] : List K) (by rw [degreeElevation_length, degreeElevation_length]; omega)
  intro i hi
  rw [degreeElevation_length] at hi
  rw [degreeElevation_getD _ _ _ i hi, degreeElevation_getD _ _ _ i (by omega)]
  obtain ⟨hl1, hk1⟩ := elevPoint_spec (p + t) 1 (degreeElevation p t P) d hQlen hQr i (by omega)
  obtain ⟨hl2, hk2⟩ := elevPoint_spec p (t + 1) P d hlen hr i (by omega)
  apply ext_getD (by rw [hl1, hl2])
  intro k
  rw [hk1 k, hk2 k, ← elev_compose p t _ i (by omega)]
  apply elev_congr
  intro j hj
  rw [degreeElevation_getD p t P j (by omega), (elevPoint_spec p t P d hlen hr j hj).2 k]

/-- **`t` reductions invert an elevation by `t`**, for every degree `p ≥ 1` and every `t ≥ 1`
    (repaired routine; none of the calls is rejected) -/
theorem degreeReduceTimes_degreeElevation (p : ℕ) (hp : 1 ≤ p) (P : List (List K)) (d : ℕ)
    (hlen : P.length = p + 1) (hr : Rect d P) (s : ℕ) :
    degreeReduceTimes (s + 1) (p + (s + 1)) (degreeElevation p (s + 1) P) = some P := by
  induction s with
  | zero =>
    have hok : degreeReductionOk (p + 1) (degreeElevation p 1 P) = true := by
      unfold degreeReductionOk
      rw [degreeElevation_length]
      simp; omega
    simp only [degreeReduceTimes, degreeReductionChecked, Nat.zero_add, hok, if_true, Option.bind_some,
      degreeReduction_degreeElevation p hp P d hlen hr]
  | succ s ih =>
    have hQlen : (degreeElevation p (s + 1) P).length = p + (s + 1) + 1 := by
      rw [degreeElevation_length]; omega
    have hQr := degreeElevation_rect p (s + 1) P d hlen hr
    have hp' : 1 ≤ p + (s + 1) := by omega
    have hok : degreeReductionOk (p + (s + 1) + 1) (degreeElevation (p + (s + 1)) 1 (degreeElevation p (s + 1) P)) = true := by
      unfold degreeReductionOk
      rw [degreeElevation_length]
      simp; omega
    rw [← degreeElevation_compose p (s + 1) P d hlen hr]
    rw [show p + (s + 1 + 1) = p + (s + 1) + 1 from by omega]
    simp only [degreeReduceTimes, degreeReductionChecked, hok, if_true, Option.bind_some, Nat.add_sub_cancel,
      degreeReduction_degreeElevation (p + (s + 1)) hp' _ d hQlen hQr]
    simpa [degreeReduceTimes, degreeReductionChecked] using ih

end
end Geomdl
