import NurbsVerif.Lemmas.KnotRowsRefineVol
import NurbsVerif.Lemmas.ObjFoldCongr
import NurbsVerif.Lemmas.VolRefineObj
import NurbsVerif.Model.KnotOpsCoded

/-! `operations.refine_knotvector` at object level with A5.4 AS CODED (`refineDirCoded`, `refineKnotvectorCoded`:
    `refineA54` on every iso-curve of a curve / surface with the knot vector of the last helper call, `refineA54Rows`
    on the list of rows of a volume) = the specification-level model (`refineDir`, `refineKnotvector`: the fold of
    single insertions on every iso-curve).  Hypotheses per refined direction: those of the object-level theorems
    (`DirHyp`: clamped end, tolerance separation) plus those of the curve-level A5.4 theorem (`DirHypA54`: clamped at
    the start, no value more than `p + 1` times), all on the ORIGINAL object. -/
namespace Geomdl
set_option linter.unusedSectionVars false
variable {K : Type} [Field K] [LinearOrder K] [IsStrictOrderedRing K]

/-- the extra hypotheses of the A5.4 theorem (`refineA54_eq_fold`) on the knot vector of one direction: clamped at the
    start (`U_0 = U_p`) and no value more than `p + 1` times -/
def DirHypA54 (S : Shape K) (dir : ℕ) : Prop :=
  fnOf (S.kv dir) 0 = fnOf (S.kv dir) (S.deg dir) ∧ ∀ y ∈ S.kv dir, (S.kv dir).count y ≤ S.deg dir + 1

theorem dirHypA54_transfer (S T : Shape K) (dir : ℕ) (hdegs : T.degs = S.degs) (hkv : T.kv dir = S.kv dir)
    (h : DirHypA54 S dir) : DirHypA54 T dir := by
  have e_deg : T.deg dir = S.deg dir := by unfold Shape.deg; rw [hdegs]
  unfold DirHypA54 at h ⊢
  rw [hkv, e_deg]
  exact h

/-- `mapSurfU` only looks at `f` on the columns of the net -/
theorem mapSurfU_congr_iso (su sv : ℕ) (P : List (List K)) (f g : List (List K) → List (List K))
    (h : ∀ y, y < sv → f (colOf su sv P y) = g (colOf su sv P y)) : mapSurfU su sv P f = mapSurfU su sv P g := by
  have e : (List.range sv).map (fun v => f ((List.range su).map (fun u => ptsGet P (v + sv * u))))
      = (List.range sv).map (fun v => g ((List.range su).map (fun u => ptsGet P (v + sv * u)))) :=
    List.map_congr_left (fun v hv => h v (List.mem_range.mp hv))
  unfold mapSurfU
  simp only [e]

/-- `mapSurfV` only looks at `f` on the rows of the net -/
theorem mapSurfV_congr_iso (su sv : ℕ) (P : List (List K)) (f g : List (List K) → List (List K))
    (h : ∀ x, x < su → f (rowOf sv P x) = g (rowOf sv P x)) : mapSurfV su sv P f = mapSurfV su sv P g := by
  have e : (List.range su).map (fun u => f ((List.range sv).map (fun v => ptsGet P (v + sv * u))))
      = (List.range su).map (fun u => g ((List.range sv).map (fun v => ptsGet P (v + sv * u)))) :=
    List.map_congr_left (fun u hu => h u (List.mem_range.mp hu))
  unfold mapSurfV
  simp only [e]

section dir
variable (d : ℕ) (T : Shape K) (density : ℕ) (tol : K) (h0 : 0 ≤ tol)
include h0

/-- **surfaces, one direction**: A5.4 as coded on every iso-curve, `new_kv` of the last call = `refineDir` -/
theorem refineDirCoded_surface (hT : SurfWF d T) (dir : ℕ) (hdir : dir < 2) (hyp : DirHyp T dir density tol)
    (ha : DirHypA54 T dir) : refineDirCoded T dir density tol = refineDir T dir density tol := by
  have hkv : KvWF (T.deg dir) (T.kv dir) (T.size dir) := hT.dir dir hdir
  have hsu : 0 < T.size 0 := by have := hT.dir0.pn; omega
  have hsv : 0 < T.size 1 := by have := hT.dir1.pn; omega
  have hp2 : T.pdim = 2 := hT.degs
  unfold refineDirCoded refineDir
  rw [if_neg (by omega)]
  simp only []
  by_cases hX : (refineX (T.deg dir) (T.kv dir) density tol).isEmpty = true
  · rw [if_pos hX, if_pos hX]
  · rw [if_neg hX, if_neg hX]
    have hXf : (refineX (T.deg dir) (T.kv dir) density tol).isEmpty = false := by simpa using hX
    have key : ∀ c : List (List K), c.length = T.size dir → NetOk d c →
        refineA54 (T.deg dir) (T.kv dir) c (refineX (T.deg dir) (T.kv dir) density tol) tol
          = (refineX (T.deg dir) (T.kv dir) density tol).foldl (insertOne (T.deg dir) tol) (T.kv dir, c) := by
      intro c hc hnet
      exact Rows.refineA54_eq_fold_default (T.deg dir) d (T.kv dir) c density tol (hkv.curve d c hc hnet)
        (by rw [hc]; exact hyp.1) ha.1 ha.2 h0 hyp.2 hXf
    obtain rfl | rfl : dir = 0 ∨ dir = 1 := by omega
    · have hmap : ∀ f : List (List K) → List (List K), T.mapDir 0 f = mapSurfU (T.size 0) (T.size 1) T.net f := by
        intro f; unfold Shape.mapDir; rw [hp2]; simp
      have hlast : T.lastIso 0 = colOf (T.size 0) (T.size 1) T.net (T.size 1 - 1) := by
        unfold Shape.lastIso; rw [hp2]; simp; rfl
      have hcol : ∀ y, y < T.size 1 → (colOf (T.size 0) (T.size 1) T.net y).length = T.size 0 ∧
          NetOk d (colOf (T.size 0) (T.size 1) T.net y) :=
        fun y hy => ⟨by simp [colOf], colOf_netOk _ _ d _ hT.net hT.netlen y hy⟩
      rw [hmap, hmap, hlast, key _ (hcol _ (by omega)).1 (hcol _ (by omega)).2,
        insert_fold_kv_indep _ _ _ _ _ (List.replicate (T.size 0) []) (by simp [colOf]),
        mapSurfU_congr_iso _ _ _ _ (fun c => ((refineX (T.deg 0) (T.kv 0) density tol).foldl
          (insertOne (T.deg 0) tol) (T.kv 0, c)).2)
          (fun y hy => by rw [key _ (hcol y hy).1 (hcol y hy).2])]
    · have hmap : ∀ f : List (List K) → List (List K), T.mapDir 1 f = mapSurfV (T.size 0) (T.size 1) T.net f := by
        intro f; unfold Shape.mapDir; rw [hp2]; simp
      have hlast : T.lastIso 1 = rowOf (T.size 1) T.net (T.size 0 - 1) := by
        unfold Shape.lastIso; rw [hp2]; simp; rfl
      have hrow : ∀ x, x < T.size 0 → (rowOf (T.size 1) T.net x).length = T.size 1 ∧
          NetOk d (rowOf (T.size 1) T.net x) :=
        fun x hx => ⟨by simp [rowOf], rowOf_netOk _ _ d _ hT.net hT.netlen x hx⟩
      rw [hmap, hmap, hlast, key _ (hrow _ (by omega)).1 (hrow _ (by omega)).2,
        insert_fold_kv_indep _ _ _ _ _ (List.replicate (T.size 1) []) (by simp [rowOf]),
        mapSurfV_congr_iso _ _ _ _ (fun c => ((refineX (T.deg 1) (T.kv 1) density tol).foldl
          (insertOne (T.deg 1) tol) (T.kv 1, c)).2)
          (fun x hx => by rw [key _ (hrow x hx).1 (hrow x hx).2])]

/-- **volumes, one direction**: A5.4 as coded on the list of rows = `refineDir` (`Rows.refineVolRows_eq`) -/
theorem refineDirCoded_volume (hT : VolWF d T) (hd : 0 < d) (dir : ℕ) (hdir : dir < 3) (hyp : DirHyp T dir density tol)
    (ha : DirHypA54 T dir) : refineDirCoded T dir density tol = refineDir T dir density tol := by
  unfold refineDirCoded
  rw [if_pos (show T.pdim = 3 from hT.degs)]
  exact Rows.refineVolRows_eq d T hT hd density tol h0 dir hdir hyp ha.1 ha.2

/-- **curve objects**: A5.4 as coded on the control polygon = `refineDir` -/
theorem refineDirCoded_curve (h1 : T.pdim = 1) (hsize : T.size 0 = T.net.length)
    (hwf : CurveWF (T.deg 0) d (T.kv 0) T.net) (hyp : DirHyp T 0 density tol) (ha : DirHypA54 T 0) :
    refineDirCoded T 0 density tol = refineDir T 0 density tol := by
  unfold refineDirCoded refineDir
  rw [if_neg (by omega)]
  simp only []
  by_cases hX : (refineX (T.deg 0) (T.kv 0) density tol).isEmpty = true
  · rw [if_pos hX, if_pos hX]
  · rw [if_neg hX, if_neg hX]
    have hXf : (refineX (T.deg 0) (T.kv 0) density tol).isEmpty = false := by simpa using hX
    have key := Rows.refineA54_eq_fold_default (T.deg 0) d (T.kv 0) T.net density tol hwf
      (by rw [← hsize]; exact hyp.1) ha.1 ha.2 h0 hyp.2 hXf
    have hmap : ∀ f : List (List K) → List (List K), T.mapDir 0 f = (f T.net, (f T.net).length) := by
      intro f; unfold Shape.mapDir; rw [h1]; simp
    have hlast : T.lastIso 0 = T.net := by unfold Shape.lastIso; rw [if_pos h1]
    rw [hmap, hmap, hlast, key,
      insert_fold_kv_indep _ _ _ _ T.net (List.replicate (T.size 0) []) (by simp [hsize])]

end dir

/-! ### the loop over the directions -/

/-- the loop body of `refineKnotvectorCoded` -/
abbrev refStepCoded (dens : List ℕ) (tol : K) (acc : Shape K × Bool) (d : ℕ) : Shape K × Bool :=
  if acc.2 = false then acc
  else if dens.getD d 0 = 0 then acc
  else match refineDirCoded acc.1 d (dens.getD d 0) tol with
    | some S' => (S', true)
    | none => (acc.1, false)

theorem refineKnotvectorCoded_eq (S : Shape K) (dens : List ℕ) (tol : K) :
    refineKnotvectorCoded S dens tol = (List.range S.pdim).foldl (refStepCoded dens tol) (S, true) := rfl

theorem refStepCoded_eq (T : Shape K) (b : Bool) (dir : ℕ) (dens : List ℕ) (tol : K)
    (h : dens.getD dir 0 ≠ 0 → refineDirCoded T dir (dens.getD dir 0) tol = refineDir T dir (dens.getD dir 0) tol) :
    refStepCoded dens tol (T, b) dir = refStep dens tol (T, b) dir := by
  unfold refStepCoded refStep
  cases b with
  | false => rfl
  | true =>
    simp only [Bool.true_eq_false, if_false]
    by_cases hn : dens.getD dir 0 = 0
    · rw [if_pos hn, if_pos hn]
    · rw [if_neg hn, if_neg hn, h hn]
      cases refineDir T dir (dens.getD dir 0) tol <;> rfl

/-- **`refine_knotvector` on a surface, A5.4 as coded = the specification-level model** -/
theorem refineKnotvectorCoded_surface (d : ℕ) (S : Shape K) (hS : SurfWF d S) (dens : List ℕ) (tol : K) (h0 : 0 ≤ tol)
    (hd : ∀ dir, dir < 2 → dens.getD dir 0 ≠ 0 → DirHyp S dir (dens.getD dir 0) tol ∧ DirHypA54 S dir) :
    refineKnotvectorCoded S dens tol = refineKnotvector S dens tol := by
  rw [refineKnotvectorCoded_eq, refineKnotvector_eq]
  apply dirFold_surface_congr d S hS (refStep dens tol) (refStepCoded dens tol)
  · intro T b dir hdir hT hdegs _ hkv hsz
    exact refStep_dirStepOk d T b dir dens tol h0 (hT.dir dir hdir)
      (fun hne => dirHyp_transfer S T dir _ tol hdegs hkv hsz (hd dir hdir hne).1)
  · intro T b dir hdir hT hdegs _ hkv hsz
    apply refStepCoded_eq
    intro hne
    exact refineDirCoded_surface d T _ tol h0 hT dir hdir (dirHyp_transfer S T dir _ tol hdegs hkv hsz (hd dir hdir hne).1)
      (dirHypA54_transfer S T dir hdegs hkv (hd dir hdir hne).2)

/-- **`refine_knotvector` on a volume, A5.4 as coded on the rows = the specification-level model** -/
theorem refineKnotvectorCoded_volume (d : ℕ) (S : Shape K) (hS : VolWF d S) (hd0 : 0 < d) (dens : List ℕ) (tol : K)
    (h0 : 0 ≤ tol)
    (hd : ∀ dir, dir < 3 → dens.getD dir 0 ≠ 0 → DirHyp S dir (dens.getD dir 0) tol ∧ DirHypA54 S dir) :
    refineKnotvectorCoded S dens tol = refineKnotvector S dens tol := by
  rw [refineKnotvectorCoded_eq, refineKnotvector_eq]
  apply dirFold_volume_congr d S hS (refStep dens tol) (refStepCoded dens tol)
  · intro T b dir hdir hT hdegs _ hkv hsz
    exact refStep_dirStepOk d T b dir dens tol h0 (hT.dir dir hdir)
      (fun hne => dirHyp_transfer S T dir _ tol hdegs hkv hsz (hd dir hdir hne).1)
  · intro T b dir hdir hT hdegs _ hkv hsz
    apply refStepCoded_eq
    intro hne
    exact refineDirCoded_volume d T _ tol h0 hT hd0 dir hdir (dirHyp_transfer S T dir _ tol hdegs hkv hsz (hd dir hdir hne).1)
      (dirHypA54_transfer S T dir hdegs hkv (hd dir hdir hne).2)

/-- **`refine_knotvector` on a curve object, A5.4 as coded = the specification-level model** (one direction, one step) -/
theorem refineKnotvectorCoded_curve (d : ℕ) (S : Shape K) (h1 : S.pdim = 1) (hsize : S.size 0 = S.net.length)
    (hwf : CurveWF (S.deg 0) d (S.kv 0) S.net) (dens : List ℕ) (tol : K) (h0 : 0 ≤ tol)
    (hd : dens.getD 0 0 ≠ 0 → DirHyp S 0 (dens.getD 0 0) tol ∧ DirHypA54 S 0) :
    refineKnotvectorCoded S dens tol = refineKnotvector S dens tol := by
  rw [refineKnotvectorCoded_eq, refineKnotvector_eq, h1, show List.range 1 = [0] from rfl]
  simp only [List.foldl_cons, List.foldl_nil]
  apply refStepCoded_eq
  intro hne
  exact refineDirCoded_curve d S _ tol h0 h1 hsize hwf (hd hne).1 (hd hne).2

end Geomdl
