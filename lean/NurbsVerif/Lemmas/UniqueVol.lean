import NurbsVerif.Lemmas.UniqueTensor
import NurbsVerif.Lemmas.VolLift
import NurbsVerif.Lemmas.Layout

/-! # Tensor-product linear independence in three directions: uniqueness of the control net of a B-spline VOLUME

`V(u,v,w) = Σ_b Nv_b(v) Σ_c Nw_c(w) · L_{b,c}(u)` (`L_{y,z}` = iso-curve with control polygon `lineU … y z`), and the
two analogous decompositions.  Two applications of the global linear independence of a B-spline basis
(`two_level_coeff_unique`) show that the points of the iso-curves of one direction are determined by the volume
points – for two volumes that share the other two directions (`volume_linesU/V/W_determined`); with all three
directions shared, uniqueness of curve control points on every iso-curve gives `volume_net_unique`. -/
namespace Geomdl
open Blossom Finset
variable {K : Type} [Field K] [LinearOrder K] [IsStrictOrderedRing K]

/-- **Linear independence of the tensor-product basis** (coefficient tables `e`, `e'`): equal double combinations
    at every parameter pair of the half-open domain force equal coefficients. -/
theorem two_level_coeff_unique (p1 n1 : ℕ) (U1 : ℕ → K) (p2 n2 : ℕ) (U2 : ℕ → K)
    (hm1 : Monotone U1) (hpn1 : p1 + 1 ≤ n1) (hact1 : AllActive p1 n1 U1)
    (hm2 : Monotone U2) (hpn2 : p2 + 1 ≤ n2) (hact2 : AllActive p2 n2 U2) (e e' : ℕ → ℕ → K)
    (h : ∀ x y, U1 p1 ≤ x → x < U1 n1 → U2 p2 ≤ y → y < U2 n2 →
      ∑ a ∈ range (p1+1), (basisFuns p1 U1 (findSpanLinear p1 U1 n1 x) x).getD a 0 *
          ∑ b ∈ range (p2+1), (basisFuns p2 U2 (findSpanLinear p2 U2 n2 y) y).getD b 0 *
            e (findSpanLinear p1 U1 n1 x - p1 + a) (findSpanLinear p2 U2 n2 y - p2 + b)
        = ∑ a ∈ range (p1+1), (basisFuns p1 U1 (findSpanLinear p1 U1 n1 x) x).getD a 0 *
          ∑ b ∈ range (p2+1), (basisFuns p2 U2 (findSpanLinear p2 U2 n2 y) y).getD b 0 *
            e' (findSpanLinear p1 U1 n1 x - p1 + a) (findSpanLinear p2 U2 n2 y - p2 + b)) :
    ∀ i j, i < n1 → j < n2 → e i j = e' i j := by
  intro i j hi hj
  refine basis_global_coeff_unique p2 n2 U2 hm2 hpn2 hact2 (fun m => e i m) (fun m => e' i m) ?_ j hj
  intro y hy1 hy2
  exact basis_global_coeff_unique p1 n1 U1 hm1 hpn1 hact1
    (fun m => ∑ b ∈ range (p2+1), (basisFuns p2 U2 (findSpanLinear p2 U2 n2 y) y).getD b 0 *
      e m (findSpanLinear p2 U2 n2 y - p2 + b))
    (fun m => ∑ b ∈ range (p2+1), (basisFuns p2 U2 (findSpanLinear p2 U2 n2 y) y).getD b 0 *
      e' m (findSpanLinear p2 U2 n2 y - p2 + b))
    (fun x hx1 hx2 => h x y hx1 hx2 hy1 hy2) i hi

section Lines
variable (pu pv pw : ℕ) (Uu Uv Uw : ℕ → K) (su sv sw : ℕ) (P P' : List (List K)) (d j : ℕ)

/-- **the points of the u-directional iso-curves are determined by the volume points** (fixed `u`, coordinate `j`;
    the two volumes share the v and w directions, their u-directions may differ) -/
theorem volume_linesU_determined (pu' : ℕ) (Uu' : ℕ → K) (su' : ℕ) (u : K)
    (hmv : Monotone Uv) (hpnv : pv + 1 ≤ sv) (hactv : AllActive pv sv Uv)
    (hmw : Monotone Uw) (hpnw : pw + 1 ≤ sw) (hactw : AllActive pw sw Uw)
    (hpnu : pu + 1 ≤ su) (hpnu' : pu' + 1 ≤ su')
    (hlen : P.length = su * sv * sw) (hlen' : P'.length = su' * sv * sw) (hP : NetOk d P) (hP' : NetOk d P')
    (h : ∀ v w, Uv pv ≤ v → v < Uv sv → Uw pw ≤ w → w < Uw sw →
      (volumePoint pu pv pw Uu Uv Uw su sv sw P u v w).getD j 0
        = (volumePoint pu' pv pw Uu' Uv Uw su' sv sw P' u v w).getD j 0) :
    ∀ y z, y < sv → z < sw →
      (curvePoint pu Uu (lineU su sv P y z) u).getD j 0 = (curvePoint pu' Uu' (lineU su' sv P' y z) u).getD j 0 := by
  obtain ⟨ku1, ku2⟩ := findSpanLinear_mem_range pu Uu su u hpnu
  obtain ⟨ku1', ku2'⟩ := findSpanLinear_mem_range pu' Uu' su' u hpnu'
  have key := two_level_coeff_unique pv sv Uv pw sw Uw hmv hpnv hactv hmw hpnw hactw
    (fun y z => (curvePointAt pu Uu (lineU su sv P y z) (findSpanLinear pu Uu su u) u).getD j 0)
    (fun y z => (curvePointAt pu' Uu' (lineU su' sv P' y z) (findSpanLinear pu' Uu' su' u) u).getD j 0) (by
      intro v w hv1 hv2 hw1 hw2
      obtain ⟨kv1, kv2⟩ := findSpanLinear_mem_range pv Uv sv v hpnv
      obtain ⟨kw1, kw2⟩ := findSpanLinear_mem_range pw Uw sw w hpnw
      have e := h v w hv1 hv2 hw1 hw2
      unfold volumePoint at e
      rw [volumePointAt_linesU pu pv pw Uu Uv Uw su sv sw P _ _ _ u v w d j ku1 kv1 kw1 ku2 kv2 kw2 hlen hP,
        volumePointAt_linesU pu' pv pw Uu' Uv Uw su' sv sw P' _ _ _ u v w d j ku1' kv1 kw1 ku2' kv2 kw2 hlen' hP'] at e
      exact e)
  intro y z hy hz
  have := key y z hy hz
  unfold curvePoint
  rw [lineU_length, lineU_length]
  exact this

/-- **… v-directional iso-curves** (the two volumes share the u and w directions) -/
theorem volume_linesV_determined (pv' : ℕ) (Uv' : ℕ → K) (sv' : ℕ) (v : K)
    (hmu : Monotone Uu) (hpnu : pu + 1 ≤ su) (hactu : AllActive pu su Uu)
    (hmw : Monotone Uw) (hpnw : pw + 1 ≤ sw) (hactw : AllActive pw sw Uw)
    (hpnv : pv + 1 ≤ sv) (hpnv' : pv' + 1 ≤ sv')
    (hlen : P.length = su * sv * sw) (hlen' : P'.length = su * sv' * sw) (hP : NetOk d P) (hP' : NetOk d P')
    (h : ∀ u w, Uu pu ≤ u → u < Uu su → Uw pw ≤ w → w < Uw sw →
      (volumePoint pu pv pw Uu Uv Uw su sv sw P u v w).getD j 0
        = (volumePoint pu pv' pw Uu Uv' Uw su sv' sw P' u v w).getD j 0) :
    ∀ x z, x < su → z < sw →
      (curvePoint pv Uv (lineV su sv P x z) v).getD j 0 = (curvePoint pv' Uv' (lineV su sv' P' x z) v).getD j 0 := by
  obtain ⟨kv1, kv2⟩ := findSpanLinear_mem_range pv Uv sv v hpnv
  obtain ⟨kv1', kv2'⟩ := findSpanLinear_mem_range pv' Uv' sv' v hpnv'
  have key := two_level_coeff_unique pu su Uu pw sw Uw hmu hpnu hactu hmw hpnw hactw
    (fun x z => (curvePointAt pv Uv (lineV su sv P x z) (findSpanLinear pv Uv sv v) v).getD j 0)
    (fun x z => (curvePointAt pv' Uv' (lineV su sv' P' x z) (findSpanLinear pv' Uv' sv' v) v).getD j 0) (by
      intro u w hu1 hu2 hw1 hw2
      obtain ⟨ku1, ku2⟩ := findSpanLinear_mem_range pu Uu su u hpnu
      obtain ⟨kw1, kw2⟩ := findSpanLinear_mem_range pw Uw sw w hpnw
      have e := h u w hu1 hu2 hw1 hw2
      unfold volumePoint at e
      rw [volumePointAt_linesV pu pv pw Uu Uv Uw su sv sw P _ _ _ u v w d j ku1 kv1 kw1 ku2 kv2 kw2 hlen hP,
        volumePointAt_linesV pu pv' pw Uu Uv' Uw su sv' sw P' _ _ _ u v w d j ku1 kv1' kw1 ku2 kv2' kw2 hlen' hP'] at e
      exact e)
  intro x z hx hz
  have := key x z hx hz
  unfold curvePoint
  rw [lineV_length, lineV_length]
  exact this

/-- **… w-directional iso-curves** (the two volumes share the u and v directions) -/
theorem volume_linesW_determined (pw' : ℕ) (Uw' : ℕ → K) (sw' : ℕ) (w : K)
    (hmu : Monotone Uu) (hpnu : pu + 1 ≤ su) (hactu : AllActive pu su Uu)
    (hmv : Monotone Uv) (hpnv : pv + 1 ≤ sv) (hactv : AllActive pv sv Uv)
    (hpnw : pw + 1 ≤ sw) (hpnw' : pw' + 1 ≤ sw')
    (hlen : P.length = su * sv * sw) (hlen' : P'.length = su * sv * sw') (hP : NetOk d P) (hP' : NetOk d P')
    (h : ∀ u v, Uu pu ≤ u → u < Uu su → Uv pv ≤ v → v < Uv sv →
      (volumePoint pu pv pw Uu Uv Uw su sv sw P u v w).getD j 0
        = (volumePoint pu pv pw' Uu Uv Uw' su sv sw' P' u v w).getD j 0) :
    ∀ x y, x < su → y < sv →
      (curvePoint pw Uw (lineW su sv sw P x y) w).getD j 0 = (curvePoint pw' Uw' (lineW su sv sw' P' x y) w).getD j 0 := by
  obtain ⟨kw1, kw2⟩ := findSpanLinear_mem_range pw Uw sw w hpnw
  obtain ⟨kw1', kw2'⟩ := findSpanLinear_mem_range pw' Uw' sw' w hpnw'
  have key := two_level_coeff_unique pu su Uu pv sv Uv hmu hpnu hactu hmv hpnv hactv
    (fun x y => (curvePointAt pw Uw (lineW su sv sw P x y) (findSpanLinear pw Uw sw w) w).getD j 0)
    (fun x y => (curvePointAt pw' Uw' (lineW su sv sw' P' x y) (findSpanLinear pw' Uw' sw' w) w).getD j 0) (by
      intro u v hu1 hu2 hv1 hv2
      obtain ⟨ku1, ku2⟩ := findSpanLinear_mem_range pu Uu su u hpnu
      obtain ⟨kv1, kv2⟩ := findSpanLinear_mem_range pv Uv sv v hpnv
      have e := h u v hu1 hu2 hv1 hv2
      unfold volumePoint at e
      rw [volumePointAt_linesW pu pv pw Uu Uv Uw su sv sw P _ _ _ u v w d j ku1 kv1 kw1 ku2 kv2 kw2 hlen hP,
        volumePointAt_linesW pu pv pw' Uu Uv Uw' su sv sw' P' _ _ _ u v w d j ku1 kv1 kw1' ku2 kv2 kw2' hlen' hP'] at e
      exact e)
  intro x y hx hy
  have := key x y hx hy
  unfold curvePoint
  rw [lineW_length, lineW_length]
  exact this

end Lines

/-- two `su × sv × sw` nets with the same u-directional iso-curves are equal -/
theorem net_eq_of_linesU (su sv sw : ℕ) (A B : List (List K)) (hA : A.length = su * sv * sw) (hB : B.length = su * sv * sw)
    (h : ∀ y z, y < sv → z < sw → lineU su sv A y z = lineU su sv B y z) : A = B := by
  rw [← tab3_getD_self (C := sw) (A := su) (B := sv) hA, ← tab3_getD_self (C := sw) (A := su) (B := sv) hB]
  apply tab3_congr
  intro w hw u hu v hv
  have := congrArg (fun l => ptsGet l u) (h v w hv hw)
  simp only [lineU_get su sv _ v w u hu] at this
  exact this

/-- **Uniqueness of the control net of a B-spline volume (knot function form).**  Sorted knots in the three
    directions, enough control points, two `su × sv × sw` nets of `d`-dimensional points, every basis function of
    every direction active on its domain: if the two volumes have the same point at every parameter triple of the
    half-open domain, the nets are equal. -/
theorem volume_net_unique (pu pv pw d : ℕ) (Uu Uv Uw : ℕ → K) (su sv sw : ℕ) (P P' : List (List K))
    (hmu : Monotone Uu) (hmv : Monotone Uv) (hmw : Monotone Uw)
    (hpnu : pu + 1 ≤ su) (hpnv : pv + 1 ≤ sv) (hpnw : pw + 1 ≤ sw)
    (hactu : AllActive pu su Uu) (hactv : AllActive pv sv Uv) (hactw : AllActive pw sw Uw)
    (hlen : P.length = su * sv * sw) (hlen' : P'.length = su * sv * sw) (hP : NetOk d P) (hP' : NetOk d P')
    (h : ∀ u v w, Uu pu ≤ u → u < Uu su → Uv pv ≤ v → v < Uv sv → Uw pw ≤ w → w < Uw sw → ∀ j,
      (volumePoint pu pv pw Uu Uv Uw su sv sw P u v w).getD j 0
        = (volumePoint pu pv pw Uu Uv Uw su sv sw P' u v w).getD j 0) :
    P = P' := by
  apply net_eq_of_linesU su sv sw P P' hlen hlen'
  intro y z hy hz
  apply net_unique pu d Uu (lineU su sv P y z) (lineU su sv P' y z) hmu (by rw [lineU_length]; exact hpnu)
    (by rw [lineU_length, lineU_length]) (lineU_netOk su sv sw d P hP hlen y z hy hz)
    (lineU_netOk su sv sw d P' hP' hlen' y z hy hz) (by rw [lineU_length]; exact hactu)
  intro u h1 h2 j
  rw [lineU_length] at h2
  exact volume_linesU_determined pu pv pw Uu Uv Uw su sv sw P P' d j pu Uu su u hmv hpnv hactv hmw hpnw hactw hpnu hpnu
    hlen hlen' hP hP' (fun v w hv1 hv2 hw1 hw2 => h u v w h1 h2 hv1 hv2 hw1 hw2 j) y z hy hz

end Geomdl
