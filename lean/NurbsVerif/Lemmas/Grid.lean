import NurbsVerif.Model.Grid
import Mathlib.Tactic.Ring
import Mathlib.Data.List.GetD
import Mathlib.Tactic.Linarith

/-! Index theorems for the sampled grids: the flat list of evaluated points is ordered with the
    first direction slowest and the last fastest, and has the product of the sample sizes as length. -/
namespace Geomdl
open List

theorem flatMap_map_length {α β γ : Type} (l : List α) (m : List β) (f : α → β → γ) :
    (l.flatMap (fun a => m.map (f a))).length = l.length * m.length := by
  induction l with
  | nil => simp
  | cons a l ih => simp only [List.flatMap_cons, List.length_append, List.length_map, ih, List.length_cons]; ring

theorem flatMap_map_getD {α β γ : Type} (l : List α) (m : List β) (f : α → β → γ) (d : γ) (da : α) (db : β)
    (i j : ℕ) (hi : i < l.length) (hj : j < m.length) :
    (l.flatMap (fun a => m.map (f a))).getD (i * m.length + j) d = f (l.getD i da) (m.getD j db) := by
  induction l generalizing i with
  | nil => simp at hi
  | cons a l ih =>
    simp only [List.flatMap_cons]
    cases i with
    | zero =>
      simp only [Nat.zero_mul, Nat.zero_add]
      rw [List.getD_append _ _ _ _ (by simpa using hj)]
      simp [List.getD_eq_getElem?_getD, List.getElem?_map, hj]
    | succ i =>
      have hlen : (m.map (f a)).length ≤ (i + 1) * m.length + j := by
        simp only [List.length_map]; nlinarith
      rw [List.getD_append_right _ _ _ _ hlen]
      have e : (i + 1) * m.length + j - (m.map (f a)).length = i * m.length + j := by
        simp only [List.length_map]
        have : (i + 1) * m.length = i * m.length + m.length := by ring
        omega
      rw [e]
      simp only [List.getD_cons_succ]
      exact ih i (by simpa using hi)

section
variable {K : Type} [Add K] [Sub K] [Mul K] [Div K] [Neg K] [Zero K] [One K] [NatCast K]
  [LT K] [LE K] [DecidableRel (α := K) (· < ·)] [DecidableRel (α := K) (· ≤ ·)] [DecidableEq K]

theorem curveGrid_length (rat : Bool) (p : ℕ) (U : ℕ → K) (P : List (List K)) (ks : List K) :
    (curveGrid rat p U P ks).length = ks.length := by
  simp [curveGrid]

theorem curveGrid_getD (rat : Bool) (p : ℕ) (U : ℕ → K) (P : List (List K)) (ks : List K) (i : ℕ)
    (hi : i < ks.length) :
    (curveGrid rat p U P ks).getD i [] = projIf rat (curvePoint p U P (ks.getD i 0)) := by
  simp [curveGrid, List.getD_eq_getElem?_getD, List.getElem?_map, hi]

theorem surfaceGrid_length (rat : Bool) (pu pv : ℕ) (Uu Uv : ℕ → K) (su sv : ℕ) (P : List (List K))
    (kus kvs : List K) :
    (surfaceGrid rat pu pv Uu Uv su sv P kus kvs).length = kus.length * kvs.length :=
  flatMap_map_length kus kvs _

theorem surfaceGrid_getD (rat : Bool) (pu pv : ℕ) (Uu Uv : ℕ → K) (su sv : ℕ) (P : List (List K))
    (kus kvs : List K) (i j : ℕ) (hi : i < kus.length) (hj : j < kvs.length) :
    (surfaceGrid rat pu pv Uu Uv su sv P kus kvs).getD (i * kvs.length + j) []
      = projIf rat (surfacePoint pu pv Uu Uv su sv P (kus.getD i 0) (kvs.getD j 0)) :=
  flatMap_map_getD kus kvs (fun u v => projIf rat (surfacePoint pu pv Uu Uv su sv P u v)) [] 0 0 i j hi hj

theorem volumeGrid_length (rat : Bool) (pu pv pw : ℕ) (Uu Uv Uw : ℕ → K) (su sv sw : ℕ) (P : List (List K))
    (kus kvs kws : List K) :
    (volumeGrid rat pu pv pw Uu Uv Uw su sv sw P kus kvs kws).length = kus.length * (kvs.length * kws.length) := by
  unfold volumeGrid
  induction kus with
  | nil => simp
  | cons a l ih =>
    simp only [List.flatMap_cons, List.length_append, ih, List.length_cons]
    rw [flatMap_map_length]; ring

theorem volumeGrid_getD (rat : Bool) (pu pv pw : ℕ) (Uu Uv Uw : ℕ → K) (su sv sw : ℕ) (P : List (List K))
    (kus kvs kws : List K) (i j k : ℕ) (hi : i < kus.length) (hj : j < kvs.length) (hk : k < kws.length) :
    (volumeGrid rat pu pv pw Uu Uv Uw su sv sw P kus kvs kws).getD (i * (kvs.length * kws.length) + (j * kws.length + k)) []
      = projIf rat (volumePoint pu pv pw Uu Uv Uw su sv sw P (kus.getD i 0) (kvs.getD j 0) (kws.getD k 0)) := by
  unfold volumeGrid
  induction kus generalizing i with
  | nil => simp at hi
  | cons a l ih =>
    simp only [List.flatMap_cons]
    have hin : j * kws.length + k < kvs.length * kws.length := by
      have : (j + 1) * kws.length ≤ kvs.length * kws.length := Nat.mul_le_mul_right _ hj
      have e : (j + 1) * kws.length = j * kws.length + kws.length := by ring
      omega
    cases i with
    | zero =>
      simp only [Nat.zero_mul, Nat.zero_add]
      rw [List.getD_append _ _ _ _ (by rw [flatMap_map_length]; exact hin)]
      simp only [List.getD_cons_zero]
      exact flatMap_map_getD kvs kws (fun v w => projIf rat (volumePoint pu pv pw Uu Uv Uw su sv sw P a v w)) [] 0 0 j k hj hk
    | succ i =>
      have hl : (kvs.flatMap (fun v => kws.map (fun w => projIf rat (volumePoint pu pv pw Uu Uv Uw su sv sw P a v w)))).length
          = kvs.length * kws.length := flatMap_map_length kvs kws _
      rw [List.getD_append_right _ _ _ _ (by rw [hl]; nlinarith)]
      have e : (i + 1) * (kvs.length * kws.length) + (j * kws.length + k) - (kvs.length * kws.length)
          = i * (kvs.length * kws.length) + (j * kws.length + k) := by
        have : (i + 1) * (kvs.length * kws.length) = i * (kvs.length * kws.length) + kvs.length * kws.length := by ring
        omega
      rw [hl, e]
      simp only [List.getD_cons_succ]
      exact ih i (by simpa using hi)

/-- **zeroth derivative = point**: entry 0 of the A3.3/A3.4 derivative model (what
    `Curve.derivatives(u, order)` returns first) is the point of `evaluate_single`, whatever order
    is requested -/
theorem curveDersAt_head (p : ℕ) (U : ℕ → K) (P : List (List K)) (κ : ℕ) (u : K) (order : ℕ) (hp : p ≤ κ) :
    (curveDersAt p U P κ u order).getD 0 [] = curvePointAt p U P κ u := by
  unfold curveDersAt curvePointAt
  simp only [List.getD_eq_getElem?_getD, List.getElem?_map]
  rw [List.getElem?_range (by omega)]
  simp only [Option.map_some, Option.getD_some, Nat.zero_le, if_true, Nat.sub_zero]
  congr 1
  unfold curveDerivCpts
  simp only []
  have : ∀ (l : List ℕ) (a : List (List (List K))) (b : List (List K)),
      ((l.foldl (fun (acc : List (List (List K)) × List (List K)) k =>
        (acc.1 ++ [dcStep p U (κ - p) k 0 acc.2], dcStep p U (κ - p) k 0 acc.2)) (a, b)).1)[0]? = (a)[0]? ∨ a = [] := by
    intro l
    induction l with
    | nil => intro a b; left; rfl
    | cons x xs ih =>
      intro a b
      simp only [List.foldl_cons]
      rcases ih (a ++ [dcStep p U (κ - p) x 0 b]) (dcStep p U (κ - p) x 0 b) with h | h
      · by_cases ha : a = []
        · right; exact ha
        · left
          rw [h, List.getElem?_append_left (by
            cases a with
            | nil => exact absurd rfl ha
            | cons _ _ => simp)]
      · exact absurd h (by simp)
  rcases this (List.range' 1 (min p order)) [(List.range (κ - (κ - p) + 1)).map (fun i => ptsGet P (κ - p + i))]
      ((List.range (κ - (κ - p) + 1)).map (fun i => ptsGet P (κ - p + i))) with h | h
  · rw [h]
    simp only [List.getElem?_cons_zero, Option.getD_some]
    have : κ - (κ - p) + 1 = p + 1 := by omega
    rw [this]
  · exact absurd h (by simp)

/-- the same through the span search: `derivatives(u, order)[0] = evaluate_single(u)` -/
theorem curveDers_head (p : ℕ) (U : ℕ → K) (P : List (List K)) (u : K) (order : ℕ)
    (hp : p ≤ findSpanLinear p U P.length u) :
    (curveDers p U P u order).getD 0 [] = curvePoint p U P u :=
  curveDersAt_head p U P _ u order hp

/-- linear search never returns an index below the degree (for at least `p + 1` control points) -/
theorem findSpanLinear_ge (p : ℕ) (U : ℕ → K) (n : ℕ) (u : K) : p ≤ findSpanLinear p U n u := by
  unfold findSpanLinear
  have : ∀ (fuel s : ℕ), s ≤ findSpanLinearAux U n u fuel s := by
    intro fuel
    induction fuel with
    | zero => intro s; simp [findSpanLinearAux]
    | succ f ih =>
      intro s
      simp only [findSpanLinearAux]
      split
      · exact Nat.le_trans (Nat.le_succ s) (ih (s+1))
      · exact Nat.le_refl s
  have := this (n + 1) (p + 1)
  omega

end
end Geomdl
