import NurbsVerif.Lemmas.Hull2DList

/-!
C20, convex hull: what one scan returns (in Python order) and how the lower and the upper chain fit
together at the two extreme points.
-/
namespace Geomdl
variable {K : Type} [Field K] [LinearOrder K] [IsStrictOrderedRing K]

/-- `h` is the strictly convex chain below (to the right of) which no point of `S` lies, running from
    the first to the last point of `S` with respect to the order of the cone `pos` -/
structure HalfHull (pos : K → K → Prop) (S h : List (K × K)) : Prop where
  sub : ∀ x ∈ h, x ∈ S
  sorted : h.Pairwise (clt pos)
  chain : LeftChainFwd h
  contain : ∀ q ∈ S, ∀ e ∈ pairs h, 0 ≤ isLeft e.1 e.2 q
  first : ∃ m rest, h = m :: rest ∧ ∀ q ∈ S, cle pos m q
  last : ∃ M, h.getLast? = some M ∧ ∀ q ∈ S, cle pos q M

theorem ScanInv.halfHull {pos : K → K → Prop} {m : K × K} {S st : List (K × K)}
    (inv : ScanInv pos m S st) : HalfHull pos S st.reverse where
  sub := fun x hx => inv.sub x (List.mem_reverse.mp hx)
  sorted := List.pairwise_reverse.mpr inv.sorted
  chain := LeftChain_reverse st inv.chain
  contain := fun q hq e he => inv.contain q hq e ((mem_pairs_reverse st e).mp he)
  first := by
    have h : st.reverse.head? = some m := by rw [List.head?_reverse]; exact inv.bottom
    obtain ⟨rest, hrest⟩ := List.head?_eq_some_iff.mp h
    exact ⟨m, rest, hrest, inv.minS⟩
  last := by
    obtain ⟨t, rest, hst, ht⟩ := inv.top
    exact ⟨t, by rw [List.getLast?_reverse, hst]; rfl, ht⟩

/-- **Andrew's invariant at the end of one scan**: for a non-empty list sorted with respect to the
    cone, `reduce(keep_left, pts, [])` is the half hull of the list -/
theorem halfHull_spec {pos : K → K → Prop} (hc : IsCone pos) (m : K × K) (pts : List (K × K))
    (hp : (m :: pts).Pairwise (cle pos)) : HalfHull pos (m :: pts) (halfHull (m :: pts)) :=
  (scanInv_sorted hc m pts hp).halfHull

theorem HalfHull.congr {pos : K → K → Prop} {S S' h : List (K × K)} (hS : ∀ q, q ∈ S ↔ q ∈ S')
    (hh : HalfHull pos S h) : HalfHull pos S' h where
  sub := fun x hx => (hS x).mp (hh.sub x hx)
  sorted := hh.sorted
  chain := hh.chain
  contain := fun q hq => hh.contain q ((hS q).mpr hq)
  first := by
    obtain ⟨m, rest, e, hm⟩ := hh.first
    exact ⟨m, rest, e, fun q hq => hm q ((hS q).mpr hq)⟩
  last := by
    obtain ⟨M, e, hM⟩ := hh.last
    exact ⟨M, e, fun q hq => hM q ((hS q).mpr hq)⟩

section junction
variable {pos1 pos2 : K → K → Prop} (hc1 : IsCone pos1) (hrel : ∀ a b, clt pos2 a b → clt pos1 b a)
include hc1 hrel

/-- **strict turn at an extreme point**: the chain `l = … x M` ends where the chain `u = M y …` of the
    reversed order begins; unless both chains are single segments, `x M y` is a strict left turn -/
theorem junction_strict {S l u lA uB : List (K × K)} {x y M : K × K}
    (hl : HalfHull pos1 S l) (hu : HalfHull pos2 S u)
    (el : l = lA ++ [x, M]) (eu : u = M :: y :: uB) (hlen : 3 ≤ l.length ∨ 3 ≤ u.length) :
    0 < isLeft x M y := by
  have hxl : x ∈ l := by rw [el]; simp
  have hyu : y ∈ u := by rw [eu]; simp
  have hxM : clt pos1 x M := by
    have := hl.sorted; rw [el, List.pairwise_append] at this
    exact (List.pairwise_cons.mp this.2.1).1 M (by simp)
  have hyM : clt pos1 y M := by
    have := hu.sorted; rw [eu] at this
    exact hrel _ _ ((List.pairwise_cons.mp this).1 y (by simp))
  have e1 : (x, M) ∈ pairs l := by rw [el]; exact mem_pairs_mid x M [] lA
  have e2 : (M, y) ∈ pairs u := by rw [eu]; simp [pairs]
  have h0 : 0 ≤ isLeft x M y := hl.contain y (hu.sub y hyu) (x, M) e1
  rcases lt_or_eq_of_le h0 with h | h
  · exact h
  · exfalso
    have hflat : ∀ q ∈ S, isLeft x M q = 0 ∧ isLeft M y q = 0 := fun q hq =>
      junction_flat hc1 hxM hyM h.symm (hl.contain q hq (x, M) e1) (hu.contain q hq (M, y) e2)
    rcases hlen with hlen | hlen
    · -- a third vertex `w` before `x` on `l`
      have hA : lA ≠ [] := by
        intro hA; rw [el, hA] at hlen; simp at hlen
      rcases List.eq_nil_or_concat lA with hA' | ⟨lA', w, hA'⟩
      · exact hA hA'
      · rw [List.concat_eq_append] at hA'
        have el' : l = lA' ++ w :: x :: M :: [] := by rw [el, hA']; simp
        have ht : turn w x M = 1 := by
          have := hl.chain; rw [el'] at this
          exact LeftChainFwd_mid w x M [] lA' this
        have hw : w ∈ S := hl.sub w (by rw [el']; simp)
        have := (hflat w hw).1
        rw [isLeft_cyclic] at this
        have hpos := (turn_eq_one_iff w x M).mp ht
        rw [this] at hpos
        exact lt_irrefl _ hpos
    · -- a third vertex `z` after `y` on `u`
      cases uB with
      | nil => rw [eu] at hlen; simp at hlen
      | cons z uB' =>
        have ht : turn M y z = 1 := by
          have := hu.chain; rw [eu] at this
          exact this.1
        have hz : z ∈ S := hu.sub z (by rw [eu]; simp)
        have hpos := (turn_eq_one_iff M y z).mp ht
        rw [(hflat z hz).2] at hpos
        exact lt_irrefl _ hpos

/-- an inner vertex of `l` is not a vertex of `u` other than its first one -/
theorem no_double_vertex {S l u A B A' B' : List (K × K)} {p x n p' : K × K}
    (hl : HalfHull pos1 S l) (hu : HalfHull pos2 S u)
    (el : l = A ++ p :: x :: n :: B) (eu : u = A' ++ p' :: x :: B') : False := by
  have hpx : clt pos1 p x := by
    have := hl.sorted; rw [el, List.pairwise_append] at this
    exact (List.pairwise_cons.mp this.2.1).1 x (by simp)
  have hxp' : clt pos1 x p' := by
    have := hu.sorted; rw [eu, List.pairwise_append] at this
    exact hrel _ _ ((List.pairwise_cons.mp this.2.1).1 x (by simp))
  have hpS : p ∈ S := hl.sub p (by rw [el]; simp)
  have hnS : n ∈ S := hl.sub n (by rw [el]; simp)
  have hp'S : p' ∈ S := hu.sub p' (by rw [eu]; simp)
  have e1 : (p, x) ∈ pairs l := by rw [el]; exact mem_pairs_mid p x _ A
  have e2 : (p', x) ∈ pairs u := by rw [eu]; exact mem_pairs_mid p' x _ A'
  have ht : 0 < isLeft p x n := by
    have := hl.chain; rw [el] at this
    exact (turn_eq_one_iff p x n).mp (LeftChainFwd_mid p x n B A this)
  have h1 : 0 ≤ isLeft p' x p := hu.contain p hpS _ e2
  have h2 : 0 ≤ isLeft p x p' := hl.contain p' hp'S _ e1
  have h3 : 0 ≤ isLeft p' x n := hu.contain n hnS _ e2
  have hz : isLeft p' x p = 0 := by
    have : isLeft p' x p = - isLeft p x p' := by unfold isLeft; ring
    linarith
  have := hc1.sum_zero (α := isLeft p x n) (β := isLeft p' x n) hxp' hpx (le_of_lt ht) h3 ?_ ?_
  · rw [this.1] at ht; exact lt_irrefl _ ht
  · have : isLeft p x n * (p'.1 - x.1) + isLeft p' x n * (x.1 - p.1) = isLeft p' x p * (x.1 - n.1) := by
      unfold isLeft; ring
    rw [this, hz, zero_mul]
  · have : isLeft p x n * (p'.2 - x.2) + isLeft p' x n * (x.2 - p.2) = isLeft p' x p * (x.2 - n.2) := by
      unfold isLeft; ring
    rw [this, hz, zero_mul]

end junction
end Geomdl
