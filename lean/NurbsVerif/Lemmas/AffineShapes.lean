import NurbsVerif.Lemmas.AffineVol

/-! Assembled affine-invariance theorems for the evaluation model: curves, surfaces, volumes;
    non-rational (`P.map f`) and rational (`P.map (onCartesian true f)`, i.e. what `Shape.mapPts`
    does to the net of a rational shape). -/
namespace Geomdl
open Blossom Finset
variable {K : Type} [Field K] [LinearOrder K] [IsStrictOrderedRing K]

theorem curvePointAt_length (p : ℕ) (U : ℕ → K) (P : List (List K)) (k : ℕ) (u : K) (d : ℕ)
    (hp : p ≤ k) (hk : k < P.length) (hP : NetOk d P) : (curvePointAt p U P k u).length = d := by
  unfold curvePointAt
  rw [dimOf_eq hP (by omega)]
  apply linComb_length
  intro pt hpt
  simp only [List.mem_map, List.mem_range] at hpt
  obtain ⟨r, hr, rfl⟩ := hpt
  exact ptsGet_length hP _ (by omega)

/-! ### curves -/

theorem curvePointAt_map_affine (p : ℕ) (U : ℕ → K) (P : List (List K)) (k : ℕ) (u : K) (d : ℕ)
    (h : SpanOk U k u) (hp : p ≤ k) (hk : k < P.length) (hP : NetOk d P)
    (f : List K → List K) (A : ℕ → ℕ → K) (b : ℕ → K) (hf : AffOn d f A b) :
    curvePointAt p U (P.map f) k u = f (curvePointAt p U P k u) := by
  have hQ : NetOk d (P.map f) := netOk_map d d f P hP hf.len
  have hkQ : k < (P.map f).length := by simpa using hk
  obtain ⟨h1, h0, hX⟩ := curvePointAt_convex p U P k u d h hp hk hP
  obtain ⟨_, _, hY⟩ := curvePointAt_convex p U (P.map f) k u d h hp hkQ hQ
  apply affine_lists _ _ h1 d f A b hf _ _ (fun r => ptsGet P (k - p + r)) _
    (curvePointAt_length p U P k u d hp hk hP) (curvePointAt_length p U _ k u d hp hkQ hQ) hX
  · intro l
    rw [hY l]
    apply Finset.sum_congr rfl
    intro r hr
    rw [Finset.mem_range] at hr
    rw [ptsGet_map f P _ (by omega)]
  · intro r hr
    rw [Finset.mem_range] at hr
    exact ptsGet_length hP _ (by omega)

theorem curvePointAt_map_affine_rat (p : ℕ) (U : ℕ → K) (P : List (List K)) (k : ℕ) (u : K) (d : ℕ)
    (h : SpanOk U k u) (hp : p ≤ k) (hk : k < P.length) (hP : NetOk (d+1) P)
    (hwt : ∀ i, i < P.length → 0 < (ptsGet P i).getD d 0)
    (f : List K → List K) (A : ℕ → ℕ → K) (b : ℕ → K) (hf : AffOn d f A b) :
    (curvePointAt p U (P.map (onCartesian true f)) k u).getD d 0 = (curvePointAt p U P k u).getD d 0 ∧
    0 < (curvePointAt p U P k u).getD d 0 ∧
    project (curvePointAt p U (P.map (onCartesian true f)) k u) = f (project (curvePointAt p U P k u)) := by
  have hQ : NetOk (d+1) (P.map (onCartesian true f)) := (onCartesian_net d f P hP hf.len).1
  have hkQ : k < (P.map (onCartesian true f)).length := by simpa using hk
  obtain ⟨h1, h0, hX⟩ := curvePointAt_convex p U P k u (d+1) h hp hk hP
  obtain ⟨_, _, hY⟩ := curvePointAt_convex p U (P.map (onCartesian true f)) k u (d+1) h hp hkQ hQ
  apply rat_affine_lists _ _ h1 h0 d f A b hf _ _ (fun r => ptsGet P (k - p + r)) _ _
    (curvePointAt_length p U P k u (d+1) hp hk hP) (curvePointAt_length p U _ k u (d+1) hp hkQ hQ) hX
  · intro l
    rw [hY l]
    apply Finset.sum_congr rfl
    intro r hr
    rw [Finset.mem_range] at hr
    rw [ptsGet_map _ P _ (by omega)]
  · intro r hr
    rw [Finset.mem_range] at hr
    exact ptsGet_length hP _ (by omega)
  · intro r hr
    rw [Finset.mem_range] at hr
    exact hwt _ (by omega)

/-! ### surfaces -/

theorem surf_idx_lt (su sv a c : ℕ) (ha : a < su) (hc : c < sv) : c + sv * a < su * sv := by
  calc c + sv * a < sv + sv * a := by omega
    _ = sv * (a + 1) := by ring
    _ ≤ sv * su := Nat.mul_le_mul_left _ (by omega)
    _ = su * sv := by ring

theorem surfacePointAt_map_affine (pu pv : ℕ) (Uu Uv : ℕ → K) (su sv : ℕ) (P : List (List K)) (ku kv : ℕ) (u v : K) (d : ℕ)
    (hu : SpanOk Uu ku u) (hv : SpanOk Uv kv v)
    (hpu : pu ≤ ku) (hpv : pv ≤ kv) (hku : ku < su) (hkv : kv < sv) (hlen : P.length = su * sv) (hP : NetOk d P)
    (f : List K → List K) (A : ℕ → ℕ → K) (b : ℕ → K) (hf : AffOn d f A b) :
    surfacePointAt pu pv Uu Uv sv (P.map f) ku kv u v = f (surfacePointAt pu pv Uu Uv sv P ku kv u v) := by
  have hQ : NetOk d (P.map f) := netOk_map d d f P hP hf.len
  have hlenQ : (P.map f).length = su * sv := by simpa using hlen
  obtain ⟨h1, h0, hX⟩ := surfacePointAt_convex pu pv Uu Uv su sv P ku kv u v d hu hv hpu hpv hku hkv hlen hP
  obtain ⟨_, _, hY⟩ := surfacePointAt_convex pu pv Uu Uv su sv (P.map f) ku kv u v d hu hv hpu hpv hku hkv hlenQ hQ
  apply affine_lists _ _ h1 d f A b hf _ _ (fun i : ℕ × ℕ => ptsGet P (kv - pv + i.2 + sv * (ku - pu + i.1))) _
    (surfacePointAt_length pu pv Uu Uv su sv P ku kv u v d hpu hpv hku hkv hlen hP)
    (surfacePointAt_length pu pv Uu Uv su sv _ ku kv u v d hpu hpv hku hkv hlenQ hQ) hX
  · intro l
    rw [hY l]
    apply Finset.sum_congr rfl
    intro i hmem
    simp only [Finset.mem_product, Finset.mem_range] at hmem
    rw [ptsGet_map f P _ (by rw [hlen]; exact surf_idx_lt su sv _ _ (by omega) (by omega))]
  · intro i hmem
    simp only [Finset.mem_product, Finset.mem_range] at hmem
    exact ptsGet_length hP _ (by rw [hlen]; exact surf_idx_lt su sv _ _ (by omega) (by omega))

theorem surfacePointAt_map_affine_rat (pu pv : ℕ) (Uu Uv : ℕ → K) (su sv : ℕ) (P : List (List K)) (ku kv : ℕ) (u v : K) (d : ℕ)
    (hu : SpanOk Uu ku u) (hv : SpanOk Uv kv v)
    (hpu : pu ≤ ku) (hpv : pv ≤ kv) (hku : ku < su) (hkv : kv < sv) (hlen : P.length = su * sv) (hP : NetOk (d+1) P)
    (hwt : ∀ i, i < P.length → 0 < (ptsGet P i).getD d 0)
    (f : List K → List K) (A : ℕ → ℕ → K) (b : ℕ → K) (hf : AffOn d f A b) :
    (surfacePointAt pu pv Uu Uv sv (P.map (onCartesian true f)) ku kv u v).getD d 0
      = (surfacePointAt pu pv Uu Uv sv P ku kv u v).getD d 0 ∧
    0 < (surfacePointAt pu pv Uu Uv sv P ku kv u v).getD d 0 ∧
    project (surfacePointAt pu pv Uu Uv sv (P.map (onCartesian true f)) ku kv u v)
      = f (project (surfacePointAt pu pv Uu Uv sv P ku kv u v)) := by
  have hQ : NetOk (d+1) (P.map (onCartesian true f)) := (onCartesian_net d f P hP hf.len).1
  have hlenQ : (P.map (onCartesian true f)).length = su * sv := by simpa using hlen
  obtain ⟨h1, h0, hX⟩ := surfacePointAt_convex pu pv Uu Uv su sv P ku kv u v (d+1) hu hv hpu hpv hku hkv hlen hP
  obtain ⟨_, _, hY⟩ := surfacePointAt_convex pu pv Uu Uv su sv (P.map (onCartesian true f)) ku kv u v (d+1) hu hv hpu hpv hku hkv hlenQ hQ
  apply rat_affine_lists _ _ h1 h0 d f A b hf _ _ (fun i : ℕ × ℕ => ptsGet P (kv - pv + i.2 + sv * (ku - pu + i.1))) _ _
    (surfacePointAt_length pu pv Uu Uv su sv P ku kv u v (d+1) hpu hpv hku hkv hlen hP)
    (surfacePointAt_length pu pv Uu Uv su sv _ ku kv u v (d+1) hpu hpv hku hkv hlenQ hQ) hX
  · intro l
    rw [hY l]
    apply Finset.sum_congr rfl
    intro i hmem
    simp only [Finset.mem_product, Finset.mem_range] at hmem
    rw [ptsGet_map _ P _ (by rw [hlen]; exact surf_idx_lt su sv _ _ (by omega) (by omega))]
  · intro i hmem
    simp only [Finset.mem_product, Finset.mem_range] at hmem
    exact ptsGet_length hP _ (by rw [hlen]; exact surf_idx_lt su sv _ _ (by omega) (by omega))
  · intro i hmem
    simp only [Finset.mem_product, Finset.mem_range] at hmem
    exact hwt _ (by rw [hlen]; exact surf_idx_lt su sv _ _ (by omega) (by omega))

/-! ### volumes -/

theorem volumePointAt_map_affine (pu pv pw : ℕ) (Uu Uv Uw : ℕ → K) (su sv sw : ℕ) (P : List (List K))
    (ku kv kw : ℕ) (u v w : K) (d : ℕ)
    (hu : SpanOk Uu ku u) (hv : SpanOk Uv kv v) (hw : SpanOk Uw kw w)
    (hpu : pu ≤ ku) (hpv : pv ≤ kv) (hpw : pw ≤ kw) (hku : ku < su) (hkv : kv < sv) (hkw : kw < sw)
    (hlen : P.length = su * sv * sw) (hP : NetOk d P)
    (f : List K → List K) (A : ℕ → ℕ → K) (b : ℕ → K) (hf : AffOn d f A b) :
    volumePointAt pu pv pw Uu Uv Uw su sv (P.map f) ku kv kw u v w
      = f (volumePointAt pu pv pw Uu Uv Uw su sv P ku kv kw u v w) := by
  have hQ : NetOk d (P.map f) := netOk_map d d f P hP hf.len
  have hlenQ : (P.map f).length = su * sv * sw := by simpa using hlen
  obtain ⟨h1, h0, hX⟩ := volumePointAt_convex pu pv pw Uu Uv Uw su sv sw P ku kv kw u v w d hu hv hw hpu hpv hpw hku hkv hkw hlen hP
  obtain ⟨_, _, hY⟩ := volumePointAt_convex pu pv pw Uu Uv Uw su sv sw (P.map f) ku kv kw u v w d hu hv hw hpu hpv hpw hku hkv hkw hlenQ hQ
  apply affine_lists _ _ h1 d f A b hf _ _
    (fun i : ℕ × ℕ × ℕ => ptsGet P (kv - pv + i.2.1 + sv * (ku - pu + i.1 + su * (kw - pw + i.2.2)))) _
    (volumePointAt_length pu pv pw Uu Uv Uw su sv sw P ku kv kw u v w d hpu hpv hpw hku hkv hkw hlen hP)
    (volumePointAt_length pu pv pw Uu Uv Uw su sv sw _ ku kv kw u v w d hpu hpv hpw hku hkv hkw hlenQ hQ) hX
  · intro l
    rw [hY l]
    apply Finset.sum_congr rfl
    intro i hmem
    simp only [Finset.mem_product, Finset.mem_range] at hmem
    rw [ptsGet_map f P _ (by rw [hlen]; exact vol_idx_lt su sv sw _ _ _ (by omega) (by omega) (by omega))]
  · intro i hmem
    simp only [Finset.mem_product, Finset.mem_range] at hmem
    exact ptsGet_length hP _ (by rw [hlen]; exact vol_idx_lt su sv sw _ _ _ (by omega) (by omega) (by omega))

theorem volumePointAt_map_affine_rat (pu pv pw : ℕ) (Uu Uv Uw : ℕ → K) (su sv sw : ℕ) (P : List (List K))
    (ku kv kw : ℕ) (u v w : K) (d : ℕ)
    (hu : SpanOk Uu ku u) (hv : SpanOk Uv kv v) (hw : SpanOk Uw kw w)
    (hpu : pu ≤ ku) (hpv : pv ≤ kv) (hpw : pw ≤ kw) (hku : ku < su) (hkv : kv < sv) (hkw : kw < sw)
    (hlen : P.length = su * sv * sw) (hP : NetOk (d+1) P)
    (hwt : ∀ i, i < P.length → 0 < (ptsGet P i).getD d 0)
    (f : List K → List K) (A : ℕ → ℕ → K) (b : ℕ → K) (hf : AffOn d f A b) :
    (volumePointAt pu pv pw Uu Uv Uw su sv (P.map (onCartesian true f)) ku kv kw u v w).getD d 0
      = (volumePointAt pu pv pw Uu Uv Uw su sv P ku kv kw u v w).getD d 0 ∧
    0 < (volumePointAt pu pv pw Uu Uv Uw su sv P ku kv kw u v w).getD d 0 ∧
    project (volumePointAt pu pv pw Uu Uv Uw su sv (P.map (onCartesian true f)) ku kv kw u v w)
      = f (project (volumePointAt pu pv pw Uu Uv Uw su sv P ku kv kw u v w)) := by
  have hQ : NetOk (d+1) (P.map (onCartesian true f)) := (onCartesian_net d f P hP hf.len).1
  have hlenQ : (P.map (onCartesian true f)).length = su * sv * sw := by simpa using hlen
  obtain ⟨h1, h0, hX⟩ := volumePointAt_convex pu pv pw Uu Uv Uw su sv sw P ku kv kw u v w (d+1) hu hv hw hpu hpv hpw hku hkv hkw hlen hP
  obtain ⟨_, _, hY⟩ := volumePointAt_convex pu pv pw Uu Uv Uw su sv sw (P.map (onCartesian true f)) ku kv kw u v w (d+1) hu hv hw hpu hpv hpw hku hkv hkw hlenQ hQ
  apply rat_affine_lists _ _ h1 h0 d f A b hf _ _
    (fun i : ℕ × ℕ × ℕ => ptsGet P (kv - pv + i.2.1 + sv * (ku - pu + i.1 + su * (kw - pw + i.2.2)))) _ _
    (volumePointAt_length pu pv pw Uu Uv Uw su sv sw P ku kv kw u v w (d+1) hpu hpv hpw hku hkv hkw hlen hP)
    (volumePointAt_length pu pv pw Uu Uv Uw su sv sw _ ku kv kw u v w (d+1) hpu hpv hpw hku hkv hkw hlenQ hQ) hX
  · intro l
    rw [hY l]
    apply Finset.sum_congr rfl
    intro i hmem
    simp only [Finset.mem_product, Finset.mem_range] at hmem
    rw [ptsGet_map _ P _ (by rw [hlen]; exact vol_idx_lt su sv sw _ _ _ (by omega) (by omega) (by omega))]
  · intro i hmem
    simp only [Finset.mem_product, Finset.mem_range] at hmem
    exact ptsGet_length hP _ (by rw [hlen]; exact vol_idx_lt su sv sw _ _ _ (by omega) (by omega) (by omega))
  · intro i hmem
    simp only [Finset.mem_product, Finset.mem_range] at hmem
    exact hwt _ (by rw [hlen]; exact vol_idx_lt su sv sw _ _ _ (by omega) (by omega) (by omega))

end Geomdl
