import NurbsVerif.Model.Fitting
import Mathlib.Algebra.Field.Defs

/-!
  C11: the guards of the driver ops `fit.icurve`, `fit.isurf`, `fit.acurve`, `fit.asurf` (`Driver/Fitting.lean`) as
  hypothesis bundles – the inputs on which the real `fitting.*` routine reaches the solver instead of raising
  (`ValueError` for degree 0 / too few points, `IndexError` for two control points in a direction (finding F-11a) or a
  short data list, `ZeroDivisionError` in `compute_params_curve` for a data line of total chord length 0, and – in
  exact arithmetic – `ZeroDivisionError` in the solver for more control points than data points (in plain doubles
  `approximate_curve(5 points, 2, ctrlpts_size=6)` RETURNS a meaningless curve instead), `ValueError` of
  `linalg.point_distance` for data points of different lengths, `GeomdlException` "should be at least 2-dimensional"
  of the control point setter for points with fewer than 2 coordinates: `RectData`).  The chord lists are the ones the code computes itself from the data: one list
  per data line, one chord per consecutive pair.
-/
namespace Geomdl
variable {K : Type} [Field K]

/-- the data points all have the same number `d ≥ 2` of coordinates (ragged data: `point_distance` raises `ValueError`;
    1-D / 0-D data: "A curve / surface should be at least 2-dimensional") -/
def RectData (pts : List (List K)) : Prop := ∃ d, 2 ≤ d ∧ ∀ pt ∈ pts, pt.length = d

/-- `fit.icurve`: degree ≥ 1, at least `p + 1` points, one chord per consecutive pair, total chord length ≠ 0 -/
structure InterpCurveOk (p : ℕ) (pts : List (List K)) (cds : List K) : Prop where
  p1 : 1 ≤ p
  pn : p + 1 ≤ pts.length
  len : cds.length + 1 = pts.length
  chord : sumL cds ≠ 0
  rect : RectData pts

/-- `fit.isurf`: degrees ≥ 1, at least `p + 1` points per direction, `su·sv` data points, one chord list per data
    line (`sv` lists of `su - 1` chords, `su` lists of `sv - 1` chords), every total chord length ≠ 0 -/
structure InterpSurfOk (pu pv su sv : ℕ) (pts : List (List K)) (cdsU cdsV : List (List K)) : Prop where
  pu1 : 1 ≤ pu
  pv1 : 1 ≤ pv
  pun : pu + 1 ≤ su
  pvn : pv + 1 ≤ sv
  len : pts.length = su * sv
  cu : cdsU.length = sv ∧ ∀ c ∈ cdsU, c.length + 1 = su ∧ sumL c ≠ 0
  cv : cdsV.length = su ∧ ∀ c ∈ cdsV, c.length + 1 = sv ∧ sumL c ≠ 0
  rect : RectData pts

/-- `fit.acurve`: degree ≥ 1, `max(p + 1, 3) ≤ nc ≤` number of data points, chords as above -/
structure ApproxCurveOk (p : ℕ) (pts : List (List K)) (cds : List K) (nc : ℕ) : Prop where
  p1 : 1 ≤ p
  pn : p + 1 ≤ nc
  nc3 : 3 ≤ nc
  nd : nc ≤ pts.length
  len : cds.length + 1 = pts.length
  chord : sumL cds ≠ 0
  rect : RectData pts

/-- `fit.asurf`: the same per direction, `su·sv` data points -/
structure ApproxSurfOk (pu pv su sv : ℕ) (pts : List (List K)) (cdsU cdsV : List (List K)) (ncu ncv : ℕ) : Prop where
  pu1 : 1 ≤ pu
  pv1 : 1 ≤ pv
  pun : pu + 1 ≤ ncu
  pvn : pv + 1 ≤ ncv
  ncu3 : 3 ≤ ncu
  ncv3 : 3 ≤ ncv
  ndu : ncu ≤ su
  ndv : ncv ≤ sv
  len : pts.length = su * sv
  cu : cdsU.length = sv ∧ ∀ c ∈ cdsU, c.length + 1 = su ∧ sumL c ≠ 0
  cv : cdsV.length = su ∧ ∀ c ∈ cdsV, c.length + 1 = sv ∧ sumL c ≠ 0
  rect : RectData pts

end Geomdl
