import NurbsVerif.Lemmas.SplitMain

/-! Splitting with UNCLAMPED knot vectors: the two pieces cut from a curve whose knot `ub` has
    multiplicity exactly `p` (last copy at index `m`), without any assumption on the first and last
    `p+1` knots.  `CutOkU` is `CutOk` without the two clamping equations; the pieces' un-normalised knot
    vectors then range over `[U_0, ub]` and `[ub, U_{n+p}]`, which is what the constructor's
    normalisation maps to `[0,1]`, so the pieces' DOMAINS are sub-intervals of `[0,1]`. -/
set_option linter.unusedSectionVars false
namespace Geomdl
open Blossom
variable {K : Type} [Field K] [LinearOrder K] [IsStrictOrderedRing K]

/-- the situation after the insertion step of `split_curve`, no clamping assumed: a well-formed curve in
    which the split parameter has multiplicity exactly `p`, its last copy at index `m` -/
structure CutOkU (p d : ℕ) (Wl : List K) (Q : List (List K)) (ub : K) (m : ℕ) : Prop where
  wf : CurveWF p d Wl Q
  hp : 1 ≤ p
  hm : m < Q.length
  hpm : 2 * p ≤ m
  mult : ∀ x, m - p < x → x ≤ m → fnOf Wl x = ub
  below : fnOf Wl (m - p) < ub
  above : ub < fnOf Wl (m + 1)

variable {p d : ℕ} {Wl : List K} {Q : List (List K)} {ub : K} {m : ℕ}

/-- the clamped situation is a special case -/
theorem CutOk.toU (h : CutOk p d Wl Q ub m) : CutOkU p d Wl Q ub m :=
  ⟨h.wf, h.hp, h.hm, h.hpm, h.mult, h.below, h.above⟩

theorem CutOkU.len (h : CutOkU p d Wl Q ub m) : Wl.length = Q.length + p + 1 := h.wf.len
theorem CutOkU.ne (h : CutOkU p d Wl Q ub m) : Wl ≠ [] := by
  intro e; have := h.len; rw [e] at this; simp at this

theorem CutOkU.lo (h : CutOkU p d Wl Q ub m) : fnOf Wl p < ub :=
  lt_of_le_of_lt (h.wf.mono (by have := h.hpm; omega)) h.below

theorem CutOkU.hi (h : CutOkU p d Wl Q ub m) : ub < fnOf Wl Q.length :=
  lt_of_lt_of_le h.above (h.wf.mono (by have := h.hm; omega))

theorem CutOkU.lo0 (h : CutOkU p d Wl Q ub m) : fnOf Wl 0 < ub :=
  lt_of_le_of_lt (h.wf.mono (by omega)) h.lo

theorem CutOkU.hiLast (h : CutOkU p d Wl Q ub m) : ub < fnOf Wl (Q.length + p) :=
  lt_of_lt_of_le h.hi (h.wf.mono (by omega))

theorem CutOkU.atm (h : CutOkU p d Wl Q ub m) : fnOf Wl m = ub :=
  h.mult m (by have := h.hp; have := h.hpm; omega) (le_refl _)

/-- the library's search finds the last copy of the split parameter -/
theorem CutOkU.span (h : CutOkU p d Wl Q ub m) : findSpanLinear p (fnOf Wl) Q.length ub = m :=
  findSpanLinear_unique p (fnOf Wl) Q.length ub h.wf.pn h.wf.mono (le_of_lt h.lo) h.hi m
    (by rw [h.atm]) h.above

/-- the un-normalised left knot function is non-decreasing -/
theorem CutOkU.leftMono (h : CutOkU p d Wl Q ub m) : Monotone (fnOf (leftKv Wl ub m)) := by
  have hlen := h.len
  have hm := h.hm
  apply monotone_nat_of_le_succ
  intro i
  by_cases h1 : i + 1 ≤ m
  · rw [fnOf_leftKv_le Wl ub m i (by omega) (by omega), fnOf_leftKv_le Wl ub m (i+1) (by omega) h1]
    exact h.wf.mono (by omega)
  · rw [fnOf_leftKv_gt Wl ub m (i+1) (by omega) (by omega)]
    by_cases h2 : i ≤ m
    · have : i = m := by omega
      rw [fnOf_leftKv_le Wl ub m i (by omega) h2, this, h.atm]
    · rw [fnOf_leftKv_gt Wl ub m i (by omega) (by omega)]

/-- the un-normalised right knot function is non-decreasing -/
theorem CutOkU.rightMono (h : CutOkU p d Wl Q ub m) : Monotone (fnOf (rightKv p Wl ub m)) := by
  have hlen := h.len
  have hm := h.hm
  have hpm := h.hpm
  apply monotone_nat_of_le_succ
  intro i
  by_cases h1 : i + 1 ≤ p
  · rw [fnOf_rightKv_le p Wl ub m i (by omega), fnOf_rightKv_le p Wl ub m (i+1) h1]
  · rw [fnOf_rightKv_gt p Wl ub m (i+1) (by omega) (by omega) (by omega)]
    by_cases h2 : i ≤ p
    · rw [fnOf_rightKv_le p Wl ub m i h2]
      have : i + 1 + (m - p) = m + 1 := by omega
      rw [this]; exact le_of_lt h.above
    · rw [fnOf_rightKv_gt p Wl ub m i (by omega) (by omega) (by omega)]
      exact h.wf.mono (by omega)

/-- the left piece (before normalisation) is a well-formed curve -/
theorem CutOkU.leftWF (h : CutOkU p d Wl Q ub m) : CurveWF p d (leftKv Wl ub m) (Q.take (m - p + 1)) := by
  have hlen := h.len; have hm := h.hm; have hpm := h.hpm; have hp := h.hp
  have hQlen : (Q.take (m - p + 1)).length = m - p + 1 := by simp; omega
  refine ⟨h.leftMono, ?_, ?_, ?_, ?_⟩
  · rw [hQlen]; simp [leftKv]; omega
  · rw [hQlen]; omega
  · rw [hQlen, fnOf_leftKv_le Wl ub m _ (by omega) (by omega), fnOf_leftKv_le Wl ub m _ (by omega) (by omega)]
    have e : m - p + 1 - 1 = m - p := by omega
    rw [e, h.mult (m - p + 1) (by omega) (by omega)]
    exact h.below
  · intro pt hpt; exact h.wf.net pt (List.mem_of_mem_take hpt)

/-- the right piece (before normalisation) is a well-formed curve -/
theorem CutOkU.rightWF (h : CutOkU p d Wl Q ub m) : CurveWF p d (rightKv p Wl ub m) (Q.drop (m - p)) := by
  have hlen := h.len; have hm := h.hm; have hpm := h.hpm; have hp := h.hp
  have hQlen : (Q.drop (m - p)).length = Q.length - (m - p) := by simp
  refine ⟨h.rightMono, ?_, ?_, ?_, ?_⟩
  · rw [hQlen]; simp [rightKv]; omega
  · rw [hQlen]; omega
  · rw [hQlen, fnOf_rightKv_gt p Wl ub m (Q.length - (m - p)) (by omega) (by omega) (by omega)]
    have e : Q.length - (m - p) + (m - p) = Q.length := by omega
    rw [e]
    by_cases hc : m + 1 = Q.length
    · have e2 : Q.length - (m - p) - 1 = p := by omega
      rw [e2, fnOf_rightKv_le p Wl ub m p (le_refl _), ← hc]
      exact h.above
    · rw [fnOf_rightKv_gt p Wl ub m _ (by omega) (by omega) (by omega)]
      have e2 : Q.length - (m - p) - 1 + (m - p) = Q.length - 1 := by omega
      rw [e2]; exact h.wf.last
  · intro pt hpt; exact h.wf.net pt (List.mem_of_mem_drop hpt)

/-- knot range of the un-normalised left piece: `[U_0, ub]` -/
theorem CutOkU.leftRange (h : CutOkU p d Wl Q ub m) :
    (leftKv Wl ub m).headD 0 = fnOf Wl 0 ∧ (leftKv Wl ub m).getLastD 0 = ub :=
  ⟨leftKv_head _ _ _ h.ne, leftKv_last Wl ub m⟩

/-- knot range of the un-normalised right piece: `[ub, U_{n+p}]` (the last knot) -/
theorem CutOkU.rightRange (h : CutOkU p d Wl Q ub m) :
    (rightKv p Wl ub m).headD 0 = ub ∧ (rightKv p Wl ub m).getLastD 0 = fnOf Wl (Q.length + p) := by
  have hlen := h.len; have hm := h.hm
  refine ⟨rightKv_head p Wl ub m, ?_⟩
  rw [rightKv_last p Wl ub m (by omega)]
  have : Wl.length - 1 = Q.length + p := by omega
  rw [this]

/-- the normalised left piece: well formed; knot values at the ends of its domain -/
theorem CutOkU.leftNorm (h : CutOkU p d Wl Q ub m) :
    CurveWF p d (knotNormalize (leftKv Wl ub m)) (Q.take (m - p + 1)) ∧
    fnOf (knotNormalize (leftKv Wl ub m)) 0 = 0 ∧
    fnOf (knotNormalize (leftKv Wl ub m)) p = (fnOf Wl p - fnOf Wl 0) / (ub - fnOf Wl 0) ∧
    (∀ i, m - p + 1 ≤ i → fnOf (knotNormalize (leftKv Wl ub m)) i = 1) := by
  have hlen := h.len; have hm := h.hm; have hpm := h.hpm; have hp := h.hp
  obtain ⟨hhead, hlast⟩ := h.leftRange
  have hrange : (leftKv Wl ub m).headD 0 < (leftKv Wl ub m).getLastD 0 := by rw [hhead, hlast]; exact h.lo0
  refine ⟨h.leftWF.normalize hrange, ?_, ?_, ?_⟩
  · rw [fnOf_knotNormalize' _ _ (leftKv_ne _ _ _), hhead, fnOf_leftKv_le Wl ub m 0 (by omega) (by omega),
      sub_self, zero_div]
  · rw [fnOf_knotNormalize' _ _ (leftKv_ne _ _ _), hhead, hlast, fnOf_leftKv_le Wl ub m p (by omega) (by omega)]
  · intro i hi
    have : fnOf (leftKv Wl ub m) i = ub := by
      by_cases c : i ≤ m
      · rw [fnOf_leftKv_le Wl ub m i (by omega) c]; exact h.mult i (by omega) c
      · exact fnOf_leftKv_gt Wl ub m i (by omega) (by omega)
    rw [fnOf_knotNormalize' _ _ (leftKv_ne _ _ _), hhead, hlast, this]
    exact div_self (ne_of_gt (sub_pos.mpr h.lo0))

/-- the normalised right piece: well formed; knot values at the ends of its domain -/
theorem CutOkU.rightNorm (h : CutOkU p d Wl Q ub m) :
    CurveWF p d (knotNormalize (rightKv p Wl ub m)) (Q.drop (m - p)) ∧
    (∀ i, i ≤ p → fnOf (knotNormalize (rightKv p Wl ub m)) i = 0) ∧
    fnOf (knotNormalize (rightKv p Wl ub m)) (Q.length - (m - p))
      = (fnOf Wl Q.length - ub) / (fnOf Wl (Q.length + p) - ub) ∧
    fnOf (knotNormalize (rightKv p Wl ub m)) (Q.length - (m - p) + p) = 1 := by
  have hlen := h.len; have hm := h.hm; have hpm := h.hpm; have hp := h.hp
  obtain ⟨hhead, hlast⟩ := h.rightRange
  have hrange : (rightKv p Wl ub m).headD 0 < (rightKv p Wl ub m).getLastD 0 := by rw [hhead, hlast]; exact h.hiLast
  refine ⟨h.rightWF.normalize hrange, ?_, ?_, ?_⟩
  · intro i hi
    rw [fnOf_knotNormalize' _ _ (rightKv_ne _ _ _ _), hhead, fnOf_rightKv_le p Wl ub m i hi, sub_self, zero_div]
  · rw [fnOf_knotNormalize' _ _ (rightKv_ne _ _ _ _), hhead, hlast,
        fnOf_rightKv_gt p Wl ub m _ (by omega) (by omega) (by omega)]
    have e : Q.length - (m - p) + (m - p) = Q.length := by omega
    rw [e]
  · rw [fnOf_knotNormalize' _ _ (rightKv_ne _ _ _ _), hhead, hlast,
        fnOf_rightKv_gt p Wl ub m _ (by omega) (by omega) (by omega)]
    have e : Q.length - (m - p) + p + (m - p) = Q.length + p := by omega
    rw [e]
    exact div_self (ne_of_gt (sub_pos.mpr h.hiLast))

end Geomdl
