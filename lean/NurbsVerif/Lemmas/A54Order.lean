import NurbsVerif.Lemmas.A54Chain

/-! Insertion order does not matter: two admissible folds of library insertions over permutations of
    the same list return the same curve; hence A5.4 as coded (descending order) returns exactly the
    control points of the specification-level model (ascending order). -/
namespace Geomdl
open Blossom
variable {K : Type} [Field K] [LinearOrder K] [IsStrictOrderedRing K]

/-- every basis function of the refined curve lives on a non-empty part of the domain -/
def SuppOk (p : ℕ) (V : List K) (n : ℕ) : Prop := ∀ i, i < n → fnOf V (max i p) < fnOf V (i + p + 1)

theorem fold_cp_order_indep (p d : ℕ) (tol : K) (U : List K) (P : List (List K)) (X Y : List K)
    (hwf : CurveWF p d U P) (hX : RefineOk p tol (U, P) X) (hY : RefineOk p tol (U, P) Y) (hperm : X.Perm Y)
    (hsupp : SuppOk p (X.foldl (insertOne p tol) (U, P)).1 (P.length + X.length)) :
    (X.foldl (insertOne p tol) (U, P)).2 = (Y.foldl (insertOne p tol) (U, P)).2 := by
  have ekv := fold_kv_order_indep p d U P X Y tol hwf hX hY hperm
  obtain ⟨w1, w2, w3⟩ := refine_fold_wf p d tol X (U, P) hwf hX
  obtain ⟨y1, _, _⟩ := refine_fold_wf p d tol Y (U, P) hwf hY
  have hlX := insert_fold_net_length p tol X (U, P)
  have hlY := insert_fold_net_length p tol Y (U, P)
  have hlen : (X.foldl (insertOne p tol) (U, P)).2.length = (Y.foldl (insertOne p tol) (U, P)).2.length := by
    rw [hlX, hlY, hperm.length_eq]
  apply list_ext_getD _ _ ([] : List K) hlen
  intro i hi
  apply pts_eq_of_coords d _ _ (ptsGet_length w1.net i hi) (ptsGet_length y1.net i (by rw [← hlen]; exact hi))
  intro jc
  -- the parameter whose span certifies control point `i`
  set Vf := (X.foldl (insertOne p tol) (U, P)).1 with hVf
  set Qf := (X.foldl (insertOne p tol) (U, P)).2 with hQf
  have hnf : Qf.length = P.length + X.length := hlX
  have hpn := w1.pn
  set u := fnOf Vf (max i p) with hu
  have hlo : fnOf U p ≤ u := by
    have : fnOf Vf p ≤ fnOf Vf (max i p) := w1.mono (le_max_right _ _)
    rw [w2] at this; exact this
  have hhi : u ≤ fnOf U P.length := by
    have : fnOf Vf (max i p) ≤ fnOf Vf Qf.length := w1.mono (by omega)
    rw [w3] at this; exact this
  have hA := findSpanLinear_spec p (fnOf Vf) Qf.length u w1.pn w1.mono (by rw [w2]; exact hlo)
  set κf := findSpanLinear p (fnOf Vf) Qf.length u with hκf
  have f2 : κf < Qf.length := hA.2.1
  have f3 : fnOf Vf κf ≤ u := hA.2.2.1
  have h2 : i ≤ κf := by
    by_contra hc
    rcases hA.2.2.2 with h | h
    · have : fnOf Vf (κf + 1) ≤ fnOf Vf (max i p) := w1.mono (by omega)
      exact absurd (lt_of_lt_of_le h this) (lt_irrefl _)
    · have h' : κf + 1 = Qf.length := h
      omega
  have h1 : κf ≤ i + p := by
    by_contra hc
    have l1 : fnOf Vf (i + p + 1) ≤ fnOf Vf κf := w1.mono (by omega)
    have l2 := hsupp i (by rw [← hnf]; exact hi)
    exact absurd (lt_of_lt_of_le l2 (le_trans l1 f3)) (lt_irrefl _)
  have eX := fold_ctrlpt_is_polar p d tol X (U, P) hwf hX u hlo hhi jc i h1 h2
  have eY := fold_ctrlpt_is_polar p d tol Y (U, P) hwf hY u hlo hhi jc i
    (by rw [← ekv, ← hlen]; exact h1) (by rw [← ekv, ← hlen]; exact h2)
  rw [← ekv] at eY
  exact eX.trans eY.symm

/-- **(b) A5.4 as coded returns exactly what the specification-level model returns** (knot vector AND
    control points), provided every basis function of the refined curve has non-empty support inside
    the domain (`SuppOk` of the refined knot vector). -/
theorem refineA54_eq_fold_of_supp (p d : ℕ) (U : List K) (P : List (List K)) (X : List K) (tol : K)
    (hwf : CurveWF p d U P) (hX : X ≠ []) (hsort : X.Pairwise (· ≤ ·))
    (hdom : ∀ x ∈ X, fnOf U p ≤ x ∧ x < fnOf U P.length) (h0 : 0 ≤ tol) (hsep : SepBy tol (U ++ X))
    (hcnt : ∀ x ∈ X, U.count x + X.count x ≤ p)
    (hsupp : SuppOk p (X.foldl (insertOne p tol) (U, P)).1 (P.length + X.length)) :
    refineA54 p U P X tol = X.foldl (insertOne p tol) (U, P) := by
  obtain ⟨ok1, ok2⟩ := refineOk_of_hyps p d U P X tol hwf hdom h0 hsep hcnt
  rw [refineA54_eq_desc_fold p d U P X tol hwf hX hsort hdom h0 hsep hcnt]
  apply Prod.ext
  · exact fold_kv_order_indep p d U P X.reverse X tol hwf ok2 ok1 (List.reverse_perm X)
  · exact (fold_cp_order_indep p d tol U P X X.reverse hwf ok1 ok2 (List.reverse_perm X).symm hsupp).symm

/-- `SuppOk` of the refined knots for a knot vector clamped at the START whose knots occur at most
    `p + 1` times: a basis function without support would need `p + 2` equal knots -/
theorem suppOk_of_clamped (p d : ℕ) (U : List K) (P : List (List K)) (X : List K) (tol : K)
    (hwf : CurveWF p d U P) (hok : RefineOk p tol (U, P) X)
    (hdom : ∀ x ∈ X, fnOf U p ≤ x) (hcnt : ∀ x ∈ X, U.count x + X.count x ≤ p)
    (hclamp : fnOf U 0 = fnOf U p) (hmult : ∀ y ∈ U, U.count y ≤ p + 1) :
    SuppOk p (X.foldl (insertOne p tol) (U, P)).1 (P.length + X.length) := by
  obtain ⟨w1, w2, w3⟩ := refine_fold_wf p d tol X (U, P) hwf hok
  have hperm := insert_fold_perm p tol X (U, P)
  have hlQ := insert_fold_net_length p tol X (U, P)
  set Vf := (X.foldl (insertOne p tol) (U, P)).1 with hVf
  have hVlen : Vf.length = P.length + X.length + p + 1 := by
    have := w1.len; rw [hlQ] at this; simpa using this
  have hUne : U ≠ [] := by
    intro e; have := hwf.len; rw [e] at this; simp at this
  have hVne : Vf ≠ [] := by intro e; rw [e] at hVlen; simp at hVlen
  -- no value occurs p + 2 times among the refined knots
  have hcountV : ∀ y, Vf.count y ≤ p + 1 := by
    intro y
    rw [hperm.count_eq, List.count_append]
    by_cases hy : y ∈ X
    · have := hcnt y hy; simp only at this ⊢; omega
    · rw [List.count_eq_zero.mpr hy]
      by_cases hyU : y ∈ U
      · have := hmult y hyU; simp only at this ⊢; omega
      · have : U.count y = 0 := List.count_eq_zero.mpr hyU
        simp only; omega
  -- the first knot of the refined vector is the first old knot
  have hV0 : fnOf Vf 0 = fnOf Vf p := by
    apply le_antisymm (w1.mono (Nat.zero_le _))
    have hmem : fnOf Vf 0 ∈ X ++ U := hperm.mem_iff.mp (fnOf_mem Vf hVne 0)
    rw [w2]
    show fnOf U p ≤ fnOf Vf 0
    rcases List.mem_append.mp hmem with h | h
    · exact hdom _ h
    · obtain ⟨n, _, e⟩ := (mem_iff_fnOf U _).mp h
      rw [← e, ← hclamp]; exact hwf.mono (Nat.zero_le _)
  intro i hi
  by_contra hc
  have hle : fnOf Vf (max i p) ≤ fnOf Vf (i + p + 1) := w1.mono (by omega)
  have heq : fnOf Vf (max i p) = fnOf Vf (i + p + 1) := le_antisymm hle (not_lt.mp hc)
  rcases Nat.lt_or_ge i p with hip | hip
  · -- i < p: the run extends to index 0
    have hmax : max i p = p := by omega
    rw [hmax] at heq
    have hrun := run_le_count Vf (fnOf Vf p) 0 (i + p + 1) (by omega) (fun t _ ht =>
      le_antisymm (by rw [heq]; exact w1.mono ht) (by rw [← hV0]; exact w1.mono (Nat.zero_le _)))
    have := hcountV (fnOf Vf p)
    omega
  · have hmax : max i p = i := by omega
    rw [hmax] at heq
    have hrun := run_le_count Vf (fnOf Vf i) i (i + p + 1) (by omega) (fun t ht1 ht2 =>
      le_antisymm (by rw [heq]; exact w1.mono ht2) (w1.mono ht1))
    have := hcountV (fnOf Vf i)
    omega

/-- **(b), clamped form**: for a well-formed curve clamped at the start whose knots occur at most
    `p + 1` times, `refineA54` (A5.4 as coded) and the fold of single insertions (A5.1) agree. -/
theorem refineA54_eq_fold (p d : ℕ) (U : List K) (P : List (List K)) (X : List K) (tol : K)
    (hwf : CurveWF p d U P) (hX : X ≠ []) (hsort : X.Pairwise (· ≤ ·))
    (hdom : ∀ x ∈ X, fnOf U p ≤ x ∧ x < fnOf U P.length) (h0 : 0 ≤ tol) (hsep : SepBy tol (U ++ X))
    (hcnt : ∀ x ∈ X, U.count x + X.count x ≤ p)
    (hclamp : fnOf U 0 = fnOf U p) (hmult : ∀ y ∈ U, U.count y ≤ p + 1) :
    refineA54 p U P X tol = X.foldl (insertOne p tol) (U, P) :=
  refineA54_eq_fold_of_supp p d U P X tol hwf hX hsort hdom h0 hsep hcnt
    (suppOk_of_clamped p d U P X tol hwf (refineOk_of_hyps p d U P X tol hwf hdom h0 hsep hcnt).1
      (fun x hx => (hdom x hx).1) hcnt hclamp hmult)

end Geomdl
