import NurbsVerif.Lemmas.DecompUnclampedMain

/-! `operations.decompose_curve`, unclamped knot vectors allowed: the step of the induction and the
    induction itself. -/
set_option linter.unusedSectionVars false
namespace Geomdl
open Blossom
variable {K : Type} [Field K] [LinearOrder K] [IsStrictOrderedRing K]

/-- one decomposition step: the result for the remainder gives the result for the curve -/
theorem decompose_step_caseU (rat : Bool) (p d : ℕ) (tol : K) (fuel : ℕ) (U : List K) (P : List (List K))
    (h : DecompWFU p d U P tol) (hn : p + 1 < P.length)
    (ih : DecompResultU rat p d tol fuel
      (knotNormalize (rightKv p (splitRefined p U P (fnOf U (p + 1)) tol).1 (fnOf U (p + 1))
        (findSpanLinear p (fnOf U) P.length (fnOf U (p + 1)) + (p - findMultiplicity (fnOf U (p + 1)) U tol))))
      ((splitRefined p U P (fnOf U (p + 1)) tol).2.drop
        (findSpanLinear p (fnOf U) P.length (fnOf U (p + 1)) + (p - findMultiplicity (fnOf U (p + 1)) U tol) - p))) :
    DecompResultU rat p d tol (fuel + 1) U P := by
  obtain ⟨hlo, hhi, hmx, hks, hs1⟩ := decomp_factsU p d U P tol h hn
  have hcut := splitRefined_cutU p d U P (fnOf U (p + 1)) tol h.wf h.hp hlo hhi hmx
  have heq := splitDir_curve_eqU rat p d U P (fnOf U (p + 1)) tol h.wf h.hp hlo hhi hmx
  obtain ⟨cA, _⟩ := split_pieces_explicitU p d U P (fnOf U (p + 1)) tol h.wf h.hp hlo hhi hmx
  have cB := remainder_curveU p d U P tol h hn
  obtain ⟨hszA, hszB⟩ := step_sizesU p d U P tol h hn
  obtain ⟨hstarts, hbreaks⟩ := step_startsU p d U P tol h hn
  have hwfB := remainder_wfU p d U P tol h hn
  obtain ⟨hW0, hWp, hWN, hWL⟩ := splitRefined_ends p d U P (fnOf U (p + 1)) tol h.wf hlo hhi hmx
  obtain ⟨wA, a0, ap, a1⟩ := hcut.leftNorm
  obtain ⟨wB, zB, bn, lB⟩ := hcut.rightNorm
  have hsp := hmx.le
  have hhiL : fnOf U (p + 1) < fnOf U (P.length + p) := lt_of_lt_of_le hhi (h.wf.mono (by omega))
  have hpos : 0 < fnOf U (P.length + p) - fnOf U (p + 1) := sub_pos.mpr hhiL
  obtain ⟨piecesB, hdec, hlenB, hsegB, hc0B, hc1B, hnormB, _, hlastB⟩ := ih
  set ub := fnOf U (p + 1) with hub
  set L := fnOf U (P.length + p) with hL
  set k := findSpanLinear p (fnOf U) P.length ub with hk
  set s := findMultiplicity ub U tol with hs
  set st := splitRefined p U P ub tol with hst
  set UA := knotNormalize (leftKv st.1 ub (k + (p - s))) with hUA
  set PA := st.2.take (k + (p - s) - p + 1) with hPA
  set UB := knotNormalize (rightKv p st.1 ub (k + (p - s))) with hUB
  set PB := st.2.drop (k + (p - s) - p) with hPB
  have hnB : PB.length = st.2.length - (k + (p - s) - p) := by simp [hPB]
  have hidx : k + (p - s) - p + 1 = p + 1 := by omega
  have hB0 : fnOf UB p = 0 := zB p (le_refl _)
  have hBn : fnOf UB PB.length = (fnOf U P.length - ub) / (L - ub) := by rw [hnB, bn, hWN, hWL]
  have hBl : fnOf UB (PB.length + p) = 1 := by rw [hnB]; exact lB
  have hfirstB : (breaks p (fnOf UB) PB.length).getD 0 0 = 0 := by
    rw [breaks_head p PB.length (fnOf UB) 0 (by have := hwfB.wf.pn; omega) hwfB.first, hB0]
  have hA1 : ∀ i, p + 1 ≤ i → fnOf UA i = 1 := fun i hi => a1 i (by omega)
  refine ⟨(UA, PA) :: piecesB, ?_, ?_, ?_, ?_, ?_, ?_, ?_, ?_⟩
  · rw [decomposeDirE_step rat p U P tol fuel h.wf.len hn _ _ hsp heq, hdec]; rfl
  · rw [hstarts]; simp [hlenB]
  · -- every piece coincides with the input on its interval
    intro i hi
    rw [hbreaks]
    cases i with
    | zero =>
      simp only [List.getD_cons_zero, List.getD_cons_succ]
      rw [getD_map_lt _ _ 0 0 0 (by rw [breaks_length]; omega), hfirstB]
      refine ⟨wA, hszA, ?_⟩
      intro t ht0 ht1 j
      have := cA t ht0 ht1 j
      rw [hidx] at this
      show (curvePoint p (fnOf UA) PA (fnOf UA p + t * (fnOf UA (p + 1) - fnOf UA p))).getD j 0 = _
      rw [this]
      unfold curveFn
      congr 2
      ring
    | succ i' =>
      simp only [List.length_cons] at hi
      have hi' : i' < piecesB.length := by omega
      simp only [List.getD_cons_succ]
      have hbl : (breaks p (fnOf UB) PB.length).length = piecesB.length + 1 := by
        rw [breaks_length, hlenB]
      rw [getD_map_lt _ _ i' 0 0 (by omega), getD_map_lt _ _ (i' + 1) 0 0 (by omega)]
      have ra := breaks_getD_range p PB.length (fnOf UB) hwfB.wf.mono (by have := hwfB.wf.pn; omega) 0 i' (by omega)
      have rb := breaks_getD_range p PB.length (fnOf UB) hwfB.wf.mono (by have := hwfB.wf.pn; omega) 0 (i' + 1) (by omega)
      rw [hB0, hBn] at ra rb
      exact segPiece_lift p d (curveFn p U P) (curveFn p UB PB) ub L _
        (fun x h0 h1 j => cB x h0 h1 j) _ _ ra rb _ (hsegB i' hi')
  · -- clamped at the start: every piece but the first, and the first if the input is
    intro i hi hc
    cases i with
    | zero =>
      rcases hc with hc | hc
      · omega
      · show fnOf UA 0 = fnOf UA p
        rw [a0, ap, hWp, hW0, hc, sub_self, zero_div]
    | succ i' =>
      simp only [List.length_cons] at hi
      simp only [List.getD_cons_succ]
      exact hc0B i' (by omega) (Or.inr (by rw [zB 0 (by omega), hB0]))
  · -- clamped at the end: every piece but the last, and the last if the input is
    intro i hi hc
    cases i with
    | zero =>
      show fnOf UA (PA.length + p) = fnOf UA PA.length
      rw [hszA, hA1 _ (by omega), hA1 _ (le_refl _)]
    | succ i' =>
      simp only [List.length_cons] at hi hc
      simp only [List.getD_cons_succ]
      apply hc1B i' (by omega)
      rcases hc with hc | hc
      · left; omega
      · right
        rw [hBl, hBn, hL, hc]
        exact (div_self (ne_of_gt (sub_pos.mpr hhi))).symm
  · -- every piece's knot range is `[0, 1]`
    intro _ i hi
    cases i with
    | zero =>
      show fnOf UA 0 = 0 ∧ fnOf UA (PA.length + p) = 1
      exact ⟨a0, by rw [hszA]; exact hA1 _ (by omega)⟩
    | succ i' =>
      simp only [List.length_cons] at hi
      simp only [List.getD_cons_succ]
      exact hnormB (Or.inr ⟨zB 0 (by omega), hBl⟩) i' (by omega)
  · intro _
    show fnOf UA p = _
    rw [ap, hWp, hW0]
  · -- the domain end of the last piece
    intro _
    have hlenpos : 1 ≤ piecesB.length := by
      rw [hlenB]; exact spanStarts_pos p _ _ hwfB.wf.pn hwfB.wf.last
    have e1 : ((UA, PA) :: piecesB).length - 1 = (piecesB.length - 1) + 1 := by
      simp only [List.length_cons]; omega
    rw [e1, List.getD_cons_succ, hbreaks, List.getD_cons_succ,
        getD_map_lt _ _ (piecesB.length - 1) 0 0 (by rw [breaks_length, ← hlenB]; omega)]
    by_cases hnB : p + 1 < PB.length
    · rw [hlastB hnB, hBn, hBl]
      have hne : L - ub ≠ 0 := ne_of_gt hpos
      have e2 : ∀ b' : K, (fnOf U P.length - (ub + b' * (L - ub))) / (L - (ub + b' * (L - ub)))
          = ((L - ub) * ((fnOf U P.length - ub) / (L - ub) - b')) / ((L - ub) * (1 - b')) := by
        intro b'
        congr 1
        · field_simp
          ring
        · ring
      rw [e2, mul_div_mul_left _ _ hne]
    · have hnB' : PB.length = p + 1 := by have := hwfB.wf.pn; omega
      have hm : piecesB.map (fun q => curveShape rat p q.1 q.2) = [curveShape rat p UB PB] := by
        have := decomposeDirE_bezier rat p UB PB tol fuel hwfB.wf.len hnB'
        rw [hdec] at this; exact Option.some.inj this
      have hl1 : piecesB.length = 1 := by simpa using congrArg List.length hm
      have hq : (piecesB.getD 0 ([], [])).1 = UB := by
        have h0 := congrArg (fun l => (l.getD 0 (curveShape rat p [] [])).kvs) hm
        simp only [List.getD_cons_zero] at h0
        rw [getD_map_lt _ piecesB 0 ([], []) _ (by omega)] at h0
        simpa [curveShape] using h0
      rw [hl1, hq, hfirstB, zero_mul, add_zero, ← hnB', hBn]

/-- **`decompose_curve` end to end, knot vector clamped or not**: with enough fuel (one less than the
    number of non-empty knot intervals suffices) the model with exceptions does not raise and returns
    exactly one single-span segment per non-empty interval, in order, each coinciding with the original
    on its interval -/
theorem decompose_curve_allU (rat : Bool) (p d : ℕ) (tol : K) : ∀ (fuel : ℕ) (U : List K) (P : List (List K)),
    DecompWFU p d U P tol → (spanStarts p (fnOf U) P.length).length ≤ fuel + 1 →
    DecompResultU rat p d tol fuel U P := by
  intro fuel
  induction fuel with
  | zero =>
    intro U P h hf
    by_cases hn : p + 1 < P.length
    · exfalso
      obtain ⟨hstarts, _⟩ := step_startsU p d U P tol h hn
      have hwfB := remainder_wfU p d U P tol h hn
      have := spanStarts_pos p _ _ hwfB.wf.pn hwfB.wf.last
      rw [hstarts] at hf
      simp only [List.length_cons, List.length_map] at hf
      omega
    · exact decompose_segment_caseU rat p d tol 0 U P h (by have := h.wf.pn; omega)
  | succ fuel ih =>
    intro U P h hf
    by_cases hn : p + 1 < P.length
    · apply decompose_step_caseU rat p d tol fuel U P h hn
      apply ih _ _ (remainder_wfU p d U P tol h hn)
      obtain ⟨hstarts, _⟩ := step_startsU p d U P tol h hn
      rw [hstarts] at hf
      simp only [List.length_cons, List.length_map] at hf
      omega
    · exact decompose_segment_caseU rat p d tol (fuel + 1) U P h (by have := h.wf.pn; omega)

end Geomdl
