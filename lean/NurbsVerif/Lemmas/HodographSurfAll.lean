import NurbsVerif.Lemmas.HodographSurf

/-! The three surfaces returned by `operations.derivative_surface` (model `derivativeSurface`). -/
namespace Geomdl
open Blossom Polynomial Finset
open scoped Polynomial.Bivariate
variable {K : Type} [Field K] [LinearOrder K] [IsStrictOrderedRing K]

/-- the surface described by constructor data, evaluated on a span pair (A3.5 model `surfacePointAt`) -/
def surfDataPointAt (s : SurfData K) (κu κv : ℕ) (u v : K) : List K :=
  surfacePointAt s.1 s.2.1 (fnOf s.2.2.1) (fnOf s.2.2.2.1) s.2.2.2.2.2.1 s.2.2.2.2.2.2 κu κv u v

/-- **`derivative_surface`: the three hodograph surfaces are `∂S/∂u`, `∂S/∂v`, `∂²S/∂u∂v`.**  Each of the
    returned surfaces, evaluated at `(u, v)` on the correspondingly shifted span pair, gives the partial
    derivative of the bivariate span polynomial of the original surface. -/
theorem derivativeSurface_true (pu pv : ℕ) (Uu Uv : List K) (su sv : ℕ) (P : List (List K)) (κu κv : ℕ) (u v : K)
    (d c : ℕ) (hpu1 : 1 ≤ pu) (hpv1 : 1 ≤ pv)
    (hpu : pu ≤ κu) (hpv : pv ≤ κv) (hκu : κu < su) (hκv : κv < sv) (hlen : P.length = su * sv) (hP : NetOk d P)
    (hUu : Uu.length = su + pu + 1) (hUv : Uv.length = sv + pv + 1)
    (hmu : Monotone (fnOf Uu)) (hmv : Monotone (fnOf Uv))
    (hspu : fnOf Uu κu < fnOf Uu (κu+1)) (hspv : fnOf Uv κv < fnOf Uv (κv+1)) :
    (surfDataPointAt (derivativeSurface pu pv Uu Uv su sv P).1 (κu - 1) κv u v).getD c 0
        = (pderivU (surfSpanPoly pu pv (fnOf Uu) (fnOf Uv) sv P κu κv c)).evalEval u v ∧
    (surfDataPointAt (derivativeSurface pu pv Uu Uv su sv P).2.1 κu (κv - 1) u v).getD c 0
        = (pderivV (surfSpanPoly pu pv (fnOf Uu) (fnOf Uv) sv P κu κv c)).evalEval u v ∧
    (surfDataPointAt (derivativeSurface pu pv Uu Uv su sv P).2.2 (κu - 1) (κv - 1) u v).getD c 0
        = (pderivU (pderivV (surfSpanPoly pu pv (fnOf Uu) (fnOf Uv) sv P κu κv c))).evalEval u v := by
  have hu1 : ∀ i, κu + 1 ≤ i + pu → i + 2 * 1 ≤ κu + pu → fnOf (kvInner Uu) i = fnOf Uu (i + 1) :=
    fun i _ h2 => kvInner_get Uu i (by omega)
  have hv1 : ∀ i, κv + 1 ≤ i + pv → i + 2 * 1 ≤ κv + pv → fnOf (kvInner Uv) i = fnOf Uv (i + 1) :=
    fun i _ h2 => kvInner_get Uv i (by omega)
  have hu0 : ∀ i, κu + 1 ≤ i + pu → i + 2 * 0 ≤ κu + pu → fnOf Uu i = fnOf Uu (i + 0) := fun i _ _ => rfl
  have hv0 : ∀ i, κv + 1 ≤ i + pv → i + 2 * 0 ≤ κv + pv → fnOf Uv i = fnOf Uv (i + 0) := fun i _ _ => rfl
  have h10 := derivSurface_true pu pv (fnOf Uu) (fnOf Uv) (fnOf (kvInner Uu)) (fnOf Uv) su sv P κu κv u v d c 2 1 0
    hpu hpv hκu hκv hlen hP hmu hmv hspu hspv (by omega) (by omega) hu1 hv0
  have h01 := derivSurface_true pu pv (fnOf Uu) (fnOf Uv) (fnOf Uu) (fnOf (kvInner Uv)) su sv P κu κv u v d c 2 0 1
    hpu hpv hκu hκv hlen hP hmu hmv hspu hspv (by omega) (by omega) hu0 hv1
  have h11 := derivSurface_true pu pv (fnOf Uu) (fnOf Uv) (fnOf (kvInner Uu)) (fnOf (kvInner Uv)) su sv P κu κv u v d c 2 1 1
    hpu hpv hκu hκv hlen hP hmu hmv hspu hspv (by omega) (by omega) hu1 hv1
  simp only [Function.iterate_one, Function.iterate_zero, id_eq, Nat.sub_zero] at h10 h01 h11
  exact ⟨h10, h01, h11⟩

end Geomdl
