import NurbsVerif.Lemmas.SurfDerivBasis

/-! The mathematics behind A3.7 / A3.8: iterated scaled differences (`dIter`, the control points of the
    derivative of a span) are linear in the control sequence, depend on a window of it only, are
    invariant under a shift of the knot vector, and summed against the basis functions of the lower
    degree they give the derivative of the span polynomial – in one and in two directions. -/
namespace Geomdl
open Blossom Polynomial Finset
variable {K : Type} [Field K] [LinearOrder K] [IsStrictOrderedRing K]

/-- `dIter … k c m` reads `c` on the window `[m - k, m]` only -/
theorem dIter_congr (U : ℕ → K) (p : ℕ) : ∀ (k : ℕ) (c c' : ℕ → K) (m : ℕ),
    (∀ x, m - k ≤ x → x ≤ m → c x = c' x) → dIter U p k c m = dIter U p k c' m := by
  intro k
  induction k with
  | zero => intro c c' m h; exact h m (by omega) (le_refl _)
  | succ k ih =>
    intro c c' m h
    simp only [dIter, dscal]
    rw [ih c c' m (fun x h1 h2 => h x (by omega) h2), ih c c' (m-1) (fun x h1 h2 => h x (by omega) (by omega))]

/-- linearity in the control sequence -/
theorem dIter_sum {ι : Type} (U : ℕ → K) (p : ℕ) (s : Finset ι) (a : ι → K) (c : ι → ℕ → K) : ∀ (k m : ℕ),
    dIter U p k (fun y => ∑ j ∈ s, a j * c j y) m = ∑ j ∈ s, a j * dIter U p k (c j) m := by
  intro k
  induction k with
  | zero => intro m; rfl
  | succ k ih =>
    intro m
    simp only [dIter, dscal]
    rw [ih m, ih (m-1), div_eq_mul_inv, ← Finset.sum_sub_distrib, Finset.sum_mul, Finset.mul_sum]
    apply Finset.sum_congr rfl
    intro j _
    ring

/-- a shifted knot vector (`kv[a:]`) with the correspondingly shifted control sequence gives the same
    differences -/
theorem dIter_knotShift (U U' : ℕ → K) (a p : ℕ) (hU : ∀ x, U' x = U (a + x)) : ∀ (k : ℕ) (c c' : ℕ → K) (m : ℕ),
    k ≤ m → (∀ x, m - k ≤ x → x ≤ m → c' x = c (a + x)) → dIter U' p k c' m = dIter U p k c (a + m) := by
  intro k
  induction k with
  | zero => intro c c' m _ h; exact h m (by omega) (le_refl _)
  | succ k ih =>
    intro c c' m hkm h
    simp only [dIter, dscal]
    rw [ih c c' m (by omega) (fun x h1 h2 => h x (by omega) h2),
      ih c c' (m-1) (by omega) (fun x h1 h2 => h x (by omega) (by omega)), hU, hU]
    have e1 : a + (m - 1) = a + m - 1 := by omega
    have e2 : a + (m + (p - k)) = a + m + (p - k) := by omega
    rw [e1, e2]

/-- the span polynomial of a control sequence is the combination of the basis polynomials of the span -/
theorem polP_eq_sum_basis (p : ℕ) (U : ℕ → K) (c : ℕ → K) (κ : ℕ) (hp : p ≤ κ) :
    polP U p p (fun m => C (c m)) κ = ∑ r ∈ range (p+1), C (c (κ - p + r)) * basisSpanPoly p U κ r := by
  unfold basisSpanPoly
  have : ∀ r, C (c (κ - p + r)) * polP U p p (fun m => C (if m = κ - p + r then (1:K) else 0)) κ
      = polP U p p (fun m => C (c (κ - p + r)) * C (if m = κ - p + r then (1:K) else 0)) κ := by
    intro r; rw [polP_smul]
  simp only [this]
  rw [← polP_finset_sum]
  apply polP_congr
  intro m hm1 hm2
  rw [Finset.sum_eq_single (m - (κ - p))]
  · rw [if_pos (by omega), C_1, mul_one]
    congr 2
    omega
  · intro b _ hb
    rw [if_neg (by omega), C_0, mul_zero]
  · intro h; exfalso; apply h; rw [Finset.mem_range]; omega

/-- **A3.3/A3.4 for a control sequence**: the `k`-fold differences summed against the basis functions of
    degree `p - k` of the same span are the `k`-th derivatives of the basis polynomials against the
    control values -/
theorem dIter_basis_sum (p : ℕ) (U : ℕ → K) (κ : ℕ) (u : K) (c : ℕ → K) (k : ℕ)
    (hp : p ≤ κ) (hsep : Sep U κ) (hk : k ≤ p) :
    ∑ r ∈ range (p - k + 1), (basisFuns (p - k) U κ u).getD r 0 * dIter U p k c (κ - p + k + r)
      = ∑ r ∈ range (p+1), c (κ - p + r) * eval u (derivative^[k] (basisSpanPoly p U κ r)) := by
  have hR : ∑ r ∈ range (p+1), c (κ - p + r) * eval u (derivative^[k] (basisSpanPoly p U κ r))
      = eval u (derivative^[k] (polP U p p (fun m => C (c m)) κ)) := by
    rw [polP_eq_sum_basis p U c κ hp, iterate_derivative_sum, eval_finsetSum]
    apply Finset.sum_congr rfl
    intro r _
    rw [iterate_derivative_C_mul, eval_mul, eval_C]
  rw [hR, iterate_derivative_spanPoly U κ p hsep hp c k hk, eval_polP]
  simp only [eval_C]
  rw [← diag U κ u (p - k) (by omega), wsum_eq_sum, Blossom.basisFuns_length]
  apply Finset.sum_congr rfl
  intro r _
  congr 2
  omega

/-- **A3.7/A3.8 for a control net**: differences in `u` then in `v`, summed against the basis functions of
    degrees `pu - k`, `pv - l`, give the mixed derivative of the tensor-product span -/
theorem dIter2_basis_sum (pu pv : ℕ) (Uu Uv : ℕ → K) (κu κv : ℕ) (u v : K) (Pc : ℕ → ℕ → K) (k l : ℕ)
    (hpu : pu ≤ κu) (hpv : pv ≤ κv) (hsu : Sep Uu κu) (hsv : Sep Uv κv) (hk : k ≤ pu) (hl : l ≤ pv) :
    ∑ i ∈ range (pv - l + 1), (basisFuns (pv - l) Uv κv v).getD i 0 *
        ∑ j ∈ range (pu - k + 1), (basisFuns (pu - k) Uu κu u).getD j 0 *
          dIter Uv pv l (fun y => dIter Uu pu k (fun x => Pc x y) (κu - pu + k + j)) (κv - pv + l + i)
      = ∑ r ∈ range (pu+1), ∑ s ∈ range (pv+1), Pc (κu - pu + r) (κv - pv + s)
          * (eval u (derivative^[k] (basisSpanPoly pu Uu κu r)) * eval v (derivative^[l] (basisSpanPoly pv Uv κv s))) := by
  have h1 : ∀ i, ∑ j ∈ range (pu - k + 1), (basisFuns (pu - k) Uu κu u).getD j 0 *
          dIter Uv pv l (fun y => dIter Uu pu k (fun x => Pc x y) (κu - pu + k + j)) (κv - pv + l + i)
      = dIter Uv pv l (fun y => ∑ r ∈ range (pu+1), Pc (κu - pu + r) y
          * eval u (derivative^[k] (basisSpanPoly pu Uu κu r))) (κv - pv + l + i) := by
    intro i
    rw [← dIter_sum]
    congr 1
    funext y
    exact dIter_basis_sum pu Uu κu u (fun x => Pc x y) k hpu hsu hk
  simp only [h1]
  rw [dIter_basis_sum pv Uv κv v _ l hpv hsv hl, Finset.sum_comm]
  apply Finset.sum_congr rfl
  intro s _
  rw [Finset.sum_mul]
  apply Finset.sum_congr rfl
  intro r _
  ring

end Geomdl
