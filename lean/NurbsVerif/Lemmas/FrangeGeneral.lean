import NurbsVerif.Lemmas.PredicatesVoxel
import Mathlib.Order.Nat

/-!
C20, `linalg.frange` for an arbitrary stop value: the generator yields `start, start + step, …,
start + n·step` – `n` the first index with `stop ≤ start + n·step + step/2` – followed by `stop`
itself if the last value is still below it.
-/
namespace Geomdl
variable {K : Type} [Field K] [LinearOrder K] [IsStrictOrderedRing K]

theorem frangeLoop_general (x0 stop step : K) (n : ℕ)
    (hlt : ∀ j, j < n → x0 + (j : K) * step + step / 2 < stop)
    (hge : stop ≤ x0 + (n : K) * step + step / 2) : ∀ (k i : ℕ), i + k = n → ∀ f, k + 1 ≤ f →
    frangeLoop x0 stop step f i (x0 + (i : K) * step)
      = some ((List.range' (i + 1) k).map (fun (j : ℕ) => x0 + (j : K) * step)
          ++ (if x0 + (n : K) * step < stop then [stop] else [])) := by
  intro k
  induction k with
  | zero =>
    intro i hi f hf
    obtain ⟨f', rfl⟩ : ∃ f', f = f' + 1 := ⟨f - 1, by omega⟩
    have : i = n := by omega
    subst this
    rw [frangeLoop_succ]
    have h1 : ¬ (x0 + (i : K) * step + step / ((2 : ℕ) : K) < stop) := by
      push_cast; exact not_lt.mpr hge
    rw [if_neg h1]; simp
  | succ k ih =>
    intro i hi f hf
    obtain ⟨f', rfl⟩ : ∃ f', f = f' + 1 := ⟨f - 1, by omega⟩
    rw [frangeLoop_succ]
    have h1 : x0 + (i : K) * step + step / ((2 : ℕ) : K) < stop := by
      push_cast; exact hlt i (by omega)
    rw [if_pos h1]
    have := ih (i + 1) (by omega) f' (by omega)
    rw [this]
    simp [List.range'_succ]

/-- **Values of `frange`.**  With `n` the first index at which the loop test
    `x + step/2 < stop` fails, `frange` (fuel ≥ `n + 1`) returns `start + j·step` for `j = 0..n`,
    followed by `stop` when `start + n·step < stop`. -/
theorem frange_general (start stop step : K) (n fuel : ℕ)
    (hlt : ∀ j, j < n → start + (j : K) * step + step / 2 < stop)
    (hge : stop ≤ start + (n : K) * step + step / 2) (hf : n + 1 ≤ fuel) :
    frange start stop step fuel
      = some ((List.range (n + 1)).map (fun (j : ℕ) => start + (j : K) * step)
          ++ (if start + (n : K) * step < stop then [stop] else [])) := by
  unfold frange
  have h := frangeLoop_general start stop step n hlt hge n 0 (by omega) fuel hf
  simp only [Nat.cast_zero, zero_mul, add_zero] at h
  rw [h]
  simp [List.range_eq_range', List.range'_succ]

/-- for a positive step in an Archimedean field such an `n` exists: `frange` terminates and its
    values are the arithmetic progression from `start`, closed by `stop` -/
theorem frange_general_arch [Archimedean K] (start stop step : K) (hs : 0 < step) :
    ∃ n : ℕ, ∀ fuel, n + 1 ≤ fuel → frange start stop step fuel
      = some ((List.range (n + 1)).map (fun (j : ℕ) => start + (j : K) * step)
          ++ (if start + (n : K) * step < stop then [stop] else [])) := by
  classical
  have hex : ∃ n : ℕ, stop ≤ start + (n : K) * step + step / 2 := by
    obtain ⟨N, hN⟩ := exists_nat_gt ((stop - start) / step)
    rw [div_lt_iff₀ hs] at hN
    exact ⟨N, by linarith⟩
  refine ⟨Nat.find hex, fun fuel hf => frange_general start stop step _ fuel ?_ (Nat.find_spec hex) hf⟩
  intro j hj
  exact not_le.mp (Nat.find_min hex hj)

end Geomdl
