import NurbsVerif.Lemmas.LengthCut
import NurbsVerif.Lemmas.HullRat
import Mathlib.Tactic.FieldSimp

/-!
  C18, length bounds for RATIONAL curves, part 1: **knot insertion on the homogeneous control points is
  corner cutting on the projected (Cartesian) control points**, so it never lengthens the projected
  control polygon.

  If a homogeneous point is the combination `Hq = α H₁ + (1-α) H₀` (`0 ≤ α ≤ 1`) of two homogeneous points
  with positive weights `w₁, w₀`, its weight `α w₁ + (1-α) w₀` is positive and its projection is the convex
  combination `β · project H₁ + (1-β) · project H₀` with `β = α w₁ / (α w₁ + (1-α) w₀) ∈ [0, 1]`
  (`project_comb`).  `corner_cut_sum_rat` feeds this into the abstract corner-cutting lemma
  `corner_cut_sum`; `insert_level_le_rat` instantiates it with the passage from `m` to `m+1` copies in the model
  of `helpers.knot_insertion` (the same `insert_level_comb` as in the non-rational development, applied
  to all `d+1` homogeneous coordinates); `knotInsertion_polygon_le_rat` / `insert_sequence_polygon_le_rat`
  are the statements for `r` copies and for admissible sequences, each together with "all weights stay
  positive" (`WtPos`).
-/
namespace Geomdl
open Finset Blossom
variable {K : Type} [Field K] [LinearOrder K] [IsStrictOrderedRing K]

/-- all weights (coordinate `d` of the homogeneous points) of the net are positive -/
def WtPos (d : ℕ) (Pw : List (List K)) : Prop := ∀ i, i < Pw.length → 0 < (ptsGet Pw i).getD d 0

/-- coordinates of a projected point beyond the dimension read the default `0` -/
theorem project_getD_ge (pt : List K) (d j : ℕ) (hlen : pt.length = d + 1) (hj : d ≤ j) :
    (project pt).getD j 0 = 0 := by
  rw [List.getD_eq_getElem?_getD, List.getElem?_eq_none (by rw [project_length pt d hlen]; exact hj)]
  rfl

/-- **Projection of a convex combination of two homogeneous points with positive weights**: the weight is
    positive, the coefficient `β = α w₁ / w_q` lies in `[0, 1]`, and the projected point is the
    `β`-combination of the two projected points. -/
theorem project_comb (d : ℕ) (H0 H1 Hq : List K) (a : K) (h0 : H0.length = d + 1) (h1 : H1.length = d + 1)
    (hq : Hq.length = d + 1) (ha0 : 0 ≤ a) (ha1 : a ≤ 1) (w0 : 0 < H0.getD d 0) (w1 : 0 < H1.getD d 0)
    (e : ∀ j, Hq.getD j 0 = a * H1.getD j 0 + (1 - a) * H0.getD j 0) :
    0 < Hq.getD d 0 ∧ 0 ≤ a * H1.getD d 0 / Hq.getD d 0 ∧ a * H1.getD d 0 / Hq.getD d 0 ≤ 1 ∧
    ∀ j, (project Hq).getD j 0 = a * H1.getD d 0 / Hq.getD d 0 * (project H1).getD j 0
        + (1 - a * H1.getD d 0 / Hq.getD d 0) * (project H0).getD j 0 := by
  have hwq : 0 < Hq.getD d 0 := by
    rw [e d]
    rcases lt_or_eq_of_le ha0 with hpos | hz
    · have := mul_pos hpos w1
      have := mul_nonneg (show 0 ≤ 1 - a by linarith) (le_of_lt w0)
      linarith
    · rw [← hz]; simpa using w0
  refine ⟨hwq, div_nonneg (mul_nonneg ha0 (le_of_lt w1)) (le_of_lt hwq), ?_, ?_⟩
  · rw [div_le_one hwq, e d]
    have := mul_nonneg (show 0 ≤ 1 - a by linarith) (le_of_lt w0)
    linarith
  · intro j
    by_cases hj : j < d
    · rw [project_getD Hq d j hq hj, project_getD H1 d j h1 hj, project_getD H0 d j h0 hj, e j]
      have hq' : Hq.getD d 0 ≠ 0 := ne_of_gt hwq
      have h1' : H1.getD d 0 ≠ 0 := ne_of_gt w1
      have h0' : H0.getD d 0 ≠ 0 := ne_of_gt w0
      have hsub : 1 - a * H1.getD d 0 / Hq.getD d 0 = (1 - a) * H0.getD d 0 / Hq.getD d 0 := by
        rw [eq_div_iff hq', sub_mul, div_mul_cancel₀ _ hq', one_mul, e d]
        ring
      rw [hsub]
      field_simp
    · rw [project_getD_ge Hq d j hq (by omega), project_getD_ge H1 d j h1 (by omega),
        project_getD_ge H0 d j h0 (by omega)]
      ring

section abstract
variable {d : ℕ} {N : List K → K}

/-- **Corner cutting on homogeneous points does not lengthen the projected polygon** (vertex sequences
    as functions of the index, all old weights positive); the new weights are positive. -/
theorem corner_cut_sum_rat (hN : IsSeminorm d N) (Hf Gf : ℕ → List K) (α : ℕ → K)
    (hH : ∀ i, (Hf i).length = d + 1) (hG : ∀ i, (Gf i).length = d + 1)
    (hw : ∀ i, 0 < (Hf i).getD d 0) (h0 : ∀ i, 0 ≤ α i) (h1 : ∀ i, α i ≤ 1)
    (hcomb : ∀ i j, (Gf i).getD j 0 = α i * (Hf i).getD j 0 + (1 - α i) * (Hf (i - 1)).getD j 0) (m : ℕ) :
    (∀ i, 0 < (Gf i).getD d 0) ∧
    ∑ i ∈ range m, N (vsub (project (Gf (i + 1))) (project (Gf i)))
      ≤ ∑ i ∈ range m, N (vsub (project (Hf (i + 1))) (project (Hf i))) := by
  have pc := fun i => project_comb d (Hf (i - 1)) (Hf i) (Gf i) (α i) (hH _) (hH _) (hG _) (h0 i) (h1 i)
    (hw _) (hw _) (hcomb i)
  refine ⟨fun i => (pc i).1, ?_⟩
  exact corner_cut_sum hN (fun i => project (Hf i)) (fun i => project (Gf i))
    (fun i => α i * (Hf i).getD d 0 / (Gf i).getD d 0)
    (fun i => project_length _ d (hH i)) (fun i => project_length _ d (hG i))
    (fun i => (pc i).2.1) (fun i => (pc i).2.2.1) (fun i j => (pc i).2.2.2 j) m

end abstract

/-! ### the passage from `m` to `m + 1` copies, projected -/

section level
open RemInv
variable (U : ℕ → K) (u : K) (Pw : List (List K)) (k p s d : ℕ)
variable (hP : NetOk (d + 1) Pw) (hpk : p ≤ k) (hk : k < Pw.length)
include hP hpk hk

/-- **one more copy of the knot does not lengthen the projected control polygon**, and keeps all
    weights positive -/
theorem insert_level_le_rat {N : List K → K} (hN : IsSeminorm d N) (hm : Monotone U) (h1 : U k ≤ u) (h2 : u < U (k + 1))
    (m : ℕ) (hms : m + 1 + s ≤ p) (hw : WtPos d (knotInsertion p U Pw u m s k)) :
    WtPos d (knotInsertion p U Pw u (m + 1) s k) ∧
    polylineLength (distN N) ((knotInsertion p U Pw u (m + 1) s k).map project)
      ≤ polylineLength (distN N) ((knotInsertion p U Pw u m s k).map project) := by
  have hn : 1 ≤ Pw.length := by omega
  rw [WtPos, knotInsertion_length] at hw
  obtain ⟨hpos, hcut⟩ := corner_cut_sum_rat hN
    (fun i => Q U u Pw k p s m (min i (Pw.length + m - 1)))
    (fun i => Q U u Pw k p s (m + 1) (min i (Pw.length + m)))
    (cutAlpha U u k p s m)
    (fun i => Q_len U u Pw k p s (d + 1) hP hpk hk m _ (by omega) (by omega))
    (fun i => Q_len U u Pw k p s (d + 1) hP hpk hk (m + 1) _ (by omega) (by omega))
    (fun i => hw _ (by omega))
    (fun i => (cutAlpha_mem U u k p s m i hm h1 h2 hpk).1)
    (fun i => (cutAlpha_mem U u k p s m i hm h1 h2 hpk).2)
    (fun i j => insert_level_comb U u Pw k p s (d + 1) hP hpk hk m hms i j)
    (Pw.length + m)
  constructor
  · intro i hi
    rw [knotInsertion_length] at hi
    have := hpos i
    rw [Nat.min_eq_left (by omega)] at this
    exact this
  rw [polylineLength_eq_sum, polylineLength_eq_sum, List.length_map, List.length_map, knotInsertion_length,
    knotInsertion_length]
  have e1 : Pw.length + (m + 1) - 1 = Pw.length + m := by omega
  rw [e1]
  have lhs : ∑ i ∈ range (Pw.length + m), distN N (ptsGet ((knotInsertion p U Pw u (m + 1) s k).map project) i)
        (ptsGet ((knotInsertion p U Pw u (m + 1) s k).map project) (i + 1))
      = ∑ i ∈ range (Pw.length + m), N (vsub (project (Q U u Pw k p s (m + 1) (min (i + 1) (Pw.length + m))))
          (project (Q U u Pw k p s (m + 1) (min i (Pw.length + m))))) := by
    apply Finset.sum_congr rfl
    intro i hi
    rw [Finset.mem_range] at hi
    rw [Nat.min_eq_left (by omega), Nat.min_eq_left (by omega),
      ptsGet_map_project _ _ (by rw [knotInsertion_length]; omega),
      ptsGet_map_project _ _ (by rw [knotInsertion_length]; omega)]
    rfl
  have rhs : ∑ i ∈ range (Pw.length + m), N (vsub (project (Q U u Pw k p s m (min (i + 1) (Pw.length + m - 1))))
          (project (Q U u Pw k p s m (min i (Pw.length + m - 1)))))
      = ∑ i ∈ range (Pw.length + m - 1), distN N (ptsGet ((knotInsertion p U Pw u m s k).map project) i)
        (ptsGet ((knotInsertion p U Pw u m s k).map project) (i + 1)) := by
    obtain ⟨t, ht⟩ : ∃ t, Pw.length + m = t + 1 := ⟨Pw.length + m - 1, by omega⟩
    rw [ht, Finset.sum_range_succ, Nat.add_sub_cancel]
    have z : N (vsub (project (Q U u Pw k p s m (min (t + 1) t))) (project (Q U u Pw k p s m (min t t)))) = 0 := by
      rw [Nat.min_eq_right (by omega), Nat.min_self]
      exact hN.vsub_self _ (project_length _ d (Q_len U u Pw k p s (d + 1) hP hpk hk m t (by omega) (by omega)))
    rw [z, add_zero]
    apply Finset.sum_congr rfl
    intro i hi
    rw [Finset.mem_range] at hi
    rw [Nat.min_eq_left (by omega), Nat.min_eq_left (by omega),
      ptsGet_map_project _ _ (by rw [knotInsertion_length]; omega),
      ptsGet_map_project _ _ (by rw [knotInsertion_length]; omega)]
    rfl
  rw [lhs, ← rhs]
  exact hcut

/-- **Knot insertion does not lengthen the projected control polygon** of a rational curve with positive
    weights: `r` copies of `u` inserted into the span `k` (`U k ≤ u < U (k+1)`, `r + s ≤ p`) by the model
    of `helpers.knot_insertion` applied to the homogeneous points; all new weights are positive -/
theorem knotInsertion_polygon_le_rat {N : List K → K} (hN : IsSeminorm d N) (hm : Monotone U) (h1 : U k ≤ u)
    (h2 : u < U (k + 1)) (hw : WtPos d Pw) : ∀ r, r + s ≤ p →
    WtPos d (knotInsertion p U Pw u r s k) ∧
    polylineLength (distN N) ((knotInsertion p U Pw u r s k).map project)
      ≤ polylineLength (distN N) (Pw.map project) := by
  intro r
  induction r with
  | zero => intro _; rw [knotInsertion_zero p U Pw u s k hpk]; exact ⟨hw, le_refl _⟩
  | succ r ih =>
    intro hrs
    obtain ⟨w', l'⟩ := ih (by omega)
    obtain ⟨w'', l''⟩ := insert_level_le_rat U u Pw k p s d hP hpk hk hN hm h1 h2 r (by omega) w'
    exact ⟨w'', le_trans l'' l'⟩

end level

/-! ### object level: the span the library finds; sequences of insertions -/

/-- one admissible insertion request does not lengthen the projected control polygon and keeps the
    weights positive -/
theorem insStep_polygon_le_rat {N : List K → K} {d : ℕ} (hN : IsSeminorm d N) (p : ℕ) (st : List K × List (List K))
    (req : K × ℕ × ℕ) (h : CurveWF p (d + 1) st.1 st.2) (hw : WtPos d st.2) (hr : ReqOk p st req) :
    WtPos d (insStep p st req).2 ∧
    polylineLength (distN N) ((insStep p st req).2.map project) ≤ polylineLength (distN N) (st.2.map project) := by
  obtain ⟨hub1, hub2, _, _, hrs⟩ := hr
  obtain ⟨k1, k2, k3, k4⟩ := findSpanLinear_spec p (fnOf st.1) st.2.length req.1 h.pn h.mono hub1
  have hk2 : req.1 < fnOf st.1 (findSpanLinear p (fnOf st.1) st.2.length req.1 + 1) := by
    rcases k4 with h' | h'
    · exact h'
    · rw [h']; exact hub2
  exact knotInsertion_polygon_le_rat (fnOf st.1) req.1 st.2 _ p req.2.2 d h.net k1 k2 hN h.mono k3 hk2 hw req.2.1 hrs

/-- **no admissible sequence of knot insertions lengthens the projected control polygon**; the weights
    stay positive -/
theorem insert_sequence_polygon_le_rat {N : List K → K} {d : ℕ} (hN : IsSeminorm d N) (p : ℕ) (reqs : List (K × ℕ × ℕ)) :
    ∀ (st : List K × List (List K)), CurveWF p (d + 1) st.1 st.2 → WtPos d st.2 → ReqsOk p st reqs →
      WtPos d (reqs.foldl (insStep p) st).2 ∧
      polylineLength (distN N) ((reqs.foldl (insStep p) st).2.map project)
        ≤ polylineLength (distN N) (st.2.map project) := by
  induction reqs with
  | nil => intro st _ hw _; exact ⟨hw, le_refl _⟩
  | cons q qs ih =>
    intro st hwf hw hok
    obtain ⟨hq, hqs⟩ := hok
    simp only [List.foldl_cons]
    obtain ⟨w1, l1⟩ := insStep_polygon_le_rat hN p st q hwf hw hq
    obtain ⟨w2, l2⟩ := ih _ (insStep_wf p (d + 1) st q hwf hq).1 w1 hqs
    exact ⟨w2, le_trans l2 l1⟩

end Geomdl
