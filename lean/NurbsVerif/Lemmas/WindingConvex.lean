import NurbsVerif.Lemmas.Winding
import NurbsVerif.Lemmas.Hull2D

/-!
C20, `wn_poly`: inside ⟹ counter ≥ 1, the characterisation for convex counter-clockwise polygons,
and the composition with `convex_hull`.
-/
namespace Geomdl
variable {K : Type} [Field K] [LinearOrder K] [IsStrictOrderedRing K]

theorem IsCone.swap {pos : K → K → Prop} (hc : IsCone pos) : IsCone (fun x y => pos y x) where
  add := fun h h' => hc.add h h'
  smul := fun ht h => hc.smul ht h
  tri := by
    intro x y
    rcases hc.tri y x with h | ⟨h1, h2⟩ | h
    · exact Or.inl h
    · exact Or.inr (Or.inl ⟨h2, h1⟩)
    · exact Or.inr (Or.inr h)
  irrefl := hc.irrefl

section angular
variable {pos : K → K → Prop} (hc : IsCone pos)
include hc

/-- seen from `pt`, "strictly counter-clockwise of" is transitive inside a half-plane cone -/
theorem angular_trans {pt a b c : K × K} (ha : clt pos pt a) (hb : clt pos pt b) (hcc : clt pos pt c)
    (h1 : 0 < isLeft pt a b) (h2 : 0 < isLeft pt b c) : 0 < isLeft pt a c := by
  refine hc.key_lt (c := isLeft pt a c) (α := isLeft pt a b) (β := isLeft pt b c) hb hcc (Or.inl ha)
    h1 (le_of_lt h2) ?_ ?_
  · unfold isLeft; ring
  · unfold isLeft; ring

theorem angular_chain (pt a0 : K × K) (ha0 : clt pos pt a0) : ∀ (l : List (K × K)) (a : K × K),
    (∀ v ∈ a :: l, clt pos pt v) → (a0 = a ∨ 0 < isLeft pt a0 a) →
    (∀ e ∈ pairs (a :: l), 0 < isLeft pt e.1 e.2) → ∀ v ∈ l, 0 < isLeft pt a0 v
  | [], _, _, _, _, v, hv => by simp at hv
  | b :: l, a, hin, h0, he, v, hv => by
    have hab : 0 < isLeft pt a b := he (a, b) (by simp [pairs])
    have h0b : 0 < isLeft pt a0 b := by
      rcases h0 with rfl | h0
      · exact hab
      · exact angular_trans hc ha0 (hin a (by simp)) (hin b (by simp)) h0 hab
    rcases List.mem_cons.mp hv with rfl | hv
    · exact h0b
    · exact angular_chain pt a0 ha0 l b (fun v hv => hin v (List.mem_cons_of_mem _ hv)) (Or.inr h0b)
        (fun e he' => he e (by simp [pairs, he'])) v hv

/-- no closed polygon inside a half-plane cone seen from `pt` has `pt` strictly left of all edges -/
theorem no_closed_in_cone (pt : K × K) (poly : List (K × K)) (hclosed : poly.head? = poly.getLast?)
    (hlen : 2 ≤ poly.length) (hin : ∀ v ∈ poly, clt pos pt v)
    (he : ∀ e ∈ pairs poly, 0 < isLeft pt e.1 e.2) : False := by
  match poly, hclosed, hlen, hin, he with
  | [], _, hlen, _, _ => simp at hlen
  | [_], _, hlen, _, _ => simp at hlen
  | v0 :: b :: l, hclosed, _, hin, he =>
    have hmem : v0 ∈ b :: l := by
      have : (b :: l).getLast? = some v0 := by
        rw [← List.getLast?_cons_cons (a := v0), ← hclosed]; rfl
      exact List.mem_of_getLast? this
    have := angular_chain hc pt v0 (hin v0 (by simp)) (b :: l) v0 hin (Or.inl rfl) he v0 hmem
    have e : isLeft pt v0 v0 = 0 := by unfold isLeft; ring
    rw [e] at this
    exact lt_irrefl _ this

end angular

theorem mem_has_succ {α : Type} (v : α) : ∀ (l : List α), v ∈ l → (∃ b, (v, b) ∈ pairs l) ∨ l.getLast? = some v
  | [], h => by simp at h
  | [a], h => by
    rw [List.mem_singleton] at h; subst h; right; rfl
  | a :: b :: rest, h => by
    rcases List.mem_cons.mp h with rfl | h
    · left; exact ⟨b, by simp [pairs]⟩
    · rcases mem_has_succ v (b :: rest) h with ⟨c, hc⟩ | hl
      · left; exact ⟨c, by simp [pairs, hc]⟩
      · right; rw [List.getLast?_cons_cons]; exact hl

theorem closed_has_succ {α : Type} (v : α) (poly : List α) (hclosed : poly.head? = poly.getLast?)
    (hlen : 2 ≤ poly.length) (hv : v ∈ poly) : ∃ b, (v, b) ∈ pairs poly := by
  rcases mem_has_succ v poly hv with h | h
  · exact h
  · match poly, hclosed, hlen, h with
    | [], _, hlen, _ => simp at hlen
    | [_], _, hlen, _ => simp at hlen
    | a :: b :: l, hclosed, _, h =>
      rw [← hclosed] at h
      simp only [List.head?_cons, Option.some.injEq] at h
      subst h
      exact ⟨b, by simp [pairs]⟩

/-- **Inside.**  A point strictly left of every edge of a closed polygon (with at least one edge) has
    winding counter at least 1 – no convexity assumption. -/
theorem wnNum_inside (pt : K × K) (poly : List (K × K)) (hclosed : poly.head? = poly.getLast?)
    (hlen : 2 ≤ poly.length) (he : ∀ e ∈ pairs poly, 0 < isLeft e.1 e.2 pt) : 1 ≤ wnNum pt poly := by
  by_cases hup : ∃ e ∈ pairs poly, e.1.2 ≤ pt.2 ∧ pt.2 < e.2.2
  · exact wnNum_inside_pos pt poly he hup
  exfalso
  have he' : ∀ e ∈ pairs poly, 0 < isLeft pt e.1 e.2 := by
    intro e h; rw [← isLeft_cyclic]; exact he e h
  by_cases hA : ∀ v ∈ poly, pt.2 < v.2
  · -- all vertices strictly above `pt`
    refine no_closed_in_cone (lexPos_isCone (K := K)).swap pt poly hclosed hlen ?_ he'
    intro v hv
    exact Or.inl (sub_pos.mpr (hA v hv))
  · by_cases hB : ∀ w ∈ poly, w.2 ≤ pt.2
    · -- all vertices at or below the height of `pt`
      refine no_closed_in_cone (lexPos_isCone (K := K)).swap.neg pt poly hclosed hlen ?_ he'
      intro v hv
      show lexPos (-(v.2 - pt.2)) (-(v.1 - pt.1))
      rcases lt_or_eq_of_le (hB v hv) with h | h
      · left; linarith
      · right
        obtain ⟨b, hb⟩ := closed_has_succ v poly hclosed hlen hv
        have hbm : b ∈ poly := (mem_pairs_mem poly _ hb).2
        have h1 := he (v, b) hb
        have h2 := hB b hbm
        have e : isLeft v b pt = -((pt.1 - v.1) * (b.2 - pt.2)) := by
          unfold isLeft; rw [h]; ring
        rw [e] at h1
        refine ⟨by rw [h]; ring, ?_⟩
        by_contra hc
        have h3 : pt.1 - v.1 ≤ 0 := by linarith [not_lt.mp hc]
        have := mul_nonneg_of_nonpos_of_nonpos h3 (sub_nonpos.mpr h2)
        linarith
    · push Not at hA hB
      obtain ⟨v, hv, hv'⟩ := hA
      obtain ⟨w, hw, hw'⟩ := hB
      exact hup (exists_up_edge_closed pt.2 poly hclosed v w hv hw hv' hw')

/-- **Winding test for convex counter-clockwise polygons.**  `poly = V₀, …, Vₙ = V₀` closed with at
    least one edge, every vertex left of or on every edge, `pt` on none of the edge lines: the
    counter is non-zero exactly when `pt` is strictly left of every edge. -/
theorem wnPoly_convex_iff (pt : K × K) (poly : List (K × K)) (hclosed : poly.head? = poly.getLast?)
    (hlen : 2 ≤ poly.length) (hconv : ∀ e ∈ pairs poly, ∀ v ∈ poly, 0 ≤ isLeft e.1 e.2 v)
    (hoff : ∀ e ∈ pairs poly, isLeft e.1 e.2 pt ≠ 0) :
    wnPoly pt poly = true ↔ ∀ e ∈ pairs poly, 0 < isLeft e.1 e.2 pt := by
  unfold wnPoly
  rw [bne_iff_ne]
  constructor
  · intro hwn e he
    by_contra hc
    have hlt : isLeft e.1 e.2 pt < 0 := lt_of_le_of_ne (not_lt.mp hc) (hoff e he)
    exact hwn (wnNum_separated pt e.1 e.2 poly hclosed hlt (hconv e he))
  · intro h
    have := wnNum_inside pt poly hclosed hlen h
    omega

/-- the counter itself: at least 1 inside, exactly 0 outside -/
theorem wnNum_convex (pt : K × K) (poly : List (K × K)) (hclosed : poly.head? = poly.getLast?)
    (hlen : 2 ≤ poly.length) (hconv : ∀ e ∈ pairs poly, ∀ v ∈ poly, 0 ≤ isLeft e.1 e.2 v) :
    ((∀ e ∈ pairs poly, 0 < isLeft e.1 e.2 pt) → 1 ≤ wnNum pt poly) ∧
    ((∃ e ∈ pairs poly, isLeft e.1 e.2 pt < 0) → wnNum pt poly = 0) :=
  ⟨wnNum_inside pt poly hclosed hlen, fun ⟨e, he, hlt⟩ =>
    wnNum_separated pt e.1 e.2 poly hclosed hlt (hconv e he)⟩

/-! ### composition with `convex_hull` -/

theorem closedHull_props (pts : List (K × K)) (hne : pts ≠ []) :
    let C := convexHull pts ++ (convexHull pts).take 1
    C.head? = C.getLast? ∧ 2 ≤ C.length ∧ ∀ v ∈ C, v ∈ pts := by
  intro C
  have hsub : ∀ v ∈ C, v ∈ pts := by
    intro v hv
    rcases List.mem_append.mp hv with h | h
    · exact convexHull_subset pts v h
    · exact convexHull_subset pts v (List.mem_of_mem_take h)
  have hH : convexHull pts ≠ [] := by
    rcases convexHull_cases pts with ⟨h, _⟩ | ⟨m, _, hH⟩ | ⟨l, u, m, M, lT, uT, _, _, el, _, _, _, _, _, hH⟩
    · exact absurd h hne
    · rw [hH]; simp
    · rw [hH, el]; simp
  obtain ⟨h0, t, e⟩ := List.exists_cons_of_ne_nil hH
  refine ⟨?_, ?_, hsub⟩
  · show (convexHull pts ++ (convexHull pts).take 1).head? = (convexHull pts ++ (convexHull pts).take 1).getLast?
    rw [e]
    have : (h0 :: t ++ List.take 1 (h0 :: t)) = (h0 :: t) ++ [h0] := by simp
    rw [this, List.getLast?_concat]; rfl
  · show 2 ≤ (convexHull pts ++ (convexHull pts).take 1).length
    rw [e]; simp

/-- **`wn_poly` on the output of `convex_hull`.**  For a point on none of the hull's edge lines the
    winding test against the closed hull polygon says whether the point is strictly left of every
    hull edge, i.e. strictly inside the hull. -/
theorem wnPoly_convexHull (pts : List (K × K)) (hne : pts ≠ []) (pt : K × K)
    (hoff : ∀ e ∈ pairs (convexHull pts ++ (convexHull pts).take 1), isLeft e.1 e.2 pt ≠ 0) :
    wnPoly pt (convexHull pts ++ (convexHull pts).take 1) = true ↔
      ∀ e ∈ pairs (convexHull pts ++ (convexHull pts).take 1), 0 < isLeft e.1 e.2 pt := by
  obtain ⟨h1, h2, h3⟩ := closedHull_props pts hne
  exact wnPoly_convex_iff pt _ h1 h2
    (fun e he v hv => convexHull_contains pts v (h3 v hv) e he) hoff

end Geomdl
