import NurbsVerif.Lemmas.FitKnotsValid

/-! `fitting.compute_knot_vector2` "ensures that every knot span has at least one `ū_k`" (its docstring; The NURBS Book
    p. 412): for parameters that run strictly increasing from 0 to 1 every half-open knot span `[U_s, U_{s+1})`,
    `p ≤ s < nc`, contains a parameter. -/
namespace Geomdl
open Finset
variable {K : Type} [Field K] [LinearOrder K] [IsStrictOrderedRing K]

/-- at an integer position the interpolant returns the parameter before it -/
theorem kv2g_at_int (uk : List K) (fl : K → ℕ) {t : K} (hint : (fl t : K) = t) :
    kv2g uk fl t = uk.getD (fl t - 1) 0 := by
  unfold kv2g; rw [hint]; ring

section
variable {fl : K → ℕ} (hfl : IsFloor fl) (uk : List K) (nd : ℕ)
  (hstrict : ∀ i j, i < j → j < nd → uk.getD i 0 < uk.getD j 0)
include hfl hstrict

/-- the interpolant stays strictly below the parameter with index `int(t)` -/
theorem kv2g_lt_upper {t : K} (h1 : 1 ≤ t) (hlt : fl t < nd) : kv2g uk fl t < uk.getD (fl t) 0 := by
  have h0 : (0 : K) ≤ t := le_trans zero_le_one h1
  have hpos := fl_pos hfl h1
  obtain ⟨a1, a2⟩ := hfl t h0
  have hs := hstrict (fl t - 1) (fl t) (by omega) hlt
  have e : uk.getD (fl t) 0 - kv2g uk fl t = (1 - (t - (fl t : K))) * (uk.getD (fl t) 0 - uk.getD (fl t - 1) 0) := by
    unfold kv2g; ring
  have h2 : 0 < (1 - (t - (fl t : K))) * (uk.getD (fl t) 0 - uk.getD (fl t - 1) 0) :=
    mul_pos (by linarith) (by linarith)
  linarith

/-- … and strictly above the parameter with index `int(t) − 1` when `t` is not an integer -/
theorem kv2g_gt_lower {t : K} (h1 : 1 ≤ t) (hlt : fl t < nd) (hfrac : (fl t : K) < t) :
    uk.getD (fl t - 1) 0 < kv2g uk fl t := by
  have hpos := fl_pos hfl h1
  have hs := hstrict (fl t - 1) (fl t) (by omega) hlt
  have e : kv2g uk fl t - uk.getD (fl t - 1) 0 = (t - (fl t : K)) * (uk.getD (fl t) 0 - uk.getD (fl t - 1) 0) := by
    unfold kv2g; ring
  have h2 : 0 < (t - (fl t : K)) * (uk.getD (fl t) 0 - uk.getD (fl t - 1) 0) := mul_pos (by linarith) (by linarith)
  linarith

/-- a parameter index `i` with `i + 1 < t'`: the interpolant at `t'` is above `ū_i` -/
theorem kv2g_gt_of_lt {t' : K} (i : ℕ) (h1 : 1 ≤ t') (hlt : fl t' < nd) (hi : ((i + 1 : ℕ) : K) < t') :
    uk.getD i 0 < kv2g uk fl t' := by
  have hmono : ∀ a b, a ≤ b → b < nd → uk.getD a 0 ≤ uk.getD b 0 := by
    intro a b hab hb
    rcases Nat.eq_or_lt_of_le hab with e | e
    · rw [e]
    · exact le_of_lt (hstrict a b e hb)
  have h0 : (0 : K) ≤ t' := le_trans zero_le_one h1
  obtain ⟨a1, a2⟩ := hfl t' h0
  have hge : i + 1 ≤ fl t' := by
    have : ((i + 1 : ℕ) : K) < ((fl t' + 1 : ℕ) : K) := by push_cast at hi ⊢; linarith
    have := Nat.cast_lt.mp this
    omega
  rcases Nat.eq_or_lt_of_le hge with e | e
  · have hfrac : (fl t' : K) < t' := by rw [← e]; exact hi
    have := kv2g_gt_lower hfl uk nd hstrict h1 hlt hfrac
    rwa [← e, Nat.add_sub_cancel] at this
  · calc uk.getD i 0 < uk.getD (fl t' - 1) 0 := hstrict _ _ (by omega) (by omega)
      _ ≤ kv2g uk fl t' := kv2g_lower hfl uk nd hmono h0 hlt

end

/-- **every knot span of `compute_knot_vector2` contains a parameter**: for parameters that run strictly increasing
    from 0 to 1 and every span index `p ≤ s < nc` there is a parameter `ū_k` with `U_s ≤ ū_k < U_{s+1}` -/
theorem computeKnotVector2_span_has_param (p nd nc : ℕ) (uk : List K) (fl : K → ℕ) (hfl : IsFloor fl)
    (hp : 1 ≤ p) (hpn : p + 1 ≤ nc) (hnd : nc ≤ nd) (hlen : uk.length = nd)
    (hfirst : uk.getD 0 0 = 0) (hlast : uk.getD (nd - 1) 0 = 1)
    (hstrict : ∀ i j, i < j → j < nd → uk.getD i 0 < uk.getD j 0) (s : ℕ) (hs1 : p ≤ s) (hs2 : s < nc) :
    ∃ k, k < nd ∧ fnOf (computeKnotVector2 p nd nc uk fl) s ≤ uk.getD k 0 ∧
      uk.getD k 0 < fnOf (computeKnotVector2 p nd nc uk fl) (s + 1) := by
  have hC := computeKnotVector2_clampedKnots hfl uk nd hstrict p nc hp hpn hnd hlen hfirst hlast
  rcases Nat.eq_or_lt_of_le hs1 with e | e
  · -- the first span contains `ū_0 = 0`
    subst e
    refine ⟨0, by omega, by rw [hC.zeros p le_rfl, hfirst], ?_⟩
    rw [hfirst]; exact (hC.ends hpn).1
  · -- an interior knot `U_s = g(t)`, `t = (s − p)·d`
    obtain ⟨r1, r2⟩ := kv2_pos_range (K := K) p nd nc (s - p) hpn (by omega) (by omega) (by omega)
    have hUs := computeKnotVector2_fn p nd nc uk fl hpn s
    rw [if_neg (by omega), if_pos hs2] at hUs
    set t : K := ((s - p : ℕ) : K) * ((nd : K) / ((nc - p : ℕ) : K)) with ht
    have ht0 : (0 : K) ≤ t := le_trans zero_le_one r1
    have hflt := fl_lt hfl ht0 nd r2
    have hfl1 := fl_pos hfl r1
    obtain ⟨a1, a2⟩ := hfl t ht0
    have hq : (0 : K) < ((nc - p : ℕ) : K) := Nat.cast_pos.mpr (by omega)
    have hd1 : (1 : K) ≤ (nd : K) / ((nc - p : ℕ) : K) := by
      rw [le_div_iff₀ hq, one_mul]
      exact_mod_cast (by omega : nc - p ≤ nd)
    rcases eq_or_lt_of_le a1 with hint | hfrac
    · -- `t` is an integer: `U_s = ū_{int(t) − 1}`
      refine ⟨fl t - 1, by omega, ?_, ?_⟩
      · rw [hUs, kv2g_at_int uk fl hint]
      · have := hC.strict s (by omega) hs2
        rwa [hUs, kv2g_at_int uk fl hint] at this
    · -- otherwise `U_s < ū_{int(t)}`
      refine ⟨fl t, hflt, ?_, ?_⟩
      · rw [hUs]; exact le_of_lt (kv2g_lt_upper hfl uk nd hstrict r1 hflt)
      · by_cases c : s + 1 < nc
        · have hUs' := computeKnotVector2_fn p nd nc uk fl hpn (s + 1)
          rw [if_neg (by omega), if_pos c] at hUs'
          obtain ⟨q1, q2⟩ := kv2_pos_range (K := K) p nd nc (s + 1 - p) hpn (by omega) (by omega) (by omega)
          rw [hUs']
          apply kv2g_gt_of_lt hfl uk nd hstrict (fl t) q1 (fl_lt hfl (le_trans zero_le_one q1) nd q2)
          have e1 : ((s + 1 - p : ℕ) : K) = ((s - p : ℕ) : K) + 1 := by
            rw [show s + 1 - p = (s - p) + 1 by omega]; push_cast; ring
          rw [e1, add_mul, one_mul, ← ht]
          push_cast
          linarith
        · -- the last span: `int(t) < nd − 1`
          rw [hC.ones (s + 1) (by omega)]
          have hs : s = nc - 1 := by omega
          have htle : t ≤ ((nd - 1 : ℕ) : K) := by
            have e1 : ((s - p : ℕ) : K) = ((nc - p : ℕ) : K) - 1 := by
              rw [hs, show nc - 1 - p = (nc - p) - 1 by omega, Nat.cast_sub (by omega)]; simp
            have e2 : ((nd - 1 : ℕ) : K) = (nd : K) - 1 := by rw [Nat.cast_sub (by omega)]; simp
            rw [ht, e1, e2, sub_mul, one_mul, mul_div_cancel₀ _ (ne_of_gt hq)]
            linarith
          have : fl t < nd - 1 := by
            have : (fl t : K) < ((nd - 1 : ℕ) : K) := lt_of_lt_of_le hfrac htle
            exact Nat.cast_lt.mp this
          have := hstrict (fl t) (nd - 1) this (by omega)
          rwa [hlast] at this

end Geomdl
