import NurbsVerif.Lemmas.ConfigSplit

/-!
  C17, knot range, ALL directions at once: `Shape.affineKvs S a b` is the shape `S` with the knot vector of EVERY
  direction `d` mapped by `x ↦ a d · x + b d` (nothing else touched).  One direction of `insert_knot` /
  `remove_knot` / `refine_knotvector` on such a shape (parameter mapped with the map of that direction) returns
  the mapped result; the other directions' knot vectors are not looked at.  The folds over the directions
  (`insertKnot`, `removeKnot`, `refineKnotvector`) are assembled in `KnotRangeFoldOps.lean`.
-/
set_option linter.unusedSectionVars false

namespace Geomdl
open Blossom
variable {K : Type} [Field K] [LinearOrder K] [IsStrictOrderedRing K]

/-- the same shape with the knot vector of every direction `d` mapped by `x ↦ a d · x + b d` -/
def Shape.affineKvs (S : Shape K) (a b : ℕ → K) : Shape K :=
  { S with kvs := S.kvs.mapIdx (fun d U => U.map (fun y => a d * y + b d)) }

theorem affineKvs_kv (S : Shape K) (a b : ℕ → K) (d : ℕ) :
    (S.affineKvs a b).kv d = (S.kv d).map (fun y => a d * y + b d) := by
  unfold Shape.affineKvs Shape.kv
  simp only [List.getD_eq_getElem?_getD, List.getElem?_mapIdx]
  cases S.kvs[d]? <;> rfl

/-- building a result shape from `S` with a new knot vector `Y` in direction `d`, then mapping all directions, is
    building it from the mapped shape with the mapped `Y` -/
theorem affineKvs_result (S : Shape K) (d : ℕ) (a b : ℕ → K) (Y : List K) (sz : List ℕ) (net : List (List K)) :
    ({ S with kvs := S.kvs.set d Y, sizes := sz, net := net } : Shape K).affineKvs a b
      = { S with kvs := (S.affineKvs a b).kvs.set d (Y.map (fun y => a d * y + b d)), sizes := sz, net := net } := by
  unfold Shape.affineKvs
  simp only [List.mapIdx_set]

/-! ### relation with the one-direction map `Shape.affineKv` -/

/-- mapping one direction is mapping all of them with the identity elsewhere -/
theorem affineKv_eq_affineKvs (S : Shape K) (dir : ℕ) (a b : K) :
    S.affineKv dir a b = S.affineKvs (fun d => if d = dir then a else 1) (fun d => if d = dir then b else 0) := by
  unfold Shape.affineKv Shape.affineKvs Shape.kv
  congr 1
  apply List.ext_getElem?
  intro i
  simp only [List.getElem?_set, List.getElem?_mapIdx, List.getD_eq_getElem?_getD]
  by_cases hi : dir = i
  · subst hi
    simp only [if_true]
    split
    · rename_i h
      rw [List.getElem?_eq_getElem h]; rfl
    · rename_i h
      rw [List.getElem?_eq_none_iff.mpr (by omega)]; rfl
  · rw [if_neg hi, if_neg (fun e => hi e.symm), if_neg (fun e => hi e.symm)]
    cases S.kvs[i]? with
    | none => rfl
    | some U => simp

/-- a curve: the one direction -/
theorem affineKvs_one (S : Shape K) (a b : ℕ → K) (h : S.kvs.length = 1) :
    S.affineKvs a b = S.affineKv 0 (a 0) (b 0) := by
  unfold Shape.affineKv Shape.affineKvs Shape.kv
  match hk : S.kvs, h with
  | [U], _ => simp

/-- a surface: direction 0, then direction 1 -/
theorem affineKvs_two (S : Shape K) (a b : ℕ → K) (h : S.kvs.length = 2) :
    S.affineKvs a b = (S.affineKv 0 (a 0) (b 0)).affineKv 1 (a 1) (b 1) := by
  unfold Shape.affineKv Shape.affineKvs Shape.kv
  match hk : S.kvs, h with
  | [U, V], _ => simp

/-- a volume: directions 0, 1, 2 -/
theorem affineKvs_three (S : Shape K) (a b : ℕ → K) (h : S.kvs.length = 3) :
    S.affineKvs a b = ((S.affineKv 0 (a 0) (b 0)).affineKv 1 (a 1) (b 1)).affineKv 2 (a 2) (b 2) := by
  unfold Shape.affineKv Shape.affineKvs Shape.kv
  match hk : S.kvs, h with
  | [U, V, W], _ => simp

/-! ### one direction of `insert_knot` / `remove_knot` / `refine_knotvector` on a shape mapped in all directions -/

theorem insertKnotDir_affineKvs_gen (S : Shape K) (a b : ℕ → K) (dir : ℕ) (u : K) (r : ℕ) (tol tol' : K) (check : Bool)
    (ha : 0 < a dir) (hne : S.kv dir ≠ [])
    (hmult : findMultiplicity (a dir * u + b dir) ((S.kv dir).map (fun x => a dir * x + b dir)) tol'
      = findMultiplicity u (S.kv dir) tol) :
    insertKnotDir (S.affineKvs a b) dir (a dir * u + b dir) r tol' check
      = (insertKnotDir S dir u r tol check).map (fun T => T.affineKvs a b) := by
  unfold insertKnotDir
  simp only []
  rw [affineKvs_kv, hmult]
  have hdeg : (S.affineKvs a b).deg dir = S.deg dir := rfl
  have hsize : (S.affineKvs a b).size dir = S.size dir := rfl
  have hmap : ∀ g, (S.affineKvs a b).mapDir dir g = S.mapDir dir g := fun _ => rfl
  rw [hdeg, hsize]
  split
  · rfl
  · simp only [Option.map_some, hmap]
    rw [fnOf_map_affine (S.kv dir) (a dir) (b dir) hne, findSpanLinear_affine _ _ _ _ (a dir) (b dir) ha,
      knotInsertionKv_map (fun y => a dir * y + b dir), affineKvs_result]
    simp only [knotInsertion_affine _ (fnOf (S.kv dir)) _ u _ _ _ (a dir) (b dir) (ne_of_gt ha)]
    rfl

theorem removeKnotDir_affineKvs_gen (S : Shape K) (a b : ℕ → K) (dir : ℕ) (u : K) (num : ℕ) (tol tol' tol2 : K)
    (check : Bool) (ha : 0 < a dir) (hne : S.kv dir ≠ [])
    (hmult : findMultiplicity (a dir * u + b dir) ((S.kv dir).map (fun x => a dir * x + b dir)) tol'
      = findMultiplicity u (S.kv dir) tol) :
    removeKnotDir (S.affineKvs a b) dir (a dir * u + b dir) num tol' tol2 check
      = (removeKnotDir S dir u num tol tol2 check).map (fun T => T.affineKvs a b) := by
  unfold removeKnotDir
  simp only []
  rw [affineKvs_kv, hmult]
  have hdeg : (S.affineKvs a b).deg dir = S.deg dir := rfl
  have hsize : (S.affineKvs a b).size dir = S.size dir := rfl
  have hmap : ∀ g, (S.affineKvs a b).mapDir dir g = S.mapDir dir g := fun _ => rfl
  rw [hdeg, hsize]
  split
  · rfl
  · simp only [Option.map_some, hmap]
    rw [fnOf_map_affine (S.kv dir) (a dir) (b dir) hne, findSpanLinear_affine _ _ _ _ (a dir) (b dir) ha,
      knotRemovalKv_map (fun y => a dir * y + b dir), affineKvs_result]
    simp only [knotRemoval_affine _ (fnOf (S.kv dir)) _ u _ _ _ _ (a dir) (b dir) (ne_of_gt ha)]
    rfl

theorem refineDir_affineKvs (S : Shape K) (a b : ℕ → K) (dir density : ℕ) (tol : K) (ha : 0 < a dir)
    (hne : S.kv dir ≠ []) :
    refineDir (S.affineKvs a b) dir density (a dir * tol)
      = (refineDir S dir density tol).map (fun T => T.affineKvs a b) := by
  unfold refineDir
  simp only []
  rw [affineKvs_kv]
  have hdeg : (S.affineKvs a b).deg dir = S.deg dir := rfl
  have hsize : (S.affineKvs a b).size dir = S.size dir := rfl
  have hmap : ∀ g, (S.affineKvs a b).mapDir dir g = S.mapDir dir g := fun _ => rfl
  rw [hdeg, hsize, refineX_affine _ _ _ _ (a dir) (b dir) ha, List.isEmpty_map]
  split
  · rfl
  · simp only [Option.map_some, hmap]
    rw [affineKvs_result]
    simp only [insertFold_affine (S.deg dir) tol (a dir) (b dir) ha _ (S.kv dir) _ hne]
    rfl

/-! ### one direction's operation leaves the other directions' knot vectors (and the degrees) alone -/

theorem cfg_getD_set_ne {α : Type} (l : List α) (i j : ℕ) (v dflt : α) (h : j ≠ i) :
    (l.set i v).getD j dflt = l.getD j dflt := by
  simp only [List.getD_eq_getElem?_getD, List.getElem?_set_ne (fun e => h e.symm)]

theorem insertKnotDir_kv_other (S T : Shape K) (dir : ℕ) (u : K) (r : ℕ) (tol : K) (check : Bool)
    (h : insertKnotDir S dir u r tol check = some T) :
    T.degs = S.degs ∧ ∀ d', d' ≠ dir → T.kv d' = S.kv d' := by
  unfold insertKnotDir at h
  simp only [] at h
  split at h
  · cases h
  · injection h with h
    subst h
    exact ⟨rfl, fun d' hd => cfg_getD_set_ne _ _ _ _ _ hd⟩

theorem removeKnotDir_kv_other (S T : Shape K) (dir : ℕ) (u : K) (num : ℕ) (tol tol2 : K) (check : Bool)
    (h : removeKnotDir S dir u num tol tol2 check = some T) :
    T.degs = S.degs ∧ ∀ d', d' ≠ dir → T.kv d' = S.kv d' := by
  unfold removeKnotDir at h
  simp only [] at h
  split at h
  · cases h
  · injection h with h
    subst h
    exact ⟨rfl, fun d' hd => cfg_getD_set_ne _ _ _ _ _ hd⟩

theorem refineDir_kv_other (S T : Shape K) (dir density : ℕ) (tol : K)
    (h : refineDir S dir density tol = some T) :
    T.degs = S.degs ∧ ∀ d', d' ≠ dir → T.kv d' = S.kv d' := by
  unfold refineDir at h
  simp only [] at h
  split at h
  · cases h
  · injection h with h
    subst h
    exact ⟨rfl, fun d' hd => cfg_getD_set_ne _ _ _ _ _ hd⟩

end Geomdl
