import NurbsVerif.Lemmas.UniqueVolRemove
import NurbsVerif.Lemmas.KnotRowsRemVol

/-! # "Removable at all" for volumes, AS THE CODE COMPUTES IT (list-of-rows branch of `helpers.knot_removal`)

For a volume `operations.remove_knot` calls the helper once on a list of rows and computes ONE removability flag
per step from the first iso-curve (`knotRemovalRows`, C06 section (R)).  A removable knot passes the
removability test of every step on every iso-curve (`RemovableKnot.allRemovable`: the iso-curve IS an `r`-fold
insertion, `removable_knot`, and inserted knots are removable at every step), so the rows branch returns what the
per-iso-curve model `mapVol` returns – the witness net. -/
namespace Geomdl
open Blossom
variable {K : Type} [Field K] [LinearOrder K] [IsStrictOrderedRing K]

/-- **a removable knot passes the removability test of each of the first `t ≤ r` removal steps** (any tolerance
    `tol2 ≥ 0`; A5.8 called as the library calls it: multiplicity `s + r`, span `k + r`) -/
theorem RemovableKnot.allRemovable {p d : ℕ} {V : List K} {Ph Q : List (List K)} {ub : K} {r s k : ℕ}
    (h : RemovableKnot p d V Ph Q ub r s k) (t : ℕ) (htr : t ≤ r) (tol2 : K) (htol : 0 ≤ tol2) :
    Rows.AllRemovable p (fnOf V) Ph ub t (s + r) (k + r) tol2 := by
  obtain ⟨hV, hQlen, hk1U, hk2U, hsU, _, _, _, _, _, _⟩ :=
    removable_facts p d V Ph Q ub r s k h.wf h.reduced h.run h.below h.above h.r1 h.pk h.kn
  have hPh := (removable_knot p d V Ph Q ub r r s k tol2 h.wf h.active h.reduced h.run h.below h.above h.r1 (le_refl _)
    h.rs h.pk h.kn htol h.same).1
  have := Rows.allRemovable_inserted p (knotRemovalKv V (k + r) r) Q ub r t s k d tol2 h.reduced.net h.reduced.mono
    hk1U hk2U hsU htr h.rs h.pk (by have := h.kn; omega) htol
  rw [hV, ← hPh] at this
  exact this

section Rows
variable (p d : ℕ) (V : List K) (P Q : List (List K)) (ub : K) (r t s k su sv sw : ℕ) (tol2 : K)

/-- **u direction, rows branch = per-iso-curve model** for a knot removable from every iso-curve, `t ≤ r` removals -/
theorem volU_rows_removable (hsu : 0 < su) (hsv : 0 < sv) (hsw : 0 < sw)
    (h : ∀ y z, y < sv → z < sw → RemovableKnot p d V (lineU su sv P y z) (lineU (su - r) sv Q y z) ub r s k)
    (htr : t ≤ r) (hrs : r + s ≤ p) (hpk : p ≤ k) (hkn : k + r < su) (htol : 0 ≤ tol2) :
    mapVolRows 0 su sv sw P (fun R => knotRemovalRows p (fnOf V) R ub t (s + r) (k + r) tol2)
      = mapVol 0 su sv sw P (fun c => knotRemoval p (fnOf V) c ub t (s + r) (k + r) tol2) := by
  apply Rows.mapVolRows_remove 0 su sv sw p (fnOf V) P ub t (s + r) (k + r) tol2 hsu hsv hsw (by omega) (by omega)
    (by omega) (by omega) (by simpa using hkn)
  intro c hc
  rw [Rows.volRows_headD_length 0 _ _ _ (by omega) hsu hsv hsw] at hc
  have hc' : c < sw * sv := by simpa [Nat.mul_comm] using hc
  obtain ⟨h1, h2, h3⟩ := flatIdx2_divmod hc'
  unfold flatIdx2 at h3
  rw [← h3, Rows.isoCol_volRows0 _ _ _ _ _ _ h2 h1]
  exact (h _ _ h2 h1).allRemovable t htr tol2 htol

/-- **v direction** -/
theorem volV_rows_removable (hsu : 0 < su) (hsv : 0 < sv) (hsw : 0 < sw)
    (h : ∀ x z, x < su → z < sw → RemovableKnot p d V (lineV su sv P x z) (lineV su (sv - r) Q x z) ub r s k)
    (htr : t ≤ r) (hrs : r + s ≤ p) (hpk : p ≤ k) (hkn : k + r < sv) (htol : 0 ≤ tol2) :
    mapVolRows 1 su sv sw P (fun R => knotRemovalRows p (fnOf V) R ub t (s + r) (k + r) tol2)
      = mapVol 1 su sv sw P (fun c => knotRemoval p (fnOf V) c ub t (s + r) (k + r) tol2) := by
  apply Rows.mapVolRows_remove 1 su sv sw p (fnOf V) P ub t (s + r) (k + r) tol2 hsu hsv hsw (by omega) (by omega)
    (by omega) (by omega) (by simpa using hkn)
  intro c hc
  rw [Rows.volRows_headD_length 1 _ _ _ (by omega) hsu hsv hsw] at hc
  have hc' : c < sw * su := by simpa [Nat.mul_comm] using hc
  obtain ⟨h1, h2, h3⟩ := flatIdx2_divmod hc'
  unfold flatIdx2 at h3
  rw [← h3, Rows.isoCol_volRows1 _ _ _ _ _ _ h2 h1]
  exact (h _ _ h2 h1).allRemovable t htr tol2 htol

/-- **w direction** (the rows are whole u-v layers) -/
theorem volW_rows_removable (hsu : 0 < su) (hsv : 0 < sv) (hsw : 0 < sw)
    (h : ∀ x y, x < su → y < sv → RemovableKnot p d V (lineW su sv sw P x y) (lineW su sv (sw - r) Q x y) ub r s k)
    (htr : t ≤ r) (hrs : r + s ≤ p) (hpk : p ≤ k) (hkn : k + r < sw) (htol : 0 ≤ tol2) :
    mapVolRows 2 su sv sw P (fun R => knotRemovalRows p (fnOf V) R ub t (s + r) (k + r) tol2)
      = mapVol 2 su sv sw P (fun c => knotRemoval p (fnOf V) c ub t (s + r) (k + r) tol2) := by
  apply Rows.mapVolRows_remove 2 su sv sw p (fnOf V) P ub t (s + r) (k + r) tol2 hsu hsv hsw (by omega) (by omega)
    (by omega) (by omega) (by simpa using hkn)
  intro c hc
  rw [Rows.volRows_headD_length 2 _ _ _ (by omega) hsu hsv hsw] at hc
  have hc' : c < su * sv := by simpa using hc
  obtain ⟨h1, h2, h3⟩ := flatIdx2_divmod hc'
  unfold flatIdx2 at h3
  rw [← h3, Rows.isoCol_volRows2 _ _ _ _ (le_refl _) _ _ _ h1 h2]
  exact (h _ _ h1 h2).allRemovable t htr tol2 htol

end Rows

/-- **Volumes, removable at all, as the code computes it**: for a knot that is removable from the volume, the
    gather / ONE call of the rows branch of A5.8 / scatter returns the witness net and the reduced size
    (u, v, w direction). -/
theorem VolRemovableU.rows_exact {pu pv pw d : ℕ} {V Uv Uw : List K} {P Q : List (List K)} {ub : K} {r s k su sv sw : ℕ}
    (h : VolRemovableU pu pv pw d V Uv Uw P Q ub r s k su sv sw) (tol2 : K) (htol : 0 ≤ tol2) :
    mapVolRows 0 su sv sw P (fun R => knotRemovalRows pu (fnOf V) R ub r (s + r) (k + r) tol2) = (Q, su - r) := by
  rw [volU_rows_removable pu d V P Q ub r r s k su sv sw tol2 (by have := h.knot.kv.pn; omega) (by have := h.kvv.pn; omega)
    (by have := h.kvw.pn; omega) (fun y z hy hz => h.isocurves y z hy hz) (le_refl _) h.knot.rs h.knot.pk h.knot.kn htol]
  exact h.exact tol2 htol

theorem VolRemovableV.rows_exact {pu pv pw d : ℕ} {Uu V Uw : List K} {P Q : List (List K)} {ub : K} {r s k su sv sw : ℕ}
    (h : VolRemovableV pu pv pw d Uu V Uw P Q ub r s k su sv sw) (tol2 : K) (htol : 0 ≤ tol2) :
    mapVolRows 1 su sv sw P (fun R => knotRemovalRows pv (fnOf V) R ub r (s + r) (k + r) tol2) = (Q, sv - r) := by
  rw [volV_rows_removable pv d V P Q ub r r s k su sv sw tol2 (by have := h.kvu.pn; omega) (by have := h.knot.kv.pn; omega)
    (by have := h.kvw.pn; omega) (fun x z hx hz => h.isocurves x z hx hz) (le_refl _) h.knot.rs h.knot.pk h.knot.kn htol]
  exact h.exact tol2 htol

theorem VolRemovableW.rows_exact {pu pv pw d : ℕ} {Uu Uv V : List K} {P Q : List (List K)} {ub : K} {r s k su sv sw : ℕ}
    (h : VolRemovableW pu pv pw d Uu Uv V P Q ub r s k su sv sw) (tol2 : K) (htol : 0 ≤ tol2) :
    mapVolRows 2 su sv sw P (fun R => knotRemovalRows pw (fnOf V) R ub r (s + r) (k + r) tol2) = (Q, sw - r) := by
  rw [volW_rows_removable pw d V P Q ub r r s k su sv sw tol2 (by have := h.kvu.pn; omega) (by have := h.kvv.pn; omega)
    (by have := h.knot.kv.pn; omega) (fun x y hx hy => h.isocurves x y hx hy) (le_refl _) h.knot.rs h.knot.pk h.knot.kn htol]
  exact h.exact tol2 htol

end Geomdl
