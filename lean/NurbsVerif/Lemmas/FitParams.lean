import NurbsVerif.Model.Fitting
import NurbsVerif.Lemmas.LU
import Mathlib.Algebra.Order.BigOperators.Group.List
import Mathlib.Algebra.Order.BigOperators.Ring.Finset
import Mathlib.Algebra.Order.Field.Basic
import Mathlib.Order.Monotone.Basic
import Mathlib.Tactic.Ring
import Mathlib.Tactic.Linarith
import Mathlib.Data.List.GetD

/-! Parameters (`compute_params_curve`) and averaged knot vectors (`compute_knot_vector`, Eq. 9.8). -/
namespace Geomdl
open Finset Lin

section field
variable {K : Type} [Field K]

theorem foldl_add_sum (l : List K) (a : K) : l.foldl (· + ·) a = a + l.sum := by
  induction l generalizing a with
  | nil => simp
  | cons x l ih => simp [ih, add_assoc]

theorem sumL_eq_sum (l : List K) : sumL l = l.sum := by
  unfold sumL; rw [foldl_add_sum, zero_add]

theorem sumL_map_range (n : ℕ) (f : ℕ → K) : sumL ((List.range n).map f) = ∑ i ∈ range n, f i := by
  rw [← sumTo_eq]
  simp [sumL, sumTo, List.foldl_map]

theorem sumL_map_range' (a n : ℕ) (f : ℕ → K) :
    sumL ((List.range' a n).map f) = ∑ r ∈ range n, f (a + r) := by
  rw [List.range'_eq_map_range, List.map_map, sumL_map_range]
  rfl

/-! ### parameters -/

theorem computeParams_length (cds : List K) : (computeParams cds).length = cds.length + 1 := by
  simp [computeParams]

theorem computeParams_getD (cds : List K) (i : ℕ) (hi : i ≤ cds.length) :
    (computeParams cds).getD i 0 = sumL (cds.take i) / sumL cds := by
  simp [computeParams, List.getD_eq_getElem?_getD, List.getElem?_range (show i < cds.length + 1 by omega)]

theorem computeParams_first (cds : List K) : (computeParams cds).getD 0 0 = 0 := by
  rw [computeParams_getD cds 0 (by omega)]
  simp [sumL]

theorem computeParams_last (cds : List K) (h : sumL cds ≠ 0) :
    (computeParams cds).getD cds.length 0 = 1 := by
  rw [computeParams_getD cds _ le_rfl, List.take_length, div_self h]

end field

section ordered
variable {K : Type} [Field K] [LinearOrder K] [IsStrictOrderedRing K]

theorem take_sum_split (l : List K) (i j : ℕ) (hij : i ≤ j) :
    (l.take j).sum = (l.take i).sum + ((l.take j).drop i).sum := by
  have h := List.take_append_drop i (l.take j)
  rw [List.take_take, min_eq_left hij] at h
  rw [← List.sum_append, h]

theorem take_sum_mono (l : List K) (h : ∀ x ∈ l, 0 ≤ x) (i j : ℕ) (hij : i ≤ j) :
    (l.take i).sum ≤ (l.take j).sum := by
  rw [take_sum_split l i j hij]
  have : 0 ≤ ((l.take j).drop i).sum :=
    List.sum_nonneg (fun x hx => h x (List.mem_of_mem_take (List.mem_of_mem_drop hx)))
  linarith

theorem take_sum_strictMono (l : List K) (h : ∀ x ∈ l, 0 < x) (i j : ℕ) (hij : i < j) (hj : j ≤ l.length) :
    (l.take i).sum < (l.take j).sum := by
  rw [take_sum_split l i j (le_of_lt hij)]
  have : 0 < ((l.take j).drop i).sum := by
    apply List.sum_pos _ (fun x hx => h x (List.mem_of_mem_take (List.mem_of_mem_drop hx)))
    intro hnil
    have := congrArg List.length hnil
    simp at this
    omega
  linarith

/-- non-negative chord lengths with positive sum: the parameters are non-decreasing -/
theorem computeParams_mono (cds : List K) (h : ∀ x ∈ cds, 0 ≤ x) (hs : 0 < sumL cds)
    (i j : ℕ) (hij : i ≤ j) (hj : j ≤ cds.length) :
    (computeParams cds).getD i 0 ≤ (computeParams cds).getD j 0 := by
  rw [computeParams_getD cds i (by omega), computeParams_getD cds j hj, sumL_eq_sum, sumL_eq_sum, sumL_eq_sum]
  rw [sumL_eq_sum] at hs
  exact div_le_div_of_nonneg_right (take_sum_mono cds h i j hij) (le_of_lt hs)

/-- positive chord lengths (distinct consecutive data points): strictly increasing parameters -/
theorem computeParams_strictMono (cds : List K) (h : ∀ x ∈ cds, 0 < x)
    (i j : ℕ) (hij : i < j) (hj : j ≤ cds.length) :
    (computeParams cds).getD i 0 < (computeParams cds).getD j 0 := by
  have hne : cds ≠ [] := by
    intro hnil; rw [hnil] at hj; simp at hj; omega
  have hs : 0 < cds.sum := List.sum_pos _ h hne
  rw [computeParams_getD cds i (by omega), computeParams_getD cds j hj, sumL_eq_sum, sumL_eq_sum, sumL_eq_sum]
  exact div_lt_div_of_pos_right (take_sum_strictMono cds h i j hij hj) hs

/-- the parameters lie in `[0, 1]` -/
theorem computeParams_range (cds : List K) (h : ∀ x ∈ cds, 0 ≤ x) (hs : 0 < sumL cds) (i : ℕ) (hi : i ≤ cds.length) :
    0 ≤ (computeParams cds).getD i 0 ∧ (computeParams cds).getD i 0 ≤ 1 := by
  constructor
  · have := computeParams_mono cds h hs 0 i (by omega) hi
    rwa [computeParams_first cds] at this
  · have := computeParams_mono cds h hs i _ hi le_rfl
    rwa [computeParams_last cds (ne_of_gt hs)] at this

/-! ### the averaged knot vector -/

theorem computeKnotVector_length (p n : ℕ) (uk : List K) (invp : K) (hpn : p + 1 ≤ n) :
    (computeKnotVector p n uk invp).length = n + p + 1 := by
  simp [computeKnotVector]; omega

/-- the knot vector as a function: `p+1` zeros, the averages (Eq. 9.8), then ones -/
theorem computeKnotVector_fn (p n : ℕ) (uk : List K) (invp : K) (hpn : p + 1 ≤ n) (i : ℕ) :
    fnOf (computeKnotVector p n uk invp) i =
      if i ≤ p then 0
      else if i < n then invp * ∑ r ∈ range p, uk.getD (i - p + r) 0
      else 1 := by
  have hlast : (computeKnotVector p n uk invp).getLastD 0 = 1 := by
    simp [computeKnotVector, List.getLastD_eq_getLast?, List.getLast?_append, List.getLast?_replicate]
  unfold fnOf
  rw [hlast]
  unfold computeKnotVector
  by_cases h1 : i ≤ p
  · rw [if_pos h1, List.append_assoc, List.getD_append _ _ _ _ (by simp; omega)]
    simp only [List.getD_eq_getElem?_getD, List.getElem?_replicate]
    rw [if_pos (by omega)]; rfl
  · rw [if_neg h1]
    by_cases h2 : i < n
    · rw [if_pos h2, List.append_assoc, List.getD_append_right _ _ _ _ (by simp; omega),
        List.getD_append _ _ _ _ (by simp; omega)]
      have hi : i - (List.replicate (p + 1) (0:K)).length < n - p - 1 := by simp; omega
      rw [List.getD_eq_getElem?_getD, List.getElem?_map, List.getElem?_range hi]
      simp only [Option.map_some, Option.getD_some, List.length_replicate]
      rw [sumL_map_range']
      congr 1
      apply sum_congr rfl
      intro r _
      congr 2
      omega
    · rw [if_neg h2, List.getD_append_right _ _ _ _ (by simp; omega)]
      simp only [List.getD_eq_getElem?_getD, List.getElem?_replicate]
      split <;> simp

/-- **clamped**: the first `p+1` knots are `0`, the last `p+1` knots are `1` -/
theorem computeKnotVector_clamped (p n : ℕ) (uk : List K) (invp : K) (hpn : p + 1 ≤ n) :
    (∀ i, i ≤ p → fnOf (computeKnotVector p n uk invp) i = 0) ∧
    (∀ i, n ≤ i → fnOf (computeKnotVector p n uk invp) i = 1) := by
  constructor
  · intro i hi
    rw [computeKnotVector_fn p n uk invp hpn, if_pos hi]
  · intro i hi
    rw [computeKnotVector_fn p n uk invp hpn, if_neg (by omega), if_neg (by omega)]

/-- **non-decreasing** for non-decreasing non-negative parameters, `invp ≥ 0`, provided the last
    average does not exceed `1` (for `invp = 1/p` exactly: when the parameters do not exceed `1`) -/
theorem computeKnotVector_mono (p n : ℕ) (uk : List K) (invp : K) (hpn : p + 1 ≤ n)
    (hinv : 0 ≤ invp) (h0 : ∀ i, 0 ≤ uk.getD i 0)
    (hmono : ∀ i j, i ≤ j → j < n → uk.getD i 0 ≤ uk.getD j 0)
    (hlast : invp * (p : K) * uk.getD (n - 2) 0 ≤ 1) :
    Monotone (fnOf (computeKnotVector p n uk invp)) := by
  apply monotone_nat_of_le_succ
  intro i
  rw [computeKnotVector_fn p n uk invp hpn, computeKnotVector_fn p n uk invp hpn]
  have hsum0 : ∀ a, 0 ≤ invp * ∑ r ∈ range p, uk.getD (a + r) 0 :=
    fun a => mul_nonneg hinv (sum_nonneg (fun r _ => h0 _))
  by_cases h1 : i + 1 ≤ p
  · rw [if_pos (by omega), if_pos h1]
  · rw [if_neg h1]
    by_cases h2 : i + 1 < n
    · rw [if_pos h2]
      by_cases h3 : i ≤ p
      · rw [if_pos h3]; exact hsum0 _
      · rw [if_neg h3, if_pos (by omega)]
        apply mul_le_mul_of_nonneg_left _ hinv
        apply sum_le_sum
        intro r hr
        have := mem_range.mp hr
        exact hmono _ _ (by omega) (by omega)
    · rw [if_neg h2]
      by_cases h3 : i ≤ p
      · rw [if_pos h3]; exact zero_le_one
      · rw [if_neg h3]
        by_cases h4 : i < n
        · rw [if_pos h4]
          have hle : ∑ r ∈ range p, uk.getD (i - p + r) 0 ≤ (p : K) * uk.getD (n - 2) 0 := by
            have : ∑ r ∈ range p, uk.getD (i - p + r) 0 ≤ ∑ _r ∈ range p, uk.getD (n - 2) 0 := by
              apply sum_le_sum
              intro r hr
              have := mem_range.mp hr
              exact hmono _ _ (by omega) (by omega)
            simpa using this
          calc invp * ∑ r ∈ range p, uk.getD (i - p + r) 0
              ≤ invp * ((p : K) * uk.getD (n - 2) 0) := mul_le_mul_of_nonneg_left hle hinv
            _ = invp * (p : K) * uk.getD (n - 2) 0 := by ring
            _ ≤ 1 := hlast
        · rw [if_neg h4]

/-! ### the knot vector of the approximation (`compute_knot_vector2`) -/

theorem computeKnotVector2_length (p nd nc : ℕ) (uk : List K) (fl : K → ℕ) (hpn : p + 1 ≤ nc) :
    (computeKnotVector2 p nd nc uk fl).length = nc + p + 1 := by
  simp [computeKnotVector2]; omega

/-- **clamped**: the first `p+1` knots are `0`, the last `p+1` knots are `1` -/
theorem computeKnotVector2_clamped (p nd nc : ℕ) (uk : List K) (fl : K → ℕ) (hpn : p + 1 ≤ nc) :
    (∀ i, i ≤ p → fnOf (computeKnotVector2 p nd nc uk fl) i = 0) ∧
    (∀ i, nc ≤ i → fnOf (computeKnotVector2 p nd nc uk fl) i = 1) := by
  have hlast : (computeKnotVector2 p nd nc uk fl).getLastD 0 = 1 := by
    simp [computeKnotVector2, List.getLastD_eq_getLast?, List.getLast?_append, List.getLast?_replicate]
  constructor
  · intro i hi
    unfold fnOf
    rw [hlast]
    unfold computeKnotVector2
    simp only []
    rw [List.append_assoc, List.getD_append _ _ _ _ (by simp; omega)]
    simp only [List.getD_eq_getElem?_getD, List.getElem?_replicate]
    rw [if_pos (by omega)]; rfl
  · intro i hi
    unfold fnOf
    rw [hlast]
    unfold computeKnotVector2
    simp only []
    rw [List.getD_append_right _ _ _ _ (by simp; omega)]
    simp only [List.getD_eq_getElem?_getD, List.getElem?_replicate]
    split <;> simp

/-! ### a sorted list is a non-decreasing knot function -/

theorem fnOf_cons_succ (a b : K) (r : List K) (i : ℕ) : fnOf (a :: b :: r) (i + 1) = fnOf (b :: r) i := by
  simp [fnOf, List.getLastD_eq_getLast?, List.getLast?_cons_cons]

/-- `isSortedB` (the check of `knotvector.check`) makes `Monotone (fnOf ·)` decidable on concrete lists -/
theorem fnOf_monotone_of_isSortedB : ∀ (l : List K), isSortedB l = true → Monotone (fnOf l)
  | [], _ => by
    apply monotone_nat_of_le_succ; intro i; simp [fnOf]
  | [a], _ => by
    apply monotone_nat_of_le_succ; intro i
    rcases i with _ | i <;> simp [fnOf]
  | a :: b :: r, h => by
    simp only [isSortedB, Bool.and_eq_true, decide_eq_true_eq] at h
    have ih := fnOf_monotone_of_isSortedB (b :: r) h.2
    apply monotone_nat_of_le_succ
    intro i
    rcases i with _ | i
    · rw [fnOf_cons_succ]
      simpa [fnOf] using h.1
    · rw [fnOf_cons_succ, fnOf_cons_succ]
      exact ih (Nat.le_succ i)

/-! ### averaged parameters of a surface (`compute_params_surface`) -/

theorem averageParams_length (cdsList : List (List K)) (n : ℕ) : (averageParams cdsList n).length = n := by
  simp [averageParams]

theorem averageParams_getD (cdsList : List (List K)) (n i : ℕ) (hi : i < n) :
    (averageParams cdsList n).getD i 0
      = (cdsList.map (fun c => (computeParams c).getD i 0)).sum / (cdsList.length : K) := by
  simp [averageParams, List.getD_eq_getElem?_getD, List.getElem?_range hi, sumL_eq_sum, List.map_map,
    Function.comp_def]

theorem averageParams_first (cdsList : List (List K)) (n : ℕ) (hn : 0 < n) :
    (averageParams cdsList n).getD 0 0 = 0 := by
  rw [averageParams_getD cdsList n 0 hn]
  have : cdsList.map (fun c => (computeParams c).getD 0 0) = cdsList.map (fun _ => (0:K)) :=
    List.map_congr_left (fun c _ => computeParams_first c)
  rw [this]
  simp

theorem averageParams_last (cdsList : List (List K)) (n : ℕ) (hn : 0 < n) (hne : cdsList ≠ [])
    (h : ∀ c ∈ cdsList, c.length + 1 = n ∧ sumL c ≠ 0) :
    (averageParams cdsList n).getD (n - 1) 0 = 1 := by
  rw [averageParams_getD cdsList n (n - 1) (by omega)]
  have : cdsList.map (fun c => (computeParams c).getD (n - 1) 0) = cdsList.map (fun _ => (1:K)) := by
    apply List.map_congr_left
    intro c hc
    obtain ⟨h1, h2⟩ := h c hc
    rw [show n - 1 = c.length by omega]
    exact computeParams_last c h2
  rw [this]
  have hlen : (cdsList.length : K) ≠ 0 := by
    have : 0 < cdsList.length := List.length_pos_iff.mpr hne
    exact ne_of_gt (by exact_mod_cast this)
  simp [div_self hlen]

theorem averageParams_mono (cdsList : List (List K)) (n : ℕ)
    (h : ∀ c ∈ cdsList, c.length + 1 = n ∧ (∀ x ∈ c, 0 ≤ x) ∧ 0 < sumL c)
    (i j : ℕ) (hij : i ≤ j) (hj : j < n) :
    (averageParams cdsList n).getD i 0 ≤ (averageParams cdsList n).getD j 0 := by
  rw [averageParams_getD cdsList n i (by omega), averageParams_getD cdsList n j hj]
  apply div_le_div_of_nonneg_right _ (Nat.cast_nonneg _)
  apply List.sum_le_sum
  intro c hc
  obtain ⟨h1, h2, h3⟩ := h c hc
  exact computeParams_mono c h2 h3 i j hij (by omega)

end ordered
end Geomdl
