import NurbsVerif.Lemmas.A54Step

/-! One pass of the outer loop of A5.4 (after the shifting `while`): the copy, the `for l` blends and
    the knot write turn the represented curve `(V, Q)` into `insertOne p tol (V, Q) x`. -/
namespace Geomdl
open Blossom
variable {K : Type} [Field K] [LinearOrder K] [IsStrictOrderedRing K]

theorem pts_eq_of_coords (d : ℕ) (a b : List K) (ha : a.length = d) (hb : b.length = d)
    (h : ∀ jc, a.getD jc 0 = b.getD jc 0) : a = b :=
  list_ext_getD a b 0 (by rw [ha, hb]) (fun j _ => h j)

theorem a54Insert_rep (p d : ℕ) (U : List K) (P : List (List K)) (nX a : ℕ) (V : List K) (Q : List (List K)) (j : ℕ)
    (x tol : K) (s1 : A54St K) (h : Rep p U P nX a s1 V Q (j+1))
    (hwf : CurveWF p d V Q) (hreq : ReqOk p (V, Q) (x, 1, findMultiplicity x V tol)) (hcnt : V.count x ≤ p)
    (hsep : ∀ y ∈ V, y = x ∨ tol < |y - x|)
    (hi1 : fnOf V s1.i ≤ x) (hi2 : x ≤ fnOf V (s1.i + 1)) (hiP : s1.i < P.length) :
    Rep p U P nX a
      { kv := s1.kv.set s1.k x,
        cp := (List.range p).foldl (a54Blend p (fnOf U) x tol s1.kv s1.i s1.k)
                (s1.cp.set (s1.k - p - 1) (ptsGet s1.cp (s1.k - p))),
        i := s1.i, k := s1.k - 1 }
      (insertOne p tol (V, Q) x).1 (insertOne p tol (V, Q) x).2 j := by
  obtain ⟨F1, F2, F3, F4, F5⟩ := insertOne_pos p d tol V Q x s1.i hwf hreq hcnt hi1 hi2
  have hk := h.hk; have hpa := h.pa; have hiU := h.iU; have hjn := h.jn; have hai := h.ai
  have hVl := h.Vlen; have hQl := h.Qlen; have hUP := h.UP; have hkvl := h.kvlen; have hcpl := h.cplen
  have hVne : V ≠ [] := by intro e; rw [e] at hVl; simp at hVl; omega
  set cp1 := s1.cp.set (s1.k - p - 1) (ptsGet s1.cp (s1.k - p)) with hcp1
  have hcp1len : cp1.length = P.length + nX := by rw [hcp1, List.length_set, hcpl]
  have hQget : ∀ m, m < Q.length → (ptsGet Q m).length = d := fun m hm => ptsGet_length hwf.net m hm
  have hQ'get : ∀ m, m < Q.length + 1 → (ptsGet (insertOne p tol (V, Q) x).2 m).length = d :=
    fun m hm => ptsGet_length F4 m (by rw [F3]; exact hm)
  -- untouched points of the new curve
  have hQ'low : ∀ m, m + p ≤ s1.i → ptsGet (insertOne p tol (V, Q) x).2 m = ptsGet Q m := by
    intro m hm
    apply pts_eq_of_coords d _ _ (hQ'get m (by omega)) (hQget m (by omega))
    intro jc
    rw [F5 m (by omega) jc]; unfold insPos; rw [if_pos hm]
  have hQ'high : ∀ m, s1.i < m → m < Q.length + 1 → ptsGet (insertOne p tol (V, Q) x).2 m = ptsGet Q (m - 1) := by
    intro m hm hm2
    apply pts_eq_of_coords d _ _ (hQ'get m hm2) (hQget (m - 1) (by omega))
    intro jc
    rw [F5 m hm2 jc]; unfold insPos; rw [if_neg (by omega), if_neg (by omega)]
  have hsweep := a54Sweep_get p (fnOf U) x tol s1.kv s1.i s1.k cp1 p (by rw [hcp1len]; omega)
  have hcp1get : ∀ t, t ≠ s1.k - p - 1 → ptsGet cp1 t = ptsGet s1.cp t := by
    intro t ht
    unfold ptsGet
    rw [hcp1, getD_set_of_ne _ _ _ _ _ (fun e => ht e.symm)]
  refine ⟨by simp only; omega, by omega, by simp [hkvl], ?_, by rw [F2]; omega, by rw [F3]; omega,
    ?_, ?_, ?_, ?_, ?_, ?_, hai, hiU, hpa, hUP⟩
  · simp only; rw [a54Sweep_length, hcp1len]
  · -- kvR
    intro t ht1 ht2
    simp only at ht1 ⊢
    rw [F1]
    by_cases e : t = s1.k
    · subst e
      rw [getD_set_eq _ _ _ _ (by rw [hkvl]; exact ht2)]
      unfold Uh
      rw [if_neg (by omega), if_pos (by omega)]
    · rw [getD_set_of_ne _ _ _ _ _ (fun e' => e e'.symm), h.kvR t (by omega) ht2]
      unfold Uh
      rw [if_neg (by omega), if_neg (by omega)]
      congr 1
  · -- kvL
    intro t ht
    simp only
    rw [getD_set_of_ne _ _ _ _ _ (by omega)]
    exact h.kvL t ht
  · -- cpR
    intro t ht1 ht2
    simp only at ht1 ⊢
    rw [hsweep t]
    by_cases cA : t = s1.k - p - 1
    · rw [if_neg (by omega)]
      have e1 : ptsGet cp1 t = ptsGet s1.cp (s1.k - p) := by
        unfold ptsGet
        rw [hcp1, cA, getD_set_eq _ _ _ _ (by rw [hcpl]; omega)]
        rfl
      rw [e1, h.cpR (s1.k - p) (by omega) (by omega), hQ'low (t - j) (by omega)]
      congr 1; omega
    · by_cases cB : t < s1.k
      · rw [if_pos (by omega)]
        have hm1 : t - j ≤ s1.i := by omega
        have hm2 : s1.i < t - j + p := by omega
        have ea : ptsGet cp1 t = ptsGet Q (t - j - 1) := by
          rw [hcp1get t cA, h.cpR t (by omega) ht2]; congr 1
        have eb : ptsGet cp1 (t + 1) = ptsGet Q (t - j) := by
          rw [hcp1get (t + 1) (by omega), h.cpR (t + 1) (by omega) (by omega)]; congr 1; omega
        have ekv : s1.kv.getD (s1.k + (t - (s1.k - p) + 1)) 0 = fnOf V (t - j + p) := by
          rw [h.kvR _ (by omega) (by omega)]; congr 1; omega
        have eU : fnOf U (s1.i - p + (t - (s1.k - p) + 1)) = fnOf V (t - j) := by
          rw [h.VU (t - j) hm1]; congr 1; omega
        obtain ⟨hl, hc⟩ := a54Pt_coord p (fnOf U) x tol s1.kv s1.i s1.k (t - (s1.k - p)) d
          (ptsGet Q (t - j - 1)) (ptsGet Q (t - j)) (hQget _ (by omega)) (hQget _ (by omega))
          (by rw [ekv]; exact hsep _ (fnOf_mem V hVne _))
        rw [ea, eb]
        apply pts_eq_of_coords d _ _ hl (hQ'get (t - j) (by omega))
        intro jc
        rw [hc jc, ekv, eU, F5 (t - j) (by omega) jc]
        unfold insPos
        rw [if_neg (by omega), if_pos hm1]
        have hden : fnOf V (t - j + p) - fnOf V (t - j) ≠ 0 := by
          intro e0
          have e0' : fnOf V (t - j + p) = fnOf V (t - j) := sub_eq_zero.mp e0
          have l1 : fnOf V (t - j) ≤ x := le_trans (hwf.mono hm1) hi1
          have l2 : x ≤ fnOf V (t - j + p) := le_trans hi2 (hwf.mono (by omega))
          have e1 : fnOf V (t - j) = x := le_antisymm l1 (by rw [← e0']; exact l2)
          exact no_long_run V hwf.mono x p hcnt (t - j) (by omega) e1 (by rw [e0']; exact e1)
        rw [blend_scalar _ _ _ _ _ hden]
        unfold dbStep
        rfl
      · rw [if_neg (by omega), hcp1get t cA, h.cpR t (by omega) ht2, hQ'high (t - j) (by omega) (by omega)]
        congr 1
  · -- cpL
    intro t ht
    simp only
    rw [hsweep t, if_neg (by omega), hcp1get t (by omega)]
    exact h.cpL t ht
  · -- VU
    intro t ht
    simp only at ht
    rw [F1]
    unfold Uh
    rw [if_pos ht]
    exact h.VU t ht
  · -- QP
    intro t ht
    simp only at ht
    rw [hQ'low t ht]
    exact h.QP t ht

end Geomdl
