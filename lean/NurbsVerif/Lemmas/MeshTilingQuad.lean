import NurbsVerif.Lemmas.MeshGeom

/-!
# Vertex parameters of `make_quad_mesh` (C15, repair F-15c)

`quadVertexUV n su sv` is the list of parameter pairs the repaired `make_quad_mesh` stores in its vertices.
For the `su·sv` evaluated points of a surface they are the grid parameters `(i/(su-1), j/(sv-1))` - the
parameters `linspace(0,1,su)[i]`, `linspace(0,1,sv)[j]` at which point `j + i·sv` was evaluated - and the list
is the one the triangle mesher produces for vertex spacing 1.
-/
namespace Geomdl.Mesh
variable {K : Type} [Field K] [LinearOrder K] [IsStrictOrderedRing K]

omit [LinearOrder K] [IsStrictOrderedRing K] in
theorem quadVertexUV_length (n su sv : ℕ) : (quadVertexUV (K := K) n su sv).length = n := by
  simp [quadVertexUV]

omit [LinearOrder K] [IsStrictOrderedRing K] in
/-- the vertex of grid position `(i, j)` (id `j + i·sv`) gets `(i/(su-1), j/(sv-1))` -/
theorem quadVertexUV_getElem? (su sv i j : ℕ) (hi : i < su) (hj : j < sv) :
    (quadVertexUV (K := K) (su * sv) su sv)[gridVid sv i j]? =
      some ((i : K) / ((su - 1 : ℕ) : K), (j : K) / ((sv - 1 : ℕ) : K)) := by
  have hlt : gridVid sv i j < su * sv := gridVid_lt hi hj
  unfold quadVertexUV
  rw [List.getElem?_map, List.getElem?_range hlt]
  have h1 : gridVid sv i j / sv = i := by
    unfold gridVid
    rw [Nat.add_mul_div_right _ _ (by omega : 0 < sv), Nat.div_eq_of_lt hj, Nat.zero_add]
  have h2 : gridVid sv i j % sv = j := by
    unfold gridVid
    rw [Nat.add_mul_mod_self_right, Nat.mod_eq_of_lt hj]
  simp only [Option.map_some, h1, h2]

omit [LinearOrder K] [IsStrictOrderedRing K] in
theorem meshJump_one (size : ℕ) : meshJump (K := K) size 1 = 1 / ((size - 1 : ℕ) : K) := by
  unfold meshJump; simp

/-- **the quad mesher and the triangle mesher (vertex spacing 1) store the same parameters**, vertex by vertex -/
theorem quadVertexUV_eq_tri (su sv : ℕ) (hu : 2 ≤ su) (hv : 2 ≤ sv) :
    quadVertexUV (K := K) (su * sv) su sv = (makeTriangleMesh (K := K) su sv 1).uv := by
  have gu : gridCount su 1 = su := gridCount_one su
  have gv : gridCount sv 1 = sv := gridCount_one sv
  rw [makeTriangleMesh_eq su sv 1 (by omega) (by omega)]
  apply List.ext_getElem?
  intro k
  by_cases hk : k < su * sv
  · have hsv : 0 < sv := by omega
    have hi : k / sv < su := (Nat.div_lt_iff_lt_mul hsv).2 hk
    have hj : k % sv < sv := Nat.mod_lt _ hsv
    have ek : k = gridVid sv (k / sv) (k % sv) := by
      unfold gridVid; rw [Nat.add_comm, Nat.mul_comm]; exact (Nat.div_add_mod k sv).symm
    have h2 := meshVertices_getElem? (K := K) su sv 1 (k / sv) (k % sv) (by omega) (by omega)
    rw [gv] at h2
    rw [ek, quadVertexUV_getElem? su sv _ _ hi hj, List.getElem?_map, h2]
    simp only [Option.map_some, accParam_eq, meshJump_one]
    congr 2 <;> ring
  · rw [List.getElem?_eq_none (by rw [quadVertexUV_length]; omega),
      List.getElem?_eq_none (by rw [List.length_map, meshVertices_length, gu, gv]; omega)]

/-- the stored parameters are the sample parameters `linspace(0,1,size)[·]` of the evaluated grid -/
theorem quadVertexUV_linspace (su sv i j : ℕ) (hi : i < su) (hj : j < sv) :
    (quadVertexUV (K := K) (su * sv) su sv)[gridVid sv i j]? =
      some ((linspaceCore (0 : K) 1 su).getD i 0, (linspaceCore (0 : K) 1 sv).getD j 0) := by
  rw [quadVertexUV_getElem? su sv i j hi hj]
  have a := accParam_eq_linspace (K := K) su 1 i (by omega)
  have b := accParam_eq_linspace (K := K) sv 1 j (by omega)
  rw [accParam_eq, meshJump_one, Nat.mul_one] at a b
  rw [← a, ← b]
  congr 2 <;> ring

end Geomdl.Mesh
