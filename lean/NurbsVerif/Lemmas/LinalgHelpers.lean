import NurbsVerif.Model.Linalg
import NurbsVerif.Model.Eval
import NurbsVerif.Lemmas.LU
import Mathlib.Algebra.BigOperators.Intervals
import Mathlib.Algebra.Field.Basic
import Mathlib.Algebra.Order.Field.Basic
import Mathlib.Algebra.CharZero.Defs
import Mathlib.Tactic.Ring
import Mathlib.Data.Nat.Choose.Basic
import Mathlib.Data.Nat.Factorial.Basic
import Mathlib.LinearAlgebra.CrossProduct
import Mathlib.Data.List.GetD
/-
  Elementary facts about the vector / matrix helpers of `Model/Linalg.lean` (model of
  geomdl/linalg.py): entries of `tabulate` / `identity`, dot product, squared norm, cross product,
  transpose, matrix product, factorial / binomial coefficient, `linspace`.
-/
namespace Lin
open Finset

section field
variable {K : Type} [Field K]

/-! ### `tabulate`, `identity` -/

theorem ent_tabulate (r c : ℕ) (f : ℕ → ℕ → K) (i j : ℕ) (hi : i < r) (hj : j < c) :
    ent (tabulate r c f) i j = f i j := by
  simp [ent, tabulate, List.getD_eq_getElem?_getD, hi, hj]

theorem tabulate_length (r c : ℕ) (f : ℕ → ℕ → K) : (tabulate r c f).length = r := by
  simp [tabulate]

theorem tabulate_row_length (r c : ℕ) (f : ℕ → ℕ → K) :
    ∀ row ∈ tabulate r c f, row.length = c := by
  intro row h
  simp only [tabulate, List.mem_map, List.mem_range] at h
  obtain ⟨i, _, rfl⟩ := h
  simp

theorem ent_identity (n i j : ℕ) (hi : i < n) (hj : j < n) :
    ent (identity n : List (List K)) i j = if i = j then 1 else 0 := by
  unfold identity
  rw [ent_tabulate _ _ _ _ _ hi hj]

/-! ### dot product, squared norm -/

theorem foldl_add_eq {α : Type} (g : α → K) (l : List α) (a : K) :
    l.foldl (fun acc x => acc + g x) a = a + (l.map g).sum := by
  induction l generalizing a with
  | nil => simp
  | cons x l ih => simp [ih, add_assoc]

theorem vectorDot_eq_zipWith_sum (v w : List K) :
    vectorDot v w = (List.zipWith (· * ·) v w).sum := by
  unfold vectorDot
  rw [foldl_add_eq (fun p : K × K => p.1 * p.2), zero_add]
  congr 1
  induction v generalizing w with
  | nil => simp
  | cons a v ih => cases w <;> simp [ih]

theorem vectorDot_eq (v w : List K) :
    vectorDot v w = ∑ i ∈ range (min v.length w.length), v.getD i 0 * w.getD i 0 := by
  rw [vectorDot_eq_zipWith_sum]
  induction v generalizing w with
  | nil => simp
  | cons a v ih =>
    cases w with
    | nil => simp
    | cons b w =>
      simp only [List.zipWith_cons_cons, List.sum_cons, List.length_cons, Nat.succ_min_succ]
      rw [sum_range_succ', ih w]
      simp [add_comm]

theorem vectorDot_comm (v w : List K) : vectorDot v w = vectorDot w v := by
  rw [vectorDot_eq, vectorDot_eq, min_comm]
  exact sum_congr rfl (fun _ _ => mul_comm _ _)

theorem normSq_cons (a : K) (v : List K) : normSq (a :: v) = a * a + normSq v := by
  unfold normSq
  rw [foldl_add_eq (fun x : K => x * x), foldl_add_eq (fun x : K => x * x)]
  simp

theorem normSq_nil : normSq ([] : List K) = 0 := rfl

theorem normSq_eq_dot (v : List K) : normSq v = vectorDot v v := by
  rw [vectorDot_eq_zipWith_sum, List.zipWith_self]
  unfold normSq
  rw [foldl_add_eq (fun x : K => x * x), zero_add]

/-! ### cross product -/

theorem vectorCross_three (a0 a1 a2 b0 b1 b2 : K) :
    vectorCross [a0, a1, a2] [b0, b1, b2]
      = some [a1 * b2 - a2 * b1, a2 * b0 - a0 * b2, a0 * b1 - a1 * b0] := rfl

theorem vectorCross_two (a0 a1 b0 b1 : K) :
    vectorCross [a0, a1] [b0, b1] = some [0, 0, a0 * b1 - a1 * b0] := by
  show some [a1 * 0 - 0 * b1, 0 * b0 - a0 * 0, a0 * b1 - a1 * b0] = _
  simp

theorem vectorCross_orthogonal (v w c : List K) (hv : v.length = 3) (hw : w.length = 3)
    (h : vectorCross v w = some c) : vectorDot c v = 0 ∧ vectorDot c w = 0 := by
  obtain ⟨a0, a1, a2, rfl⟩ := List.length_eq_three.mp hv
  obtain ⟨b0, b1, b2, rfl⟩ := List.length_eq_three.mp hw
  rw [vectorCross_three] at h
  injection h with h
  subst h
  constructor <;>
  · simp only [vectorDot, List.zip_cons_cons, List.foldl_cons, List.zip_nil_right, List.foldl_nil]
    ring

theorem vectorCross_anticomm (v w : List K) (hv : v.length = 3) (hw : w.length = 3) :
    vectorCross w v = (vectorCross v w).map (fun c => c.map (fun x => -x)) := by
  obtain ⟨a0, a1, a2, rfl⟩ := List.length_eq_three.mp hv
  obtain ⟨b0, b1, b2, rfl⟩ := List.length_eq_three.mp hw
  have e1 : b1 * a2 - b2 * a1 = -(a1 * b2 - a2 * b1) := by ring
  have e2 : b2 * a0 - b0 * a2 = -(a2 * b0 - a0 * b2) := by ring
  have e3 : b0 * a1 - b1 * a0 = -(a0 * b1 - a1 * b0) := by ring
  simp only [vectorCross_three, Option.map_some, List.map_cons, List.map_nil, e1, e2, e3]

theorem vectorCross_eq_crossProduct (a0 a1 a2 b0 b1 b2 : K) :
    vectorCross [a0, a1, a2] [b0, b1, b2]
      = some [(crossProduct ![a0, a1, a2] ![b0, b1, b2]) 0,
              (crossProduct ![a0, a1, a2] ![b0, b1, b2]) 1,
              (crossProduct ![a0, a1, a2] ![b0, b1, b2]) 2] := by
  rw [vectorCross_three, cross_apply]
  simp

theorem vectorCross_none (v w : List K) :
    vectorCross v w = none ↔
      ¬ (v.length = 2 ∨ v.length = 3) ∨ ¬ (w.length = 2 ∨ w.length = 3) := by
  rcases v with _ | ⟨a, _ | ⟨b, _ | ⟨c, _ | ⟨d, t⟩⟩⟩⟩ <;>
  rcases w with _ | ⟨a', _ | ⟨b', _ | ⟨c', _ | ⟨d', t'⟩⟩⟩⟩ <;>
  simp [vectorCross]

/-! ### transpose -/

theorem isRect_iff (m : List (List K)) (c : ℕ) :
    isRect m c = true ↔ ∀ row ∈ m, row.length = c := by
  simp [isRect, List.all_eq_true]

theorem matrixTranspose_length (m : List (List K)) :
    (matrixTranspose m).length = (m.headD []).length := by
  simp [matrixTranspose]

theorem matrixTranspose_ent (m : List (List K)) (i j : ℕ) (hi : i < (m.headD []).length)
    (hj : j < m.length) : ent (matrixTranspose m) i j = ent m j i := by
  rw [List.headD_eq_head?_getD] at hi
  simp [ent, matrixTranspose, List.getD_eq_getElem?_getD, hi, hj]

theorem matrixTranspose_row_length (m : List (List K)) :
    ∀ row ∈ matrixTranspose m, row.length = m.length := by
  intro row h
  simp only [matrixTranspose, List.mem_map, List.mem_range] at h
  obtain ⟨i, _, rfl⟩ := h
  simp

theorem matrixTranspose_involutive (m : List (List K)) (c : ℕ) (hc : 0 < c) (hm : m ≠ [])
    (hrect : ∀ row ∈ m, row.length = c) : matrixTranspose (matrixTranspose m) = m := by
  have hhead : (m.headD []).length = c := by
    cases m with
    | nil => exact absurd rfl hm
    | cons r m => simpa using hrect r (by simp)
  have hheadT : ((matrixTranspose m).headD []).length = m.length := by
    unfold matrixTranspose
    rw [hhead]
    obtain ⟨c', rfl⟩ := Nat.exists_eq_succ_of_ne_zero (Nat.pos_iff_ne_zero.mp hc)
    simp [List.range_succ_eq_map]
  apply List.ext_getElem
  · rw [matrixTranspose_length, hheadT]
  · intro i h1 h2
    have hrow : m[i].length = c := hrect _ (List.getElem_mem h2)
    apply List.ext_getElem
    · have hhead' := hhead
      rw [List.headD_eq_head?_getD] at hhead'
      simp [matrixTranspose, hhead', hrow]
    · intro j h3 h4
      simp [matrixTranspose, List.getD_eq_getElem?_getD, h2, h4]

/-! ### matrix product -/

theorem matrixMultiply_length (a b : List (List K)) :
    (matrixMultiply a b).length = a.length := by
  simp [matrixMultiply]

theorem matrixMultiply_headD_length (a b : List (List K)) (ha : a ≠ []) :
    ((matrixMultiply a b).headD []).length = (b.headD []).length := by
  cases a with
  | nil => exact absurd rfl ha
  | cons r a => simp [matrixMultiply]

theorem matrixMultiply_ent (a b : List (List K)) (i j : ℕ) (hi : i < a.length)
    (hj : j < (b.headD []).length) :
    ent (matrixMultiply a b) i j = ∑ k ∈ range b.length, ent a i k * ent b k j := by
  rw [List.headD_eq_head?_getD] at hj
  simp [ent, matrixMultiply, sumTo_eq, List.getD_eq_getElem?_getD, hi, hj]

theorem matrixVector_length (a : List (List K)) (v : List K) :
    (matrixVector a v).length = a.length := by
  simp [matrixVector]

theorem matrixVector_ent (a : List (List K)) (v : List K) (i : ℕ) (hi : i < a.length) :
    (matrixVector a v).getD i 0 = ∑ k ∈ range v.length, ent a i k * v.getD k 0 := by
  simp [ent, vent, matrixVector, sumTo_eq, List.getD_eq_getElem?_getD, hi]

/-! ### factorial, binomial coefficient -/

theorem fact_eq (n : ℕ) : fact n = n.factorial := by
  induction n with
  | zero => rfl
  | succ n ih => simp [fact, Nat.factorial_succ, ih]

theorem binomialCoefficient_eq_choose (k i : ℕ) : binomialCoefficient k i = Nat.choose k i := by
  unfold binomialCoefficient
  split
  · rename_i h
    exact (Nat.choose_eq_zero_of_lt h).symm
  · rename_i h
    rw [fact_eq, fact_eq, fact_eq, Nat.choose_eq_factorial_div_factorial (by omega), Nat.mul_comm]

theorem binom_eq_choose (n k : ℕ) : Geomdl.binom n k = Nat.choose n k := by
  induction n generalizing k with
  | zero => cases k <;> simp [Geomdl.binom]
  | succ n ih => cases k <;> simp [Geomdl.binom, Nat.choose_succ_succ, ih]

theorem binomialCoefficient_eq_binom (k i : ℕ) : binomialCoefficient k i = Geomdl.binom k i := by
  rw [binomialCoefficient_eq_choose, binom_eq_choose]

/-! ### `linspace` -/

theorem linspaceCore_length (a b : K) (n : ℕ) : (Geomdl.linspaceCore a b n).length = n := by
  simp [Geomdl.linspaceCore]

theorem linspaceCore_getD (a b : K) (n i : ℕ) (hi : i < n) :
    (Geomdl.linspaceCore a b n).getD i 0 = a + (i : K) * (b - a) / ((n - 1 : ℕ) : K) := by
  simp [Geomdl.linspaceCore, List.getD_eq_getElem?_getD, hi]

theorem linspaceCore_first (a b : K) (n : ℕ) (hn : 0 < n) :
    (Geomdl.linspaceCore a b n).getD 0 0 = a := by
  rw [linspaceCore_getD a b n 0 hn]
  simp

theorem linspaceCore_last [CharZero K] (a b : K) (n : ℕ) (hn : 2 ≤ n) :
    (Geomdl.linspaceCore a b n).getD (n - 1) 0 = b := by
  rw [linspaceCore_getD a b n (n - 1) (by omega)]
  have h : ((n - 1 : ℕ) : K) ≠ 0 := Nat.cast_ne_zero.mpr (by omega)
  have h2 : ((n - 1 : ℕ) : K) * (b - a) / ((n - 1 : ℕ) : K) = b - a := by
    rw [mul_comm, mul_div_assoc, div_self h, mul_one]
  rw [h2]
  ring

/-! ### entrywise helpers -/

theorem vectorMultiply_length (v : List K) (s : K) : (vectorMultiply v s).length = v.length := by
  simp [vectorMultiply]

theorem vectorMultiply_getD (v : List K) (s : K) (i : ℕ) :
    (vectorMultiply v s).getD i 0 = v.getD i 0 * s := by
  simp only [vectorMultiply, List.getD_eq_getElem?_getD, List.getElem?_map]
  cases v[i]? <;> simp

theorem vectorSum_length (v w : List K) (c : K) :
    (vectorSum v w c).length = min v.length w.length := by
  simp [vectorSum]

theorem vectorSum_getD (v w : List K) (c : K) (i : ℕ) (hv : i < v.length) (hw : i < w.length) :
    (vectorSum v w c).getD i 0 = v.getD i 0 + c * w.getD i 0 := by
  simp [vectorSum, List.getD_eq_getElem?_getD, List.getElem?_zipWith, hv, hw]

theorem vectorGenerate_length (s e : List K) :
    (vectorGenerate s e).length = min s.length e.length := by
  simp [vectorGenerate]

theorem vectorGenerate_getD (s e : List K) (i : ℕ) (hs : i < s.length) (he : i < e.length) :
    (vectorGenerate s e).getD i 0 = e.getD i 0 - s.getD i 0 := by
  simp [vectorGenerate, List.getD_eq_getElem?_getD, List.getElem?_zipWith, hs, he]

theorem pointTranslate_length (p v : List K) :
    (pointTranslate p v).length = min p.length v.length := by
  simp [pointTranslate]

theorem pointTranslate_getD (p v : List K) (i : ℕ) (hp : i < p.length) (hv : i < v.length) :
    (pointTranslate p v).getD i 0 = p.getD i 0 + v.getD i 0 := by
  simp [pointTranslate, List.getD_eq_getElem?_getD, List.getElem?_zipWith, hp, hv]

theorem matrixScalar_length (m : List (List K)) (s : K) : (matrixScalar m s).length = m.length := by
  simp [matrixScalar]

theorem matrixScalar_ent (m : List (List K)) (s : K) (i j : ℕ) :
    ent (matrixScalar m s) i j = ent m i j * s := by
  simp only [ent, matrixScalar, List.getD_eq_getElem?_getD, List.getElem?_map]
  cases m[i]? with
  | none => simp
  | some r =>
    simp only [Option.map_some, Option.getD_some, List.getElem?_map]
    cases r[j]? <;> simp

end field

section ordered
variable {K : Type} [Field K] [LinearOrder K] [IsStrictOrderedRing K]

theorem normSq_nonneg (v : List K) : 0 ≤ normSq v := by
  induction v with
  | nil => exact le_of_eq normSq_nil.symm
  | cons a v ih => rw [normSq_cons]; exact add_nonneg (mul_self_nonneg a) ih

theorem normSq_eq_zero_iff (v : List K) : normSq v = 0 ↔ ∀ x ∈ v, x = 0 := by
  induction v with
  | nil => simp [normSq_nil]
  | cons a v ih =>
    rw [normSq_cons, add_eq_zero_iff_of_nonneg (mul_self_nonneg a) (normSq_nonneg v),
      mul_self_eq_zero, ih]
    simp

end ordered

end Lin
