import NurbsVerif.Lemmas.SplitPieces

/-! Both pieces of a cut coincide with the uncut curve as functions of the parameter, and are again
    well-formed clamped curves. -/
set_option linter.unusedSectionVars false
namespace Geomdl
open Blossom
variable {K : Type} [Field K] [LinearOrder K] [IsStrictOrderedRing K]
variable {p d : ℕ} {Wl : List K} {Q : List (List K)} {ub : K} {m : ℕ}

/-- normalisation keeps a curve definition well formed -/
theorem CurveWF.normalize {V : List K} {P : List (List K)} (hwf : CurveWF p d V P)
    (hrange : V.headD 0 < V.getLastD 0) : CurveWF p d (knotNormalize V) P := by
  have hne : V ≠ [] := by
    intro e; have := hwf.len; rw [e] at this; simp at this
  have hpos : 0 < V.getLastD 0 - V.headD 0 := by linarith
  refine ⟨?_, ?_, hwf.pn, ?_, hwf.net⟩
  · intro i j hij
    exact (knotNormalize_spec V hne hrange).2.2.2 i j (hwf.mono hij)
  · rw [(knotNormalize_spec V hne hrange).1]; exact hwf.len
  · rw [fnOf_knotNormalize' V _ hne, fnOf_knotNormalize' V _ hne, div_lt_div_iff_of_pos_right hpos]
    linarith [hwf.last]

/-- the left piece (before normalisation) is a well-formed curve -/
theorem CutOk.leftWF (h : CutOk p d Wl Q ub m) : CurveWF p d (leftKv Wl ub m) (Q.take (m - p + 1)) := by
  have hlen := h.len; have hm := h.hm; have hpm := h.hpm; have hp := h.hp
  have hQlen : (Q.take (m - p + 1)).length = m - p + 1 := by simp; omega
  refine ⟨h.leftMono, ?_, ?_, ?_, ?_⟩
  · rw [hQlen]; simp [leftKv]; omega
  · rw [hQlen]; omega
  · rw [hQlen, fnOf_leftKv_le Wl ub m _ (by omega) (by omega), fnOf_leftKv_le Wl ub m _ (by omega) (by omega)]
    have e : m - p + 1 - 1 = m - p := by omega
    rw [e, h.mult (m - p + 1) (by omega) (by omega)]
    exact h.below
  · intro pt hpt; exact h.wf.net pt (List.mem_of_mem_take hpt)

/-- the right piece (before normalisation) is a well-formed curve -/
theorem CutOk.rightWF (h : CutOk p d Wl Q ub m) : CurveWF p d (rightKv p Wl ub m) (Q.drop (m - p)) := by
  have hlen := h.len; have hm := h.hm; have hpm := h.hpm; have hp := h.hp
  have hQlen : (Q.drop (m - p)).length = Q.length - (m - p) := by simp
  refine ⟨h.rightMono, ?_, ?_, ?_, ?_⟩
  · rw [hQlen]; simp [rightKv]; omega
  · rw [hQlen]; omega
  · rw [hQlen, fnOf_rightKv_gt p Wl ub m (Q.length - (m - p)) (by omega) (by omega) (by omega)]
    have e : Q.length - (m - p) + (m - p) = Q.length := by omega
    rw [e]
    by_cases hc : m + 1 = Q.length
    · have e2 : Q.length - (m - p) - 1 = p := by omega
      rw [e2, fnOf_rightKv_le p Wl ub m p (le_refl _), ← hc]
      exact h.above
    · rw [fnOf_rightKv_gt p Wl ub m _ (by omega) (by omega) (by omega)]
      have e2 : Q.length - (m - p) - 1 + (m - p) = Q.length - 1 := by omega
      rw [e2]; exact h.wf.last
  · intro pt hpt; exact h.wf.net pt (List.mem_of_mem_drop hpt)

theorem CutOk.leftRange (h : CutOk p d Wl Q ub m) :
    (leftKv Wl ub m).headD 0 = fnOf Wl p ∧ (leftKv Wl ub m).getLastD 0 = ub := by
  rw [leftKv_head _ _ _ h.ne, h.c0]; exact ⟨rfl, leftKv_last Wl ub m⟩

theorem CutOk.rightRange (h : CutOk p d Wl Q ub m) :
    (rightKv p Wl ub m).headD 0 = ub ∧ (rightKv p Wl ub m).getLastD 0 = fnOf Wl Q.length := by
  have hlen := h.len; have hm := h.hm
  refine ⟨rightKv_head p Wl ub m, ?_⟩
  rw [rightKv_last p Wl ub m (by omega)]
  have : Wl.length - 1 = Q.length + p := by omega
  rw [this, h.c1]

/-- **the left piece as a function**: normalised knot vector, first `m-p+1` control points, span found
    by the library's search; every parameter `u ∈ [U_p, ub]` (closed at `ub`) -/
theorem left_piece_curve_u (h : CutOk p d Wl Q ub m) (u : K) (hu0 : fnOf Wl p ≤ u) (hu1 : u ≤ ub) (j : ℕ) :
    (curvePoint p (fnOf (knotNormalize (leftKv Wl ub m))) (Q.take (m - p + 1))
        ((u - fnOf Wl p) / (ub - fnOf Wl p))).getD j 0
      = (curvePoint p (fnOf Wl) Q u).getD j 0 := by
  have hlen := h.len; have hm := h.hm; have hpm := h.hpm; have hp := h.hp
  obtain ⟨hhead, hlast⟩ := h.leftRange
  have hrange : (leftKv Wl ub m).headD 0 < (leftKv Wl ub m).getLastD 0 := by rw [hhead, hlast]; exact h.lo
  have hQlen : (Q.take (m - p + 1)).length = m - p + 1 := by simp; omega
  have hparam : (u - fnOf Wl p) / (ub - fnOf Wl p)
      = (u - (leftKv Wl ub m).headD 0) / ((leftKv Wl ub m).getLastD 0 - (leftKv Wl ub m).headD 0) := by
    rw [hhead, hlast]
  unfold curvePoint
  rw [hQlen, hparam]
  rw [findSpanLinear_normalize p _ _ u (leftKv_ne _ _ _) hrange,
      normalized_piece p _ _ _ u (leftKv_ne _ _ _) (ne_of_gt (sub_pos.mpr hrange))]
  have hVp : fnOf (leftKv Wl ub m) p ≤ u := by rw [fnOf_leftKv_le Wl ub m p (by omega) (by omega)]; exact hu0
  have hVn : fnOf (leftKv Wl ub m) (m - p + 1) = ub := by
    rw [fnOf_leftKv_le Wl ub m _ (by omega) (by omega)]; exact h.mult _ (by omega) (by omega)
  obtain ⟨a1, a2, a3, a4⟩ := findSpanLinear_spec p (fnOf (leftKv Wl ub m)) (m - p + 1) u (by omega) h.leftMono hVp
  set κ := findSpanLinear p (fnOf (leftKv Wl ub m)) (m - p + 1) u with hκ
  rw [show leftKv Wl ub m = Wl.take (m + 1) ++ [ub] from rfl,
      Geomdl.left_piece_coincides p Wl Q ub u m κ (by omega) a1 (by omega)]
  by_cases hlt : u < ub
  · have := findSpanLinear_piece p (fnOf (leftKv Wl ub m)) (fnOf Wl) (m - p + 1) Q.length 0 u (by omega) (by omega)
      h.leftMono h.wf.mono (fun i _ h2 => fnOf_leftKv_le Wl ub m i (by omega) (by omega)) hVp hu0 hu0
      (Or.inl (by rw [hVn]; exact hlt)) (by rw [hVn]; exact hu1)
    rw [this, Nat.add_zero]
  · have hu : u = ub := le_antisymm hu1 (not_lt.mp hlt)
    have hκ1 : κ = m - p := by
      rcases a4 with h' | h'
      · exfalso
        have : fnOf (leftKv Wl ub m) (κ + 1) ≤ fnOf (leftKv Wl ub m) (m - p + 1) := h.leftMono (by omega)
        rw [hVn] at this
        linarith
      · omega
    have hspan : findSpanLinear p (fnOf Wl) Q.length u = m := by
      apply findSpanLinear_unique p (fnOf Wl) Q.length u h.wf.pn h.wf.mono hu0 (by rw [hu]; exact h.hi) m
      · rw [hu, h.atm]
      · rw [hu]; exact h.above
    rw [hspan, hκ1, hu]
    have hm1 : fnOf Wl (m - p + 1) = ub := h.mult _ (by omega) (by omega)
    rw [curvePointAt_clamped_end p (fnOf Wl) Q (m - p) ub d j h.wf.mono (by rw [hm1]; exact h.below)
          (by omega) (by omega) h.wf.net (fun i h1 h2 => h.mult i (by omega) (by omega)) hm1.symm]
    rw [curvePointAt_clamped_start p (fnOf Wl) Q m ub d j h.wf.mono (by rw [h.atm]; exact h.above)
          (by omega) hm h.wf.net (fun i h1 h2 => h.mult i (by omega) h2)]

/-- **the right piece as a function**: every parameter `u ∈ [ub, U_n]`, both ends included -/
theorem right_piece_curve_u (h : CutOk p d Wl Q ub m) (u : K) (hu0 : ub ≤ u) (hu1 : u ≤ fnOf Wl Q.length) (j : ℕ) :
    (curvePoint p (fnOf (knotNormalize (rightKv p Wl ub m))) (Q.drop (m - p))
        ((u - ub) / (fnOf Wl Q.length - ub))).getD j 0
      = (curvePoint p (fnOf Wl) Q u).getD j 0 := by
  have hlen := h.len; have hm := h.hm; have hpm := h.hpm; have hp := h.hp
  obtain ⟨hhead, hlast⟩ := h.rightRange
  have hrange : (rightKv p Wl ub m).headD 0 < (rightKv p Wl ub m).getLastD 0 := by rw [hhead, hlast]; exact h.hi
  have hQlen : (Q.drop (m - p)).length = Q.length - (m - p) := by simp
  have hparam : (u - ub) / (fnOf Wl Q.length - ub)
      = (u - (rightKv p Wl ub m).headD 0) / ((rightKv p Wl ub m).getLastD 0 - (rightKv p Wl ub m).headD 0) := by
    rw [hhead, hlast]
  unfold curvePoint
  rw [hQlen, hparam]
  rw [findSpanLinear_normalize p _ _ u (rightKv_ne _ _ _ _) hrange,
      normalized_piece p _ _ _ u (rightKv_ne _ _ _ _) (ne_of_gt (sub_pos.mpr hrange))]
  have hVp : fnOf (rightKv p Wl ub m) p ≤ u := by rw [fnOf_rightKv_le p Wl ub m p (le_refl _)]; exact hu0
  have hVn : fnOf (rightKv p Wl ub m) (Q.length - (m - p)) = fnOf Wl Q.length := by
    rw [fnOf_rightKv_gt p Wl ub m _ (by omega) (by omega) (by omega)]
    congr 1; omega
  obtain ⟨a1, a2, a3, a4⟩ := findSpanLinear_spec p (fnOf (rightKv p Wl ub m)) (Q.length - (m - p)) u (by omega) h.rightMono hVp
  set κ := findSpanLinear p (fnOf (rightKv p Wl ub m)) (Q.length - (m - p)) u with hκ
  rw [show rightKv p Wl ub m = List.replicate (p + 1) ub ++ Wl.drop (m + 1) from rfl,
      Geomdl.right_piece_coincides p d Wl Q ub u m κ (by omega) (by omega) a1 h.wf.net (by omega) h.mult]
  have hWp : fnOf Wl p ≤ u := le_trans (le_of_lt h.lo) hu0
  have := findSpanLinear_piece p (fnOf (rightKv p Wl ub m)) (fnOf Wl) (Q.length - (m - p)) Q.length (m - p) u
    (by omega) (by omega) h.rightMono h.wf.mono
    (fun i h1 _ => fnOf_rightKv_gt p Wl ub m i (by omega) (by omega) h1) hVp hWp
    (by have e : p + (m - p) = m := by omega
        rw [e, h.atm]; exact hu0)
    (Or.inr (by omega)) (by rw [hVn]; exact hu1)
  rw [this]

end Geomdl
