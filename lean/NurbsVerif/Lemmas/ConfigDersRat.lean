import NurbsVerif.Lemmas.ConfigDers
import NurbsVerif.Lemmas.RatSurfDersModel

/-!
  C17, rational derivatives under an affine change of the knot range.

  A4.2 (`ratCurveDers`) and A4.4 (`ratSurfaceDers`) commute with the chain-rule scaling of a jet: if
  entry `k` (entry `[k][l]`) of the homogeneous input is multiplied by `cᵏ` (`cuᵏ·cvˡ`), so is the
  output.  Proved structurally on the loops of the model (no hypothesis on row lengths or weights).
-/
set_option linter.unusedSectionVars false

namespace Geomdl
open Blossom
variable {K : Type} [Field K] [LinearOrder K] [IsStrictOrderedRing K]

/-! ### generic pieces -/

/-- a list built element by element from its prefix, under an index-wise map of the elements -/
theorem cfg_buildL_mapIdx {α : Type} (f f' : List α → ℕ → α) (φ : ℕ → α → α)
    (h : ∀ acc k, f' (acc.mapIdx φ) k = φ k (f acc k)) : ∀ n, buildL f' n = (buildL f n).mapIdx φ
  | 0 => rfl
  | n+1 => by
      rw [buildL_succ, buildL_succ, cfg_buildL_mapIdx f f' φ h n, List.mapIdx_append, h, buildL_length]
      simp

theorem cfg_fold_scale (s : K) (step step' : List K → ℕ → List K) : ∀ (I : List ℕ) (v : List K),
    (∀ i ∈ I, ∀ v, step' (vsmul s v) i = vsmul s (step v i)) →
    I.foldl step' (vsmul s v) = vsmul s (I.foldl step v)
  | [], _, _ => rfl
  | i :: I, v, h => by
      simp only [List.foldl_cons]
      rw [h i (by simp)]
      exact cfg_fold_scale s step step' I _ (fun j hj => h j (by simp [hj]))

theorem cfg_zipSub_scale (s cc cc' t : K) (h : cc' * t = s * cc) (v D : List K) :
    List.zipWith (fun tmp drv => tmp - cc' * drv) (vsmul s v) (vsmul t D)
      = vsmul s (List.zipWith (fun tmp drv => tmp - cc * drv) v D) := by
  unfold vsmul
  rw [List.zipWith_map, List.map_zipWith]
  congr 1
  funext x y
  have : cc' * (t * y) = s * cc * y := by rw [← mul_assoc, h]
  rw [this]; ring

theorem cfg_zipAdd_scale (s cc cc' t : K) (h : cc' * t = s * cc) (v D : List K) :
    List.zipWith (fun tmp drv => tmp + cc' * drv) (vsmul s v) (vsmul t D)
      = vsmul s (List.zipWith (fun tmp drv => tmp + cc * drv) v D) := by
  unfold vsmul
  rw [List.zipWith_map, List.map_zipWith]
  congr 1
  funext x y
  have : cc' * (t * y) = s * cc * y := by rw [← mul_assoc, h]
  rw [this]; ring

theorem cfg_getLastD_vsmul (s : K) (v : List K) : (vsmul s v).getLastD 0 = s * v.getLastD 0 := by
  unfold vsmul
  have := List.getLastD_map (f := fun x => s * x) (l := v) (a := (0 : K))
  simpa using this

theorem cfg_dropLast_vsmul (s : K) (v : List K) : (vsmul s v).dropLast = vsmul s v.dropLast := by
  unfold vsmul; rw [List.map_dropLast]

theorem cfg_divmap_vsmul (s w : K) (v : List K) : (vsmul s v).map (· / w) = vsmul s (v.map (· / w)) := by
  unfold vsmul
  simp only [List.map_map]
  apply List.map_congr_left
  intro x _
  simp only [Function.comp]
  rw [mul_div_assoc]

theorem cfg_take_vsmul (s : K) (n : ℕ) (v : List K) : (vsmul s v).take n = vsmul s (v.take n) := by
  unfold vsmul; rw [List.map_take]

theorem cfg_pow_split (c : K) (k i : ℕ) (h : i ≤ k) : c ^ k = c ^ i * c ^ (k - i) := by
  rw [← pow_add]; congr 1; omega

/-! ### A4.2 -/

theorem cfg_scaleJet_headD (c : K) (L : List (List K)) : (scaleJet c L).headD [] = L.headD [] := by
  cases L with
  | nil => rfl
  | cons x xs => simp [scaleJet, List.mapIdx_cons, cfg_vsmul_one]

/-- one outer step of A4.2 on scaled data -/
theorem ratRow_scale (c : K) (CKw CK : List (List K)) (k : ℕ) :
    ratRow (scaleJet c CKw) (scaleJet c CK) k = vsmul (c ^ k) (ratRow CKw CK k) := by
  unfold ratRow
  simp only []
  rw [cfg_scaleJet_headD, scaleJet_getD, cfg_dropLast_vsmul,
    cfg_fold_scale (c ^ k)
      (fun v i => List.zipWith (fun tmp drv => tmp - (Nat.cast (binom k i) : K) * (CKw.getD i []).getLastD 0 * drv) v
        (CK.getD (k - i) [])), cfg_divmap_vsmul]
  intro i hi v
  have hik : i ≤ k := by
    have := List.mem_range'_1.mp hi
    omega
  rw [scaleJet_getD, scaleJet_getD, cfg_getLastD_vsmul]
  apply cfg_zipSub_scale
  rw [cfg_pow_split c k i hik]; ring

/-- **A4.2 commutes with the chain-rule scaling**: if entry `k` of the homogeneous derivative list is
    multiplied by `cᵏ`, so is entry `k` of the result -/
theorem ratCurveDers_scale (c : K) (CKw : List (List K)) :
    ratCurveDers (scaleJet c CKw) = scaleJet c (ratCurveDers CKw) := by
  rw [ratCurveDers_eq_fold, ratCurveDers_eq_fold, scaleJet_length]
  exact cfg_buildL_mapIdx (ratRow CKw) (ratRow (scaleJet c CKw)) _ (fun acc k => ratRow_scale c CKw acc k) _

/-! ### A4.4 -/

theorem cfg_mapIdx_getD (ψ : ℕ → List K → List K) (hψ : ∀ l, ψ l [] = []) (row : List (List K)) (b : ℕ) :
    (row.mapIdx ψ).getD b [] = ψ b (row.getD b []) := by
  rw [List.getD_eq_getElem?_getD, List.getD_eq_getElem?_getD, List.getElem?_mapIdx]
  cases row[b]? <;> simp [hψ]

section cell
variable (cu cv : K) (SKLw SKL : List (List (List K))) (row : List (List K)) (k l : ℕ)

theorem cfg_tget_scale (T : List (List (List K))) (a b : ℕ) :
    tget (scaleJet2 cu cv T) a b = vsmul (cu ^ a * cv ^ b) (tget T a b) :=
  scaleJet2_getD cu cv T a b

theorem cfg_getS_scale (a b : ℕ) :
    getS (scaleJet2 cu cv SKL) (row.mapIdx (fun l v => vsmul (cu ^ k * cv ^ l) v)) k a b
      = vsmul (cu ^ a * cv ^ b) (getS SKL row k a b) := by
  unfold getS
  split
  · rename_i h
    subst h
    exact cfg_mapIdx_getD (fun l v => vsmul (cu ^ a * cv ^ l) v) (fun _ => rfl) row b
  · exact cfg_tget_scale cu cv SKL a b

theorem cfg_wOf_scale (i j : ℕ) : wOf (scaleJet2 cu cv SKLw) i j = cu ^ i * cv ^ j * wOf SKLw i j := by
  unfold wOf
  rw [cfg_tget_scale, cfg_getLastD_vsmul]

theorem ratV1_scale :
    ratV1 (scaleJet2 cu cv SKLw) (scaleJet2 cu cv SKL) (row.mapIdx (fun l v => vsmul (cu ^ k * cv ^ l) v)) k l
      = vsmul (cu ^ k * cv ^ l) (ratV1 SKLw SKL row k l) := by
  unfold ratV1
  rw [cfg_tget_scale,
    cfg_fold_scale (cu ^ k * cv ^ l)
      (fun v j => List.zipWith (fun tmp drv => tmp - (Nat.cast (binom l j) : K) * wOf SKLw 0 j * drv) v
        (getS SKL row k k (l - j)))]
  intro j hj v
  have hjl : j ≤ l := by
    have := List.mem_range'_1.mp hj
    omega
  rw [cfg_getS_scale, cfg_wOf_scale]
  apply cfg_zipSub_scale
  rw [cfg_pow_split cv l j hjl]; ring

theorem ratInner_scale (i : ℕ) (hik : i ≤ k) :
    ratInner (scaleJet2 cu cv SKLw) (scaleJet2 cu cv SKL) (row.mapIdx (fun l v => vsmul (cu ^ k * cv ^ l) v)) k l i
      = vsmul (cu ^ k * cv ^ l) (ratInner SKLw SKL row k l i) := by
  unfold ratInner
  rw [cfg_tget_scale, vsmul_length]
  conv_lhs => rw [← vsmul_vzero (cu ^ k * cv ^ l)]
  rw [cfg_fold_scale (cu ^ k * cv ^ l)
      (fun acc j => List.zipWith (fun tmp drv => tmp + (Nat.cast (binom l j) : K) * wOf SKLw i j * drv) acc
        (getS SKL row k (k - i) (l - j)))]
  intro j hj v
  have hjl : j ≤ l := by
    have := List.mem_range'_1.mp hj
    omega
  rw [cfg_getS_scale, cfg_wOf_scale]
  apply cfg_zipAdd_scale
  rw [cfg_pow_split cv l j hjl, cfg_pow_split cu k i hik]; ring

theorem ratV2_scale :
    ratV2 (scaleJet2 cu cv SKLw) (scaleJet2 cu cv SKL) (row.mapIdx (fun l v => vsmul (cu ^ k * cv ^ l) v)) k l
      = vsmul (cu ^ k * cv ^ l) (ratV2 SKLw SKL row k l) := by
  unfold ratV2
  rw [ratV1_scale,
    cfg_fold_scale (cu ^ k * cv ^ l)
      (fun v i => List.zipWith (fun tmp tmp2 => tmp - (Nat.cast (binom k i) : K) * tmp2)
        (List.zipWith (fun tmp drv => tmp - (Nat.cast (binom k i) : K) * wOf SKLw i 0 * drv) v (getS SKL row k (k - i) l))
        (ratInner SKLw SKL row k l i))]
  intro i hi v
  have hik : i ≤ k := by
    have := List.mem_range'_1.mp hi
    omega
  rw [cfg_getS_scale, cfg_wOf_scale, ratInner_scale cu cv SKLw SKL row k l i hik,
    cfg_zipSub_scale (cu ^ k * cv ^ l) ((Nat.cast (binom k i) : K) * wOf SKLw i 0) _ _
      (by rw [cfg_pow_split cu k i hik]; ring)]
  apply cfg_zipSub_scale
  ring

/-- one cell of A4.4 on scaled data -/
theorem ratCell_scale :
    ratCell (scaleJet2 cu cv SKLw) (scaleJet2 cu cv SKL) (row.mapIdx (fun l v => vsmul (cu ^ k * cv ^ l) v)) k l
      = vsmul (cu ^ k * cv ^ l) (ratCell SKLw SKL row k l) := by
  unfold ratCell
  rw [ratV2_scale, cfg_tget_scale, cfg_tget_scale, vsmul_length, cfg_take_vsmul, cfg_divmap_vsmul]
  simp only [pow_zero, mul_one, cfg_vsmul_one]

end cell

/-- **A4.4 commutes with the chain-rule scaling**: if entry `[k][l]` of the homogeneous derivative table
    is multiplied by `cuᵏ·cvˡ`, so is entry `[k][l]` of the result -/
theorem ratSurfaceDers_scale (cu cv : K) (SKLw : List (List (List K))) (order : ℕ) :
    ratSurfaceDers (scaleJet2 cu cv SKLw) order = scaleJet2 cu cv (ratSurfaceDers SKLw order) := by
  rw [ratSurfaceDers_eq_build', ratSurfaceDers_eq_build']
  unfold scaleJet2
  apply cfg_buildL_mapIdx
  intro SKL k
  unfold ratRowF
  apply cfg_buildL_mapIdx
  intro row l
  exact ratCell_scale cu cv SKLw SKL row k l

/-! ### end to end: `derivatives` of rational curves and surfaces -/

/-- **rational curve derivatives** (span search, A3.4 on the homogeneous net, A4.2) under an increasing affine
    map of knots and parameter: entry `k` is multiplied by `a⁻ᵏ` -/
theorem ratCurveDers_affine (p : ℕ) (U : ℕ → K) (Pw : List (List K)) (u : K) (order : ℕ) (a b : K) (ha : 0 < a) :
    ratCurveDers (curveDers p (fun i => a * U i + b) Pw (a * u + b) order)
      = scaleJet a⁻¹ (ratCurveDers (curveDers p U Pw u order)) := by
  rw [curveDers_affine p U Pw u order a b ha, ratCurveDers_scale]

/-- **surface derivatives with the span search** (both evaluator variants), independent affine maps per direction -/
theorem surfaceDers_affine (pu pv : ℕ) (Uu Uv : ℕ → K) (su sv : ℕ) (P : List (List K)) (u v : K) (order : ℕ) (tri : Bool)
    (a1 b1 a2 b2 : K) (h1 : 0 < a1) (h2 : 0 < a2) :
    surfaceDersAt pu pv (fun i => a1 * Uu i + b1) (fun i => a2 * Uv i + b2) sv P
        (findSpanLinear pu (fun i => a1 * Uu i + b1) su (a1 * u + b1))
        (findSpanLinear pv (fun i => a2 * Uv i + b2) sv (a2 * v + b2)) (a1 * u + b1) (a2 * v + b2) order tri
      = scaleJet2 a1⁻¹ a2⁻¹ (surfaceDersAt pu pv Uu Uv sv P (findSpanLinear pu Uu su u) (findSpanLinear pv Uv sv v)
          u v order tri) := by
  rw [findSpanLinear_affine pu Uu su u a1 b1 h1, findSpanLinear_affine pv Uv sv v a2 b2 h2,
    surfaceDersAt_affine _ _ _ _ _ _ _ _ _ _ _ _ a1 b1 a2 b2 (ne_of_gt h1) (ne_of_gt h2)]

/-- **rational surface derivatives** (A4.4 over the table of the homogeneous surface): entry `[k][l]` is
    multiplied by `a₁⁻ᵏ·a₂⁻ˡ` -/
theorem ratSurfaceDers_affine (pu pv : ℕ) (Uu Uv : ℕ → K) (su sv : ℕ) (Pw : List (List K)) (u v : K) (order : ℕ)
    (tri : Bool) (a1 b1 a2 b2 : K) (h1 : 0 < a1) (h2 : 0 < a2) :
    ratSurfaceDers (surfaceDersAt pu pv (fun i => a1 * Uu i + b1) (fun i => a2 * Uv i + b2) sv Pw
        (findSpanLinear pu (fun i => a1 * Uu i + b1) su (a1 * u + b1))
        (findSpanLinear pv (fun i => a2 * Uv i + b2) sv (a2 * v + b2)) (a1 * u + b1) (a2 * v + b2) order tri) order
      = scaleJet2 a1⁻¹ a2⁻¹ (ratSurfaceDers (surfaceDersAt pu pv Uu Uv sv Pw (findSpanLinear pu Uu su u)
          (findSpanLinear pv Uv sv v) u v order tri) order) := by
  rw [surfaceDers_affine pu pv Uu Uv su sv Pw u v order tri a1 b1 a2 b2 h1 h2, ratSurfaceDers_scale]

end Geomdl
