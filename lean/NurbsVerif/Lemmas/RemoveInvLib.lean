import NurbsVerif.Lemmas.RemoveInvMain
import NurbsVerif.Lemmas.InsertEval

/-! C06 helper lemmas, part 6: the arguments the library computes for the removal after an insertion
    (`find_span_linear` returns `k + r`, `find_multiplicity` returns `s + r`), the knot vector part
    for partial removals, evaluated points, and the object-level round trip for curves
    (`removeKnotDir` after `insertKnotDir`). -/
namespace Geomdl
namespace RemInv
open Blossom
variable {K : Type} [Field K] [LinearOrder K] [IsStrictOrderedRing K]

/-- after inserting `ub` `r ≥ 1` times into the span `k` the library's linear search finds, the
    same search on the refined knot vector returns `k + r` -/
theorem span_after_insert_self (p : ℕ) (Ul : List K) (n r : ℕ) (ub : K)
    (hm : Monotone (fnOf Ul)) (hlen : Ul.length = n + p + 1) (hpn : p + 1 ≤ n)
    (hub1 : fnOf Ul p ≤ ub) (hub2 : ub < fnOf Ul n) (hr : 1 ≤ r) :
    findSpanLinear p (fnOf (knotInsertionKv Ul ub (findSpanLinear p (fnOf Ul) n ub) r)) (n + r) ub
      = findSpanLinear p (fnOf Ul) n ub + r := by
  obtain ⟨k1, k2, k3, k4⟩ := findSpanLinear_spec p (fnOf Ul) n ub hpn hm hub1
  set k := findSpanLinear p (fnOf Ul) n ub with hk
  have hk4 : ub < fnOf Ul (k + 1) := by
    rcases k4 with h | h
    · exact h
    · rw [h]; exact hub2
  rw [fnOf_knotInsertionKv Ul ub k r (by omega)]
  have hm' : Monotone (Uh k r ub (fnOf Ul)) := Uh_mono (fnOf Ul) k r ub hm k3 (le_of_lt hk4)
  apply findSpanLinear_unique p _ (n + r) ub (by omega) hm'
  · unfold Uh; rw [if_pos (by omega)]; exact hub1
  · unfold Uh; rw [if_neg (by omega), if_neg (by omega), show n + r - r = n by omega]; exact hub2
  · unfold Uh; rw [if_neg (by omega), if_pos (by omega)]
  · unfold Uh; rw [if_neg (by omega), if_neg (by omega), show k + r + 1 - r = k + 1 by omega]; exact hk4

/-- the multiplicity the library finds after `r` insertions is the old one plus `r` -/
theorem mult_after_insert (Ul : List K) (ub tol : K) (k r : ℕ) (htol : 0 ≤ tol) :
    findMultiplicity ub (knotInsertionKv Ul ub k r) tol = findMultiplicity ub Ul tol + r := by
  unfold findMultiplicity knotInsertionKv
  have h0 : absK (ub - ub) ≤ tol := by
    unfold absK; rw [sub_self, if_neg (lt_irrefl _)]; exact htol
  rw [List.filter_append, List.filter_append, List.length_append, List.length_append, List.filter_replicate]
  simp only [h0, decide_true, if_true, List.length_replicate]
  have := congrArg (fun l => (List.filter (fun kv => decide (absK (ub - kv) ≤ tol)) l).length) (List.take_append_drop (k + 1) Ul)
  simp only [List.filter_append, List.length_append] at this
  omega

/-- knot vector part of a partial removal: `r` copies in, `t ≤ r` copies out = `r - t` copies in -/
theorem removeKv_t_of_r (U : List K) (u : K) (k r t : ℕ) (hk : k < U.length) (htr : t ≤ r) :
    knotRemovalKv (knotInsertionKv U u k r) (k + r) t = knotInsertionKv U u k (r - t) := by
  unfold knotRemovalKv knotInsertionKv
  by_cases ht : t = 0
  · subst ht; simp
  · rw [if_neg ht]
    have hl : (List.take (k + 1) U).length = k + 1 := by simp; omega
    have hA : (List.take (k + 1) U ++ List.replicate r u).length = k + r + 1 := by simp [hl]; omega
    have t2 : List.drop (k + r + 1) (List.take (k + 1) U ++ List.replicate r u ++ List.drop (k + 1) U) = List.drop (k + 1) U := by
      rw [← hA, List.drop_left]
    have t1 : List.take (k + r + 1 - t) (List.take (k + 1) U ++ List.replicate r u ++ List.drop (k + 1) U)
        = List.take (k + 1) U ++ List.replicate (r - t) u := by
      rw [List.append_assoc, List.take_append, hl]
      rw [List.take_of_length_le (by rw [hl]; omega)]
      congr 1
      rw [List.take_append_of_le_length (by simp; omega), List.take_replicate]
      congr 1; omega
    rw [t1, t2]

/-! ### object level (curves): `operations.remove_knot` after `operations.insert_knot` -/

/-- a curve object -/
def curveShape (rat : Bool) (p : ℕ) (Ul : List K) (P : List (List K)) : Shape K :=
  { rat := rat, degs := [p], kvs := [Ul], sizes := [P.length], net := P }

/-- **Object-level round trip for curves**: one direction of `operations.insert_knot` (span and
    multiplicity found by the library) followed by one direction of `operations.remove_knot` with the
    same parameter and count (span and multiplicity again found by the library, on the refined knot
    vector) returns the original object: degree, knot vector, size and control points. -/
theorem curve_insert_remove (rat : Bool) (p : ℕ) (Ul : List K) (P : List (List K)) (ub tol tol2 : K) (r d : ℕ)
    (hP : NetOk d P) (hm : Monotone (fnOf Ul)) (hlen : Ul.length = P.length + p + 1) (hpn : p + 1 ≤ P.length)
    (hub1 : fnOf Ul p ≤ ub) (hub2 : ub < fnOf Ul P.length)
    (hs : fnOf Ul (findSpanLinear p (fnOf Ul) P.length ub - findMultiplicity ub Ul tol) < ub)
    (hr1 : 1 ≤ r) (hrs : r + findMultiplicity ub Ul tol ≤ p) (htol : 0 ≤ tol) (htol2 : 0 ≤ tol2) :
    (insertKnotDir (curveShape rat p Ul P) 0 ub r tol true).bind
        (fun S' => removeKnotDir S' 0 ub r tol tol2 true) = some (curveShape rat p Ul P) := by
  obtain ⟨k1, k2, k3, k4⟩ := findSpanLinear_spec p (fnOf Ul) P.length ub hpn hm hub1
  have hk4 : ub < fnOf Ul (findSpanLinear p (fnOf Ul) P.length ub + 1) := by
    rcases k4 with h | h
    · exact h
    · rw [h]; exact hub2
  have hspan := span_after_insert_self p Ul P.length r ub hm hlen hpn hub1 hub2 hr1
  have hmult := mult_after_insert Ul ub tol (findSpanLinear p (fnOf Ul) P.length ub) r htol
  have hmain := remove_inverts_insert p Ul P ub r (findMultiplicity ub Ul tol) (findSpanLinear p (fnOf Ul) P.length ub) d tol2
    hP hm (by omega) hk4 hs hr1 hrs k1 k2 htol2
  have hkv := removeKv_t_of_r Ul ub (findSpanLinear p (fnOf Ul) P.length ub) r r (by omega) (le_refl _)
  unfold insertKnotDir curveShape
  simp only [Shape.deg, Shape.kv, Shape.size, Shape.mapDir, Shape.pdim, List.getD_cons_zero, List.length_cons,
    List.length_nil, List.set_cons_zero]
  rw [if_neg (by simp; omega)]
  simp only [Option.bind_some, if_true, Nat.zero_add]
  unfold removeKnotDir
  simp only [Shape.deg, Shape.kv, Shape.size, Shape.mapDir, Shape.pdim, List.getD_cons_zero, List.length_cons,
    List.length_nil, List.set_cons_zero, if_true, Nat.zero_add]
  rw [if_neg (by rw [hmult]; simp)]
  rw [knotInsertion_length, hspan, hmult, hmain, hkv]
  simp [knotInsertionKv]


/-- full `operations.insert_knot` / `operations.remove_knot` calls on a curve object (one parametric
    direction, parameter list `[ub]`, count list `[r]`) -/
theorem curve_insertKnot_removeKnot (rat : Bool) (p : ℕ) (Ul : List K) (P : List (List K)) (ub tol tol2 : K) (r d : ℕ)
    (hP : NetOk d P) (hm : Monotone (fnOf Ul)) (hlen : Ul.length = P.length + p + 1) (hpn : p + 1 ≤ P.length)
    (hub1 : fnOf Ul p ≤ ub) (hub2 : ub < fnOf Ul P.length)
    (hs : fnOf Ul (findSpanLinear p (fnOf Ul) P.length ub - findMultiplicity ub Ul tol) < ub)
    (hr1 : 1 ≤ r) (hrs : r + findMultiplicity ub Ul tol ≤ p) (htol : 0 ≤ tol) (htol2 : 0 ≤ tol2) :
    removeKnot (insertKnot (curveShape rat p Ul P) [some ub] [r] tol true).1 [some ub] [r] tol tol2 true
      = (curveShape rat p Ul P, true) := by
  have h := curve_insert_remove rat p Ul P ub tol tol2 r d hP hm hlen hpn hub1 hub2 hs hr1 hrs htol htol2
  have hr0 : r ≠ 0 := by omega
  cases hi : insertKnotDir (curveShape rat p Ul P) 0 ub r tol true with
  | none => rw [hi] at h; simp at h
  | some S' =>
    rw [hi] at h
    simp only [Option.bind_some] at h
    have hpd : (curveShape rat p Ul P).pdim = 1 := rfl
    have hpd' : S'.pdim = 1 := by
      unfold insertKnotDir at hi
      simp only [] at hi
      split at hi
      · simp at hi
      · simp only [Option.some.injEq] at hi
        rw [← hi]; rfl
    unfold insertKnot
    rw [hpd]
    simp only [List.range_one, List.foldl_cons, List.foldl_nil, List.getD_cons_zero, hr0, if_false, hi, Bool.true_eq_false]
    unfold removeKnot
    rw [hpd']
    simp only [List.range_one, List.foldl_cons, List.foldl_nil, List.getD_cons_zero, hr0, if_false, h, Bool.true_eq_false]

/-! ### evaluated points -/

theorem knotInsertion_zero (p : ℕ) (U : ℕ → K) (P : List (List K)) (u : K) (s k : ℕ) (hpk : p ≤ k) :
    knotInsertion p U P u 0 s k = P := by
  apply net_ext
  · rw [knotInsertion_length]; rfl
  · intro x hx
    rw [knotInsertion_length] at hx
    exact Q_zero U u P k p s hpk x (by omega)

theorem knotInsertionKv_zero (U : List K) (u : K) (k : ℕ) : knotInsertionKv U u k 0 = U := by
  simp [knotInsertionKv]

/-- **Removal of inserted knots does not change the curve**: insert `ub` `r` times (library span,
    multiplicity `s`), remove it `t ≤ r` times; every point of the curve after the removal equals the
    point of the curve before the removal (and both equal the point of the original curve). -/
theorem remove_preserves_curve (p : ℕ) (Ul : List K) (P : List (List K)) (ub u : K)
    (r t s d j : ℕ) (tol2 : K) (hP : NetOk d P)
    (hm : Monotone (fnOf Ul)) (hlen : Ul.length = P.length + p + 1) (hpn : p + 1 ≤ P.length)
    (hub1 : fnOf Ul p ≤ ub) (hub2 : ub < fnOf Ul P.length)
    (hmult : ∀ x, findSpanLinear p (fnOf Ul) P.length ub - s < x → x ≤ findSpanLinear p (fnOf Ul) P.length ub → fnOf Ul x = ub)
    (hs : fnOf Ul (findSpanLinear p (fnOf Ul) P.length ub - s) < ub)
    (ht1 : 1 ≤ t) (htr : t ≤ r) (hrs : r + s ≤ p) (htol : 0 ≤ tol2)
    (hlo : fnOf Ul p ≤ u) (hhi : u ≤ fnOf Ul P.length) (hlast : fnOf Ul (P.length - 1) < fnOf Ul P.length) :
    (curvePoint p (fnOf (knotRemovalKv (knotInsertionKv Ul ub (findSpanLinear p (fnOf Ul) P.length ub) r)
          (findSpanLinear p (fnOf Ul) P.length ub + r) t))
        (knotRemoval p (fnOf (knotInsertionKv Ul ub (findSpanLinear p (fnOf Ul) P.length ub) r))
          (knotInsertion p (fnOf Ul) P ub r s (findSpanLinear p (fnOf Ul) P.length ub)) ub t (s + r)
          (findSpanLinear p (fnOf Ul) P.length ub + r) tol2) u).getD j 0
      = (curvePoint p (fnOf (knotInsertionKv Ul ub (findSpanLinear p (fnOf Ul) P.length ub) r))
          (knotInsertion p (fnOf Ul) P ub r s (findSpanLinear p (fnOf Ul) P.length ub)) u).getD j 0
      ∧ (curvePoint p (fnOf (knotInsertionKv Ul ub (findSpanLinear p (fnOf Ul) P.length ub) r))
          (knotInsertion p (fnOf Ul) P ub r s (findSpanLinear p (fnOf Ul) P.length ub)) u).getD j 0
        = (curvePoint p (fnOf Ul) P u).getD j 0 := by
  obtain ⟨k1, k2, k3, k4⟩ := findSpanLinear_spec p (fnOf Ul) P.length ub hpn hm hub1
  have hk4 : ub < fnOf Ul (findSpanLinear p (fnOf Ul) P.length ub + 1) := by
    rcases k4 with h | h
    · exact h
    · rw [h]; exact hub2
  have hins := knotInsertion_preserves_curve p Ul P ub u r s d j hP hm hlen hpn hub1 hub2 hmult (by omega) hrs hlo hhi hlast
  refine ⟨?_, hins⟩
  rw [hins, removeKv_t_of_r Ul ub _ r t (by omega) htr,
    remove_t_of_r p Ul P ub r t s _ d tol2 hP hm (by omega) hk4 hs ht1 htr hrs k1 k2 htol]
  by_cases h0 : r - t = 0
  · rw [h0, knotInsertion_zero p _ P ub s _ k1, knotInsertionKv_zero]
  · exact knotInsertion_preserves_curve p Ul P ub u (r - t) s d j hP hm hlen hpn hub1 hub2 hmult (by omega) (by omega) hlo hhi hlast

end RemInv
end Geomdl
