/-
  C13: evaluation of what `construct_surface` / `construct_volume` (repaired) return.  The constructed
  surface (volume) evaluated at a parameter pair (triple) is the B-spline curve of the given degree and knot
  vector in the stacking direction through the points of the input curves (surfaces) at the remaining
  parameter(s) – each input evaluated with the degree(s) and knot vector(s) of the FIRST input, as the code
  copies only those.  Proof: evaluation through the extracted families (`surfacePoint_extractV/U`,
  `volumePoint_extractUV/UW/VW`) + the converse round trip (`Lemmas/ConstructExtract.lean`).
-/
import NurbsVerif.Lemmas.ConstructExtract
import NurbsVerif.Lemmas.LayoutBoundaryVol

namespace Geomdl
open Blossom Finset
set_option linter.unusedSectionVars false
variable {K : Type} [Field K] [LinearOrder K] [IsStrictOrderedRing K]

/-! ### surfaces from curves -/

section surface
variable {args : List (Crv (List K) (ℕ → K))} {c0 : Crv (List K) (ℕ → K)} (degO : ℕ) (kvO : ℕ → K) (d : ℕ)

theorem conSrfU_netOk (hd : ∀ c ∈ args, NetOk d c.pts) : NetOk d (conSrfU args c0 degO kvO).pts := by
  intro p hp
  simp only [conSrfU, List.mem_flatMap] at hp
  obtain ⟨c, hc, hpc⟩ := hp
  exact hd c hc p hpc

theorem conSrfV_netOk (hall : ∀ c ∈ args, c.deg = c0.deg ∧ c.pts.length = c0.pts.length)
    (hd : ∀ c ∈ args, NetOk d c.pts) : NetOk d (conSrfV args c0 degO kvO).pts := by
  intro p hp
  simp only [conSrfV, flipCtrlptsU, tab2, List.mem_flatMap, List.mem_map, List.mem_range] at hp
  obtain ⟨i, hi, j, hj, rfl⟩ := hp
  have hlen := length_flatMap_uniform args (fun c => c.pts) c0.pts.length (fun c hc => (hall c hc).2)
  have hlt : i + j * c0.pts.length < (args.flatMap fun c => c.pts).length := by
    have := flatIdx2_lt (su := args.length) (sv := c0.pts.length) hj hi
    unfold flatIdx2 at this
    rw [hlen, Nat.mul_comm j, Nat.mul_comm c0.pts.length args.length]; exact this
  rw [List.getD_eq_getElem?_getD, List.getElem?_eq_getElem hlt]
  have hm := List.getElem_mem hlt
  simp only [List.mem_flatMap] at hm
  obtain ⟨c, hc, hpc⟩ := hm
  exact hd c hc _ hpc

/-- **`construct_surface('u', …)` evaluated**: `S(t, v) = Σ_i N_{i,degO}(t) · C_i(v)` in the form "curve of degree
    `degO` with knots `kvO` through the points `C_i(v)`" -/
theorem constructSurface_u_eval (h0 : args.head? = some c0) (h2 : 2 ≤ args.length) (hdeg : degO + 1 ≤ args.length)
    (hm : 2 ≤ c0.pts.length) (hd0 : c0.deg + 1 ≤ c0.pts.length)
    (hall : ∀ c ∈ args, c.deg = c0.deg ∧ c.pts.length = c0.pts.length) (hd : ∀ c ∈ args, NetOk d c.pts) :
    ∃ S, constructSurface Dir.u degO kvO args = some S ∧ ∀ (t v : K) (j : ℕ),
      (surfacePoint S.du S.dv S.ku S.kv S.su S.sv S.pts t v).getD j 0
        = (curvePoint degO kvO (args.map fun c => curvePoint c0.deg c0.kv c.pts v) t).getD j 0 := by
  refine ⟨_, constructSurface_u_eq degO kvO h0 h2 hall, ?_⟩
  intro t v j
  rw [surfacePoint_extractV (conSrfU args c0 degO kvO) d (conSrfU_wf degO kvO h2 hm hall)
    (conSrfU_netOk degO kvO d hd) hdeg hd0 t v j, extractCurvesV_conSrfU degO kvO hall, List.map_map]
  rfl

/-- **`construct_surface('v', …)` evaluated**: `S(u, t)` is the curve of degree `degO` with knots `kvO` through
    the points `C_i(u)` -/
theorem constructSurface_v_eval (h0 : args.head? = some c0) (h2 : 2 ≤ args.length) (hdeg : degO + 1 ≤ args.length)
    (hm : 2 ≤ c0.pts.length) (hd0 : c0.deg + 1 ≤ c0.pts.length)
    (hall : ∀ c ∈ args, c.deg = c0.deg ∧ c.pts.length = c0.pts.length) (hd : ∀ c ∈ args, NetOk d c.pts) :
    ∃ S, constructSurface Dir.v degO kvO args = some S ∧ ∀ (u t : K) (j : ℕ),
      (surfacePoint S.du S.dv S.ku S.kv S.su S.sv S.pts u t).getD j 0
        = (curvePoint degO kvO (args.map fun c => curvePoint c0.deg c0.kv c.pts u) t).getD j 0 := by
  refine ⟨_, constructSurface_v_eq degO kvO h0 h2 hall, ?_⟩
  intro u t j
  rw [surfacePoint_extractU (conSrfV args c0 degO kvO) d (conSrfV_wf degO kvO h2 hm)
    (conSrfV_netOk degO kvO d hall hd) hd0 hdeg u t j, extractCurvesU_conSrfV degO kvO hall, List.map_map]
  rfl

end surface

/-! ### volumes from surfaces -/

section volume
variable {args : List (Srf (List K) (ℕ → K))} {s0 : Srf (List K) (ℕ → K)} (degO : ℕ) (kvO : ℕ → K) (d : ℕ)

theorem stacked_netOk (hd : ∀ s ∈ args, NetOk d s.pts) : NetOk d (args.flatMap fun s => s.pts) := by
  intro p hp
  simp only [List.mem_flatMap] at hp
  obtain ⟨s, hs, hps⟩ := hp
  exact hd s hs p hps

theorem conVol_netOk (dir : Dir) (hall : SrfsOk args s0) (hd : ∀ s ∈ args, NetOk d s.pts) :
    NetOk d (volPerm dir args.length s0.su s0.sv (args.flatMap fun s => s.pts)) :=
  fun p hp => stacked_netOk d hd p (mem_volPerm_of dir hall p hp)

/-- **`construct_volume('w', …)` evaluated**: `V(a, b, t)` is the curve of degree `degO` with knots `kvO` through
    the points `S_i(a, b)` -/
theorem constructVolume_w_eval (h0 : args.head? = some s0) (h2 : 2 ≤ args.length) (hdeg : degO + 1 ≤ args.length)
    (hsu : 2 ≤ s0.su) (hsv : 2 ≤ s0.sv) (hdu : s0.du + 1 ≤ s0.su) (hdv : s0.dv + 1 ≤ s0.sv)
    (hall : SrfsOk args s0) (hd : ∀ s ∈ args, NetOk d s.pts) :
    ∃ V, constructVolume Dir.w degO kvO args = some V ∧ ∀ (a b t : K) (j : ℕ),
      (volumePoint V.du V.dv V.dw V.ku V.kv V.kw V.su V.sv V.sw V.pts a b t).getD j 0
        = (curvePoint degO kvO
            (args.map fun s => surfacePoint s0.du s0.dv s0.ku s0.kv s0.su s0.sv s.pts a b) t).getD j 0 := by
  refine ⟨_, constructVolume_w_eq degO kvO h0 h2 hall, ?_⟩
  intro a b t j
  rw [volumePoint_extractUV (conVolW args s0 degO kvO) d (conVolW_wf degO kvO h2 hsu hsv hall)
    (conVol_netOk d Dir.w hall hd) hdu hdv hdeg a b t j, extractSurfacesUV_conVolW degO kvO (by omega) hall, List.map_map]
  rfl

/-- **`construct_volume('u', …)` evaluated** (repaired code): `V(t, a, b)` is the curve through the points `S_i(a, b)` -/
theorem constructVolume_u_eval (h0 : args.head? = some s0) (h2 : 2 ≤ args.length) (hdeg : degO + 1 ≤ args.length)
    (hsu : 2 ≤ s0.su) (hsv : 2 ≤ s0.sv) (hdu : s0.du + 1 ≤ s0.su) (hdv : s0.dv + 1 ≤ s0.sv)
    (hall : SrfsOk args s0) (hd : ∀ s ∈ args, NetOk d s.pts) :
    ∃ V, constructVolume Dir.u degO kvO args = some V ∧ ∀ (t a b : K) (j : ℕ),
      (volumePoint V.du V.dv V.dw V.ku V.kv V.kw V.su V.sv V.sw V.pts t a b).getD j 0
        = (curvePoint degO kvO
            (args.map fun s => surfacePoint s0.du s0.dv s0.ku s0.kv s0.su s0.sv s.pts a b) t).getD j 0 := by
  refine ⟨_, constructVolume_u_eq degO kvO h0 h2 hall, ?_⟩
  intro t a b j
  rw [volumePoint_extractVW (conVolU args s0 degO kvO) d (conVolU_wf degO kvO h2 hsu hsv)
    (conVol_netOk d Dir.u hall hd) hdeg hdu hdv t a b j, extractSurfacesVW_conVolU degO kvO (by omega) hall, List.map_map]
  rfl

/-- **`construct_volume('v', …)` evaluated** (repaired code): `V(a, t, b)` is the curve through the points `S_i(a, b)` -/
theorem constructVolume_v_eval (h0 : args.head? = some s0) (h2 : 2 ≤ args.length) (hdeg : degO + 1 ≤ args.length)
    (hsu : 2 ≤ s0.su) (hsv : 2 ≤ s0.sv) (hdu : s0.du + 1 ≤ s0.su) (hdv : s0.dv + 1 ≤ s0.sv)
    (hall : SrfsOk args s0) (hd : ∀ s ∈ args, NetOk d s.pts) :
    ∃ V, constructVolume Dir.v degO kvO args = some V ∧ ∀ (a t b : K) (j : ℕ),
      (volumePoint V.du V.dv V.dw V.ku V.kv V.kw V.su V.sv V.sw V.pts a t b).getD j 0
        = (curvePoint degO kvO
            (args.map fun s => surfacePoint s0.du s0.dv s0.ku s0.kv s0.su s0.sv s.pts a b) t).getD j 0 := by
  refine ⟨_, constructVolume_v_eq degO kvO h0 h2 hall, ?_⟩
  intro a t b j
  rw [volumePoint_extractUW (conVolV args s0 degO kvO) d (conVolV_wf degO kvO h2 hsu hsv)
    (conVol_netOk d Dir.v hall hd) hdu hdeg hdv a t b j, extractSurfacesUW_conVolV degO kvO (by omega) hall, List.map_map]
  rfl

end volume
end Geomdl
