import NurbsVerif.Lemmas.SurfLoopsA36
import NurbsVerif.Lemmas.SurfLoopsA38
import NurbsVerif.Lemmas.SurfDerivRat

/-! The surface derivative evaluators as coded return the true mixed partial derivatives. -/
namespace Geomdl
open Blossom Polynomial Finset
open scoped Polynomial.Bivariate
variable {K : Type} [Field K] [LinearOrder K] [IsStrictOrderedRing K]

/-- A3.6 as coded: every entry `k, l ≤ order` is the true mixed partial derivative -/
theorem surfaceDersA36_true (pu pv : ℕ) (Uu Uv : ℕ → K) (su sv : ℕ) (P : List (List K)) (κu κv : ℕ) (u v : K)
    (d j order k l : ℕ)
    (hpu : pu ≤ κu) (hpv : pv ≤ κv) (hκu : κu < su) (hκv : κv < sv) (hlen : P.length = su * sv) (hP : NetOk d P)
    (hmu : Monotone Uu) (hmv : Monotone Uv) (hspu : Uu κu < Uu (κu+1)) (hspv : Uv κv < Uv (κv+1))
    (hk : k ≤ order) (hl : l ≤ order) :
    (((surfaceDersA36 pu pv Uu Uv sv P κu κv u v order).getD k []).getD l []).getD j 0
      = (pderivU^[k] (pderivV^[l] (surfSpanPoly pu pv Uu Uv sv P κu κv j))).evalEval u v := by
  rw [surfaceDersA36_eq pu pv Uu Uv su sv P κu κv u v d order hpu hpv hκu hκv hlen hP]
  exact surfaceDersAt_all pu pv Uu Uv su sv P κu κv u v d j order k l false hpu hpv hκu hκv hlen hP hmu hmv
    hspu hspv hk hl (Or.inl rfl)

/-- A3.7 + A3.8 as coded: every entry with `k + l ≤ order` is the true mixed partial derivative -/
theorem surfaceDersA38_true (pu pv : ℕ) (Uu Uv : ℕ → K) (su sv : ℕ) (P : List (List K)) (κu κv : ℕ) (u v : K)
    (d j order k l : ℕ)
    (hpu : pu ≤ κu) (hpv : pv ≤ κv) (hκu : κu < su) (hκv : κv < sv) (hlen : P.length = su * sv) (hP : NetOk d P)
    (hmu : Monotone Uu) (hmv : Monotone Uv) (hspu : Uu κu < Uu (κu+1)) (hspv : Uv κv < Uv (κv+1))
    (hkl : k + l ≤ order) :
    (((surfaceDersA38 pu pv Uu Uv su sv P κu κv u v order).getD k []).getD l []).getD j 0
      = (pderivU^[k] (pderivV^[l] (surfSpanPoly pu pv Uu Uv sv P κu κv j))).evalEval u v := by
  rw [surfaceDersA38_eq pu pv Uu Uv su sv P κu κv u v d order hpu hpv hκu hκv hlen hP hmu hmv hspu hspv]
  exact surfaceDersAt_all pu pv Uu Uv su sv P κu κv u v d j order k l true hpu hpv hκu hκv hlen hP hmu hmv
    hspu hspv (by omega) (by omega) (Or.inr hkl)

/-- … and the entries with `k + l > order` keep the initial zero vector -/
theorem surfaceDersA38_rest_zero (pu pv : ℕ) (Uu Uv : ℕ → K) (su sv : ℕ) (P : List (List K)) (κu κv : ℕ) (u v : K)
    (d order k l : ℕ)
    (hpu : pu ≤ κu) (hpv : pv ≤ κv) (hκu : κu < su) (hκv : κv < sv) (hlen : P.length = su * sv) (hP : NetOk d P)
    (hmu : Monotone Uu) (hmv : Monotone Uv) (hspu : Uu κu < Uu (κu+1)) (hspv : Uv κv < Uv (κv+1))
    (hk : k ≤ order) (hl : l ≤ order) (hkl : order < k + l) :
    ((surfaceDersA38 pu pv Uu Uv su sv P κu κv u v order).getD k []).getD l [] = vzero (dimOf P) := by
  rw [surfaceDersA38_eq pu pv Uu Uv su sv P κu κv u v d order hpu hpv hκu hκv hlen hP hmu hmv hspu hspv]
  exact surfaceDersAt_tri_zero pu pv Uu Uv sv P κu κv u v order k l hk hl hkl

/-- **no `None` is read**: for the window of a span pair, every entry `PKL[k][l][j][i]` that A3.8 reads
    (`k ≤ du`, `l ≤ min(order - k, dv)`, `j ≤ pu - k`, `i ≤ pv - l`) was assigned by A3.7 as coded (after the fix of
    the loop bound `range(0, du + 1)`), and has the dimension of the control points -/
theorem a37_window_assigned (pu pv : ℕ) (Uu Uv : ℕ → K) (su sv : ℕ) (P : List (List K)) (κu κv : ℕ)
    (d order k l j i : ℕ)
    (hpu : pu ≤ κu) (hpv : pv ≤ κv) (hκu : κu < su) (hκv : κv < sv) (hlen : P.length = su * sv) (hP : NetOk d P)
    (hk : k ≤ min pu order) (hl : l ≤ min (order - k) (min pv order)) (hj : j ≤ pu - k) (hi : i ≤ pv - l) :
    ∃ X, (surfaceDerivCptsA37 pu pv Uu Uv su sv P (κu - pu) κu (κv - pv) κv order).get k l j i = some X ∧
      X.length = d := by
  have h := a37_entry pu pv Uu Uv su sv P (κu - pu) pu (κv - pv) pv order d (by omega) (by omega) hlen hP
      (by omega) (by omega) k l j i hk hl hj hi
  rw [show κu - pu + pu = κu by omega, show κv - pv + pv = κv by omega] at h
  obtain ⟨X, h1, h2, _⟩ := h
  exact ⟨X, h1, h2⟩

/-- rational surfaces end to end, with the default evaluator as coded: A4.4 applied to the table of A3.6 as
    coded solves the Leibniz system whose data are the true mixed partial derivatives of numerator and weight -/
theorem ratSurfaceDersA36_true (pu pv : ℕ) (Uu Uv : ℕ → K) (su sv : ℕ) (P : List (List K)) (κu κv : ℕ) (u v : K)
    (d c order k l : ℕ)
    (hpu : pu ≤ κu) (hpv : pv ≤ κv) (hκu : κu < su) (hκv : κv < sv) (hlen : P.length = su * sv) (hP : NetOk (d+1) P)
    (hmu : Monotone Uu) (hmv : Monotone Uv) (hspu : Uu κu < Uu (κu+1)) (hspv : Uv κv < Uv (κv+1))
    (hw0 : (surfSpanPoly pu pv Uu Uv sv P κu κv d).evalEval u v ≠ 0)
    (hk : k ≤ order) (hl : l ≤ order) (hc : c < d) :
    ∑ i ∈ range (k+1), ∑ j ∈ range (l+1),
      (Nat.choose k i : K) * (Nat.choose l j : K)
        * (pderivU^[i] (pderivV^[j] (surfSpanPoly pu pv Uu Uv sv P κu κv d))).evalEval u v
        * ((((ratSurfaceDers (surfaceDersA36 pu pv Uu Uv sv P κu κv u v order) order).getD (k - i) []).getD
              (l - j) []).getD c 0)
      = (pderivU^[k] (pderivV^[l] (surfSpanPoly pu pv Uu Uv sv P κu κv c))).evalEval u v := by
  rw [surfaceDersA36_eq pu pv Uu Uv su sv P κu κv u v (d+1) order hpu hpv hκu hκv hlen hP]
  exact ratSurfaceDers_true pu pv Uu Uv su sv P κu κv u v d c order k l hpu hpv hκu hκv hlen hP hmu hmv hspu hspv
    hw0 hk hl hc

end Geomdl
