import NurbsVerif.Lemmas.FitParams
import Mathlib.Data.Nat.Cast.Order.Field
import Mathlib.Tactic.FieldSimp
import Mathlib.Tactic.Positivity

/-! The knot vector of the least-squares approximation (`compute_knot_vector2`, Eq. 9.68/9.69): its
    interior knots are values of the piecewise linear interpolant of the parameters, hence it is
    non-decreasing, and its first and last spans are not empty for strictly increasing parameters. -/
namespace Geomdl
open Finset
variable {K : Type} [Field K] [LinearOrder K] [IsStrictOrderedRing K]

/-- `int(·)` on non-negative numbers -/
def IsFloor (fl : K → ℕ) : Prop := ∀ x : K, 0 ≤ x → (fl x : K) ≤ x ∧ x < (fl x : K) + 1

/-- `(1 − α) ū_{i−1} + α ū_i` with `i = int(t)`, `α = t − i` -/
def kv2g (uk : List K) (fl : K → ℕ) (t : K) : K :=
  (1 - (t - (fl t : K))) * uk.getD (fl t - 1) 0 + (t - (fl t : K)) * uk.getD (fl t) 0

section floor
variable {fl : K → ℕ} (hfl : IsFloor fl)
include hfl

theorem fl_mono {t t' : K} (h0 : 0 ≤ t) (h : t ≤ t') : fl t ≤ fl t' := by
  have h1 := (hfl t h0).1
  have h2 := (hfl t' (le_trans h0 h)).2
  have : (fl t : K) < ((fl t' + 1 : ℕ) : K) := by push_cast; linarith
  have := Nat.cast_lt.mp this
  omega

theorem fl_lt {t : K} (h0 : 0 ≤ t) (n : ℕ) (h : t < (n : K)) : fl t < n := by
  have h1 := (hfl t h0).1
  exact Nat.cast_lt.mp (lt_of_le_of_lt h1 h)

theorem fl_pos {t : K} (h1 : 1 ≤ t) : 1 ≤ fl t := by
  have h2 := (hfl t (le_trans zero_le_one h1)).2
  have : (0 : K) < (fl t : K) := by linarith
  exact Nat.cast_pos.mp this

variable (uk : List K) (nd : ℕ) (hmono : ∀ i j, i ≤ j → j < nd → uk.getD i 0 ≤ uk.getD j 0)
include hmono

theorem kv2g_lower {t : K} (h0 : 0 ≤ t) (hlt : fl t < nd) : uk.getD (fl t - 1) 0 ≤ kv2g uk fl t := by
  obtain ⟨a1, a2⟩ := hfl t h0
  have hm := hmono (fl t - 1) (fl t) (by omega) hlt
  have : kv2g uk fl t - uk.getD (fl t - 1) 0 = (t - (fl t : K)) * (uk.getD (fl t) 0 - uk.getD (fl t - 1) 0) := by
    unfold kv2g; ring
  have h2 : 0 ≤ (t - (fl t : K)) * (uk.getD (fl t) 0 - uk.getD (fl t - 1) 0) :=
    mul_nonneg (by linarith) (by linarith)
  linarith

theorem kv2g_upper {t : K} (h0 : 0 ≤ t) (hlt : fl t < nd) : kv2g uk fl t ≤ uk.getD (fl t) 0 := by
  obtain ⟨a1, a2⟩ := hfl t h0
  have hm := hmono (fl t - 1) (fl t) (by omega) hlt
  have : uk.getD (fl t) 0 - kv2g uk fl t = (1 - (t - (fl t : K))) * (uk.getD (fl t) 0 - uk.getD (fl t - 1) 0) := by
    unfold kv2g; ring
  have h2 : 0 ≤ (1 - (t - (fl t : K))) * (uk.getD (fl t) 0 - uk.getD (fl t - 1) 0) :=
    mul_nonneg (by linarith) (by linarith)
  linarith

theorem kv2g_mono {t t' : K} (h0 : 0 ≤ t) (h : t ≤ t') (hlt : fl t' < nd) : kv2g uk fl t ≤ kv2g uk fl t' := by
  have hle := fl_mono hfl h0 h
  rcases Nat.eq_or_lt_of_le hle with heq | hlt'
  · have hm := hmono (fl t - 1) (fl t) (by omega) (by omega)
    have : kv2g uk fl t' - kv2g uk fl t = (t' - t) * (uk.getD (fl t) 0 - uk.getD (fl t - 1) 0) := by
      unfold kv2g; rw [← heq]; ring
    have h2 : 0 ≤ (t' - t) * (uk.getD (fl t) 0 - uk.getD (fl t - 1) 0) := mul_nonneg (by linarith) (by linarith)
    linarith
  · calc kv2g uk fl t ≤ uk.getD (fl t) 0 := kv2g_upper hfl uk nd hmono h0 (by omega)
      _ ≤ uk.getD (fl t' - 1) 0 := hmono _ _ (by omega) (by omega)
      _ ≤ kv2g uk fl t' := kv2g_lower hfl uk nd hmono (le_trans h0 h) hlt

end floor

/-! ### the knot vector as a function -/

theorem computeKnotVector2_fn (p nd nc : ℕ) (uk : List K) (fl : K → ℕ) (hpn : p + 1 ≤ nc) (i : ℕ) :
    fnOf (computeKnotVector2 p nd nc uk fl) i =
      if i ≤ p then 0
      else if i < nc then kv2g uk fl (((i - p : ℕ) : K) * ((nd : K) / ((nc - p : ℕ) : K)))
      else 1 := by
  obtain ⟨hz, ho⟩ := computeKnotVector2_clamped p nd nc uk fl hpn
  by_cases h1 : i ≤ p
  · rw [if_pos h1, hz i h1]
  · rw [if_neg h1]
    by_cases h2 : i < nc
    · rw [if_pos h2]
      have hlast : (computeKnotVector2 p nd nc uk fl).getLastD 0 = 1 := by
        simp [computeKnotVector2, List.getLastD_eq_getLast?, List.getLast?_append, List.getLast?_replicate]
      unfold fnOf
      rw [hlast]
      unfold computeKnotVector2
      simp only []
      rw [List.append_assoc, List.getD_append_right _ _ _ _ (by simp; omega),
        List.getD_append _ _ _ _ (by simp; omega)]
      have hi : i - (List.replicate (p + 1) (0:K)).length < nc - p - 1 := by simp; omega
      rw [List.getD_eq_getElem?_getD, List.getElem?_map, List.getElem?_range' hi]
      simp only [Option.map_some, Option.getD_some, List.length_replicate, Nat.one_mul]
      have e : 1 + (i - (p + 1)) = i - p := by omega
      rw [e]
      rfl
    · rw [if_neg h2, ho i (by omega)]

/-- the sample positions `j · nd/(nc−p)`, `1 ≤ j < nc − p`, lie in `[1, nd)` -/
theorem kv2_pos_range (p nd nc j : ℕ) (hpn : p + 1 ≤ nc) (hnd : nc ≤ nd + p) (hj1 : 1 ≤ j) (hj2 : j < nc - p) :
    (1 : K) ≤ (j : K) * ((nd : K) / ((nc - p : ℕ) : K)) ∧ (j : K) * ((nd : K) / ((nc - p : ℕ) : K)) < (nd : K) := by
  have hq : (0 : K) < ((nc - p : ℕ) : K) := Nat.cast_pos.mpr (by omega)
  have hnd0 : (0 : K) < (nd : K) := Nat.cast_pos.mpr (by omega)
  have hd1 : (1 : K) ≤ (nd : K) / ((nc - p : ℕ) : K) := by
    rw [le_div_iff₀ hq, one_mul]
    exact_mod_cast (by omega : nc - p ≤ nd)
  have hj1' : (1 : K) ≤ (j : K) := by exact_mod_cast hj1
  constructor
  · calc (1 : K) = 1 * 1 := by ring
      _ ≤ (j : K) * ((nd : K) / ((nc - p : ℕ) : K)) := mul_le_mul hj1' hd1 zero_le_one (by linarith)
  · have hjq : (j : K) < ((nc - p : ℕ) : K) := by exact_mod_cast hj2
    rw [← mul_div_assoc, div_lt_iff₀ hq, mul_comm (nd : K)]
    exact mul_lt_mul_of_pos_right hjq hnd0

/-- **`compute_knot_vector2` is non-decreasing** for non-decreasing parameters in `[0, 1]` -/
theorem computeKnotVector2_mono (p nd nc : ℕ) (uk : List K) (fl : K → ℕ) (hfl : IsFloor fl)
    (hpn : p + 1 ≤ nc) (hnd : nc ≤ nd + p)
    (h0 : ∀ i, 0 ≤ uk.getD i 0) (h1 : ∀ i, uk.getD i 0 ≤ 1)
    (hmono : ∀ i j, i ≤ j → j < nd → uk.getD i 0 ≤ uk.getD j 0) :
    Monotone (fnOf (computeKnotVector2 p nd nc uk fl)) := by
  apply monotone_nat_of_le_succ
  intro i
  rw [computeKnotVector2_fn p nd nc uk fl hpn, computeKnotVector2_fn p nd nc uk fl hpn]
  have hD : (0 : K) ≤ (nd : K) / ((nc - p : ℕ) : K) := div_nonneg (Nat.cast_nonneg _) (Nat.cast_nonneg _)
  by_cases c1 : i + 1 ≤ p
  · rw [if_pos (by omega), if_pos c1]
  · rw [if_neg c1]
    by_cases c2 : i + 1 < nc
    · rw [if_pos c2]
      obtain ⟨r1, r2⟩ := kv2_pos_range (K := K) p nd nc (i + 1 - p) hpn hnd (by omega) (by omega)
      have hflt := fl_lt hfl (le_trans zero_le_one r1) nd r2
      by_cases c3 : i ≤ p
      · rw [if_pos c3]
        exact le_trans (h0 _) (kv2g_lower hfl uk nd hmono (le_trans zero_le_one r1) hflt)
      · rw [if_neg c3, if_pos (by omega)]
        obtain ⟨s1, _⟩ := kv2_pos_range (K := K) p nd nc (i - p) hpn hnd (by omega) (by omega)
        apply kv2g_mono hfl uk nd hmono (le_trans zero_le_one s1) _ hflt
        apply mul_le_mul_of_nonneg_right _ hD
        exact_mod_cast (by omega : i - p ≤ i + 1 - p)
    · rw [if_neg c2]
      by_cases c3 : i ≤ p
      · rw [if_pos c3]; exact zero_le_one
      · rw [if_neg c3]
        by_cases c4 : i < nc
        · rw [if_pos c4]
          obtain ⟨s1, s2⟩ := kv2_pos_range (K := K) p nd nc (i - p) hpn hnd (by omega) (by omega)
          exact le_trans (kv2g_upper hfl uk nd hmono (le_trans zero_le_one s1)
            (fl_lt hfl (le_trans zero_le_one s1) nd s2)) (h1 _)
        · rw [if_neg c4]

/-- **the first and the last span are not empty** for strictly increasing parameters from 0 to 1 -/
theorem computeKnotVector2_ends (p nd nc : ℕ) (uk : List K) (fl : K → ℕ) (hfl : IsFloor fl)
    (hp : 1 ≤ p) (hpn : p + 1 ≤ nc) (hnd : nc ≤ nd)
    (hfirst : uk.getD 0 0 = 0) (hlast : uk.getD (nd - 1) 0 = 1)
    (hstrict : ∀ i j, i < j → j < nd → uk.getD i 0 < uk.getD j 0) :
    0 < fnOf (computeKnotVector2 p nd nc uk fl) (p + 1) ∧ fnOf (computeKnotVector2 p nd nc uk fl) (nc - 1) < 1 := by
  have hmono : ∀ i j, i ≤ j → j < nd → uk.getD i 0 ≤ uk.getD j 0 := by
    intro i j hij hj
    rcases Nat.eq_or_lt_of_le hij with e | e
    · rw [e]
    · exact le_of_lt (hstrict i j e hj)
  constructor
  · rw [computeKnotVector2_fn p nd nc uk fl hpn, if_neg (by omega)]
    by_cases c : p + 1 < nc
    · rw [if_pos c]
      obtain ⟨r1, r2⟩ := kv2_pos_range (K := K) p nd nc (p + 1 - p) hpn (by omega) (by omega) (by omega)
      set t : K := ((p + 1 - p : ℕ) : K) * ((nd : K) / ((nc - p : ℕ) : K)) with ht
      have ht0 : (0 : K) ≤ t := le_trans zero_le_one r1
      have hflt := fl_lt hfl ht0 nd r2
      have hfl1 := fl_pos hfl r1
      rcases Nat.eq_or_lt_of_le hfl1 with e | e
      · -- `int(t) = 1`: the knot is `α ū₁` with `α = t − 1 > 0`
        have hgt : (1 : K) < t := by
          have hq : (0 : K) < ((nc - p : ℕ) : K) := Nat.cast_pos.mpr (by omega)
          have : (1 : K) < (nd : K) / ((nc - p : ℕ) : K) := by
            rw [lt_div_iff₀ hq, one_mul]
            exact_mod_cast (by omega : nc - p < nd)
          have e1 : ((p + 1 - p : ℕ) : K) = 1 := by
            have : p + 1 - p = 1 := by omega
            rw [this]; simp
          rw [ht, e1, one_mul]; exact this
        have hu1 : 0 < uk.getD 1 0 := by
          have := hstrict 0 1 (by omega) (by omega)
          rwa [hfirst] at this
        unfold kv2g
        rw [← e]
        simp only [Nat.sub_self, hfirst, mul_zero, zero_add, Nat.cast_one]
        exact mul_pos (by linarith) hu1
      · have h2 : 0 < uk.getD (fl t - 1) 0 := by
          have := hstrict 0 (fl t - 1) (by omega) (by omega)
          rwa [hfirst] at this
        exact lt_of_lt_of_le h2 (kv2g_lower hfl uk nd hmono ht0 hflt)
    · rw [if_neg c]; exact zero_lt_one
  · rw [computeKnotVector2_fn p nd nc uk fl hpn]
    by_cases c : nc - 1 ≤ p
    · rw [if_pos c]; exact zero_lt_one
    · rw [if_neg c, if_pos (by omega)]
      obtain ⟨r1, r2⟩ := kv2_pos_range (K := K) p nd nc (nc - 1 - p) hpn (by omega) (by omega) (by omega)
      set t : K := ((nc - 1 - p : ℕ) : K) * ((nd : K) / ((nc - p : ℕ) : K)) with ht
      have ht0 : (0 : K) ≤ t := le_trans zero_le_one r1
      have hflt := fl_lt hfl ht0 nd r2
      obtain ⟨a1, a2⟩ := hfl t ht0
      have hu2 : uk.getD (nd - 2) 0 < 1 := by
        have := hstrict (nd - 2) (nd - 1) (by omega) (by omega)
        rwa [hlast] at this
      by_cases e : fl t + 1 < nd
      · calc kv2g uk fl t ≤ uk.getD (fl t) 0 := kv2g_upper hfl uk nd hmono ht0 hflt
          _ ≤ uk.getD (nd - 2) 0 := hmono _ _ (by omega) (by omega)
          _ < 1 := hu2
      · have e' : fl t = nd - 1 := by omega
        unfold kv2g
        rw [e', hlast, show nd - 1 - 1 = nd - 2 by omega]
        have hα : 0 < 1 - (t - ((nd - 1 : ℕ) : K)) := by rw [← e']; linarith
        have : (1 - (t - ((nd - 1 : ℕ) : K))) * uk.getD (nd - 2) 0 < (1 - (t - ((nd - 1 : ℕ) : K))) * 1 :=
          mul_lt_mul_of_pos_left hu2 hα
        linarith

end Geomdl
