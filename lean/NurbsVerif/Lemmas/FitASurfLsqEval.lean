import NurbsVerif.Lemmas.FitASurfLsq
import NurbsVerif.Lemmas.FitASurfEval
import NurbsVerif.Lemmas.FitApproxOne

/-! `fitting.approximate_surface`, part 4: the per-line least-squares statement of every pass for the EVALUATED
    B-spline curve of the line (`curvePoint`: span search + A2.2 + A3.1), as `approximateCurve_least_squares`
    states it for `approximate_curve` – for data whose consecutive points are distinct (positive chord lengths),
    through `basis_function_one` = Cox–de Boor (C03) at the interior parameters. -/
namespace Geomdl
open Blossom Finset Lin
variable {K : Type} [Field K] [LinearOrder K] [IsStrictOrderedRing K]

/-- a least-squares polygon of a line of `d`-dimensional points has `nc` points of `d` coordinates -/
theorem IsLsqLine.netOk {p : ℕ} {U : ℕ → K} {m : ℕ} {uk : List K} {line : List (List K)} {nc d : ℕ}
    {cp : List (List K)} (h : IsLsqLine p U m uk line nc d cp) (hnc2 : 2 ≤ nc) (hline : NetOk d line)
    (hne : 0 < line.length) : cp.length = nc ∧ NetOk d cp := by
  obtain ⟨x, hcp, hxl, hrows, _⟩ := h
  have hne' : line ≠ [] := by intro e; rw [e] at hne; simp at hne
  subst hcp
  refine ⟨by simp [hxl]; omega, ?_⟩
  intro pt hpt
  simp only [List.mem_append, List.mem_singleton] at hpt
  rcases hpt with (rfl | hx) | rfl
  · exact dimOf_eq hline hne
  · exact hrows pt hx
  · rw [List.getLastD_eq_getLast?, List.getLast?_eq_getLast_of_ne_nil hne']
    exact hline _ (List.getLast_mem hne')

/-- **a least-squares polygon minimises the squared distance to the EVALUATED curve**: if the knot function is
    non-decreasing, the interior parameters lie in the half-open domain and `basis_function_one` returns the
    Cox–de Boor values there, then `Σ_{k=1}^{nd−2} |Q_k − C(ū_k)|²` (`lsqErrorEval`, `C` evaluated through the span
    search and A3.1) is least for the polygon that solves the normal equations, among all polygons with the same two
    ends and `nc − 2` interior points. -/
theorem IsLsqLine.minimises_evaluated {p : ℕ} {U : ℕ → K} {m : ℕ} {uk : List K} {line : List (List K)} {nc d : ℕ}
    {cp : List (List K)} (h : IsLsqLine p U m uk line nc d cp) (hnc2 : 2 ≤ nc) (hpn : p + 1 ≤ nc)
    (hline : NetOk d line) (hne : 0 < line.length) (hm : Monotone U)
    (hdom : ∀ k, 1 ≤ k → k + 1 < line.length → U p ≤ uk.getD k 0 ∧ uk.getD k 0 < U nc)
    (hB : ∀ k, 1 ≤ k → k + 1 < line.length → ∀ j, j < nc →
      basisFunOne p U m j (uk.getD k 0) = cdb U p j (uk.getD k 0))
    (y : List (List K)) (hy : y.length = nc - 2) (hyd : NetOk d y) :
    lsqErrorEval p U uk line d cp
      ≤ lsqErrorEval p U uk line d ([line.headD []] ++ y ++ [line.getLastD []]) := by
  obtain ⟨hl, hN⟩ := h.netOk hnc2 hline hne
  have hne' : line ≠ [] := by intro e; rw [e] at hne; simp at hne
  have hyl : ([line.headD []] ++ y ++ [line.getLastD []]).length = nc := by simp [hy]; omega
  have hyN : NetOk d ([line.headD []] ++ y ++ [line.getLastD []]) := by
    intro pt hpt
    simp only [List.mem_append, List.mem_singleton] at hpt
    rcases hpt with (rfl | hx) | rfl
    · exact dimOf_eq hline hne
    · exact hyd pt hx
    · rw [List.getLastD_eq_getLast?, List.getLast?_eq_getLast_of_ne_nil hne']
      exact hline _ (List.getLast_mem hne')
  rw [lsqErrorEval_eq p U m uk line d cp hm (by rw [hl]; exact hpn) hN (by rw [hl]; exact hdom)
        (by rw [hl]; exact hB),
      lsqErrorEval_eq p U m uk line d _ hm (by rw [hyl]; exact hpn) hyN (by rw [hyl]; exact hdom)
        (by rw [hyl]; exact hB)]
  exact h.minimises hnc2 y hy

/-- for parameters that run strictly increasing from 0 to 1, the knot vector of `compute_knot_vector2` is
    non-decreasing, the interior parameters lie in its half-open domain, and `basis_function_one` returns the
    Cox–de Boor values at them -/
theorem kv2_line_ok (p nd nc : ℕ) (uk : List K) (fl : K → ℕ) (hfl : IsFloor fl)
    (hp : 1 ≤ p) (hpn : p + 1 ≤ nc) (hnd : nc ≤ nd) (hlen : uk.length = nd)
    (hfirst : uk.getD 0 0 = 0) (hlast : uk.getD (nd - 1) 0 = 1)
    (hstrict : ∀ i j, i < j → j < nd → uk.getD i 0 < uk.getD j 0) :
    Monotone (fnOf (computeKnotVector2 p nd nc uk fl)) ∧
    (∀ k, 1 ≤ k → k + 1 < nd →
      fnOf (computeKnotVector2 p nd nc uk fl) p ≤ uk.getD k 0 ∧
      uk.getD k 0 < fnOf (computeKnotVector2 p nd nc uk fl) nc) ∧
    (∀ k, 1 ≤ k → k + 1 < nd → ∀ j,
      basisFunOne p (fnOf (computeKnotVector2 p nd nc uk fl)) (computeKnotVector2 p nd nc uk fl).length j (uk.getD k 0)
        = cdb (fnOf (computeKnotVector2 p nd nc uk fl)) p j (uk.getD k 0)) := by
  obtain ⟨hK, hC, hz, ho⟩ := kv2_knotsOk p nd nc uk fl hfl hp hpn hnd hlen hfirst hlast hstrict
  obtain ⟨hz', ho'⟩ := computeKnotVector2_clamped p nd nc uk fl hpn
  have hdom : ∀ k, 1 ≤ k → k + 1 < nd →
      fnOf (computeKnotVector2 p nd nc uk fl) p ≤ uk.getD k 0 ∧
      uk.getD k 0 < fnOf (computeKnotVector2 p nd nc uk fl) nc := by
    intro k hk1 hk2
    constructor
    · rw [hz]
      have := hstrict 0 k (by omega) (by omega)
      rw [hfirst] at this
      exact le_of_lt this
    · rw [ho]
      have := hstrict k (nd - 1) (by omega) (by omega)
      rwa [hlast] at this
  refine ⟨hK.mono, hdom, fun k hk1 hk2 j => ?_⟩
  obtain ⟨d1, d2⟩ := hdom k hk1 hk2
  apply basisFunOne_eq_cdb p _ hK.mono _ j _ d1
  · rw [hz' 0 (by omega)]
    have := hC.first
    rwa [hz] at this
  · intro _
    rw [computeKnotVector2_length p nd nc uk fl hpn, ho' (nc + p + 1 - 1) (by omega)]
    rw [ho] at d2
    exact ne_of_lt d2

/-- **one pass of A9.7 as coded, evaluated form**: for a line of `nd` data points of `d` coordinates with
    parameters that run strictly increasing from 0 to 1 and the knot vector of `compute_knot_vector2`, whenever
    the solver returns, the polygon computed by the pass (`lsqPass`) minimises `Σ_{k=1}^{nd−2} |Q_k − C(ū_k)|²`
    with `C` the EVALUATED B-spline curve, among all polygons with the same two ends. -/
theorem lsqPass_least_squares (p nc : ℕ) (uk : List K) (line : List (List K)) (fl : K → ℕ) (d : ℕ)
    (cp : List (List K)) (hfl : IsFloor fl) (hp : 1 ≤ p) (hpn : p + 1 ≤ nc) (hnd : nc ≤ line.length)
    (hlen : uk.length = line.length) (hline : NetOk d line)
    (hfirst : uk.getD 0 0 = 0) (hlast : uk.getD (line.length - 1) 0 = 1)
    (hstrict : ∀ i j, i < j → j < line.length → uk.getD i 0 < uk.getD j 0)
    (h : lsqPass p (fnOf (computeKnotVector2 p line.length nc uk fl)) (computeKnotVector2 p line.length nc uk fl).length
          uk line nc d = some cp)
    (y : List (List K)) (hy : y.length = nc - 2) (hyd : NetOk d y) :
    lsqErrorEval p (fnOf (computeKnotVector2 p line.length nc uk fl)) uk line d cp
      ≤ lsqErrorEval p (fnOf (computeKnotVector2 p line.length nc uk fl)) uk line d
          ([line.headD []] ++ y ++ [line.getLastD []]) := by
  obtain ⟨g1, g2, g3⟩ := kv2_line_ok p line.length nc uk fl hfl hp hpn hnd hlen hfirst hlast hstrict
  have hL : IsLsqLine p (fnOf (computeKnotVector2 p line.length nc uk fl))
      (computeKnotVector2 p line.length nc uk fl).length uk line nc d cp :=
    lsqPass_normal _ _ _ _ _ _ _ _ hnd h
  exact hL.minimises_evaluated (by omega) hpn hline (by omega) g1 g2 (fun k h1 h2 j _ => g3 k h1 h2 j) y hy hyd

/-- the averaged parameters of data with positive chord lengths: `n` of them, from 0 to 1, strictly increasing -/
theorem averageParams_ok (cds : List (List K)) (n : ℕ) (hn : 2 ≤ n)
    (hc : cds ≠ [] ∧ ∀ c ∈ cds, c.length + 1 = n ∧ ∀ x ∈ c, 0 < x) :
    (averageParams cds n).length = n ∧ (averageParams cds n).getD 0 0 = 0 ∧
    (averageParams cds n).getD (n - 1) 0 = 1 ∧
    ∀ i j, i < j → j < n → (averageParams cds n).getD i 0 < (averageParams cds n).getD j 0 := by
  refine ⟨averageParams_length cds n, averageParams_first cds n (by omega), ?_,
    fun i j hij hj => averageParams_strictMono cds n hc.1 hc.2 i j hij hj⟩
  apply averageParams_last cds n (by omega) hc.1
  intro c hcm
  obtain ⟨h1, h2⟩ := hc.2 c hcm
  refine ⟨h1, ?_⟩
  have hne : c ≠ [] := by intro e; rw [e] at h1; simp at h1; omega
  rw [sumL_eq_sum]
  exact ne_of_gt (List.sum_pos _ h2 hne)

/-- **both passes of `approximate_surface` are least-squares fits of their lines against the EVALUATED curve**
    (data whose consecutive points are distinct in both directions): whenever it returns there are the `sv` column
    polygons `cols` computed by the first pass and the `ncu` row polygons `rows` computed by the second pass
    (`lsqPass`, the control net is the concatenation of the rows), and each of them minimises the summed squared
    distance between the interior points of its line and the B-spline curve evaluated at their parameters, among
    all polygons with the same two end points. -/
theorem approximateSurface_passes_least_squares (pu pv su sv : ℕ) (pts : List (List K)) (cdsU cdsV : List (List K))
    (ncu ncv : ℕ) (fl : K → ℕ) (kvu kvv : List K) (cp : List (List K)) (d : ℕ)
    (hfl : IsFloor fl) (hpu1 : 1 ≤ pu) (hpv1 : 1 ≤ pv) (hpu : pu + 1 ≤ ncu) (hpv : pv + 1 ≤ ncv)
    (hncu : ncu ≤ su) (hncv : ncv ≤ sv) (hlen : pts.length = su * sv) (hP : NetOk d pts)
    (hcU : cdsU ≠ [] ∧ ∀ c ∈ cdsU, c.length + 1 = su ∧ ∀ x ∈ c, 0 < x)
    (hcV : cdsV ≠ [] ∧ ∀ c ∈ cdsV, c.length + 1 = sv ∧ ∀ x ∈ c, 0 < x)
    (h : approximateSurface pu pv su sv pts cdsU cdsV ncu ncv fl = some (kvu, kvv, cp)) :
    ∃ cols rows : List (List (List K)), cols.length = sv ∧ rows.length = ncu ∧ cp = rows.flatten ∧
      (∀ j, j < sv →
        lsqPass pu (fnOf kvu) kvu.length (averageParams cdsU su)
          ((List.range su).map (fun i => pts.getD (j + sv * i) [])) ncu (pts.headD []).length = some (cols.getD j []) ∧
        ∀ y : List (List K), y.length = ncu - 2 → NetOk d y →
          lsqErrorEval pu (fnOf kvu) (averageParams cdsU su) ((List.range su).map (fun i => pts.getD (j + sv * i) [])) d
              (cols.getD j [])
            ≤ lsqErrorEval pu (fnOf kvu) (averageParams cdsU su) ((List.range su).map (fun i => pts.getD (j + sv * i) [])) d
              ([pts.getD j []] ++ y ++ [pts.getD (j + sv * (su - 1)) []])) ∧
      (∀ i, i < ncu →
        lsqPass pv (fnOf kvv) kvv.length (averageParams cdsV sv)
          ((List.range sv).map (fun j => (cols.getD j []).getD i [])) ncv (pts.headD []).length = some (rows.getD i []) ∧
        ∀ y : List (List K), y.length = ncv - 2 → NetOk d y →
          lsqErrorEval pv (fnOf kvv) (averageParams cdsV sv) ((List.range sv).map (fun j => (cols.getD j []).getD i [])) d
              (rows.getD i [])
            ≤ lsqErrorEval pv (fnOf kvv) (averageParams cdsV sv) ((List.range sv).map (fun j => (cols.getD j []).getD i [])) d
              ([(cols.getD 0 []).getD i []] ++ y ++ [(cols.getD (sv - 1) []).getD i []])) := by
  obtain ⟨hkvu, hkvv, cols, rows, hcl, hrl, hcp, hU, hV⟩ :=
    approximateSurface_struct pu pv su sv pts cdsU cdsV ncu ncv fl kvu kvv cp h
  have hsu : 2 ≤ su := by omega
  have hsv : 2 ≤ sv := by omega
  have hpos : 0 < pts.length := by rw [hlen]; exact Nat.mul_pos (by omega) (by omega)
  have hdim : (pts.headD []).length = d := dimOf_eq hP hpos
  obtain ⟨ul, u0, u1, us⟩ := averageParams_ok cdsU su hsu hcU
  obtain ⟨vl, v0, v1, vs⟩ := averageParams_ok cdsV sv hsv hcV
  have hdata : ∀ i j, i < su → j < sv → (pts.getD (j + sv * i) []).length = d :=
    fun i j hi hj => ptsGet_length hP _ (by rw [hlen]; exact flat_index su sv i j hi hj)
  have hlineU : ∀ j, j < sv → NetOk d ((List.range su).map (fun i => pts.getD (j + sv * i) [])) := by
    intro j hj pt hpt
    simp only [List.mem_map, List.mem_range] at hpt
    obtain ⟨i, hi, rfl⟩ := hpt
    exact hdata i j hi hj
  have hcolget : ∀ i j, i < ncu → j < sv → ((cols.getD j []).getD i []).length = d := by
    intro i j hi hj
    have hUj := hU j hj
    rw [hdim] at hUj
    have hN : ∀ pt ∈ cols.getD j [], pt.length = d := by
      apply lsqPass_netOk _ _ _ _ _ _ _ _ _ _ hUj
      · rw [map_range_headD _ _ _ (by omega)]; exact hdata 0 j (by omega) hj
      · rw [map_range_getLastD _ _ _ (by omega)]; exact hdata (su - 1) j (by omega) hj
    have hl : (cols.getD j []).length = ncu := (lsqPass_shape _ _ _ _ _ _ _ _ (by omega) hUj).1
    rw [List.getD_eq_getElem?_getD, List.getElem?_eq_getElem (by omega), Option.getD_some]
    exact hN _ (List.getElem_mem _)
  have hlineV : ∀ i, i < ncu → NetOk d ((List.range sv).map (fun j => (cols.getD j []).getD i [])) := by
    intro i hi pt hpt
    simp only [List.mem_map, List.mem_range] at hpt
    obtain ⟨j, hj, rfl⟩ := hpt
    exact hcolget i j hi hj
  refine ⟨cols, rows, hcl, hrl, hcp, fun j hj => ⟨hU j hj, fun y hy hyd => ?_⟩,
    fun i hi => ⟨hV i hi, fun y hy hyd => ?_⟩⟩
  · have hUj := hU j hj
    rw [hdim, hkvu] at hUj
    have := lsqPass_least_squares pu ncu (averageParams cdsU su) ((List.range su).map (fun i => pts.getD (j + sv * i) []))
      fl d (cols.getD j []) hfl hpu1 hpu (by simpa using hncu) (by simpa using ul) (hlineU j hj) u0 (by simpa using u1)
      (by simpa using us) (by simpa using hUj) y hy hyd
    rw [map_range_headD _ _ _ (by omega), map_range_getLastD _ _ _ (by omega)] at this
    rw [hkvu]
    simpa using this
  · have hVi := hV i hi
    rw [hdim, hkvv] at hVi
    have := lsqPass_least_squares pv ncv (averageParams cdsV sv) ((List.range sv).map (fun j => (cols.getD j []).getD i []))
      fl d (rows.getD i []) hfl hpv1 hpv (by simpa using hncv) (by simpa using vl) (hlineV i hi) v0 (by simpa using v1)
      (by simpa using vs) (by simpa using hVi) y hy hyd
    rw [map_range_headD _ _ _ (by omega), map_range_getLastD _ _ _ (by omega)] at this
    rw [hkvv]
    simpa using this

end Geomdl
