import NurbsVerif.Model.SpanR
import NurbsVerif.Lemmas.Span
import NurbsVerif.Lemmas.SpanBin
import NurbsVerif.Lemmas.AssembleSpan

/-!
  The REPAIRED span searches (`findSpanLinearR`, `findSpanBinR`: step back to the last non-empty span at the domain
  end, F-01b):
  * they return what `findSpanLinear` / `findSpanBin` return whenever the span found is not empty (so every theorem
    about `KnotsOk` knot vectors transfers);
  * WITHOUT the non-empty-last-span hypothesis, for a sorted knot function with a non-degenerate domain `U p < U n`
    and `u ∈ [U p, U n]`, `findSpanLinearR` returns a legal, NON-EMPTY span containing `u`: the half-open span of `u`
    for `u < U n`, the last non-empty span for `u = U n`;
  * the repaired binary search returns the same span under the (generalised) tolerance hypothesis.
-/
set_option linter.unusedSectionVars false

namespace Geomdl
variable {K : Type} [Field K] [LinearOrder K] [IsStrictOrderedRing K]

/-! ### the two step-back loops -/

/-- the loop on the span counter (linear search) is the loop on the index (binary search), shifted by one -/
theorem stepBackSpan_succ (p : ℕ) (U : ℕ → K) : ∀ (fuel m : ℕ),
    stepBackSpan p U fuel (m + 1) = stepBackIdx p U fuel m + 1 := by
  intro fuel
  induction fuel with
  | zero => intro m; rfl
  | succ fuel ih =>
    intro m
    simp only [stepBackSpan, stepBackIdx, Nat.add_sub_cancel]
    by_cases hc : p < m ∧ U m = U (m + 1)
    · rw [if_pos hc, if_pos hc]
      obtain ⟨m', rfl⟩ : ∃ m', m = m' + 1 := ⟨m - 1, by omega⟩
      rw [ih m']; simp
    · rw [if_neg hc, if_neg hc]

/-- what the step back returns, for every knot function: an index `m' ≤ m`, not below the degree if `m` was not,
    the loop condition fails at `m'`, and all spans strictly between are empty -/
theorem stepBackIdx_spec (p : ℕ) (U : ℕ → K) : ∀ (fuel m : ℕ), m ≤ p + fuel →
    let m' := stepBackIdx p U fuel m
    m' ≤ m ∧ (p ≤ m → p ≤ m') ∧ (m' ≤ p ∨ U m' ≠ U (m' + 1)) ∧ ∀ i, m' < i → i ≤ m → U i = U (i + 1) := by
  intro fuel
  induction fuel with
  | zero =>
    intro m hm
    simp only [stepBackIdx]
    exact ⟨le_refl _, fun h => h, Or.inl (by omega), fun i h1 h2 => by omega⟩
  | succ fuel ih =>
    intro m hm
    simp only [stepBackIdx]
    by_cases hc : p < m ∧ U m = U (m + 1)
    · rw [if_pos hc]
      obtain ⟨h1, h2, h3, h4⟩ := ih (m - 1) (by omega)
      refine ⟨by omega, fun _ => h2 (by omega), h3, ?_⟩
      intro i hi1 hi2
      rcases Nat.eq_or_lt_of_le hi2 with h | h
      · rw [h]; exact hc.2
      · exact h4 i hi1 (by omega)
    · rw [if_neg hc]
      refine ⟨le_refl _, fun h => h, ?_, fun i h1 h2 => by omega⟩
      by_cases hpm : p < m
      · right; exact fun h => hc ⟨hpm, h⟩
      · left; omega

/-- all spans skipped are empty: the right end of the span returned is the right end of the span started from -/
theorem stepBackIdx_right_end (p : ℕ) (U : ℕ → K) (fuel m : ℕ) (hm : m ≤ p + fuel) :
    U (stepBackIdx p U fuel m + 1) = U (m + 1) := by
  obtain ⟨h1, _, _, h4⟩ := stepBackIdx_spec p U fuel m hm
  have key : ∀ d, stepBackIdx p U fuel m + d ≤ m → U (stepBackIdx p U fuel m + d + 1) = U (m + 1) →
      U (stepBackIdx p U fuel m + 1) = U (m + 1) := by
    intro d
    induction d with
    | zero => intro _ h; exact h
    | succ d ih =>
      intro hd h
      apply ih (by omega)
      rw [← h]
      exact h4 _ (by omega) hd
  exact key (m - stepBackIdx p U fuel m) (by omega) (by congr 2; omega)

/-- no step back from a non-empty span (or from the first span) -/
theorem stepBackIdx_id (p : ℕ) (U : ℕ → K) (fuel m : ℕ) (h : m ≤ p ∨ U m ≠ U (m + 1)) :
    stepBackIdx p U fuel m = m := by
  cases fuel with
  | zero => rfl
  | succ fuel =>
    simp only [stepBackIdx]
    rw [if_neg]
    rintro ⟨h1, h2⟩
    rcases h with h | h
    · omega
    · exact h h2

/-! ### the repaired linear search -/

/-- the repaired linear search is the step back applied to the span the unrepaired search returns -/
theorem findSpanLinearR_eq_stepBack (p : ℕ) (U : ℕ → K) (n : ℕ) (u : K) (hpn : p + 1 ≤ n) :
    findSpanLinearR p U n u = stepBackIdx p U (n + 1) (findSpanLinear p U n u) := by
  unfold findSpanLinearR findSpanLinear
  obtain ⟨h1, _, _, _⟩ := findSpanLinearAux_spec U n u (n+1) (p+1) hpn (by omega)
  obtain ⟨s, hs⟩ : ∃ s, findSpanLinearAux U n u (n + 1) (p + 1) = s + 1 :=
    ⟨findSpanLinearAux U n u (n + 1) (p + 1) - 1, by omega⟩
  rw [hs, stepBackSpan_succ]
  simp

/-- **(a)** the repaired linear search returns the span the unrepaired one returns whenever that span is not empty -/
theorem findSpanLinearR_eq_of_nonempty (p : ℕ) (U : ℕ → K) (n : ℕ) (u : K) (hpn : p + 1 ≤ n)
    (hne : U (findSpanLinear p U n u) ≠ U (findSpanLinear p U n u + 1)) :
    findSpanLinearR p U n u = findSpanLinear p U n u := by
  rw [findSpanLinearR_eq_stepBack p U n u hpn]
  exact stepBackIdx_id p U _ _ (Or.inr hne)

/-- … in particular on the closed domain of a `KnotsOk` knot function (non-empty last span) -/
theorem findSpanLinearR_eq_of_knotsOk {p : ℕ} {U : ℕ → K} {n : ℕ} (hU : KnotsOk p U n) (u : K)
    (hlo : U p ≤ u) (hhi : u ≤ U n) : findSpanLinearR p U n u = findSpanLinear p U n u :=
  findSpanLinearR_eq_of_nonempty p U n u hU.pn (ne_of_lt (findSpanLinear_dom hU u hlo hhi).1.nonempty)

/-- … and strictly below the domain end of ANY sorted knot function -/
theorem findSpanLinearR_eq_of_lt (p : ℕ) (U : ℕ → K) (n : ℕ) (u : K) (hpn : p + 1 ≤ n) (hm : Monotone U)
    (hlo : U p ≤ u) (hhi : u < U n) : findSpanLinearR p U n u = findSpanLinear p U n u := by
  obtain ⟨a1, a2, _, _⟩ := findSpanLinear_halfopen hm hpn u hlo hhi
  exact findSpanLinearR_eq_of_nonempty p U n u hpn (ne_of_lt (lt_of_le_of_lt a1 a2))

/-- the span found is a legal index (no hypothesis on the parameter or on the knots) -/
theorem findSpanLinearR_bounds (p : ℕ) (U : ℕ → K) (n : ℕ) (u : K) (hpn : p + 1 ≤ n) :
    p ≤ findSpanLinearR p U n u ∧ findSpanLinearR p U n u < n := by
  rw [findSpanLinearR_eq_stepBack p U n u hpn]
  obtain ⟨h1, h2, _, _⟩ := findSpanLinearAux_spec U n u (n+1) (p+1) hpn (by omega)
  have hk : p ≤ findSpanLinear p U n u ∧ findSpanLinear p U n u < n := by unfold findSpanLinear; omega
  obtain ⟨s1, s2, _, _⟩ := stepBackIdx_spec p U (n + 1) (findSpanLinear p U n u) (by omega)
  exact ⟨s2 hk.1, by omega⟩

/-- **at the domain end** of a sorted knot function with `U p < U n`: the repaired search returns the LAST NON-EMPTY
    span of the domain – non-empty, right end `U n`, every later span of the domain empty -/
theorem findSpanLinearR_right_end (p : ℕ) (U : ℕ → K) (n : ℕ) (hpn : p + 1 ≤ n) (hm : Monotone U) (hdom : U p < U n) :
    let k := findSpanLinearR p U n (U n)
    p ≤ k ∧ k < n ∧ U k < U (k + 1) ∧ U (k + 1) = U n ∧ ∀ i, k < i → i < n → U i = U (i + 1) := by
  intro k
  have hk : k = stepBackIdx p U (n + 1) (n - 1) := by
    show findSpanLinearR p U n (U n) = _
    rw [findSpanLinearR_eq_stepBack p U n _ hpn, findSpanLinear_right_end hm hpn]
  obtain ⟨s1, s2, s3, s4⟩ := stepBackIdx_spec p U (n + 1) (n - 1) (by omega)
  have hr := stepBackIdx_right_end p U (n + 1) (n - 1) (by omega)
  rw [← hk] at s1 s2 s3 s4 hr
  have e : n - 1 + 1 = n := by omega
  rw [e] at hr
  have hpk : p ≤ k := s2 (by omega)
  refine ⟨hpk, by omega, ?_, hr, fun i h1 h2 => s4 i h1 (by omega)⟩
  rcases s3 with h | h
  · have : k = p := by omega
    rw [hr, this]; exact hdom
  · exact lt_of_le_of_ne (hm (by omega)) h

/-- **(b)** closed domain of a sorted knot function with a non-degenerate domain (`U p < U n`; NO hypothesis on the
    last span): the span `k` the repaired linear search returns is a legal index, NOT EMPTY, contains `u` (closed on the
    right); half-open for `u < U n`; for `u = U n` the last non-empty span of the domain -/
theorem findSpanLinearR_dom (p : ℕ) (U : ℕ → K) (n : ℕ) (u : K) (hpn : p + 1 ≤ n) (hm : Monotone U)
    (hdom : U p < U n) (hlo : U p ≤ u) (hhi : u ≤ U n) :
    let k := findSpanLinearR p U n u
    p ≤ k ∧ k < n ∧ U k < U (k + 1) ∧ U k ≤ u ∧ u ≤ U (k + 1) ∧
      (u < U n → u < U (k + 1)) ∧
      (u = U n → U (k + 1) = U n ∧ ∀ i, k < i → i < n → U i = U (i + 1)) := by
  intro k
  rcases lt_or_eq_of_le hhi with hlt | heq
  · have hk : k = findSpanLinear p U n u := findSpanLinearR_eq_of_lt p U n u hpn hm hlo hlt
    obtain ⟨a1, a2, a3, a4⟩ := findSpanLinear_halfopen hm hpn u hlo hlt
    rw [← hk] at a1 a2 a3 a4
    exact ⟨a3, a4, lt_of_le_of_lt a1 a2, a1, le_of_lt a2, fun _ => a2, fun h => absurd hlt (by rw [h]; exact lt_irrefl _)⟩
  · subst heq
    obtain ⟨b1, b2, b3, b4, b5⟩ := findSpanLinearR_right_end p U n hpn hm hdom
    exact ⟨b1, b2, b3, le_trans (le_of_lt b3) (le_of_eq b4), le_of_eq b4.symm,
      fun h => absurd h (lt_irrefl _), fun _ => ⟨b4, b5⟩⟩

/-- the same, packaged as `SpanOk` (what the span-level theorems of A2.2 / A3.1 need) -/
theorem findSpanLinearR_spanOk (p : ℕ) (U : ℕ → K) (n : ℕ) (u : K) (hpn : p + 1 ≤ n) (hm : Monotone U)
    (hdom : U p < U n) (hlo : U p ≤ u) (hhi : u ≤ U n) : SpanOk U (findSpanLinearR p U n u) u := by
  obtain ⟨_, _, h3, h4, h5, _, _⟩ := findSpanLinearR_dom p U n u hpn hm hdom hlo hhi
  exact ⟨hm, h4, h5, h3⟩

/-- uniqueness: a non-empty span of the domain that has `U n` as its right end and only empty spans after it IS the
    span the repaired search returns at `U n` -/
theorem findSpanLinearR_right_end_unique (p : ℕ) (U : ℕ → K) (n : ℕ) (hpn : p + 1 ≤ n) (hm : Monotone U)
    (hdom : U p < U n) (k' : ℕ) (h2 : k' < n) (h3 : U k' < U (k' + 1)) (h4 : U (k' + 1) = U n) :
    findSpanLinearR p U n (U n) = k' := by
  obtain ⟨b1, b2, b3, b4, b5⟩ := findSpanLinearR_right_end p U n hpn hm hdom
  by_contra hne
  rcases Nat.lt_or_gt_of_ne hne with h | h
  · -- the span returned is before `k'`: then `k'` is one of the later spans, all empty
    exact absurd (b5 k' h h2) (ne_of_lt h3)
  · have : U (k' + 1) ≤ U (findSpanLinearR p U n (U n)) := hm (by omega)
    exact absurd b3 (not_lt.mpr (le_trans (le_of_eq b4) (le_trans (le_of_eq h4.symm) this)))

/-! ### the repaired binary search -/

/-- **(a)** the repaired binary search is the unrepaired one whenever the last span of the domain is not empty (no
    hypothesis on the tolerance or the parameter) -/
theorem findSpanBinR_eq_of_last_nonempty (p : ℕ) (U : ℕ → K) (n : ℕ) (u tol : K) (hpn : p + 1 ≤ n)
    (hlast : U (n - 1) ≠ U n) : findSpanBinR p U n u tol = findSpanBin p U n u tol := by
  unfold findSpanBinR findSpanBin
  have e : n - 1 + 1 = n := by omega
  rw [stepBackIdx_id p U n (n - 1) (Or.inr (by rw [e]; exact hlast))]

/-- the shortcut branch returns the span the repaired linear search returns at the domain end -/
theorem stepBackIdx_last_eq (p : ℕ) (U : ℕ → K) (n : ℕ) (hpn : p + 1 ≤ n) (hm : Monotone U) :
    stepBackIdx p U n (n - 1) = findSpanLinearR p U n (U n) := by
  rw [findSpanLinearR_eq_stepBack p U n _ hpn, findSpanLinear_right_end hm hpn]
  -- the fuel does not matter once it suffices
  have e1 : ∀ f m, stepBackIdx p U (f + 1) m
      = if p < m ∧ U m = U (m + 1) then stepBackIdx p U f (m - 1) else m := fun _ _ => rfl
  have fuel_irrel : ∀ (f m : ℕ), m ≤ p + f → stepBackIdx p U (f + 1) m = stepBackIdx p U f m := by
    intro f
    induction f with
    | zero =>
      intro m hm'
      simp only [stepBackIdx]
      rw [if_neg]; rintro ⟨h, _⟩; omega
    | succ f ih =>
      intro m hm'
      rw [e1 (f + 1) m, e1 f m]
      by_cases hc : p < m ∧ U m = U (m + 1)
      · rw [if_pos hc, if_pos hc]; exact ih (m - 1) (by omega)
      · rw [if_neg hc, if_neg hc]
  exact (fuel_irrel n (n - 1) (by omega)).symm

/-- **repaired binary search = repaired linear search** on the closed domain of a sorted knot function, under the
    hypothesis that the tolerance shortcut only fires for parameters of the last NON-EMPTY span (for a non-empty last
    span this is the hypothesis of `findSpanBin_eq_linear`, the one F-17b violates) -/
theorem findSpanBinR_eq_linearR (p : ℕ) (U : ℕ → K) (n : ℕ) (u tol : K) (hpn : p + 1 ≤ n)
    (hm : Monotone U) (hlo : U p ≤ u) (hhi : u ≤ U n) (htol : 0 ≤ tol)
    (hend : absK (U n - u) ≤ tol → U (findSpanLinearR p U n (U n)) ≤ u) :
    findSpanBinR p U n u tol = some (findSpanLinearR p U n u) := by
  by_cases hc : absK (U n - u) ≤ tol
  · unfold findSpanBinR
    rw [if_pos hc, stepBackIdx_last_eq p U n hpn hm]
    congr 1
    rcases lt_or_eq_of_le hhi with hlt | heq
    · -- `u < U n`: the last non-empty span contains `u` half-open, hence it is the span of `u`
      have hdom : U p < U n := lt_of_le_of_lt hlo hlt
      obtain ⟨b1, b2, b3, b4, b5⟩ := findSpanLinearR_right_end p U n hpn hm hdom
      rw [findSpanLinearR_eq_of_lt p U n u hpn hm hlo hlt]
      exact (findSpanLinear_unique p U n u hpn hm hlo hlt _ (hend hc) (by rw [b4]; exact hlt)).symm
    · rw [heq]
  · have hlt : u < U n := by
      rcases lt_or_eq_of_le hhi with h | h
      · exact h
      · exfalso; apply hc
        rw [h]; simp [absK, htol]
    have hb : findSpanBinR p U n u tol = findSpanBin p U n u tol := by
      unfold findSpanBinR findSpanBin
      rw [if_neg hc, if_neg hc]
    rw [hb, findSpanBin_eq_linear p U n u tol hpn hm hlo hhi htol (fun h => absurd h hc),
      findSpanLinearR_eq_of_lt p U n u hpn hm hlo hlt]

end Geomdl
