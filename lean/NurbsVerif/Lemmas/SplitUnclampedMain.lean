import NurbsVerif.Lemmas.SplitUnclampedEval

/-! `operations.split_curve` end to end through the model `splitDir`, for knot vectors that need NOT be
    clamped (the domain is `[U_p, U_n]`, the first / last `p+1` knots are arbitrary non-decreasing). -/
set_option linter.unusedSectionVars false
namespace Geomdl
open Blossom
variable {K : Type} [Field K] [LinearOrder K] [IsStrictOrderedRing K]

/-- **after the insertion step the curve is cut-ready** (no clamping assumed): the split parameter has
    multiplicity exactly `p`, its last copy at index `k + r` -/
theorem splitRefined_cutU (p d : ℕ) (U : List K) (P : List (List K)) (ub tol : K)
    (hwf : CurveWF p d U P) (hp : 1 ≤ p) (hlo : fnOf U p < ub) (hhi : ub < fnOf U P.length)
    (hmx : MultExact p (fnOf U) (findSpanLinear p (fnOf U) P.length ub) (findMultiplicity ub U tol) ub) :
    CutOkU p d (splitRefined p U P ub tol).1 (splitRefined p U P ub tol).2 ub
      (findSpanLinear p (fnOf U) P.length ub + (p - findMultiplicity ub U tol)) := by
  obtain ⟨hW, hN, hwf', _⟩ := splitRefined_spec p d U P ub tol hwf hlo hhi hmx
  obtain ⟨k1, k2, k3, k4⟩ := findSpanLinear_spec p (fnOf U) P.length ub hwf.pn hwf.mono (le_of_lt hlo)
  set k := findSpanLinear p (fnOf U) P.length ub with hk
  set s := findMultiplicity ub U tol with hs
  have hsp := hmx.le
  have hk2 : ub < fnOf U (k + 1) := by
    rcases k4 with h | h
    · exact h
    · rw [h]; exact hhi
  -- the first copy of `ub` lies behind the start of the domain
  have hks : p + s ≤ k := by
    by_contra hc
    by_cases hs0 : s = 0
    · omega
    · have h1 : fnOf U (k - s + 1) = ub := hmx.eq _ (by omega) (by omega)
      have h2 : fnOf U (k - s + 1) ≤ fnOf U p := hwf.mono (by omega)
      linarith
  refine ⟨hwf', hp, by rw [hN]; omega, by omega, ?_, ?_, ?_⟩
  · intro x h1 h2
    rw [hW]; unfold Uh
    by_cases c : x ≤ k
    · rw [if_pos c]; exact hmx.eq x (by omega) c
    · rw [if_neg c, if_pos h2]
  · rw [hW]; unfold Uh
    rw [if_pos (by omega)]
    have : k + (p - s) - p = k - s := by omega
    rw [this]; exact hmx.lt
  · rw [hW]; unfold Uh
    rw [if_neg (by omega), if_neg (by omega)]
    have : k + (p - s) + 1 - (p - s) = k + 1 := by omega
    rw [this]; exact hk2

/-- the knots of the refined curve at the four places that determine the pieces' knot ranges and
    domains are those of the input: `U_0`, `U_p`, `U_n`, `U_{n+p}` -/
theorem splitRefined_ends (p d : ℕ) (U : List K) (P : List (List K)) (ub tol : K)
    (hwf : CurveWF p d U P) (hlo : fnOf U p < ub) (hhi : ub < fnOf U P.length)
    (hmx : MultExact p (fnOf U) (findSpanLinear p (fnOf U) P.length ub) (findMultiplicity ub U tol) ub) :
    fnOf (splitRefined p U P ub tol).1 0 = fnOf U 0 ∧
    fnOf (splitRefined p U P ub tol).1 p = fnOf U p ∧
    fnOf (splitRefined p U P ub tol).1 (splitRefined p U P ub tol).2.length = fnOf U P.length ∧
    fnOf (splitRefined p U P ub tol).1 ((splitRefined p U P ub tol).2.length + p) = fnOf U (P.length + p) := by
  obtain ⟨hW, hN, _, _⟩ := splitRefined_spec p d U P ub tol hwf hlo hhi hmx
  obtain ⟨k1, k2, _, _⟩ := findSpanLinear_spec p (fnOf U) P.length ub hwf.pn hwf.mono (le_of_lt hlo)
  set k := findSpanLinear p (fnOf U) P.length ub with hk
  set s := findMultiplicity ub U tol with hs
  refine ⟨?_, ?_, ?_, ?_⟩
  · rw [hW]; unfold Uh; rw [if_pos (by omega)]
  · rw [hW]; unfold Uh; rw [if_pos k1]
  · rw [hW, hN]; unfold Uh
    rw [if_neg (by omega), if_neg (by omega)]; congr 1; omega
  · rw [hW, hN]; unfold Uh
    rw [if_neg (by omega), if_neg (by omega)]; congr 1; omega

/-- **`splitDir` on a well-formed (possibly unclamped) curve at an interior parameter**: not rejected,
    and the two pieces are the normalised left / right cuts of the refined curve -/
theorem splitDir_curve_eqU (rat : Bool) (p d : ℕ) (U : List K) (P : List (List K)) (ub tol : K)
    (hwf : CurveWF p d U P) (hp : 1 ≤ p) (hlo : fnOf U p < ub) (hhi : ub < fnOf U P.length)
    (hmx : MultExact p (fnOf U) (findSpanLinear p (fnOf U) P.length ub) (findMultiplicity ub U tol) ub) :
    splitDir (curveShape rat p U P) 0 ub tol =
      some (curveShape rat p
              (knotNormalize (leftKv (splitRefined p U P ub tol).1 ub
                (findSpanLinear p (fnOf U) P.length ub + (p - findMultiplicity ub U tol))))
              ((splitRefined p U P ub tol).2.take
                (findSpanLinear p (fnOf U) P.length ub + (p - findMultiplicity ub U tol) - p + 1)),
            curveShape rat p
              (knotNormalize (rightKv p (splitRefined p U P ub tol).1 ub
                (findSpanLinear p (fnOf U) P.length ub + (p - findMultiplicity ub U tol))))
              ((splitRefined p U P ub tol).2.drop
                (findSpanLinear p (fnOf U) P.length ub + (p - findMultiplicity ub U tol) - p))) := by
  have hcut := splitRefined_cutU p d U P ub tol hwf hp hlo hhi hmx
  obtain ⟨k1, k2, _, _⟩ := findSpanLinear_spec p (fnOf U) P.length ub hwf.pn hwf.mono (le_of_lt hlo)
  have hlen := hwf.len
  have hnot : ¬ (ub = U.getD p 0 ∨ ub = U.getD P.length 0) := by
    rw [fnOf_getD U p (by omega), fnOf_getD U P.length (by omega)]
    intro h
    rcases h with h | h
    · rw [h] at hlo; exact lt_irrefl _ hlo
    · rw [h] at hhi; exact lt_irrefl _ hhi
  rw [splitDir_curveShape rat p U P ub tol hnot, hcut.span]
  have e1 : findSpanLinear p (fnOf U) P.length ub - p + 1 + (p - findMultiplicity ub U tol)
      = findSpanLinear p (fnOf U) P.length ub + (p - findMultiplicity ub U tol) - p + 1 := by omega
  have e2 : findSpanLinear p (fnOf U) P.length ub + (p - findMultiplicity ub U tol) - p + 1 - 1
      = findSpanLinear p (fnOf U) P.length ub + (p - findMultiplicity ub U tol) - p := by omega
  rw [e1, e2]
  rfl

/-- the explicit pieces of `splitDir` coincide with the ORIGINAL curve (insertion step composed with
    the cut), each piece evaluated at the affine image of `t ∈ [0,1]` in its own domain -/
theorem split_pieces_explicitU (p d : ℕ) (U : List K) (P : List (List K)) (ub tol : K)
    (hwf : CurveWF p d U P) (hp : 1 ≤ p) (hlo : fnOf U p < ub) (hhi : ub < fnOf U P.length)
    (hmx : MultExact p (fnOf U) (findSpanLinear p (fnOf U) P.length ub) (findMultiplicity ub U tol) ub) :
    (∀ t, 0 ≤ t → t ≤ 1 → ∀ j,
      (curvePoint p (fnOf (knotNormalize (leftKv (splitRefined p U P ub tol).1 ub
            (findSpanLinear p (fnOf U) P.length ub + (p - findMultiplicity ub U tol)))))
          ((splitRefined p U P ub tol).2.take
            (findSpanLinear p (fnOf U) P.length ub + (p - findMultiplicity ub U tol) - p + 1))
          (fnOf (knotNormalize (leftKv (splitRefined p U P ub tol).1 ub
              (findSpanLinear p (fnOf U) P.length ub + (p - findMultiplicity ub U tol)))) p
            + t * (fnOf (knotNormalize (leftKv (splitRefined p U P ub tol).1 ub
                (findSpanLinear p (fnOf U) P.length ub + (p - findMultiplicity ub U tol))))
                  (findSpanLinear p (fnOf U) P.length ub + (p - findMultiplicity ub U tol) - p + 1)
              - fnOf (knotNormalize (leftKv (splitRefined p U P ub tol).1 ub
                (findSpanLinear p (fnOf U) P.length ub + (p - findMultiplicity ub U tol)))) p))).getD j 0
        = (curvePoint p (fnOf U) P (fnOf U p + t * (ub - fnOf U p))).getD j 0) ∧
    (∀ t, 0 ≤ t → t ≤ 1 → ∀ j,
      (curvePoint p (fnOf (knotNormalize (rightKv p (splitRefined p U P ub tol).1 ub
            (findSpanLinear p (fnOf U) P.length ub + (p - findMultiplicity ub U tol)))))
          ((splitRefined p U P ub tol).2.drop
            (findSpanLinear p (fnOf U) P.length ub + (p - findMultiplicity ub U tol) - p))
          (fnOf (knotNormalize (rightKv p (splitRefined p U P ub tol).1 ub
              (findSpanLinear p (fnOf U) P.length ub + (p - findMultiplicity ub U tol)))) p
            + t * (fnOf (knotNormalize (rightKv p (splitRefined p U P ub tol).1 ub
                (findSpanLinear p (fnOf U) P.length ub + (p - findMultiplicity ub U tol))))
                  ((splitRefined p U P ub tol).2.length
                    - (findSpanLinear p (fnOf U) P.length ub + (p - findMultiplicity ub U tol) - p))
              - fnOf (knotNormalize (rightKv p (splitRefined p U P ub tol).1 ub
                (findSpanLinear p (fnOf U) P.length ub + (p - findMultiplicity ub U tol)))) p))).getD j 0
        = (curvePoint p (fnOf U) P (ub + t * (fnOf U P.length - ub))).getD j 0) := by
  have hcut := splitRefined_cutU p d U P ub tol hwf hp hlo hhi hmx
  obtain ⟨_, _, _, hsame⟩ := splitRefined_spec p d U P ub tol hwf hlo hhi hmx
  obtain ⟨_, hWp, hWN, _⟩ := splitRefined_ends p d U P ub tol hwf hlo hhi hmx
  constructor
  · intro t ht0 ht1 j
    rw [left_piece_curve_tU hcut t ht0 ht1 j, hWp]
    have hpos : 0 < ub - fnOf U p := sub_pos.mpr hlo
    apply hsame
    · nlinarith
    · have : ub ≤ fnOf U P.length := le_of_lt hhi
      nlinarith
  · intro t ht0 ht1 j
    rw [right_piece_curve_tU hcut t ht0 ht1 j, hWN]
    have hpos : 0 < fnOf U P.length - ub := sub_pos.mpr hhi
    apply hsame
    · have : fnOf U p ≤ ub := le_of_lt hlo
      nlinarith
    · nlinarith

/-- **`split_curve` end to end for knot vectors that need not be clamped** (multiplicity hypotheses in
    the `MultExact` form).  The split is not rejected; both pieces are well-formed curves; `A`'s knot
    vector runs from `0` to `1` with `p+1` ones at the end, its domain starts at
    `(U_p - U_0)/(ub - U_0)`; `B`'s starts with `p+1` zeros, its domain ends at
    `(U_n - ub)/(U_{n+p} - ub)` and its last knot is `1`; and each piece at the affine image of
    `t ∈ [0,1]` in its own domain is the original at the affine image of `t` in `[U_p, ub]` resp.
    `[ub, U_n]`. -/
theorem split_curve_unclamped_main (rat : Bool) (p d : ℕ) (U : List K) (P : List (List K)) (ub tol : K)
    (hwf : CurveWF p d U P) (hp : 1 ≤ p) (hlo : fnOf U p < ub) (hhi : ub < fnOf U P.length)
    (hmx : MultExact p (fnOf U) (findSpanLinear p (fnOf U) P.length ub) (findMultiplicity ub U tol) ub) :
    ∃ UA PA UB PB,
      splitDir (curveShape rat p U P) 0 ub tol = some (curveShape rat p UA PA, curveShape rat p UB PB) ∧
      CurveWF p d UA PA ∧ CurveWF p d UB PB ∧
      fnOf UA 0 = 0 ∧ fnOf UA p = (fnOf U p - fnOf U 0) / (ub - fnOf U 0) ∧
      (∀ i, PA.length ≤ i → fnOf UA i = 1) ∧
      (∀ i, i ≤ p → fnOf UB i = 0) ∧
      fnOf UB PB.length = (fnOf U P.length - ub) / (fnOf U (P.length + p) - ub) ∧
      fnOf UB (PB.length + p) = 1 ∧
      PA.length + PB.length = P.length + (p - findMultiplicity ub U tol) + 1 ∧
      (∀ t, 0 ≤ t → t ≤ 1 → ∀ j,
        (curvePoint p (fnOf UA) PA (fnOf UA p + t * (fnOf UA PA.length - fnOf UA p))).getD j 0
          = (curvePoint p (fnOf U) P (fnOf U p + t * (ub - fnOf U p))).getD j 0) ∧
      (∀ t, 0 ≤ t → t ≤ 1 → ∀ j,
        (curvePoint p (fnOf UB) PB (fnOf UB p + t * (fnOf UB PB.length - fnOf UB p))).getD j 0
          = (curvePoint p (fnOf U) P (ub + t * (fnOf U P.length - ub))).getD j 0) := by
  have hcut := splitRefined_cutU p d U P ub tol hwf hp hlo hhi hmx
  obtain ⟨_, hN, _, _⟩ := splitRefined_spec p d U P ub tol hwf hlo hhi hmx
  obtain ⟨hW0, hWp, hWN, hWL⟩ := splitRefined_ends p d U P ub tol hwf hlo hhi hmx
  obtain ⟨k1, k2, _, _⟩ := findSpanLinear_spec p (fnOf U) P.length ub hwf.pn hwf.mono (le_of_lt hlo)
  have heq := splitDir_curve_eqU rat p d U P ub tol hwf hp hlo hhi hmx
  obtain ⟨cA, cB⟩ := split_pieces_explicitU p d U P ub tol hwf hp hlo hhi hmx
  set k := findSpanLinear p (fnOf U) P.length ub with hk
  set s := findMultiplicity ub U tol with hs
  set st := splitRefined p U P ub tol with hst
  have hm := hcut.hm
  have hpm := hcut.hpm
  obtain ⟨wA, a0, ap, a1⟩ := hcut.leftNorm
  obtain ⟨wB, b0, bn, bl⟩ := hcut.rightNorm
  have hlenA : (st.2.take (k + (p - s) - p + 1)).length = k + (p - s) - p + 1 := by simp; omega
  have hlenB : (st.2.drop (k + (p - s) - p)).length = st.2.length - (k + (p - s) - p) := by simp
  refine ⟨_, _, _, _, heq, wA, wB, a0, ?_, ?_, b0, ?_, ?_, ?_, ?_, ?_⟩
  · rw [ap, hWp, hW0]
  · intro i hi; rw [hlenA] at hi; exact a1 i hi
  · rw [hlenB, bn, hWN, hWL]
  · rw [hlenB]; exact bl
  · rw [hlenA, hlenB, hN]; omega
  · rw [hlenA]; exact cA
  · rw [hlenB]; exact cB

/-- **`split_curve` end to end, unclamped knot vectors allowed**, hypotheses on the input only: a
    well-formed curve of degree `p ≥ 1`, knots `U_1 … U_{n-1}` repeated at most `p` times, an interior
    split parameter, and every knot equal to the parameter or further than `tol` away from it -/
theorem split_curve_unclamped_sep (rat : Bool) (p d : ℕ) (U : List K) (P : List (List K)) (ub tol : K)
    (hwf : CurveWF p d U P) (hp : 1 ≤ p) (hlo : fnOf U p < ub) (hhi : ub < fnOf U P.length)
    (htol : 0 ≤ tol) (hsep : ∀ x ∈ U, |ub - x| ≤ tol → x = ub)
    (hmul : ∀ i, 1 ≤ i → i < P.length → fnOf U i < fnOf U (i + p)) :
    ∃ UA PA UB PB,
      splitDir (curveShape rat p U P) 0 ub tol = some (curveShape rat p UA PA, curveShape rat p UB PB) ∧
      CurveWF p d UA PA ∧ CurveWF p d UB PB ∧
      fnOf UA 0 = 0 ∧ fnOf UA p = (fnOf U p - fnOf U 0) / (ub - fnOf U 0) ∧
      (∀ i, PA.length ≤ i → fnOf UA i = 1) ∧
      (∀ i, i ≤ p → fnOf UB i = 0) ∧
      fnOf UB PB.length = (fnOf U P.length - ub) / (fnOf U (P.length + p) - ub) ∧
      fnOf UB (PB.length + p) = 1 ∧
      PA.length + PB.length = P.length + (p - findMultiplicity ub U tol) + 1 ∧
      (∀ t, 0 ≤ t → t ≤ 1 → ∀ j,
        (curvePoint p (fnOf UA) PA (fnOf UA p + t * (fnOf UA PA.length - fnOf UA p))).getD j 0
          = (curvePoint p (fnOf U) P (fnOf U p + t * (ub - fnOf U p))).getD j 0) ∧
      (∀ t, 0 ≤ t → t ≤ 1 → ∀ j,
        (curvePoint p (fnOf UB) PB (fnOf UB p + t * (fnOf UB PB.length - fnOf UB p))).getD j 0
          = (curvePoint p (fnOf U) P (ub + t * (fnOf U P.length - ub))).getD j 0) :=
  split_curve_unclamped_main rat p d U P ub tol hwf hp hlo hhi
    (multExact_of_sep p d U P ub tol hwf hp hlo hhi htol hsep hmul)

end Geomdl
