import NurbsVerif.Lemmas.PredicatesPlanar

/-!
C20, convex hull: the order-theoretic / geometric core.

A *half-plane cone* `pos` is a set of direction vectors `(x, y)` closed under addition and positive
scaling such that every non-zero vector or its negative (not both) belongs to it.  The
lexicographic order of `sorted(points)` is `b - a ∈ lexPos`, the order of `reversed(sorted(points))`
is the one of the negated cone.  All geometric facts the monotone-chain scan needs follow from the
identity `[u,w] v = [u,v] w + [v,w] u` (`[·,·]` the 2×2 determinant) inside such a cone.
-/
namespace Geomdl
variable {K : Type} [Field K] [LinearOrder K] [IsStrictOrderedRing K]

/-- a half-plane cone of direction vectors (components given separately) -/
structure IsCone (pos : K → K → Prop) : Prop where
  add : ∀ {x y x' y'}, pos x y → pos x' y' → pos (x + x') (y + y')
  smul : ∀ {t x y}, 0 < t → pos x y → pos (t * x) (t * y)
  tri : ∀ x y, pos x y ∨ (x = 0 ∧ y = 0) ∨ pos (-x) (-y)
  irrefl : ¬ pos 0 0

/-- the cone together with the zero vector -/
def coneNN (pos : K → K → Prop) (x y : K) : Prop := pos x y ∨ (x = 0 ∧ y = 0)

namespace IsCone
variable {pos : K → K → Prop} (hc : IsCone pos)
include hc

theorem nn_smul {t x y : K} (ht : 0 ≤ t) (h : coneNN pos x y) : coneNN pos (t * x) (t * y) := by
  rcases lt_or_eq_of_le ht with ht' | ht'
  · rcases h with h | ⟨rfl, rfl⟩
    · exact Or.inl (hc.smul ht' h)
    · right; simp
  · right; subst ht'; simp

theorem pos_add_nn {x y x' y' : K} (h : pos x y) (h' : coneNN pos x' y') : pos (x + x') (y + y') := by
  rcases h' with h' | ⟨rfl, rfl⟩
  · exact hc.add h h'
  · simpa using h

theorem nn_add {x y x' y' : K} (h : coneNN pos x y) (h' : coneNN pos x' y') :
    coneNN pos (x + x') (y + y') := by
  rcases h with h | ⟨rfl, rfl⟩
  · exact Or.inl (hc.pos_add_nn h h')
  · simpa using h'

/-- `c U = α V + β W` with `U` in the cone, `V, W` in the closed cone and `α, β ≥ 0` forces `c ≥ 0` -/
theorem key_le {c α β ux uy vx vy wx wy : K} (hu : pos ux uy) (hv : coneNN pos vx vy)
    (hw : coneNN pos wx wy) (ha : 0 ≤ α) (hb : 0 ≤ β)
    (e1 : c * ux = α * vx + β * wx) (e2 : c * uy = α * vy + β * wy) : 0 ≤ c := by
  by_contra hcn
  have hlt : 0 < -c := by linarith [not_le.mp hcn]
  have h1 := hc.smul hlt hu
  have h2 := hc.nn_add (hc.nn_smul ha hv) (hc.nn_smul hb hw)
  have h3 := hc.pos_add_nn h1 h2
  have z1 : -c * ux + (α * vx + β * wx) = 0 := by rw [← e1]; ring
  have z2 : -c * uy + (α * vy + β * wy) = 0 := by rw [← e2]; ring
  rw [z1, z2] at h3
  exact hc.irrefl h3

/-- strict version: if moreover `α > 0` and `V` is in the open cone then `c > 0` -/
theorem key_lt {c α β ux uy vx vy wx wy : K} (hu : pos ux uy) (hv : pos vx vy)
    (hw : coneNN pos wx wy) (ha : 0 < α) (hb : 0 ≤ β)
    (e1 : c * ux = α * vx + β * wx) (e2 : c * uy = α * vy + β * wy) : 0 < c := by
  by_contra hcn
  have hle : 0 ≤ -c := by linarith [not_lt.mp hcn]
  have h1 := hc.nn_smul hle (Or.inl hu)
  have h2 := hc.pos_add_nn (hc.smul ha hv) (hc.nn_smul hb hw)
  have h3 := hc.pos_add_nn h2 h1
  have z1 : α * vx + β * wx + -c * ux = 0 := by rw [← e1]; ring
  have z2 : α * vy + β * wy + -c * uy = 0 := by rw [← e2]; ring
  rw [z1, z2] at h3
  exact hc.irrefl h3

/-- a non-negative combination of two cone vectors vanishes only if both coefficients vanish -/
theorem sum_zero {α β ux uy vx vy : K} (hu : pos ux uy) (hv : pos vx vy) (ha : 0 ≤ α) (hb : 0 ≤ β)
    (e1 : α * ux + β * vx = 0) (e2 : α * uy + β * vy = 0) : α = 0 ∧ β = 0 := by
  constructor
  · by_contra hne
    have ha' : 0 < α := lt_of_le_of_ne ha (Ne.symm hne)
    have h := hc.pos_add_nn (hc.smul ha' hu) (hc.nn_smul hb (Or.inl hv))
    rw [e1, e2] at h
    exact hc.irrefl h
  · by_contra hne
    have hb' : 0 < β := lt_of_le_of_ne hb (Ne.symm hne)
    have h := hc.pos_add_nn (hc.smul hb' hv) (hc.nn_smul ha (Or.inl hu))
    have z1 : β * vx + α * ux = 0 := by rw [← e1]; ring
    have z2 : β * vy + α * uy = 0 := by rw [← e2]; ring
    rw [z1, z2] at h
    exact hc.irrefl h

/-- the negated cone is a cone -/
theorem neg : IsCone (fun x y => pos (-x) (-y)) where
  add := by
    intro x y x' y' h h'
    have := hc.add h h'
    rwa [← neg_add, ← neg_add] at this
  smul := by
    intro t x y ht h
    have := hc.smul ht h
    rwa [mul_neg, mul_neg] at this
  tri := by
    intro x y
    rcases hc.tri x y with h | h | h
    · right; right; simpa using h
    · right; left; exact h
    · left; exact h
  irrefl := by simpa using hc.irrefl

end IsCone

/-! ### the order on points induced by a cone -/

/-- `a` strictly before `b` -/
def clt (pos : K → K → Prop) (a b : K × K) : Prop := pos (b.1 - a.1) (b.2 - a.2)
/-- `a` before or equal to `b` -/
def cle (pos : K → K → Prop) (a b : K × K) : Prop := a = b ∨ clt pos a b

section order
variable {pos : K → K → Prop} (hc : IsCone pos)
include hc

theorem clt_irrefl (a : K × K) : ¬ clt pos a a := by
  unfold clt; rw [sub_self, sub_self]; exact hc.irrefl

theorem clt_trans {a b c : K × K} (h1 : clt pos a b) (h2 : clt pos b c) : clt pos a c := by
  unfold clt at *
  have := hc.add h1 h2
  have e1 : b.1 - a.1 + (c.1 - b.1) = c.1 - a.1 := by ring
  have e2 : b.2 - a.2 + (c.2 - b.2) = c.2 - a.2 := by ring
  rwa [e1, e2] at this

theorem clt_asymm {a b : K × K} (h1 : clt pos a b) (h2 : clt pos b a) : False :=
  clt_irrefl hc a (clt_trans hc h1 h2)

theorem clt_ne {a b : K × K} (h : clt pos a b) : a ≠ b := by
  rintro rfl; exact clt_irrefl hc a h

theorem clt_tri (a b : K × K) : clt pos a b ∨ a = b ∨ clt pos b a := by
  rcases hc.tri (b.1 - a.1) (b.2 - a.2) with h | ⟨h1, h2⟩ | h
  · exact Or.inl h
  · right; left
    exact Prod.ext (by linarith) (by linarith)
  · right; right
    unfold clt
    rwa [neg_sub, neg_sub] at h

theorem cle_trans {a b c : K × K} (h1 : cle pos a b) (h2 : cle pos b c) : cle pos a c := by
  rcases h1 with rfl | h1
  · exact h2
  · rcases h2 with rfl | h2
    · exact Or.inr h1
    · exact Or.inr (clt_trans hc h1 h2)

theorem clt_of_cle_of_clt {a b c : K × K} (h1 : cle pos a b) (h2 : clt pos b c) : clt pos a c := by
  rcases h1 with rfl | h1
  · exact h2
  · exact clt_trans hc h1 h2

theorem clt_of_clt_of_cle {a b c : K × K} (h1 : clt pos a b) (h2 : cle pos b c) : clt pos a c := by
  rcases h2 with rfl | h2
  · exact h1
  · exact clt_trans hc h1 h2

theorem cle_antisymm {a b : K × K} (h1 : cle pos a b) (h2 : cle pos b a) : a = b := by
  rcases h1 with h1 | h1
  · exact h1
  · rcases h2 with h2 | h2
    · exact h2.symm
    · exact (clt_asymm hc h1 h2).elim

theorem cle_or_clt (a b : K × K) : cle pos a b ∨ clt pos b a := by
  rcases clt_tri hc a b with h | h | h
  · exact Or.inl (Or.inr h)
  · exact Or.inl (Or.inl h)
  · exact Or.inr h

theorem cle_nn {a b : K × K} (h : cle pos a b) : coneNN pos (b.1 - a.1) (b.2 - a.2) := by
  rcases h with rfl | h
  · right; simp
  · exact Or.inl h

/-! ### the three geometric facts used by the scan -/

/-- **chain transitivity**: `a < b < c`, `b < r`, `a b c` and `b c r` turn strictly left
    ⟹ `a b r` turns strictly left -/
theorem left_chain_step {a b c r : K × K} (hab : clt pos a b) (hbc : clt pos b c) (hbr : clt pos b r)
    (h1 : 0 < isLeft a b c) (h2 : 0 < isLeft b c r) : 0 < isLeft a b r := by
  refine hc.key_lt (c := isLeft a b r) (α := isLeft a b c) (β := isLeft b c r) hbc hbr (Or.inl hab)
    h1 (le_of_lt h2) ?_ ?_
  · unfold isLeft; ring
  · unfold isLeft; ring

/-- **pop step**: `a < b`, `a ≤ q`, `a < r`, `q` left-or-on `a b`, `r` right-or-on `a b`
    ⟹ `q` is left-or-on `a r` -/
theorem pop_step {a b q r : K × K} (hab : clt pos a b) (haq : cle pos a q) (har : clt pos a r)
    (h1 : 0 ≤ isLeft a b q) (h2 : isLeft a b r ≤ 0) : 0 ≤ isLeft a r q := by
  refine hc.key_le (c := isLeft a r q) (α := isLeft a b q) (β := - isLeft a b r) hab (Or.inl har)
    (cle_nn hc haq) h1 (by linarith) ?_ ?_
  · unfold isLeft; ring
  · unfold isLeft; ring

/-- **push step**: `a < c < r`, `q ≤ c`, `q` left-or-on `a c`, `r` strictly left of `a c`
    ⟹ `q` is left-or-on `c r` -/
theorem push_step {a c q r : K × K} (hac : clt pos a c) (hqc : cle pos q c) (hcr : clt pos c r)
    (h1 : 0 ≤ isLeft a c q) (h2 : 0 < isLeft a c r) : 0 ≤ isLeft c r q := by
  refine hc.key_le (c := isLeft c r q) (α := isLeft a c q) (β := isLeft a c r) hac (Or.inl hcr)
    (cle_nn hc hqc) h1 (le_of_lt h2) ?_ ?_
  · unfold isLeft; ring
  · unfold isLeft; ring

/-- **junction**: `x < m`, `y < m`, `x m y` collinear, `q` left-or-on `x m` and left-or-on `m y`
    ⟹ `q` lies on both lines -/
theorem junction_flat {x y m q : K × K} (hx : clt pos x m) (hy : clt pos y m)
    (h0 : isLeft x m y = 0) (h1 : 0 ≤ isLeft x m q) (h2 : 0 ≤ isLeft m y q) :
    isLeft x m q = 0 ∧ isLeft m y q = 0 := by
  have := hc.sum_zero (α := isLeft m y q) (β := isLeft x m q) hx hy h2 h1 ?_ ?_
  · exact ⟨this.2, this.1⟩
  · have : isLeft m y q * (m.1 - x.1) + isLeft x m q * (m.1 - y.1) = isLeft x m y * (m.1 - q.1) := by
      unfold isLeft; ring
    rw [this, h0, zero_mul]
  · have : isLeft m y q * (m.2 - x.2) + isLeft x m q * (m.2 - y.2) = isLeft x m y * (m.2 - q.2) := by
      unfold isLeft; ring
    rw [this, h0, zero_mul]

end order

/-! ### the lexicographic cone -/

/-- `(x, y)` is lexicographically positive -/
def lexPos (x y : K) : Prop := 0 < x ∨ (x = 0 ∧ 0 < y)

theorem lexPos_isCone : IsCone (lexPos (K := K)) where
  add := by
    intro x y x' y' h h'
    unfold lexPos at *
    rcases h with h | ⟨h, h2⟩ <;> rcases h' with h' | ⟨h', h2'⟩
    · left; linarith
    · left; linarith
    · left; linarith
    · right; exact ⟨by linarith, by linarith⟩
  smul := by
    intro t x y ht h
    unfold lexPos at *
    rcases h with h | ⟨h, h2⟩
    · left; exact mul_pos ht h
    · right; exact ⟨by rw [h, mul_zero], mul_pos ht h2⟩
  tri := by
    intro x y
    unfold lexPos
    rcases lt_trichotomy 0 x with h | h | h
    · left; left; exact h
    · rcases lt_trichotomy 0 y with h' | h' | h'
      · left; right; exact ⟨h.symm, h'⟩
      · right; left; exact ⟨h.symm, h'.symm⟩
      · right; right; right; exact ⟨by rw [← h, neg_zero], by linarith⟩
    · right; right; left; linarith
  irrefl := by
    unfold lexPos
    rintro (h | ⟨_, h⟩) <;> exact lt_irrefl _ h

/-- the model's `lexLe` (Python's `<=` on `[x, y]`) is `cle` of the lexicographic cone -/
theorem lexLe_iff (a b : K × K) : lexLe a b = true ↔ cle lexPos a b := by
  unfold lexLe cle clt lexPos
  simp only [Bool.or_eq_true, Bool.and_eq_true, decide_eq_true_eq, sub_pos]
  constructor
  · rintro (h | ⟨h1, h2⟩)
    · right; left; exact h
    · rcases lt_or_eq_of_le h2 with h3 | h3
      · right; right; exact ⟨by rw [h1, sub_self], h3⟩
      · left; exact Prod.ext h1 h3
  · rintro (rfl | h | ⟨h1, h2⟩)
    · right; exact ⟨rfl, le_refl _⟩
    · left; exact h
    · right; exact ⟨by linarith, le_of_lt h2⟩

end Geomdl
