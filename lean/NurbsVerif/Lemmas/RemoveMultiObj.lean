import NurbsVerif.Lemmas.RemoveMultiFold
import NurbsVerif.Lemmas.RemoveMultiSurf
import NurbsVerif.Lemmas.UniqueTensorObj

/-!
  C06, several directions in one call, part 4 (surfaces): `operations.insert_knot` requesting any subset of the two
  directions followed by `operations.remove_knot` with the same parameters and counts `t_d ≤ r_d`.
-/
namespace Geomdl
namespace Multi
open Blossom Finset
set_option linter.unusedSectionVars false
variable {K : Type} [Field K] [LinearOrder K] [IsStrictOrderedRing K]

/-- the facts about single direction steps, surfaces -/
theorem surfFacts (d : ℕ) (tol tol2 : K) (h2 : 0 ≤ tol2) : DirFacts (SurfWF (K := K) d) 2 removeKnotDir tol tol2 where
  wf := fun T dir u r hT hd hR => (insDirOf_surface d T hT dir hd u r tol hR.r1 hR.req).1.wf
  comm := fun T dir e u v r q hT hd he hde hRd hRe => by
    rcases (by omega : (dir = 0 ∧ e = 1) ∨ (dir = 1 ∧ e = 0)) with ⟨rfl, rfl⟩ | ⟨rfl, rfl⟩
    · exact surface_insDir_comm d T hT u v r q tol hRd.req hRe.req
    · exact (surface_insDir_comm d T hT v u q r tol hRe.req hRd.req).symm
  round := fun T dir u r t c hT hd hR ht1 htr => surface_insertDir_removeDir_t d T hT dir hd u r t tol tol2 c hR h2 ht1 htr
  zero := fun T dir u r hT hd hR => by
    have a := surface_insertDir_removeDir_t d T hT dir hd u r r tol tol2 true hR h2 hR.r1 (le_refl _)
    rw [surface_insertDir_removeDir d T hT dir hd u r tol tol2 true hR h2, Nat.sub_self] at a
    exact (Option.some.inj a).symm
  pdim := fun T hT => hT.degs

/-- **surfaces, several directions in one call each**: `insert_knot` (any subset of the two directions) followed by
    `remove_knot` with the same parameters and counts `nums' ≤ nums` returns what `insert_knot` with the counts
    `nums - nums'` returns -/
theorem surface_insertKnot_removeKnot_multi (d : ℕ) (S : Shape K) (hS : SurfWF d S) (params : List (Option K))
    (nums nums' : List ℕ) (tol tol2 : K) (c1 c2 : Bool) (h : RoundCallOk 2 S params nums tol) (h2 : 0 ≤ tol2)
    (hle : ∀ e, e < 2 → nums'.getD e 0 ≤ nums.getD e 0) :
    removeKnot (insertKnot S params nums tol c1).1 params nums' tol tol2 c2
      = insertKnot S params (subNums nums nums') tol c1 :=
  insertKnot_removeKnot (surfFacts d tol tol2 h2) params nums nums' c1 c2 S hS h.admL hle

/-- … with the same counts: the original object -/
theorem surface_insertKnot_removeKnot_multi_same (d : ℕ) (S : Shape K) (hS : SurfWF d S) (params : List (Option K))
    (nums : List ℕ) (tol tol2 : K) (c1 c2 : Bool) (h : RoundCallOk 2 S params nums tol) (h2 : 0 ≤ tol2) :
    removeKnot (insertKnot S params nums tol c1).1 params nums tol tol2 c2 = (S, true) := by
  rw [surface_insertKnot_removeKnot_multi d S hS params nums nums tol tol2 c1 c2 h h2 (fun _ _ => le_refl _)]
  exact insertKnot_zero S params _ tol c1 (fun e _ => subNums_self nums e)

/-- … and every evaluated point is that of the refined surface and of the original one -/
theorem surface_insertKnot_removeKnot_multi_points (d : ℕ) (S : Shape K) (hS : SurfWF d S) (params : List (Option K))
    (nums nums' : List ℕ) (tol tol2 : K) (c1 c2 : Bool) (h : RoundCallOk 2 S params nums tol) (h2 : 0 ≤ tol2)
    (hle : ∀ e, e < 2 → nums'.getD e 0 ≤ nums.getD e 0)
    (u v : K) (hu1 : fnOf (S.kv 0) (S.deg 0) ≤ u) (hu2 : u ≤ fnOf (S.kv 0) (S.size 0))
    (hv1 : fnOf (S.kv 1) (S.deg 1) ≤ v) (hv2 : v ≤ fnOf (S.kv 1) (S.size 1)) (j : ℕ) :
    (surfEval (removeKnot (insertKnot S params nums tol c1).1 params nums' tol tol2 c2).1 u v).getD j 0
      = (surfEval (insertKnot S params nums tol c1).1 u v).getD j 0 ∧
    (surfEval (insertKnot S params nums tol c1).1 u v).getD j 0 = (surfEval S u v).getD j 0 := by
  rw [surface_insertKnot_removeKnot_multi d S hS params nums nums' tol tol2 c1 c2 h h2 hle]
  have a := (insertKnot_surface' d S hS params nums tol c1 h.callOk).1.eval u v hu1 hu2 hv1 hv2 j
  have b := (insertKnot_surface' d S hS params _ tol c1 (h.sub nums').callOk).1.eval u v hu1 hu2 hv1 hv2 j
  exact ⟨b.trans a.symm, a⟩

end Multi
end Geomdl
