import NurbsVerif.Lemmas.SplitUnclampedMain
import NurbsVerif.Lemmas.SplitSurfSep

/-! `operations.split_surface_u` end to end through the model `splitDir … 0`, for u knot vectors that
    need NOT be clamped. -/
set_option linter.unusedSectionVars false
namespace Geomdl
open Blossom
variable {K : Type} [Field K] [LinearOrder K] [IsStrictOrderedRing K]

/-- a well-formed knot vector for `n` control points of degree `p ≥ 1`, clamped or not (no reference to
    a net): sorted, of length `n + p + 1`, `n ≥ p + 1`, last span of the domain non-empty -/
structure SplitKvWF (p n : ℕ) (U : List K) : Prop where
  mono : Monotone (fnOf U)
  len : U.length = n + p + 1
  pn : p + 1 ≤ n
  last : fnOf U (n - 1) < fnOf U n
  hp : 1 ≤ p

theorem SplitKvWF.toWF {p n d : ℕ} {U : List K} (h : SplitKvWF p n U) (Q : List (List K)) (hQ : Q.length = n)
    (hnet : NetOk d Q) : CurveWF p d U Q := by
  refine ⟨h.mono, ?_, ?_, ?_, hnet⟩
  · rw [hQ]; exact h.len
  · rw [hQ]; exact h.pn
  · rw [hQ]; exact h.last

theorem CurveWF.toSplitKvWF {p d : ℕ} {U : List K} {Q : List (List K)} (h : CurveWF p d U Q) (hp : 1 ≤ p) :
    SplitKvWF p Q.length U := ⟨h.mono, h.len, h.pn, h.last, hp⟩

theorem ClampedKv.toSplitKvWF {p n : ℕ} {U : List K} (h : ClampedKv p n U) : SplitKvWF p n U :=
  ⟨h.mono, h.len, h.pn, h.last, h.hp⟩

/-- `find_multiplicity` is exact for a well-formed (possibly unclamped) knot vector under separation -/
theorem multExact_of_sep_kvU (p n : ℕ) (U : List K) (ub tol : K)
    (hU : SplitKvWF p n U) (hlo : fnOf U p < ub) (hhi : ub < fnOf U n)
    (htol : 0 ≤ tol) (hsep : ∀ x ∈ U, |ub - x| ≤ tol → x = ub)
    (hmul : ∀ i, 1 ≤ i → i < n → fnOf U i < fnOf U (i + p)) :
    MultExact p (fnOf U) (findSpanLinear p (fnOf U) n ub) (findMultiplicity ub U tol) ub := by
  have hnet : NetOk 0 (List.replicate n ([] : List K)) := by
    intro pt hpt
    rw [List.mem_replicate] at hpt
    rw [hpt.2]; rfl
  have hwf := hU.toWF (List.replicate n ([] : List K)) (by simp) hnet
  have := multExact_of_sep p 0 U (List.replicate n ([] : List K)) ub tol hwf hU.hp hlo
    (by rw [List.length_replicate]; exact hhi) htol hsep (by rw [List.length_replicate]; exact hmul)
  rw [List.length_replicate] at this
  exact this

/-- **`split_surface_u` end to end, u knot vector clamped or not** (multiplicity hypotheses in the
    `MultExact` form).  Each piece at the affine image of `t ∈ [0,1]` in its own u domain is the original
    at the affine image of `t` in `[U_p, ub]` resp. `[ub, U_n]`; in `v` the pieces' knot vector is the
    normalised one. -/
theorem split_surface_u_unclamped_main (rat : Bool) (pu pv d : ℕ) (Uu Uv : List K) (su sv : ℕ)
    (P : List (List K)) (ub tol : K)
    (hP : NetOk d P) (hlenP : P.length = su * sv)
    (hVm : Monotone (fnOf Uv)) (hVne : Uv ≠ []) (hVr : Uv.headD 0 < Uv.getLastD 0) (hsv : pv + 1 ≤ sv)
    (hU : SplitKvWF pu su Uu) (hlo : fnOf Uu pu < ub) (hhi : ub < fnOf Uu su)
    (hmx : MultExact pu (fnOf Uu) (findSpanLinear pu (fnOf Uu) su ub) (findMultiplicity ub Uu tol) ub) :
    ∃ UA nA PA UB nB PB,
      splitDir (surfShape rat pu pv Uu Uv su sv P) 0 ub tol
        = some (surfShape rat pu pv UA (knotNormalize Uv) nA sv PA, surfShape rat pu pv UB (knotNormalize Uv) nB sv PB) ∧
      SplitKvWF pu nA UA ∧ SplitKvWF pu nB UB ∧
      fnOf UA 0 = 0 ∧ fnOf UA pu = (fnOf Uu pu - fnOf Uu 0) / (ub - fnOf Uu 0) ∧
      (∀ i, nA ≤ i → fnOf UA i = 1) ∧
      (∀ i, i ≤ pu → fnOf UB i = 0) ∧
      fnOf UB nB = (fnOf Uu su - ub) / (fnOf Uu (su + pu) - ub) ∧ fnOf UB (nB + pu) = 1 ∧
      PA.length = nA * sv ∧ PB.length = nB * sv ∧ NetOk d PA ∧ NetOk d PB ∧
      nA + nB = su + (pu - findMultiplicity ub Uu tol) + 1 ∧
      (∀ v, fnOf Uv pv ≤ v → ∀ t, 0 ≤ t → t ≤ 1 → ∀ j,
        (surfacePoint pu pv (fnOf UA) (fnOf (knotNormalize Uv)) nA sv PA
            (fnOf UA pu + t * (fnOf UA nA - fnOf UA pu))
            ((v - Uv.headD 0) / (Uv.getLastD 0 - Uv.headD 0))).getD j 0
          = (surfacePoint pu pv (fnOf Uu) (fnOf Uv) su sv P (fnOf Uu pu + t * (ub - fnOf Uu pu)) v).getD j 0) ∧
      (∀ v, fnOf Uv pv ≤ v → ∀ t, 0 ≤ t → t ≤ 1 → ∀ j,
        (surfacePoint pu pv (fnOf UB) (fnOf (knotNormalize Uv)) nB sv PB
            (fnOf UB pu + t * (fnOf UB nB - fnOf UB pu))
            ((v - Uv.headD 0) / (Uv.getLastD 0 - Uv.headD 0))).getD j 0
          = (surfacePoint pu pv (fnOf Uu) (fnOf Uv) su sv P (ub + t * (fnOf Uu su - ub)) v).getD j 0) := by
  have hsv0 : 0 < sv := by omega
  have hcolWF : ∀ y, y < sv → CurveWF pu d Uu (colOf su sv P y) := fun y hy =>
    hU.toWF (colOf su sv P y) (colOf_length su sv P y) (colOf_netOk su sv d P hP hlenP y hy)
  obtain ⟨k1, k2, _, _⟩ := findSpanLinear_spec pu (fnOf Uu) su ub hU.pn hU.mono (le_of_lt hlo)
  obtain ⟨hsz, hlenR, hnetR, hcolsR⟩ := refinedU_cols su sv pu d Uu P ub tol hsv0 hP hlenP k1 k2 hmx.le
  have hcol : ∀ y, y < sv →
      CutOkU pu d (refinedU su sv pu Uu P ub tol).1
        (colOf (su + (pu - findMultiplicity ub Uu tol)) sv (refinedU su sv pu Uu P ub tol).2.1 y) ub
        (findSpanLinear pu (fnOf Uu) su ub + (pu - findMultiplicity ub Uu tol)) := by
    intro y hy
    have := splitRefined_cutU pu d Uu (colOf su sv P y) ub tol (hcolWF y hy) hU.hp
      (by exact hlo) (by rw [colOf_length]; exact hhi) (by rw [colOf_length]; exact hmx)
    rw [colOf_length, (hcolsR y hy).1, ← (hcolsR y hy).2] at this
    exact this
  have hexp : ∀ y, y < sv → _ := fun y hy =>
    split_pieces_explicitU pu d Uu (colOf su sv P y) ub tol (hcolWF y hy) hU.hp
      (by exact hlo) (by rw [colOf_length]; exact hhi) (by rw [colOf_length]; exact hmx)
  have hends := splitRefined_ends pu d Uu (colOf su sv P 0) ub tol (hcolWF 0 hsv0)
      (by exact hlo) (by rw [colOf_length]; exact hhi) (by rw [colOf_length]; exact hmx)
  rw [(hcolsR 0 hsv0).1, ← (hcolsR 0 hsv0).2, colOf_length, colOf_length] at hends
  obtain ⟨hW0, hWp, hWN, hWL⟩ := hends
  have hnot : ¬ (ub = Uu.getD pu 0 ∨ ub = Uu.getD su 0) := by
    have hl := hU.len
    rw [fnOf_getD Uu pu (by omega), fnOf_getD Uu su (by omega)]
    intro h
    rcases h with h | h
    · rw [h] at hlo; exact lt_irrefl _ hlo
    · rw [h] at hhi; exact lt_irrefl _ hhi
  have hcut0 := hcol 0 hsv0
  have hspan : findSpanLinear pu (fnOf (refinedU su sv pu Uu P ub tol).1) (refinedU su sv pu Uu P ub tol).2.2 ub
      = findSpanLinear pu (fnOf Uu) su ub + (pu - findMultiplicity ub Uu tol) := by
    have := hcut0.span
    rw [colOf_length] at this
    rw [hsz]; exact this
  have heq := splitDir_surfShape_u rat pu pv Uu Uv su sv P ub tol hnot
  rw [hspan, hsz] at heq
  set k := findSpanLinear pu (fnOf Uu) su ub with hk
  set s := findMultiplicity ub Uu tol with hs
  set W := (refinedU su sv pu Uu P ub tol).1 with hW
  set Q := (refinedU su sv pu Uu P ub tol).2.1 with hQ
  have hm := hcut0.hm
  have hpm := hcut0.hpm
  rw [colOf_length] at hm
  have e1 : k - pu + 1 + (pu - s) = k + (pu - s) - pu + 1 := by omega
  have e2 : k + (pu - s) - pu + 1 - 1 = k + (pu - s) - pu := by omega
  rw [e1, e2] at heq
  set fA : List (List K) → List (List K) := fun c => (c.take (k + (pu - s) - pu + 1)).drop 0 with hfA
  set fB : List (List K) → List (List K) := fun c => (c.take (su + (pu - s))).drop (k + (pu - s) - pu) with hfB
  have hfAlen : ∀ y, y < sv → (fA (colOf (su + (pu - s)) sv Q y)).length = k + (pu - s) - pu + 1 := by
    intro y _; simp only [hfA, List.drop_zero, List.length_take, colOf_length]; omega
  have hfBlen : ∀ y, y < sv → (fB (colOf (su + (pu - s)) sv Q y)).length = su + (pu - s) - (k + (pu - s) - pu) := by
    intro y _; simp only [hfB, List.length_drop, List.length_take, colOf_length]; omega
  have hcolQ : ∀ y, y < sv → NetOk d (colOf (su + (pu - s)) sv Q y) := fun y hy => (hcol y hy).wf.net
  have hfAnet : ∀ y, y < sv → NetOk d (fA (colOf (su + (pu - s)) sv Q y)) := by
    intro y hy pt hpt
    exact hcolQ y hy pt (List.mem_of_mem_take (List.mem_of_mem_drop hpt))
  have hfBnet : ∀ y, y < sv → NetOk d (fB (colOf (su + (pu - s)) sv Q y)) := by
    intro y hy pt hpt
    exact hcolQ y hy pt (List.mem_of_mem_take (List.mem_of_mem_drop hpt))
  obtain ⟨hszA, hlenA, hnetA, hcolsA⟩ := mapSurfU_general (su + (pu - s)) sv _ d Q fA hsv0 hfAlen hfAnet
  obtain ⟨hszB, hlenB, hnetB, hcolsB⟩ := mapSurfU_general (su + (pu - s)) sv _ d Q fB hsv0 hfBlen hfBnet
  rw [hszA, hszB] at heq
  obtain ⟨wA, a0, ap, a1⟩ := hcut0.leftNorm
  obtain ⟨wB, b0, bn, bl⟩ := hcut0.rightNorm
  have kA := wA.toSplitKvWF hU.hp
  have kB := wB.toSplitKvWF hU.hp
  rw [List.length_take, colOf_length, show min (k + (pu - s) - pu + 1) (su + (pu - s)) = k + (pu - s) - pu + 1 by omega] at kA
  rw [List.length_drop, colOf_length] at kB
  rw [colOf_length] at bn bl
  rw [hWp, hW0] at ap
  rw [hWN, hWL] at bn
  have hAdom : fnOf (knotNormalize (leftKv W ub (k + (pu - s)))) pu
      ≤ fnOf (knotNormalize (leftKv W ub (k + (pu - s)))) (k + (pu - s) - pu + 1) := kA.mono (by omega)
  have hBdom : fnOf (knotNormalize (rightKv pu W ub (k + (pu - s)))) pu
      ≤ fnOf (knotNormalize (rightKv pu W ub (k + (pu - s)))) (su + (pu - s) - (k + (pu - s) - pu)) :=
    kB.mono (by omega)
  refine ⟨_, _, _, _, _, _, heq, kA, kB, a0, ap, a1, b0, bn, bl, hlenA, hlenB, hnetA, hnetB, by omega, ?_, ?_⟩
  · intro v hv t ht0 ht1 j
    apply surface_cols_eval pu pv d _ Uu Uv _ su sv _ P _ _ v j hVm hVne hVr hsv hv hnetA hlenA hP hlenP
    · obtain ⟨b1, b2, _, _⟩ := findSpanLinear_spec pu _ (k + (pu - s) - pu + 1)
        (fnOf (knotNormalize (leftKv W ub (k + (pu - s)))) pu
          + t * (fnOf (knotNormalize (leftKv W ub (k + (pu - s)))) (k + (pu - s) - pu + 1)
            - fnOf (knotNormalize (leftKv W ub (k + (pu - s)))) pu)) kA.pn kA.mono (by nlinarith)
      exact ⟨b1, b2⟩
    · have hpos : 0 < ub - fnOf Uu pu := sub_pos.mpr hlo
      obtain ⟨b1, b2, _, _⟩ := findSpanLinear_spec pu (fnOf Uu) su (fnOf Uu pu + t * (ub - fnOf Uu pu)) hU.pn hU.mono
        (by nlinarith)
      exact ⟨b1, b2⟩
    · intro y hy
      rw [hcolsA y hy]
      have := (hexp y hy).1 t ht0 ht1 j
      rw [colOf_length, (hcolsR y hy).1, ← (hcolsR y hy).2] at this
      simp only [hfA, List.drop_zero]
      exact this
  · intro v hv t ht0 ht1 j
    apply surface_cols_eval pu pv d _ Uu Uv _ su sv _ P _ _ v j hVm hVne hVr hsv hv hnetB hlenB hP hlenP
    · obtain ⟨b1, b2, _, _⟩ := findSpanLinear_spec pu _ (su + (pu - s) - (k + (pu - s) - pu))
        (fnOf (knotNormalize (rightKv pu W ub (k + (pu - s)))) pu
          + t * (fnOf (knotNormalize (rightKv pu W ub (k + (pu - s)))) (su + (pu - s) - (k + (pu - s) - pu))
            - fnOf (knotNormalize (rightKv pu W ub (k + (pu - s)))) pu)) kB.pn kB.mono (by nlinarith)
      exact ⟨b1, b2⟩
    · have hpos : 0 < fnOf Uu su - ub := sub_pos.mpr hhi
      have : fnOf Uu pu ≤ ub := le_of_lt hlo
      obtain ⟨b1, b2, _, _⟩ := findSpanLinear_spec pu (fnOf Uu) su (ub + t * (fnOf Uu su - ub)) hU.pn hU.mono
        (by nlinarith)
      exact ⟨b1, b2⟩
    · intro y hy
      rw [hcolsB y hy]
      have := (hexp y hy).2 t ht0 ht1 j
      rw [colOf_length, (hcolsR y hy).1, ← (hcolsR y hy).2, colOf_length] at this
      have e : fB (colOf (su + (pu - s)) sv Q y) = (colOf (su + (pu - s)) sv Q y).drop (k + (pu - s) - pu) := by
        simp only [hfB]
        rw [List.take_of_length_le (by rw [colOf_length])]
      rw [e]
      exact this

end Geomdl
