import NurbsVerif.Model.InsertA51

/-!
  A5.1 as coded (the literal transcriptions of the loops of `helpers.knot_insertion`: `Geomdl.knotInsertionA51`
  for the point branch, `Geomdl.knotInsertionRowsA51` for the list-of-rows branch) against the index-by-index
  models (`Geomdl.knotInsertion`, `Geomdl.knotInsertionRows`), part 1.

  The loops of the helper do not depend on what an element of `ctrlpts` is, except for the one statement that
  blends `temp[i]` with `temp[i + 1]`.  The development is therefore GENERIC in the element type `List β` (a
  point `List K`, or a row `List (List K)`) and in the blend `f i L a b` (the new value of slot `i` at level `L`
  from the old values `a = temp[i]`, `b = temp[i + 1]`): `gA51 f` are the loops (`gInner` / `gOuter` are
  `a51Inner` / `a51Outer` with `f` for the blend), `gStep f` is the parallel step of the index models.

  * a sequential in-place sweep `for i in range(m): a[i] = g(a, i)` whose body reads only slots `≥ i` of the
    current array is the parallel map (`foldl_set_range_dep`);
  * hence the `temp` array of the code after the initialisation loop / after the `j`-th sweep reads, slot by
    slot, like the model's `insTempInit` / `gStep` (`TempRel`: the code's array keeps its `p + 1` slots,
    the unused ones stay `[]`, the model's array is shorter and is read through the `[]`-padded reader).

  No algebra is used: the statements hold for every carrier.
-/
namespace Geomdl
namespace A51L

/-- sequential in-place sweep = parallel map, when the body at `i` depends only on the slots `≥ i` -/
theorem foldl_set_range_dep {α : Type} (g : List α → Nat → α) (t : List α)
    (hg : ∀ m (t' : List α), (∀ x, m ≤ x → t'[x]? = t[x]?) → g t' m = g t m) :
    ∀ m, m ≤ t.length →
      (List.range m).foldl (fun c i => c.set i (g c i)) t = (List.range m).map (g t) ++ t.drop m := by
  intro m
  induction m with
  | zero => intro _; simp
  | succ m ih =>
    intro hm
    rw [List.range_succ, List.foldl_append, ih (by omega)]
    simp only [List.foldl_cons, List.foldl_nil, List.map_append, List.map_cons, List.map_nil]
    have hlen : ((List.range m).map (g t)).length = m := by simp
    have hread : g ((List.range m).map (g t) ++ t.drop m) m = g t m := by
      apply hg
      intro x hx
      rw [List.getElem?_append_right (by omega), hlen, List.getElem?_drop]
      congr 1; omega
    rw [hread, List.set_append, if_neg (by omega), hlen, Nat.sub_self,
      List.drop_eq_getElem_cons (by omega : m < t.length), List.set_cons_zero, List.append_assoc]
    rfl

/-- the copy loop `for i in range(m): a[i] = f(i)` -/
theorem foldl_set_range {α : Type} (f : Nat → α) (t : List α) (m : Nat) (hm : m ≤ t.length) :
    (List.range m).foldl (fun c i => c.set i (f i)) t = (List.range m).map f ++ t.drop m :=
  foldl_set_range_dep (fun _ => f) t (fun _ _ _ => rfl) m hm

section
variable {β : Type}

/-- reading `map g (range m) ++ drop m t` through the padded reader -/
theorem ptsGet_map_drop (g : Nat → List β) (t : List (List β)) (m x : Nat) :
    ptsGet ((List.range m).map g ++ t.drop m) x = if x < m then g x else ptsGet t x := by
  unfold ptsGet
  simp only [List.getD_eq_getElem?_getD]
  by_cases hx : x < m
  · rw [if_pos hx, List.getElem?_append_left (by simpa using hx)]
    simp [hx]
  · rw [if_neg hx, List.getElem?_append_right (by simpa using Nat.le_of_not_lt hx), List.getElem?_drop]
    simp only [List.length_map, List.length_range]
    congr 2; omega

/-- the code's `temp` (always `p + 1` slots) and the model's `temp` read alike at every index -/
def TempRel (p : Nat) (lit mod : List (List β)) : Prop :=
  lit.length = p + 1 ∧ ∀ x, ptsGet lit x = ptsGet mod x

/-- after the initialisation loop: `temp[i] = ctrlpts[k - p + i]` for `i ≤ p - s`, the other slots `[]` -/
theorem tempRel_init (p : Nat) (P : List (List β)) (r s k : Nat) (hs : s ≤ p) :
    TempRel p (a51Init p P r s k).temp (insTempInit P k p s) := by
  have h : (a51Init p P r s k).temp
      = (List.range (p + 1 - s)).map (fun i => ptsGet P (k - p + i)) ++ (List.replicate (p + 1) []).drop (p + 1 - s) := by
    unfold a51Init
    exact foldl_set_range _ _ _ (by simp)
  constructor
  · rw [h]; simp
  · intro x
    rw [h, ptsGet_map_drop]
    have e : p + 1 - s = p - s + 1 := by omega
    unfold insTempInit
    rw [e]
    by_cases hx : x < p - s + 1
    · rw [if_pos hx]
      simp [ptsGet, hx]
    · rw [if_neg hx]
      have h1 : ptsGet (List.replicate (p + 1) ([] : List β)) x = [] := by
        simp only [ptsGet, List.getD_eq_getElem?_getD, List.getElem?_replicate]
        split <;> rfl
      have h2 : ptsGet ((List.range (p - s + 1)).map (fun i => ptsGet P (k - p + i))) x = [] := by
        simp only [ptsGet, List.getD_eq_getElem?_getD]
        rw [List.getElem?_eq_none (by simpa using Nat.le_of_not_lt hx)]
        rfl
      rw [h1, h2]

/-! ### the loops, generic in the blend `f i L temp[i] temp[i + 1]` -/

variable (f : Nat → Nat → List β → List β → List β)

/-- body of `for i in range(0, degree - j - s + 1)`: slot `i` receives the blend of the CURRENT slots `i`, `i + 1` -/
def gInner (L : Nat) (temp : List (List β)) (i : Nat) : List (List β) :=
  temp.set i (f i L (ptsGet temp i) (ptsGet temp (i + 1)))

/-- body of `for j in range(1, num + 1)` -/
def gOuter (p num s k : Nat) (st : A51St β) (j : Nat) : A51St β :=
  let L := k - p + j
  let temp := (List.range (p + 1 - j - s)).foldl (gInner f L) st.temp
  let cp1 := st.cp.set L (ptsGet temp 0)
  let cp2 := cp1.set (k + num - j - s) (ptsGet temp (p - j - s))
  { cp := cp2, temp := temp }

/-- the whole routine -/
def gA51 (p : Nat) (P : List (List β)) (num s k : Nat) : List (List β) :=
  let st := (List.range' 1 num).foldl (gOuter f p num s k) (a51Init p P num s k)
  let L := k - p + num
  (List.range' (L + 1) (k - s - (L + 1))).foldl (fun c i => c.set i (ptsGet st.temp (i - L))) st.cp

/-- the new value of slot `i` in the sweep at level `L` -/
def blend (L : Nat) (t : List (List β)) (i : Nat) : List β := f i L (ptsGet t i) (ptsGet t (i + 1))

/-- the parallel step of the index models (`insTempStep`, `insTempStepRows`) -/
def gStep (k p s j : Nat) (t : List (List β)) : List (List β) :=
  (List.range (p - j - s + 1)).map (blend f (k - p + j) t) ++ t.drop (p - j - s + 1)

theorem blend_congr (L : Nat) (t t' : List (List β)) (i : Nat)
    (h0 : ptsGet t' i = ptsGet t i) (h1 : ptsGet t' (i + 1) = ptsGet t (i + 1)) :
    blend f L t' i = blend f L t i := by
  unfold blend; rw [h0, h1]

/-- the in-place sweep of the code is the parallel step -/
theorem sweep_eq (L : Nat) (t : List (List β)) (m : Nat) (hm : m ≤ t.length) :
    (List.range m).foldl (gInner f L) t = (List.range m).map (blend f L t) ++ t.drop m := by
  refine foldl_set_range_dep (blend f L) t ?_ m hm
  intro i t' h
  apply blend_congr <;> simp only [ptsGet, List.getD_eq_getElem?_getD] <;> rw [h _ (by omega)]

/-- one sweep of the code keeps the relation with one parallel step of the model -/
theorem tempRel_step (k p s j : Nat) (lit mod : List (List β)) (hj : j + s ≤ p)
    (h : TempRel p lit mod) :
    TempRel p ((List.range (p + 1 - j - s)).foldl (gInner f (k - p + j)) lit) (gStep f k p s j mod) := by
  obtain ⟨hl, hr⟩ := h
  have e : p + 1 - j - s = p - j - s + 1 := by omega
  rw [sweep_eq f (k - p + j) lit _ (by omega), e]
  unfold gStep
  constructor
  · simp; omega
  · intro x
    rw [ptsGet_map_drop, ptsGet_map_drop, hr x]
    by_cases hx : x < p - j - s + 1
    · rw [if_pos hx, if_pos hx]
      exact blend_congr f _ mod lit x (hr x) (hr (x + 1))
    · rw [if_neg hx, if_neg hx]

end
end A51L
end Geomdl
