import NurbsVerif.Model.InsertA51

/-!
  A5.1 as coded (`Geomdl.knotInsertionA51`, the literal transcription of the loops of
  `helpers.knot_insertion`) against the index-by-index model `Geomdl.knotInsertion`, part 1:

  * a sequential in-place sweep `for i in range(m): a[i] = g(a, i)` whose body reads only slots `≥ i` of the
    current array is the parallel map (`foldl_set_range_dep`);
  * hence the `temp` array of the code after the initialisation loop / after the `j`-th sweep reads, slot by
    slot, like the model's `insTempInit` / `insTempStep` (`TempRel`: the code's array keeps its `p + 1` slots,
    the unused ones stay `[]`, the model's array is shorter and is read through the `[]`-padded reader).

  No algebra is used: the statements hold for every carrier with the operations the model is written over.
-/
namespace Geomdl
namespace A51L

/-- sequential in-place sweep = parallel map, when the body at `i` depends only on the slots `≥ i` -/
theorem foldl_set_range_dep {α : Type} (g : List α → Nat → α) (t : List α)
    (hg : ∀ m (t' : List α), (∀ x, m ≤ x → t'[x]? = t[x]?) → g t' m = g t m) :
    ∀ m, m ≤ t.length →
      (List.range m).foldl (fun c i => c.set i (g c i)) t = (List.range m).map (g t) ++ t.drop m := by
  intro m
  induction m with
  | zero => intro _; simp
  | succ m ih =>
    intro hm
    rw [List.range_succ, List.foldl_append, ih (by omega)]
    simp only [List.foldl_cons, List.foldl_nil, List.map_append, List.map_cons, List.map_nil]
    have hlen : ((List.range m).map (g t)).length = m := by simp
    have hread : g ((List.range m).map (g t) ++ t.drop m) m = g t m := by
      apply hg
      intro x hx
      rw [List.getElem?_append_right (by omega), hlen, List.getElem?_drop]
      congr 1; omega
    rw [hread, List.set_append, if_neg (by omega), hlen, Nat.sub_self,
      List.drop_eq_getElem_cons (by omega : m < t.length), List.set_cons_zero, List.append_assoc]
    rfl

/-- the copy loop `for i in range(m): a[i] = f(i)` -/
theorem foldl_set_range {α : Type} (f : Nat → α) (t : List α) (m : Nat) (hm : m ≤ t.length) :
    (List.range m).foldl (fun c i => c.set i (f i)) t = (List.range m).map f ++ t.drop m :=
  foldl_set_range_dep (fun _ => f) t (fun _ _ _ => rfl) m hm

section
variable {K : Type}

/-- reading `map g (range m) ++ drop m t` through the padded reader -/
theorem ptsGet_map_drop (g : Nat → List K) (t : List (List K)) (m x : Nat) :
    ptsGet ((List.range m).map g ++ t.drop m) x = if x < m then g x else ptsGet t x := by
  unfold ptsGet
  simp only [List.getD_eq_getElem?_getD]
  by_cases hx : x < m
  · rw [if_pos hx, List.getElem?_append_left (by simpa using hx)]
    simp [hx]
  · rw [if_neg hx, List.getElem?_append_right (by simpa using Nat.le_of_not_lt hx), List.getElem?_drop]
    simp only [List.length_map, List.length_range]
    congr 2; omega

/-- the code's `temp` (always `p + 1` slots) and the model's `temp` read alike at every index -/
def TempRel (p : Nat) (lit mod : List (List K)) : Prop :=
  lit.length = p + 1 ∧ ∀ x, ptsGet lit x = ptsGet mod x

/-- after the initialisation loop: `temp[i] = ctrlpts[k - p + i]` for `i ≤ p - s`, the other slots `[]` -/
theorem tempRel_init (p : Nat) (P : List (List K)) (r s k : Nat) (hs : s ≤ p) :
    TempRel p (a51Init p P r s k).temp (insTempInit P k p s) := by
  have h : (a51Init p P r s k).temp
      = (List.range (p + 1 - s)).map (fun i => ptsGet P (k - p + i)) ++ (List.replicate (p + 1) []).drop (p + 1 - s) := by
    unfold a51Init
    exact foldl_set_range _ _ _ (by simp)
  constructor
  · rw [h]; simp
  · intro x
    rw [h, ptsGet_map_drop]
    have e : p + 1 - s = p - s + 1 := by omega
    unfold insTempInit
    rw [e]
    by_cases hx : x < p - s + 1
    · rw [if_pos hx]
      simp [ptsGet, hx]
    · rw [if_neg hx]
      have h1 : ptsGet (List.replicate (p + 1) ([] : List K)) x = [] := by
        simp only [ptsGet, List.getD_eq_getElem?_getD, List.getElem?_replicate]
        split <;> rfl
      have h2 : ptsGet ((List.range (p - s + 1)).map (fun i => ptsGet P (k - p + i))) x = [] := by
        simp only [ptsGet, List.getD_eq_getElem?_getD]
        rw [List.getElem?_eq_none (by simpa using Nat.le_of_not_lt hx)]
        rfl
      rw [h1, h2]

variable [Add K] [Sub K] [Mul K] [Div K] [One K]

/-- the new value of slot `i` in the sweep at level `L` -/
def blend (U : Nat → K) (u : K) (k L : Nat) (t : List (List K)) (i : Nat) : List K :=
  List.zipWith (fun e1 e2 => insAlpha U u k i L * e2 + (1 - insAlpha U u k i L) * e1) (ptsGet t i) (ptsGet t (i + 1))

theorem a51Inner_eq (U : Nat → K) (u : K) (k L : Nat) :
    a51Inner U u k L = fun t i => t.set i (blend U u k L t i) := rfl

theorem blend_congr (U : Nat → K) (u : K) (k L : Nat) (t t' : List (List K)) (i : Nat)
    (h0 : ptsGet t' i = ptsGet t i) (h1 : ptsGet t' (i + 1) = ptsGet t (i + 1)) :
    blend U u k L t' i = blend U u k L t i := by
  unfold blend; rw [h0, h1]

/-- the in-place sweep of the code is the parallel step -/
theorem sweep_eq (U : Nat → K) (u : K) (k L : Nat) (t : List (List K)) (m : Nat) (hm : m ≤ t.length) :
    (List.range m).foldl (a51Inner U u k L) t = (List.range m).map (blend U u k L t) ++ t.drop m := by
  rw [a51Inner_eq]
  refine foldl_set_range_dep (blend U u k L) t ?_ m hm
  intro i t' h
  apply blend_congr <;> simp only [ptsGet, List.getD_eq_getElem?_getD] <;> rw [h _ (by omega)]

theorem insTempStep_eq (U : Nat → K) (u : K) (k p s j : Nat) (t : List (List K)) :
    insTempStep U u k p s j t
      = (List.range (p - j - s + 1)).map (blend U u k (k - p + j) t) ++ t.drop (p - j - s + 1) := rfl

/-- one sweep of the code keeps the relation with one `insTempStep` of the model -/
theorem tempRel_step (U : Nat → K) (u : K) (k p s j : Nat) (lit mod : List (List K)) (hj : j + s ≤ p)
    (h : TempRel p lit mod) :
    TempRel p ((List.range (p + 1 - j - s)).foldl (a51Inner U u k (k - p + j)) lit) (insTempStep U u k p s j mod) := by
  obtain ⟨hl, hr⟩ := h
  have e : p + 1 - j - s = p - j - s + 1 := by omega
  rw [sweep_eq U u k (k - p + j) lit _ (by omega), insTempStep_eq, e]
  constructor
  · simp; omega
  · intro x
    rw [ptsGet_map_drop, ptsGet_map_drop, hr x]
    by_cases hx : x < p - j - s + 1
    · rw [if_pos hx, if_pos hx]
      exact blend_congr U u k _ mod lit x (hr x) (hr (x + 1))
    · rw [if_neg hx, if_neg hx]

end
end A51L
end Geomdl
