import NurbsVerif.Lemmas.RemoveInvSweep

/-! C06 helper lemmas, part 4: one removal step of A5.8 (`remStep`) turns the working net with
    `m' + 1` copies of the knot into the working net with `m'` copies; the removability test
    succeeds with squared distance `0`. -/
namespace Geomdl
namespace RemInv
open Blossom
variable {K : Type} [Field K] [LinearOrder K] [IsStrictOrderedRing K]

theorem remStep_eq (Un : ℕ → K) (u : K) (p : ℕ) (tol2 : K) (cp temp : List (List K)) (first last t : ℕ) :
    remStep Un u p tol2 (cp, temp, first, last) t =
      (let temp0 := (temp.set 0 (ptsGet cp (first - 1))).set (last - first + 2) (ptsGet cp (last + 1))
       let sw := remSweep Un u p t cp (p + 2) { temp := temp0, i := first, j := last, ii := 1, jj := last - first + 1 }
       let remflag : Bool :=
         if sw.j < sw.i + t then decide (sqDist (ptsGet sw.temp (sw.ii - 1)) (ptsGet sw.temp (sw.jj + 1)) ≤ tol2)
         else
           decide (sqDist (ptsGet cp sw.i) (List.zipWith (fun t1 t2 => alphaI Un u p t sw.i * t1 + (1 - alphaI Un u p t sw.i) * t2)
              (ptsGet sw.temp (sw.ii + t + 1)) (ptsGet sw.temp (sw.ii - 1))) ≤ tol2)
       (if remflag then remCopy sw.temp first t (p + 2) first last cp else cp, sw.temp, first - 1, last + 1)) := rfl

section step
variable (U : ℕ → K) (u : K) (P : List (List K)) (k p s d r m' t F L W D : ℕ) (cp : List (List K))
  (hP : NetOk d P) (hpk : p ≤ k) (hk : k < P.length)
  (hA : ∀ i, i + s ≤ k → U i < u) (hB : ∀ i, k + 1 ≤ i → u < U i)
  (hr : r = m' + 1 + t) (hrs : r + s ≤ p)
  (hF : F + p = k + (m' + 1)) (hL : L + s = k + t) (hD : D + (m' + 1) + s = p) (hW : W = D + t)
  (hC : CInv U u P k p s r (m' + 1) t cp)
include hP hpk hk hA hB hr hrs hF hL hD hW hC

/-- the initial `temp` array of a removal step satisfies the sweep invariant for `e = 0` -/
theorem temp0_inv (temp : List (List K)) (hlen : temp.length = 2 * p + 1) :
    TInv U u P k p s m' t W 0
      ((temp.set 0 (ptsGet cp (F - 1))).set (W + 2) (ptsGet cp (L + 1))) := by
  obtain ⟨hcl, h2, h3⟩ := hC
  refine ⟨by simp [hlen], ?_, ?_⟩
  · intro x hx
    have hx0 : x = 0 := by omega
    subst hx0
    rw [ptsGet_set, if_neg (by omega), ptsGet_set, if_pos ⟨rfl, by omega⟩]
    rw [h2 (F - 1) (by omega), Q_left U u P k p s m' (F - 1) (by omega) (by omega)]
    have e1 : F - 1 = k - p + m' + 0 := by omega
    rw [e1, Q_mid U u P k p s hpk hk m' 0 (by omega)]
  · intro y hy1 hy2
    have hy : y = W + 2 := by omega
    subst hy
    rw [ptsGet_set, if_pos ⟨rfl, by simp; omega⟩]
    rw [h3 (L + 1) (by omega) (by omega)]
    have e1 : L + 1 - t = (k - s) + 1 := by omega
    rw [e1, Q_right U u P k p s m' (k - s) (by omega) (by omega) (by omega)]
    have e2 : k - s = k - p + m' + (D + 1) := by omega
    rw [e2, Q_mid U u P k p s hpk hk m' (D + 1) (by omega)]
    congr 1; omega

/-- the removability test of the step sees distance `0` -/
theorem remflag_true (tol2 : K) (htol : 0 ≤ tol2) (E : ℕ) (temp' : List (List K)) (g1 : D ≤ 2 * E) (g2 : 2 * E ≤ D + 1)
    (hT : TInv U u P k p s m' t W E temp') :
    (if L - E < F + E + t then decide (sqDist (ptsGet temp' (1 + E - 1)) (ptsGet temp' (W + 1 - E + 1)) ≤ tol2)
      else decide (sqDist (ptsGet cp (F + E))
        (List.zipWith (fun t1 t2 => alphaI (Uh k r u U) u p t (F + E) * t1 + (1 - alphaI (Uh k r u U) u p t (F + E)) * t2)
          (ptsGet temp' (1 + E + t + 1)) (ptsGet temp' (1 + E - 1))) ≤ tol2)) = true := by
  obtain ⟨hlen, hTl, hTr⟩ := hT
  have hl : ptsGet temp' (1 + E - 1) = T U u P k p s m' E := by
    rw [show 1 + E - 1 = E by omega]; exact hTl E (le_refl _)
  by_cases hc : L - E < F + E + t
  · rw [if_pos hc, hl, hTr (W + 1 - E + 1) (by omega) (by omega)]
    have e1 : W + 1 - E + 1 - t - 1 = E := by omega
    rw [e1, sqDist_self]
    exact decide_eq_true htol
  · rw [if_neg hc, hl, hTr (1 + E + t + 1) (by omega) (by omega)]
    have e1 : 1 + E + t + 1 - t - 1 = E + 1 := by omega
    rw [e1, alphaI_eq U u k p r m' t (F + E) E (by omega) hr (by omega) hpk]
    rw [cp_left U u P k p s d r m' t F L W D cp hP hpk hk hA hB hr hrs hF hL hD hW hC E (by omega) (by omega)]
    rw [comb_swap, sqDist_self]
    exact decide_eq_true htol

/-- the copy-back loop produces the working net with one copy less -/
theorem copy_inv (E : ℕ) (temp' : List (List K)) (g1 : D ≤ 2 * E) (g2 : 2 * E ≤ D + 1)
    (hT : TInv U u P k p s m' t W E temp') :
    CInv U u P k p s r m' (t + 1) (remCopy temp' F t (p + 2) F L cp) := by
  obtain ⟨hlen, hTl, hTr⟩ := hT
  obtain ⟨hcl, h2, h3⟩ := hC
  have hget := fun y => remCopy_get temp' F t (p + 2) F L cp y (by omega) (by omega)
  refine ⟨by rw [remCopy_length, hcl], ?_, ?_⟩
  · intro i hi
    rw [hget i]
    by_cases hw : F ≤ i ∧ i ≤ L ∧ (2 * i + t < F + L ∨ F + L + t < 2 * i)
    · rw [if_pos hw, hTl (i - F + 1) (by omega)]
      have e1 : i = k - p + m' + (i - F + 1) := by omega
      conv_rhs => rw [e1]
      rw [Q_mid U u P k p s hpk hk m' (i - F + 1) (by omega)]
    · rw [if_neg hw, h2 i (by omega), Q_left U u P k p s m' i (by omega) (by omega)]
  · intro j hj hjl
    rw [hget j]
    by_cases hw : F ≤ j ∧ j ≤ L ∧ (2 * j + t < F + L ∨ F + L + t < 2 * j)
    · rw [if_pos hw, hTr (j - F + 1) (by omega) (by omega)]
      have e1 : j - (t + 1) = k - p + m' + (j - F + 1 - t - 1) := by omega
      rw [e1, Q_mid U u P k p s hpk hk m' (j - F + 1 - t - 1) (by omega)]
    · rw [if_neg hw, h3 j (by omega) hjl]
      have e1 : j - t = (j - (t + 1)) + 1 := by omega
      rw [e1, Q_right U u P k p s m' (j - (t + 1)) (by omega) (by omega) (by omega)]

/-- **one removal step** -/
theorem remStep_inv (tol2 : K) (htol : 0 ≤ tol2) (temp : List (List K)) (hlen : temp.length = 2 * p + 1) :
    ∃ cp' temp', remStep (Uh k r u U) u p tol2 (cp, temp, F, L) t = (cp', temp', F - 1, L + 1) ∧
      temp'.length = 2 * p + 1 ∧ CInv U u P k p s r m' (t + 1) cp' := by
  have hLF : L - F = W := by omega
  have hT0 := temp0_inv U u P k p s d r m' t F L W D cp hP hpk hk hA hB hr hrs hF hL hD hW hC temp hlen
  obtain ⟨E, temp', g1, g2, hT, hsw⟩ := sweep_inv U u P k p s d r m' t F L W D cp hP hpk hk hA hB hr hrs hF hL hD hW hC
    (p + 2) 0 _ (by omega) (by omega) hT0
  have hflag := remflag_true U u P k p s d r m' t F L W D cp hP hpk hk hA hB hr hrs hF hL hD hW hC tol2 htol E temp' g1 g2 hT
  have hcopy := copy_inv U u P k p s d r m' t F L W D cp hP hpk hk hA hB hr hrs hF hL hD hW hC E temp' g1 g2 hT
  refine ⟨remCopy temp' F t (p + 2) F L cp, temp', ?_, hT.1, hcopy⟩
  rw [remStep_eq]
  simp only []
  rw [hLF]
  have hsw' : remSweep (Uh k r u U) u p t cp (p + 2)
      { temp := (temp.set 0 (ptsGet cp (F - 1))).set (W + 2) (ptsGet cp (L + 1)), i := F, j := L, ii := 1, jj := W + 1 }
      = { temp := temp', i := F + E, j := L - E, ii := 1 + E, jj := W + 1 - E } := hsw
  rw [hsw']
  simp only []
  rw [hflag]
  simp

end step
end RemInv
end Geomdl
