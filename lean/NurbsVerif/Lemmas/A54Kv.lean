import NurbsVerif.Lemmas.A54Main

/-! The knot-vector half of A5.4 alone, under weak hypotheses (no multiplicity bound, no tolerance
    separation, no hypothesis on the control points): `new_kv` is the sorted merge of `U` and `X`. -/
namespace Geomdl
open Blossom
variable {K : Type} [Field K] [LinearOrder K] [IsStrictOrderedRing K]

/-- the knot-vector part of the loop invariant `Rep` -/
structure RepKv (U : List K) (nX a : ℕ) (st : A54St K) (V : List K) (j : ℕ) : Prop where
  hk : st.k = st.i + j
  jn : j ≤ nX
  kvlen : st.kv.length = U.length + nX
  Vlen : V.length + j = U.length + nX
  kvR : ∀ t, st.k < t → t < U.length + nX → st.kv.getD t 0 = fnOf V (t - j)
  kvL : ∀ t, t ≤ a → st.kv.getD t 0 = fnOf U t
  VU : ∀ t, t ≤ st.i → fnOf V t = fnOf U t
  ai : a ≤ st.i
  iU : st.i + 2 ≤ U.length

theorem a54Shift_repKv (p : ℕ) (U : List K) (P : List (List K)) (nX a : ℕ) (V : List K) (j : ℕ)
    (hj : 1 ≤ j) (x : K) : ∀ (fuel : ℕ) (st : A54St K), RepKv U nX a st V j → x ≤ fnOf V (st.i + 1) →
    RepKv U nX a (a54Shift p (fnOf U) P x a fuel st) V j ∧
    x ≤ fnOf V ((a54Shift p (fnOf U) P x a fuel st).i + 1) ∧
    (st.i ≤ a + fuel → ¬ (x ≤ fnOf U (a54Shift p (fnOf U) P x a fuel st).i ∧ a < (a54Shift p (fnOf U) P x a fuel st).i)) := by
  intro fuel
  induction fuel with
  | zero =>
    intro st h hx
    refine ⟨h, hx, fun hi hc => ?_⟩
    have := h.ai
    simp only [a54Shift] at hc
    omega
  | succ fuel ih =>
    intro st h hx
    unfold a54Shift
    by_cases hc : x ≤ fnOf U st.i ∧ a < st.i
    · rw [if_pos hc]
      obtain ⟨hc1, hc2⟩ := hc
      have hk := h.hk; have hiU := h.iU; have hjn := h.jn; have hVl := h.Vlen
      have hrep : RepKv U nX a
          { cp := st.cp.set (st.k - p - 1) (ptsGet P (st.i - p - 1)), kv := st.kv.set st.k (fnOf U st.i),
            k := st.k - 1, i := st.i - 1 } V j := by
        refine ⟨by simp only; omega, hjn, by simp [h.kvlen], hVl, ?_, ?_, ?_, by simp only; omega, by simp only; omega⟩
        · intro t ht1 ht2
          simp only at ht1 ⊢
          by_cases e : t = st.k
          · subst e
            rw [getD_set_eq _ _ _ _ (by rw [h.kvlen]; exact ht2), hk, Nat.add_sub_cancel, h.VU _ (le_refl _)]
          · rw [getD_set_of_ne _ _ _ _ _ (fun e' => e e'.symm)]
            exact h.kvR t (by omega) ht2
        · intro t ht
          simp only
          rw [getD_set_of_ne _ _ _ _ _ (by omega)]
          exact h.kvL t ht
        · intro t ht; simp only at ht; exact h.VU t (by omega)
      have hx' : x ≤ fnOf V (st.i - 1 + 1) := by
        rw [show st.i - 1 + 1 = st.i by omega, h.VU _ (le_refl _)]; exact hc1
      obtain ⟨r1, r2, r3⟩ := ih _ hrep hx'
      exact ⟨r1, r2, fun hi => r3 (by simp only; omega)⟩
    · rw [if_neg hc]
      exact ⟨h, hx, fun _ => hc⟩

/-- one pass of the outer loop, knot vector only: the new knot goes to position `i` of the represented
    knot vector (`V_i ≤ x ≤ V_{i+1}`) -/
theorem a54Outer_repKv (p : ℕ) (U : List K) (P : List (List K)) (nX a : ℕ) (V : List K) (j : ℕ)
    (x tol : K) (fuel : ℕ) (st : A54St K) (h : RepKv U nX a st V (j+1))
    (hmV : Monotone (fnOf V)) (hx : x ≤ fnOf V (st.i + 1)) (hxa : fnOf U a ≤ x) (hfuel : st.i ≤ a + fuel) :
    ∃ V', RepKv U nX a (a54Outer p (fnOf U) P a tol fuel st x) V' j ∧ Monotone (fnOf V') ∧ V'.Perm (x :: V) ∧
      fnOf V' ((a54Outer p (fnOf U) P a tol fuel st x).i + 1) = x ∧
      ¬ (x ≤ fnOf U (a54Outer p (fnOf U) P a tol fuel st x).i ∧ a < (a54Outer p (fnOf U) P a tol fuel st x).i) := by
  obtain ⟨r1, r2, r3⟩ := a54Shift_repKv p U P nX a V (j+1) (by omega) x fuel st h hx
  have r3 := r3 hfuel
  set s1 := a54Shift p (fnOf U) P x a fuel st with hs1
  have hi1 : fnOf V s1.i ≤ x := by
    rw [r1.VU _ (le_refl _)]
    by_cases c : a < s1.i
    · exact le_of_lt (not_le.mp (fun hc => r3 ⟨hc, c⟩))
    · have : s1.i = a := by have := r1.ai; omega
      rw [this]; exact hxa
  have hk := r1.hk; have hiU := r1.iU; have hjn := r1.jn; have hVl := r1.Vlen; have hkvl := r1.kvlen
  have F1 : fnOf (knotInsertionKv V x s1.i 1) = Uh s1.i 1 x (fnOf V) :=
    fnOf_knotInsertionKv V x s1.i 1 (by omega)
  refine ⟨knotInsertionKv V x s1.i 1, ?_, ?_, ?_, ?_, r3⟩
  · show RepKv U nX a { kv := s1.kv.set s1.k x, cp := _, i := s1.i, k := s1.k - 1 } _ j
    refine ⟨by simp only; omega, by omega, by simp [hkvl], ?_, ?_, ?_, ?_, r1.ai, hiU⟩
    · simp only [knotInsertionKv, List.length_append, List.length_take, List.length_replicate, List.length_drop]
      omega
    · intro t ht1 ht2
      simp only at ht1 ⊢
      rw [F1]
      by_cases e : t = s1.k
      · subst e
        rw [getD_set_eq _ _ _ _ (by rw [hkvl]; exact ht2)]
        unfold Uh
        rw [if_neg (by omega), if_pos (by omega)]
      · rw [getD_set_of_ne _ _ _ _ _ (fun e' => e e'.symm), r1.kvR t (by omega) ht2]
        unfold Uh
        rw [if_neg (by omega), if_neg (by omega)]
        congr 1
    · intro t ht
      simp only
      rw [getD_set_of_ne _ _ _ _ _ (by have := r1.ai; omega)]
      exact r1.kvL t ht
    · intro t ht
      simp only at ht
      rw [F1]
      unfold Uh
      rw [if_pos ht]
      exact r1.VU t ht
  · rw [F1]; exact Uh_mono (fnOf V) s1.i 1 x hmV hi1 r2
  · have := knotInsertionKv_perm V x s1.i 1
    simpa using this
  · show fnOf (knotInsertionKv V x s1.i 1) (s1.i + 1) = x
    rw [F1]; unfold Uh
    rw [if_neg (by omega), if_pos (by omega)]

theorem a54Loop_repKv (p : ℕ) (U : List K) (P : List (List K)) (X : List K) (a : ℕ) (tol : K) (fuel : ℕ)
    (hmU : Monotone (fnOf U)) (hsort : X.Pairwise (· ≤ ·)) (hdom : ∀ x ∈ X, fnOf U a ≤ x)
    (hX0 : X.getD 0 0 < fnOf U (a + 1)) (hfuel : U.length ≤ fuel) :
    ∀ (j : ℕ) (st : A54St K) (V : List K), j ≤ X.length →
      RepKv U X.length a st V j → Monotone (fnOf V) → (∀ y ∈ X.take j, y ≤ fnOf V (st.i + 1)) →
      ∃ Vf, RepKv U X.length a (a54Loop p (fnOf U) P X a tol fuel j st) Vf 0 ∧ Monotone (fnOf Vf) ∧
        Vf.Perm (X.take j ++ V) ∧ (1 ≤ j → (a54Loop p (fnOf U) P X a tol fuel j st).i = a) := by
  intro j
  induction j with
  | zero =>
    intro st V _ h hm _
    exact ⟨V, by simpa [a54Loop] using h, hm, by simp, fun hc => absurd hc (by omega)⟩
  | succ j ih =>
    intro st V hj h hm hle
    have hjl : j < X.length := by omega
    set x := X.getD j 0 with hx
    have hxX : x ∈ X := by
      rw [hx, List.getD_eq_getElem?_getD, List.getElem?_eq_getElem hjl]; exact List.getElem_mem _
    have hxt : x ∈ X.take (j+1) := by
      rw [hx, List.getD_eq_getElem?_getD, List.getElem?_eq_getElem hjl]
      exact List.mem_iff_getElem.mpr ⟨j, by rw [List.length_take]; omega, by rw [List.getElem_take]; rfl⟩
    obtain ⟨V', r1, r2, r3, r4, r5⟩ := a54Outer_repKv p U P X.length a V j x tol fuel st h hm (hle x hxt)
      (hdom x hxX) (by have := h.iU; omega)
    simp only [a54Loop]
    rw [← hx]
    obtain ⟨Vf, s1, s2, s3, s4⟩ := ih (a54Outer p (fnOf U) P a tol fuel st x) V' (by omega) r1 r2
      (fun y hy => by rw [r4]; exact mem_take_le X hsort j hjl y hy)
    refine ⟨Vf, s1, s2, ?_, fun _ => ?_⟩
    · refine s3.trans ?_
      rw [List.take_succ]
      simp only [List.getElem?_eq_getElem hjl, Option.toList_some, List.append_assoc, List.singleton_append]
      have hxe : X[j] = x := by
        rw [hx, List.getD_eq_getElem?_getD, List.getElem?_eq_getElem hjl]; rfl
      rw [hxe]
      exact List.Perm.append_left _ r3
    · rcases Nat.eq_zero_or_pos j with hj0 | hj0
      · subst hj0
        simp only [a54Loop]
        have hai := r1.ai
        by_contra hne
        have hlt : a < (a54Outer p (fnOf U) P a tol fuel st x).i := by omega
        apply r5
        refine ⟨?_, hlt⟩
        have : fnOf U (a + 1) ≤ fnOf U (a54Outer p (fnOf U) P a tol fuel st x).i := hmU (by omega)
        exact le_trans (le_of_lt hX0) this
      · exact s4 hj0

end Geomdl
