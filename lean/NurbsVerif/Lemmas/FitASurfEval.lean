import NurbsVerif.Lemmas.FitASurf
import NurbsVerif.Lemmas.FitKnots2
import NurbsVerif.Lemmas.AssembleEnds

/-! `fitting.approximate_surface`, part 2: the evaluated surface returns the four corner data points at
    the four corners of the parameter square (clamped-corner theorem of C18 + the facts about
    `compute_knot_vector2`). -/
namespace Geomdl
open Blossom Finset Lin
variable {K : Type} [Field K] [LinearOrder K] [IsStrictOrderedRing K]

/-! ### the averaged parameters of data whose consecutive points are distinct -/

/-- `compute_params_surface` is strictly increasing when every chord length is positive -/
theorem averageParams_strictMono (cdsList : List (List K)) (n : ℕ) (hne : cdsList ≠ [])
    (h : ∀ c ∈ cdsList, c.length + 1 = n ∧ ∀ x ∈ c, 0 < x)
    (i j : ℕ) (hij : i < j) (hj : j < n) :
    (averageParams cdsList n).getD i 0 < (averageParams cdsList n).getD j 0 := by
  rw [averageParams_getD cdsList n i (by omega), averageParams_getD cdsList n j hj]
  have hpos : (0:K) < (cdsList.length : K) := by
    exact_mod_cast List.length_pos_iff.mpr hne
  apply div_lt_div_of_pos_right _ hpos
  apply List.sum_lt_sum_of_ne_nil hne
  intro c hc
  obtain ⟨h1, h2⟩ := h c hc
  exact computeParams_strictMono c h2 i j hij (by omega)

/-! ### the knot vector `compute_knot_vector2` is a clamped knot function with non-empty end spans -/

/-- for parameters that run strictly increasing from 0 to 1, `compute_knot_vector2` is non-decreasing,
    clamped (`p+1` zeros, `p+1` ones) and its first and last spans are not empty -/
theorem kv2_knotsOk (p nd nc : ℕ) (uk : List K) (fl : K → ℕ) (hfl : IsFloor fl)
    (hp : 1 ≤ p) (hpn : p + 1 ≤ nc) (hnd : nc ≤ nd) (hlen : uk.length = nd)
    (hfirst : uk.getD 0 0 = 0) (hlast : uk.getD (nd - 1) 0 = 1)
    (hstrict : ∀ i j, i < j → j < nd → uk.getD i 0 < uk.getD j 0) :
    KnotsOk p (fnOf (computeKnotVector2 p nd nc uk fl)) nc ∧
    ClampedOk p (fnOf (computeKnotVector2 p nd nc uk fl)) nc ∧
    fnOf (computeKnotVector2 p nd nc uk fl) p = 0 ∧ fnOf (computeKnotVector2 p nd nc uk fl) nc = 1 := by
  have hmono : ∀ i j, i ≤ j → j < nd → uk.getD i 0 ≤ uk.getD j 0 := by
    intro i j hij hj
    rcases Nat.lt_or_ge i j with h | h
    · exact le_of_lt (hstrict i j h hj)
    · have : i = j := by omega
      rw [this]
  have h0 : ∀ i, 0 ≤ uk.getD i 0 := by
    intro i
    by_cases hi : i < nd
    · have := hmono 0 i (by omega) hi; rwa [hfirst] at this
    · rw [List.getD_eq_default _ _ (by omega)]
  have h1 : ∀ i, uk.getD i 0 ≤ 1 := by
    intro i
    by_cases hi : i < nd
    · have := hmono i (nd - 1) (by omega) (by omega); rwa [hlast] at this
    · rw [List.getD_eq_default _ _ (by omega)]; exact zero_le_one
  have hm := computeKnotVector2_mono p nd nc uk fl hfl hpn (by omega) h0 h1 hmono
  obtain ⟨e1, e2⟩ := computeKnotVector2_ends p nd nc uk fl hfl hp hpn hnd hfirst hlast hstrict
  obtain ⟨hz, ho⟩ := computeKnotVector2_clamped p nd nc uk fl hpn
  refine ⟨⟨hm, hpn, by rw [ho nc le_rfl]; exact e2⟩, ⟨?_, ?_, ?_⟩, hz p le_rfl, ho nc le_rfl⟩
  · intro i _ hi; rw [hz i hi, hz p le_rfl]
  · intro i hi _; rw [ho i hi, ho nc le_rfl]
  · rw [hz p le_rfl]; exact e1

/-! ### the control net has `d` coordinates everywhere -/

theorem approximateSurface_netOk (pu pv su sv : ℕ) (pts : List (List K)) (cdsU cdsV : List (List K))
    (ncu ncv : ℕ) (fl : K → ℕ) (kvu kvv : List K) (cp : List (List K)) (d : ℕ)
    (hsu : 1 ≤ su) (hsv : 1 ≤ sv) (hncu : 2 ≤ ncu) (hlen : pts.length = su * sv) (hP : NetOk d pts)
    (h : approximateSurface pu pv su sv pts cdsU cdsV ncu ncv fl = some (kvu, kvv, cp)) : NetOk d cp := by
  obtain ⟨_, _, cols, rows, hcl, hrl, hcp, hU, hV⟩ :=
    approximateSurface_struct pu pv su sv pts cdsU cdsV ncu ncv fl kvu kvv cp h
  have hpos : 0 < pts.length := by rw [hlen]; exact Nat.mul_pos (by omega) (by omega)
  have hdim : (pts.headD []).length = d := dimOf_eq hP hpos
  rw [hdim] at hU hV
  have hdata : ∀ i j, i < su → j < sv → (pts.getD (j + sv * i) []).length = d :=
    fun i j hi hj => ptsGet_length hP _ (by rw [hlen]; exact flat_index su sv i j hi hj)
  have hcolN : ∀ j, j < sv → ∀ pt ∈ cols.getD j [], pt.length = d := by
    intro j hj
    apply lsqPass_netOk _ _ _ _ _ _ _ _ _ _ (hU j hj)
    · rw [map_range_headD _ _ _ hsu]; exact hdata 0 j (by omega) hj
    · rw [map_range_getLastD _ _ _ hsu]; exact hdata (su - 1) j (by omega) hj
  have hcolget : ∀ i j, i < ncu → j < sv → ((cols.getD j []).getD i []).length = d := by
    intro i j hi hj
    have hl : (cols.getD j []).length = ncu := (lsqPass_shape _ _ _ _ _ _ _ _ hncu (hU j hj)).1
    rw [List.getD_eq_getElem?_getD, List.getElem?_eq_getElem (by omega), Option.getD_some]
    exact hcolN j hj _ (List.getElem_mem _)
  subst hcp
  intro pt hpt
  obtain ⟨l, hl, hptl⟩ := List.mem_flatten.mp hpt
  obtain ⟨i, hi, rfl⟩ := List.getElem_of_mem hl
  have hi' : i < ncu := by omega
  have hrowN : ∀ pt ∈ rows.getD i [], pt.length = d := by
    apply lsqPass_netOk _ _ _ _ _ _ _ _ _ _ (hV i hi')
    · rw [map_range_headD _ _ _ hsv]; exact hcolget i 0 hi' (by omega)
    · rw [map_range_getLastD _ _ _ hsv]; exact hcolget i (sv - 1) hi' (by omega)
  rw [List.getD_eq_getElem?_getD, List.getElem?_eq_getElem hi, Option.getD_some] at hrowN
  exact hrowN pt hptl

/-! ### the evaluated corners -/

/-- **corner interpolation, hypotheses on the knot functions**: whenever `approximate_surface` returns
    and its two knot functions are non-decreasing with non-empty first and last spans, the evaluated
    surface at the corner `(0|1, 0|1)` is the corner data point, every coordinate. -/
theorem approximateSurface_interpolates_corners (pu pv su sv : ℕ) (pts : List (List K)) (cdsU cdsV : List (List K))
    (ncu ncv : ℕ) (fl : K → ℕ) (kvu kvv : List K) (cp : List (List K)) (d : ℕ)
    (hsu : 1 ≤ su) (hsv : 1 ≤ sv) (hncu : 2 ≤ ncu) (hncv : 2 ≤ ncv) (hpu : pu + 1 ≤ ncu) (hpv : pv + 1 ≤ ncv)
    (hlen : pts.length = su * sv) (hP : NetOk d pts)
    (h : approximateSurface pu pv su sv pts cdsU cdsV ncu ncv fl = some (kvu, kvv, cp))
    (hmu : Monotone (fnOf kvu)) (hu0 : 0 < fnOf kvu (pu + 1)) (hu1 : fnOf kvu (ncu - 1) < 1)
    (hmv : Monotone (fnOf kvv)) (hv0 : 0 < fnOf kvv (pv + 1)) (hv1 : fnOf kvv (ncv - 1) < 1)
    (eu ev : Bool) (c : ℕ) :
    (surfacePoint pu pv (fnOf kvu) (fnOf kvv) ncu ncv cp (if eu then 1 else 0) (if ev then 1 else 0)).getD c 0
      = (ptsGet pts ((if ev then sv - 1 else 0) + sv * (if eu then su - 1 else 0))).getD c 0 := by
  obtain ⟨hkvu, hkvv, _⟩ := approximateSurface_struct pu pv su sv pts cdsU cdsV ncu ncv fl kvu kvv cp h
  obtain ⟨hzu, hou⟩ := computeKnotVector2_clamped pu su ncu (averageParams cdsU su) fl hpu
  obtain ⟨hzv, hov⟩ := computeKnotVector2_clamped pv sv ncv (averageParams cdsV sv) fl hpv
  rw [← hkvu] at hzu hou
  rw [← hkvv] at hzv hov
  have hUu : KnotsOk pu (fnOf kvu) ncu := ⟨hmu, hpu, by rw [hou ncu le_rfl]; exact hu1⟩
  have hUv : KnotsOk pv (fnOf kvv) ncv := ⟨hmv, hpv, by rw [hov ncv le_rfl]; exact hv1⟩
  have hcu : ClampedOk pu (fnOf kvu) ncu :=
    ⟨fun i _ hi => by rw [hzu i hi, hzu pu le_rfl], fun i hi _ => by rw [hou i hi, hou ncu le_rfl],
      by rw [hzu pu le_rfl]; exact hu0⟩
  have hcv : ClampedOk pv (fnOf kvv) ncv :=
    ⟨fun i _ hi => by rw [hzv i hi, hzv pv le_rfl], fun i hi _ => by rw [hov i hi, hov ncv le_rfl],
      by rw [hzv pv le_rfl]; exact hv0⟩
  obtain ⟨hcpl, hcorner⟩ := approximateSurface_corner_ctrlpts pu pv su sv pts cdsU cdsV ncu ncv fl kvu kvv cp
    hsu hsv hncu hncv h eu ev
  have hN := approximateSurface_netOk pu pv su sv pts cdsU cdsV ncu ncv fl kvu kvv cp d hsu hsv hncu hlen hP h
  have := surfacePoint_corner pu pv (fnOf kvu) (fnOf kvv) ncu ncv cp d c hUu hUv hcu hcv hcpl hN eu ev
  rw [hou ncu le_rfl, hzu pu le_rfl, hov ncv le_rfl, hzv pv le_rfl, hcorner] at this
  exact this

/-- **corner interpolation for data whose consecutive points are distinct** (all chord lengths positive,
    as many chord lists as data lines): no hypothesis on the knot vectors – whenever the solver passes
    return, the evaluated surface returns the four corner data points at `(0|1, 0|1)`. -/
theorem approximateSurface_interpolates_corners_distinct (pu pv su sv : ℕ) (pts : List (List K))
    (cdsU cdsV : List (List K)) (ncu ncv : ℕ) (fl : K → ℕ) (kvu kvv : List K) (cp : List (List K)) (d : ℕ)
    (hfl : IsFloor fl) (hpu1 : 1 ≤ pu) (hpv1 : 1 ≤ pv) (hpu : pu + 1 ≤ ncu) (hpv : pv + 1 ≤ ncv)
    (hncu : ncu ≤ su) (hncv : ncv ≤ sv) (hlen : pts.length = su * sv) (hP : NetOk d pts)
    (hcU : cdsU ≠ [] ∧ ∀ c ∈ cdsU, c.length + 1 = su ∧ ∀ x ∈ c, 0 < x)
    (hcV : cdsV ≠ [] ∧ ∀ c ∈ cdsV, c.length + 1 = sv ∧ ∀ x ∈ c, 0 < x)
    (h : approximateSurface pu pv su sv pts cdsU cdsV ncu ncv fl = some (kvu, kvv, cp))
    (eu ev : Bool) (c : ℕ) :
    (surfacePoint pu pv (fnOf kvu) (fnOf kvv) ncu ncv cp (if eu then 1 else 0) (if ev then 1 else 0)).getD c 0
      = (ptsGet pts ((if ev then sv - 1 else 0) + sv * (if eu then su - 1 else 0))).getD c 0 := by
  obtain ⟨hkvu, hkvv, _⟩ := approximateSurface_struct pu pv su sv pts cdsU cdsV ncu ncv fl kvu kvv cp h
  have hsum : ∀ c : List K, (∀ x ∈ c, 0 < x) → c.length + 1 = 1 ∨ sumL c ≠ 0 := by
    intro c hc
    by_cases hne : c = []
    · left; simp [hne]
    · right; rw [sumL_eq_sum]; exact ne_of_gt (List.sum_pos _ hc hne)
  have key : ∀ (p n nc : ℕ) (cds : List (List K)), 1 ≤ p → p + 1 ≤ nc → nc ≤ n →
      (cds ≠ [] ∧ ∀ c ∈ cds, c.length + 1 = n ∧ ∀ x ∈ c, 0 < x) →
      KnotsOk p (fnOf (computeKnotVector2 p n nc (averageParams cds n) fl)) nc ∧
      ClampedOk p (fnOf (computeKnotVector2 p n nc (averageParams cds n) fl)) nc := by
    intro p n nc cds hp hpn hn hc
    have hn2 : 2 ≤ n := by omega
    have := kv2_knotsOk p n nc (averageParams cds n) fl hfl hp hpn hn (averageParams_length cds n)
      (averageParams_first cds n (by omega))
      (averageParams_last cds n (by omega) hc.1 (fun c hcm => ⟨(hc.2 c hcm).1, by
        rcases hsum c (hc.2 c hcm).2 with e | e
        · have := (hc.2 c hcm).1; omega
        · exact e⟩))
      (fun i j hij hj => averageParams_strictMono cds n hc.1 hc.2 i j hij hj)
    exact ⟨this.1, this.2.1⟩
  obtain ⟨ku, cu⟩ := key pu su ncu cdsU hpu1 hpu hncu hcU
  obtain ⟨kv, cv⟩ := key pv sv ncv cdsV hpv1 hpv hncv hcV
  rw [← hkvu] at ku cu
  rw [← hkvv] at kv cv
  obtain ⟨hzu, hou⟩ := computeKnotVector2_clamped pu su ncu (averageParams cdsU su) fl hpu
  obtain ⟨hzv, hov⟩ := computeKnotVector2_clamped pv sv ncv (averageParams cdsV sv) fl hpv
  rw [← hkvu] at hzu hou
  rw [← hkvv] at hzv hov
  refine approximateSurface_interpolates_corners pu pv su sv pts cdsU cdsV ncu ncv fl kvu kvv cp d (by omega) (by omega)
    (by omega) (by omega) hpu hpv hlen hP h ku.mono ?_ ?_ kv.mono ?_ ?_ eu ev c
  · have := cu.first; rwa [hzu pu le_rfl] at this
  · have := ku.last; rwa [hou ncu le_rfl] at this
  · have := cv.first; rwa [hzv pv le_rfl] at this
  · have := kv.last; rwa [hov ncv le_rfl] at this

end Geomdl
