import NurbsVerif.Lemmas.Degree
import NurbsVerif.Lemmas.CoxDeBoor
import NurbsVerif.Lemmas.Span
import NurbsVerif.Model.Eval

/-!
# The Bernstein polynomials are the B-spline basis functions (A2.2) on the one-span clamped knot vector

So "the same curve" in C08 (equal Bernstein forms) is the notion of C01 (equal values of the
B-spline evaluator on `[0,…,0,1,…,1]`).  No assumption on the parameter: on this knot vector every
denominator of the triangle is `(1 - u) + u = 1`.
-/
namespace Geomdl
open Blossom
section
variable {K : Type} [Field K] [LinearOrder K] [IsStrictOrderedRing K]

/-- the one-span clamped knot vector of degree `n`: `n + 1` zeros followed by ones -/
def bezierKnots (n : ℕ) : ℕ → K := fun i => if i ≤ n then 0 else 1

theorem bern_succ_zero (q : ℕ) (u : K) : bern (q + 1) 0 u = (1 - u) * bern q 0 u := by
  unfold bern
  simp only [Nat.choose_zero_right, Nat.cast_one, pow_zero, Nat.sub_zero]
  ring

theorem bern_succ_succ (q a : ℕ) (u : K) :
    bern (q + 1) (a + 1) u = u * bern q a u + (1 - u) * bern q (a + 1) u := by
  unfold bern
  rw [Nat.choose_succ_succ, Nat.cast_add, Nat.add_sub_add_right]
  by_cases h : a + 1 ≤ q
  · have e : q - a = (q - (a + 1)) + 1 := by omega
    rw [e]
    ring
  · rw [Nat.choose_eq_zero_of_lt (by omega : q < a + 1)]
    simp only [Nat.cast_zero, add_zero, zero_mul, mul_zero]
    ring

theorem basisFuns_bezier_getD (n : ℕ) (u : K) : ∀ (q a : ℕ),
    (basisFuns q (bezierKnots n) n u).getD a 0 = if a ≤ q then bern q a u else 0 := by
  have hL : ∀ j, 1 ≤ j → left (bezierKnots (K := K) n) n u j = u := by
    intro j hj
    unfold left bezierKnots
    rw [if_pos (by omega), sub_zero]
  have hR : ∀ j, 1 ≤ j → right (bezierKnots (K := K) n) n u j = 1 - u := by
    intro j hj
    unfold right bezierKnots
    rw [if_neg (by omega)]
  intro q
  induction q with
  | zero =>
    intro a
    cases a with
    | zero => simp [basisFuns, bern]
    | succ a => simp [basisFuns]
  | succ q ih =>
    intro a
    rw [basisFuns_succ]
    unfold bfStep
    rw [bfInner_getD, basisFuns_length]
    simp only [Nat.zero_add]
    cases a with
    | zero =>
      rw [if_pos rfl, if_pos (by omega), if_pos (by omega), hR 1 (le_refl _), hL (q + 1 - 0) (by omega), ih 0,
        if_pos (by omega), bern_succ_zero]
      have : (1 : K) - u + u = 1 := by ring
      rw [this, div_one, zero_add]
    | succ b =>
      rw [if_neg (by omega)]
      by_cases hb : b + 1 ≤ q + 1
      · rw [if_pos hb, if_pos hb, hL (q + 1 - (b + 1 - 1)) (by omega), hR (b + 1) (by omega), Nat.add_sub_cancel,
          ih b, if_pos (by omega)]
        have h1 : (1 : K) - u + u = 1 := by ring
        rw [h1, div_one, bern_succ_succ]
        by_cases hb2 : b + 1 < q + 1
        · rw [if_pos hb2, hR (b + 1 + 1) (by omega), hL (q + 1 - (b + 1)) (by omega), ih (b + 1), if_pos (by omega),
            h1, div_one]
        · rw [if_neg hb2]
          unfold bern
          rw [Nat.choose_eq_zero_of_lt (by omega : q < b + 1)]
          simp
      · rw [if_neg hb, if_neg (by omega), if_neg hb, add_zero]

/-- **Bernstein = A2.2 on the one-span clamped knot vector**, every degree, every parameter -/
theorem basisFuns_bezier (n : ℕ) (u : K) :
    basisFuns n (bezierKnots n) n u = (List.range (n + 1)).map (fun i => bernstein n i u) := by
  apply ext_getD (by rw [basisFuns_length, List.length_map, List.length_range])
  intro k
  rw [basisFuns_bezier_getD]
  by_cases hk : k ≤ n
  · rw [if_pos hk, getD_lt _ _ _ (by simp; omega)]
    simp [bernstein_eq_bern]
  · rw [if_neg hk, getD_ge _ _ _ (by simp; omega)]

theorem bezierKnots_mono (n : ℕ) : Monotone (bezierKnots (K := K) n) := by
  intro a b hab
  unfold bezierKnots
  by_cases ha : a ≤ n <;> by_cases hb : b ≤ n <;> simp [ha, hb]
  omega

theorem linComb_eq_foldl_axpy (d : ℕ) (N : List K) (pts : List (List K)) :
    linComb d N pts = (List.zip N pts).foldl (fun acc x => axpy x.1 acc x.2) (List.replicate d 0) := by
  unfold linComb vzero
  congr 1
  funext acc x
  unfold vadd vsmul axpy
  rw [List.zipWith_map_right]

/-- the A3.1 inner loop (`curvePointAt`, the model of `CurveEvaluator.evaluate` of C01) on the
    one-span clamped knot vector computes the Bernstein form -/
theorem curvePointAt_bezier (p : ℕ) (P : List (List K)) (d : ℕ) (hlen : P.length = p + 1) (hr : Rect d P)
    (u : K) : curvePointAt p (bezierKnots p) P p u = bernsteinEval P u := by
  have hd : dimOf P = d := by
    unfold dimOf
    cases P with
    | nil => simp at hlen
    | cons a l => exact hr a (by simp)
  unfold curvePointAt
  rw [linComb_eq_foldl_axpy, basisFuns_bezier, List.zip_map', hd]
  obtain ⟨hl, hk⟩ := foldl_axpy (fun x : K × List K => x.1) (fun x => x.2) d
    ((List.range (p + 1)).map (fun i => (bernstein p i u, ptsGet P (p - p + i)))) (List.replicate d 0)
    (by simp) (by
      intro x hx
      rw [List.mem_map] at hx
      obtain ⟨i, hi, rfl⟩ := hx
      rw [List.mem_range] at hi
      exact hr.getD_length (by omega))
  rw [bernsteinEval_getD P p d hlen hr u]
  apply ext_getD (by rw [hl, List.length_map, List.length_range])
  intro k
  rw [hk k, getD_replicate_zero, zero_add, List.map_map, list_sum_range]
  by_cases hkd : k < d
  · rw [getD_lt _ _ _ (by simpa using hkd)]
    simp only [List.getElem_map, List.getElem_range]
    apply Finset.sum_congr rfl
    intro i _
    simp only [Function.comp, ptsGet, Nat.sub_self, Nat.zero_add, bernstein_eq_bern]
  · rw [getD_ge _ _ _ (by simpa using hkd)]
    apply Finset.sum_eq_zero
    intro i hi
    have hi' := Finset.mem_range.mp hi
    simp only [Function.comp, ptsGet, Nat.sub_self, Nat.zero_add]
    rw [getD_ge _ _ _ (by rw [hr.getD_length (by omega)]; omega), mul_zero]

/-- **"Same curve" is the C01 notion**: for every parameter `u ≥ 0` the library's curve
    evaluation (span search + A2.2 + A3.1, `curvePoint`) of a Bézier polygon on its one-span
    clamped knot vector is the Bernstein form. -/
theorem curvePoint_bezier (p : ℕ) (P : List (List K)) (d : ℕ) (hlen : P.length = p + 1) (hr : Rect d P)
    (u : K) (hu : 0 ≤ u) : curvePoint p (bezierKnots p) P u = bernsteinEval P u := by
  unfold curvePoint
  have hs := findSpanLinear_spec p (bezierKnots (K := K) p) P.length u (by omega) (bezierKnots_mono p)
    (by unfold bezierKnots; rw [if_pos (le_refl _)]; exact hu)
  have : findSpanLinear p (bezierKnots (K := K) p) P.length u = p := by
    have h1 := hs.1
    have h2 := hs.2.1
    omega
  rw [this]
  exact curvePointAt_bezier p P d hlen hr u

end
end Geomdl
