import NurbsVerif.Model.Predicates
import Mathlib.Algebra.Order.Field.Basic
import Mathlib.Algebra.Order.AbsoluteValue.Basic
import Mathlib.Tactic.Ring
import Mathlib.Tactic.FieldSimp
import Mathlib.Tactic.Linarith
import Mathlib.Tactic.LinearCombination
import Mathlib.Tactic.Positivity

/-! C20, `ray.intersect`: status and parameters of `_intersect3d` / `_intersect2d` -/
namespace Geomdl
variable {K : Type} [Field K] [LinearOrder K] [IsStrictOrderedRing K]

theorem absK_eq_abs (x : K) : absK x = |x| := by
  unfold absK; split_ifs with h
  · exact (abs_of_neg h).symm
  · exact (abs_of_nonneg (not_lt.mp h)).symm

/-- `d₁ × d₂` of the two rays given by their defining points -/
def rayCross (a1 a2 b1 b2 : K × K × K) : K × K × K := cross3 (vgen3 a1 a2) (vgen3 b1 b2)

/-- the triple product `(p₂ - p₁) · (d₁ × d₂)`; zero iff the two lines are coplanar -/
def rayTriple (a1 a2 b1 b2 : K × K × K) : K := dot3 (vgen3 a1 b1) (rayCross a1 a2 b1 b2)

theorem isZero3_iff (v : K × K × K) (tol : K) :
    isZero3 v tol = true ↔ |v.1| < tol ∧ |v.2.1| < tol ∧ |v.2.2| < tol := by
  unfold isZero3
  simp only [absK_eq_abs, Bool.and_eq_true, decide_eq_true_eq, and_assoc]

theorem normSq3_nonneg (v : K × K × K) : 0 ≤ normSq3 v := by
  unfold normSq3
  have h1 := mul_self_nonneg v.1
  have h2 := mul_self_nonneg v.2.1
  have h3 := mul_self_nonneg v.2.2
  linarith

/-- a vector that fails the zero test for a positive tolerance has positive squared length -/
theorem normSq3_pos_of_not_zero (v : K × K × K) (tol : K) (ht : 0 < tol) (hz : isZero3 v tol = false) :
    0 < normSq3 v := by
  have hn : ¬ (|v.1| < tol ∧ |v.2.1| < tol ∧ |v.2.2| < tol) := by
    rw [← isZero3_iff]; simp [hz]
  have h1 := mul_self_nonneg v.1
  have h2 := mul_self_nonneg v.2.1
  have h3 := mul_self_nonneg v.2.2
  unfold normSq3
  by_contra hle
  have hz1 : v.1 * v.1 = 0 := by linarith
  have hz2 : v.2.1 * v.2.1 = 0 := by linarith
  have hz3 : v.2.2 * v.2.2 = 0 := by linarith
  apply hn
  rw [mul_self_eq_zero.mp hz1, mul_self_eq_zero.mp hz2, mul_self_eq_zero.mp hz3]
  simp [ht]

/-- the non-colinear branch of `_intersect3d`, unfolded -/
theorem intersect3d_noncol (a1 a2 b1 b2 : K × K × K) (tol m : K)
    (hz : isZero3 (rayCross a1 a2 b1 b2) tol = false) :
    intersect3d a1 a2 b1 b2 tol m =
      (let t1 := dot3 (cross3 (vgen3 a1 b1) (vgen3 b1 b2)) (rayCross a1 a2 b1 b2) / (m * m)
       let t2 := dot3 (cross3 (vgen3 a1 b1) (vgen3 a1 a2)) (rayCross a1 a2 b1 b2) / (m * m)
       if 0 < tol ∧ normSq3 (vgen3 (rayEval a1 (vgen3 a1 a2) t1) (rayEval b1 (vgen3 b1 b2) t2)) < tol * tol
       then (t1, t2, stINTERSECT) else (t1, t2, stSKEW)) := by
  unfold rayCross at hz ⊢
  unfold intersect3d
  simp only [hz, Bool.false_eq_true, if_false]

/-- the colinear branch of `_intersect3d`, unfolded -/
theorem intersect3d_col (a1 a2 b1 b2 : K × K × K) (tol m : K)
    (hz : isZero3 (rayCross a1 a2 b1 b2) tol = true) :
    intersect3d a1 a2 b1 b2 tol m =
      ((if absK (vgen3 a1 a2).1 < tol then 0 else (b1.1 + (-(1:K)) * a1.1) / (vgen3 a1 a2).1),
       (if absK (vgen3 b1 b2).1 < tol then 0 else (a1.1 + (-(1:K)) * b1.1) / (vgen3 b1 b2).1), stCOLINEAR) := by
  unfold rayCross at hz
  unfold intersect3d
  simp only [hz, if_true]

/-- status COLINEAR is returned exactly when every component of `d₁ × d₂` is below `tol` -/
theorem intersect3d_colinear_iff (a1 a2 b1 b2 : K × K × K) (tol m : K) :
    (intersect3d a1 a2 b1 b2 tol m).2.2 = stCOLINEAR ↔ isZero3 (rayCross a1 a2 b1 b2) tol = true := by
  cases h : isZero3 (rayCross a1 a2 b1 b2) tol
  · rw [intersect3d_noncol a1 a2 b1 b2 tol m h]
    simp only
    split_ifs <;> simp [stCOLINEAR, stINTERSECT, stSKEW]
  · rw [intersect3d_col a1 a2 b1 b2 tol m h]; simp

/-- the parameters in the non-colinear branch -/
theorem intersect3d_params (a1 a2 b1 b2 : K × K × K) (tol m : K)
    (hz : isZero3 (rayCross a1 a2 b1 b2) tol = false) :
    (intersect3d a1 a2 b1 b2 tol m).1
        = dot3 (cross3 (vgen3 a1 b1) (vgen3 b1 b2)) (rayCross a1 a2 b1 b2) / (m * m) ∧
    (intersect3d a1 a2 b1 b2 tol m).2.1
        = dot3 (cross3 (vgen3 a1 b1) (vgen3 a1 a2)) (rayCross a1 a2 b1 b2) / (m * m) := by
  rw [intersect3d_noncol a1 a2 b1 b2 tol m hz]
  simp only
  split_ifs <;> exact ⟨rfl, rfl⟩

/-- the status in the non-colinear branch: INTERSECT iff the squared distance of the two evaluated
    points is below `tol²` (and `tol` is positive), SKEW otherwise -/
theorem intersect3d_status (a1 a2 b1 b2 : K × K × K) (tol m : K)
    (hz : isZero3 (rayCross a1 a2 b1 b2) tol = false) :
    let r := intersect3d a1 a2 b1 b2 tol m
    r.2.2 = (if 0 < tol ∧ normSq3 (vgen3 (rayEval a1 (vgen3 a1 a2) r.1) (rayEval b1 (vgen3 b1 b2) r.2.1)) < tol * tol
             then stINTERSECT else stSKEW) := by
  intro r
  obtain ⟨h1, h2⟩ := intersect3d_params a1 a2 b1 b2 tol m hz
  simp only [r]
  rw [h1, h2, intersect3d_noncol a1 a2 b1 b2 tol m hz]
  simp only
  split_ifs <;> rfl

/-- **vector identity behind `_intersect3d`**: with the exact magnitude (`m² = |d₁×d₂|² ≠ 0`) the
    vector from the point on ray 1 to the point on ray 2 is the component of `p₂ - p₁` along the
    common normal, `((p₂-p₁)·c / |c|²) c` -/
theorem ray_gap (a1 a2 b1 b2 : K × K × K) (m : K)
    (hm : m * m = normSq3 (rayCross a1 a2 b1 b2)) (hc : normSq3 (rayCross a1 a2 b1 b2) ≠ 0) :
    let c := rayCross a1 a2 b1 b2
    let t1 := dot3 (cross3 (vgen3 a1 b1) (vgen3 b1 b2)) c / (m * m)
    let t2 := dot3 (cross3 (vgen3 a1 b1) (vgen3 a1 a2)) c / (m * m)
    let lam := rayTriple a1 a2 b1 b2 / normSq3 c
    vgen3 (rayEval a1 (vgen3 a1 a2) t1) (rayEval b1 (vgen3 b1 b2) t2) = (lam * c.1, lam * c.2.1, lam * c.2.2) := by
  intro c t1 t2 lam
  simp only [t1, t2, lam, c]
  rw [hm]
  generalize hn : normSq3 (rayCross a1 a2 b1 b2) = n2 at hc
  obtain ⟨a1x, a1y, a1z⟩ := a1
  obtain ⟨a2x, a2y, a2z⟩ := a2
  obtain ⟨b1x, b1y, b1z⟩ := b1
  obtain ⟨b2x, b2y, b2z⟩ := b2
  simp only [rayTriple, rayCross, vgen3, cross3, dot3, rayEval, normSq3] at hn ⊢
  refine Prod.ext ?_ (Prod.ext ?_ ?_)
  · dsimp only; field_simp; rw [← hn]; ring
  · dsimp only; field_simp; rw [← hn]; ring
  · dsimp only; field_simp; rw [← hn]; ring

theorem normSq3_smul (l : K) (c : K × K × K) :
    normSq3 (l * c.1, l * c.2.1, l * c.2.2) = l * l * normSq3 c := by
  unfold normSq3; ring

/-- squared distance of the two evaluated points = `((p₂-p₁)·c)² / |c|²`, the squared distance of
    the two lines -/
theorem ray_distSq (a1 a2 b1 b2 : K × K × K) (m : K)
    (hm : m * m = normSq3 (rayCross a1 a2 b1 b2)) (hc : normSq3 (rayCross a1 a2 b1 b2) ≠ 0) :
    let c := rayCross a1 a2 b1 b2
    let t1 := dot3 (cross3 (vgen3 a1 b1) (vgen3 b1 b2)) c / (m * m)
    let t2 := dot3 (cross3 (vgen3 a1 b1) (vgen3 a1 a2)) c / (m * m)
    normSq3 (vgen3 (rayEval a1 (vgen3 a1 a2) t1) (rayEval b1 (vgen3 b1 b2) t2))
      = rayTriple a1 a2 b1 b2 ^ 2 / normSq3 c := by
  intro c t1 t2
  have h := ray_gap a1 a2 b1 b2 m hm hc
  simp only at h
  simp only [t1, t2, c]
  rw [h, normSq3_smul]
  field_simp

/-- exact magnitude, positive tolerance, not colinear: the status is INTERSECT iff the distance of
    the two lines is below `tol` (stated without square roots), SKEW otherwise -/
theorem intersect3d_status_exact (a1 a2 b1 b2 : K × K × K) (tol m : K) (ht : 0 < tol)
    (hz : isZero3 (rayCross a1 a2 b1 b2) tol = false)
    (hm : m * m = normSq3 (rayCross a1 a2 b1 b2)) :
    (intersect3d a1 a2 b1 b2 tol m).2.2
      = if rayTriple a1 a2 b1 b2 ^ 2 < tol * tol * normSq3 (rayCross a1 a2 b1 b2) then stINTERSECT else stSKEW := by
  have hpos := normSq3_pos_of_not_zero _ tol ht hz
  have h := intersect3d_status a1 a2 b1 b2 tol m hz
  obtain ⟨h1, h2⟩ := intersect3d_params a1 a2 b1 b2 tol m hz
  simp only at h
  rw [h, h1, h2]
  have hd := ray_distSq a1 a2 b1 b2 m hm (ne_of_gt hpos)
  simp only at hd
  rw [hd]
  simp only [ht, true_and, div_lt_iff₀ hpos]

theorem vgen3_eq_zero {p r : K × K × K} (h : vgen3 p r = (0, 0, 0)) : p = r := by
  obtain ⟨px, py, pz⟩ := p
  obtain ⟨rx, ry, rz⟩ := r
  simp only [vgen3, Prod.mk.injEq] at h
  obtain ⟨h1, h2, h3⟩ := h
  simp only [Prod.mk.injEq]
  exact ⟨by linarith, by linarith, by linarith⟩

/-- coplanar, not colinear, exact magnitude: the two returned parameters give the same point on
    both rays and the status is INTERSECT -/
theorem intersect3d_coplanar (a1 a2 b1 b2 : K × K × K) (tol m : K) (ht : 0 < tol)
    (hz : isZero3 (rayCross a1 a2 b1 b2) tol = false)
    (hm : m * m = normSq3 (rayCross a1 a2 b1 b2)) (hcop : rayTriple a1 a2 b1 b2 = 0) :
    let r := intersect3d a1 a2 b1 b2 tol m
    rayEval a1 (vgen3 a1 a2) r.1 = rayEval b1 (vgen3 b1 b2) r.2.1 ∧ r.2.2 = stINTERSECT := by
  intro r
  have hpos := normSq3_pos_of_not_zero _ tol ht hz
  obtain ⟨h1, h2⟩ := intersect3d_params a1 a2 b1 b2 tol m hz
  constructor
  · simp only [r]
    rw [h1, h2]
    apply vgen3_eq_zero
    have h := ray_gap a1 a2 b1 b2 m hm (ne_of_gt hpos)
    simp only at h
    rw [h, hcop]
    simp
  · simp only [r]
    rw [intersect3d_status_exact a1 a2 b1 b2 tol m ht hz hm, hcop, if_pos]
    have : 0 < tol * tol * normSq3 (rayCross a1 a2 b1 b2) := mul_pos (mul_pos ht ht) hpos
    simpa using this

/-- algebraic core: if `q = s d₁ - s' d₂` then `(q × d₂)·c = s |c|²` and `(q × d₁)·c = s' |c|²` -/
theorem ray_core (qx qy qz d1x d1y d1z d2x d2y d2z s s' : K)
    (hx : qx = s * d1x - s' * d2x) (hy : qy = s * d1y - s' * d2y) (hz : qz = s * d1z - s' * d2z) :
    let cx := d1y * d2z - d1z * d2y; let cy := d1z * d2x - d1x * d2z; let cz := d1x * d2y - d1y * d2x
    (qy * d2z - qz * d2y) * cx + (qz * d2x - qx * d2z) * cy + (qx * d2y - qy * d2x) * cz
        = s * (cx * cx + cy * cy + cz * cz) ∧
    (qy * d1z - qz * d1y) * cx + (qz * d1x - qx * d1z) * cy + (qx * d1y - qy * d1x) * cz
        = s' * (cx * cx + cy * cy + cz * cz) ∧
    qx * cx + qy * cy + qz * cz = 0 := by
  subst hx hy hz
  refine ⟨by ring, by ring, by ring⟩

/-- if the two lines really meet, `a₁ + s d₁ = b₁ + s' d₂`, and are not colinear, then (exact
    magnitude) the routine returns exactly `(s, s', INTERSECT)` -/
theorem intersect3d_meet (a1 a2 b1 b2 : K × K × K) (tol m : K) (ht : 0 < tol)
    (hz : isZero3 (rayCross a1 a2 b1 b2) tol = false)
    (hm : m * m = normSq3 (rayCross a1 a2 b1 b2)) (s s' : K)
    (hmeet : rayEval a1 (vgen3 a1 a2) s = rayEval b1 (vgen3 b1 b2) s') :
    intersect3d a1 a2 b1 b2 tol m = (s, s', stINTERSECT) := by
  have hpos := normSq3_pos_of_not_zero _ tol ht hz
  obtain ⟨h1, h2⟩ := intersect3d_params a1 a2 b1 b2 tol m hz
  have hcore : dot3 (cross3 (vgen3 a1 b1) (vgen3 b1 b2)) (rayCross a1 a2 b1 b2) = s * normSq3 (rayCross a1 a2 b1 b2)
      ∧ dot3 (cross3 (vgen3 a1 b1) (vgen3 a1 a2)) (rayCross a1 a2 b1 b2) = s' * normSq3 (rayCross a1 a2 b1 b2)
      ∧ rayTriple a1 a2 b1 b2 = 0 := by
    obtain ⟨a1x, a1y, a1z⟩ := a1
    obtain ⟨a2x, a2y, a2z⟩ := a2
    obtain ⟨b1x, b1y, b1z⟩ := b1
    obtain ⟨b2x, b2y, b2z⟩ := b2
    simp only [rayEval, vgen3, Prod.mk.injEq] at hmeet
    obtain ⟨hx, hy, hzz⟩ := hmeet
    have hc := ray_core (b1x - a1x) (b1y - a1y) (b1z - a1z) (a2x - a1x) (a2y - a1y) (a2z - a1z)
      (b2x - b1x) (b2y - b1y) (b2z - b1z) s s' (by linarith) (by linarith) (by linarith)
    simp only at hc
    obtain ⟨c1, c2, c3⟩ := hc
    simp only [rayTriple, rayCross, vgen3, cross3, dot3, normSq3]
    refine ⟨by linear_combination c1, by linear_combination c2, by linear_combination c3⟩
  obtain ⟨e1, e2, e3⟩ := hcore
  have hst := (intersect3d_coplanar a1 a2 b1 b2 tol m ht hz hm e3).2
  have ht1 : (intersect3d a1 a2 b1 b2 tol m).1 = s := by
    rw [h1, hm, e1]; field_simp
  have ht2 : (intersect3d a1 a2 b1 b2 tol m).2.1 = s' := by
    rw [h2, hm, e2]; field_simp
  exact Prod.ext ht1 (Prod.ext ht2 hst)

/-- exactly parallel directions (`d₁ × d₂ = 0`) and a positive tolerance give status COLINEAR -/
theorem intersect3d_parallel (a1 a2 b1 b2 : K × K × K) (tol m : K) (ht : 0 < tol)
    (hpar : rayCross a1 a2 b1 b2 = (0, 0, 0)) :
    (intersect3d a1 a2 b1 b2 tol m).2.2 = stCOLINEAR := by
  rw [intersect3d_colinear_iff, isZero3_iff, hpar]
  simp [ht]

/-! ### two dimensions: rays lifted with homogeneous coordinate 1 are always coplanar -/

theorem rayTriple_2d (a1 a2 b1 b2 : K × K) :
    rayTriple (a1.1, a1.2, 1) (a2.1, a2.2, 1) (b1.1, b1.2, 1) (b2.1, b2.2, 1) = 0 := by
  simp only [rayTriple, rayCross, vgen3, cross3, dot3]; ring_nf

/-- 2-D, exact magnitude, not colinear: never SKEW; the returned parameters give the same planar
    point on both rays -/
theorem intersect2d_point (a1 a2 b1 b2 : K × K) (tol m : K) (ht : 0 < tol)
    (hz : isZero3 (rayCross (a1.1, a1.2, 1) (a2.1, a2.2, 1) (b1.1, b1.2, 1) (b2.1, b2.2, 1)) tol = false)
    (hm : m * m = normSq3 (rayCross (a1.1, a1.2, 1) (a2.1, a2.2, 1) (b1.1, b1.2, 1) (b2.1, b2.2, 1))) :
    let r := intersect2d a1 a2 b1 b2 tol m
    a1.1 + (a2.1 - a1.1) * r.1 = b1.1 + (b2.1 - b1.1) * r.2.1 ∧
    a1.2 + (a2.2 - a1.2) * r.1 = b1.2 + (b2.2 - b1.2) * r.2.1 ∧ r.2.2 = stINTERSECT := by
  intro r
  have h := intersect3d_coplanar _ _ _ _ tol m ht hz hm (rayTriple_2d a1 a2 b1 b2)
  simp only at h
  obtain ⟨hp, hs⟩ := h
  simp only [rayEval, vgen3, Prod.mk.injEq] at hp
  exact ⟨hp.1, hp.2.1, hs⟩

/-- in 2-D the cross product of the lifted directions is `(0, 0, d₁ₓ d₂ᵧ - d₁ᵧ d₂ₓ)` -/
theorem rayCross_2d (a1 a2 b1 b2 : K × K) :
    rayCross (a1.1, a1.2, 1) (a2.1, a2.2, 1) (b1.1, b1.2, 1) (b2.1, b2.2, 1)
      = (0, 0, (a2.1 - a1.1) * (b2.2 - b1.2) - (a2.2 - a1.2) * (b2.1 - b1.1)) := by
  simp only [rayCross, vgen3, cross3, Prod.mk.injEq]
  refine ⟨by ring, by ring, trivial⟩

end Geomdl
