import NurbsVerif.Lemmas.LinalgSDD
import NurbsVerif.Lemmas.LUMinors

/-! Column diagonal dominance: the Doolittle pivots of `A` vanish nowhere iff those of `Aᵀ` do (same leading principal
    minors), so strict COLUMN dominance keeps Doolittle away from zero pivots as strict ROW dominance does. -/
namespace Lin
open Finset
variable {K : Type} [Field K] [LinearOrder K] [IsStrictOrderedRing K]

/-- strictly column diagonally dominant on the leading n×n block -/
def SDDcol (A : ℕ → ℕ → K) (n : ℕ) : Prop :=
  ∀ j, j < n → ∑ i ∈ (Finset.range n).filter (· ≠ j), |A i j| < |A j j|

omit [IsStrictOrderedRing K] in
theorem sddCol_iff_transpose (A : ℕ → ℕ → K) (n : ℕ) : SDDcol A n ↔ SDD (fun i j => A j i) n := Iff.rfl

/-- strict column dominance: Doolittle meets no zero pivot -/
theorem sddCol_pivots_ne_zero (A : ℕ → ℕ → K) (n : ℕ) (h : SDDcol A n) :
    ∀ j, j < n → (doolittle A n).U j j ≠ 0 :=
  pivots_ne_zero_transpose A n (sdd_pivots_ne_zero (fun i j => A j i) n h)

/-- Levy–Desplanques for the leading blocks: every leading principal minor of a strictly (row) diagonally dominant
    matrix is non-zero -/
theorem sdd_minors_ne_zero (A : ℕ → ℕ → K) (n : ℕ) (h : SDD A n) (k : ℕ) (hk : k ≤ n) : (leadBlock A k).det ≠ 0 :=
  minors_ne_zero_of_pivots A n (sdd_pivots_ne_zero A n h) k hk

end Lin
