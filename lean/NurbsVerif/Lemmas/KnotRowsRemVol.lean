import NurbsVerif.Lemmas.KnotRowsRemW
import NurbsVerif.Lemmas.RemoveInvMain

/-! List-of-rows branches, part 9: inserted knots pass the removability test at every step (so the rows
    branch and the per-iso-curve model agree on them); volumes: the rows formulation of
    `operations.remove_knot` against the `mapVol` formulation. -/
namespace Geomdl
namespace Rows
open RemInv Blossom
variable {K : Type} [Field K] [LinearOrder K] [IsStrictOrderedRing K]

/-! ### inserted knots are removable at every step -/

section inserted
variable (U : ℕ → K) (u : K) (P : List (List K)) (k p s d r : ℕ)
  (hP : NetOk d P) (hpk : p ≤ k) (hk : k < P.length)
  (hA : ∀ i, i + s ≤ k → U i < u) (hB : ∀ i, k + 1 ≤ i → u < U i) (hrs : r + s ≤ p)
include hP hpk hk hA hB hrs

theorem remFlag_inserted_fn (tol2 : K) (htol : 0 ≤ tol2) (t : ℕ) (ht : t < r) :
    remFlag (Uh k r u U) u p tol2
      (remState p (Uh k r u U) (knotInsertion p U P u r s k) u (s + r) (k + r) tol2 t) t = true := by
  obtain ⟨cp, temp, hfold, hlen, hC⟩ := remFold_inv U u P k p s d r hP hpk hk hA hB hrs tol2 htol t (by omega)
  have hst : remState p (Uh k r u U) (knotInsertion p U P u r s k) u (s + r) (k + r) tol2 t
      = (cp, temp, k + r - p - t, k + r - (s + r) + t) := hfold
  rw [hst]
  have hC' : CInv U u P k p s r (r - t - 1 + 1) t cp := by
    rw [show r - t - 1 + 1 = r - t by omega]; exact hC
  have hT0 := temp0_inv U u P k p s d r (r - t - 1) t (k + r - p - t) (k + r - (s + r) + t)
    (p - s - (r - t) + t) (p - s - (r - t)) cp hP hpk hk hA hB (by omega) hrs (by omega) (by omega) (by omega) (by omega) hC'
    temp hlen
  obtain ⟨E, temp', g1, g2, hT, hsw⟩ := sweep_inv U u P k p s d r (r - t - 1) t (k + r - p - t) (k + r - (s + r) + t)
    (p - s - (r - t) + t) (p - s - (r - t)) cp hP hpk hk hA hB (by omega) hrs (by omega) (by omega) (by omega) (by omega) hC'
    (p + 2) 0 _ (by omega) (by omega) hT0
  have hflag := remflag_true U u P k p s d r (r - t - 1) t (k + r - p - t) (k + r - (s + r) + t)
    (p - s - (r - t) + t) (p - s - (r - t)) cp hP hpk hk hA hB (by omega) hrs (by omega) (by omega) (by omega) (by omega) hC'
    tol2 htol E temp' g1 g2 hT
  have hLF : k + r - (s + r) + t - (k + r - p - t) = p - s - (r - t) + t := by omega
  unfold remFlag cSweep cTemp0
  simp only []
  rw [hLF]
  have hsw' : remSweep (Uh k r u U) u p t cp (p + 2)
      { temp := (temp.set 0 (ptsGet cp (k + r - p - t - 1))).set (p - s - (r - t) + t + 2) (ptsGet cp (k + r - (s + r) + t + 1)),
        i := k + r - p - t, j := k + r - (s + r) + t, ii := 1, jj := p - s - (r - t) + t + 1 }
      = { temp := temp', i := k + r - p - t + E, j := k + r - (s + r) + t - E, ii := 1 + E,
          jj := p - s - (r - t) + t + 1 - E } := hsw
  rw [hsw']
  unfold cFlag
  simp only []
  exact hflag

theorem allRemovable_inserted_fn (tol2 : K) (htol : 0 ≤ tol2) (t : ℕ) (ht : t ≤ r) :
    AllRemovable p (Uh k r u U) (knotInsertion p U P u r s k) u t (s + r) (k + r) tol2 :=
  fun t' ht' => remFlag_inserted_fn U u P k p s d r hP hpk hk hA hB hrs tol2 htol t' (by omega)

end inserted

/-- **list form**: after `r` insertions of `ub`, each of the first `t ≤ r` removal steps of A5.8 (called as
    the library calls it: multiplicity `s + r`, span `k + r`, refined knot vector) finds the knot removable -/
theorem allRemovable_inserted (p : ℕ) (Ul : List K) (P : List (List K)) (ub : K) (r t s k d : ℕ) (tol2 : K)
    (hP : NetOk d P) (hm : Monotone (fnOf Ul)) (hlen : k + 1 < Ul.length)
    (hk2 : ub < fnOf Ul (k + 1)) (hs : fnOf Ul (k - s) < ub)
    (htr : t ≤ r) (hrs : r + s ≤ p) (hpk : p ≤ k) (hkP : k < P.length) (htol : 0 ≤ tol2) :
    AllRemovable p (fnOf (knotInsertionKv Ul ub k r)) (knotInsertion p (fnOf Ul) P ub r s k) ub t (s + r) (k + r) tol2 := by
  rw [fnOf_knotInsertionKv Ul ub k r hlen]
  apply allRemovable_inserted_fn (fnOf Ul) ub P k p s d r hP hpk hkP _ _ hrs tol2 htol t htr
  · intro i hi
    exact lt_of_le_of_lt (hm (by omega)) hs
  · intro i hi
    exact lt_of_lt_of_le hk2 (hm hi)

/-! ### volumes -/

theorem volRows_headD_length (dir su sv sw : ℕ) (hdir : dir < 3) (hsu : 0 < su) (hsv : 0 < sv) (hsw : 0 < sw)
    (P : List (List K)) :
    ((volRows dir su sv sw P).headD []).length = [sv * sw, su * sw, su * sv].getD dir 0 := by
  obtain rfl | rfl | rfl : dir = 0 ∨ dir = 1 ∨ dir = 2 := by omega
  · exact headD_mem_length' (volRows0_rect _ _ _ _) (by rw [volRows0_length]; exact hsu)
  · exact headD_mem_length' (volRows1_rect _ _ _ _) (by rw [volRows1_length]; exact hsv)
  · exact headD_mem_length' (volRows2_rect 2 _ _ _ (le_refl _) _) (by rw [volRows2_length 2 _ _ _ (le_refl _)]; exact hsw)

/-- **the rows formulation of one direction of `operations.remove_knot` = the `mapVol` formulation**, when
    every iso-curve of that direction passes the removability test at every step -/
theorem mapVolRows_remove (dir su sv sw p : ℕ) (U : ℕ → K) (P : List (List K)) (u : K) (num s r : ℕ) (tol2 : K)
    (hsu : 0 < su) (hsv : 0 < sv) (hsw : 0 < sw) (hdir : dir < 3)
    (hsp : s ≤ p) (hns : num ≤ s) (hps : p + num ≤ r) (hr : r < [su, sv, sw].getD dir 0)
    (hall : ∀ c, c < ((volRows dir su sv sw P).headD []).length →
      AllRemovable p U (isoCol c (volRows dir su sv sw P)) u num s r tol2) :
    mapVolRows dir su sv sw P (fun R => knotRemovalRows p U R u num s r tol2)
      = mapVol dir su sv sw P (fun c => knotRemoval p U c u num s r tol2) := by
  have hw := volRows_headD_length dir su sv sw hdir hsu hsv hsw P
  obtain rfl | rfl | rfl : dir = 0 ∨ dir = 1 ∨ dir = 2 := by omega
  · have hlen : r < (volRows 0 su sv sw P).length := by rw [volRows0_length]; simpa using hr
    have hcol := isoCol_knotRemovalRows p U (volRows 0 su sv sw P) u num s r tol2
      (by rw [hw]; exact Nat.mul_pos hsv hsw) hsp hns hps hlen hall
    apply mapVolRows0_eq _ _ _ _ _ _ hsv hsw
    intro v w hv hw'
    have hlt : v + sv * w < sv * sw := by
      have h := flatIdx2_lt (su := sw) (sv := sv) hw' hv
      unfold flatIdx2 at h
      rw [Nat.mul_comm sw] at h
      exact h
    rw [hcol _ (by rw [hw]; exact hlt), isoCol_volRows0 _ _ _ _ _ _ hv hw']
  · have hlen : r < (volRows 1 su sv sw P).length := by rw [volRows1_length]; simpa using hr
    have hcol := isoCol_knotRemovalRows p U (volRows 1 su sv sw P) u num s r tol2
      (by rw [hw]; exact Nat.mul_pos hsu hsw) hsp hns hps hlen hall
    apply mapVolRows1_eq _ _ _ _ _ _ hsu hsw
    intro a w ha hw'
    have hlt : a + su * w < su * sw := by
      have h := flatIdx2_lt (su := sw) (sv := su) hw' ha
      unfold flatIdx2 at h
      rw [Nat.mul_comm sw] at h
      exact h
    rw [hcol _ (by rw [hw]; exact hlt), isoCol_volRows1 _ _ _ _ _ _ ha hw']
  · have hlen : r < (volRows 2 su sv sw P).length := by rw [volRows2_length 2 _ _ _ (le_refl _)]; simpa using hr
    have hcol := isoCol_knotRemovalRows p U (volRows 2 su sv sw P) u num s r tol2
      (by rw [hw]; exact Nat.mul_pos hsu hsv) hsp hns hps hlen hall
    apply mapVolRows2_eq 2 _ _ _ (le_refl _) _ _ _ hsu hsv
    · have := knotRemovalRows_rect p U (volRows 2 su sv sw P) u num s r tol2
        (by rw [hw]; exact volRows2_rect 2 _ _ _ (le_refl _) _) hsp hns hps hlen
      rw [hw] at this
      exact this
    · intro a v ha hv
      have hlt : v + sv * a < su * sv := flatIdx2_lt ha hv
      rw [hcol _ (by rw [hw]; exact hlt), isoCol_volRows2 _ _ _ _ (le_refl _) _ _ _ ha hv]

/-- **one direction of `operations.remove_knot` on a volume, computed through the list of rows as the code
    does (one removability flag from the first iso-curve), is what the model `removeKnotDir` (per
    iso-curve) returns – when every iso-curve of that direction passes the removability test at every
    step** (with the multiplicity and span the library finds) -/
theorem removeKnotVolRows_eq (S : Shape K) (dir : ℕ) (u : K) (num : ℕ) (tol tol2 : K) (check : Bool)
    (h3 : S.pdim = 3) (hdir : dir < 3) (hsu : 0 < S.size 0) (hsv : 0 < S.size 1) (hsw : 0 < S.size 2)
    (hpn : S.deg dir + 1 ≤ S.size dir)
    (hsp : findMultiplicity u (S.kv dir) tol ≤ S.deg dir)
    (hns : check = false → num ≤ findMultiplicity u (S.kv dir) tol)
    (hps : S.deg dir + num ≤ findSpanLinear (S.deg dir) (fnOf (S.kv dir)) (S.size dir) u)
    (hall : ∀ c, c < ((volRows dir (S.size 0) (S.size 1) (S.size 2) S.net).headD []).length →
      AllRemovable (S.deg dir) (fnOf (S.kv dir)) (isoCol c (volRows dir (S.size 0) (S.size 1) (S.size 2) S.net)) u num
        (findMultiplicity u (S.kv dir) tol) (findSpanLinear (S.deg dir) (fnOf (S.kv dir)) (S.size dir) u) tol2) :
    removeKnotVolRows S dir u num tol tol2 check = removeKnotDir S dir u num tol tol2 check := by
  unfold removeKnotVolRows removeKnotDir
  simp only []
  by_cases hc : check = true ∧ num > findMultiplicity u (S.kv dir) tol
  · rw [if_pos hc, if_pos hc]
  · rw [if_neg hc, if_neg hc]
    have hns' : num ≤ findMultiplicity u (S.kv dir) tol := by
      cases check with
      | false => exact hns rfl
      | true => simp at hc; exact hc
    have hspan := findSpanLinear_range (S.deg dir) (fnOf (S.kv dir)) (S.size dir) u hpn
    have hsz : [S.size 0, S.size 1, S.size 2].getD dir 0 = S.size dir := by
      obtain rfl | rfl | rfl : dir = 0 ∨ dir = 1 ∨ dir = 2 := by omega
      all_goals rfl
    rw [mapVolRows_remove dir _ _ _ _ _ _ _ _ _ _ _ hsu hsv hsw hdir hsp hns' hps (by rw [hsz]; exact hspan.2) hall]
    have hm : ∀ f : List (List K) → List (List K),
        S.mapDir dir f = mapVol dir (S.size 0) (S.size 1) (S.size 2) S.net f := by
      intro f
      unfold Shape.mapDir
      rw [if_neg (by omega), if_neg (by omega)]
    rw [hm]

end Rows
end Geomdl
