import NurbsVerif.Lemmas.AssembleSpan
import NurbsVerif.Lemmas.Hull
import NurbsVerif.Lemmas.InsertSurf
import NurbsVerif.Lemmas.VolLift

/-!
  Assembly, part 3 (C18): clamped ends through the span search.  A curve with a clamped knot
  function starts at its first and ends at its last control point; the corners of a clamped surface /
  volume are the corner control points.
-/
namespace Geomdl
open Blossom Finset
variable {K : Type} [Field K] [LinearOrder K] [IsStrictOrderedRing K]

/-- clamped knot function for degree `p`, `n` control points: the knots `U 1 … U p` coincide, the
    knots `U n … U (n+p-1)` coincide (`U 0` and `U (n+p)` are never read by the evaluation, so the
    usual "first and last `p+1` knots equal" implies this), and the first span is non-empty -/
structure ClampedOk (p : ℕ) (U : ℕ → K) (n : ℕ) : Prop where
  start : ∀ i, 1 ≤ i → i ≤ p → U i = U p
  stop : ∀ i, n ≤ i → i < n + p → U i = U n
  first : U p < U (p+1)

/-! ### curves -/

/-- the curve starts at its first control point -/
theorem curvePoint_start (p : ℕ) (U : ℕ → K) (P : List (List K)) (d j : ℕ)
    (hm : Monotone U) (hpn : p + 1 ≤ P.length) (hP : NetOk d P)
    (hfirst : U p < U (p+1)) (hcl : ∀ i, 1 ≤ i → i ≤ p → U i = U p) :
    (curvePoint p U P (U p)).getD j 0 = (ptsGet P 0).getD j 0 := by
  unfold curvePoint
  rw [findSpanLinear_left_end hm hpn hfirst]
  have h := curvePointAt_clamped_start p U P p (U p) d j hm hfirst (le_refl _) (by omega) hP
    (fun i h1 h2 => hcl i (by omega) h2)
  rw [Nat.sub_self] at h
  exact h

/-- the curve ends at its last control point -/
theorem curvePoint_end (p : ℕ) (U : ℕ → K) (P : List (List K)) (d j : ℕ)
    (hU : KnotsOk p U P.length) (hP : NetOk d P)
    (hcl : ∀ i, P.length ≤ i → i < P.length + p → U i = U P.length) :
    (curvePoint p U P (U P.length)).getD j 0 = (ptsGet P (P.length - 1)).getD j 0 := by
  unfold curvePoint
  rw [findSpanLinear_right_end hU.mono hU.pn]
  have hpn := hU.pn
  have e : P.length - 1 + 1 = P.length := by omega
  exact curvePointAt_clamped_end p U P (P.length - 1) (U P.length) d j hU.mono (by rw [e]; exact hU.last)
    (by omega) (by omega) hP (fun i h1 h2 => hcl i (by omega) (by omega)) (by rw [e])

/-! ### one direction: at a domain end the basis functions select one control point -/

/-- at the left (`e = false`) / right (`e = true`) end of the domain of a clamped knot function the
    span found is legal, the `p+1` basis functions are an indicator, and the selected active control
    point is the first / last one of the direction -/
theorem end_select {p : ℕ} {U : ℕ → K} {n : ℕ} (hU : KnotsOk p U n) (hc : ClampedOk p U n) (e : Bool) :
    p ≤ findSpanLinear p U n (if e then U n else U p) ∧ findSpanLinear p U n (if e then U n else U p) < n ∧
    findSpanLinear p U n (if e then U n else U p) - p + (if e then p else 0) = (if e then n - 1 else 0) ∧
    (if e then p else 0) ≤ p ∧
    ∀ r, (basisFuns p U (findSpanLinear p U n (if e then U n else U p)) (if e then U n else U p)).getD r 0
      = if r = (if e then p else 0) then 1 else 0 := by
  have hpn := hU.pn
  cases e with
  | false =>
    simp only [Bool.false_eq_true, if_false]
    rw [findSpanLinear_left_end hU.mono hU.pn hc.first]
    refine ⟨le_refl _, by omega, by omega, by omega, ?_⟩
    intro r
    rw [basisFuns_at_clamped_start U p (U p) hU.mono hc.first p (le_refl _) (fun i h1 h2 => hc.start i (by omega) h2)]
    cases r with
    | zero => simp
    | succ r =>
      simp only [List.getD_cons_succ, Nat.add_one_ne_zero, if_false]
      rw [List.getD_eq_getElem?_getD, List.getElem?_replicate]
      split <;> simp
  | true =>
    simp only [if_true]
    rw [findSpanLinear_right_end hU.mono hU.pn]
    have e1 : n - 1 + 1 = n := by omega
    refine ⟨by omega, by omega, by omega, le_refl _, ?_⟩
    intro r
    rw [basisFuns_at_clamped_end U (n - 1) (U n) hU.mono (by rw [e1]; exact hU.last) p (by omega)
      (fun i h1 h2 => hc.stop i (by omega) (by omega)) (by rw [e1])]
    rw [List.getD_eq_getElem?_getD, List.getElem?_append]
    by_cases hr : r < p
    · simp [hr, Nat.ne_of_lt hr]
    · by_cases hrp : r = p
      · subst hrp; simp
      · have : r - p ≠ 0 := by omega
        simp [hr, hrp, this]

/-! ### surfaces and volumes: indicator basis functions select one control point -/

theorem surfacePointAt_select (pu pv : ℕ) (Uu Uv : ℕ → K) (su sv : ℕ) (P : List (List K)) (ku kv : ℕ) (u v : K)
    (d j : ℕ) (hpu : pu ≤ ku) (hpv : pv ≤ kv) (hku : ku < su) (hkv : kv < sv) (hlen : P.length = su * sv) (hP : NetOk d P)
    (a0 b0 : ℕ) (ha0 : a0 ≤ pu) (hb0 : b0 ≤ pv)
    (hNu : ∀ r, (basisFuns pu Uu ku u).getD r 0 = if r = a0 then 1 else 0)
    (hNv : ∀ r, (basisFuns pv Uv kv v).getD r 0 = if r = b0 then 1 else 0) :
    (surfacePointAt pu pv Uu Uv sv P ku kv u v).getD j 0 = (ptsGet P (kv - pv + b0 + sv * (ku - pu + a0))).getD j 0 := by
  rw [surfacePointAt_sum pu pv Uu Uv su sv P ku kv u v d j hpu hpv hku hkv hlen hP]
  simp only [hNu, hNv, ite_mul, one_mul, zero_mul]
  rw [Finset.sum_ite_eq' (range (pu+1)) a0, if_pos (Finset.mem_range.mpr (by omega))]
  rw [Finset.sum_ite_eq' (range (pv+1)) b0, if_pos (Finset.mem_range.mpr (by omega))]

theorem volumePointAt_select (pu pv pw : ℕ) (Uu Uv Uw : ℕ → K) (su sv sw : ℕ) (P : List (List K))
    (ku kv kw : ℕ) (u v w : K) (d j : ℕ)
    (hpu : pu ≤ ku) (hpv : pv ≤ kv) (hpw : pw ≤ kw) (hku : ku < su) (hkv : kv < sv) (hkw : kw < sw)
    (hlen : P.length = su * sv * sw) (hP : NetOk d P)
    (a0 b0 c0 : ℕ) (ha0 : a0 ≤ pu) (hb0 : b0 ≤ pv) (hc0 : c0 ≤ pw)
    (hNu : ∀ r, (basisFuns pu Uu ku u).getD r 0 = if r = a0 then 1 else 0)
    (hNv : ∀ r, (basisFuns pv Uv kv v).getD r 0 = if r = b0 then 1 else 0)
    (hNw : ∀ r, (basisFuns pw Uw kw w).getD r 0 = if r = c0 then 1 else 0) :
    (volumePointAt pu pv pw Uu Uv Uw su sv P ku kv kw u v w).getD j 0
      = (ptsGet P (kv - pv + b0 + sv * (ku - pu + a0 + su * (kw - pw + c0)))).getD j 0 := by
  rw [volumePointAt_sum pu pv pw Uu Uv Uw su sv sw P ku kv kw u v w d j hpu hpv hpw hku hkv hkw hlen hP]
  simp only [hNu, hNv, hNw, ite_mul, one_mul, zero_mul]
  rw [Finset.sum_ite_eq' (range (pu+1)) a0, if_pos (Finset.mem_range.mpr (by omega))]
  rw [Finset.sum_ite_eq' (range (pv+1)) b0, if_pos (Finset.mem_range.mpr (by omega))]
  rw [Finset.sum_ite_eq' (range (pw+1)) c0, if_pos (Finset.mem_range.mpr (by omega))]

/-- **surface corners**: at each of the four domain corners (`eu`, `ev`: right end of the direction or
    not) the surface point is the corner control point -/
theorem surfacePoint_corner (pu pv : ℕ) (Uu Uv : ℕ → K) (su sv : ℕ) (P : List (List K)) (d j : ℕ)
    (hUu : KnotsOk pu Uu su) (hUv : KnotsOk pv Uv sv) (hcu : ClampedOk pu Uu su) (hcv : ClampedOk pv Uv sv)
    (hlen : P.length = su * sv) (hP : NetOk d P) (eu ev : Bool) :
    (surfacePoint pu pv Uu Uv su sv P (if eu then Uu su else Uu pu) (if ev then Uv sv else Uv pv)).getD j 0
      = (ptsGet P ((if ev then sv - 1 else 0) + sv * (if eu then su - 1 else 0))).getD j 0 := by
  obtain ⟨a1, a2, a3, a4, a5⟩ := end_select hUu hcu eu
  obtain ⟨b1, b2, b3, b4, b5⟩ := end_select hUv hcv ev
  unfold surfacePoint
  rw [surfacePointAt_select pu pv Uu Uv su sv P _ _ _ _ d j a1 b1 a2 b2 hlen hP _ _ a4 b4 a5 b5, a3, b3]

/-- **volume corners**: at each of the eight domain corners the volume point is the corner control
    point -/
theorem volumePoint_corner (pu pv pw : ℕ) (Uu Uv Uw : ℕ → K) (su sv sw : ℕ) (P : List (List K)) (d j : ℕ)
    (hUu : KnotsOk pu Uu su) (hUv : KnotsOk pv Uv sv) (hUw : KnotsOk pw Uw sw)
    (hcu : ClampedOk pu Uu su) (hcv : ClampedOk pv Uv sv) (hcw : ClampedOk pw Uw sw)
    (hlen : P.length = su * sv * sw) (hP : NetOk d P) (eu ev ew : Bool) :
    (volumePoint pu pv pw Uu Uv Uw su sv sw P (if eu then Uu su else Uu pu) (if ev then Uv sv else Uv pv)
        (if ew then Uw sw else Uw pw)).getD j 0
      = (ptsGet P ((if ev then sv - 1 else 0) + sv * ((if eu then su - 1 else 0) + su * (if ew then sw - 1 else 0)))).getD j 0 := by
  obtain ⟨a1, a2, a3, a4, a5⟩ := end_select hUu hcu eu
  obtain ⟨b1, b2, b3, b4, b5⟩ := end_select hUv hcv ev
  obtain ⟨c1, c2, c3, c4, c5⟩ := end_select hUw hcw ew
  unfold volumePoint
  rw [volumePointAt_select pu pv pw Uu Uv Uw su sv sw P _ _ _ _ _ _ d j a1 b1 c1 a2 b2 c2 hlen hP _ _ _ a4 b4 c4 a5 b5 c5,
    a3, b3, c3]

end Geomdl
