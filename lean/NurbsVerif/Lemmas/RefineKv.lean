import NurbsVerif.Lemmas.RefineX

/-! The knot vector after refinement: sorted, the old knots plus `X`, every bisection knot raised to
    multiplicity `p`, distinct domain knots = the `density`-fold bisection of the old ones. -/
namespace Geomdl
open Blossom
variable {K : Type} [Field K] [LinearOrder K] [IsStrictOrderedRing K]

/-- the distinct domain knots are the knots that lie in the domain -/
theorem mem_domainKnots_iff (p d : ℕ) (U : List K) (P : List (List K)) (hwf : CurveWF p d U P) (y : K) :
    y ∈ domainKnots p U ↔ y ∈ U ∧ fnOf U p ≤ y ∧ y ≤ fnOf U P.length := by
  have hlen := hwf.len
  have hpn := hwf.pn
  rw [mem_sortDedup, mem_slice]
  constructor
  · rintro ⟨i, h1, h2, h3, e⟩
    rw [← e]
    exact ⟨(mem_iff_fnOf U _).mpr ⟨i, h3, rfl⟩, hwf.mono h1, hwf.mono (by omega)⟩
  · rintro ⟨hy, h1, h2⟩
    obtain ⟨i, hi, e⟩ := (mem_iff_fnOf U y).mp hy
    by_cases hip : i < p
    · refine ⟨p, le_refl _, by omega, by omega, ?_⟩
      apply le_antisymm h1
      rw [← e]; exact hwf.mono (by omega)
    · by_cases hin : P.length < i
      · refine ⟨P.length, by omega, by omega, by omega, ?_⟩
        apply le_antisymm _ h2
        rw [← e]; exact hwf.mono (by omega)
      · exact ⟨i, by omega, by omega, hi, e⟩

section
variable (p d : ℕ) (U : List K) (P : List (List K)) (density : ℕ) (tol : K)
  (hwf : CurveWF p d U P) (hend : ∀ i, P.length ≤ i → fnOf U i = fnOf U P.length)
  (h0 : 0 ≤ tol) (hsep : SepBy tol (U ++ refineKnots p U density))
include hwf hend h0 hsep

/-- the refined curve is again well formed (sorted knots, matching sizes) with the same domain -/
theorem refine_result_wf :
    let R := (refineX p U density tol).foldl (insertOne p tol) (U, P)
    CurveWF p d R.1 R.2 ∧ fnOf R.1 p = fnOf U p ∧ fnOf R.1 R.2.length = fnOf U P.length :=
  refine_fold_wf p d tol _ (U, P) hwf (refineX_ok p d U P density tol hwf hend h0 hsep)

theorem mult_eq_count_of_mem (x : K) (hx : x ∈ U ++ refineKnots p U density) :
    findMultiplicity x U tol = U.count x :=
  findMultiplicity_eq_count tol h0 x U (fun y hy => hsep x hx y (by simp [hy]))

/-- every knot of the bisected list ends with multiplicity `max p (old multiplicity)`, every other
    value keeps its multiplicity -/
theorem refine_result_count (y : K) :
    ((refineX p U density tol).foldl (insertOne p tol) (U, P)).1.count y
      = if y ∈ refineKnots p U density then max p (U.count y) else U.count y := by
  rw [(insert_fold_perm p tol (refineX p U density tol) (U, P)).count_eq, List.count_append, count_refineX]
  by_cases hy : y ∈ refineKnots p U density
  · rw [if_pos hy, if_pos hy, mult_eq_count_of_mem p d U P density tol hwf hend h0 hsep y (List.mem_append_right _ hy)]
    show p - U.count y + U.count y = max p (U.count y)
    omega
  · rw [if_neg hy, if_neg hy]; simp

/-- the same with the multiplicity the library computes -/
theorem refine_result_mult (y : K) (hy : y ∈ refineKnots p U density) :
    findMultiplicity y ((refineX p U density tol).foldl (insertOne p tol) (U, P)).1 tol = max p (U.count y) := by
  have hperm := insert_fold_perm p tol (refineX p U density tol) (U, P)
  rw [findMultiplicity_eq_count tol h0 y _ ?_, refine_result_count p d U P density tol hwf hend h0 hsep y, if_pos hy]
  intro z hz
  apply hsep y (List.mem_append_right _ hy) z
  rcases List.mem_append.mp (hperm.mem_iff.mp hz) with h | h
  · exact List.mem_append_right _ ((mem_refineX p U density tol z).mp h).1
  · exact List.mem_append_left _ h

/-- the distinct domain knots of the refined vector are exactly the `density`-fold bisection of the
    distinct domain knots of the original -/
theorem refine_result_domainKnots (hp : 1 ≤ p) :
    domainKnots p ((refineX p U density tol).foldl (insertOne p tol) (U, P)).1 = refineKnots p U density := by
  obtain ⟨hwf', hp', hn'⟩ := refine_result_wf p d U P density tol hwf hend h0 hsep
  have hperm := insert_fold_perm p tol (refineX p U density tol) (U, P)
  apply sorted_ext _ _ (sortDedup_sorted _) (refineKnots_sorted p U density)
  intro y
  rw [mem_domainKnots_iff p d _ _ hwf' y, hp', hn', hperm.mem_iff, List.mem_append]
  constructor
  · rintro ⟨hy | hy, h1, h2⟩
    · exact ((mem_refineX p U density tol y).mp hy).1
    · exact mem_iterate_densify_of_mem density _ y ((mem_domainKnots_iff p d U P hwf y).mpr ⟨hy, h1, h2⟩)
  · intro hy
    obtain ⟨h1, h2⟩ := refineKnots_bounds p d U P density hwf y hy
    refine ⟨?_, h1, h2⟩
    by_cases hm : findMultiplicity y U tol < p
    · exact Or.inl ((mem_refineX p U density tol y).mpr ⟨hy, hm⟩)
    · right
      rw [mult_eq_count_of_mem p d U P density tol hwf hend h0 hsep y (List.mem_append_right _ hy)] at hm
      have hpos : 0 < U.count y := by omega
      exact List.count_pos_iff.mp hpos

/-- a knot of the refined vector that lies in the domain is one of the bisection knots -/
theorem mem_refineKnots_of_mem_result (y : K)
    (hy : y ∈ ((refineX p U density tol).foldl (insertOne p tol) (U, P)).1)
    (h1 : fnOf U p ≤ y) (h2 : y ≤ fnOf U P.length) : y ∈ refineKnots p U density := by
  have hperm := insert_fold_perm p tol (refineX p U density tol) (U, P)
  rcases List.mem_append.mp (hperm.mem_iff.mp hy) with h | h
  · exact ((mem_refineX p U density tol y).mp h).1
  · exact mem_iterate_densify_of_mem density _ y ((mem_domainKnots_iff p d U P hwf y).mpr ⟨h, h1, h2⟩)

/-! #### the same facts for the value `knotRefinement` returns -/

omit hwf hend h0 hsep in
theorem knotRefinement_some (U' : List K) (P' : List (List K))
    (h : knotRefinement p U P density tol = some (U', P')) :
    refineX p U density tol ≠ [] ∧ 1 ≤ p ∧
    U' = ((refineX p U density tol).foldl (insertOne p tol) (U, P)).1 ∧
    P' = ((refineX p U density tol).foldl (insertOne p tol) (U, P)).2 := by
  unfold knotRefinement at h
  simp only [] at h
  split_ifs at h with hX
  have e := Option.some.inj h
  have hne : refineX p U density tol ≠ [] := by
    intro e'; rw [e'] at hX; simp at hX
  refine ⟨hne, ?_, by rw [e], by rw [e]⟩
  obtain ⟨x, hx⟩ := List.exists_mem_of_ne_nil _ hne
  have := ((mem_refineX p U density tol x).mp hx).2
  omega

variable (U' : List K) (P' : List (List K)) (h : knotRefinement p U P density tol = some (U', P'))
include h

theorem knotRefinement_wf :
    CurveWF p d U' P' ∧ fnOf U' p = fnOf U p ∧ fnOf U' P'.length = fnOf U P.length := by
  obtain ⟨_, _, e1, e2⟩ := knotRefinement_some p U P density tol U' P' h
  rw [e1, e2]; exact refine_result_wf p d U P density tol hwf hend h0 hsep

omit hwf hend h0 hsep in
theorem knotRefinement_perm : U'.Perm (refineX p U density tol ++ U) := by
  obtain ⟨_, _, e1, e2⟩ := knotRefinement_some p U P density tol U' P' h
  rw [e1]; exact insert_fold_perm p tol _ (U, P)

omit hwf hend h0 hsep in
theorem knotRefinement_lengths :
    U'.length = U.length + (refineX p U density tol).length ∧ P'.length = P.length + (refineX p U density tol).length := by
  obtain ⟨_, _, e1, e2⟩ := knotRefinement_some p U P density tol U' P' h
  have hU : U'.length = U.length + (refineX p U density tol).length := by
    rw [(knotRefinement_perm p U P density tol U' P' h).length_eq, List.length_append]; omega
  refine ⟨hU, ?_⟩
  rw [e2]; exact insert_fold_net_length p tol _ (U, P)

theorem knotRefinement_count (y : K) :
    U'.count y = if y ∈ refineKnots p U density then max p (U.count y) else U.count y := by
  obtain ⟨_, _, e1, e2⟩ := knotRefinement_some p U P density tol U' P' h
  rw [e1]; exact refine_result_count p d U P density tol hwf hend h0 hsep y

theorem knotRefinement_mult (y : K) (hy : y ∈ refineKnots p U density) :
    findMultiplicity y U' tol = max p (U.count y) := by
  obtain ⟨_, _, e1, e2⟩ := knotRefinement_some p U P density tol U' P' h
  rw [e1]; exact refine_result_mult p d U P density tol hwf hend h0 hsep y hy

theorem knotRefinement_interior (y : K) (hy : y ∈ U') (h1 : fnOf U p < y) (h2 : y < fnOf U P.length)
    (hmul : U.count y ≤ p) : U'.count y = p ∧ findMultiplicity y U' tol = p := by
  obtain ⟨_, _, e1, e2⟩ := knotRefinement_some p U P density tol U' P' h
  have hk : y ∈ refineKnots p U density :=
    mem_refineKnots_of_mem_result p d U P density tol hwf hend h0 hsep y (by rw [← e1]; exact hy) (le_of_lt h1) (le_of_lt h2)
  rw [knotRefinement_count p d U P density tol hwf hend h0 hsep U' P' h y, if_pos hk,
    knotRefinement_mult p d U P density tol hwf hend h0 hsep U' P' h y hk]
  exact ⟨by omega, by omega⟩

theorem knotRefinement_domainKnots : domainKnots p U' = refineKnots p U density := by
  obtain ⟨_, hp, e1, e2⟩ := knotRefinement_some p U P density tol U' P' h
  rw [e1]; exact refine_result_domainKnots p d U P density tol hwf hend h0 hsep hp

end

end Geomdl
