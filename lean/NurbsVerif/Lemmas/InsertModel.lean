import NurbsVerif.Model.Knots
import NurbsVerif.Lemmas.A51Eval
import NurbsVerif.Lemmas.EvalSpec

/-! The list model of `helpers.knot_insertion` coordinatewise equals `Blossom.Qcode`; hence knot
    insertion preserves every point of a curve evaluated with A2.2/A3.1. -/
namespace Geomdl
open Blossom
variable {K : Type} [Field K] [LinearOrder K] [IsStrictOrderedRing K]

/-- `j`-th coordinates of a list of points -/
def coord (j : ℕ) (pts : List (List K)) : List K := pts.map (fun pt => pt.getD j 0)

theorem coord_getD (j : ℕ) (pts : List (List K)) (i : ℕ) : (coord j pts).getD i 0 = (ptsGet pts i).getD j 0 := by
  unfold coord ptsGet
  simp only [List.getD_eq_getElem?_getD, List.getElem?_map]
  cases pts[i]? <;> simp

theorem insAlpha_eq (U : ℕ → K) (u : K) (k i L : ℕ) : Geomdl.insAlpha U u k i L = Blossom.insAlpha U u k i L := rfl

theorem insTempInit_ok (P : List (List K)) (k p s d j : ℕ) (hP : NetOk d P) (hpk : p ≤ k) (hk : k < P.length) :
    (∀ pt ∈ insTempInit P k p s, pt.length = d) ∧ (insTempInit P k p s).length = p - s + 1 ∧
    coord j (insTempInit P k p s) = tempInit (fun m => (ptsGet P m).getD j 0) k p s := by
  refine ⟨?_, by simp [insTempInit], ?_⟩
  · intro pt hpt
    simp only [insTempInit, List.mem_map, List.mem_range] at hpt
    obtain ⟨i, hi, rfl⟩ := hpt
    exact ptsGet_length hP _ (by omega)
  · simp [coord, insTempInit, tempInit]

theorem zipWith_getD_lin (a : K) (x y : List K) (j : ℕ) (h : x.length = y.length) :
    (List.zipWith (fun e1 e2 => a * e2 + (1 - a) * e1) x y).getD j 0 = a * y.getD j 0 + (1 - a) * x.getD j 0 := by
  simp only [List.getD_eq_getElem?_getD, List.getElem?_zipWith]
  by_cases hj : j < x.length
  · have hy : j < y.length := by omega
    simp [List.getElem?_eq_getElem hj, List.getElem?_eq_getElem hy]
  · have hy : ¬ j < y.length := by omega
    simp [List.getElem?_eq_none (not_lt.mp hj), List.getElem?_eq_none (not_lt.mp hy)]

theorem insTempStep_ok (U : ℕ → K) (u : K) (k p s lv d j : ℕ) (temp : List (List K))
    (hlen : temp.length = p - s + 1) (hd : ∀ pt ∈ temp, pt.length = d) (hlv : 1 ≤ lv) (hlvs : lv + s ≤ p) :
    (∀ pt ∈ insTempStep U u k p s lv temp, pt.length = d) ∧ (insTempStep U u k p s lv temp).length = p - s + 1 ∧
    coord j (insTempStep U u k p s lv temp) = tempStep U u k p s lv (coord j temp) := by
  have hget : ∀ i, i < temp.length → (ptsGet temp i).length = d := fun i hi => ptsGet_length hd i hi
  refine ⟨?_, ?_, ?_⟩
  · intro pt hpt
    simp only [insTempStep, List.mem_append, List.mem_map, List.mem_range] at hpt
    rcases hpt with ⟨i, hi, rfl⟩ | hpt
    · simp only [List.length_zipWith]
      rw [hget i (by omega), hget (i+1) (by omega)]; simp
    · exact hd pt (List.mem_of_mem_drop hpt)
  · simp only [insTempStep, List.length_append, List.length_map, List.length_range, List.length_drop, hlen]
    omega
  · unfold insTempStep tempStep coord
    simp only [List.map_append, List.map_map, List.map_drop]
    congr 1
    apply List.map_congr_left
    intro i hi
    rw [List.mem_range] at hi
    simp only [Function.comp]
    rw [zipWith_getD_lin _ _ _ _ (by rw [hget i (by omega), hget (i+1) (by omega)])]
    have e1 := coord_getD j temp (i+1)
    have e2 := coord_getD j temp i
    unfold coord at e1 e2
    rw [e1, e2]
    rfl

theorem insTempAt_ok (U : ℕ → K) (u : K) (P : List (List K)) (k p s d j : ℕ) (hP : NetOk d P)
    (hpk : p ≤ k) (hk : k < P.length) : ∀ lv, lv + s ≤ p →
    (∀ pt ∈ insTempAt U u P k p s lv, pt.length = d) ∧ (insTempAt U u P k p s lv).length = p - s + 1 ∧
    coord j (insTempAt U u P k p s lv) = tempAt U u (fun m => (ptsGet P m).getD j 0) k p s lv := by
  intro lv
  induction lv with
  | zero => intro _; exact insTempInit_ok P k p s d j hP hpk hk
  | succ lv ih =>
    intro h
    obtain ⟨h1, h2, h3⟩ := ih (by omega)
    have := insTempStep_ok U u k p s (lv+1) d j _ h2 h1 (by omega) h
    refine ⟨this.1, this.2.1, ?_⟩
    simp only [insTempAt, tempAt]
    rw [this.2.2, h3]

/-- the model of `helpers.knot_insertion`, coordinate by coordinate, is `Blossom.Qcode` -/
theorem knotInsertion_coord (p : ℕ) (U : ℕ → K) (P : List (List K)) (u : K) (r s k d j : ℕ) (hP : NetOk d P)
    (hpk : p ≤ k) (hk : k < P.length) (hrs : r + s ≤ p) (i : ℕ) (hi : i < P.length + r) :
    (ptsGet (knotInsertion p U P u r s k) i).getD j 0 = Qcode U u (fun m => (ptsGet P m).getD j 0) k p s r i := by
  have T := fun lv h => (insTempAt_ok U u P k p s d j hP hpk hk lv h).2.2
  unfold knotInsertion Qcode ptsGet
  simp only [List.getD_eq_getElem?_getD, List.getElem?_map, List.getElem?_range hi, Option.map_some, Option.getD_some]
  have key : ∀ (lv a : ℕ), lv + s ≤ p →
      (((insTempAt U u P k p s lv)[a]?.getD ([] : List K))[j]?.getD (0:K)) = (tempAt U u (fun (m:ℕ) => ((P[m]?.getD ([] : List K))[j]?.getD (0:K))) k p s lv)[a]?.getD 0 := by
    intro lv a h
    have := T lv h
    have c := coord_getD j (insTempAt U u P k p s lv) a
    unfold ptsGet at c this
    simp only [List.getD_eq_getElem?_getD] at c this
    rw [← c, this]
  by_cases c1 : i + p ≤ k
  · simp only [c1, if_true]
  · simp only [c1, if_false]
    by_cases c2 : i + p ≤ k + r
    · simp only [c2, if_true]; exact key _ _ (by omega)
    · simp only [c2, if_false]
      by_cases c3 : i + s < k
      · simp only [c3, if_true]; exact key _ _ (by omega)
      · simp only [c3, if_false]
        by_cases c4 : i + s < k + r
        · simp only [c4, if_true]; exact key _ _ (by omega)
        · simp only [c4, if_false]

theorem knotInsertion_length (p : ℕ) (U : ℕ → K) (P : List (List K)) (u : K) (r s k : ℕ) :
    (knotInsertion p U P u r s k).length = P.length + r := by simp [knotInsertion]

theorem knotInsertion_netOk (p : ℕ) (U : ℕ → K) (P : List (List K)) (u : K) (r s k d : ℕ) (hP : NetOk d P)
    (hpk : p ≤ k) (hk : k < P.length) (hrs : r + s ≤ p) (hsk : s ≤ k) : NetOk d (knotInsertion p U P u r s k) := by
  intro pt hpt
  simp only [knotInsertion, List.mem_map, List.mem_range] at hpt
  obtain ⟨i, hi, rfl⟩ := hpt
  have T := fun lv h => insTempAt_ok U u P k p s d 0 hP hpk hk lv h
  have tl : ∀ lv a, lv + s ≤ p → a < p - s + 1 → (ptsGet (insTempAt U u P k p s lv) a).length = d := by
    intro lv a h ha
    obtain ⟨h1, h2, _⟩ := T lv h
    exact ptsGet_length h1 a (by omega)
  by_cases c1 : i + p ≤ k
  · simp only [c1, if_true]; exact ptsGet_length hP _ (by omega)
  · simp only [c1, if_false]
    by_cases c2 : i + p ≤ k + r
    · simp only [c2, if_true]; exact tl _ _ (by omega) (by omega)
    · simp only [c2, if_false]
      by_cases c3 : i + s < k
      · simp only [c3, if_true]; exact tl _ _ (by omega) (by omega)
      · simp only [c3, if_false]
        by_cases c4 : i + s < k + r
        · simp only [c4, if_true]; exact tl _ _ (by omega) (by omega)
        · simp only [c4, if_false]; exact ptsGet_length hP _ (by omega)

/-- coordinates of the A3.1 model as the `wsum` of Lemmas/Diag -/
theorem curvePointAt_wsum (p : ℕ) (U : ℕ → K) (P : List (List K)) (k : ℕ) (u : K) (d j : ℕ)
    (hp : p ≤ k) (hk : k < P.length) (hP : NetOk d P) :
    (curvePointAt p U P k u).getD j 0 = wsum (basisFuns p U k u) (fun i => (ptsGet P i).getD j 0) (k - p) := by
  unfold curvePointAt
  rw [dimOf_eq hP (by omega)]
  rw [linComb_range d j p _ (Blossom.basisFuns_length p U k u) (fun i => ptsGet P (k - p + i))
        (fun r hr => ptsGet_length hP _ (by omega))]
  rw [wsum_eq_sum, Blossom.basisFuns_length]

theorem wsum_congr (N : List K) (c c' : ℕ → K) : ∀ b, (∀ i, b ≤ i → i < b + N.length → c i = c' i) →
    wsum N c b = wsum N c' b := by
  induction N with
  | nil => intro b _; simp [wsum]
  | cons n ns ih =>
    intro b h
    simp only [wsum]
    rw [h b (le_refl _) (by simp), ih (b+1) (fun i h1 h2 => h i (by omega) (by simp only [List.length_cons]; omega))]

end Geomdl

namespace Geomdl
open Blossom
variable {K : Type} [Field K] [LinearOrder K] [IsStrictOrderedRing K]

/-- the list model of `helpers.knot_insertion_kv` is the refined knot function `Uh` -/
theorem fnOf_knotInsertionKv (Ul : List K) (ub : K) (k r : ℕ) (hk : k + 1 < Ul.length) :
    fnOf (knotInsertionKv Ul ub k r) = Uh k r ub (fnOf Ul) := by
  funext i
  have hne : Ul.drop (k+1) ≠ [] := by
    intro h
    have := congrArg List.length h
    simp at this; omega
  have hlast : (knotInsertionKv Ul ub k r).getLastD 0 = Ul.getLastD 0 := by
    unfold knotInsertionKv
    rw [List.getLastD_eq_getLast?, List.getLastD_eq_getLast?, List.getLast?_append_of_ne_nil _ hne,
        List.getLast?_drop]
    simp [show ¬ (Ul.length ≤ k + 1) by omega]
  unfold fnOf Uh
  rw [hlast]
  unfold knotInsertionKv
  simp only [List.getD_eq_getElem?_getD]
  by_cases h1 : i ≤ k
  · rw [if_pos h1, List.append_assoc, List.getElem?_append_left (by simp; omega), List.getElem?_take_of_lt (by omega)]
  · rw [if_neg h1]
    by_cases h2 : i ≤ k + r
    · rw [if_pos h2, List.append_assoc, List.getElem?_append_right (by simp; omega),
          List.getElem?_append_left (by simp; omega)]
      simp only [List.length_take, List.getElem?_replicate]
      have : i - min (k + 1) Ul.length < r := by omega
      simp [this]
    · rw [if_neg h2, List.getElem?_append_right (by simp; omega)]
      simp only [List.length_append, List.length_take, List.length_replicate, List.getElem?_drop]
      congr 2
      omega

/-- **Knot insertion never changes a curve** (list model of A5.1 + A2.2/A3.1, every coordinate) -/
theorem knotInsertion_preserves_point (p : ℕ) (Ul : List K) (P : List (List K)) (ub u : K)
    (r s k κ κ' d j : ℕ) (hP : NetOk d P)
    (hm : Monotone (fnOf Ul)) (hlen : k + 1 < Ul.length)
    (hk1 : fnOf Ul k ≤ ub) (hk2 : ub < fnOf Ul (k+1))
    (hmult : ∀ x, k - s < x → x ≤ k → fnOf Ul x = ub)
    (hκ : fnOf Ul κ < fnOf Ul (κ+1))
    (hκ' : fnOf (knotInsertionKv Ul ub k r) κ' < fnOf (knotInsertionKv Ul ub k r) (κ'+1))
    (hr1 : 1 ≤ r) (hrs : r + s ≤ p) (hpk : p ≤ k) (hkP : k < P.length) (hpκ : p ≤ κ) (hκP : κ < P.length)
    (hcase : (κ' = κ ∧ κ ≤ k) ∨ (κ' = κ + r ∧ k ≤ κ)) :
    (curvePointAt p (fnOf (knotInsertionKv Ul ub k r)) (knotInsertion p (fnOf Ul) P ub r s k) κ' u).getD j 0
      = (curvePointAt p (fnOf Ul) P κ u).getD j 0 := by
  have hQ := knotInsertion_netOk p (fnOf Ul) P ub r s k d hP hpk hkP hrs (by omega)
  have hκ'lt : κ' < (knotInsertion p (fnOf Ul) P ub r s k).length := by
    rw [knotInsertion_length]; rcases hcase with ⟨h, _⟩ | ⟨h, _⟩ <;> omega
  rw [curvePointAt_wsum p _ _ κ' u d j (by rcases hcase with ⟨h, _⟩ | ⟨h, _⟩ <;> omega) hκ'lt hQ]
  rw [curvePointAt_wsum p _ _ κ u d j hpκ hκP hP]
  rw [fnOf_knotInsertionKv Ul ub k r hlen] at hκ' ⊢
  rw [wsum_congr _ _ (Qcode (fnOf Ul) ub (fun m => (ptsGet P m).getD j 0) k p s r) (κ' - p) (by
    intro i hi1 hi2
    rw [Blossom.basisFuns_length] at hi2
    apply knotInsertion_coord p (fnOf Ul) P ub r s k d j hP hpk hkP hrs i
    rcases hcase with ⟨h, _⟩ | ⟨h, _⟩ <;> omega)]
  exact A51_preserves_eval (fnOf Ul) p k r s κ κ' ub u _ hm hk1 hk2 hmult hκ hκ' hr1 hrs hpk hpκ hcase

end Geomdl
