/-
  C13, sweeps of RATIONAL shapes as projected points: the near boundary section of the swept shape is the
  input, the far one is the input translated by the vector in Cartesian coordinates.
  `pointTranslateW vec` (divide by the weight, translate, multiply back, keep the weight) is
  `onCartesian true (translatePt vec)`, an affine map of the Cartesian control points.
-/
import NurbsVerif.Lemmas.ConstructRatEval

namespace Geomdl
open Blossom Finset
set_option linter.unusedSectionVars false
variable {K : Type} [Field K] [LinearOrder K] [IsStrictOrderedRing K]

theorem pointTranslateW_eq_onCartesian (vec pw : List K) (h : pw ≠ []) :
    pointTranslateW vec pw = onCartesian true (translatePt vec) pw := by
  unfold pointTranslateW onCartesian translatePt
  have e : pw.getLastD 0 = pw.getLastD 1 := by
    rw [List.getLastD_eq_getLast?, List.getLastD_eq_getLast?, List.getLast?_eq_some_getLast h]; rfl
  simp only [if_true, e, List.map_zipWith, List.zipWith_map_left]

theorem map_pointTranslateW (vec : List K) (P : List (List K)) (d : ℕ) (hP : NetOk (d+1) P) :
    P.map (pointTranslateW vec) = P.map (onCartesian true (translatePt vec)) := by
  apply List.map_congr_left
  intro p hp
  apply pointTranslateW_eq_onCartesian
  intro h0
  have := hP p hp
  rw [h0] at this
  simp at this

theorem pointTranslateW_length (vec p : List K) (d : ℕ) (hp : p.length = d + 1) (hv : vec.length = d) :
    (pointTranslateW vec p).length = d + 1 := by
  unfold pointTranslateW
  simp [hp, hv]

theorem pointTranslate_eq_translatePt (vec p : List K) : pointTranslate vec p = translatePt vec p := rfl

/-- rational curve with translated Cartesian control points (closed domain, positive weights) -/
theorem curvePoint_translateW (p : ℕ) (U : ℕ → K) (P : List (List K)) (vec : List K) (u : K) (d : ℕ)
    (hU : KnotsOk p U P.length) (hP : NetOk (d+1) P) (hvec : vec.length = d)
    (hwt : ∀ i, i < P.length → 0 < (ptsGet P i).getD d 0) (h1 : U p ≤ u) (h2 : u ≤ U P.length) :
    project (curvePoint p U (P.map (pointTranslateW vec)) u) = pointTranslate vec (project (curvePoint p U P u)) := by
  obtain ⟨hs, hp, hk⟩ := findSpanLinear_dom hU u h1 h2
  rw [map_pointTranslateW vec P d hP]
  have := (curvePointAt_map_affine_rat p U P _ u d hs hp hk hP hwt (translatePt vec) _ _
    (translatePt_affOn d vec hvec)).2.2
  unfold curvePoint
  rw [List.length_map]
  exact this

/-- rational surface with translated Cartesian control points -/
theorem surfacePoint_translateW (pu pv : ℕ) (Uu Uv : ℕ → K) (su sv : ℕ) (P : List (List K)) (vec : List K) (u v : K)
    (d : ℕ) (hUu : KnotsOk pu Uu su) (hUv : KnotsOk pv Uv sv) (hlen : P.length = su * sv) (hP : NetOk (d+1) P)
    (hvec : vec.length = d) (hwt : ∀ i, i < P.length → 0 < (ptsGet P i).getD d 0)
    (hu1 : Uu pu ≤ u) (hu2 : u ≤ Uu su) (hv1 : Uv pv ≤ v) (hv2 : v ≤ Uv sv) :
    project (surfacePoint pu pv Uu Uv su sv (P.map (pointTranslateW vec)) u v)
      = pointTranslate vec (project (surfacePoint pu pv Uu Uv su sv P u v)) := by
  obtain ⟨hsu, hpu, hku⟩ := findSpanLinear_dom hUu u hu1 hu2
  obtain ⟨hsv, hpv, hkv⟩ := findSpanLinear_dom hUv v hv1 hv2
  rw [map_pointTranslateW vec P d hP]
  exact (surfacePointAt_map_affine_rat pu pv Uu Uv su sv P _ _ u v d hsu hsv hpu hpv hku hkv hlen hP hwt
    (translatePt vec) _ _ (translatePt_affOn d vec hvec)).2.2

/-- **swept rational curve**: `S(u_min, v) = C(v)` and `S(u_max, v) = C(v) + vec` as projected (Cartesian) points;
    the weight divided by is positive -/
theorem sweepCurve_boundary_rat (vec : List K) (kvGen : ℕ → K) (C : Crv (List K) (ℕ → K)) (d : ℕ)
    (hn : 2 ≤ C.pts.length) (hU : KnotsOk C.deg C.kv C.pts.length) (hd : NetOk (d+1) C.pts) (hvec : vec.length = d)
    (hwt : ∀ i, i < C.pts.length → 0 < (ptsGet C.pts i).getD d 0)
    (hk : KnotsOk 1 kvGen 2) (hc : ClampedOk 1 kvGen 2) (v : K) (hv1 : C.kv C.deg ≤ v) (hv2 : v ≤ C.kv C.pts.length) :
    ∃ S, sweepCurve (pointTranslateW vec) kvGen C = some S ∧
      0 < (curvePoint C.deg C.kv C.pts v).getD d 0 ∧
      project (surfacePoint S.du S.dv S.ku S.kv S.su S.sv S.pts (kvGen 1) v) = project (curvePoint C.deg C.kv C.pts v) ∧
      project (surfacePoint S.du S.dv S.ku S.kv S.su S.sv S.pts (kvGen 2) v)
        = pointTranslate vec (project (curvePoint C.deg C.kv C.pts v)) := by
  have htr : ∀ p ∈ C.pts, (pointTranslateW vec p).length = d + 1 :=
    fun p hp => pointTranslateW_length vec p d (hd p hp) hvec
  refine ⟨_, sweepCurve_eq _ kvGen C, curvePoint_weight_pos C.deg C.kv C.pts v d hU hd hv1 hv2 hwt, ?_⟩
  set S : Srf (List K) (ℕ → K) :=
    { du := 1, dv := C.deg, ku := kvGen, kv := C.kv, su := 2, sv := C.pts.length,
      pts := C.pts ++ C.pts.map (pointTranslateW vec) } with hS
  have hN : NetOk (d+1) S.pts := by
    intro pt hpt
    simp only [hS, List.mem_append, List.mem_map] at hpt
    rcases hpt with hpt | ⟨q, hq, rfl⟩
    · exact hd pt hpt
    · exact htr q hq
  have hlenS : S.pts.length = 2 * C.pts.length := by simp [hS]; omega
  have key : ∀ a : K,
      (∀ j, (surfacePoint S.du S.dv S.ku S.kv S.su S.sv S.pts a v).getD j 0 = (curvePoint C.deg C.kv C.pts v).getD j 0) →
      surfacePoint S.du S.dv S.ku S.kv S.su S.sv S.pts a v = curvePoint C.deg C.kv C.pts v := by
    intro a h
    exact list_eq_of_getD_lt (d+1) (surfacePoint_length 1 C.deg kvGen C.kv 2 C.pts.length S.pts a v (d+1) hk.pn hU.pn hlenS hN)
      (curvePoint_length _ _ _ v (d+1) hU.pn hd) (fun j _ => h j)
  have key2 : ∀ a : K,
      (∀ j, (surfacePoint S.du S.dv S.ku S.kv S.su S.sv S.pts a v).getD j 0
        = (curvePoint C.deg C.kv (C.pts.map (pointTranslateW vec)) v).getD j 0) →
      surfacePoint S.du S.dv S.ku S.kv S.su S.sv S.pts a v = curvePoint C.deg C.kv (C.pts.map (pointTranslateW vec)) v := by
    intro a h
    exact list_eq_of_getD_lt (d+1) (surfacePoint_length 1 C.deg kvGen C.kv 2 C.pts.length S.pts a v (d+1) hk.pn hU.pn hlenS hN)
      (curvePoint_length _ _ _ v (d+1) (by simpa using hU.pn) (by
        intro pt hpt
        simp only [List.mem_map] at hpt
        obtain ⟨q, hq, rfl⟩ := hpt
        exact htr q hq)) (fun j _ => h j)
  have hb : ∀ j, _ := fun j => sweepCurve_boundary (pointTranslateW vec) kvGen C (d+1) hn hU.pn hd htr hk hc v j
  have hS' : ∀ j, ∃ S', sweepCurve (pointTranslateW vec) kvGen C = some S' ∧ _ := hb
  constructor
  · rw [key (kvGen 1) (fun j => by
      obtain ⟨S', h1, h2, _⟩ := hS' j
      rw [sweepCurve_eq] at h1
      cases h1
      exact h2)]
  · rw [key2 (kvGen 2) (fun j => by
      obtain ⟨S', h1, _, h3⟩ := hS' j
      rw [sweepCurve_eq] at h1
      cases h1
      exact h3)]
    exact curvePoint_translateW C.deg C.kv C.pts vec v d hU hd hvec hwt hv1 hv2

/-- **swept rational surface**: `V(u, v, w_min) = S(u, v)` and `V(u, v, w_max) = S(u, v) + vec` as projected points -/
theorem sweepSurface_boundary_rat (vec : List K) (kvGen : ℕ → K) (S : Srf (List K) (ℕ → K)) (d : ℕ)
    (h : S.WF) (hUu : KnotsOk S.du S.ku S.su) (hUv : KnotsOk S.dv S.kv S.sv) (hd : NetOk (d+1) S.pts)
    (hvec : vec.length = d) (hwt : ∀ i, i < S.pts.length → 0 < (ptsGet S.pts i).getD d 0)
    (hk : KnotsOk 1 kvGen 2) (hc : ClampedOk 1 kvGen 2) (u v : K)
    (hu1 : S.ku S.du ≤ u) (hu2 : u ≤ S.ku S.su) (hv1 : S.kv S.dv ≤ v) (hv2 : v ≤ S.kv S.sv) :
    ∃ V, sweepSurface (pointTranslateW vec) kvGen S = some V ∧
      0 < (surfacePoint S.du S.dv S.ku S.kv S.su S.sv S.pts u v).getD d 0 ∧
      project (volumePoint V.du V.dv V.dw V.ku V.kv V.kw V.su V.sv V.sw V.pts u v (kvGen 1))
        = project (surfacePoint S.du S.dv S.ku S.kv S.su S.sv S.pts u v) ∧
      project (volumePoint V.du V.dv V.dw V.ku V.kv V.kw V.su V.sv V.sw V.pts u v (kvGen 2))
        = pointTranslate vec (project (surfacePoint S.du S.dv S.ku S.kv S.su S.sv S.pts u v)) := by
  have htr : ∀ p ∈ S.pts, (pointTranslateW vec p).length = d + 1 :=
    fun p hp => pointTranslateW_length vec p d (hd p hp) hvec
  refine ⟨_, sweepSurface_eq _ kvGen S,
    surfacePoint_weight_pos S.du S.dv S.ku S.kv S.su S.sv S.pts u v d hUu hUv h.1 hd hu1 hu2 hv1 hv2 hwt, ?_⟩
  set V : Vol (List K) (ℕ → K) :=
    { du := S.du, dv := S.dv, dw := 1, ku := S.ku, kv := S.kv, kw := kvGen, su := S.su, sv := S.sv, sw := 2,
      pts := S.pts ++ S.pts.map (pointTranslateW vec) } with hV
  have hN : NetOk (d+1) V.pts := by
    intro pt hpt
    simp only [hV, List.mem_append, List.mem_map] at hpt
    rcases hpt with hpt | ⟨q, hq, rfl⟩
    · exact hd pt hpt
    · exact htr q hq
  have hlenV : V.pts.length = S.su * S.sv * 2 := by simp [hV, h.1]; ring
  have hNt : NetOk (d+1) (S.pts.map (pointTranslateW vec)) := by
    intro pt hpt
    simp only [List.mem_map] at hpt
    obtain ⟨q, hq, rfl⟩ := hpt
    exact htr q hq
  have hlV := fun a : K => volumePoint_length S.du S.dv 1 S.ku S.kv kvGen S.su S.sv 2 V.pts u v a (d+1)
    hUu.pn hUv.pn hk.pn hlenV hN
  have hb := fun j => sweepSurface_boundary (pointTranslateW vec) kvGen S (d+1) h hUu.pn hUv.pn hd htr hk hc u v j
  constructor
  · have e : volumePoint V.du V.dv V.dw V.ku V.kv V.kw V.su V.sv V.sw V.pts u v (kvGen 1)
        = surfacePoint S.du S.dv S.ku S.kv S.su S.sv S.pts u v := by
      apply list_eq_of_getD_lt (d+1) (hlV _) (surfacePoint_length _ _ _ _ _ _ _ u v (d+1) hUu.pn hUv.pn h.1 hd)
      intro j _
      obtain ⟨V', h1, h2, _⟩ := hb j
      rw [sweepSurface_eq] at h1
      cases h1
      exact h2
    rw [e]
  · have e : volumePoint V.du V.dv V.dw V.ku V.kv V.kw V.su V.sv V.sw V.pts u v (kvGen 2)
        = surfacePoint S.du S.dv S.ku S.kv S.su S.sv (S.pts.map (pointTranslateW vec)) u v := by
      apply list_eq_of_getD_lt (d+1) (hlV _)
        (surfacePoint_length _ _ _ _ _ _ _ u v (d+1) hUu.pn hUv.pn (by simpa using h.1) hNt)
      intro j _
      obtain ⟨V', h1, _, h3⟩ := hb j
      rw [sweepSurface_eq] at h1
      cases h1
      exact h3
    rw [e]
    exact surfacePoint_translateW S.du S.dv S.ku S.kv S.su S.sv S.pts vec u v d hUu hUv h.1 hd hvec hwt hu1 hu2 hv1 hv2

end Geomdl
