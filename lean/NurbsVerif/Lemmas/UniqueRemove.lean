import NurbsVerif.Lemmas.UniqueGlobal
import NurbsVerif.Lemmas.RemoveInvLib
import NurbsVerif.Lemmas.RefineCount

/-! # C06 "whenever removable at all", C05/C04 "any correct algorithm returns the fold of insertions"

`V, Ph` is the curve at hand; the knot `ub` occupies the positions `k - s + 1 .. k + r` of `V` (`s + r`
copies).  The knot is REMOVABLE `r` times when some well-formed curve `Q` over `V` with `r` copies taken out
(`knotRemovalKv V (k + r) r`) has the same points.  Then (C04) inserting `ub` `r` times into `Q` gives a net
over `V` with the same points, hence (uniqueness of B-spline control points) `Ph` IS that net, and the
round-trip theorems of `RemoveInv*` apply: A5.8 as coded returns exactly `Q` (or, for `t ≤ r` removals, the
net of `r - t` insertions into `Q`).  Nothing is assumed about how `Ph` was produced. -/
namespace Geomdl
open Blossom
variable {K : Type} [Field K] [LinearOrder K] [IsStrictOrderedRing K]

/-- putting the removed copies back restores the knot vector (the positions `k+1 .. k+r` hold `ub`) -/
theorem kv_insert_of_remove (V : List K) (ub : K) (k r : ℕ) (hlen : k + r < V.length)
    (hrun : ∀ x, k < x → x ≤ k + r → fnOf V x = ub) :
    knotInsertionKv (knotRemovalKv V (k + r) r) ub k r = V := by
  by_cases hr : r = 0
  · subst hr; simp [knotRemovalKv, knotInsertionKv]
  · unfold knotRemovalKv knotInsertionKv
    rw [if_neg hr, show k + r + 1 - r = k + 1 by omega]
    have hl : (List.take (k+1) V).length = k + 1 := by simp; omega
    have t1 : List.take (k+1) (List.take (k+1) V ++ List.drop (k+r+1) V) = List.take (k+1) V := by
      rw [List.take_append_of_le_length (by omega), List.take_of_length_le (by omega)]
    have t2 : List.drop (k+1) (List.take (k+1) V ++ List.drop (k+r+1) V) = List.drop (k+r+1) V := by
      rw [List.drop_append_of_le_length (by omega), List.drop_of_length_le (by omega), List.nil_append]
    have mid : List.replicate r ub = List.take r (List.drop (k+1) V) := by
      apply List.ext_getElem
      · simp; omega
      · intro i h1 h2
        simp only [List.getElem_replicate, List.getElem_take, List.getElem_drop]
        have hi : i < r := by simpa using h1
        rw [← fnOf_lt_length V (k + 1 + i) (by omega)]
        exact (hrun (k + 1 + i) (by omega) (by omega)).symm
    have e3 : List.drop (k + r + 1) V = List.drop r (List.drop (k+1) V) := by
      rw [List.drop_drop]; congr 1; omega
    rw [t1, t2, mid, List.append_assoc, e3, List.take_append_drop, List.take_append_drop]

/-- **The knot `ub` of the curve `(V, Ph)` is removable `r` times, witnessed by the curve `(knotRemovalKv V (k+r) r, Q)`.**
    `ub` occupies the positions `k - s + 1 .. k + r` of the sorted knot vector `V` (`s + r` copies, `k + r` is
    the span `find_span_linear` returns for `ub`, `s + r` its multiplicity), `1 ≤ r`, `r + s ≤ p ≤ k`,
    `k + r` is a control point index; no basis function of `V` vanishes on the whole domain; and `Q` is a
    well-formed curve over `V` with `r` copies of `ub` taken out that has the same point as `(V, Ph)` at every
    parameter of the half-open domain.  Nothing is said about where `Ph` comes from. -/
structure RemovableKnot (p d : ℕ) (V : List K) (Ph Q : List (List K)) (ub : K) (r s k : ℕ) : Prop where
  wf : CurveWF p d V Ph
  active : AllActive p Ph.length (fnOf V)
  run : ∀ x, k - s < x → x ≤ k + r → fnOf V x = ub
  below : fnOf V (k - s) < ub
  above : ub < fnOf V (k + r + 1)
  r1 : 1 ≤ r
  rs : r + s ≤ p
  pk : p ≤ k
  kn : k + r < Ph.length
  reduced : CurveWF p d (knotRemovalKv V (k + r) r) Q
  same : ∀ u, fnOf V p ≤ u → u < fnOf V Ph.length → ∀ j,
    (curvePoint p (fnOf (knotRemovalKv V (k + r) r)) Q u).getD j 0 = (curvePoint p (fnOf V) Ph u).getD j 0

/-- the hypotheses on the curve at hand, transported to the reduced knot vector `U = knotRemovalKv V (k+r) r` -/
theorem removable_facts (p d : ℕ) (V : List K) (Ph Q : List (List K)) (ub : K) (r s k : ℕ)
    (hwf : CurveWF p d V Ph) (hQ : CurveWF p d (knotRemovalKv V (k + r) r) Q)
    (hrun : ∀ x, k - s < x → x ≤ k + r → fnOf V x = ub)
    (hs : fnOf V (k - s) < ub) (hk2 : ub < fnOf V (k + r + 1))
    (hr1 : 1 ≤ r) (hpk : p ≤ k) (hkn : k + r < Ph.length) :
    knotInsertionKv (knotRemovalKv V (k + r) r) ub k r = V ∧ Q.length + r = Ph.length ∧
    k + 1 < (knotRemovalKv V (k + r) r).length ∧
    ub < fnOf (knotRemovalKv V (k + r) r) (k+1) ∧ fnOf (knotRemovalKv V (k + r) r) (k - s) < ub ∧
    (∀ x, k - s < x → x ≤ k → fnOf (knotRemovalKv V (k + r) r) x = ub) ∧
    fnOf (knotRemovalKv V (k + r) r) p ≤ ub ∧ ub < fnOf (knotRemovalKv V (k + r) r) Q.length ∧
    findSpanLinear p (fnOf (knotRemovalKv V (k + r) r)) Q.length ub = k ∧
    fnOf (knotRemovalKv V (k + r) r) p = fnOf V p ∧ fnOf (knotRemovalKv V (k + r) r) Q.length = fnOf V Ph.length := by
  have hVlen := hwf.len
  have hV : knotInsertionKv (knotRemovalKv V (k + r) r) ub k r = V :=
    kv_insert_of_remove V ub k r (by omega) (fun x h1 h2 => hrun x (by omega) h2)
  have hUlen : (knotRemovalKv V (k + r) r).length = V.length - r := by
    unfold knotRemovalKv
    rw [if_neg (by omega)]
    simp only [List.length_append, List.length_take, List.length_drop]
    omega
  generalize hU : knotRemovalKv V (k + r) r = U at hQ hV hUlen ⊢
  have hQlen : Q.length + r = Ph.length := by have := hQ.len; omega
  have hk1U : k + 1 < U.length := by omega
  have hfn := fnOf_knotInsertionKv U ub k r hk1U
  rw [hV] at hfn
  have eqlo : ∀ i, i ≤ k → fnOf U i = fnOf V i := by
    intro i hi; rw [hfn]; unfold Uh; rw [if_pos hi]
  have eqhi : ∀ i, k < i → fnOf U i = fnOf V (i + r) := by
    intro i hi; rw [hfn]; unfold Uh
    rw [if_neg (by omega), if_neg (by omega), show i + r - r = i by omega]
  have hkub : fnOf U k ≤ ub := by
    rw [eqlo k le_rfl, ← hrun (k+1) (by omega) (by omega)]
    exact hwf.mono (by omega)
  have hk2U : ub < fnOf U (k+1) := by
    rw [eqhi (k+1) (by omega), show k + 1 + r = k + r + 1 by omega]; exact hk2
  have hub1 : fnOf U p ≤ ub := le_trans (hQ.mono hpk) hkub
  have hub2 : ub < fnOf U Q.length := lt_of_lt_of_le hk2U (hQ.mono (by omega))
  refine ⟨hV, hQlen, hk1U, hk2U, by rw [eqlo _ (by omega)]; exact hs,
    fun x h1 h2 => by rw [eqlo x h2]; exact hrun x h1 (by omega), hub1, hub2,
    findSpanLinear_unique p (fnOf U) Q.length ub hQ.pn hQ.mono hub1 hub2 k hkub hk2U, eqlo p hpk, ?_⟩
  rw [eqhi Q.length (by omega), hQlen]

/-- **C06, removable at all.**  See the module comment; the first component says that the curve at hand
    is the `r`-fold insertion into the reduced curve, the second is the result of A5.8 as coded. -/
theorem removable_knot (p d : ℕ) (V : List K) (Ph Q : List (List K)) (ub : K) (r t s k : ℕ) (tol2 : K)
    (hwf : CurveWF p d V Ph) (hact : AllActive p Ph.length (fnOf V))
    (hQ : CurveWF p d (knotRemovalKv V (k + r) r) Q)
    (hrun : ∀ x, k - s < x → x ≤ k + r → fnOf V x = ub)
    (hs : fnOf V (k - s) < ub) (hk2 : ub < fnOf V (k + r + 1))
    (ht1 : 1 ≤ t) (htr : t ≤ r) (hrs : r + s ≤ p) (hpk : p ≤ k) (hkn : k + r < Ph.length) (htol : 0 ≤ tol2)
    (hsame : ∀ u, fnOf V p ≤ u → u < fnOf V Ph.length → ∀ j,
      (curvePoint p (fnOf (knotRemovalKv V (k + r) r)) Q u).getD j 0 = (curvePoint p (fnOf V) Ph u).getD j 0) :
    Ph = knotInsertion p (fnOf (knotRemovalKv V (k + r) r)) Q ub r s k ∧
    knotRemoval p (fnOf V) Ph ub t (s + r) (k + r) tol2
      = knotInsertion p (fnOf (knotRemovalKv V (k + r) r)) Q ub (r - t) s k := by
  have hr1 : 1 ≤ r := by omega
  obtain ⟨hV, hQlen, hk1U, hk2U, hsU, hmultU, hub1, hub2, hspan, hlo, hhi⟩ :=
    removable_facts p d V Ph Q ub r s k hwf hQ hrun hs hk2 hr1 hpk hkn
  generalize hU : knotRemovalKv V (k + r) r = U at *
  -- C04: the r-fold insertion into Q is a net over V with the points of Q
  have hins : ∀ u, fnOf V p ≤ u → u < fnOf V Ph.length → ∀ j,
      (curvePoint p (fnOf V) (knotInsertion p (fnOf U) Q ub r s k) u).getD j 0
        = (curvePoint p (fnOf U) Q u).getD j 0 := by
    intro u h1 h2 j
    have := knotInsertion_preserves_curve p U Q ub u r s d j hQ.net hQ.mono hQ.len hQ.pn hub1 hub2
      (by rw [hspan]; exact hmultU) hr1 hrs (by rw [hlo]; exact h1) (by rw [hhi]; exact le_of_lt h2) hQ.last
    rw [hspan, hV] at this
    exact this
  -- uniqueness: the curve at hand is that net
  have hPh : Ph = knotInsertion p (fnOf U) Q ub r s k :=
    curve_net_unique p d V Ph _ hwf (by rw [knotInsertion_length]; omega)
      (knotInsertion_netOk p (fnOf U) Q ub r s k d hQ.net hpk (by omega) hrs (by omega)) hact
      (fun u h1 h2 j => by rw [hins u h1 h2 j, hsame u h1 h2 j])
  refine ⟨hPh, ?_⟩
  have := RemInv.remove_t_of_r p U Q ub r t s k d tol2 hQ.net hQ.mono hk1U hk2U hsU ht1 htr hrs hpk (by omega) htol
  rw [hV, ← hPh] at this
  exact this

/-- … and the curve after the removal (knot vector from `knot_removal_kv`, net from `knot_removal`) has, at
    EVERY parameter of the closed domain, the point of the reduced curve `Q` (which, by hypothesis, has the
    points of the curve at hand on the half-open domain). -/
theorem removable_knot_points (p d : ℕ) (V : List K) (Ph Q : List (List K)) (ub : K) (r t s k : ℕ) (tol2 : K)
    (hwf : CurveWF p d V Ph) (hact : AllActive p Ph.length (fnOf V))
    (hQ : CurveWF p d (knotRemovalKv V (k + r) r) Q)
    (hrun : ∀ x, k - s < x → x ≤ k + r → fnOf V x = ub)
    (hs : fnOf V (k - s) < ub) (hk2 : ub < fnOf V (k + r + 1))
    (ht1 : 1 ≤ t) (htr : t ≤ r) (hrs : r + s ≤ p) (hpk : p ≤ k) (hkn : k + r < Ph.length) (htol : 0 ≤ tol2)
    (hsame : ∀ u, fnOf V p ≤ u → u < fnOf V Ph.length → ∀ j,
      (curvePoint p (fnOf (knotRemovalKv V (k + r) r)) Q u).getD j 0 = (curvePoint p (fnOf V) Ph u).getD j 0)
    (u : K) (hlou : fnOf V p ≤ u) (hhiu : u ≤ fnOf V Ph.length) (j : ℕ) :
    (curvePoint p (fnOf (knotRemovalKv V (k + r) t)) (knotRemoval p (fnOf V) Ph ub t (s + r) (k + r) tol2) u).getD j 0
      = (curvePoint p (fnOf (knotRemovalKv V (k + r) r)) Q u).getD j 0 := by
  have hr1 : 1 ≤ r := by omega
  rw [(removable_knot p d V Ph Q ub r t s k tol2 hwf hact hQ hrun hs hk2 ht1 htr hrs hpk hkn htol hsame).2]
  obtain ⟨hV, hQlen, hk1U, hk2U, hsU, hmultU, hub1, hub2, hspan, hlo, hhi⟩ :=
    removable_facts p d V Ph Q ub r s k hwf hQ hrun hs hk2 hr1 hpk hkn
  have hkv := RemInv.removeKv_t_of_r (knotRemovalKv V (k + r) r) ub k r t (by omega) htr
  rw [hV] at hkv
  rw [hkv]
  generalize hU : knotRemovalKv V (k + r) r = U at *
  by_cases h0 : r - t = 0
  · rw [h0, RemInv.knotInsertion_zero p _ Q ub s k hpk, RemInv.knotInsertionKv_zero]
  · have := knotInsertion_preserves_curve p U Q ub u (r - t) s d j hQ.net hQ.mono hQ.len hQ.pn hub1 hub2
      (by rw [hspan]; exact hmultU) (by omega) (by omega) (by rw [hlo]; exact hlou) (by rw [hhi]; exact hhiu) hQ.last
    rw [hspan] at this
    exact this

/-- **Object level (curves)**: `operations.remove_knot` on the curve at hand – multiplicity and span found by
    the library's own searches (`hfm`: the multiplicity found with tolerance `tol` is the true one, `s + r`) –
    returns the curve over `V` with `t` copies taken out whose net is the `(r - t)`-fold insertion into `Q`,
    and reports success; for either setting of the `check` flag. -/
theorem removable_knot_object (rat : Bool) (p d : ℕ) (V : List K) (Ph Q : List (List K)) (ub tol tol2 : K)
    (r t s k : ℕ) (check : Bool)
    (hwf : CurveWF p d V Ph) (hact : AllActive p Ph.length (fnOf V))
    (hQ : CurveWF p d (knotRemovalKv V (k + r) r) Q)
    (hrun : ∀ x, k - s < x → x ≤ k + r → fnOf V x = ub)
    (hs : fnOf V (k - s) < ub) (hk2 : ub < fnOf V (k + r + 1))
    (ht1 : 1 ≤ t) (htr : t ≤ r) (hrs : r + s ≤ p) (hpk : p ≤ k) (hkn : k + r < Ph.length) (htol : 0 ≤ tol2)
    (hsame : ∀ u, fnOf V p ≤ u → u < fnOf V Ph.length → ∀ j,
      (curvePoint p (fnOf (knotRemovalKv V (k + r) r)) Q u).getD j 0 = (curvePoint p (fnOf V) Ph u).getD j 0)
    (hfm : findMultiplicity ub V tol = s + r) :
    removeKnot (RemInv.curveShape rat p V Ph) [some ub] [t] tol tol2 check
      = (RemInv.curveShape rat p (knotRemovalKv V (k + r) t)
          (knotInsertion p (fnOf (knotRemovalKv V (k + r) r)) Q ub (r - t) s k), true) := by
  have hrem := (removable_knot p d V Ph Q ub r t s k tol2 hwf hact hQ hrun hs hk2 ht1 htr hrs hpk hkn htol hsame).2
  have hkr : fnOf V (k + r) = ub := hrun (k + r) (by omega) (le_refl _)
  have hspanV : findSpanLinear p (fnOf V) Ph.length ub = k + r :=
    findSpanLinear_unique p (fnOf V) Ph.length ub hwf.pn hwf.mono
      (by rw [← hkr]; exact hwf.mono (by omega)) (lt_of_lt_of_le hk2 (hwf.mono (by omega))) (k + r)
      (le_of_eq hkr) hk2
  have ht0 : t ≠ 0 := by omega
  have hdir : removeKnotDir (RemInv.curveShape rat p V Ph) 0 ub t tol tol2 check
      = some (RemInv.curveShape rat p (knotRemovalKv V (k + r) t)
          (knotInsertion p (fnOf (knotRemovalKv V (k + r) r)) Q ub (r - t) s k)) := by
    unfold removeKnotDir RemInv.curveShape
    simp only [Shape.deg, Shape.kv, Shape.size, Shape.mapDir, Shape.pdim, List.getD_cons_zero, List.length_cons,
      List.length_nil, List.set_cons_zero, if_true, Nat.zero_add]
    rw [if_neg (by rw [hfm]; simp; omega)]
    rw [hfm, hspanV, hrem]
  have hpd : (RemInv.curveShape rat p V Ph).pdim = 1 := rfl
  unfold removeKnot
  rw [hpd]
  simp only [List.range_one, List.foldl_cons, List.foldl_nil, List.getD_cons_zero, ht0, if_false, hdir,
    Bool.true_eq_false]

/-- **C05 / C04: a net over the refined knot vector with the points of the original curve IS the fold of
    single insertions** (justification of the specification-level model of `knot_refinement`: any
    algorithm that returns a control net of the right size and dimension over the refined knot vector and does
    not change the curve returns exactly what the fold of `insertOne` returns). -/
theorem refine_fold_unique (p d : ℕ) (tol : K) (X : List K) (st : List K × List (List K))
    (hwf : CurveWF p d st.1 st.2) (hok : RefineOk p tol st X) (R : List (List K)) (hR : NetOk d R)
    (hlen : R.length = (X.foldl (insertOne p tol) st).2.length)
    (hact : AllActive p (X.foldl (insertOne p tol) st).2.length (fnOf (X.foldl (insertOne p tol) st).1))
    (hsame : ∀ u, fnOf st.1 p ≤ u → u < fnOf st.1 st.2.length → ∀ j,
      (curvePoint p (fnOf (X.foldl (insertOne p tol) st).1) R u).getD j 0 = (curvePoint p (fnOf st.1) st.2 u).getD j 0) :
    R = (X.foldl (insertOne p tol) st).2 := by
  obtain ⟨hwf', hp', hn'⟩ := refine_fold_wf p d tol X st hwf hok
  symm
  apply curve_net_unique p d _ _ R hwf' hlen hR hact
  intro u h1 h2 j
  rw [hp'] at h1; rw [hn'] at h2
  rw [hsame u h1 h2 j]
  exact refine_fold_preserves_curve p d tol X st hwf hok u h1 (le_of_lt h2) j

/-- the same for any admissible sequence of insertion requests (C04) -/
theorem insert_sequence_unique (p d : ℕ) (reqs : List (K × ℕ × ℕ)) (st : List K × List (List K))
    (hwf : CurveWF p d st.1 st.2) (hok : ReqsOk p st reqs) (R : List (List K)) (hR : NetOk d R)
    (hlen : R.length = (reqs.foldl (insStep p) st).2.length)
    (hact : AllActive p (reqs.foldl (insStep p) st).2.length (fnOf (reqs.foldl (insStep p) st).1))
    (hsame : ∀ u, fnOf st.1 p ≤ u → u < fnOf st.1 st.2.length → ∀ j,
      (curvePoint p (fnOf (reqs.foldl (insStep p) st).1) R u).getD j 0 = (curvePoint p (fnOf st.1) st.2 u).getD j 0) :
    R = (reqs.foldl (insStep p) st).2 := by
  obtain ⟨hwf', hp', hn'⟩ := insert_sequence_wf p d reqs st hwf hok
  symm
  apply curve_net_unique p d _ _ R hwf' hlen hR hact
  intro u h1 h2 j
  rw [hp'] at h1; rw [hn'] at h2
  rw [hsame u h1 h2 j]
  exact insert_sequence_preserves_curve p d reqs st hwf hok u h1 (le_of_lt h2) j

end Geomdl
