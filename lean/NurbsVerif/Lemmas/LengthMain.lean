import NurbsVerif.Lemmas.LengthCut
import NurbsVerif.Lemmas.LengthBlock

/-!
  C18, length bounds, part 4: **the polyline through curve points at increasing parameters is not
  longer than the control polygon.**

  Route: insert every sample parameter up to multiplicity `p` (admissible requests of the C04
  development; `refine_all`).  The curve is unchanged (`insert_sequence_preserves_curve`), the refined
  control polygon is not longer (`insert_sequence_polygon_le`), every sample is a vertex of the refined
  polygon (`curvePoint_of_block`), in order (`sampleIdx_lt`), and a polyline through a subsequence of
  the vertices is not longer than the polygon (`polyline_sublist_le`).
-/
namespace Geomdl
open Blossom
variable {K : Type} [Field K] [LinearOrder K] [IsStrictOrderedRing K]

/-- number of consecutive entries `V k, V (k-1), …` (down to index 1) equal to `u` -/
def multBelow (V : ℕ → K) (u : K) : ℕ → ℕ
  | 0 => 0
  | k + 1 => if V (k + 1) = u then multBelow V u k + 1 else 0

theorem multBelow_le (V : ℕ → K) (u : K) : ∀ k, multBelow V u k ≤ k
  | 0 => le_refl _
  | k + 1 => by
    unfold multBelow
    split
    · have := multBelow_le V u k; omega
    · omega

theorem multBelow_spec (V : ℕ → K) (u : K) : ∀ k x, k - multBelow V u k < x → x ≤ k → V x = u
  | 0 => by intro x h1 h2; simp [multBelow] at h1; omega
  | k + 1 => by
    intro x h1 h2
    unfold multBelow at h1
    split at h1
    · rename_i heq
      by_cases hx : x = k + 1
      · rw [hx]; exact heq
      · exact multBelow_spec V u k x (by omega) (by omega)
    · omega

/-! ### states reachable by admissible insertion sequences -/

theorem ReqsOk_append (p : ℕ) : ∀ (a b : List (K × ℕ × ℕ)) (st : List K × List (List K)),
    ReqsOk p st a → ReqsOk p (a.foldl (insStep p) st) b → ReqsOk p st (a ++ b)
  | [], b, st, _, hb => hb
  | q :: a, b, st, ha, hb => ⟨ha.1, ReqsOk_append p a b _ ha.2 hb⟩

/-- `st'` is obtained from `st` by an admissible sequence of knot insertions -/
def Reach (p : ℕ) (st st' : List K × List (List K)) : Prop :=
  ∃ reqs, ReqsOk p st reqs ∧ st' = reqs.foldl (insStep p) st

theorem Reach.refl (p : ℕ) (st : List K × List (List K)) : Reach p st st := ⟨[], trivial, rfl⟩

theorem Reach.trans {p : ℕ} {a b c : List K × List (List K)} (h1 : Reach p a b) (h2 : Reach p b c) : Reach p a c := by
  obtain ⟨r1, o1, rfl⟩ := h1
  obtain ⟨r2, o2, rfl⟩ := h2
  exact ⟨r1 ++ r2, ReqsOk_append p r1 r2 a o1 o2, by rw [List.foldl_append]⟩

theorem Reach.step {p : ℕ} {st : List K × List (List K)} {q : K × ℕ × ℕ} (h : ReqOk p st q) :
    Reach p st (insStep p st q) := ⟨[q], ⟨h, trivial⟩, rfl⟩

/-- blocks survive one admissible insertion -/
theorem insStep_block (p d : ℕ) (st : List K × List (List K)) (q : K × ℕ × ℕ) (h : CurveWF p d st.1 st.2)
    (hq : ReqOk p st q) (w : K) (hb : HasBlock p (fnOf st.1) w) : HasBlock p (fnOf (insStep p st q).1) w := by
  obtain ⟨hub1, hub2, _, _, _⟩ := hq
  obtain ⟨k1, k2, k3, k4⟩ := findSpanLinear_halfopen h.mono h.pn q.1 hub1 hub2
  have e : (insStep p st q).1 = knotInsertionKv st.1 q.1 (findSpanLinear p (fnOf st.1) st.2.length q.1) q.2.1 := rfl
  rw [e, fnOf_knotInsertionKv _ _ _ _ (by have := h.len; omega)]
  exact hb.insert _ _ _ k1 k2

/-- what every reachable state inherits: well-formedness, the domain ends, all blocks -/
theorem Reach.inherit {p d : ℕ} {st st' : List K × List (List K)} (hr : Reach p st st') (h : CurveWF p d st.1 st.2) :
    CurveWF p d st'.1 st'.2 ∧ fnOf st'.1 p = fnOf st.1 p ∧ fnOf st'.1 st'.2.length = fnOf st.1 st.2.length ∧
      ∀ w, HasBlock p (fnOf st.1) w → HasBlock p (fnOf st'.1) w := by
  obtain ⟨reqs, hok, rfl⟩ := hr
  induction reqs generalizing st with
  | nil => exact ⟨h, rfl, rfl, fun _ hw => hw⟩
  | cons q qs ih =>
    obtain ⟨hq, hqs⟩ := hok
    obtain ⟨hwf', hp', hn'⟩ := insStep_wf p d st q h hq
    obtain ⟨i1, i2, i3, i4⟩ := ih hwf' hqs
    simp only [List.foldl_cons]
    exact ⟨i1, by rw [i2, hp'], by rw [i3, hn'], fun w hw => i4 w (insStep_block p d st q h hq w hw)⟩

/-- one parameter of the closed domain (the right end only if it has a block already) can be given a
    block by an admissible insertion -/
theorem refine_one (p d : ℕ) (st : List K × List (List K)) (h : CurveWF p d st.1 st.2) (u : K)
    (hlo : fnOf st.1 p ≤ u) (hhi : u ≤ fnOf st.1 st.2.length)
    (hend : u = fnOf st.1 st.2.length → HasBlock p (fnOf st.1) u) :
    ∃ st', Reach p st st' ∧ HasBlock p (fnOf st'.1) u := by
  by_cases hu : u < fnOf st.1 st.2.length
  · obtain ⟨k1, k2, k3, k4⟩ := findSpanLinear_halfopen h.mono h.pn u hlo hu
    have hs := multBelow_spec (fnOf st.1) u (findSpanLinear p (fnOf st.1) st.2.length u)
    have hsk := multBelow_le (fnOf st.1) u (findSpanLinear p (fnOf st.1) st.2.length u)
    by_cases hps : p ≤ multBelow (fnOf st.1) u (findSpanLinear p (fnOf st.1) st.2.length u)
    · exact ⟨st, Reach.refl p st, HasBlock.of_mult p _ u _ _ hps k3 hs⟩
    · have hq : ReqOk p st (u, p - multBelow (fnOf st.1) u (findSpanLinear p (fnOf st.1) st.2.length u),
          multBelow (fnOf st.1) u (findSpanLinear p (fnOf st.1) st.2.length u)) :=
        ⟨hlo, hu, hs, by simp only []; omega, by simp only []; omega⟩
      refine ⟨_, Reach.step hq, ?_⟩
      have e : (insStep p st (u, p - multBelow (fnOf st.1) u (findSpanLinear p (fnOf st.1) st.2.length u),
          multBelow (fnOf st.1) u (findSpanLinear p (fnOf st.1) st.2.length u))).1
          = knotInsertionKv st.1 u (findSpanLinear p (fnOf st.1) st.2.length u)
              (p - multBelow (fnOf st.1) u (findSpanLinear p (fnOf st.1) st.2.length u)) := rfl
      rw [e, fnOf_knotInsertionKv _ _ _ _ (by have := h.len; omega)]
      exact HasBlock.create p _ u _ _ (by omega) hsk hs
  · exact ⟨st, Reach.refl p st, hend (le_antisymm hhi (not_lt.mp hu))⟩

/-- all parameters of a list can be given blocks by one admissible insertion sequence -/
theorem refine_all (p d : ℕ) : ∀ (us : List K) (st : List K × List (List K)), CurveWF p d st.1 st.2 →
    (∀ u ∈ us, fnOf st.1 p ≤ u ∧ u ≤ fnOf st.1 st.2.length ∧
      (u = fnOf st.1 st.2.length → HasBlock p (fnOf st.1) u)) →
    ∃ st', Reach p st st' ∧ ∀ u ∈ us, HasBlock p (fnOf st'.1) u := by
  intro us
  induction us with
  | nil => intro st _ _; exact ⟨st, Reach.refl p st, by simp⟩
  | cons u us ih =>
    intro st h hus
    obtain ⟨c1, c2, c3⟩ := hus u (by simp)
    obtain ⟨st1, r1, b1⟩ := refine_one p d st h u c1 c2 c3
    obtain ⟨w1, e1, e2, e3⟩ := r1.inherit h
    obtain ⟨st2, r2, b2⟩ := ih st1 w1 (by
      intro u' hu'
      obtain ⟨d1, d2, d3⟩ := hus u' (List.mem_cons_of_mem _ hu')
      rw [e1, e2]
      exact ⟨d1, d2, fun he => e3 u' (d3 he)⟩)
    refine ⟨st2, r1.trans r2, ?_⟩
    intro u' hu'
    rcases List.mem_cons.mp hu' with rfl | hu'
    · exact (r2.inherit w1).2.2.2 _ b1
    · exact b2 u' hu'

/-! ### the theorem -/

/-- **The polyline through the points of a curve at increasing parameters is not longer than the
    control polygon** (degree `≥ 1`, parameters in the closed domain; the right end of the domain may
    be among them if the curve is clamped there, i.e. ends at its last control point). -/
theorem curve_polyline_le_polygon {N : List K → K} {d : ℕ} (hN : IsSeminorm d N) (p : ℕ) (hp : 1 ≤ p)
    (Ul : List K) (P : List (List K)) (hC : CurveWF p d Ul P) (us : List K) (hsorted : us.Pairwise (· < ·))
    (hdom : ∀ u ∈ us, fnOf Ul p ≤ u ∧ u ≤ fnOf Ul P.length)
    (hend : fnOf Ul P.length ∈ us → ∀ i, P.length ≤ i → i < P.length + p → fnOf Ul i = fnOf Ul P.length) :
    polylineLength (distN N) (us.map (curvePoint p (fnOf Ul) P)) ≤ polylineLength (distN N) P := by
  obtain ⟨st', hr, hb⟩ := refine_all p d us (Ul, P) hC (by
    intro u hu
    refine ⟨(hdom u hu).1, (hdom u hu).2, ?_⟩
    intro he
    simp only [] at he
    refine ⟨P.length, fun a ha => ?_⟩
    rw [he]
    exact hend (he ▸ hu) _ (by omega) (by omega))
  obtain ⟨hwf, e1, e2, _⟩ := hr.inherit hC
  simp only [] at e1 e2
  have hlen : polylineLength (distN N) st'.2 ≤ polylineLength (distN N) P := by
    obtain ⟨reqs, hok, rfl⟩ := hr
    exact insert_sequence_polygon_le hN p reqs (Ul, P) hC hok
  -- the samples are vertices of the refined polygon
  have hpts : us.map (curvePoint p (fnOf Ul) P)
      = (us.map (sampleIdx p (fnOf st'.1) st'.2.length)).map (fun i => ptsGet st'.2 (i - 0)) := by
    rw [List.map_map]
    apply List.map_congr_left
    intro u hu
    obtain ⟨d1, d2⟩ := hdom u hu
    have hsame : curvePoint p (fnOf Ul) P u = curvePoint p (fnOf st'.1) st'.2 u := by
      apply vec_ext_getD
      · rw [curvePoint_length p _ P u d hC.pn hC.net, curvePoint_length p _ st'.2 u d hwf.pn hwf.net]
      · intro j _
        obtain ⟨reqs, hok, rfl⟩ := hr
        exact (insert_sequence_preserves_curve p d reqs (Ul, P) hC hok u d1 d2 j).symm
    rw [hsame, Function.comp, Nat.sub_zero]
    exact (curvePoint_of_block p d st'.1 st'.2 hwf u (by rw [e1]; exact d1) (by rw [e2]; exact d2) (hb u hu)).1
  rw [hpts]
  refine le_trans (polyline_sublist_le hN (map_ptsGet_sublist st'.2 0 _ ?_ ?_) hwf.net) hlen
  · rw [List.pairwise_map]
    refine hsorted.imp_of_mem ?_
    intro a b ha hb' hab
    exact sampleIdx_lt p hp _ _ hwf.mono hwf.pn a b (by rw [e1]; exact (hdom a ha).1) hab
      (by rw [e2]; exact (hdom b hb').2) (hb b hb')
  · intro i hi
    obtain ⟨u, hu, rfl⟩ := List.mem_map.mp hi
    obtain ⟨d1, d2⟩ := hdom u hu
    have := (curvePoint_of_block p d st'.1 st'.2 hwf u (by rw [e1]; exact d1) (by rw [e2]; exact d2) (hb u hu)).2
    omega

end Geomdl
