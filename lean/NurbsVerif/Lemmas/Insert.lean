import NurbsVerif.Lemmas.Blossom

namespace Blossom
variable {K : Type} [Field K]

/-- knots after inserting `ub` `r` times behind position `k` -/
def Uh (k r : ℕ) (ub : K) (U : ℕ → K) (i : ℕ) : K :=
  if i ≤ k then U i else if i ≤ k + r then ub else U (i - r)

/-- `j` de Boor levels with the inserted parameter -/
def cj (U : ℕ → K) (p : ℕ) (ub : K) (P : ℕ → K) (j : ℕ) : ℕ → K :=
  polar U p (List.replicate j ub) P

def jcount (k r p i : ℕ) : ℕ := min (i+p) (k+r) - max i k
def mold (k r i : ℕ) : ℕ := if i < k then i else if i < k + r then k else i - r

theorem win_getElem (t : ℕ → K) (i n a : ℕ) (h : a < (win t i n).length) :
    (win t i n)[a] = t (i + 1 + a) := by
  simp [win]

theorem win_append (t : ℕ → K) (i a b : ℕ) : win t i a ++ win t (i+a) b = win t i (a+b) := by
  apply List.ext_getElem
  · simp [win_length]
  · intro n h1 h2
    rw [List.getElem_append]
    split
    · rename_i h; rw [win_getElem, win_getElem]
    · rename_i h
      rw [win_getElem, win_getElem]
      simp only [win_length] at h ⊢
      congr 1; omega

/-- polar form of a mixed window: `j` copies of `ub` and `p-j` consecutive old knots -/
theorem polar_mixed (U : ℕ → K) (κ : ℕ) (hsep : Sep U κ) (p j m : ℕ) (ub : K) (P : ℕ → K)
    (hj : j ≤ p) (hpκ : p ≤ κ) (h1 : κ + j ≤ m + p) (h2 : m ≤ κ) :
    polar U p (List.replicate j ub ++ win U m (p - j)) P κ = cj U p ub P j m := by
  rw [polar_append]
  simp only [List.length_replicate]
  exact polar_win U κ hsep (p - j) _ m (by omega) (by omega) h2

theorem win_congr (t t' : ℕ → K) (i i' n : ℕ) (h : ∀ a, a < n → t (i + 1 + a) = t' (i' + 1 + a)) :
    win t i n = win t' i' n := by
  unfold win
  apply List.map_congr_left
  intro a ha
  exact h a (List.mem_range.mp ha)

theorem win_const (t : ℕ → K) (i n : ℕ) (c : K) (h : ∀ a, a < n → t (i + 1 + a) = c) :
    win t i n = List.replicate n c := by
  apply List.ext_getElem
  · simp [win_length]
  · intro a h1 h2
    rw [win_getElem, List.getElem_replicate]
    simp only [win_length] at h1
    exact h a h1

/-- window decomposition (positional) -/
theorem win_Uh_perm (U : ℕ → K) (k r p i : ℕ) (ub : K) (hr : r ≤ p) :
    (win (Uh k r ub U) i p).Perm
      (List.replicate (jcount k r p i) ub ++ win U (mold k r i) (p - jcount k r p i)) := by
  unfold jcount mold
  rcases Nat.lt_or_ge i k with hik | hik
  · -- i < k
    rw [if_pos hik]
    rcases Nat.le_total (i + p) k with h1 | h1
    · -- all old
      have hj : min (i+p) (k+r) - max i k = 0 := by omega
      rw [hj]; simp only [List.replicate_zero, List.nil_append, Nat.sub_zero]
      apply List.Perm.of_eq
      apply win_congr
      intro a ha
      unfold Uh; rw [if_pos (by omega)]
    · rcases Nat.le_total (i + p) (k + r) with h2 | h2
      · -- old then new copies
        have hj : min (i+p) (k+r) - max i k = i + p - k := by omega
        rw [hj]
        have e : win (Uh k r ub U) i p = win U i (k - i) ++ List.replicate (i + p - k) ub := by
          have hs := win_append (Uh k r ub U) i (k - i) (i + p - k)
          rw [show k - i + (i + p - k) = p by omega] at hs
          rw [← hs]
          congr 1
          · apply win_congr; intro a ha; unfold Uh; rw [if_pos (by omega)]
          · apply win_const; intro a ha; unfold Uh
            rw [if_neg (by omega), if_pos (by omega)]
        rw [e, show p - (i + p - k) = k - i by omega]
        exact List.perm_append_comm
      · -- old, r copies, old
        have hj : min (i+p) (k+r) - max i k = r := by omega
        rw [hj]
        have e : win (Uh k r ub U) i p
            = win U i (k - i) ++ (List.replicate r ub ++ win U k (i + p - k - r)) := by
          have hs1 := win_append (Uh k r ub U) i (k - i) (p - (k - i))
          rw [show k - i + (p - (k - i)) = p by omega] at hs1
          have hs2 := win_append (Uh k r ub U) (i + (k - i)) r (i + p - k - r)
          rw [show r + (i + p - k - r) = p - (k - i) by omega] at hs2
          rw [← hs1, ← hs2]
          congr 1
          · apply win_congr; intro a ha; unfold Uh; rw [if_pos (by omega)]
          · congr 1
            · apply win_const; intro a ha; unfold Uh
              rw [if_neg (by omega), if_pos (by omega)]
            · apply win_congr; intro a ha; unfold Uh
              rw [if_neg (by omega), if_neg (by omega)]
              congr 1; omega
        have e2 : win U i (p - r) = win U i (k - i) ++ win U k (i + p - k - r) := by
          have := win_append U i (k - i) (i + p - k - r)
          rw [show i + (k - i) = k by omega, show k - i + (i + p - k - r) = p - r by omega] at this
          exact this.symm
        rw [e, e2, ← List.append_assoc, ← List.append_assoc]
        exact List.Perm.append_right _ List.perm_append_comm
  · rw [if_neg (by omega)]
    rcases Nat.lt_or_ge i (k + r) with h1 | h1
    · -- new copies then old
      rw [if_pos h1]
      have hj : min (i+p) (k+r) - max i k = min (i+p) (k+r) - i := by omega
      rw [hj]
      apply List.Perm.of_eq
      have hs := win_append (Uh k r ub U) i (min (i+p) (k+r) - i) (p - (min (i+p) (k+r) - i))
      rw [show min (i+p) (k+r) - i + (p - (min (i+p) (k+r) - i)) = p by omega] at hs
      rw [← hs]
      congr 1
      · apply win_const; intro a ha; unfold Uh
        rw [if_neg (by omega), if_pos (by omega)]
      · apply win_congr; intro a ha; unfold Uh
        rw [if_neg (by omega), if_neg (by omega)]
        congr 1; omega
    · rw [if_neg (by omega)]
      have hj : min (i+p) (k+r) - max i k = 0 := by omega
      rw [hj]; simp only [List.replicate_zero, List.nil_append, Nat.sub_zero]
      apply List.Perm.of_eq
      apply win_congr
      intro a ha
      unfold Uh; rw [if_neg (by omega), if_neg (by omega)]
      congr 1; omega

/-- the positional closed form of Boehm / A5.1 output -/
def Qpos (U : ℕ → K) (p k r : ℕ) (ub : K) (P : ℕ → K) (i : ℕ) : K :=
  cj U p ub P (jcount k r p i) (mold k r i)

/-- new control points are the polar values at the new consecutive knots (evaluation window κ) -/
theorem Qpos_is_polar (U : ℕ → K) (p k r κ κ' : ℕ) (ub : K) (P : ℕ → K)
    (hsep : Sep U κ) (hr : r ≤ p) (hpκ : p ≤ κ)
    (hcase : (κ' = κ ∧ κ ≤ k) ∨ (κ' = κ + r ∧ k ≤ κ))
    (i : ℕ) (hi1 : κ' ≤ i + p) (hi2 : i ≤ κ') :
    Qpos U p k r ub P i = polar U p (win (Uh k r ub U) i p) P κ := by
  have hperm := win_Uh_perm U k r p i ub hr
  have hjp : jcount k r p i ≤ p := by unfold jcount; omega
  rw [polar_perm U κ hsep _ _ hperm p P κ (by rw [win_length]; omega) (le_refl _)
        (by rw [win_length]) (by rw [win_length])]
  unfold Qpos
  symm
  apply polar_mixed U κ hsep p _ _ ub P hjp hpκ
  · unfold jcount mold
    rcases hcase with ⟨h1, h2⟩ | ⟨h1, h2⟩ <;> split_ifs <;> omega
  · unfold mold
    rcases hcase with ⟨h1, h2⟩ | ⟨h1, h2⟩ <;> split_ifs <;> omega

/-- knot insertion preserves the de Boor value at every parameter -/
theorem insert_preserves (U : ℕ → K) (p k r κ κ' : ℕ) (ub u : K) (P : ℕ → K)
    (hsep : Sep U κ) (hsep' : Sep (Uh k r ub U) κ') (hr : r ≤ p) (hpκ : p ≤ κ)
    (hcase : (κ' = κ ∧ κ ≤ k) ∨ (κ' = κ + r ∧ k ≤ κ)) :
    polar (Uh k r ub U) p (List.replicate p u) (Qpos U p k r ub P) κ'
      = polar U p (List.replicate p u) P κ := by
  apply refine_thm U (Uh k r ub U) p κ κ' P _ u hsep hsep' hpκ (by rcases hcase with ⟨h,_⟩|⟨h,_⟩ <;> omega)
  intro i h1 h2
  exact Qpos_is_polar U p k r κ κ' ub P hsep hr hpκ hcase i h1 h2
end Blossom
