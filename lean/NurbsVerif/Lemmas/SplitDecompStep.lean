import NurbsVerif.Lemmas.SplitDecomp

/-! One step of `operations.decompose_curve`, all facts the induction needs. -/
set_option linter.unusedSectionVars false
namespace Geomdl
open Blossom
variable {K : Type} [Field K] [LinearOrder K] [IsStrictOrderedRing K]

/-- normalised knots of the remainder in terms of the original knots: index shift by the multiplicity
    `s` of the first interior knot, affine map of the domain -/
theorem remainder_knots (p d : ℕ) (U : List K) (P : List (List K)) (tol : K)
    (h : DecompWF p d U P tol) (hn : p + 1 < P.length) (i : ℕ) (hi : p ≤ i) :
    fnOf (knotNormalize (rightKv p (splitRefined p U P (fnOf U (p + 1)) tol).1 (fnOf U (p + 1))
        (findSpanLinear p (fnOf U) P.length (fnOf U (p + 1)) + (p - findMultiplicity (fnOf U (p + 1)) U tol)))) i
      = (fnOf U (i + findMultiplicity (fnOf U (p + 1)) U tol) - fnOf U (p + 1))
          / (fnOf U P.length - fnOf U (p + 1)) := by
  obtain ⟨hlo, hhi, hmx, hks, hs1⟩ := decomp_facts p d U P tol h hn
  have hcut := splitRefined_cut p d U P (fnOf U (p + 1)) tol h.cl.wf h.cl.hp h.cl.c0 h.cl.c1 hlo hhi hmx
  obtain ⟨hW, hN, _, _⟩ := splitRefined_spec p d U P (fnOf U (p + 1)) tol h.cl.wf hlo hhi hmx
  obtain ⟨k1, k2, k3, _⟩ := findSpanLinear_spec p (fnOf U) P.length (fnOf U (p + 1)) h.cl.wf.pn h.cl.wf.mono (le_of_lt hlo)
  have hr := right_knots p d U P (fnOf U (p + 1)) tol h.cl hlo hhi hmx
  obtain ⟨hhead, hlast⟩ := hcut.rightRange
  have hsp := hmx.le
  set ub := fnOf U (p + 1) with hub
  set k := findSpanLinear p (fnOf U) P.length ub with hk
  set s := findMultiplicity ub U tol with hs
  set st := splitRefined p U P ub tol with hst
  have hWN : fnOf st.1 st.2.length = fnOf U P.length := by
    rw [hW, hN]; unfold Uh
    rw [if_neg (by omega), if_neg (by omega)]; congr 1; omega
  rw [fnOf_knotNormalize' _ _ (rightKv_ne _ _ _ _), hhead, hlast, hWN]
  congr 2
  rcases Nat.eq_or_lt_of_le hi with e | e
  · rw [← e, fnOf_rightKv_le p _ ub _ p (le_refl _)]
    have : fnOf U (p + s) = fnOf U k := by rw [hks]
    rw [this]
    exact le_antisymm (by rw [hub]; exact h.cl.wf.mono (by omega)) k3
  · rw [hr i (by omega)]
    congr 1; omega

/-- sizes of the two pieces of a decomposition step -/
theorem step_sizes (p d : ℕ) (U : List K) (P : List (List K)) (tol : K)
    (h : DecompWF p d U P tol) (hn : p + 1 < P.length) :
    ((splitRefined p U P (fnOf U (p + 1)) tol).2.take
        (findSpanLinear p (fnOf U) P.length (fnOf U (p + 1)) + (p - findMultiplicity (fnOf U (p + 1)) U tol) - p + 1)).length
      = p + 1 ∧
    ((splitRefined p U P (fnOf U (p + 1)) tol).2.drop
        (findSpanLinear p (fnOf U) P.length (fnOf U (p + 1)) + (p - findMultiplicity (fnOf U (p + 1)) U tol) - p)).length
        + findMultiplicity (fnOf U (p + 1)) U tol = P.length := by
  obtain ⟨hlo, hhi, hmx, hks, hs1⟩ := decomp_facts p d U P tol h hn
  obtain ⟨_, hN, _, _⟩ := splitRefined_spec p d U P (fnOf U (p + 1)) tol h.cl.wf hlo hhi hmx
  have hsp := hmx.le
  obtain ⟨_, k2, _, _⟩ := findSpanLinear_spec p (fnOf U) P.length (fnOf U (p + 1)) h.cl.wf.pn h.cl.wf.mono (le_of_lt hlo)
  constructor
  · simp only [List.length_take, hN]; omega
  · simp only [List.length_drop, hN]; omega

/-- **the remainder of a decomposition step is again admissible** -/
theorem remainder_wf (p d : ℕ) (U : List K) (P : List (List K)) (tol : K)
    (h : DecompWF p d U P tol) (hn : p + 1 < P.length) :
    DecompWF p d
      (knotNormalize (rightKv p (splitRefined p U P (fnOf U (p + 1)) tol).1 (fnOf U (p + 1))
        (findSpanLinear p (fnOf U) P.length (fnOf U (p + 1)) + (p - findMultiplicity (fnOf U (p + 1)) U tol))))
      ((splitRefined p U P (fnOf U (p + 1)) tol).2.drop
        (findSpanLinear p (fnOf U) P.length (fnOf U (p + 1)) + (p - findMultiplicity (fnOf U (p + 1)) U tol) - p))
      tol := by
  obtain ⟨hlo, hhi, hmx, hks, hs1⟩ := decomp_facts p d U P tol h hn
  have hcut := splitRefined_cut p d U P (fnOf U (p + 1)) tol h.cl.wf h.cl.hp h.cl.c0 h.cl.c1 hlo hhi hmx
  have hkn := remainder_knots p d U P tol h hn
  obtain ⟨_, hszB⟩ := step_sizes p d U P tol h hn
  obtain ⟨lB, zB, oB⟩ := hcut.rightClamped
  obtain ⟨hhead, hlast⟩ := hcut.rightRange
  obtain ⟨hW, hN, _, _⟩ := splitRefined_spec p d U P (fnOf U (p + 1)) tol h.cl.wf hlo hhi hmx
  obtain ⟨k1, k2, k3, k4⟩ := findSpanLinear_spec p (fnOf U) P.length (fnOf U (p + 1)) h.cl.wf.pn h.cl.wf.mono (le_of_lt hlo)
  have hsp := hmx.le
  have hpos : 0 < fnOf U P.length - fnOf U (p + 1) := sub_pos.mpr hhi
  have hmem : fnOf U (p + 1) ∈ U := by
    rw [fnOf_getElem U (p + 1) (by have := h.cl.wf.len; omega)]; exact List.getElem_mem _
  set ub := fnOf U (p + 1) with hub
  set k := findSpanLinear p (fnOf U) P.length ub with hk
  set s := findMultiplicity ub U tol with hs
  set st := splitRefined p U P ub tol with hst
  have hWN : fnOf st.1 st.2.length = fnOf U P.length := by
    rw [hW, hN]; unfold Uh
    rw [if_neg (by omega), if_neg (by omega)]; congr 1; omega
  have hlenB : (st.2.drop (k + (p - s) - p)).length = st.2.length - (k + (p - s) - p) := by simp
  refine ⟨lB, ?_, ?_, h.tol0, ?_⟩
  · -- inner knots repeated at most `p` times
    intro i hi1 hi2
    rw [hkn (i + p) (by omega)]
    by_cases c : p ≤ i
    · rw [hkn i c, div_lt_div_iff_of_pos_right hpos, sub_lt_sub_iff_right]
      have := h.mul (i + s) (by omega) (by omega)
      rw [show i + s + p = i + p + s by omega] at this
      exact this
    · rw [zB i (by omega)]
      apply div_pos _ hpos
      rw [sub_pos]
      have hk2 : ub < fnOf U (k + 1) := by
        rcases k4 with h' | h'
        · exact h'
        · rw [h']; exact hhi
      exact lt_of_lt_of_le hk2 (h.cl.wf.mono (by omega))
  · rw [hlenB, oB _ (le_refl _), zB p (le_refl _)]; norm_num
  · -- separation survives the normalisation because the domain is not longer than 1
    intro x hx y hy hxy
    simp only [knotNormalize, List.mem_map] at hx hy
    obtain ⟨x', hx', rfl⟩ := hx
    obtain ⟨y', hy', rfl⟩ := hy
    rw [hhead, hlast, hWN] at hxy ⊢
    have inU : ∀ z, z ∈ rightKv p st.1 ub (k + (p - s)) → z ∈ U := by
      intro z hz
      simp only [rightKv, List.mem_append, List.mem_replicate] at hz
      rcases hz with hz | hz
      · rw [hz.2]; exact hmem
      · rcases mem_splitRefined p U P ub tol z (List.mem_of_mem_drop hz) with h' | h'
        · exact h'
        · rw [h']; exact hmem
    have hd : |x' - y'| ≤ tol := by
      have e : (x' - ub) / (fnOf U P.length - ub) - (y' - ub) / (fnOf U P.length - ub)
          = (x' - y') / (fnOf U P.length - ub) := by ring
      rw [e, abs_div, abs_of_pos hpos, div_le_iff₀ hpos] at hxy
      have h1 : fnOf U P.length - ub ≤ 1 := by
        have := h.unit
        have : fnOf U p ≤ ub := le_of_lt hlo
        linarith
      have := mul_le_mul_of_nonneg_left h1 h.tol0
      linarith
    rw [h.sep x' (inU x' hx') y' (inU y' hy') hd]

/-- **intervals and break points of the remainder**: the first interval is cut off, the others are
    the remainder's, shifted; the break points map affinely -/
theorem step_starts (p d : ℕ) (U : List K) (P : List (List K)) (tol : K)
    (h : DecompWF p d U P tol) (hn : p + 1 < P.length) :
    spanStarts p (fnOf U) P.length
      = p :: (spanStarts p
          (fnOf (knotNormalize (rightKv p (splitRefined p U P (fnOf U (p + 1)) tol).1 (fnOf U (p + 1))
            (findSpanLinear p (fnOf U) P.length (fnOf U (p + 1)) + (p - findMultiplicity (fnOf U (p + 1)) U tol)))))
          ((splitRefined p U P (fnOf U (p + 1)) tol).2.drop
            (findSpanLinear p (fnOf U) P.length (fnOf U (p + 1)) + (p - findMultiplicity (fnOf U (p + 1)) U tol) - p)).length).map
            (· + findMultiplicity (fnOf U (p + 1)) U tol) ∧
    breaks p (fnOf U) P.length
      = fnOf U p :: (breaks p
          (fnOf (knotNormalize (rightKv p (splitRefined p U P (fnOf U (p + 1)) tol).1 (fnOf U (p + 1))
            (findSpanLinear p (fnOf U) P.length (fnOf U (p + 1)) + (p - findMultiplicity (fnOf U (p + 1)) U tol)))))
          ((splitRefined p U P (fnOf U (p + 1)) tol).2.drop
            (findSpanLinear p (fnOf U) P.length (fnOf U (p + 1)) + (p - findMultiplicity (fnOf U (p + 1)) U tol) - p)).length).map
            (fun x => fnOf U (p + 1) + x * (fnOf U P.length - fnOf U (p + 1))) := by
  obtain ⟨hlo, hhi, hmx, hks, hs1⟩ := decomp_facts p d U P tol h hn
  have hcut := splitRefined_cut p d U P (fnOf U (p + 1)) tol h.cl.wf h.cl.hp h.cl.c0 h.cl.c1 hlo hhi hmx
  have hkn := remainder_knots p d U P tol h hn
  obtain ⟨_, hszB⟩ := step_sizes p d U P tol h hn
  obtain ⟨_, _, oB⟩ := hcut.rightClamped
  obtain ⟨k1, k2, k3, k4⟩ := findSpanLinear_spec p (fnOf U) P.length (fnOf U (p + 1)) h.cl.wf.pn h.cl.wf.mono (le_of_lt hlo)
  have hsp := hmx.le
  have hpos : 0 < fnOf U P.length - fnOf U (p + 1) := sub_pos.mpr hhi
  set ub := fnOf U (p + 1) with hub
  set k := findSpanLinear p (fnOf U) P.length ub with hk
  set s := findMultiplicity ub U tol with hs
  set st := splitRefined p U P ub tol with hst
  set UB := knotNormalize (rightKv p st.1 ub (k + (p - s))) with hUB
  set PB := st.2.drop (k + (p - s) - p) with hPB
  have hlenB : PB.length = st.2.length - (k + (p - s) - p) := by simp [hPB]
  have hstarts : spanStarts p (fnOf U) P.length = p :: (spanStarts p (fnOf UB) PB.length).map (· + s) := by
    rw [spanStarts_split p k P.length (fnOf U) k1 (by omega)]
    rw [spanStarts_run p k (fnOf U) (by omega) hlo (by
      intro i hi1 hi2
      rw [hmx.eq i (by omega) (by omega), hmx.eq (i + 1) (by omega) (by omega)]
      exact lt_irrefl _)]
    have e : spanStarts k (fnOf U) P.length = spanStarts (p + s) (fnOf U) (PB.length + s) := by
      rw [hks, hszB]
    rw [e, spanStarts_shift p s PB.length (fnOf UB) (fnOf U) (by
      intro i hi
      rw [hkn i hi, hkn (i + 1) (by omega), div_lt_div_iff_of_pos_right hpos, sub_lt_sub_iff_right,
          show i + 1 + s = i + s + 1 by omega])]
    rfl
  refine ⟨hstarts, ?_⟩
  unfold breaks
  rw [hstarts]
  simp only [List.map_cons, List.map_append, List.map_map, List.cons_append, List.map_nil]
  congr 2
  · apply List.map_congr_left
    intro i hi
    rw [mem_spanStarts] at hi
    simp only [Function.comp]
    rw [hkn i hi.1]
    field_simp
    ring
  · rw [oB _ (by rw [hlenB])]
    ring_nf

end Geomdl
