import NurbsVerif.Lemmas.Insert

/-! The refinement theorem for arbitrary polar arguments: if the new control points are the old polar
    values at consecutive new knots, then the WHOLE polar form (blossom) of the span is unchanged – not
    only its diagonal.  Hence polar values survive any sequence of knot insertions. -/
namespace Blossom
variable {K : Type} [Field K]

theorem refine_levels_gen (U V : ℕ → K) (p k k' : ℕ) (P Q : ℕ → K)
    (hU : Sep U k) (hV : Sep V k') (hpk : p ≤ k) (hpk' : p ≤ k')
    (hQ : ∀ i, k' ≤ i + p → i ≤ k' → Q i = polar U p (win V i p) P k) :
    ∀ r, r ≤ p → ∀ xs : List K, xs.length = r → ∀ i, k' + r ≤ i + p → i ≤ k' →
      polar V p xs Q i = polar U p (win V i (p - r) ++ xs) P k := by
  intro r
  induction r with
  | zero =>
    intro _ xs hxs i h1 h2
    have : xs = [] := List.length_eq_zero_iff.mp hxs
    subst this
    simp only [polar, List.append_nil, Nat.sub_zero]
    exact hQ i (by omega) h2
  | succ r ih =>
    intro hr xs hxs i h1 h2
    have hr' : r ≤ p := by omega
    obtain ⟨ys, u, rfl⟩ : ∃ ys u, xs = ys ++ [u] := by
      rcases List.eq_nil_or_concat xs with h | ⟨L, b, h⟩
      · rw [h] at hxs; simp at hxs
      · exact ⟨L, b, by rw [h, List.concat_eq_append]⟩
    have hys : ys.length = r := by simp at hxs; exact hxs
    rw [polar_append]
    simp only [polar, hys]
    have hi1 : 1 ≤ i := by omega
    have e1 := ih hr' ys hys (i-1) (by omega) (by omega)
    have e2 := ih hr' ys hys i (by omega) h2
    unfold dbStep
    rw [e1, e2]
    obtain ⟨m, hm⟩ : ∃ m, p - r = m + 1 := ⟨p - r - 1, by omega⟩
    have hm' : p - (r+1) = m := by omega
    rw [hm, hm']
    have w1 : win V (i-1) (m+1) = V i :: win V i m := by
      rw [win_succ_head]; congr 2 <;> omega
    rw [w1]
    set M := win V i m ++ ys with hM
    have hlenM : M.length = p - 1 := by
      simp [hM, win_length, hys]; omega
    have permU : ∀ as bs : List K, as.Perm bs → as.length = p →
        polar U p as P k = polar U p bs P k := by
      intro as bs h hl
      exact polar_perm U k hU as bs h p P k (by omega) (le_refl _) (by omega) (by omega)
    have b1 : polar U p (win V i (m+1) ++ ys) P k
        = polar U p (V (i+1+m) :: M) P k := by
      apply permU
      · rw [win_succ_last, hM]
        simp only [List.append_assoc, List.singleton_append]
        exact List.perm_middle
      · simp [win_length, hys]; omega
    have b0 : polar U p ((V i :: win V i m) ++ ys) P k
        = polar U p (V i :: M) P k := by simp [hM]
    have b2 : polar U p (win V i m ++ (ys ++ [u])) P k
        = polar U p (u :: M) P k := by
      apply permU
      · rw [hM, ← List.append_assoc]
        exact List.perm_append_singleton _ _
      · simp [win_length, hys]; omega
    have hden : V (i+1+m) - V i ≠ 0 := hV i (i+1+m) h2 (by omega)
    have key := polar_head_affine U p u (V i) (V (i+1+m)) hden M P k
    have eidx : i + (m + 1) = i + 1 + m := by omega
    rw [b0, b1, eidx]
    rw [b2, key]
    field_simp

/-- **the blossom of a span is unchanged by refinement** (all `p` arguments arbitrary) -/
theorem refine_thm_gen (U V : ℕ → K) (p k k' : ℕ) (P Q : ℕ → K)
    (hU : Sep U k) (hV : Sep V k') (hpk : p ≤ k) (hpk' : p ≤ k')
    (hQ : ∀ i, k' ≤ i + p → i ≤ k' → Q i = polar U p (win V i p) P k)
    (xs : List K) (hxs : xs.length = p) :
    polar V p xs Q k' = polar U p xs P k := by
  have := refine_levels_gen U V p k k' P Q hU hV hpk hpk' hQ p (le_refl _) xs hxs k' (by omega) (le_refl _)
  simpa [win] using this

/-- one knot insertion (positional closed form `Qpos`) keeps the blossom of every span -/
theorem insert_preserves_polar (U : ℕ → K) (p k r κ κ' : ℕ) (ub : K) (P : ℕ → K)
    (hsep : Sep U κ) (hsep' : Sep (Uh k r ub U) κ') (hr : r ≤ p) (hpκ : p ≤ κ)
    (hcase : (κ' = κ ∧ κ ≤ k) ∨ (κ' = κ + r ∧ k ≤ κ)) (xs : List K) (hxs : xs.length = p) :
    polar (Uh k r ub U) p xs (Qpos U p k r ub P) κ' = polar U p xs P κ := by
  apply refine_thm_gen U (Uh k r ub U) p κ κ' P _ hsep hsep' hpκ (by rcases hcase with ⟨h,_⟩|⟨h,_⟩ <;> omega)
  · intro i h1 h2
    exact Qpos_is_polar U p k r κ κ' ub P hsep hr hpκ hcase i h1 h2
  · exact hxs

end Blossom
