import NurbsVerif.Lemmas.ExchangeList
import Mathlib.Order.Defs.LinearOrder

/-! Round trips of the exchange formats (C14): smesh, vmesh, txt (1-D, 2-D), csv, the 2-D file helpers and
the dict form behind JSON. -/
namespace Geomdl
namespace Exch

section
variable {K : Type} [Field K]

@[simp] theorem homNet_length (r : Bool) (net : List (List K)) : (homNet r net).length = net.length := by
  cases r <;> simp [homNet, combine_ones]

theorem weightsOk_homNet (r : Bool) (net : List (List K)) (h : r = true → WeightsOk net) : WeightsOk (homNet r net) := by
  cases r with
  | true => simpa [homNet] using h rfl
  | false =>
    simp only [homNet, combine_ones, Bool.false_eq_true, if_false]
    intro p hp
    obtain ⟨q, _, rfl⟩ := List.mem_map.mp hp
    simp

/-- the core of the mesh formats: flip to u-row order, `(x,y,z,w)`; read: flip back, `(xw,yw,zw,w)` -/
theorem mesh_roundtrip (pts : List (List K)) (su sv : Nat) (hl : pts.length = su * sv) (hw : WeightsOk pts) :
    (flipCtrlptsU ((flipCtrlpts pts su sv).map unweightPt) su sv).map weightPt = pts := by
  rw [flipCtrlptsU_map _ _ _ _ unweightPt_nil, flipU_flip pts su sv hl]
  exact map_weight_unweight pts hw

theorem slice_header {α : Type} (hd X Y : List α) (n : Nat) (hX : X.length = n) :
    slice (hd ++ X ++ Y) hd.length n = X := by
  unfold slice
  rw [List.append_assoc, List.drop_left', List.take_left' hX]
  rfl

end

section
variable {K : Type} [Field K] [LinearOrder K]

/-- what the smesh reader returns on a well-formed file -/
theorem smeshRead_file (pu pv su sv : Nat) (Uu Uv : List K) (M : List (List K)) (hM : M.length = su * sv)
    (hu : kvOk pu Uu su = true) (hv : kvOk pv Uv sv = true) :
    smeshRead ([Tok.nat 3] :: [Tok.nat pu, Tok.nat pv] :: [Tok.nat su, Tok.nat sv] :: Uu.map Tok.num :: Uv.map Tok.num
        :: (M.map (·.map Tok.num) ++ [[Tok.nat 1]]))
      = some { rational := true, degU := pu, degV := pv, sizeU := su, sizeV := sv,
               knotsU := knotNormalize Uu, knotsV := knotNormalize Uv, net := (flipCtrlptsU M su sv).map weightPt } := by
  have ht : List.take (su * sv) (M.map (·.map (Tok.num (K := K))) ++ [[Tok.nat 1]]) = M.map (·.map Tok.num) :=
    List.take_left' (by simp [hM])
  simp [smeshRead, natAt, Tok.nat?, slice, ht, hM, hu, hv]

/-- **smesh**: reading back what `export_smesh` wrote gives the surface as a rational surface with the same
    degrees, sizes, homogeneous net, and normalised knot vectors. -/
theorem smesh_roundtrip (s : Srf K) (hl : s.net.length = s.sizeU * s.sizeV)
    (hw : s.rational = true → WeightsOk s.net) (hd : dimOf s.rational s.net = 3)
    (hu : kvOk s.degU s.knotsU s.sizeU = true) (hv : kvOk s.degV s.knotsV s.sizeV = true) :
    smeshRead (smeshWrite s) = some s.asRational := by
  have hm := mesh_roundtrip (homNet s.rational s.net) s.sizeU s.sizeV (by simpa using hl) (weightsOk_homNet _ _ hw)
  have := smeshRead_file s.degU s.degV s.sizeU s.sizeV s.knotsU s.knotsV
    ((flipCtrlpts (homNet s.rational s.net) s.sizeU s.sizeV).map unweightPt) (by simp) hu hv
  rw [hm] at this
  unfold smeshWrite
  rw [hd]
  exact this

/-- what the vmesh reader (reading `nl sw` layers) returns on a well-formed file -/
theorem vmeshRead_file (nl : Nat → Nat) (pu pv pw su sv sw : Nat) (Uu Uv Uw : List K) (M : List (List K))
    (hM : M.length = su * sv * sw)
    (hu : kvOk pu Uu su = true) (hv : kvOk pv Uv sv = true) (hw : kvOk pw Uw sw = true) :
    vmeshReadWith nl ([Tok.nat 3] :: [Tok.nat pu, Tok.nat pv, Tok.nat pw] :: [Tok.nat su, Tok.nat sv, Tok.nat sw]
        :: Uu.map Tok.num :: Uv.map Tok.num :: Uw.map Tok.num :: (M.map (·.map Tok.num) ++ [[Tok.nat 1]]))
      = some { rational := true, degU := pu, degV := pv, degW := pw, sizeU := su, sizeV := sv, sizeW := sw,
               knotsU := knotNormalize Uu, knotsV := knotNormalize Uv, knotsW := knotNormalize Uw,
               net := (layers M (su * sv) (nl sw) (fun l => flipCtrlptsU l su sv)).map weightPt } := by
  have ht : List.take (su * sv * sw) (M.map (·.map (Tok.num (K := K))) ++ [[Tok.nat 1]]) = M.map (·.map Tok.num) :=
    List.take_left' (by simp [hM])
  simp [vmeshReadWith, natAt, Tok.nat?, slice, ht, hM, hu, hv, hw]

/-- **vmesh** (repaired reader): the same for volumes, for every size triple. -/
theorem vmesh_roundtrip (v : Vol K) (hl : v.net.length = v.sizeU * v.sizeV * v.sizeW)
    (hw : v.rational = true → WeightsOk v.net) (hd : dimOf v.rational v.net = 3)
    (hu : kvOk v.degU v.knotsU v.sizeU = true) (hv : kvOk v.degV v.knotsV v.sizeV = true)
    (hww : kvOk v.degW v.knotsW v.sizeW = true) :
    vmeshRead (vmeshWrite v) = some v.asRational := by
  have hlen : (layers (homNet v.rational v.net) (v.sizeU * v.sizeV) v.sizeW
      (fun l => flipCtrlpts l v.sizeU v.sizeV)).length = v.sizeU * v.sizeV * v.sizeW := by
    rw [layers_length _ _ _ _ (fun x _ => by simp) (by simp [hl, Nat.mul_comm]), Nat.mul_comm]
  have hm : (layers ((layers (homNet v.rational v.net) (v.sizeU * v.sizeV) v.sizeW
        (fun l => flipCtrlpts l v.sizeU v.sizeV)).map unweightPt) (v.sizeU * v.sizeV) v.sizeW
        (fun l => flipCtrlptsU l v.sizeU v.sizeV)).map weightPt = homNet v.rational v.net := by
    rw [layers_map _ (v.sizeU * v.sizeV) v.sizeW (fun l => flipCtrlptsU l v.sizeU v.sizeV)
      (fun l => flipCtrlptsU l v.sizeU v.sizeV) unweightPt (fun x => flipCtrlptsU_map x _ _ _ unweightPt_nil)]
    rw [layers_layers _ _ _ _ _ (fun x _ => by simp) (fun x hx => flipU_flip x _ _ hx)
      (by simp [hl, Nat.mul_comm])]
    exact map_weight_unweight _ (weightsOk_homNet _ _ hw)
  have := vmeshRead_file id v.degU v.degV v.degW v.sizeU v.sizeV v.sizeW v.knotsU v.knotsV v.knotsW
    ((layers (homNet v.rational v.net) (v.sizeU * v.sizeV) v.sizeW
      (fun l => flipCtrlpts l v.sizeU v.sizeV)).map unweightPt) (by simp [hlen]) hu hv hww
  simp only [id] at this
  rw [hm] at this
  unfold vmeshRead vmeshWrite
  rw [hd]
  exact this

end

/-! ### containers: one file per element, in container order -/
section
variable {K : Type} [Field K] [LinearOrder K]

theorem enumerate_map_snd {α : Type} (l : List α) : (enumerate l).map Prod.snd = l := by
  unfold enumerate
  split
  · apply List.ext_getElem?
    intro i
    simp only [List.getElem?_map, List.getElem?_zipWith, List.getElem?_range]
    by_cases h : i < l.length
    · simp [List.getElem?_range h, List.getElem?_eq_getElem h]
    · simp [List.getElem?_eq_none (Nat.le_of_not_lt h)]
  · simp [Function.comp_def]

theorem enumerate_length {α : Type} (l : List α) : (enumerate l).length = l.length := by
  rw [← List.length_map (f := Prod.snd), enumerate_map_snd]

/-- the suffixes are `1, 2, …, n` in container order when there is more than one element, none otherwise -/
theorem enumerate_map_fst {α : Type} (l : List α) :
    (enumerate l).map Prod.fst = if l.length > 1 then (List.range l.length).map (fun i => some (i + 1)) else l.map (fun _ => none) := by
  unfold enumerate
  split
  · apply List.ext_getElem?
    intro i
    simp only [List.getElem?_map, List.getElem?_zipWith, List.getElem?_range]
    by_cases h : i < l.length
    · simp [List.getElem?_range h, List.getElem?_eq_getElem h]
    · simp [List.getElem?_eq_none (Nat.le_of_not_lt h), List.getElem?_eq_none (show (List.range l.length).length ≤ i by simp; omega)]
  · simp [Function.comp_def]

theorem readAll_of {α β : Type} (l : List α) (w : α → File K) (r : File K → Option β) (g : α → β)
    (h : ∀ a ∈ l, r (w a) = some (g a)) :
    allSome ((enumerate (l.map w)).map (fun p => r p.2)) = some (l.map g) := by
  have : (enumerate (l.map w)).map (fun p => r p.2) = ((enumerate (l.map w)).map Prod.snd).map r := by
    rw [List.map_map]; rfl
  rw [this, enumerate_map_snd, List.map_map]
  exact allSome_map_of l _ g h

end

/-! ### text formats -/
section
variable {K : Type} [NatCast K]

theorem txt_roundtrip (net : List (List K)) : txtRead (txtWrite net) = some net := by
  simp [txtRead, txtWrite]

theorem csv_roundtrip (net : List (List K)) : csvRead (csvWrite net) = some net := by
  simp [csvRead, csvWrite, txt_roundtrip]

theorem allSome_txt2 (net : List (List K)) (su sv : Nat) :
    allSome ((txt2Write net su sv).map linesNums)
      = some ((List.range su).map (fun i => (List.range sv).map (fun j => net.getD (j + sv * i) []))) := by
  unfold txt2Write
  rw [List.map_map]
  apply allSome_map_of
  intro i _
  simp only [Function.comp_def]
  have : (List.range sv).map (fun j => (net.getD (j + sv * i) []).map Tok.num)
      = ((List.range sv).map (fun j => net.getD (j + sv * i) [])).map (·.map (Tok.num (K := K))) := by
    rw [List.map_map]; rfl
  rw [this, linesNums_map_num]

theorem flatten_rows (net : List (List K)) (su sv : Nat) (hl : net.length = su * sv) :
    ((List.range su).map (fun i => (List.range sv).map (fun j => net.getD (j + sv * i) []))).flatten = net := by
  have := tab_self net [] hl
  unfold tab at this
  rw [List.flatMap_def] at this
  conv_rhs => rw [← this]
  congr 2
  funext i
  congr 1
  funext j
  rw [Nat.add_comm, Nat.mul_comm]

/-- **txt 2-D**: the file has `size_u` lines of `size_v` points; reading returns the net in the library's order and both sizes -/
theorem txt2_roundtrip (net : List (List K)) (su sv : Nat) (hl : net.length = su * sv) (hu : 0 < su) :
    txt2Read (txt2Write net su sv) = some (net, su, sv) := by
  unfold txt2Read
  rw [allSome_txt2]
  simp only [flatten_rows net su sv hl, List.length_map, List.length_range]
  congr 3
  obtain ⟨k, rfl⟩ : ∃ k, su = k + 1 := ⟨su - 1, by omega⟩
  simp [List.range_succ]

end

/-! ### the dict form -/
section
variable {K : Type} [Field K] [LinearOrder K]

/-- admissible stored net: a rational shape has non-zero weights -/
def NetOk (rational : Bool) (net : List (List K)) : Prop := rational = true → WeightsOk net

theorem dict_crv (ov : Option K) (c : CrvX K) (h : NetOk c.g.rational c.g.net) :
    importCrv ov (exportCrv c) = c.asRational ov := by
  simp [importCrv, exportCrv, CrvX.asRational, Crv.asRational, recNet_rec _ _ h]

def Trim.Ok : Trim K → Prop
  | .spline c => NetOk c.g.rational c.g.net
  | .freeform _ => True
  | .container items _ => ∀ c ∈ items, NetOk c.g.rational c.g.net

theorem dict_trim (t : Trim K) (h : Trim.Ok t) : importTrim (exportTrim t) = t.asRational := by
  cases t with
  | spline c => simp [importTrim, exportTrim, Trim.asRational, dict_crv none c h]
  | freeform f => simp [importTrim, exportTrim, Trim.asRational, importFf, exportFf]
  | container items rev =>
    simp only [importTrim, exportTrim, Trim.asRational, List.map_map]
    congr 1
    apply List.map_congr_left
    intro c hc
    exact dict_crv none c (h c hc)

theorem dict_srf (ov : Option K) (s : SrfX K) (h : NetOk s.g.rational s.g.net) (ht : ∀ t ∈ s.trims, Trim.Ok t) :
    importSrf ov (exportSrf s) = s.asRational ov := by
  have htr : s.trims.map (importTrim ∘ exportTrim) = s.trims.map Trim.asRational :=
    List.map_congr_left (fun t hh => dict_trim t (ht t hh))
  unfold importSrf exportSrf SrfX.asRational Srf.asRational
  simp only [recNet_rec _ _ h]
  congr 1
  by_cases he : s.trims.isEmpty
  · have : s.trims = [] := List.isEmpty_iff.mp he
    simp [this]
  · simp [he, htr]

theorem dict_vol (ov : Option K) (v : VolX K) (h : NetOk v.g.rational v.g.net) :
    importVol ov (exportVol v) = v.asRational ov := by
  simp [importVol, exportVol, VolX.asRational, Vol.asRational, recNet_rec _ _ h]

def Shapes.Ok : Shapes K → Prop
  | .curves l => ∀ c ∈ l, NetOk c.g.rational c.g.net
  | .surfaces l => ∀ s ∈ l, NetOk s.g.rational s.g.net ∧ ∀ t ∈ s.trims, Trim.Ok t
  | .volumes l => ∀ v ∈ l, NetOk v.g.rational v.g.net

theorem dict_shapes (ov : Option K) (x : Shapes K) (h : Shapes.Ok x) :
    importShapes ov (exportShapes x) = x.asRational ov := by
  cases x with
  | curves l =>
    simp only [importShapes, exportShapes, Shapes.asRational, List.map_map]
    congr 1
    exact List.map_congr_left (fun c hc => dict_crv ov c (h c hc))
  | surfaces l =>
    simp only [importShapes, exportShapes, Shapes.asRational, List.map_map]
    congr 1
    exact List.map_congr_left (fun c hc => dict_srf ov c (h c hc).1 (h c hc).2)
  | volumes l =>
    simp only [importShapes, exportShapes, Shapes.asRational, List.map_map]
    congr 1
    exact List.map_congr_left (fun c hc => dict_vol ov c (h c hc))

end

end Exch
end Geomdl
