import NurbsVerif.Lemmas.SurfDeriv

/-! A concrete rational surface on which the hypotheses of the C02 surface theorems hold (used by the
    non-vacuity examples of Props/C02.lean): degree `(2, 1)`, knot vectors `[0,0,0,1,1,1]` and `[0,0,1,1]`,
    a `3 × 2` homogeneous net in dimension `3+1` with different weights. -/
namespace C02
open Geomdl Polynomial

def exU : ℕ → ℚ := fun i => if i ≤ 2 then 0 else 1
def exV : ℕ → ℚ := fun i => if i ≤ 1 then 0 else 1
def exP : List (List ℚ) := [[0,0,0,1],[0,1,1,1],[1,0,1,2],[1,1,0,1],[2,0,0,1],[2,1,3,1]]

theorem exU_mono : Monotone exU := by
  intro a b hab
  unfold exU
  by_cases ha : a ≤ 2 <;> by_cases hb : b ≤ 2 <;> simp [ha, hb] <;> omega
theorem exV_mono : Monotone exV := by
  intro a b hab
  unfold exV
  by_cases ha : a ≤ 1 <;> by_cases hb : b ≤ 1 <;> simp [ha, hb] <;> omega
theorem exP_ok : NetOk 4 exP := by
  intro pt hpt; simp [exP] at hpt; rcases hpt with h | h | h | h | h | h <;> simp [h]

/-- the weight function does not vanish at the parameter pair -/
theorem ex_weight : (surfSpanPoly 2 1 exU exV 2 exP 2 1 3).evalEval (1/3) (1/2) ≠ 0 := by
  rw [← surfacePointAt_eq_surfSpanPoly 2 1 exU exV 3 2 exP 2 1 (1/3) (1/2) 4 3 (by omega) (by omega)
    (by omega) (by omega) rfl exP_ok]
  decide +kernel

end C02
