import NurbsVerif.Lemmas.SplitStarts

/-! One step of `operations.decompose_curve`: splitting a well-formed clamped curve at its first
    interior knot gives a Bézier segment and a remainder that is again admissible. -/
set_option linter.unusedSectionVars false
namespace Geomdl
open Blossom
variable {K : Type} [Field K] [LinearOrder K] [IsStrictOrderedRing K]

/-- what the decomposition theorems assume of the input curve: well formed and clamped, no inner knot
    repeated more than `p` times, domain not longer than 1 (true after the library's normalisation),
    and any two knots equal or further than `tol` apart -/
structure DecompWF (p d : ℕ) (U : List K) (P : List (List K)) (tol : K) : Prop where
  cl : ClampedWF p d U P
  mul : ∀ i, 1 ≤ i → i < P.length → fnOf U i < fnOf U (i + p)
  unit : fnOf U P.length - fnOf U p ≤ 1
  tol0 : 0 ≤ tol
  sep : ∀ x ∈ U, ∀ y ∈ U, |x - y| ≤ tol → y = x

/-- the knot vector of a Bézier segment: `p+1` zeros, `p+1` ones -/
def bezKv (p : ℕ) : List K := List.replicate (p + 1) 0 ++ List.replicate (p + 1) 1

theorem kv_eq_bez (p : ℕ) (V : List K) (hlen : V.length = 2 * p + 2) (z : ∀ i, i ≤ p → fnOf V i = 0)
    (o : ∀ i, p + 1 ≤ i → fnOf V i = 1) : V = bezKv p := by
  apply List.ext_getElem
  · simp [bezKv]; omega
  · intro i h1 h2
    rw [← fnOf_getElem V i h1]
    simp only [bezKv, List.getElem_append, List.length_replicate, List.getElem_replicate]
    by_cases c : i ≤ p
    · rw [z i c, dif_pos (by omega)]
    · rw [o i (by omega), dif_neg (by omega)]

/-- every knot of the refined knot vector is an old knot or the inserted value -/
theorem mem_splitRefined (p : ℕ) (U : List K) (P : List (List K)) (ub tol x : K)
    (hx : x ∈ (splitRefined p U P ub tol).1) : x ∈ U ∨ x = ub := by
  unfold splitRefined at hx
  by_cases hr : p - findMultiplicity ub U tol = 0
  · rw [if_pos hr] at hx; exact Or.inl hx
  · rw [if_neg hr] at hx
    simp only [insStep, knotInsertionKv, List.mem_append, List.mem_replicate] at hx
    rcases hx with (h | h) | h
    · exact Or.inl (List.mem_of_mem_take h)
    · exact Or.inr h.2
    · exact Or.inl (List.mem_of_mem_drop h)

theorem DecompWF.start {p d : ℕ} {U : List K} {P : List (List K)} {tol : K} (h : DecompWF p d U P tol)
    (i : ℕ) (hi : i ≤ p) : fnOf U i = fnOf U p :=
  le_antisymm (h.cl.wf.mono hi) (by rw [← h.cl.c0]; exact h.cl.wf.mono (by omega))

theorem DecompWF.first {p d : ℕ} {U : List K} {P : List (List K)} {tol : K} (h : DecompWF p d U P tol) :
    fnOf U p < fnOf U (p + 1) := by
  have := h.mul 1 (le_refl _) (by have := h.cl.wf.pn; have := h.cl.hp; omega)
  rw [h.start 1 h.cl.hp, show 1 + p = p + 1 by omega] at this
  exact this

/-- knots of the (un-normalised) right piece in terms of the ORIGINAL knots -/
theorem right_knots (p d : ℕ) (U : List K) (P : List (List K)) (ub tol : K)
    (h : ClampedWF p d U P) (hlo : fnOf U p < ub) (hhi : ub < fnOf U P.length)
    (hmx : MultExact p (fnOf U) (findSpanLinear p (fnOf U) P.length ub) (findMultiplicity ub U tol) ub)
    (i : ℕ) (hi : p + 1 ≤ i) :
    fnOf (rightKv p (splitRefined p U P ub tol).1 ub
        (findSpanLinear p (fnOf U) P.length ub + (p - findMultiplicity ub U tol))) i
      = fnOf U (i + (findSpanLinear p (fnOf U) P.length ub - p)) := by
  have hcut := splitRefined_cut p d U P ub tol h.wf h.hp h.c0 h.c1 hlo hhi hmx
  obtain ⟨hW, hN, _, _⟩ := splitRefined_spec p d U P ub tol h.wf hlo hhi hmx
  obtain ⟨k1, k2, _, _⟩ := findSpanLinear_spec p (fnOf U) P.length ub h.wf.pn h.wf.mono (le_of_lt hlo)
  have hlen := hcut.len
  have hm := hcut.hm
  have hpm := hcut.hpm
  rw [fnOf_rightKv_gt p _ ub _ i (by omega) (by omega) hi, hW]
  unfold Uh
  rw [if_neg (by omega), if_neg (by omega)]
  congr 1
  have := hmx.le
  omega

/-- the first interior knot of an admissible curve: interior, exactly counted, run `p+1 … p+s` -/
theorem decomp_facts (p d : ℕ) (U : List K) (P : List (List K)) (tol : K)
    (h : DecompWF p d U P tol) (hn : p + 1 < P.length) :
    fnOf U p < fnOf U (p + 1) ∧ fnOf U (p + 1) < fnOf U P.length ∧
    MultExact p (fnOf U) (findSpanLinear p (fnOf U) P.length (fnOf U (p + 1)))
      (findMultiplicity (fnOf U (p + 1)) U tol) (fnOf U (p + 1)) ∧
    findSpanLinear p (fnOf U) P.length (fnOf U (p + 1)) = p + findMultiplicity (fnOf U (p + 1)) U tol ∧
    1 ≤ findMultiplicity (fnOf U (p + 1)) U tol := by
  have hlen := h.cl.wf.len
  have hlo := h.first
  have hhi : fnOf U (p + 1) < fnOf U P.length :=
    lt_of_le_of_lt (h.cl.wf.mono (by omega)) h.cl.wf.last
  have hmem : fnOf U (p + 1) ∈ U := by
    rw [fnOf_getElem U (p + 1) (by omega)]; exact List.getElem_mem _
  have hmx := multExact_of_sep p d U P (fnOf U (p + 1)) tol h.cl.wf h.cl.hp hlo hhi h.tol0
    (fun x hx hd => h.sep _ hmem x hx hd) h.mul
  obtain ⟨k1, k2, k3, k4⟩ := findSpanLinear_spec p (fnOf U) P.length (fnOf U (p + 1)) h.cl.wf.pn h.cl.wf.mono
    (le_of_lt hlo)
  have hcut := splitRefined_cut p d U P (fnOf U (p + 1)) tol h.cl.wf h.cl.hp h.cl.c0 h.cl.c1 hlo hhi hmx
  have hpm := hcut.hpm
  have hsp := hmx.le
  set k := findSpanLinear p (fnOf U) P.length (fnOf U (p + 1)) with hk
  set s := findMultiplicity (fnOf U (p + 1)) U tol with hs
  have hks : k - s ≤ p := by
    by_contra hc
    have h1 : fnOf U (p + 1) ≤ fnOf U (k - s) := h.cl.wf.mono (by omega)
    have h2 := hmx.lt
    linarith
  have hk1 : p + 1 ≤ k := by
    by_contra hc
    have hk2 : fnOf U (p + 1) < fnOf U (k + 1) := by
      rcases k4 with h' | h'
      · exact h'
      · rw [h']; exact hhi
    have : fnOf U (k + 1) ≤ fnOf U (p + 1) := h.cl.wf.mono (by omega)
    linarith
  exact ⟨hlo, hhi, hmx, by omega, by omega⟩

end Geomdl
