import NurbsVerif.Lemmas.VolRefineShape

/-! C05 on volumes: `refineDir` in each of the three directions of a volume object and
    `refine_knotvector` on any subset of the three directions preserve every volume point, the
    domain and well-formedness. -/
namespace Geomdl
open Blossom Finset
set_option linter.unusedSectionVars false
variable {K : Type} [Field K] [LinearOrder K] [IsStrictOrderedRing K]

theorem VolWF.dir {d : ℕ} {S : Shape K} (h : VolWF d S) (i : ℕ) (hi : i < 3) : KvWF (S.deg i) (S.kv i) (S.size i) := by
  rcases (by omega : i = 0 ∨ i = 1 ∨ i = 2) with rfl | rfl | rfl
  exacts [h.dir0, h.dir1, h.dir2]

theorem SurfWF.dir {d : ℕ} {S : Shape K} (h : SurfWF d S) (i : ℕ) (hi : i < 2) : KvWF (S.deg i) (S.kv i) (S.size i) := by
  rcases (by omega : i = 0 ∨ i = 1) with rfl | rfl
  exacts [h.dir0, h.dir1]

/-- the domain ends of every direction, indexed by the direction -/
theorem VolSame.ends {d : ℕ} {S T : Shape K} (h : VolSame d S T) (i : ℕ) (hi : i < 3) :
    fnOf (T.kv i) (T.deg i) = fnOf (S.kv i) (S.deg i) ∧ fnOf (T.kv i) (T.size i) = fnOf (S.kv i) (S.size i) := by
  rcases (by omega : i = 0 ∨ i = 1 ∨ i = 2) with rfl | rfl | rfl
  exacts [⟨h.lo0, h.hi0⟩, ⟨h.lo1, h.hi1⟩, ⟨h.lo2, h.hi2⟩]

theorem SurfSame.ends {d : ℕ} {S T : Shape K} (h : SurfSame d S T) (i : ℕ) (hi : i < 2) :
    fnOf (T.kv i) (T.deg i) = fnOf (S.kv i) (S.deg i) ∧ fnOf (T.kv i) (T.size i) = fnOf (S.kv i) (S.size i) := by
  rcases (by omega : i = 0 ∨ i = 1) with rfl | rfl
  exacts [⟨h.lo0, h.hi0⟩, ⟨h.lo1, h.hi1⟩]

/-- what `refineDir` returns is a direction step with the refined knot vector and the fold of
    insertions on every iso-curve -/
theorem refineDir_withDir (S : Shape K) (dir density : ℕ) (tol : K) (S' : Shape K)
    (h : refineDir S dir density tol = some S') :
    S' = S.withDir dir (refKv (S.deg dir) tol (S.kv dir) (refineX (S.deg dir) (S.kv dir) density tol) (S.size dir))
      (refNet (S.deg dir) tol (S.kv dir) (refineX (S.deg dir) (S.kv dir) density tol)) :=
  (refineDir_some S dir density tol S' h).2

/-- **`refineDir` in any of the three directions of a volume**: the result is a well-formed volume
    over the same domain with the same points; the other two directions are untouched and the size of
    the refined direction grows by the number of inserted knots. -/
theorem refineDir_volume (d : ℕ) (S : Shape K) (hS : VolWF d S) (dir : ℕ) (hdir : dir < 3) (density : ℕ) (tol : K)
    (h0 : 0 ≤ tol) (hyp : DirHyp S dir density tol) (S' : Shape K) (h : refineDir S dir density tol = some S') :
    VolSame d S S' ∧ S'.degs = S.degs ∧ S'.rat = S.rat ∧
    (∀ d', d' ≠ dir → S'.kv d' = S.kv d' ∧ S'.size d' = S.size d') ∧
    S'.size dir = S.size dir + (refineX (S.deg dir) (S.kv dir) density tol).length := by
  have hS' := refineDir_withDir S dir density tol S' h
  have hop := isoOp_refine (S.deg dir) d (S.kv dir) (S.size dir) density tol (hS.dir dir hdir) hyp.1 h0 hyp.2
  obtain ⟨o1, o2, o3⟩ := withDir_other S dir
    (refKv (S.deg dir) tol (S.kv dir) (refineX (S.deg dir) (S.kv dir) density tol) (S.size dir))
    (refNet (S.deg dir) tol (S.kv dir) (refineX (S.deg dir) (S.kv dir) density tol))
  rw [hS']
  refine ⟨?_, o1, o2, o3, ?_⟩
  · rcases (by omega : dir = 0 ∨ dir = 1 ∨ dir = 2) with rfl | rfl | rfl
    · exact (volume_dirOp0 d S hS _ _ _ hop).1
    · exact (volume_dirOp1 d S hS _ _ _ hop).1
    · exact (volume_dirOp2 d S hS _ _ _ hop).1
  · rcases (by omega : dir = 0 ∨ dir = 1 ∨ dir = 2) with rfl | rfl | rfl
    · exact (volume_dirOp0 d S hS _ _ _ hop).2.2
    · exact (volume_dirOp1 d S hS _ _ _ hop).2.2
    · exact (volume_dirOp2 d S hS _ _ _ hop).2.2

/-- one step of the loop of `refine_knotvector` does nothing or is an `IsoOp` along `dir` -/
theorem refStep_dirStepOk (d : ℕ) (T : Shape K) (b : Bool) (dir : ℕ) (dens : List ℕ) (tol : K) (h0 : 0 ≤ tol)
    (hkv : KvWF (T.deg dir) (T.kv dir) (T.size dir))
    (hd : dens.getD dir 0 ≠ 0 → DirHyp T dir (dens.getD dir 0) tol) :
    DirStepOk d T (refStep dens tol (T, b) dir).1 dir := by
  unfold refStep
  split_ifs with h1 h2
  · exact Or.inl rfl
  · exact Or.inl rfl
  · cases hr : refineDir T dir (dens.getD dir 0) tol with
    | none => exact Or.inl rfl
    | some S' =>
      obtain ⟨hend, hsep⟩ := hd h2
      exact Or.inr ⟨_, _, _, isoOp_refine (T.deg dir) d (T.kv dir) (T.size dir) (dens.getD dir 0) tol hkv hend h0 hsep,
        refineDir_withDir T dir _ tol S' hr⟩

theorem dirHyp_transfer (S T : Shape K) (dir density : ℕ) (tol : K) (hdegs : T.degs = S.degs)
    (hkv : T.kv dir = S.kv dir) (hsz : T.size dir = S.size dir) (h : DirHyp S dir density tol) :
    DirHyp T dir density tol := by
  have e_deg : T.deg dir = S.deg dir := by unfold Shape.deg; rw [hdegs]
  unfold DirHyp at h ⊢
  rw [hkv, hsz, e_deg]
  exact h

/-- **`refine_knotvector` on a volume, any subset of the three directions, any densities, keeps every
    volume point** (and returns a well-formed volume with the same domain) – whether or not the call
    completed. -/
theorem refineKnotvector_volume' (d : ℕ) (S : Shape K) (hS : VolWF d S) (dens : List ℕ) (tol : K) (h0 : 0 ≤ tol)
    (hd : ∀ dir, dir < 3 → dens.getD dir 0 ≠ 0 → DirHyp S dir (dens.getD dir 0) tol) :
    VolSame d S (refineKnotvector S dens tol).1 ∧ (refineKnotvector S dens tol).1.degs = S.degs ∧
    (refineKnotvector S dens tol).1.rat = S.rat := by
  rw [refineKnotvector_eq]
  obtain ⟨a, b, c, _⟩ := dirFold_volume d S hS False (refStep dens tol)
    (fun T b dir hdir hT hdegs _ hkv hsz =>
      ⟨refStep_dirStepOk d T b dir dens tol h0 (hT.dir dir hdir)
        (fun hne => dirHyp_transfer S T dir _ tol hdegs hkv hsz (hd dir hdir hne)), fun hf => hf.elim⟩)
  exact ⟨a, b, c⟩

/-- the surface version through the same loop lemma (any subset of the two directions) -/
theorem refineKnotvector_surface'' (d : ℕ) (S : Shape K) (hS : SurfWF d S) (dens : List ℕ) (tol : K) (h0 : 0 ≤ tol)
    (hd : ∀ dir, dir < 2 → dens.getD dir 0 ≠ 0 → DirHyp S dir (dens.getD dir 0) tol) :
    SurfSame d S (refineKnotvector S dens tol).1 ∧ (refineKnotvector S dens tol).1.degs = S.degs ∧
    (refineKnotvector S dens tol).1.rat = S.rat := by
  rw [refineKnotvector_eq]
  obtain ⟨a, b, c, _⟩ := dirFold_surface d S hS False (refStep dens tol)
    (fun T b dir hdir hT hdegs _ hkv hsz =>
      ⟨refStep_dirStepOk d T b dir dens tol h0 (hT.dir dir hdir)
        (fun hne => dirHyp_transfer S T dir _ tol hdegs hkv hsz (hd dir hdir hne)), fun hf => hf.elim⟩)
  exact ⟨a, b, c⟩

end Geomdl
