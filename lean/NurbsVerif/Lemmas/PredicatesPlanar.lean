import NurbsVerif.Model.Predicates
import Mathlib.Algebra.Order.Field.Basic
import Mathlib.LinearAlgebra.Matrix.Determinant.Basic
import Mathlib.Data.List.Perm.Basic
import Mathlib.Tactic.Ring
import Mathlib.Tactic.Linarith

/-! C20, planar part: `is_left`, `wn_poly`, `convex_hull` -/
namespace Geomdl
variable {K : Type} [Field K] [LinearOrder K] [IsStrictOrderedRing K]

/-! ### `is_left` -/

theorem isLeft_eq_det (p0 p1 p2 : K × K) :
    isLeft p0 p1 p2 = Matrix.det !![p1.1 - p0.1, p1.2 - p0.2; p2.1 - p0.1, p2.2 - p0.2] := by
  rw [Matrix.det_fin_two_of]; unfold isLeft; ring

theorem isLeft_translate (v p0 p1 p2 : K × K) :
    isLeft (p0.1 + v.1, p0.2 + v.2) (p1.1 + v.1, p1.2 + v.2) (p2.1 + v.1, p2.2 + v.2) = isLeft p0 p1 p2 := by
  unfold isLeft; ring

theorem isLeft_swap (p0 p1 p2 : K × K) : isLeft p1 p0 p2 = - isLeft p0 p1 p2 := by
  unfold isLeft; ring

theorem isLeft_cyclic (p0 p1 p2 : K × K) : isLeft p1 p2 p0 = isLeft p0 p1 p2 := by
  unfold isLeft; ring

/-- decomposition of `p2 - p0` along the edge direction `d = p1 - p0` and its left normal
    `(-d.2, d.1)`: `is_left` is the normal coordinate times `|d|²` -/
theorem isLeft_normal_coord (p0 p1 : K × K) (s t : K) :
    isLeft p0 p1 (p0.1 + s * (p1.1 - p0.1) + t * (-(p1.2 - p0.2)), p0.2 + s * (p1.2 - p0.2) + t * (p1.1 - p0.1))
      = t * ((p1.1 - p0.1) ^ 2 + (p1.2 - p0.2) ^ 2) := by
  unfold isLeft; ring

theorem normSq_pos_of_ne (p0 p1 : K × K) (h : p0 ≠ p1) : 0 < (p1.1 - p0.1) ^ 2 + (p1.2 - p0.2) ^ 2 := by
  have h1 := sq_nonneg (p1.1 - p0.1)
  have h2 := sq_nonneg (p1.2 - p0.2)
  rcases lt_or_eq_of_le (add_nonneg h1 h2) with h3 | h3
  · exact h3
  · exfalso; apply h
    have e1 : (p1.1 - p0.1) ^ 2 = 0 := by linarith
    have e2 : (p1.2 - p0.2) ^ 2 = 0 := by linarith
    have f1 : p1.1 - p0.1 = 0 := by simpa using e1
    have f2 : p1.2 - p0.2 = 0 := by simpa using e2
    exact Prod.ext (by linarith) (by linarith)

/-- an affine map `x ↦ A x + b` multiplies `is_left` by `det A` -/
theorem isLeft_affine (a11 a12 a21 a22 b1 b2 : K) (p0 p1 p2 : K × K) :
    let f : K × K → K × K := fun p => (a11 * p.1 + a12 * p.2 + b1, a21 * p.1 + a22 * p.2 + b2)
    isLeft (f p0) (f p1) (f p2) = (a11 * a22 - a12 * a21) * isLeft p0 p1 p2 := by
  intro f; simp only [f]; unfold isLeft; ring

/-! ### `wn_poly` -/

theorem wnLoop_eq (pt : K × K) : ∀ (l : List (K × K)) (wn : Int), wnLoop pt wn l = wn + wnLoop pt 0 l
  | [], wn => by simp [wnLoop]
  | [_], wn => by simp [wnLoop]
  | a :: b :: rest, wn => by
    simp only [wnLoop]
    rw [wnLoop_eq pt (b :: rest) (wn + wnEdge pt a b), wnLoop_eq pt (b :: rest) (0 + wnEdge pt a b)]
    omega

/-- the counter is the sum of the edge contributions -/
theorem wnNum_cons_cons (pt a b : K × K) (rest : List (K × K)) :
    wnNum pt (a :: b :: rest) = wnEdge pt a b + wnNum pt (b :: rest) := by
  unfold wnNum
  simp only [wnLoop]
  rw [wnLoop_eq]; omega

@[simp] theorem wnNum_nil (pt : K × K) : wnNum pt [] = 0 := rfl
@[simp] theorem wnNum_single (pt a : K × K) : wnNum pt [a] = 0 := rfl

theorem wnNum_append_pair (pt x y : K × K) : ∀ (l : List (K × K)),
    wnNum pt (l ++ [x, y]) = wnNum pt (l ++ [x]) + wnEdge pt x y
  | [] => by simp [wnNum_cons_cons]
  | [a] => by simp [wnNum_cons_cons]
  | a :: b :: rest => by
    have ih := wnNum_append_pair pt x y (b :: rest)
    simp only [List.cons_append] at ih ⊢
    rw [wnNum_cons_cons, wnNum_cons_cons, ih]; omega

/-- reversing an edge negates its contribution (no off-boundary hypothesis needed) -/
theorem wnEdge_swap (pt a b : K × K) : wnEdge pt b a = - wnEdge pt a b := by
  have hs : isLeft b a pt = - isLeft a b pt := isLeft_swap a b pt
  unfold wnEdge
  rw [hs]
  split_ifs <;> first | rfl | (exfalso; linarith)

theorem wnNum_append_single_cons (pt x y : K × K) (l : List (K × K)) :
    wnNum pt (l ++ [x] ++ [y]) = wnNum pt (l ++ [x]) + wnEdge pt x y := by
  rw [List.append_assoc]; exact wnNum_append_pair pt x y l

/-- traversing the vertex list backwards negates the winding counter -/
theorem wnNum_reverse (pt : K × K) : ∀ (l : List (K × K)), wnNum pt l.reverse = - wnNum pt l
  | [] => by simp
  | [a] => by simp
  | a :: b :: rest => by
    have ih := wnNum_reverse pt (b :: rest)
    rw [wnNum_cons_cons, List.reverse_cons, List.reverse_cons] at *
    rw [wnNum_append_single_cons, ih, wnEdge_swap]; omega

/-- translating the point and the polygon by the same vector changes no edge contribution -/
theorem wnEdge_translate (v pt a b : K × K) :
    wnEdge (pt.1 + v.1, pt.2 + v.2) (a.1 + v.1, a.2 + v.2) (b.1 + v.1, b.2 + v.2) = wnEdge pt a b := by
  unfold wnEdge
  rw [isLeft_translate]
  simp only [add_le_add_iff_right, add_lt_add_iff_right]

theorem wnNum_translate (v pt : K × K) : ∀ (l : List (K × K)),
    wnNum (pt.1 + v.1, pt.2 + v.2) (l.map (fun p => (p.1 + v.1, p.2 + v.2))) = wnNum pt l
  | [] => by simp
  | [a] => by simp
  | a :: b :: rest => by
    have ih := wnNum_translate v pt (b :: rest)
    simp only [List.map_cons] at ih ⊢
    rw [wnNum_cons_cons, wnNum_cons_cons, ih, wnEdge_translate]

/-- starting the closed polygon `a, b, …, a` at its second vertex (`b, …, a, b`) moves one edge
    contribution from the front to the back of the sum -/
theorem wnNum_cyclic (pt a b : K × K) (rest : List (K × K)) :
    wnNum pt ((b :: rest ++ [a]) ++ [b]) = wnNum pt (a :: (b :: rest ++ [a])) := by
  rw [wnNum_append_single_cons pt a b (b :: rest)]
  simp only [List.cons_append]
  rw [wnNum_cons_cons pt a b]; omega

/-! ### `convex_hull`: the result only contains input points -/

theorem popWhile_subset (r : K × K) : ∀ (h : List (K × K)), ∀ x ∈ popWhile r h, x ∈ h
  | [], x, hx => by simp [popWhile] at hx
  | [b], x, hx => by simpa [popWhile] using hx
  | b :: a :: rest, x, hx => by
    rw [popWhile] at hx
    split_ifs at hx with hc
    · exact List.mem_cons_of_mem _ (popWhile_subset r (a :: rest) x hx)
    · exact hx

theorem keepLeft_subset (hull : List (K × K)) (r x : K × K) (hx : x ∈ keepLeft hull r) :
    x = r ∨ x ∈ hull := by
  unfold keepLeft at hx
  simp only at hx
  split at hx
  · left; simpa using hx
  · rename_i t tl heq
    split_ifs at hx
    · rcases List.mem_cons.mp hx with h | h
      · left; exact h
      · right; exact popWhile_subset r hull x (heq ▸ h)
    · right; exact popWhile_subset r hull x (heq ▸ hx)

theorem foldl_keepLeft_subset : ∀ (pts hull : List (K × K)) (x : K × K),
    x ∈ pts.foldl keepLeft hull → x ∈ pts ∨ x ∈ hull
  | [], hull, x, hx => Or.inr hx
  | r :: pts, hull, x, hx => by
    rw [List.foldl_cons] at hx
    rcases foldl_keepLeft_subset pts _ x hx with h | h
    · left; exact List.mem_cons_of_mem _ h
    · rcases keepLeft_subset hull r x h with h' | h'
      · left; rw [h']; exact List.mem_cons_self
      · right; exact h'

theorem halfHull_subset (pts : List (K × K)) (x : K × K) (hx : x ∈ halfHull pts) : x ∈ pts := by
  unfold halfHull at hx
  rcases foldl_keepLeft_subset pts [] x (List.mem_reverse.mp hx) with h | h
  · exact h
  · simp at h

theorem insertLex_perm (x : K × K) : ∀ (l : List (K × K)), (insertLex x l).Perm (x :: l)
  | [] => by simp [insertLex]
  | y :: ys => by
    rw [insertLex]
    split_ifs
    · exact List.Perm.refl _
    · exact ((insertLex_perm x ys).cons y).trans (List.Perm.swap x y ys)

theorem sortLex_perm : ∀ (l : List (K × K)), (sortLex l).Perm l
  | [] => by simp [sortLex]
  | x :: l => by
    have ih := sortLex_perm l
    unfold sortLex at ih ⊢
    rw [List.foldr_cons]
    exact (insertLex_perm x _).trans (ih.cons x)

theorem convexHull_subset (pts : List (K × K)) (x : K × K) (hx : x ∈ convexHull pts) : x ∈ pts := by
  unfold convexHull at hx
  simp only at hx
  rcases List.mem_append.mp hx with h | h
  · exact (sortLex_perm pts).mem_iff.mp (halfHull_subset _ x h)
  · have h1 : x ∈ halfHull (sortLex pts).reverse := List.mem_of_mem_drop (List.mem_of_mem_dropLast h)
    exact (sortLex_perm pts).mem_iff.mp (List.mem_reverse.mp (halfHull_subset _ x h1))

/-! ### `convex_hull`: each half hull is a chain of strict left turns -/

/-- a (top-first) stack in which every three consecutive points `a, b, c` (in push order) make a
    strict left turn -/
def LeftChain : List (K × K) → Prop
  | c :: b :: a :: rest => turn a b c = 1 ∧ LeftChain (b :: a :: rest)
  | _ => True

theorem LeftChain_tail : ∀ (h : List (K × K)), LeftChain h → LeftChain h.tail
  | [], _ => trivial
  | [_], _ => trivial
  | [_, _], _ => trivial
  | _ :: _ :: _ :: _, hc => hc.2

theorem popWhile_chain (r : K × K) : ∀ (h : List (K × K)), LeftChain h → LeftChain (popWhile r h)
  | [], _ => by simp [popWhile, LeftChain]
  | [_], _ => by simp [popWhile, LeftChain]
  | b :: a :: rest, hc => by
    rw [popWhile]
    split_ifs
    · exact popWhile_chain r (a :: rest) (LeftChain_tail _ hc)
    · exact hc

theorem popWhile_top (r : K × K) : ∀ (h : List (K × K)) (b a : K × K) (rest : List (K × K)),
    popWhile r h = b :: a :: rest → turn a b r = 1
  | [], b, a, rest, he => by simp [popWhile] at he
  | [_], b, a, rest, he => by simp [popWhile] at he
  | b' :: a' :: rest', b, a, rest, he => by
    rw [popWhile] at he
    split_ifs at he with hc
    · exact popWhile_top r (a' :: rest') b a rest he
    · simp only [List.cons.injEq] at he
      obtain ⟨rfl, rfl, _⟩ := he
      exact not_not.mp hc

theorem keepLeft_chain (hull : List (K × K)) (r : K × K) (hc : LeftChain hull) : LeftChain (keepLeft hull r) := by
  have h1 := popWhile_chain r hull hc
  unfold keepLeft
  simp only
  split
  · trivial
  · rename_i t tl heq
    rw [heq] at h1
    split_ifs
    all_goals rw [heq]
    · cases tl with
      | nil => trivial
      | cons a rest => exact ⟨popWhile_top r hull t a rest heq, h1⟩
    · exact h1

theorem foldl_keepLeft_chain : ∀ (pts hull : List (K × K)), LeftChain hull → LeftChain (pts.foldl keepLeft hull)
  | [], _, hc => hc
  | r :: pts, hull, hc => foldl_keepLeft_chain pts _ (keepLeft_chain hull r hc)

/-- the same in Python order (bottom first): consecutive triples of a half hull turn strictly left -/
def LeftChainFwd : List (K × K) → Prop
  | a :: b :: c :: rest => turn a b c = 1 ∧ LeftChainFwd (b :: c :: rest)
  | _ => True

theorem LeftChainFwd_append_of (l : List (K × K)) : ∀ (s : List (K × K)), LeftChain s → LeftChainFwd l →
    (∀ a b c, s.head? = some b → s.tail.head? = some a → l.head? = some c → turn a b c = 1) →
    (∀ b c d, s.head? = some b → l.head? = some c → l.tail.head? = some d → turn b c d = 1) →
    LeftChainFwd (s.reverse ++ l)
  | [], _, hl, _, _ => by simpa using hl
  | [b], _, hl, _, h2 => by
    cases l with
    | nil => trivial
    | cons c l' =>
      cases l' with
      | nil => trivial
      | cons d l'' => exact ⟨h2 b c d rfl rfl rfl, hl⟩
  | b :: a :: rest, hs, hl, h1, h2 => by
    have : (b :: a :: rest).reverse ++ l = (a :: rest).reverse ++ (b :: l) := by simp
    rw [this]
    apply LeftChainFwd_append_of (b :: l) (a :: rest) (LeftChain_tail _ hs)
    · cases l with
      | nil => trivial
      | cons c l' =>
        cases l' with
        | nil => trivial
        | cons d l'' => exact ⟨h2 b c d rfl rfl rfl, hl⟩
    · intro a' b' c' hb ha hc
      simp only [List.head?_cons, Option.some.injEq] at hb hc
      subst hb hc
      cases rest with
      | nil => simp at ha
      | cons a'' rest' =>
        simp only [List.tail_cons, List.head?_cons, Option.some.injEq] at ha
        subst ha
        exact hs.1
    · intro b' c' d' hb hc hd
      simp only [List.head?_cons, Option.some.injEq, List.tail_cons] at hb hc
      subst hb hc
      cases l with
      | nil => simp at hd
      | cons c l' =>
        simp only [List.tail_cons, List.head?_cons, Option.some.injEq] at hd
        subst hd
        exact h1 _ _ _ rfl rfl rfl

theorem halfHull_left_turns (pts : List (K × K)) : LeftChainFwd (halfHull pts) := by
  unfold halfHull
  have h := foldl_keepLeft_chain pts [] trivial
  have := LeftChainFwd_append_of [] (pts.foldl keepLeft []) h trivial (by simp) (by simp)
  simpa using this

end Geomdl
