import NurbsVerif.Model.Hodograph
import NurbsVerif.Lemmas.SurfLoopsA36
import NurbsVerif.Lemmas.SurfDerivRat

/-! `operations.tangent` / `operations.normal` (`normalize=False`) on top of the derivative evaluators as
    coded: the point, the first derivative(s), the cross product of the two first partial derivatives. -/
namespace Geomdl
open Blossom Polynomial Finset
open scoped Polynomial.Bivariate
variable {K : Type} [Field K] [LinearOrder K] [IsStrictOrderedRing K]

/-- `tangent(curve, u)`: (curve point, first derivative) -/
theorem tangentCurve_true (p : ℕ) (U : ℕ → K) (P : List (List K)) (κ : ℕ) (u : K) (d j : ℕ)
    (hp : p ≤ κ) (hκ : κ < P.length) (hP : NetOk d P) (hm : Monotone U) (hspan : U κ < U (κ+1)) :
    (tangentCurve (curveDersA32 p U P κ u 1)).1.getD j 0 = eval u (spanPoly p U P κ j) ∧
    (tangentCurve (curveDersA32 p U P κ u 1)).2.getD j 0 = eval u (derivative (spanPoly p U P κ j)) := by
  unfold tangentCurve
  refine ⟨?_, ?_⟩
  · have := curveDersA32_true p U P κ u d j 1 0 hp hκ hP hm hspan (by omega)
    simpa using this
  · have := curveDersA32_true p U P κ u d j 1 1 hp hκ hP hm hspan (by omega)
    simpa using this

/-- `tangent(surface, (u, v))`: (surface point, `∂S/∂u`, `∂S/∂v`) -/
theorem tangentSurface_true (pu pv : ℕ) (Uu Uv : ℕ → K) (su sv : ℕ) (P : List (List K)) (κu κv : ℕ) (u v : K)
    (d j : ℕ) (hpu : pu ≤ κu) (hpv : pv ≤ κv) (hκu : κu < su) (hκv : κv < sv) (hlen : P.length = su * sv)
    (hP : NetOk d P) (hmu : Monotone Uu) (hmv : Monotone Uv) (hspu : Uu κu < Uu (κu+1)) (hspv : Uv κv < Uv (κv+1)) :
    (tangentSurface (surfaceDersA36 pu pv Uu Uv sv P κu κv u v 1)).1.getD j 0
      = (surfSpanPoly pu pv Uu Uv sv P κu κv j).evalEval u v ∧
    (tangentSurface (surfaceDersA36 pu pv Uu Uv sv P κu κv u v 1)).2.1.getD j 0
      = (pderivU (surfSpanPoly pu pv Uu Uv sv P κu κv j)).evalEval u v ∧
    (tangentSurface (surfaceDersA36 pu pv Uu Uv sv P κu κv u v 1)).2.2.getD j 0
      = (pderivV (surfSpanPoly pu pv Uu Uv sv P κu κv j)).evalEval u v := by
  rw [surfaceDersA36_eq pu pv Uu Uv su sv P κu κv u v d 1 hpu hpv hκu hκv hlen hP]
  unfold tangentSurface
  have h := fun k l (hk : k ≤ 1) (hl : l ≤ 1) =>
    surfaceDersAt_all pu pv Uu Uv su sv P κu κv u v d j 1 k l false hpu hpv hκu hκv hlen hP hmu hmv hspu hspv
      hk hl (Or.inl rfl)
  refine ⟨?_, ?_, ?_⟩
  · simpa using h 0 0 (by omega) (by omega)
  · simpa using h 1 0 (by omega) (by omega)
  · simpa using h 0 1 (by omega) (by omega)

theorem getD_three (a0 a1 a2 : K) :
    ([a0, a1, a2] : List K).getD 0 0 = a0 ∧ ([a0, a1, a2] : List K).getD 1 0 = a1 ∧ ([a0, a1, a2] : List K).getD 2 0 = a2 :=
  ⟨rfl, rfl, rfl⟩

/-- `normal(surface, (u, v))` for a 3-D surface: the point and the cross product `∂S/∂u × ∂S/∂v` of the true
    first partial derivatives – which is orthogonal to both -/
theorem normalSurface_true (pu pv : ℕ) (Uu Uv : ℕ → K) (su sv : ℕ) (P : List (List K)) (κu κv : ℕ) (u v : K)
    (hpu : pu ≤ κu) (hpv : pv ≤ κv) (hκu : κu < su) (hκv : κv < sv) (hlen : P.length = su * sv)
    (hP : NetOk 3 P) (hmu : Monotone Uu) (hmv : Monotone Uv) (hspu : Uu κu < Uu (κu+1)) (hspv : Uv κv < Uv (κv+1))
    (Su Sv : ℕ → K)
    (hSu : ∀ c, Su c = (pderivU (surfSpanPoly pu pv Uu Uv sv P κu κv c)).evalEval u v)
    (hSv : ∀ c, Sv c = (pderivV (surfSpanPoly pu pv Uu Uv sv P κu κv c)).evalEval u v) :
    ∃ pt n, normalSurface (surfaceDersA36 pu pv Uu Uv sv P κu κv u v 1) = some (pt, n) ∧
      (∀ c, pt.getD c 0 = (surfSpanPoly pu pv Uu Uv sv P κu κv c).evalEval u v) ∧
      n = [Su 1 * Sv 2 - Su 2 * Sv 1, Su 2 * Sv 0 - Su 0 * Sv 2, Su 0 * Sv 1 - Su 1 * Sv 0] ∧
      n.getD 0 0 * Su 0 + n.getD 1 0 * Su 1 + n.getD 2 0 * Su 2 = 0 ∧
      n.getD 0 0 * Sv 0 + n.getD 1 0 * Sv 1 + n.getD 2 0 * Sv 2 = 0 := by
  have ht := fun c => tangentSurface_true pu pv Uu Uv su sv P κu κv u v 3 c hpu hpv hκu hκv hlen hP hmu hmv hspu hspv
  rw [surfaceDersA36_eq pu pv Uu Uv su sv P κu κv u v 3 1 hpu hpv hκu hκv hlen hP] at ht ⊢
  unfold tangentSurface at ht
  simp only [] at ht
  have h10 := surfaceDersAt_entry_length pu pv Uu Uv su sv P κu κv u v 3 1 false 1 0 hpu hpv hκu hκv hlen hP
    (by omega) (by omega)
  have h01 := surfaceDersAt_entry_length pu pv Uu Uv su sv P κu κv u v 3 1 false 0 1 hpu hpv hκu hκv hlen hP
    (by omega) (by omega)
  obtain ⟨a0, a1, a2, ha⟩ := List.length_eq_three.mp h10
  obtain ⟨b0, b1, b2, hb⟩ := List.length_eq_three.mp h01
  have hA : ∀ c, c < 3 → ([a0, a1, a2] : List K).getD c 0 = Su c := by
    intro c _; rw [hSu c, ← (ht c).2.1, ha]
  have hB : ∀ c, c < 3 → ([b0, b1, b2] : List K).getD c 0 = Sv c := by
    intro c _; rw [hSv c, ← (ht c).2.2, hb]
  have ea0 : a0 = Su 0 := hA 0 (by omega)
  have ea1 : a1 = Su 1 := hA 1 (by omega)
  have ea2 : a2 = Su 2 := hA 2 (by omega)
  have eb0 : b0 = Sv 0 := hB 0 (by omega)
  have eb1 : b1 = Sv 1 := hB 1 (by omega)
  have eb2 : b2 = Sv 2 := hB 2 (by omega)
  refine ⟨_, [a1 * b2 - a2 * b1, a2 * b0 - a0 * b2, a0 * b1 - a1 * b0], ?_, fun c => (ht c).1, ?_, ?_, ?_⟩
  · unfold normalSurface
    rw [ha, hb]
    rfl
  · rw [ea0, ea1, ea2, eb0, eb1, eb2]
  · rw [← ea0, ← ea1, ← ea2]
    simp only [List.getD_cons_zero, List.getD_cons_succ]
    ring
  · rw [← eb0, ← eb1, ← eb2]
    simp only [List.getD_cons_zero, List.getD_cons_succ]
    ring

end Geomdl
