import NurbsVerif.Model.Predicates
import Mathlib.Algebra.Order.Field.Basic
import Mathlib.Algebra.Order.Archimedean.Basic
import Mathlib.Tactic.Ring
import Mathlib.Tactic.FieldSimp
import Mathlib.Tactic.Linarith
import Mathlib.Tactic.Positivity

/-! C20, voxelisation: `frange`, `generate_voxel_grid`, `is_point_inside_voxel`, `find_inouts_st` -/
namespace Geomdl
variable {K : Type} [Field K] [LinearOrder K] [IsStrictOrderedRing K]

/-! ### the in/out test -/

/-- `pt` lies in the voxel `bb` padded by `tol`: closed below, open above, on every axis -/
def inPadded (bb : (K × K × K) × (K × K × K)) (tol : K) (pt : K × K × K) : Prop :=
  (bb.1.1 - tol ≤ pt.1 ∧ pt.1 < bb.2.1 + tol) ∧
  (bb.1.2.1 - tol ≤ pt.2.1 ∧ pt.2.1 < bb.2.2.1 + tol) ∧
  (bb.1.2.2 - tol ≤ pt.2.2 ∧ pt.2.2 < bb.2.2.2 + tol)

theorem axis_test (p lo hi : K) (h : lo < hi) :
    ((p - lo) * (hi - lo) < (hi - lo) * (hi - lo) ∧ 0 ≤ (p - lo) * (hi - lo)) ↔ (lo ≤ p ∧ p < hi) := by
  have hw : 0 < hi - lo := sub_pos.mpr h
  constructor
  · rintro ⟨h1, h2⟩
    have a1 : p - lo < hi - lo := lt_of_mul_lt_mul_right h1 (le_of_lt hw)
    have a2 : 0 ≤ p - lo := nonneg_of_mul_nonneg_left h2 hw
    exact ⟨by linarith, by linarith⟩
  · rintro ⟨h1, h2⟩
    exact ⟨mul_lt_mul_of_pos_right (by linarith) hw, mul_nonneg (by linarith) (le_of_lt hw)⟩

/-- the dot-product formulation used by the code is the coordinate-wise interval test, for every
    voxel whose padded extent is positive on each axis -/
theorem isPointInsideVoxel_iff (bb : (K × K × K) × (K × K × K)) (pts : List (K × K × K)) (tol : K)
    (h1 : bb.1.1 - tol < bb.2.1 + tol) (h2 : bb.1.2.1 - tol < bb.2.2.1 + tol)
    (h3 : bb.1.2.2 - tol < bb.2.2.2 + tol) :
    isPointInsideVoxel bb pts tol = true ↔ ∃ pt ∈ pts, inPadded bb tol pt := by
  unfold isPointInsideVoxel inPadded
  simp only [List.any_eq_true, Bool.and_eq_true, decide_eq_true_eq, dot3, mul_zero, zero_mul, add_zero, zero_add]
  constructor
  · rintro ⟨pt, hpt, ⟨⟨⟨⟨⟨a1, a2⟩, a3⟩, a4⟩, a5⟩, a6⟩⟩
    exact ⟨pt, hpt, (axis_test _ _ _ h1).mp ⟨a1, a2⟩, (axis_test _ _ _ h2).mp ⟨a3, a4⟩, (axis_test _ _ _ h3).mp ⟨a5, a6⟩⟩
  · rintro ⟨pt, hpt, b1, b2, b3⟩
    obtain ⟨a1, a2⟩ := (axis_test _ _ _ h1).mpr b1
    obtain ⟨a3, a4⟩ := (axis_test _ _ _ h2).mpr b2
    obtain ⟨a5, a6⟩ := (axis_test _ _ _ h3).mpr b3
    exact ⟨pt, hpt, ⟨⟨⟨⟨⟨a1, a2⟩, a3⟩, a4⟩, a5⟩, a6⟩⟩

theorem findInouts_length (grid : List ((K × K × K) × (K × K × K))) (pts : List (K × K × K)) (tol : K) :
    (findInouts grid pts tol).length = grid.length := by
  unfold findInouts; simp

theorem findInouts_getElem? (grid : List ((K × K × K) × (K × K × K))) (pts : List (K × K × K)) (tol : K)
    (i : ℕ) (bb : (K × K × K) × (K × K × K)) (hbb : grid[i]? = some bb) :
    (findInouts grid pts tol)[i]? = some (if isPointInsideVoxel bb pts tol then 1 else 0) := by
  unfold findInouts
  rw [List.getElem?_map, hbb]; rfl

/-! ### `frange` -/

theorem frangeLoop_succ (x0 stop step : K) (f i : ℕ) (x : K) :
    frangeLoop x0 stop step (f + 1) i x =
      if x + step / ((2 : ℕ) : K) < stop then
        (frangeLoop x0 stop step f (i + 1) (x0 + ((i + 1 : ℕ) : K) * step)).map
          (fun l => (x0 + ((i + 1 : ℕ) : K) * step) :: l)
      else some (if x < stop then [stop] else []) := rfl

theorem frangeLoop_terminates (x0 stop step : K) : ∀ (f i : ℕ) (x : K), x = x0 + (i : K) * step →
    stop ≤ x + step / 2 + (f : K) * step → ∃ l, frangeLoop x0 stop step (f + 1) i x = some l := by
  intro f
  induction f with
  | zero =>
    intro i x _ hb
    simp only [Nat.cast_zero, zero_mul, add_zero] at hb
    unfold frangeLoop
    have : ¬ (x + step / ((2 : ℕ) : K) < stop) := by push_cast; exact not_lt.mpr hb
    rw [if_neg this]; exact ⟨_, rfl⟩
  | succ f ih =>
    intro i x hx hb
    unfold frangeLoop
    by_cases hc : x + step / ((2 : ℕ) : K) < stop
    · rw [if_pos hc]
      have hx' : x0 + ((i + 1 : ℕ) : K) * step = x + step := by rw [hx]; push_cast; ring
      obtain ⟨l, hl⟩ := ih (i + 1) (x0 + ((i + 1 : ℕ) : K) * step) rfl (by
        rw [hx']; push_cast at hb; linarith)
      simp only [hl, Option.map_some]; exact ⟨_, rfl⟩
    · rw [if_neg hc]; exact ⟨_, rfl⟩

/-- `frange` stops: any fuel above `(stop - start) / step` is enough -/
theorem frange_terminates (start stop step : K) (N : ℕ) (hN : stop - start ≤ (N : K) * step + step / 2) :
    ∃ l, frange start stop step (N + 1) = some l := by
  obtain ⟨l, hl⟩ := frangeLoop_terminates start stop step N 0 start (by simp) (by linarith)
  unfold frange; rw [hl]; exact ⟨_, rfl⟩

theorem frange_terminates_arch [Archimedean K] (start stop step : K) (hs : 0 < step) :
    ∃ fuel l, frange start stop step fuel = some l := by
  obtain ⟨N, hN⟩ := exists_nat_gt ((stop - start) / step)
  rw [div_lt_iff₀ hs] at hN
  obtain ⟨l, hl⟩ := frange_terminates start stop step N (by linarith)
  exact ⟨N + 1, l, hl⟩

/-- more fuel does not change a result -/
theorem frangeLoop_mono (x0 stop step : K) : ∀ (f i : ℕ) (x : K) (l : List K),
    frangeLoop x0 stop step f i x = some l → frangeLoop x0 stop step (f + 1) i x = some l := by
  intro f
  induction f with
  | zero => intro i x l h; simp [frangeLoop] at h
  | succ f ih =>
    intro i x l h
    rw [frangeLoop_succ] at h ⊢
    by_cases hc : x + step / ((2 : ℕ) : K) < stop
    · rw [if_pos hc] at h ⊢
      cases hr : frangeLoop x0 stop step f (i + 1) (x0 + ((i + 1 : ℕ) : K) * step) with
      | none => rw [hr] at h; simp at h
      | some l' =>
        rw [ih _ _ _ hr]; rw [hr] at h; exact h
    · rw [if_neg hc] at h ⊢; exact h

/-- with a zero step and `start < stop` the generator never stops (this is what
    `generate_voxel_grid(…, use_cubes=True)` runs into for a flat bounding box) -/
theorem frange_zero_step_hangs (start stop : K) (h : start < stop) (fuel : ℕ) :
    frange start stop 0 fuel = none := by
  have key : ∀ (f i : ℕ), frangeLoop start stop 0 f i start = none := by
    intro f
    induction f with
    | zero => intro i; rfl
    | succ f ih =>
      intro i
      unfold frangeLoop
      simp only [zero_div, add_zero, mul_zero, h, if_true, ih, Option.map_none]
  unfold frange; rw [key]; rfl

/-- the values after `x` cover `[x, stop]` with intervals `[g, g + step]` -/
theorem frangeLoop_covers (x0 stop step : K) (hs : 0 ≤ step) : ∀ (f i : ℕ) (x : K) (l : List K),
    x = x0 + (i : K) * step → frangeLoop x0 stop step f i x = some l →
    ∀ y, x ≤ y → y ≤ stop → ∃ g ∈ x :: l, g ≤ y ∧ y ≤ g + step := by
  intro f
  induction f with
  | zero => intro i x l _ h; simp [frangeLoop] at h
  | succ f ih =>
    intro i x l hx h y hy1 hy2
    rw [frangeLoop_succ] at h
    by_cases hc : x + step / ((2 : ℕ) : K) < stop
    · rw [if_pos hc] at h
      have hx' : x0 + ((i + 1 : ℕ) : K) * step = x + step := by rw [hx]; push_cast; ring
      cases hr : frangeLoop x0 stop step f (i + 1) (x0 + ((i + 1 : ℕ) : K) * step) with
      | none => rw [hr] at h; simp at h
      | some l' =>
        rw [hr] at h
        simp only [Option.map_some, Option.some.injEq] at h
        by_cases hy : y ≤ x + step
        · exact ⟨x, List.mem_cons_self, hy1, hy⟩
        · obtain ⟨g, hg, hg1, hg2⟩ := ih (i + 1) _ l' rfl hr y (by rw [hx']; linarith) hy2
          refine ⟨g, ?_, hg1, hg2⟩
          rw [← h]; exact List.mem_cons_of_mem _ hg
    · rw [if_neg hc] at h
      have hle : stop ≤ x + step / 2 := by have := not_lt.mp hc; push_cast at this; exact this
      exact ⟨x, List.mem_cons_self, hy1, by linarith⟩

/-- every value of `frange` lies in `[start, max(start, stop + step/2))`: the grid does not overshoot
    the stop value by more than half a step -/
theorem frangeLoop_bounds (x0 stop step : K) (hs : 0 ≤ step) : ∀ (f i : ℕ) (x : K) (l : List K),
    x = x0 + (i : K) * step → frangeLoop x0 stop step f i x = some l →
    ∀ g ∈ l, x ≤ g ∧ g < stop + step / 2 + (if step = 0 then 1 else 0) := by
  intro f
  induction f with
  | zero => intro i x l _ h; simp [frangeLoop] at h
  | succ f ih =>
    intro i x l hx h g hg
    rw [frangeLoop_succ] at h
    by_cases hc : x + step / ((2 : ℕ) : K) < stop
    · rw [if_pos hc] at h
      have hx' : x0 + ((i + 1 : ℕ) : K) * step = x + step := by rw [hx]; push_cast; ring
      have hc' : x + step / 2 < stop := by push_cast at hc; exact hc
      cases hr : frangeLoop x0 stop step f (i + 1) (x0 + ((i + 1 : ℕ) : K) * step) with
      | none => rw [hr] at h; simp at h
      | some l' =>
        rw [hr] at h
        simp only [Option.map_some, Option.some.injEq] at h
        rw [← h] at hg
        rcases List.mem_cons.mp hg with h1 | h1
        · rw [h1, hx']
          refine ⟨by linarith, ?_⟩
          split_ifs <;> linarith
        · obtain ⟨b1, b2⟩ := ih (i + 1) _ l' rfl hr g h1
          exact ⟨by rw [hx'] at b1; linarith, b2⟩
    · rw [if_neg hc] at h
      simp only [Option.some.injEq] at h
      rw [← h] at hg
      split_ifs at hg with hlt
      · have : g = stop := by simpa using hg
        rw [this]
        refine ⟨le_of_lt hlt, ?_⟩
        split_ifs <;> linarith
      · simp at hg

/-- `frange(start, stop, step)` covers `[start, stop]`: every `y` in that interval lies in some
    `[g, g + step]` with `g` one of the generated values -/
theorem frange_covers (start stop step : K) (hs : 0 ≤ step) (fuel : ℕ) (l : List K)
    (h : frange start stop step fuel = some l) (y : K) (hy1 : start ≤ y) (hy2 : y ≤ stop) :
    ∃ g ∈ l, g ≤ y ∧ y ≤ g + step := by
  unfold frange at h
  cases hr : frangeLoop start stop step fuel 0 start with
  | none => rw [hr] at h; simp at h
  | some l' =>
    rw [hr] at h
    simp only [Option.map_some, Option.some.injEq] at h
    rw [← h]
    exact frangeLoop_covers start stop step hs fuel 0 start l' (by simp) hr y hy1 hy2

/-- when `stop` is an exact multiple of the step above `start` (the voxel-grid situation in exact
    arithmetic) the result is `start, start + step, …, start + n step = stop` -/
theorem frangeLoop_exact (x0 step : K) (hs : 0 < step) (n : ℕ) : ∀ (k i : ℕ), i + k = n → ∀ f, k + 1 ≤ f →
    frangeLoop x0 (x0 + (n : K) * step) step f i (x0 + (i : K) * step)
      = some ((List.range' (i + 1) k).map (fun (j : ℕ) => x0 + (j : K) * step)) := by
  intro k
  induction k with
  | zero =>
    intro i hi f hf
    obtain ⟨f', rfl⟩ : ∃ f', f = f' + 1 := ⟨f - 1, by omega⟩
    have : i = n := by omega
    subst this
    rw [frangeLoop_succ]
    have h1 : ¬ (x0 + (i : K) * step + step / ((2 : ℕ) : K) < x0 + (i : K) * step) := by
      push_cast; apply not_lt.mpr; linarith
    rw [if_neg h1, if_neg (lt_irrefl _)]; simp
  | succ k ih =>
    intro i hi f hf
    obtain ⟨f', rfl⟩ : ∃ f', f = f' + 1 := ⟨f - 1, by omega⟩
    rw [frangeLoop_succ]
    have hn : (n : K) = (i : K) + (k : K) + 1 := by rw [← hi]; push_cast; ring
    have h1 : x0 + (i : K) * step + step / ((2 : ℕ) : K) < x0 + (n : K) * step := by
      rw [hn]; push_cast
      have : 0 ≤ (k : K) * step := mul_nonneg (Nat.cast_nonneg k) (le_of_lt hs)
      nlinarith
    rw [if_pos h1]
    have := ih (i + 1) (by omega) f' (by omega)
    rw [this]
    simp [List.range'_succ]

theorem frange_exact (start step : K) (hs : 0 < step) (n fuel : ℕ) (hf : n + 1 ≤ fuel) :
    frange start (start + (n : K) * step) step fuel
      = some ((List.range (n + 1)).map (fun (j : ℕ) => start + (j : K) * step)) := by
  unfold frange
  have h := frangeLoop_exact start step hs n n 0 (by omega) fuel hf
  simp only [Nat.cast_zero, zero_mul, add_zero] at h
  rw [h]
  simp [List.range_eq_range', List.range'_succ]

/-! ### the voxel grid -/

/-- `p` lies in the closed box `[lo, hi]` -/
def inBox (lo hi p : K × K × K) : Prop :=
  (lo.1 ≤ p.1 ∧ p.1 ≤ hi.1) ∧ (lo.2.1 ≤ p.2.1 ∧ p.2.1 ≤ hi.2.1) ∧ (lo.2.2 ≤ p.2.2 ∧ p.2.2 ≤ hi.2.2)

/-- the step sizes computed by `generate_voxel_grid` -/
def voxelSteps (bmin bmax : K × K × K) (sz : ℕ × ℕ × ℕ) (useCubes : Bool) : K × K × K :=
  let s0 : K × K × K := ((bmax.1 - bmin.1) / ((sz.1 - 1 : ℕ) : K),
                          (bmax.2.1 - bmin.2.1) / ((sz.2.1 - 1 : ℕ) : K),
                          (bmax.2.2 - bmin.2.2) / ((sz.2.2 - 1 : ℕ) : K))
  if useCubes then let mn := minK (minK s0.1 s0.2.1) s0.2.2; (mn, mn, mn) else s0

theorem minK_nonneg {a b : K} (ha : 0 ≤ a) (hb : 0 ≤ b) : 0 ≤ minK a b := by
  unfold minK; split_ifs <;> assumption

theorem voxelSteps_nonneg (bmin bmax : K × K × K) (sz : ℕ × ℕ × ℕ) (useCubes : Bool)
    (h1 : bmin.1 ≤ bmax.1) (h2 : bmin.2.1 ≤ bmax.2.1) (h3 : bmin.2.2 ≤ bmax.2.2) :
    0 ≤ (voxelSteps bmin bmax sz useCubes).1 ∧ 0 ≤ (voxelSteps bmin bmax sz useCubes).2.1 ∧
      0 ≤ (voxelSteps bmin bmax sz useCubes).2.2 := by
  have a1 : 0 ≤ (bmax.1 - bmin.1) / ((sz.1 - 1 : ℕ) : K) := div_nonneg (sub_nonneg.mpr h1) (Nat.cast_nonneg _)
  have a2 : 0 ≤ (bmax.2.1 - bmin.2.1) / ((sz.2.1 - 1 : ℕ) : K) := div_nonneg (sub_nonneg.mpr h2) (Nat.cast_nonneg _)
  have a3 : 0 ≤ (bmax.2.2 - bmin.2.2) / ((sz.2.2 - 1 : ℕ) : K) := div_nonneg (sub_nonneg.mpr h3) (Nat.cast_nonneg _)
  unfold voxelSteps
  cases useCubes
  · exact ⟨a1, a2, a3⟩
  · have := minK_nonneg (minK_nonneg a1 a2) a3
    exact ⟨this, this, this⟩

/-- shape of a successful result of `generate_voxel_grid` -/
theorem generateVoxelGrid_some (bmin bmax : K × K × K) (sz : ℕ × ℕ × ℕ) (useCubes : Bool) (fuel : ℕ)
    (g : List ((K × K × K) × (K × K × K))) (h : generateVoxelGrid bmin bmax sz useCubes fuel = some g) :
    (2 ≤ sz.1 ∧ 2 ≤ sz.2.1 ∧ 2 ≤ sz.2.2) ∧
    ∃ r0 r1 r2, frange bmin.1 bmax.1 (voxelSteps bmin bmax sz useCubes).1 fuel = some r0 ∧
      frange bmin.2.1 bmax.2.1 (voxelSteps bmin bmax sz useCubes).2.1 fuel = some r1 ∧
      frange bmin.2.2 bmax.2.2 (voxelSteps bmin bmax sz useCubes).2.2 fuel = some r2 ∧
      g = r0.flatMap (fun u => r1.flatMap (fun v => r2.map (fun w =>
        ((u, v, w), (u + (voxelSteps bmin bmax sz useCubes).1, v + (voxelSteps bmin bmax sz useCubes).2.1,
          w + (voxelSteps bmin bmax sz useCubes).2.2))))) := by
  by_cases hg : sz.1 ≤ 1 ∨ sz.2.1 ≤ 1 ∨ sz.2.2 ≤ 1
  · unfold generateVoxelGrid at h; rw [if_pos hg] at h; exact absurd h (by simp)
  unfold generateVoxelGrid at h
  rw [if_neg hg] at h
  change (match frange bmin.1 bmax.1 (voxelSteps bmin bmax sz useCubes).1 fuel,
      frange bmin.2.1 bmax.2.1 (voxelSteps bmin bmax sz useCubes).2.1 fuel,
      frange bmin.2.2 bmax.2.2 (voxelSteps bmin bmax sz useCubes).2.2 fuel with
    | some r0, some r1, some r2 => some (r0.flatMap (fun u => r1.flatMap (fun v => r2.map (fun w =>
        ((u, v, w), (u + (voxelSteps bmin bmax sz useCubes).1, v + (voxelSteps bmin bmax sz useCubes).2.1,
          w + (voxelSteps bmin bmax sz useCubes).2.2))))))
    | _, _, _ => none) = some g at h
  refine ⟨by omega, ?_⟩
  split at h
  · rename_i r0 r1 r2 e0 e1 e2
    exact ⟨r0, r1, r2, e0, e1, e2, (Option.some.inj h).symm⟩
  · exact absurd h (by simp)

/-- **the grid covers the bounding box**: every point of the box lies in some voxel -/
theorem generateVoxelGrid_covers (bmin bmax : K × K × K) (sz : ℕ × ℕ × ℕ) (useCubes : Bool) (fuel : ℕ)
    (g : List ((K × K × K) × (K × K × K))) (h : generateVoxelGrid bmin bmax sz useCubes fuel = some g)
    (h1 : bmin.1 ≤ bmax.1) (h2 : bmin.2.1 ≤ bmax.2.1) (h3 : bmin.2.2 ≤ bmax.2.2)
    (p : K × K × K) (hp : inBox bmin bmax p) : ∃ v ∈ g, inBox v.1 v.2 p := by
  obtain ⟨_, r0, r1, r2, e0, e1, e2, hg⟩ := generateVoxelGrid_some bmin bmax sz useCubes fuel g h
  obtain ⟨s1, s2, s3⟩ := voxelSteps_nonneg bmin bmax sz useCubes h1 h2 h3
  obtain ⟨⟨p1a, p1b⟩, ⟨p2a, p2b⟩, ⟨p3a, p3b⟩⟩ := hp
  obtain ⟨u, hu, hu1, hu2⟩ := frange_covers _ _ _ s1 fuel r0 e0 p.1 p1a p1b
  obtain ⟨v, hv, hv1, hv2⟩ := frange_covers _ _ _ s2 fuel r1 e1 p.2.1 p2a p2b
  obtain ⟨w, hw, hw1, hw2⟩ := frange_covers _ _ _ s3 fuel r2 e2 p.2.2 p3a p3b
  refine ⟨((u, v, w), (u + (voxelSteps bmin bmax sz useCubes).1, v + (voxelSteps bmin bmax sz useCubes).2.1,
          w + (voxelSteps bmin bmax sz useCubes).2.2)), ?_, ⟨hu1, hu2⟩, ⟨hv1, hv2⟩, ⟨hw1, hw2⟩⟩
  rw [hg]
  simp only [List.mem_flatMap, List.mem_map]
  exact ⟨u, hu, v, hv, w, hw, rfl⟩

/-- every voxel of the grid has the step sizes as its extent -/
theorem generateVoxelGrid_extent (bmin bmax : K × K × K) (sz : ℕ × ℕ × ℕ) (useCubes : Bool) (fuel : ℕ)
    (g : List ((K × K × K) × (K × K × K))) (h : generateVoxelGrid bmin bmax sz useCubes fuel = some g) :
    ∀ v ∈ g, v.2 = (v.1.1 + (voxelSteps bmin bmax sz useCubes).1, v.1.2.1 + (voxelSteps bmin bmax sz useCubes).2.1,
      v.1.2.2 + (voxelSteps bmin bmax sz useCubes).2.2) := by
  obtain ⟨_, r0, r1, r2, e0, e1, e2, hg⟩ := generateVoxelGrid_some bmin bmax sz useCubes fuel g h
  intro v hv
  rw [hg] at hv
  simp only [List.mem_flatMap, List.mem_map] at hv
  obtain ⟨u, _, v', _, w, _, rfl⟩ := hv
  rfl

/-- `voxelize`: voxel `i` is marked filled exactly when some sampled point lies inside the padded
    voxel (positive padding, non-inverted bounding box) -/
theorem voxelize_filled_iff (bmin bmax : K × K × K) (pts : List (K × K × K)) (sz : ℕ × ℕ × ℕ) (useCubes : Bool)
    (tol : K) (fuel : ℕ) (g : List ((K × K × K) × (K × K × K))) (f : List ℕ)
    (h : voxelize bmin bmax pts sz useCubes tol fuel = some (g, f)) (ht : 0 < tol)
    (h1 : bmin.1 ≤ bmax.1) (h2 : bmin.2.1 ≤ bmax.2.1) (h3 : bmin.2.2 ≤ bmax.2.2) :
    f.length = g.length ∧
    ∀ (i : ℕ) bb, g[i]? = some bb → (f[i]? = some 1 ↔ ∃ pt ∈ pts, inPadded bb tol pt) := by
  unfold voxelize at h
  cases hg : generateVoxelGrid bmin bmax sz useCubes fuel with
  | none => rw [hg] at h; simp at h
  | some g' =>
    rw [hg] at h
    simp only [Option.map_some, Option.some.injEq, Prod.mk.injEq] at h
    obtain ⟨rfl, rfl⟩ := h
    refine ⟨findInouts_length _ _ _, ?_⟩
    intro i bb hbb
    obtain ⟨s1, s2, s3⟩ := voxelSteps_nonneg bmin bmax sz useCubes h1 h2 h3
    have hext := generateVoxelGrid_extent bmin bmax sz useCubes fuel g' hg bb (List.mem_of_getElem? hbb)
    rw [findInouts_getElem? g' pts tol i bb hbb]
    have hw1 : bb.1.1 - tol < bb.2.1 + tol := by rw [hext]; simp only; linarith
    have hw2 : bb.1.2.1 - tol < bb.2.2.1 + tol := by rw [hext]; simp only; linarith
    have hw3 : bb.1.2.2 - tol < bb.2.2.2 + tol := by rw [hext]; simp only; linarith
    rw [← isPointInsideVoxel_iff bb pts tol hw1 hw2 hw3]
    cases isPointInsideVoxel bb pts tol <;> simp

/-- `voxelize`: every sampled point inside the bounding box lies in a voxel that is marked filled -/
theorem voxelize_point_filled (bmin bmax : K × K × K) (pts : List (K × K × K)) (sz : ℕ × ℕ × ℕ) (useCubes : Bool)
    (tol : K) (fuel : ℕ) (g : List ((K × K × K) × (K × K × K))) (f : List ℕ)
    (h : voxelize bmin bmax pts sz useCubes tol fuel = some (g, f)) (ht : 0 < tol)
    (h1 : bmin.1 ≤ bmax.1) (h2 : bmin.2.1 ≤ bmax.2.1) (h3 : bmin.2.2 ≤ bmax.2.2)
    (pt : K × K × K) (hpt : pt ∈ pts) (hin : inBox bmin bmax pt) :
    ∃ (i : ℕ) (bb : (K × K × K) × (K × K × K)), g[i]? = some bb ∧ f[i]? = some 1 ∧ inPadded bb tol pt := by
  have hfill := (voxelize_filled_iff bmin bmax pts sz useCubes tol fuel g f h ht h1 h2 h3).2
  unfold voxelize at h
  cases hg : generateVoxelGrid bmin bmax sz useCubes fuel with
  | none => rw [hg] at h; simp at h
  | some g' =>
    rw [hg] at h
    simp only [Option.map_some, Option.some.injEq, Prod.mk.injEq] at h
    obtain ⟨rfl, rfl⟩ := h
    obtain ⟨bb, hbb, ⟨⟨a1, a2⟩, ⟨a3, a4⟩, ⟨a5, a6⟩⟩⟩ := generateVoxelGrid_covers bmin bmax sz useCubes fuel g' hg h1 h2 h3 pt hin
    obtain ⟨i, hi⟩ := List.getElem?_of_mem hbb
    have hpad : inPadded bb tol pt :=
      ⟨⟨by linarith, by linarith⟩, ⟨by linarith, by linarith⟩, ⟨by linarith, by linarith⟩⟩
    exact ⟨i, bb, hi, (hfill i bb hi).mpr ⟨pt, hpt, hpad⟩, hpad⟩

theorem length_flatMap_const {α β : Type} (l : List α) (f : α → List β) (c : ℕ)
    (h : ∀ a ∈ l, (f a).length = c) : (l.flatMap f).length = l.length * c := by
  induction l with
  | nil => simp
  | cons a l ih =>
    rw [List.flatMap_cons, List.length_append, h a List.mem_cons_self,
      ih (fun b hb => h b (List.mem_cons_of_mem _ hb)), List.length_cons]
    ring

theorem frange_grid_axis (lo hi : K) (n fuel : ℕ) (hn : 2 ≤ n) (hlt : lo < hi) (hf : n ≤ fuel) :
    frange lo hi ((hi - lo) / ((n - 1 : ℕ) : K)) fuel
      = some ((List.range n).map (fun (j : ℕ) => lo + (j : K) * ((hi - lo) / ((n - 1 : ℕ) : K)))) := by
  have hpos : (0 : K) < ((n - 1 : ℕ) : K) := by
    have : 0 < n - 1 := by omega
    exact_mod_cast this
  have hs : 0 < (hi - lo) / ((n - 1 : ℕ) : K) := div_pos (sub_pos.mpr hlt) hpos
  have hb : lo + ((n - 1 : ℕ) : K) * ((hi - lo) / ((n - 1 : ℕ) : K)) = hi := by
    field_simp; ring
  have h := frange_exact lo _ hs (n - 1) fuel (by omega)
  rw [hb] at h
  have e : n - 1 + 1 = n := by omega
  rw [e] at h
  exact h

/-- cuboid voxels, a bounding box of positive extent in every direction: the grid is the full
    product of `size` values per axis (`min + j·step`, `j < size`), hence has `s₀·s₁·s₂` voxels -/
theorem generateVoxelGrid_cuboid (bmin bmax : K × K × K) (sz : ℕ × ℕ × ℕ) (fuel : ℕ)
    (hs1 : 2 ≤ sz.1) (hs2 : 2 ≤ sz.2.1) (hs3 : 2 ≤ sz.2.2)
    (h1 : bmin.1 < bmax.1) (h2 : bmin.2.1 < bmax.2.1) (h3 : bmin.2.2 < bmax.2.2)
    (hf1 : sz.1 ≤ fuel) (hf2 : sz.2.1 ≤ fuel) (hf3 : sz.2.2 ≤ fuel) :
    let s := voxelSteps bmin bmax sz false
    ∃ g, generateVoxelGrid bmin bmax sz false fuel = some g ∧
      g = (List.range sz.1).flatMap (fun (i : ℕ) => (List.range sz.2.1).flatMap (fun (j : ℕ) => (List.range sz.2.2).map (fun (k : ℕ) =>
        ((bmin.1 + (i : K) * s.1, bmin.2.1 + (j : K) * s.2.1, bmin.2.2 + (k : K) * s.2.2),
         (bmin.1 + (i : K) * s.1 + s.1, bmin.2.1 + (j : K) * s.2.1 + s.2.1, bmin.2.2 + (k : K) * s.2.2 + s.2.2))))) ∧
      g.length = sz.1 * (sz.2.1 * sz.2.2) := by
  intro s
  have e1 := frange_grid_axis bmin.1 bmax.1 sz.1 fuel hs1 h1 hf1
  have e2 := frange_grid_axis bmin.2.1 bmax.2.1 sz.2.1 fuel hs2 h2 hf2
  have e3 := frange_grid_axis bmin.2.2 bmax.2.2 sz.2.2 fuel hs3 h3 hf3
  have hg : ¬ (sz.1 ≤ 1 ∨ sz.2.1 ≤ 1 ∨ sz.2.2 ≤ 1) := by omega
  refine ⟨_, ?_, rfl, ?_⟩
  · unfold generateVoxelGrid
    rw [if_neg hg]
    simp only [Bool.false_eq_true, if_false]
    rw [e1, e2, e3]
    simp only [s, voxelSteps, Bool.false_eq_true, if_false, List.flatMap_map, List.map_map]
    rfl
  · rw [length_flatMap_const _ _ (sz.2.1 * sz.2.2), List.length_range]
    intro i _
    rw [length_flatMap_const _ _ sz.2.2, List.length_range]
    intro j _
    simp

end Geomdl
