import NurbsVerif.Model.Fitting
import NurbsVerif.Lemmas.LinalgSolve
import NurbsVerif.Lemmas.LinalgHelpers
import NurbsVerif.Lemmas.FitLsq
import NurbsVerif.Lemmas.FitParams

/-! `fitting.approximate_curve`: the interior control points solve the normal equations `NᵀN x = Nᵀ R`
    (whenever the LU solver returns), hence minimise the sum of squared residuals. -/
namespace Geomdl
open Finset Lin
variable {K : Type} [Field K] [LinearOrder K] [IsStrictOrderedRing K]

theorem ent_map_range' (a r b c : ℕ) (f : ℕ → ℕ → K) (i j : ℕ) (hi : i < r) (hj : j < c) :
    ent ((List.range' a r).map (fun i => (List.range' b c).map (fun j => f i j))) i j = f (a + i) (b + j) := by
  simp [ent, List.getD_eq_getElem?_getD, List.getElem?_map, List.getElem?_range' hi, List.getElem?_range' hj]

theorem ent_map_range'_range (a r c : ℕ) (f : ℕ → ℕ → K) (i j : ℕ) (hi : i < r) (hj : j < c) :
    ent ((List.range' a r).map (fun i => (List.range c).map (fun j => f i j))) i j = f (a + i) j := by
  simp [ent, List.getD_eq_getElem?_getD, List.getElem?_map, List.getElem?_range' hi, List.getElem?_range hj]

/-! ### the pieces of `approximateCurve` -/

/-- the matrix `N` of `approximate_curve` (rows: interior data points, columns: interior basis functions) -/
def apxN (p : ℕ) (U : ℕ → K) (m : ℕ) (uk : List K) (nd nc : ℕ) : List (List K) :=
  (List.range' 1 (nd - 2)).map (fun i =>
    (List.range' 1 (nc - 2)).map (fun j => basisFunOne p U m j (uk.getD i 0)))

/-- the list `rk` (Eq. 9.63) -/
def apxRk (p : ℕ) (U : ℕ → K) (m : ℕ) (uk : List K) (pts : List (List K)) (nc : ℕ) : List (List K) :=
  (List.range' 1 (pts.length - 2)).map (fun i =>
    (List.range (pts.headD []).length).map (fun c =>
      (pts.getD i []).getD c 0 - (pts.headD []).getD c 0 * basisFunOne p U m 0 (uk.getD i 0)
        - (pts.getLastD []).getD c 0 * basisFunOne p U m (nc - 1) (uk.getD i 0)))

/-- the right-hand side `R` (Eq. 9.67) -/
def apxR (p : ℕ) (U : ℕ → K) (m : ℕ) (uk : List K) (pts : List (List K)) (nc : ℕ) : List (List K) :=
  (List.range' 1 (nc - 2)).map (fun i =>
    (List.range (pts.headD []).length).map (fun c =>
      sumL ((List.range (pts.length - 2)).map (fun idx =>
        ((apxRk p U m uk pts nc).getD idx []).getD c 0 * basisFunOne p U m i (uk.getD (idx + 1) 0)))))

theorem approximateCurve_eq (p : ℕ) (pts : List (List K)) (cds : List K) (nc : ℕ) (fl : K → ℕ) :
    approximateCurve p pts cds nc fl =
      (let uk := computeParams cds
       let kv := computeKnotVector2 p pts.length nc uk fl
       let N := apxN p (fnOf kv) kv.length uk pts.length nc
       match luSolve (matrixMultiply (matrixTranspose N) N) (apxR p (fnOf kv) kv.length uk pts nc) with
       | none => none
       | some x => some (kv, [pts.headD []] ++ x ++ [pts.getLastD []])) := rfl

section pieces
variable (p : ℕ) (U : ℕ → K) (m : ℕ) (uk : List K) (pts : List (List K)) (nc : ℕ)

theorem apxN_length (nd : ℕ) : (apxN p U m uk nd nc).length = nd - 2 := by simp [apxN]

theorem apxN_head_length (nd : ℕ) (h : 0 < nd - 2) : ((apxN p U m uk nd nc).headD []).length = nc - 2 := by
  unfold apxN
  obtain ⟨q, hq⟩ : ∃ q, nd - 2 = q + 1 := ⟨nd - 2 - 1, by omega⟩
  rw [hq]
  simp [List.range'_succ]

theorem apxN_ent (nd k j : ℕ) (hk : k < nd - 2) (hj : j < nc - 2) :
    ent (apxN p U m uk nd nc) k j = basisFunOne p U m (1 + j) (uk.getD (1 + k) 0) :=
  ent_map_range' 1 (nd - 2) 1 (nc - 2) (fun i j => basisFunOne p U m j (uk.getD i 0)) k j hk hj

theorem apxRk_ent (k c : ℕ) (hk : k < pts.length - 2) (hc : c < (pts.headD []).length) :
    ent (apxRk p U m uk pts nc) k c =
      (pts.getD (1 + k) []).getD c 0 - (pts.headD []).getD c 0 * basisFunOne p U m 0 (uk.getD (1 + k) 0)
        - (pts.getLastD []).getD c 0 * basisFunOne p U m (nc - 1) (uk.getD (1 + k) 0) :=
  ent_map_range'_range 1 (pts.length - 2) (pts.headD []).length _ k c hk hc

theorem apxR_length : (apxR p U m uk pts nc).length = nc - 2 := by simp [apxR]

theorem apxR_head_length (h : 0 < nc - 2) : ((apxR p U m uk pts nc).headD []).length = (pts.headD []).length := by
  unfold apxR
  obtain ⟨q, hq⟩ : ∃ q, nc - 2 = q + 1 := ⟨nc - 2 - 1, by omega⟩
  rw [hq]
  simp [List.range'_succ]

theorem apxR_ent (i c : ℕ) (hi : i < nc - 2) (hc : c < (pts.headD []).length) :
    ent (apxR p U m uk pts nc) i c =
      ∑ k ∈ range (pts.length - 2), ent (apxRk p U m uk pts nc) k c * basisFunOne p U m (1 + i) (uk.getD (k + 1) 0) := by
  unfold apxR
  rw [ent_map_range'_range 1 (nc - 2) (pts.headD []).length _ i c hi hc, sumL_map_range]
  rfl

/-- entries of `NᵀN` -/
theorem apxNTN_ent (nd i j : ℕ) (hnd : 0 < nd - 2) (hi : i < nc - 2) (hj : j < nc - 2) :
    ent (matrixMultiply (matrixTranspose (apxN p U m uk nd nc)) (apxN p U m uk nd nc)) i j =
      ∑ k ∈ range (nd - 2), ent (apxN p U m uk nd nc) k i * ent (apxN p U m uk nd nc) k j := by
  have hh := apxN_head_length p U m uk nc nd hnd
  rw [matrixMultiply_ent _ _ i j (by rw [matrixTranspose_length, hh]; exact hi) (by rw [hh]; exact hj), apxN_length]
  apply sum_congr rfl
  intro k hk
  rw [matrixTranspose_ent _ i k (by rw [hh]; exact hi) (by rw [apxN_length]; exact mem_range.mp hk)]

theorem apxNTN_length (nd : ℕ) (hnc : nc ≤ nd) :
    (matrixMultiply (matrixTranspose (apxN p U m uk nd nc)) (apxN p U m uk nd nc)).length = nc - 2 := by
  rw [matrixMultiply_length, matrixTranspose_length]
  by_cases h : 0 < nd - 2
  · exact apxN_head_length p U m uk nc nd h
  · have h0 : nd - 2 = 0 := by omega
    simp [apxN, h0]
    omega

end pieces

/-- **`approximate_curve` solves the normal equations**: whenever the solver returns, the control
    polygon is `Q₀ :: x ++ [Q_m]` with `nc − 2` interior points `x` and, coordinate by coordinate,
    `NᵀN x = Nᵀ Rk` for `N k j = N_{j+1,p}(ū_{k+1})` (as computed by `basis_function_one`) and
    `Rk k = Q_{k+1} − N_{0,p}(ū_{k+1}) Q₀ − N_{nc−1,p}(ū_{k+1}) Q_m`. -/
theorem approximateCurve_normal (p : ℕ) (pts : List (List K)) (cds : List K) (nc : ℕ) (fl : K → ℕ)
    (kv : List K) (cp : List (List K)) (hnc : nc ≤ pts.length)
    (h : approximateCurve p pts cds nc fl = some (kv, cp)) :
    kv = computeKnotVector2 p pts.length nc (computeParams cds) fl ∧
    ∃ x : List (List K), cp = [pts.headD []] ++ x ++ [pts.getLastD []] ∧ x.length = nc - 2 ∧
      (∀ row ∈ x, row.length = (pts.headD []).length) ∧
      ∀ c, c < (pts.headD []).length →
        Lsq.Normal (pts.length - 2) (nc - 2)
          (fun k j => basisFunOne p (fnOf kv) kv.length (1 + j) ((computeParams cds).getD (1 + k) 0))
          (fun k => (pts.getD (1 + k) []).getD c 0
              - (pts.headD []).getD c 0 * basisFunOne p (fnOf kv) kv.length 0 ((computeParams cds).getD (1 + k) 0)
              - (pts.getLastD []).getD c 0 * basisFunOne p (fnOf kv) kv.length (nc - 1) ((computeParams cds).getD (1 + k) 0))
          (fun j => ent x j c) := by
  rw [approximateCurve_eq] at h
  simp only [] at h
  split at h
  · exact absurd h (by simp)
  · rename_i x hsolve
    injection h with h'
    injection h' with hkv hcp
    subst hkv
    have hxl : x.length = nc - 2 := by
      have := (luSolve_correct _ _ x (by rw [apxR_length, apxNTN_length _ _ _ _ _ _ hnc]) hsolve).1
      rw [this, apxNTN_length _ _ _ _ _ _ hnc]
    refine ⟨rfl, x, hcp.symm, hxl, ?_, ?_⟩
    · intro row hrow
      have hpos : 0 < nc - 2 := by
        rw [← hxl]; exact List.length_pos_of_mem hrow
      have hshape : ∀ r ∈ x, r.length = ((apxR p (fnOf (computeKnotVector2 p pts.length nc (computeParams cds) fl))
          (computeKnotVector2 p pts.length nc (computeParams cds) fl).length (computeParams cds) pts nc).headD []).length := by
        have hs := hsolve
        unfold luSolve solveColumns at hs
        simp only [] at hs
        split at hs
        · exact absurd hs (by simp)
        · injection hs with hs'
          subst hs'
          exact tabulate_row_length _ _ _
      rw [hshape row hrow, apxR_head_length _ _ _ _ _ _ hpos]
    · intro c hc i hi
      set uk := computeParams cds with huk
      set kv := computeKnotVector2 p pts.length nc uk fl with hkvdef
      have hnd : 0 < pts.length - 2 := by omega
      obtain ⟨_, _, hsol⟩ := luSolve_correct _ _ x (by rw [apxR_length, apxNTN_length _ _ _ _ _ _ hnc]) hsolve
      rw [apxNTN_length _ _ _ _ _ _ hnc] at hsol
      have hs := hsol i hi c (by rw [apxR_head_length _ _ _ _ _ _ (by omega)]; exact hc)
      rw [apxR_ent _ _ _ _ _ _ i c hi hc] at hs
      have e1 : ∀ j ∈ range (nc - 2),
          ent (matrixMultiply (matrixTranspose (apxN p (fnOf kv) kv.length uk pts.length nc))
              (apxN p (fnOf kv) kv.length uk pts.length nc)) i j * ent x j c
          = (∑ k ∈ range (pts.length - 2),
              basisFunOne p (fnOf kv) kv.length (1 + i) (uk.getD (1 + k) 0)
                * basisFunOne p (fnOf kv) kv.length (1 + j) (uk.getD (1 + k) 0)) * ent x j c := by
        intro j hj
        rw [apxNTN_ent _ _ _ _ _ _ i j hnd hi (mem_range.mp hj)]
        congr 1
        apply sum_congr rfl
        intro k hk
        rw [apxN_ent _ _ _ _ _ _ k i (mem_range.mp hk) hi, apxN_ent _ _ _ _ _ _ k j (mem_range.mp hk) (mem_range.mp hj)]
      rw [sum_congr rfl e1] at hs
      rw [hs]
      apply sum_congr rfl
      intro k hk
      rw [apxRk_ent _ _ _ _ _ _ k c (mem_range.mp hk) hc, Nat.add_comm k 1]
      ring

end Geomdl

/-! ### the sum of squared residuals -/
namespace Geomdl
open Finset Lin
variable {K : Type} [Field K] [LinearOrder K] [IsStrictOrderedRing K]

/-- `Σ_{k=1}^{nd−2} |Q_k − C(ū_k)|²` for the curve `C(u) = Σ_j N_{j,p}(u) P_j` with control polygon `P`
    (`N_{j,p}` as computed by `basis_function_one` on `m` knots), points with `d` coordinates -/
def lsqError (p : ℕ) (U : ℕ → K) (m : ℕ) (uk : List K) (pts : List (List K)) (d : ℕ) (P : List (List K)) : K :=
  ∑ k ∈ Ico 1 (pts.length - 1), ∑ c ∈ range d,
    ((ptsGet pts k).getD c 0
      - ∑ j ∈ range P.length, basisFunOne p U m j (uk.getD k 0) * (ptsGet P j).getD c 0) ^ 2

theorem sum_ends (n : ℕ) (f : ℕ → K) :
    ∑ j ∈ range (n + 2), f j = f 0 + ∑ j ∈ range n, f (1 + j) + f (n + 1) := by
  rw [sum_range_succ, sum_range_succ']
  have : ∑ k ∈ range n, f (k + 1) = ∑ j ∈ range n, f (1 + j) :=
    sum_congr rfl (fun j _ => by rw [Nat.add_comm])
  rw [this]; ring

theorem ends_get (a b : List K) (y : List (List K)) :
    ptsGet ([a] ++ y ++ [b]) 0 = a ∧ (∀ j, j < y.length → ptsGet ([a] ++ y ++ [b]) (1 + j) = y.getD j []) ∧
    ptsGet ([a] ++ y ++ [b]) (y.length + 1) = b ∧ ([a] ++ y ++ [b]).length = y.length + 2 := by
  refine ⟨by simp [ptsGet], ?_, ?_, by simp⟩
  · intro j hj
    have e : 1 + j = j + 1 := by omega
    simp [ptsGet, e, List.getD_eq_getElem?_getD, List.getElem?_append_left hj]
  · simp [ptsGet, List.getD_eq_getElem?_getD]

/-- the residual at an interior data point, in terms of `Rk` and the interior control points -/
theorem residual_split (B : ℕ → K) (q a b : List K) (y : List (List K)) (c : ℕ) :
    q.getD c 0 - ∑ j ∈ range ([a] ++ y ++ [b]).length, B j * (ptsGet ([a] ++ y ++ [b]) j).getD c 0
      = -(∑ j ∈ range y.length, B (1 + j) * ent y j c
          - (q.getD c 0 - a.getD c 0 * B 0 - b.getD c 0 * B (y.length + 1))) := by
  obtain ⟨h0, h1, h2, h3⟩ := ends_get a b y
  rw [h3, sum_ends, h0, h2]
  have : ∑ j ∈ range y.length, B (1 + j) * (ptsGet ([a] ++ y ++ [b]) (1 + j)).getD c 0
      = ∑ j ∈ range y.length, B (1 + j) * ent y j c := by
    apply sum_congr rfl
    intro j hj
    rw [h1 j (mem_range.mp hj)]
    rfl
  rw [this]; ring

/-- `lsqError` of the polygon `a :: y ++ [b]` as the least-squares objective `Σ_c ‖N y_c − r_c‖²` -/
theorem lsqError_ends (p : ℕ) (U : ℕ → K) (m : ℕ) (uk : List K) (pts : List (List K)) (d : ℕ)
    (a b : List K) (y : List (List K)) :
    lsqError p U m uk pts d ([a] ++ y ++ [b])
      = ∑ c ∈ range d, ∑ k ∈ range (pts.length - 2),
          (∑ j ∈ range y.length, basisFunOne p U m (1 + j) (uk.getD (1 + k) 0) * ent y j c
            - ((pts.getD (1 + k) []).getD c 0 - a.getD c 0 * basisFunOne p U m 0 (uk.getD (1 + k) 0)
                - b.getD c 0 * basisFunOne p U m (y.length + 1) (uk.getD (1 + k) 0))) ^ 2 := by
  unfold lsqError
  rw [sum_Ico_eq_sum_range, show pts.length - 1 - 1 = pts.length - 2 by omega, sum_comm]
  apply sum_congr rfl; intro c _
  apply sum_congr rfl; intro k _
  rw [show ptsGet pts (1 + k) = pts.getD (1 + k) [] from rfl,
    residual_split (fun j => basisFunOne p U m j (uk.getD (1 + k) 0)) _ a b y c, neg_sq]

/-- **`approximate_curve` minimises**: among all control polygons with the same end points and
    `nc − 2` interior points, the returned one has the least sum of squared residuals. -/
theorem approximateCurve_minimises (p : ℕ) (pts : List (List K)) (cds : List K) (nc : ℕ) (fl : K → ℕ)
    (kv : List K) (cp : List (List K)) (hnc2 : 2 ≤ nc) (hnc : nc ≤ pts.length)
    (h : approximateCurve p pts cds nc fl = some (kv, cp)) (y : List (List K)) (hy : y.length = nc - 2) :
    lsqError p (fnOf kv) kv.length (computeParams cds) pts (pts.headD []).length cp
      ≤ lsqError p (fnOf kv) kv.length (computeParams cds) pts (pts.headD []).length
          ([pts.headD []] ++ y ++ [pts.getLastD []]) := by
  obtain ⟨_, x, hcp, hxl, _, hnorm⟩ := approximateCurve_normal p pts cds nc fl kv cp hnc h
  rw [hcp, lsqError_ends, lsqError_ends, hxl, hy]
  apply sum_le_sum
  intro c hc
  have e : nc - 2 + 1 = nc - 1 := by omega
  rw [e]
  exact Lsq.minimises _ _ _ _ _ (fun j => ent y j c) (hnorm c (mem_range.mp hc))

/-- **normal equations, residual form**: the residual `Q_k − C(ū_k)` of the returned curve is
    orthogonal to every interior basis function. -/
theorem approximateCurve_orthogonal (p : ℕ) (pts : List (List K)) (cds : List K) (nc : ℕ) (fl : K → ℕ)
    (kv : List K) (cp : List (List K)) (hnc2 : 2 ≤ nc) (hnc : nc ≤ pts.length)
    (h : approximateCurve p pts cds nc fl = some (kv, cp)) (i : ℕ) (hi1 : 1 ≤ i) (hi2 : i + 1 < nc)
    (c : ℕ) (hc : c < (pts.headD []).length) :
    ∑ k ∈ Ico 1 (pts.length - 1), basisFunOne p (fnOf kv) kv.length i ((computeParams cds).getD k 0) *
      ((ptsGet pts k).getD c 0
        - ∑ j ∈ range cp.length, basisFunOne p (fnOf kv) kv.length j ((computeParams cds).getD k 0) * (ptsGet cp j).getD c 0) = 0 := by
  obtain ⟨_, x, hcp, hxl, _, hnorm⟩ := approximateCurve_normal p pts cds nc fl kv cp hnc h
  have ho := (Lsq.normal_iff_orthogonal _ _ _ _ _).mp (hnorm c hc) (i - 1) (by omega)
  rw [sum_Ico_eq_sum_range, show pts.length - 1 - 1 = pts.length - 2 by omega]
  have e : nc - 2 + 1 = nc - 1 := by omega
  have e2 : 1 + (i - 1) = i := by omega
  rw [e2] at ho
  rw [← neg_eq_zero, ← sum_neg_distrib]
  refine Eq.trans (sum_congr rfl ?_) ho
  intro k _
  rw [hcp, show ptsGet pts (1 + k) = pts.getD (1 + k) [] from rfl,
    residual_split (fun j => basisFunOne p (fnOf kv) kv.length j ((computeParams cds).getD (1 + k) 0)) _ _ _ x c, hxl, e]
  ring

end Geomdl
