/-
  Lemmas for C13 (control-net layout), part 1: the index arithmetic `v + sv*(u + su*w)` and the
  loop-nest tables `tab2` / `tab3` / `grid2`.
-/
import NurbsVerif.Model.Layout
import Mathlib.Tactic.Ring
import Mathlib.Tactic.Linarith

namespace Geomdl
variable {α κ : Type}

/-! ### `flatIdx2`, `flatIdx3`: range, inverse by div/mod, injectivity -/

theorem flatIdx2_lt {su sv u v : ℕ} (hu : u < su) (hv : v < sv) : flatIdx2 sv u v < su * sv := by
  unfold flatIdx2
  have h : sv * (u + 1) ≤ sv * su := Nat.mul_le_mul_left sv hu
  have e : su * sv = sv * su := Nat.mul_comm _ _
  rw [e]; rw [Nat.mul_add, Nat.mul_one] at h; omega

theorem flatIdx2_div {sv u v : ℕ} (hv : v < sv) : flatIdx2 sv u v / sv = u := by
  unfold flatIdx2
  rw [Nat.add_mul_div_left _ _ (by omega : 0 < sv), Nat.div_eq_of_lt hv, Nat.zero_add]

theorem flatIdx2_mod {sv u v : ℕ} (hv : v < sv) : flatIdx2 sv u v % sv = v := by
  unfold flatIdx2
  rw [Nat.add_mul_mod_self_left, Nat.mod_eq_of_lt hv]

theorem flatIdx2_inj {sv u v u' v' : ℕ} (hv : v < sv) (hv' : v' < sv)
    (h : flatIdx2 sv u v = flatIdx2 sv u' v') : u = u' ∧ v = v' := by
  constructor
  · rw [← flatIdx2_div (u := u) hv, ← flatIdx2_div (u := u') hv', h]
  · rw [← flatIdx2_mod (u := u) hv, ← flatIdx2_mod (u := u') hv', h]

/-- every index below `su*sv` is the flat index of exactly the pair `(i / sv, i % sv)` -/
theorem flatIdx2_divmod {su sv i : ℕ} (hi : i < su * sv) :
    i / sv < su ∧ i % sv < sv ∧ flatIdx2 sv (i / sv) (i % sv) = i := by
  have hsv : 0 < sv := by
    rcases Nat.eq_zero_or_pos sv with h | h
    · subst h; simp at hi
    · exact h
  refine ⟨(Nat.div_lt_iff_lt_mul hsv).2 hi, Nat.mod_lt _ hsv, ?_⟩
  unfold flatIdx2; exact Nat.mod_add_div i sv

theorem flatIdx3_eq (su sv u v w : ℕ) : flatIdx3 su sv u v w = flatIdx2 sv (flatIdx2 su w u) v := rfl

theorem flatIdx3_lt {su sv sw u v w : ℕ} (hu : u < su) (hv : v < sv) (hw : w < sw) :
    flatIdx3 su sv u v w < su * sv * sw := by
  rw [flatIdx3_eq]
  have h1 : flatIdx2 su w u < sw * su := flatIdx2_lt hw hu
  have h2 := flatIdx2_lt (su := sw * su) (sv := sv) h1 hv
  have e : su * sv * sw = sw * su * sv := by ring
  rw [e]; exact h2

theorem flatIdx3_inj {su sv u v w u' v' w' : ℕ} (hu : u < su) (hu' : u' < su) (hv : v < sv) (hv' : v' < sv)
    (h : flatIdx3 su sv u v w = flatIdx3 su sv u' v' w') : u = u' ∧ v = v' ∧ w = w' := by
  rw [flatIdx3_eq, flatIdx3_eq] at h
  obtain ⟨h1, h2⟩ := flatIdx2_inj hv hv' h
  obtain ⟨h3, h4⟩ := flatIdx2_inj hu hu' h1
  exact ⟨h4, h2, h3⟩

/-- every index below `su*sv*sw` is the flat index of exactly `(i / sv % su, i % sv, i / sv / su)` -/
theorem flatIdx3_divmod {su sv sw i : ℕ} (hi : i < su * sv * sw) :
    i / sv % su < su ∧ i % sv < sv ∧ i / sv / su < sw ∧
      flatIdx3 su sv (i / sv % su) (i % sv) (i / sv / su) = i := by
  have e : su * sv * sw = sw * su * sv := by ring
  rw [e] at hi
  obtain ⟨h1, h2, h3⟩ := flatIdx2_divmod hi
  obtain ⟨h4, h5, h6⟩ := flatIdx2_divmod h1
  refine ⟨h5, h2, h4, ?_⟩
  rw [flatIdx3_eq, h6, h3]

/-! ### blocks of constant length -/

theorem length_flatMap_range (g : ℕ → List α) (n : ℕ) :
    ∀ C, (∀ c < C, (g c).length = n) → ((List.range C).flatMap g).length = n * C
  | 0, _ => by simp
  | C+1, h => by
      rw [List.range_succ, List.flatMap_append, List.length_append, List.flatMap_singleton,
        length_flatMap_range g n C (fun c hc => h c (by omega)), h C (by omega), Nat.mul_succ]

theorem getElem?_flatMap_range (g : ℕ → List α) (n : ℕ) :
    ∀ C, (∀ c < C, (g c).length = n) → ∀ c r, c < C → r < n →
      ((List.range C).flatMap g)[r + n * c]? = (g c)[r]?
  | 0, _, c, r, hc, _ => by omega
  | C+1, h, c, r, hc, hr => by
      have hl := length_flatMap_range g n C (fun c hc => h c (by omega))
      rw [List.range_succ, List.flatMap_append, List.flatMap_singleton]
      by_cases hcC : c < C
      · have hlt : r + n * c < n * C := by
          have : n * (c + 1) ≤ n * C := Nat.mul_le_mul_left n hcC
          rw [Nat.mul_add, Nat.mul_one] at this; omega
        rw [List.getElem?_append_left (by rw [hl]; exact hlt)]
        exact getElem?_flatMap_range g n C (fun c hc => h c (by omega)) c r hcC hr
      · have hc' : c = C := by omega
        subst hc'
        rw [List.getElem?_append_right (by rw [hl]; omega), hl]
        congr 1; omega

/-! ### `tab2`, `grid2` -/

theorem length_tab2 (A B : ℕ) (f : ℕ → ℕ → α) : (tab2 A B f).length = A * B := by
  unfold tab2
  rw [length_flatMap_range _ B A (fun c _ => by simp), Nat.mul_comm]

theorem getElem?_tab2 {A B : ℕ} (f : ℕ → ℕ → α) {a b : ℕ} (ha : a < A) (hb : b < B) :
    (tab2 A B f)[b + B * a]? = some (f a b) := by
  unfold tab2
  rw [getElem?_flatMap_range _ B A (fun c _ => by simp) a b ha hb]
  simp [hb]

theorem getD_tab2 {A B : ℕ} (f : ℕ → ℕ → α) {a b : ℕ} (ha : a < A) (hb : b < B) (d : α) :
    (tab2 A B f).getD (b + B * a) d = f a b := by
  rw [List.getD_eq_getElem?_getD, getElem?_tab2 f ha hb]; rfl

/-- a list of length `A*B` is determined by its entries at the flat indices -/
theorem eq_tab2 {A B : ℕ} {f : ℕ → ℕ → α} {L : List α} (hl : L.length = A * B)
    (h : ∀ a < A, ∀ b < B, L[b + B * a]? = some (f a b)) : L = tab2 A B f := by
  apply List.ext_getElem?
  intro i
  by_cases hi : i < A * B
  · obtain ⟨h1, h2, h3⟩ := flatIdx2_divmod hi
    unfold flatIdx2 at h3
    rw [← h3, h _ h1 _ h2, getElem?_tab2 f h1 h2]
  · rw [List.getElem?_eq_none (by omega), List.getElem?_eq_none (by rw [length_tab2]; omega)]

theorem tab2_congr {A B : ℕ} {f g : ℕ → ℕ → α} (h : ∀ a < A, ∀ b < B, f a b = g a b) :
    tab2 A B f = tab2 A B g := by
  apply eq_tab2 (length_tab2 A B f)
  intro a ha b hb
  rw [getElem?_tab2 f ha hb, h a ha b hb]

theorem getElem?_of_getD [Inhabited α] {P : List α} {i : ℕ} (hi : i < P.length) :
    P[i]? = some (P.getD i default) := by
  rw [List.getD_eq_getElem?_getD, List.getElem?_eq_getElem hi]; rfl

/-- reading a flat net in loop order `for a: for b:` at `b + B*a` reproduces it -/
theorem tab2_getD_self [Inhabited α] {A B : ℕ} {P : List α} (h : P.length = A * B) :
    tab2 A B (fun a b => P.getD (b + B * a) default) = P := by
  symm
  apply eq_tab2 h
  intro a ha b hb
  exact getElem?_of_getD (by rw [h]; exact flatIdx2_lt ha hb)

theorem length_grid2 (A B : ℕ) (f : ℕ → ℕ → α) : (grid2 A B f).length = A := by simp [grid2]

theorem getD_grid2 {A B : ℕ} (f : ℕ → ℕ → α) {a : ℕ} (ha : a < A) :
    (grid2 A B f).getD a [] = (List.range B).map (fun b => f a b) := by
  simp [grid2, List.getD_eq_getElem?_getD, ha]

theorem get2_grid2 [Inhabited α] {A B : ℕ} (f : ℕ → ℕ → α) {a b : ℕ} (ha : a < A) (hb : b < B) :
    get2 (grid2 A B f) a b = f a b := by
  unfold get2
  rw [getD_grid2 f ha]
  simp [List.getD_eq_getElem?_getD, hb]

theorem headD_grid2 {A B : ℕ} (f : ℕ → ℕ → α) (hA : 0 < A) :
    ((grid2 A B f).headD []).length = B := by
  obtain ⟨A', rfl⟩ : ∃ A', A = A' + 1 := ⟨A - 1, by omega⟩
  simp [grid2, List.range_succ_eq_map]

/-! ### `tab3` -/

theorem length_tab3 (C A B : ℕ) (f : ℕ → ℕ → ℕ → α) : (tab3 C A B f).length = C * A * B := by
  unfold tab3
  rw [length_flatMap_range _ (A * B) C (fun c _ => length_tab2 A B (f c))]; ring

theorem getElem?_tab3 {C A B : ℕ} (f : ℕ → ℕ → ℕ → α) {c a b : ℕ} (hc : c < C) (ha : a < A) (hb : b < B) :
    (tab3 C A B f)[b + B * (a + A * c)]? = some (f c a b) := by
  unfold tab3
  have e : b + B * (a + A * c) = (b + B * a) + (A * B) * c := by ring
  rw [e, getElem?_flatMap_range _ (A * B) C (fun c _ => length_tab2 A B (f c)) c (b + B * a) hc
    (flatIdx2_lt ha hb), getElem?_tab2 (f c) ha hb]

theorem getD_tab3 {C A B : ℕ} (f : ℕ → ℕ → ℕ → α) {c a b : ℕ} (hc : c < C) (ha : a < A) (hb : b < B) (d : α) :
    (tab3 C A B f).getD (b + B * (a + A * c)) d = f c a b := by
  rw [List.getD_eq_getElem?_getD, getElem?_tab3 f hc ha hb]; rfl

theorem eq_tab3 {C A B : ℕ} {f : ℕ → ℕ → ℕ → α} {L : List α} (hl : L.length = C * A * B)
    (h : ∀ c < C, ∀ a < A, ∀ b < B, L[b + B * (a + A * c)]? = some (f c a b)) : L = tab3 C A B f := by
  apply List.ext_getElem?
  intro i
  by_cases hi : i < C * A * B
  · have e : C * A * B = A * B * C := by ring
    obtain ⟨h1, h2, h3, h4⟩ := flatIdx3_divmod (su := A) (sv := B) (sw := C) (by rw [← e]; exact hi)
    unfold flatIdx3 at h4
    rw [← h4, h _ h3 _ h1 _ h2, getElem?_tab3 f h3 h1 h2]
  · rw [List.getElem?_eq_none (by omega), List.getElem?_eq_none (by rw [length_tab3]; omega)]

theorem tab3_congr {C A B : ℕ} {f g : ℕ → ℕ → ℕ → α}
    (h : ∀ c < C, ∀ a < A, ∀ b < B, f c a b = g c a b) : tab3 C A B f = tab3 C A B g := by
  apply eq_tab3 (length_tab3 C A B f)
  intro c hc a ha b hb
  rw [getElem?_tab3 f hc ha hb, h c hc a ha b hb]

/-- reading a flat volume net in loop order `for w: for u: for v:` at `v + sv*(u + su*w)` reproduces it -/
theorem tab3_getD_self [Inhabited α] {C A B : ℕ} {P : List α} (h : P.length = A * B * C) :
    tab3 C A B (fun c a b => P.getD (b + B * (a + A * c)) default) = P := by
  symm
  apply eq_tab3 (by rw [h]; ring)
  intro c hc a ha b hb
  exact getElem?_of_getD (by rw [h]; exact flatIdx3_lt ha hb hc)

end Geomdl
