import NurbsVerif.Lemmas.AffineAssembleXform

/-!
  C10, assembly part 4: any finite sequence of `translate` / `scale` / `rotate` calls.  The evaluated
  point of the final shape is the original evaluated point moved by the composition of the point maps
  of the calls (a rotation in the sequence is about the start point of the shape it is applied to, which
  is itself the image of the original start point under the calls before it); that composition is one
  affine map; knots, degrees, sizes and weights are unchanged.
-/
namespace Geomdl
open Blossom Finset
variable {K : Type} [Field K] [LinearOrder K] [IsStrictOrderedRing K]

/-- one call of `operations.translate` / `scale` / `rotate` (cos and sin of the angle as numbers) -/
inductive Xform (K : Type) where
  | translate (v : List K)
  | scale (m : K)
  | rotate (axis : ℕ) (c s : K)

/-- the call applied to a shape: the model functions of `Model/Transform.lean` -/
def Xform.apply (S : Shape K) : Xform K → Shape K
  | .translate v => Geomdl.translate S v
  | .scale m => Geomdl.scale S m
  | .rotate a c s => Geomdl.rotate S a c s

/-- what the call does to a single Cartesian point of the shape `S` -/
def Xform.ptMap (S : Shape K) : Xform K → List K → List K
  | .translate v => translatePt v
  | .scale m => scalePt m
  | .rotate a c s => rotateAbout a c s (startPoint S)

/-- the call is admissible for points with `d` coordinates: the translation vector has `d` entries,
    rotations are for 2-D and 3-D shapes and about axis 0, 1 or 2 (otherwise `operations.rotate` raises; the model
    would fall into the formulas of the y axis) -/
def Xform.Ok (d : ℕ) : Xform K → Prop
  | .translate v => v.length = d
  | .scale _ => True
  | .rotate a _ _ => (d = 2 ∨ d = 3) ∧ a ≤ 2

/-- the calls applied one after the other -/
def applyAll (S : Shape K) (xs : List (Xform K)) : Shape K := xs.foldl Xform.apply S

/-- the composed point map: each call acts on the points of the shape it is applied to -/
def ptMapAll : Shape K → List (Xform K) → List K → List K
  | _, [], pt => pt
  | S, x :: xs, pt => ptMapAll (x.apply S) xs (x.ptMap S pt)

theorem applyAll_cons (S : Shape K) (x : Xform K) (xs : List (Xform K)) :
    applyAll S (x :: xs) = applyAll (x.apply S) xs := rfl

/-! ### one call -/

theorem Xform.apply_wf {d : ℕ} {S : Shape K} (h : ShapeWF d S) (x : Xform K) (hx : x.Ok d) : ShapeWF d (x.apply S) := by
  cases x with
  | translate v => exact translate_wf h v hx
  | scale m => exact scale_wf h m
  | rotate a c s => exact rotate_wf h hx.1 a c s

theorem Xform.apply_pointAt {d : ℕ} {S : Shape K} (h : ShapeWF d S) (x : Xform K) (hx : x.Ok d)
    (t : ℕ → K) (ht : S.InDom t) : (x.apply S).pointAt t = x.ptMap S (S.pointAt t) := by
  cases x with
  | translate v => exact translate_pointAt h v hx t ht
  | scale m => exact scale_pointAt h m t ht
  | rotate a c s => exact rotate_pointAt h hx.1 a c s t ht

/-- a call changes neither the rational flag nor degrees, knot vectors, sizes -/
theorem Xform.apply_same (S : Shape K) (x : Xform K) :
    (x.apply S).rat = S.rat ∧ (x.apply S).degs = S.degs ∧ (x.apply S).kvs = S.kvs ∧ (x.apply S).sizes = S.sizes := by
  cases x <;> exact ⟨rfl, rfl, rfl, rfl⟩

theorem Xform.apply_inDom (S : Shape K) (x : Xform K) (t : ℕ → K) : (x.apply S).InDom t ↔ S.InDom t := by
  cases x <;> exact Iff.rfl

theorem Xform.apply_domStart (S : Shape K) (x : Xform K) : (x.apply S).domStart = S.domStart := by
  cases x <;> rfl

theorem Xform.ptMap_affOn {d : ℕ} {S : Shape K} (h : ShapeWF d S) (x : Xform K) (hx : x.Ok d) :
    ∃ A b, AffOn d (x.ptMap S) A b := by
  cases x with
  | translate v => exact ⟨_, _, translatePt_affOn d v hx⟩
  | scale m => exact ⟨_, _, scalePt_affOn d m⟩
  | rotate a c s => exact rotateAbout_affOn d hx.1 a c s _ h.startPoint_length

theorem Xform.apply_weights {d : ℕ} {S : Shape K} (h : ShapeWF d S) (hr : S.rat = true) (x : Xform K) (hx : x.Ok d) :
    (x.apply S).net.length = S.net.length ∧
    ∀ i, i < S.net.length → (ptsGet (x.apply S).net i).getD d 0 = (ptsGet S.net i).getD d 0 := by
  cases x with
  | translate v => exact translate_weights h hr v hx
  | scale m => exact scale_weights h hr m
  | rotate a c s => exact rotate_weights h hr hx.1 a c s

/-! ### sequences -/

theorem applyAll_wf {d : ℕ} : ∀ (xs : List (Xform K)) {S : Shape K}, ShapeWF d S → (∀ x ∈ xs, x.Ok d) →
    ShapeWF d (applyAll S xs)
  | [], _, h, _ => h
  | x :: xs, S, h, hx => by
    rw [applyAll_cons]
    exact applyAll_wf xs (x.apply_wf h (hx x (by simp))) (fun y hy => hx y (by simp [hy]))

theorem applyAll_same : ∀ (xs : List (Xform K)) (S : Shape K),
    (applyAll S xs).rat = S.rat ∧ (applyAll S xs).degs = S.degs ∧ (applyAll S xs).kvs = S.kvs ∧
      (applyAll S xs).sizes = S.sizes
  | [], _ => ⟨rfl, rfl, rfl, rfl⟩
  | x :: xs, S => by
    obtain ⟨a1, a2, a3, a4⟩ := applyAll_same xs (x.apply S)
    obtain ⟨b1, b2, b3, b4⟩ := x.apply_same S
    rw [applyAll_cons]
    exact ⟨a1.trans b1, a2.trans b2, a3.trans b3, a4.trans b4⟩

theorem applyAll_domStart : ∀ (xs : List (Xform K)) (S : Shape K), (applyAll S xs).domStart = S.domStart
  | [], _ => rfl
  | x :: xs, S => by rw [applyAll_cons, applyAll_domStart xs, x.apply_domStart]

/-- **every evaluated point moves by the composed map** -/
theorem applyAll_pointAt {d : ℕ} : ∀ (xs : List (Xform K)) {S : Shape K}, ShapeWF d S → (∀ x ∈ xs, x.Ok d) →
    ∀ (t : ℕ → K), S.InDom t → (applyAll S xs).pointAt t = ptMapAll S xs (S.pointAt t)
  | [], _, _, _, _, _ => rfl
  | x :: xs, S, h, hx, t, ht => by
    rw [applyAll_cons, applyAll_pointAt xs (x.apply_wf h (hx x (by simp))) (fun y hy => hx y (by simp [hy])) t
      ((x.apply_inDom S t).mpr ht), x.apply_pointAt h (hx x (by simp)) t ht]
    rfl

theorem affOn_id (d : ℕ) : AffOn d (fun pt : List K => pt) (fun j l => if l = j then 1 else 0) (fun _ => 0) where
  len := fun _ h => h
  coord := by
    intro pt _ j hj
    rw [sum_indicator d j hj, add_zero]

/-- the composed map is one affine map of the coordinates -/
theorem ptMapAll_affOn {d : ℕ} : ∀ (xs : List (Xform K)) {S : Shape K}, ShapeWF d S → (∀ x ∈ xs, x.Ok d) →
    ∃ A b, AffOn d (ptMapAll S xs) A b
  | [], _, _, _ => ⟨_, _, affOn_id d⟩
  | x :: xs, S, h, hx => by
    obtain ⟨A1, b1, h1⟩ := x.ptMap_affOn h (hx x (by simp))
    obtain ⟨A2, b2, h2⟩ := ptMapAll_affOn xs (x.apply_wf h (hx x (by simp))) (fun y hy => hx y (by simp [hy]))
    exact ⟨_, _, AffOn.comp h1 h2⟩

/-- the start point of the final shape (the centre of a further rotation) is the image of the original
    start point under the composed map -/
theorem applyAll_startPoint {d : ℕ} (xs : List (Xform K)) {S : Shape K} (h : ShapeWF d S) (hx : ∀ x ∈ xs, x.Ok d) :
    startPoint (applyAll S xs) = ptMapAll S xs (startPoint S) := by
  rw [startPoint_eq_pointAt, startPoint_eq_pointAt, applyAll_domStart]
  exact applyAll_pointAt xs h hx _ h.domStart_inDom

/-- weights of the control points after any sequence of calls -/
theorem applyAll_weights {d : ℕ} : ∀ (xs : List (Xform K)) {S : Shape K}, ShapeWF d S → S.rat = true → (∀ x ∈ xs, x.Ok d) →
    (applyAll S xs).net.length = S.net.length ∧
    ∀ i, i < S.net.length → (ptsGet (applyAll S xs).net i).getD d 0 = (ptsGet S.net i).getD d 0
  | [], _, _, _, _ => ⟨rfl, fun _ _ => rfl⟩
  | x :: xs, S, h, hr, hx => by
    obtain ⟨l1, w1⟩ := x.apply_weights h hr (hx x (by simp))
    obtain ⟨l2, w2⟩ := applyAll_weights xs (x.apply_wf h (hx x (by simp))) ((x.apply_same S).1.trans hr)
      (fun y hy => hx y (by simp [hy]))
    rw [applyAll_cons]
    refine ⟨l2.trans l1, ?_⟩
    intro i hi
    rw [w2 i (by rw [l1]; exact hi), w1 i hi]

end Geomdl
