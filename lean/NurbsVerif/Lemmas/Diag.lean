import NurbsVerif.Model.Basis
import NurbsVerif.Lemmas.Blossom

namespace Blossom
open Geomdl
variable {K : Type} [Field K]

/-- weighted sum of a list against `c b, c (b+1), …` -/
def wsum : List K → (ℕ → K) → ℕ → K
  | [], _, _ => 0
  | n :: ns, c, b => n * c b + wsum ns c (b+1)

/-- what the inner loop of A2.2 distributes -/
def asum (L R : ℕ → K) (j : ℕ) : ℕ → List K → (ℕ → K) → ℕ → K
  | _, [], _, _ => 0
  | r, n :: ns, c, b =>
      n / (R (r+1) + L (j - r)) * (R (r+1) * c b + L (j - r) * c (b+1)) + asum L R j (r+1) ns c (b+1)

theorem wsum_bfInner (L R : ℕ → K) (j : ℕ) (N : List K) : ∀ (r : ℕ) (s : K) (c : ℕ → K) (b : ℕ),
    wsum (bfInner L R j r N s) c b = s * c b + asum L R j r N c b := by
  induction N with
  | nil => intro r s c b; simp [bfInner, wsum, asum]
  | cons n ns ih =>
    intro r s c b
    simp only [bfInner, wsum, asum]
    rw [ih]
    ring

theorem asum_eq (U : ℕ → K) (k j : ℕ) (u : K) (hj : 1 ≤ j) (hjk : j ≤ k) (N : List K) :
    ∀ (r : ℕ) (c : ℕ → K), r + N.length ≤ j →
      asum (left U k u) (right U k u) j r N c (k - j + r)
        = wsum N (dbStep U j u c) (k - j + r + 1) := by
  induction N with
  | nil => intro r c _; simp [asum, wsum]
  | cons n ns ih =>
    intro r c hr
    simp only [List.length_cons] at hr
    simp only [asum, wsum]
    have e : k - j + r + 1 = k - j + (r+1) := by omega
    rw [e, ih (r+1) c (by omega)]
    congr 1
    unfold dbStep left right
    have i1 : k - j + (r+1) + j = k + (r+1) := by omega
    have i2 : k - j + (r+1) - 1 = k - j + r := by omega
    have i3 : k + 1 - (j - r) = k - j + (r+1) := by omega
    rw [i1, i2, i3]
    ring

theorem basisFuns_succ (p : ℕ) (U : ℕ → K) (k : ℕ) (u : K) :
    basisFuns (p+1) U k u = bfStep (left U k u) (right U k u) (basisFuns p U k u) (p+1) := by
  unfold basisFuns
  rw [List.range'_1_concat, List.foldl_append]
  simp [Nat.add_comm]

theorem basisFuns_length (p : ℕ) (U : ℕ → K) (k : ℕ) (u : K) : (basisFuns p U k u).length = p + 1 := by
  induction p with
  | zero => simp [basisFuns]
  | succ p ih =>
    rw [basisFuns_succ]
    unfold bfStep
    have : ∀ (N : List K) (r : ℕ) (s : K), (bfInner (left U k u) (right U k u) (p+1) r N s).length = N.length + 1 := by
      intro N
      induction N with
      | nil => intros; simp [bfInner]
      | cons n ns ih2 => intro r s; simp [bfInner, ih2]
    rw [this, ih]

/-- (D): A3.1 with the A2.2 basis functions is the diagonal of the polar form -/
theorem diag (U : ℕ → K) (k : ℕ) (u : K) : ∀ (p : ℕ), p ≤ k → ∀ (c : ℕ → K),
    wsum (basisFuns p U k u) c (k - p) = polar U p (List.replicate p u) c k := by
  intro p
  induction p with
  | zero => intro _ c; simp [basisFuns, wsum, polar]
  | succ p ih =>
    intro hp c
    rw [basisFuns_succ]
    unfold bfStep
    rw [wsum_bfInner]
    have h := asum_eq U k (p+1) u (by omega) hp (basisFuns p U k u) 0 c (by rw [basisFuns_length]; omega)
    simp only [Nat.add_zero] at h
    rw [h]
    have e : k - (p+1) + 1 = k - p := by omega
    rw [e, ih (by omega)]
    simp [List.replicate_succ, polar]
end Blossom
