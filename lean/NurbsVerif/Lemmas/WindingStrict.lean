import NurbsVerif.Lemmas.WindingConvex

/-!
C20, `wn_poly` for a strictly convex counter-clockwise polygon and a point that is not on the
boundary (not on any closed edge *segment*): a point on the line of an edge but outside the segment is
strictly right of the neighbouring edge.
-/
namespace Geomdl
variable {K : Type} [Field K] [LinearOrder K] [IsStrictOrderedRing K]

/-- `p` lies on the closed segment `a b`: on the line, and between the end points (both scalar
    products with the edge direction are non-negative) -/
def onSegment (a b p : K × K) : Prop :=
  isLeft a b p = 0 ∧ 0 ≤ (p.1 - a.1) * (b.1 - a.1) + (p.2 - a.2) * (b.2 - a.2) ∧
    0 ≤ (p.1 - b.1) * (a.1 - b.1) + (p.2 - b.2) * (a.2 - b.2)

/-- meaning of `onSegment`: the point `a + t (b - a)` lies on the segment `a b` (`a ≠ b`) iff `0 ≤ t ≤ 1` -/
theorem onSegment_param (a b : K × K) (hne : a ≠ b) (t : K) :
    onSegment a b (a.1 + t * (b.1 - a.1), a.2 + t * (b.2 - a.2)) ↔ 0 ≤ t ∧ t ≤ 1 := by
  have hpos := normSq_pos_of_ne a b hne
  unfold onSegment
  have e0 : isLeft a b (a.1 + t * (b.1 - a.1), a.2 + t * (b.2 - a.2)) = 0 := by unfold isLeft; ring
  have e1 : (a.1 + t * (b.1 - a.1) - a.1) * (b.1 - a.1) + (a.2 + t * (b.2 - a.2) - a.2) * (b.2 - a.2)
      = t * ((b.1 - a.1) ^ 2 + (b.2 - a.2) ^ 2) := by ring
  have e2 : (a.1 + t * (b.1 - a.1) - b.1) * (a.1 - b.1) + (a.2 + t * (b.2 - a.2) - b.2) * (a.2 - b.2)
      = (1 - t) * ((b.1 - a.1) ^ 2 + (b.2 - a.2) ^ 2) := by ring
  simp only [e0, e1, e2, true_and]
  constructor
  · rintro ⟨h1, h2⟩
    exact ⟨by by_contra hc; have := mul_neg_of_neg_of_pos (not_le.mp hc) hpos; linarith,
      by by_contra hc; have := mul_neg_of_neg_of_pos (sub_neg.mpr (not_le.mp hc)) hpos; linarith⟩
  · rintro ⟨h1, h2⟩
    exact ⟨mul_nonneg h1 (le_of_lt hpos), mul_nonneg (sub_nonneg.mpr h2) (le_of_lt hpos)⟩

/-- on the line of `a b` beyond `b`, next edge `b c` turning strictly left ⟹ strictly right of `b c` -/
theorem beyond_end {a b c p : K × K} (h0 : isLeft a b p = 0)
    (hd : (p.1 - b.1) * (a.1 - b.1) + (p.2 - b.2) * (a.2 - b.2) < 0) (ht : 0 < isLeft a b c) :
    isLeft b c p < 0 := by
  have key : isLeft a b c * ((p.1 - b.1) * (a.1 - b.1) + (p.2 - b.2) * (a.2 - b.2))
      = isLeft b c p * ((b.1 - a.1) ^ 2 + (b.2 - a.2) ^ 2)
        - isLeft a b p * ((c.1 - b.1) * (b.1 - a.1) + (c.2 - b.2) * (b.2 - a.2)) := by
    unfold isLeft; ring
  rw [h0, zero_mul, sub_zero] at key
  have hneg := mul_neg_of_pos_of_neg ht hd
  rw [key] at hneg
  have hsq : 0 ≤ (b.1 - a.1) ^ 2 + (b.2 - a.2) ^ 2 := by positivity
  by_contra hc
  have := mul_nonneg (not_lt.mp hc) hsq
  linarith

/-- on the line of `a b` before `a`, previous edge `z a` turning strictly left ⟹ strictly right of `z a` -/
theorem before_start {z a b p : K × K} (h0 : isLeft a b p = 0)
    (hd : (p.1 - a.1) * (b.1 - a.1) + (p.2 - a.2) * (b.2 - a.2) < 0) (ht : 0 < isLeft z a b) :
    isLeft z a p < 0 := by
  have key : isLeft z a b * ((p.1 - a.1) * (b.1 - a.1) + (p.2 - a.2) * (b.2 - a.2))
      = isLeft z a p * ((b.1 - a.1) ^ 2 + (b.2 - a.2) ^ 2)
        - isLeft a b p * ((a.1 - z.1) * (b.1 - a.1) + (a.2 - z.2) * (b.2 - a.2)) := by
    unfold isLeft; ring
  rw [h0, zero_mul, sub_zero] at key
  have hneg := mul_neg_of_pos_of_neg ht hd
  rw [key] at hneg
  have hsq : 0 ≤ (b.1 - a.1) ^ 2 + (b.2 - a.2) ^ 2 := by positivity
  by_contra hc
  have := mul_nonneg (not_lt.mp hc) hsq
  linarith

theorem mem_pairs_split {α : Type} : ∀ (l : List α) (e : α × α), e ∈ pairs l →
    ∃ A B, l = A ++ e.1 :: e.2 :: B
  | [], e, h => by simp [pairs] at h
  | [_], e, h => by simp [pairs] at h
  | a :: b :: rest, e, h => by
    simp only [pairs, List.mem_cons] at h
    rcases h with rfl | h
    · exact ⟨[], rest, rfl⟩
    · obtain ⟨A, B, hAB⟩ := mem_pairs_split (b :: rest) e h
      exact ⟨a :: A, B, by rw [hAB]; rfl⟩

/-- cyclic neighbours: for an edge `a b` of the closed polygon of `H` (at least two vertices) there
    are an edge `b c` and an edge `z a` such that `a b c` and `z a b` are consecutive in
    `H ++ H[:2]` -/
theorem cyclic_neighbours {α : Type} (H : List α) (h2 : 2 ≤ H.length) (a b : α)
    (he : (a, b) ∈ pairs (H ++ H.take 1)) :
    (∃ c A B, (b, c) ∈ pairs (H ++ H.take 1) ∧ H ++ H.take 2 = A ++ a :: b :: c :: B) ∧
    (∃ z A B, (z, a) ∈ pairs (H ++ H.take 1) ∧ H ++ H.take 2 = A ++ z :: a :: b :: B) := by
  match H, h2, he with
  | [], h2, _ => simp at h2
  | [_], h2, _ => simp at h2
  | h0 :: h1 :: T, _, he =>
    have eC : (h0 :: h1 :: T) ++ (h0 :: h1 :: T).take 1 = h0 :: h1 :: (T ++ [h0]) := by simp
    have eX : (h0 :: h1 :: T) ++ (h0 :: h1 :: T).take 2 = (h0 :: h1 :: (T ++ [h0])) ++ [h1] := by simp
    rw [eC] at he ⊢
    rw [eX]
    obtain ⟨A, B, hAB⟩ := mem_pairs_split _ _ he
    simp only at hAB
    constructor
    · -- the next edge
      cases B with
      | nil =>
        -- `b` is the closing vertex `h0`
        have hb : b = h0 := by
          have h1' := congrArg List.getLast? hAB
          have l1 : (h0 :: h1 :: (T ++ [h0])).getLast? = some h0 := by
            rw [show h0 :: h1 :: (T ++ [h0]) = (h0 :: h1 :: T) ++ [h0] by simp, List.getLast?_concat]
          have l2 : (A ++ [a, b]).getLast? = some b := by
            rw [show A ++ [a, b] = (A ++ [a]) ++ [b] by simp, List.getLast?_concat]
          rw [l1, l2] at h1'
          exact (Option.some.inj h1').symm
        subst hb
        exact ⟨h1, A, [], by simp [pairs], by rw [hAB]; simp⟩
      | cons c B' =>
        refine ⟨c, A, B' ++ [h1], ?_, by rw [hAB]; simp⟩
        rw [hAB]
        have : A ++ a :: b :: c :: B' = (A ++ [a]) ++ b :: c :: B' := by simp
        rw [this]; exact mem_pairs_mid b c B' _
    · -- the previous edge
      rcases List.eq_nil_or_concat A with hA | ⟨A', z, hA⟩
      · -- `a` is the first vertex `h0`: the previous vertex is the last one of `H`
        subst hA
        simp only [List.nil_append, List.cons.injEq] at hAB
        obtain ⟨ha, hb, hB⟩ := hAB
        subst ha hb
        rcases List.eq_nil_or_concat (h1 :: T) with hT | ⟨T', z, hT⟩
        · simp at hT
        · rw [List.concat_eq_append] at hT
          refine ⟨z, h0 :: T', [], ?_, ?_⟩
          · have : h0 :: h1 :: (T ++ [h0]) = (h0 :: T') ++ z :: h0 :: [] := by
              have : h0 :: h1 :: (T ++ [h0]) = h0 :: ((h1 :: T) ++ [h0]) := by simp
              rw [this, hT]; simp
            rw [this]; exact mem_pairs_mid z h0 [] _
          · have : h0 :: h1 :: (T ++ [h0]) ++ [h1] = h0 :: ((h1 :: T) ++ [h0, h1]) := by simp
            rw [this, hT]; simp
      · rw [List.concat_eq_append] at hA
        subst hA
        refine ⟨z, A', B ++ [h1], ?_, by rw [hAB]; simp⟩
        rw [hAB]
        have : A' ++ [z] ++ a :: b :: B = A' ++ z :: a :: (b :: B) := by simp
        rw [this]; exact mem_pairs_mid z a _ _

/-- **Winding test, strictly convex polygon, point off the boundary.**  `H` the vertex list
    (counter-clockwise, every vertex left of or on every edge, every three cyclically consecutive
    vertices turn strictly left), `pt` on none of the closed edge segments: `wn_poly(pt, H + [H[0]])`
    is true exactly when `pt` is strictly left of every edge. -/
theorem wnPoly_strictConvex_iff (H : List (K × K)) (pt : K × K)
    (hconv : ∀ e ∈ pairs (H ++ H.take 1), ∀ v ∈ H, 0 ≤ isLeft e.1 e.2 v)
    (hstrict : LeftChainFwd (H ++ H.take 2)) (h2 : 2 ≤ H.length)
    (hoff : ∀ e ∈ pairs (H ++ H.take 1), ¬ onSegment e.1 e.2 pt) :
    wnPoly pt (H ++ H.take 1) = true ↔ ∀ e ∈ pairs (H ++ H.take 1), 0 < isLeft e.1 e.2 pt := by
  have hclosed : (H ++ H.take 1).head? = (H ++ H.take 1).getLast? := by
    match H, h2 with
    | [], h2 => simp at h2
    | h0 :: T, _ =>
      have : (h0 :: T) ++ (h0 :: T).take 1 = (h0 :: T) ++ [h0] := by simp
      rw [this, List.getLast?_concat]; rfl
  have hlen : 2 ≤ (H ++ H.take 1).length := by rw [List.length_append]; omega
  have hconv' : ∀ e ∈ pairs (H ++ H.take 1), ∀ v ∈ H ++ H.take 1, 0 ≤ isLeft e.1 e.2 v := by
    intro e he v hv
    rcases List.mem_append.mp hv with h | h
    · exact hconv e he v h
    · exact hconv e he v (List.mem_of_mem_take h)
  unfold wnPoly
  rw [bne_iff_ne]
  constructor
  · intro hwn e he
    by_contra hc
    rcases lt_or_eq_of_le (not_lt.mp hc) with hlt | heq
    · exact hwn (wnNum_separated pt e.1 e.2 _ hclosed hlt (hconv' e he))
    · -- on the line of the edge, but not on the segment
      obtain ⟨⟨c, A, B, hbc, hX⟩, ⟨z, A', B', hza, hX'⟩⟩ := cyclic_neighbours H h2 e.1 e.2 he
      have hoff' := hoff e he
      unfold onSegment at hoff'
      rw [not_and, not_and_or] at hoff'
      rcases hoff' heq with hd | hd
      · have ht : 0 < isLeft z e.1 e.2 := by
          rw [hX'] at hstrict
          exact (turn_eq_one_iff _ _ _).mp (LeftChainFwd_mid z e.1 e.2 B' A' hstrict)
        have := before_start heq (not_le.mp hd) ht
        exact hwn (wnNum_separated pt z e.1 _ hclosed this (hconv' (z, e.1) hza))
      · have ht : 0 < isLeft e.1 e.2 c := by
          rw [hX] at hstrict
          exact (turn_eq_one_iff _ _ _).mp (LeftChainFwd_mid e.1 e.2 c B A hstrict)
        have := beyond_end heq (not_le.mp hd) ht
        exact hwn (wnNum_separated pt e.2 c _ hclosed this (hconv' (e.2, c) hbc))
  · intro h
    have := wnNum_inside pt _ hclosed hlen h
    omega

/-- **`wn_poly` on the output of `convex_hull`, point off the boundary.**  If the hull `H` has at
    least three vertices and `pt` lies on none of its closed edge segments, the winding test against
    `H + [H[0]]` is true exactly when `pt` is strictly left of every hull edge. -/
theorem wnPoly_convexHull_offBoundary (pts : List (K × K)) (h3 : 3 ≤ (convexHull pts).length) (pt : K × K)
    (hoff : ∀ e ∈ pairs (convexHull pts ++ (convexHull pts).take 1), ¬ onSegment e.1 e.2 pt) :
    wnPoly pt (convexHull pts ++ (convexHull pts).take 1) = true ↔
      ∀ e ∈ pairs (convexHull pts ++ (convexHull pts).take 1), 0 < isLeft e.1 e.2 pt :=
  wnPoly_strictConvex_iff (convexHull pts) pt
    (fun e he v hv => convexHull_contains pts v (convexHull_subset pts v hv) e he)
    (convexHull_strict pts h3) (by omega) hoff

end Geomdl
